(* Parser round trip: tzparse (render_posix r) is the rule's AST, for every well-formed rule. *)
From Coq Require Import ZArith List Bool Lia ZifyBool.
From V Require Import base.Cal posix.PTime posix.RDelta posix.TzParseModel posix.TzRangeModel
     posix.PosixSpec posix.TransThm posix.MainThm posix.PosixThm.
Import ListNotations.
Ltac Zify.zify_post_hook ::= Z.to_euclidean_division_equations.
Open Scope Z_scope.

(* ------------------------------------------------------------------------------------ *)
(* digit tokens                                                                          *)

Definition digtok (t : list Z) : Prop := t <> [] /\ forallb is_digit t = true.

Lemma digits_n_all k : forall n, forallb is_digit (digits_n k n) = true.
Proof.
  induction k as [|k IH]; intros n; [reflexivity|].
  cbn [digits_n]. rewrite forallb_app, IH. cbn [forallb]. unfold is_digit. lia.
Qed.

Lemma digits_n_length k : forall n, length (digits_n k n) = k.
Proof.
  induction k as [|k IH]; intros n; [reflexivity|].
  cbn [digits_n]. rewrite app_length, IH. cbn. lia.
Qed.

Lemma digits_n_digtok k n : (0 < k)%nat -> digtok (digits_n k n).
Proof.
  intros Hk. split; [|apply digits_n_all].
  intros E. pose proof (digits_n_length k n) as L. rewrite E in L. cbn in L. lia.
Qed.

Lemma dec_digtok n : digtok (dec n).
Proof.
  unfold dec.
  repeat match goal with |- context [if ?b then _ else _] => destruct b end;
    apply digits_n_digtok; lia.
Qed.

(* int() of a rendered number *)
Lemma int_acc_app a x y : int_acc a (x ++ y) =
  match int_acc a x with Some v => int_acc v y | None => None end.
Proof.
  revert a. induction x as [|c x IH]; intros a; [reflexivity|].
  cbn [app int_acc]. destruct (is_digit c); [apply IH|reflexivity].
Qed.

Lemma int_acc_digits k : forall a n, 0 <= n < 10 ^ Z.of_nat k ->
  int_acc a (digits_n k n) = Some (a * 10 ^ Z.of_nat k + n).
Proof.
  induction k as [|k IH]; intros a n Hn.
  - cbn in *. f_equal; lia.
  - cbn [digits_n]. rewrite int_acc_app.
    rewrite Nat2Z.inj_succ, Z.pow_succ_r in * by lia.
    rewrite IH by lia. cbn [int_acc].
    replace (is_digit (48 + n mod 10)) with true by (unfold is_digit; lia).
    f_equal. lia.
Qed.

Lemma int_tok_digits k n : (0 < k)%nat -> 0 <= n < 10 ^ Z.of_nat k ->
  int_tok (digits_n k n) = Some n.
Proof.
  intros Hk Hn. unfold int_tok.
  destruct (digits_n k n) eqn:E.
  - pose proof (digits_n_length k n) as L. rewrite E in L. cbn in L. lia.
  - rewrite <- E. rewrite int_acc_digits by assumption. f_equal; lia.
Qed.

Lemma int_tok_dec n : 0 <= n < 1000000 -> int_tok (dec n) = Some n.
Proof.
  intros Hn. unfold dec.
  repeat match goal with |- context [if ?a <? ?b then _ else _] => destruct (Z.ltb_spec a b) end;
    apply int_tok_digits; try lia; cbn; lia.
Qed.

Lemma dec_length n : 0 <= n < 1000 -> (1 <= length (dec n) <= 3)%nat.
Proof.
  intros Hn. unfold dec.
  repeat match goal with |- context [if ?a <? ?b then _ else _] => destruct (Z.ltb_spec a b) end;
    rewrite digits_n_length; lia.
Qed.

(* what the parser can observe of a digit token *)
Lemma digtok_neq t c : digtok t -> is_digit c = false -> list_eqb t [c] = false.
Proof.
  intros [Hn Ha] Hc. destruct t as [|x t]; [congruence|].
  cbn [forallb] in Ha. apply andb_prop in Ha. destruct Ha as [Hx _].
  cbn [list_eqb]. destruct (Z.eqb_spec x c) as [->|N]; [congruence|reflexivity].
Qed.

Lemma digtok_name t : digtok t -> name_tok t = false.
Proof.
  intros [Hn Ha]. destruct t as [|x t]; [congruence|].
  cbn [forallb] in Ha. apply andb_prop in Ha. destruct Ha as [Hx _].
  cbn [name_tok forallb]. rewrite Hx. reflexivity.
Qed.

Lemma digtok_first t : digtok t -> match t with c :: _ => is_digit c | [] => false end = true.
Proof.
  intros [Hn Ha]. destruct t as [|x t]; [congruence|].
  cbn [forallb] in Ha. apply andb_prop in Ha. tauto.
Qed.

Lemma digtok_ok t : digtok t -> posix_tok_ok t = true.
Proof.
  intros [Hn Ha]. unfold posix_tok_ok, all_chars. rewrite Ha. apply orb_true_r.
Qed.

(* names *)
Lemma wf_name_facts nm : wf_name nm = true ->
  name_tok nm = true /\ (forall c, list_eqb nm [c] = false) /\ nm <> [].
Proof.
  unfold wf_name. intros H. apply andb_prop in H. destruct H as [L A].
  split; [|split].
  - unfold name_tok. rewrite forallb_forall in *. intros c Hc. specialize (A c Hc).
    unfold is_alpha_c, is_digit in *. lia.
  - intros c. destruct nm as [|x [|y t]]; cbn in L; try discriminate.
    cbn [list_eqb]. rewrite andb_false_r. reflexivity.
  - destruct nm; cbn in L; [discriminate|congruence].
Qed.

(* ------------------------------------------------------------------------------------ *)
(* the tokeniser splits a concatenation of class-homogeneous tokens back into the tokens   *)

Definition tclass (t : list Z) : Z := match t with c :: _ => cls c | [] => 0 end.

Definition homog (t : list Z) : bool :=
  match t with
  | [] => false
  | c :: rest => if cls c =? 3 then match rest with [] => true | _ => false end
                 else forallb (fun x => cls x =? cls c) rest
  end.

Fixpoint good (ts : list (list Z)) : bool :=
  match ts with
  | [] => true
  | t :: rest =>
      homog t &&
      match rest with
      | t2 :: _ => (tclass t =? 3) || negb (tclass t =? tclass t2)
      | [] => true
      end && good rest
  end.

Lemma tok_run t' : forall cur k s, cur <> [] -> k <> 3 ->
  forallb (fun x => cls x =? k) t' = true ->
  tok (t' ++ s) cur k = tok s (cur ++ t') k.
Proof.
  induction t' as [|c t' IH]; intros cur k s Hc Hk Ha.
  - cbn. rewrite app_nil_r. reflexivity.
  - cbn [forallb] in Ha. apply andb_prop in Ha. destruct Ha as [H1 H2].
    cbn [app tok]. apply Z.eqb_eq in H1. rewrite H1.
    replace (k =? 3) with false by lia. destruct cur as [|x cur]; [congruence|].
    rewrite Z.eqb_refl. rewrite IH; try assumption.
    + rewrite <- app_assoc. reflexivity.
    + destruct cur; discriminate.
Qed.

Lemma tok_boundary s cur k : cur <> [] ->
  match s with c :: _ => cls c <> k | [] => True end ->
  tok s cur k = cur :: tok s [] 0.
Proof.
  intros Hc Hs. destruct s as [|c t].
  - cbn. destruct cur; [congruence|reflexivity].
  - cbn [tok]. destruct (Z.eqb_spec (cls c) 3).
    + destruct cur; [congruence|reflexivity].
    + destruct cur as [|x cur]; [congruence|].
      replace (cls c =? k) with false by lia. reflexivity.
Qed.

Lemma tok_good ts : good ts = true -> tok (concat ts) [] 0 = ts.
Proof.
  induction ts as [|t rest IH]; intros G; [reflexivity|].
  cbn [good] in G. apply andb_prop in G. destruct G as [G G3].
  apply andb_prop in G. destruct G as [G1 G2].
  cbn [concat]. destruct t as [|c t']; [discriminate|].
  cbn [homog] in G1. cbn [app tok].
  destruct (Z.eqb_spec (cls c) 3) as [E3 | N3].
  - destruct t'; [|discriminate]. cbn [app flush_tok]. rewrite IH by assumption. reflexivity.
  - rewrite tok_run; try assumption; try discriminate.
    rewrite tok_boundary.
    + rewrite IH by assumption. reflexivity.
    + discriminate.
    + destruct rest as [|t2 rest']; [exact I|].
      cbn [tclass] in G2. replace (cls c =? 3) with false in G2 by lia. cbn [orb] in G2.
      cbn [good] in G3. destruct t2 as [|c2 t2']; [cbn in G3; discriminate|].
      cbn [concat app tclass] in *. lia.
Qed.

Lemma digtok_homog t : digtok t -> homog t = true /\ tclass t = 2.
Proof.
  intros [Hn Ha]. destruct t as [|x t]; [congruence|].
  cbn [forallb] in Ha. apply andb_prop in Ha. destruct Ha as [Hx Ht].
  assert (Cx : cls x = 2).
  { unfold cls, is_alpha, is_digit in *. destruct ((65 <=? x) && (x <=? 90) || (97 <=? x) && (x <=? 122)) eqn:E; [lia|].
    rewrite Hx. reflexivity. }
  split; [|exact Cx]. cbn [homog]. rewrite Cx. cbn.
  rewrite forallb_forall in *. intros y Hy. specialize (Ht y Hy).
  unfold cls, is_alpha, is_digit in *.
  destruct ((65 <=? y) && (y <=? 90) || (97 <=? y) && (y <=? 122)) eqn:E; [lia|]. rewrite Ht. reflexivity.
Qed.

Lemma name_homog nm : wf_name nm = true -> homog nm = true /\ tclass nm = 1.
Proof.
  unfold wf_name. intros H. apply andb_prop in H. destruct H as [L A].
  destruct nm as [|x t]; [cbn in L; discriminate|].
  cbn [forallb] in A. apply andb_prop in A. destruct A as [Ax At].
  assert (Cx : cls x = 1) by (unfold cls, is_alpha, is_alpha_c in *; rewrite Ax; reflexivity).
  split; [|exact Cx]. cbn [homog]. rewrite Cx. cbn.
  rewrite forallb_forall in *. intros y Hy. specialize (At y Hy).
  unfold cls, is_alpha, is_alpha_c in *. rewrite At. reflexivity.
Qed.

(* ------------------------------------------------------------------------------------ *)
(* the token list of the canonical rendering                                             *)

Definition hm_toks (v : Z) : list (list Z) :=
  [dec (v / 3600); [58]; digits_n 2 ((v / 60) mod 60)].
Definition off_toks (east : Z) : list (list Z) :=
  let v := - east in if v <? 0 then [45] :: hm_toks (- v) else [43] :: hm_toks v.
Definition hms_toks (t : Z) : list (list Z) :=
  [dec (t / 3600); [58]; digits_n 2 ((t / 60) mod 60); [58]; digits_n 2 (t mod 60)].
Definition date_toks (d : drule) : list (list Z) :=
  match d with
  | DJ n => [[74]; dec n]
  | DN n => [dec n]
  | DM m w d => [[77]; dec m; [46]; dec w; [46]; dec d]
  end.
Definition rule_toks (p : prule) : list (list Z) :=
  date_toks p.(pr_date) ++ [[47]] ++ hms_toks p.(pr_time).
Definition toks (r : posix) : list (list Z) :=
  [r.(p_name)] ++ off_toks r.(p_off) ++
  match r.(p_dst) with
  | None => []
  | Some ds => [ds.(d_name)] ++ off_toks ds.(d_off) ++ [[44]] ++ rule_toks ds.(d_start) ++
               [[44]] ++ rule_toks ds.(d_end)
  end.

Lemma render_concat r : render_posix r = concat (toks r).
Proof.
  unfold render_posix, toks, render_off, off_toks, render_rule, rule_toks, render_hm, hm_toks,
         render_hms, hms_toks.
  destruct r as [nm off [[dn doff [sd st] [ed et]]|]]; cbn [p_name p_off p_dst d_name d_off d_start d_end pr_date pr_time].
  - destruct (- off <? 0); destruct (- doff <? 0); destruct sd; destruct ed;
      cbn [render_date date_toks concat app];
      repeat first [rewrite <- app_assoc | rewrite app_nil_r | progress cbn [app concat]];
      reflexivity.
  - destruct (- off <? 0); cbn [concat app];
      repeat first [rewrite <- app_assoc | rewrite app_nil_r | progress cbn [app concat]];
      reflexivity.
Qed.

Lemma dec_len4 n : 0 <= n < 1000 -> (length (dec n) =? 4)%nat = false.
Proof. intros H. pose proof (dec_length n H). apply Nat.eqb_neq. lia. Qed.

Lemma d2_digtok n : digtok (digits_n 2 n).
Proof. apply digits_n_digtok. lia. Qed.

Lemma int_tok_d2 n : 0 <= n < 100 -> int_tok (digits_n 2 n) = Some n.
Proof. intros H. apply int_tok_digits; [lia|]. cbn. lia. Qed.

(* symbolic evaluation of the parser over a token list with a concrete spine *)
Ltac tokfacts :=
  repeat match goal with
  | |- context [list_eqb (dec ?n) [?c]] => rewrite (digtok_neq (dec n) c (dec_digtok n)) by reflexivity
  | |- context [list_eqb (digits_n 2 ?n) [?c]] =>
      rewrite (digtok_neq (digits_n 2 n) c (d2_digtok n)) by reflexivity
  | |- context [name_tok (dec ?n)] => rewrite (digtok_name (dec n) (dec_digtok n))
  | |- context [name_tok (digits_n 2 ?n)] => rewrite (digtok_name _ (d2_digtok n))
  | |- context [posix_tok_ok (dec ?n)] => rewrite (digtok_ok (dec n) (dec_digtok n))
  | |- context [posix_tok_ok (digits_n 2 ?n)] => rewrite (digtok_ok _ (d2_digtok n))
  | |- context [match dec ?n with c :: _ => is_digit c | [] => false end] =>
      rewrite (digtok_first (dec n) (dec_digtok n))
  | |- context [int_tok (dec ?n)] => rewrite (int_tok_dec n) by lia
  | |- context [int_tok (digits_n 2 ?n)] => rewrite (int_tok_d2 n) by lia
  | |- context [(length (dec ?n) =? 4)%nat] => rewrite (dec_len4 n) by lia
  | H : name_tok ?t = true |- context [name_tok ?t] => rewrite H
  | H : forall c, list_eqb ?t [c] = false |- context [list_eqb ?t [?c]] => rewrite (H c)
  | |- context [homog (dec ?n)] => rewrite (proj1 (digtok_homog _ (dec_digtok n)))
  | |- context [homog (digits_n 2 ?n)] => rewrite (proj1 (digtok_homog _ (d2_digtok n)))
  | |- context [tclass (dec ?n)] => rewrite (proj2 (digtok_homog _ (dec_digtok n)))
  | |- context [tclass (digits_n 2 ?n)] => rewrite (proj2 (digtok_homog _ (d2_digtok n)))
  | H : homog ?t = true |- context [homog ?t] => rewrite H
  | H : tclass ?t = 1 |- context [tclass ?t] => rewrite H
  end.

Ltac ev :=
  unfold parse_tokens, name_step, read_offset, read_hhmm, starts_offset, posix_rule, tk_is, tk,
         is_dash_or_dot, slice, concat_toks, count_tok, obind, dep_filter;
  repeat (
    cbn [span_name skipn firstn concat app nth_error list_eqb Z.eqb Pos.eqb andb orb negb
         seq Nat.sub Nat.add Nat.eqb Nat.leb Nat.ltb length semi_to_comma filter
         forallb unused_bad mem_nat truthy_str good homog tclass cls is_alpha is_sep
         C_PLUS C_MINUS C_COMMA C_COLON C_DOT C_SLASH C_SEMI C_J C_M
         name_tok posix_tok_ok all_chars dep_chars Z.ltb
         x_month x_week x_weekday x_yday x_jyday x_day x_time fst snd is_digit Z.leb
         Z.compare Pos.compare Pos.compare_cont];
    tokfacts).

Lemma good_toks r : wf_posix r = true -> good (toks r) = true.
Proof.
  intros Hwf. unfold wf_posix in Hwf.
  destruct r as [nm off [[dn doff [sd st] [ed et]]|]];
    cbn [p_name p_off p_dst d_name d_off d_start d_end pr_date pr_time] in *; split_andb.
  - destruct (name_homog nm ltac:(assumption)) as [Hn1 Hn2].
    destruct (name_homog dn ltac:(assumption)) as [Hd1 Hd2].
    unfold toks, off_toks, rule_toks, hm_toks, hms_toks.
    cbn [p_name p_off p_dst d_name d_off d_start d_end pr_date pr_time].
    destruct (- off <? 0); destruct (- doff <? 0); destruct sd; destruct ed;
      cbn [date_toks app]; ev; reflexivity.
  - destruct (name_homog nm ltac:(assumption)) as [Hn1 Hn2].
    unfold toks, off_toks, hm_toks. cbn [p_name p_off p_dst].
    destruct (- off <? 0); cbn [app]; ev; reflexivity.
Qed.

(* ------------------------------------------------------------------------------------ *)
(* round trip, tokeniser half: for EVERY well-formed rule the tokeniser splits the canonical
   rendering into exactly the expected tokens                                            *)
Lemma tokenize_render r : wf_posix r = true -> tokenize (render_posix r) = toks r.
Proof.
  intros Hwf. unfold tokenize. rewrite render_concat. apply tok_good. apply good_toks. exact Hwf.
Qed.

