(* C17 corollary: VTIMEZONE wall readings against the POSIX specification itself. *)
From Coq Require Import ZArith List Bool Lia.
From V Require Import base.Cal posix.PTime posix.RDelta posix.TzParseModel posix.TzRangeModel
     posix.PosixSpec posix.TransThm posix.MainThm posix.PosixThm posix.IcalModel posix.IcalEquiv
     posix.WallThm.
Import ListNotations.
Open Scope Z_scope.

(* Stated relative to a rule zone (tzstr inside its guard, or any tzrange with the rule's
   transitions): the VTIMEZONE zone's wall readings observe what POSIX prescribes at the instant
   they denote. *)
Lemma ical_wall_posix_lemma r ds y0 n w f cs u z :
  r.(p_dst) = Some ds -> wf_posix r = true -> guard_apart r = true -> zone_for r ds z ->
  cs = [comp_daylight r ds y0 n; comp_standard r ds y0 n] \/
  cs = [comp_standard r ds y0 n; comp_daylight r ds y0 n] ->
  y0 < year_of_secs w < y0 + Z.of_nat n ->
  wall_instant r w f = Some u ->
  ic_observe_wall cs w f = Ok (let '(o, d, n) := posix_observe r u in (o, d, Some n)).
Proof.
  intros Hdst Hwf Hap Hz Hcs Hy Hu.
  rewrite (ical_equiv_wall r ds Hdst Hwf Hap y0 n z w f cs Hz Hcs Hy).
  apply (observe_wall_posix r ds Hdst Hwf Hap z w f u Hz Hu).
Qed.
