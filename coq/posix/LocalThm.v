(* tzlocal over an abstract C library: it reports, at every UTC instant and for every
   non-imaginary wall reading, exactly what the C library's isdst says -- hence POSIX when the
   C library implements POSIX (the C library itself is trusted, not verified). *)
From Coq Require Import ZArith List Bool Lia.
From V Require Import base.Cal posix.PTime posix.PosixSpec posix.TzLocalModel.
Import ListNotations.
Open Scope Z_scope.

Section Libc.
  Variable libc : Z -> bool.
  Variables std alt : Z.
  Variables sn dn : list Z.
  Hypothesis Hsv : alt <> std.

  Lemma isd_eq w f a b : a = w - std -> b = w - alt ->
    l_isdst libc std alt true w f = if negb (libc a) && libc b then negb f else libc a.
  Proof.
    intros -> ->. unfold l_isdst, l_hasdst, l_is_ambiguous, l_naive_is_dst, l_dst_saved, l_dst_off.
    replace (negb (alt - std =? 0)) with true by lia. cbn [negb].
    replace (w - (alt - std) - std) with (w - alt) by lia.
    destruct (libc (w - std)); destruct (libc (w - alt)); reflexivity.
  Qed.

  Lemma l_isdst_wall_of_utc u :
    (* the wall reading fromutc produces for u, with the fold it produces, is classified like u *)
    let o := if libc u then alt else std in
    exists f, l_fromutc libc std alt true u = (u + o, f) /\
              l_isdst libc std alt true (u + o) f = libc u.
  Proof.
    cbv zeta. unfold l_fromutc, l_gen_ambiguous, l_utcoffset, l_dst.
    replace ((if l_isdst libc std alt true u false then l_dst_off std alt true else std) -
             (if l_isdst libc std alt true u false then l_dst_off std alt true - std else 0))
      with std by (destruct (l_isdst libc std alt true u false); lia).
    rewrite (isd_eq (u + std) true u (u - (alt - std))) by lia.
    unfold l_dst_off.
    destruct (libc u) eqn:Pu; cbn [negb andb].
    - replace (u + std + (alt - std)) with (u + alt) by lia.
      rewrite !(isd_eq (u + alt) _ (u + (alt - std)) u) by lia. rewrite Pu.
      destruct (libc (u + (alt - std))) eqn:P1; cbn [negb andb].
      + replace (alt =? alt) with true by lia. cbn [negb]. eexists. split; [reflexivity|].
        rewrite (isd_eq (u + alt) _ (u + (alt - std)) u) by lia. rewrite P1, Pu. reflexivity.
      + replace (alt =? std) with false by lia. cbn [negb].
        replace (u + alt - u =? std) with false by lia.
        eexists. split; [reflexivity|].
        rewrite (isd_eq (u + alt) _ (u + (alt - std)) u) by lia. rewrite P1, Pu. reflexivity.
    - destruct (libc (u - (alt - std))) eqn:P1; cbn [negb andb];
        replace (u + std + 0) with (u + std) by lia;
        rewrite !(isd_eq (u + std) _ u (u - (alt - std))) by lia; rewrite Pu, P1; cbn [negb andb].
      + replace (alt =? std) with false by lia. cbn [negb].
        replace (u + std - u =? std) with true by lia.
        eexists. split; [reflexivity|].
        rewrite (isd_eq (u + std) _ u (u - (alt - std))) by lia. rewrite Pu, P1. reflexivity.
      + replace (std =? std) with true by lia. cbn [negb].
        eexists. split; [reflexivity|].
        rewrite (isd_eq (u + std) _ u (u - (alt - std))) by lia. rewrite Pu, P1. reflexivity.
  Qed.

  (* UTC -> local: offset, dst, abbreviation are the C library's at that instant *)
  Lemma tzlocal_faithful_utc u :
    exists f, l_observe_utc libc std alt true sn dn u =
      (u + (if libc u then alt else std), f, if libc u then alt else std,
       if libc u then alt - std else 0, if libc u then dn else sn).
  Proof.
    destruct (l_isdst_wall_of_utc u) as (f & E & D). exists f.
    unfold l_observe_utc. rewrite E. unfold l_utcoffset, l_dst, l_tzname. rewrite D.
    unfold l_dst_off. destruct (libc u); reflexivity.
  Qed.

  (* wall readings: with c1 = "w - alt is a daylight instant" and c0 = "w - std is a standard
     instant", a reading with c1 only or c0 only is reported as that instant, and an ambiguous one
     (both) by its fold: fold=0 the daylight instant, fold=1 the standard instant *)
  Lemma tzlocal_faithful_wall w (f : bool) :
    let c1 := libc (w - alt) in let c0 := negb (libc (w - std)) in
    c1 || c0 = true ->
    l_isdst libc std alt true w f = (if c1 && c0 then negb f else c1).
  Proof.
    intros c1 c0 H. subst c1 c0.
    rewrite (isd_eq w f (w - std) (w - alt)) by lia.
    destruct (libc (w - alt)); destruct (libc (w - std)); cbn in *; try reflexivity; discriminate.
  Qed.
End Libc.

(* ---- with a C library that implements the POSIX rule, seen through CPython's time module ---- *)

(* what the time module holds when exactly one of its two samples is a daylight instant and the
   saving is positive: the (standard, daylight) pair, in either hemisphere *)
Lemma time_module_sampled c r ds tj tl :
  libc_implements c r -> r.(p_dst) = Some ds -> r.(p_off) < ds.(d_off) ->
  posix_isdst r tj <> posix_isdst r tl ->
  time_module c tj tl = (r.(p_off), ds.(d_off), true, r.(p_name), ds.(d_name)).
Proof.
  intros Hc Hd Hlt Hs. unfold time_module.
  destruct (Hc tj) as (_ & Oj & Nj). destruct (Hc tl) as (_ & Ol & Nl).
  rewrite Oj, Ol, Nj, Nl. unfold posix_off_at, posix_name_at. rewrite Hd.
  destruct (posix_isdst r tj), (posix_isdst r tl); try (exfalso; apply Hs; reflexivity).
  - replace (p_off r <? d_off ds) with true by lia. replace (d_off ds =? p_off r) with false by lia. reflexivity.
  - replace (d_off ds <? p_off r) with false by lia. replace (p_off r =? d_off ds) with false by lia. reflexivity.
Qed.

(* no daylight part: both samples agree, daylight = 0 *)
Lemma time_module_fixed c r tj tl :
  libc_implements c r -> r.(p_dst) = None ->
  time_module c tj tl = (r.(p_off), r.(p_off), false, r.(p_name), r.(p_name)).
Proof.
  intros Hc Hd. unfold time_module.
  destruct (Hc tj) as (_ & Oj & Nj). destruct (Hc tl) as (_ & Ol & Nl).
  rewrite Oj, Ol, Nj, Nl. unfold posix_off_at, posix_name_at. rewrite Hd.
  replace (p_off r <? p_off r) with false by lia. replace (p_off r =? p_off r) with true by lia. reflexivity.
Qed.

Lemma tzlocal_posix_utc_lemma c r tj tl u :
  libc_implements c r ->
  (forall ds, r.(p_dst) = Some ds -> r.(p_off) < ds.(d_off) /\ posix_isdst r tj <> posix_isdst r tl) ->
  exists f, tzlocal_c_observe_utc c tj tl u =
    (let '(o, d, n) := posix_observe r u in (u + o, f, o, d, n)).
Proof.
  intros Hc Hsv. unfold tzlocal_c_observe_utc, posix_observe.
  destruct (p_dst r) as [ds|] eqn:Hd.
  - destruct (Hsv ds eq_refl) as (Hlt & Hs).
    rewrite (time_module_sampled c r ds tj tl Hc Hd Hlt Hs).
    destruct (tzlocal_faithful_utc (lc_isdst c) (p_off r) (d_off ds) (p_name r) (d_name ds)
                ltac:(lia) u) as (f & E).
    exists f. rewrite E. destruct (Hc u) as (-> & _). destruct (posix_isdst r u); reflexivity.
  - rewrite (time_module_fixed c r tj tl Hc Hd).
    exists false. unfold l_observe_utc, l_fromutc, l_gen_ambiguous, l_utcoffset, l_dst, l_tzname,
      l_isdst, l_hasdst, l_dst_saved, l_dst_off.
    replace (p_off r - p_off r =? 0) with true by lia. cbn [negb].
    replace (p_off r =? p_off r) with true by lia. cbn [negb].
    f_equal. f_equal. f_equal. f_equal. lia.
Qed.

Lemma tzlocal_posix_wall_lemma c r ds tj tl w f u :
  libc_implements c r ->
  r.(p_dst) = Some ds -> r.(p_off) < ds.(d_off) -> posix_isdst r tj <> posix_isdst r tl ->
  wall_instant r w f = Some u ->
  tzlocal_c_observe_wall c tj tl w f = posix_observe r u.
Proof.
  intros Hc Hd Hsv Hs Hu. unfold tzlocal_c_observe_wall, wall_instant, wall_candidates in *.
  rewrite (time_module_sampled c r ds tj tl Hc Hd Hsv Hs).
  rewrite Hd in *.
  unfold l_observe_wall, l_utcoffset, l_dst, l_tzname.
  pose proof (tzlocal_faithful_wall (lc_isdst c) (p_off r) (d_off ds) ltac:(lia) w f) as L.
  cbv zeta in L. unfold posix_observe. rewrite Hd. unfold l_dst_off.
  destruct (Hc (w - d_off ds)) as (E1 & _). destruct (Hc (w - p_off r)) as (E0 & _).
  rewrite E1, E0 in L.
  destruct (posix_isdst r (w - d_off ds)) eqn:C1; destruct (posix_isdst r (w - p_off r)) eqn:C0;
    cbn [negb app andb orb] in *.
  - (* only the daylight instant *) inversion Hu; subst u. rewrite (L eq_refl), C1. reflexivity.
  - (* ambiguous *)
    rewrite (L eq_refl). destruct f; cbn [negb] in *; inversion Hu; subst u.
    + rewrite Z.max_r by lia. rewrite C0. reflexivity.
    + rewrite Z.min_l by lia. rewrite C1. reflexivity.
  - discriminate.
  - inversion Hu; subst u. rewrite (L eq_refl), C0. reflexivity.
Qed.

Lemma posix_libc_implements r : libc_implements (posix_libc r) r.
Proof. intro t. repeat split. Qed.

(* sample instants of a process started in 2021: tj = 2020-12-31T18:00:00Z (= (t / YEAR) * YEAR
   for YEAR = 365.25 days: 51 years after 1970), tl = tj + 182.625 days *)
Definition TJ_2021 : Z := 63745120800.
Definition TL_2021 : Z := TJ_2021 + 15778800.

(* F-C08-4: a negative saving -- time.timezone / altzone / tzname are the (smaller, larger) sampled
   offsets, tzlocal indexes them by tm_isdst: wrong at ANY instant, here 2021-07-01T12:00:00Z under the
   Irish rule: model/dateutil +00:00 GMT, POSIX and glibc +01:00 IST *)
Lemma tzlocal_negative_dst_refuted_lemma :
  exists r u, wf_posix r = true /\
    (exists ds, r.(p_dst) = Some ds /\ ds.(d_off) < r.(p_off)) /\
    posix_isdst r TJ_2021 <> posix_isdst r TL_2021 /\
    let '(_, _, o, _, n) := tzlocal_observe_utc r TJ_2021 TL_2021 u in
    let '(o', _, n') := posix_observe r u in o <> o' /\ n <> n'.
Proof.
  exists (mkPosix [73; 83; 84] 3600
            (Some (mkDst [71; 77; 84] 0 (mkPrule (DM 10 5 0) 7200) (mkPrule (DM 3 5 0) 3600)))),
         63760822800.
  split; [vm_compute; reflexivity|]. split; [eexists; split; [reflexivity|vm_compute; reflexivity]|].
  split; [vm_compute; discriminate|].
  vm_compute. split; discriminate.
Qed.

(* F-C08-5: a POSITIVE saving inside the full guard whose daylight window contains neither sample:
   'EST5EDT,M2.1.0,M5.1.0' -- both samples are standard time, time.daylight = 0, tzlocal has no
   daylight time at all: 2021-03-15T12:00:00Z is 07:00 -05:00 EST for tzlocal, 08:00 -04:00 EDT for
   POSIX and glibc.  (Likewise when the window contains both samples: the daylight pair all year.) *)
Definition r_feb_may : posix :=
  mkPosix [69; 83; 84] (-18000)
    (Some (mkDst [69; 68; 84] (-14400) (mkPrule (DM 2 1 0) 7200) (mkPrule (DM 5 1 0) 7200))).

Lemma tzlocal_unsampled_window_refuted_lemma :
  exists r u, wf_posix r = true /\ guard_apart r = true /\ guard_d8 r = true /\
    (exists ds, r.(p_dst) = Some ds /\ r.(p_off) < ds.(d_off)) /\
    posix_isdst r TJ_2021 = posix_isdst r TL_2021 /\
    time_module (posix_libc r) TJ_2021 TL_2021 = (r.(p_off), r.(p_off), false, r.(p_name), r.(p_name)) /\
    let '(_, _, o, _, n) := tzlocal_observe_utc r TJ_2021 TL_2021 u in
    let '(o', _, n') := posix_observe r u in o <> o' /\ n <> n'.
Proof.
  exists r_feb_may, (ord_of_ymd 2021 3 15 * 86400 + 43200).
  split; [vm_compute; reflexivity|]. split; [vm_compute; reflexivity|]. split; [vm_compute; reflexivity|].
  split; [eexists; split; [reflexivity|vm_compute; reflexivity]|].
  split; [vm_compute; reflexivity|]. split; [vm_compute; reflexivity|].
  vm_compute. split; discriminate.
Qed.
