(* tzlocal over an abstract C library: it reports, at every UTC instant and for every
   non-imaginary wall reading, exactly what the C library's isdst says -- hence POSIX when the
   C library implements POSIX (the C library itself is trusted, not verified). *)
From Coq Require Import ZArith List Bool Lia.
From V Require Import base.Cal posix.PTime posix.PosixSpec posix.TzLocalModel.
Import ListNotations.
Open Scope Z_scope.

Section Libc.
  Variable libc : Z -> bool.
  Variables std alt : Z.
  Variables sn dn : list Z.
  Hypothesis Hsv : alt <> std.

  Lemma isd_eq w f a b : a = w - std -> b = w - alt ->
    l_isdst libc std alt true w f = if negb (libc a) && libc b then negb f else libc a.
  Proof.
    intros -> ->. unfold l_isdst, l_hasdst, l_is_ambiguous, l_naive_is_dst, l_dst_saved, l_dst_off.
    replace (negb (alt - std =? 0)) with true by lia. cbn [negb].
    replace (w - (alt - std) - std) with (w - alt) by lia.
    destruct (libc (w - std)); destruct (libc (w - alt)); reflexivity.
  Qed.

  Lemma l_isdst_wall_of_utc u :
    (* the wall reading fromutc produces for u, with the fold it produces, is classified like u *)
    let o := if libc u then alt else std in
    exists f, l_fromutc libc std alt true u = (u + o, f) /\
              l_isdst libc std alt true (u + o) f = libc u.
  Proof.
    cbv zeta. unfold l_fromutc, l_gen_ambiguous, l_utcoffset, l_dst.
    replace ((if l_isdst libc std alt true u false then l_dst_off std alt true else std) -
             (if l_isdst libc std alt true u false then l_dst_off std alt true - std else 0))
      with std by (destruct (l_isdst libc std alt true u false); lia).
    rewrite (isd_eq (u + std) true u (u - (alt - std))) by lia.
    unfold l_dst_off.
    destruct (libc u) eqn:Pu; cbn [negb andb].
    - replace (u + std + (alt - std)) with (u + alt) by lia.
      rewrite !(isd_eq (u + alt) _ (u + (alt - std)) u) by lia. rewrite Pu.
      destruct (libc (u + (alt - std))) eqn:P1; cbn [negb andb].
      + replace (alt =? alt) with true by lia. cbn [negb]. eexists. split; [reflexivity|].
        rewrite (isd_eq (u + alt) _ (u + (alt - std)) u) by lia. rewrite P1, Pu. reflexivity.
      + replace (alt =? std) with false by lia. cbn [negb].
        replace (u + alt - u =? std) with false by lia.
        eexists. split; [reflexivity|].
        rewrite (isd_eq (u + alt) _ (u + (alt - std)) u) by lia. rewrite P1, Pu. reflexivity.
    - destruct (libc (u - (alt - std))) eqn:P1; cbn [negb andb];
        replace (u + std + 0) with (u + std) by lia;
        rewrite !(isd_eq (u + std) _ u (u - (alt - std))) by lia; rewrite Pu, P1; cbn [negb andb].
      + replace (alt =? std) with false by lia. cbn [negb].
        replace (u + std - u =? std) with true by lia.
        eexists. split; [reflexivity|].
        rewrite (isd_eq (u + std) _ u (u - (alt - std))) by lia. rewrite Pu, P1. reflexivity.
      + replace (std =? std) with true by lia. cbn [negb].
        eexists. split; [reflexivity|].
        rewrite (isd_eq (u + std) _ u (u - (alt - std))) by lia. rewrite Pu, P1. reflexivity.
  Qed.

  (* UTC -> local: offset, dst, abbreviation are the C library's at that instant *)
  Lemma tzlocal_faithful_utc u :
    exists f, l_observe_utc libc std alt true sn dn u =
      (u + (if libc u then alt else std), f, if libc u then alt else std,
       if libc u then alt - std else 0, if libc u then dn else sn).
  Proof.
    destruct (l_isdst_wall_of_utc u) as (f & E & D). exists f.
    unfold l_observe_utc. rewrite E. unfold l_utcoffset, l_dst, l_tzname. rewrite D.
    unfold l_dst_off. destruct (libc u); reflexivity.
  Qed.

  (* wall readings: with c1 = "w - alt is a daylight instant" and c0 = "w - std is a standard
     instant", a reading with c1 only or c0 only is reported as that instant, and an ambiguous one
     (both) by its fold: fold=0 the daylight instant, fold=1 the standard instant *)
  Lemma tzlocal_faithful_wall w (f : bool) :
    let c1 := libc (w - alt) in let c0 := negb (libc (w - std)) in
    c1 || c0 = true ->
    l_isdst libc std alt true w f = (if c1 && c0 then negb f else c1).
  Proof.
    intros c1 c0 H. subst c1 c0.
    rewrite (isd_eq w f (w - std) (w - alt)) by lia.
    destruct (libc (w - alt)); destruct (libc (w - std)); cbn in *; try reflexivity; discriminate.
  Qed.
End Libc.

(* with a C library that implements the POSIX rule *)
Lemma tzlocal_posix_utc_lemma r u :
  (forall ds, r.(p_dst) = Some ds -> r.(p_off) < ds.(d_off)) ->
  exists f, tzlocal_observe_utc r u =
    (let '(o, d, n) := posix_observe r u in (u + o, f, o, d, n)).
Proof.
  intros Hsv. unfold tzlocal_observe_utc, tzlocal_of, posix_observe.
  destruct (p_dst r) as [ds|] eqn:Hd.
  - pose proof (Hsv ds eq_refl) as Hlt.
    replace (p_off r <=? d_off ds) with true by lia.
    destruct (tzlocal_faithful_utc (posix_isdst r) (p_off r) (d_off ds) (p_name r) (d_name ds)
                ltac:(lia) u) as (f & E).
    exists f. rewrite E. destruct (posix_isdst r u); reflexivity.
  - exists false. unfold l_observe_utc, l_fromutc, l_gen_ambiguous, l_utcoffset, l_dst, l_tzname,
      l_isdst, l_hasdst, l_dst_saved, l_dst_off.
    replace (p_off r - p_off r =? 0) with true by lia. cbn [negb].
    replace (p_off r =? p_off r) with true by lia. cbn [negb].
    f_equal. f_equal. f_equal. f_equal. lia.
Qed.

Lemma tzlocal_posix_wall_lemma r ds w f u :
  r.(p_dst) = Some ds -> r.(p_off) < ds.(d_off) ->
  wall_instant r w f = Some u ->
  tzlocal_observe_wall r w f = posix_observe r u.
Proof.
  intros Hd Hsv Hu. unfold tzlocal_observe_wall, tzlocal_of, wall_instant, wall_candidates in *.
  rewrite Hd in *. replace (p_off r <=? d_off ds) with true by lia.
  unfold l_observe_wall, l_utcoffset, l_dst, l_tzname.
  pose proof (tzlocal_faithful_wall (posix_isdst r) (p_off r) (d_off ds) ltac:(lia) w f) as L.
  cbv zeta in L. unfold posix_observe. rewrite Hd. unfold l_dst_off.
  destruct (posix_isdst r (w - d_off ds)) eqn:C1; destruct (posix_isdst r (w - p_off r)) eqn:C0;
    cbn [negb app andb orb] in *.
  - (* only the daylight instant *) inversion Hu; subst u. rewrite (L eq_refl), C1. reflexivity.
  - (* ambiguous *)
    rewrite (L eq_refl). destruct f; cbn [negb] in *; inversion Hu; subst u.
    + rewrite Z.max_r by lia. rewrite C0. reflexivity.
    + rewrite Z.min_l by lia. rewrite C1. reflexivity.
  - discriminate.
  - inversion Hu; subst u. rewrite (L eq_refl), C0. reflexivity.
Qed.

(* F-C08-4: with CPython's (smaller offset, larger offset) pair and a negative saving, tzlocal
   contradicts POSIX -- at ANY instant, here 2021-07-01T12:00:00Z under the Irish rule:
   model/dateutil +00:00 GMT, POSIX and glibc +01:00 IST *)
Lemma tzlocal_negative_dst_refuted_lemma :
  exists r u, wf_posix r = true /\
    (exists ds, r.(p_dst) = Some ds /\ ds.(d_off) < r.(p_off)) /\
    let '(_, _, o, _, n) := tzlocal_observe_utc r u in
    let '(o', _, n') := posix_observe r u in o <> o' /\ n <> n'.
Proof.
  exists (mkPosix [73; 83; 84] 3600
            (Some (mkDst [71; 77; 84] 0 (mkPrule (DM 10 5 0) 7200) (mkPrule (DM 3 5 0) 3600)))),
         63760822800.
  split; [vm_compute; reflexivity|]. split; [eexists; split; [reflexivity|vm_compute; reflexivity]|].
  vm_compute. split; discriminate.
Qed.

Lemma tzlocal_posix_utc_pos_lemma r u :
  (forall ds, r.(p_dst) = Some ds -> r.(p_off) < ds.(d_off)) ->
  exists f, tzlocal_observe_utc r u =
    (let '(o, d, n) := posix_observe r u in (u + o, f, o, d, n)).
Proof. exact (tzlocal_posix_utc_lemma r u). Qed.
