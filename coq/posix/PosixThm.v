(* THEOREMS of C08 assembled for coq/props/C08.v: tzstr / tzrange model vs POSIX specification. *)
From Coq Require Import ZArith List Bool Lia ZifyBool.
From V Require Import base.Cal posix.PTime posix.RDelta posix.TzParseModel posix.TzRangeModel
     posix.PosixSpec posix.TransThm posix.MainThm.
Import ListNotations.
Ltac Zify.zify_post_hook ::= Z.to_euclidean_division_equations.
Open Scope Z_scope.

(* a zone without DST part observes its fixed offset everywhere *)
Lemma no_dst_fixed_lemma z u :
  z.(z_hasdst) = false ->
  observe_utc z u = Ok (mkObs (u + z.(z_std_off)) false z.(z_std_off) 0 z.(z_std_abbr)).
Proof.
  intros H. unfold observe_utc, fromutc, transitions, utcoffset, dst, tzname, isdst.
  rewrite H. cbn. reflexivity.
Qed.

(* the parse result the canonical rendering of a rule stands for *)
Definition ast_of_posix (r : posix) : tzres :=
  match r.(p_dst) with
  | Some ds => ast_of r ds
  | None => mkRes (Some r.(p_name)) (Some r.(p_off)) None None attr0 attr0 false
  end.

(* the guard of the main theorem, as one executable predicate *)
Definition guard (r : posix) : bool := wf_posix r && guard_apart r && guard_d8 r.

(* MAIN (tzstr): for every well-formed rule inside the guard and EVERY instant u, the zone tzstr
   builds from the parsed rule reports the offset, dst and abbreviation POSIX prescribes *)
Lemma tzstr_posix_lemma r po u :
  guard r = true -> (po = true \/ not_gmt_utc r.(p_name) = true) ->
  exists z f, tzstr_of_res (Ok (Some (ast_of_posix r))) po = Ok z /\
    observe_utc z u = Ok (let '(o, d, n) := posix_observe r u in mkObs (u + o) f o d (Some n)).
Proof.
  intros G Hpo. unfold guard in G. apply andb_prop in G. destruct G as [G Hd8].
  apply andb_prop in G. destruct G as [Hwf Hap].
  unfold ast_of_posix. destruct (p_dst r) as [ds|] eqn:Hdst.
  - destruct (tzstr_zone_for r ds Hdst Hwf Hap Hd8 po Hpo) as (z & Ez & Hz).
    destruct (observe_utc_posix r ds Hdst Hwf Hap z u Hz) as (f & Ho).
    exists z, f. split; assumption.
  - (* no daylight part: fixed offset *)
    assert (Hflip : abbr_is_gmt_utc (Some r.(p_name)) && negb po = false).
    { destruct Hpo as [-> | Hn]; [apply andb_false_r|].
      unfold not_gmt_utc in Hn. apply negb_true_iff in Hn.
      unfold abbr_is_gmt_utc, GMT, UTC.
      change (list_eqb (p_name r) [71; 77; 84] || list_eqb (p_name r) [85; 84; 67])
        with (zlist_eqb (p_name r) [71; 77; 84] || zlist_eqb (p_name r) [85; 84; 67]).
      rewrite Hn. reflexivity. }
    unfold tzstr_of_res. cbn [r_unused r_stdabbr r_stdoffset r_dstabbr r_dstoffset].
    rewrite Hflip. cbn.
    eexists _, false. split; [reflexivity|].
    rewrite no_dst_fixed_lemma by reflexivity. cbn [z_std_off z_std_abbr].
    unfold posix_observe. rewrite Hdst. reflexivity.
Qed.

(* tzrange built from the equivalent keyword arguments (the documented recipe: both deltas in
   standard time) *)
Definition rd_args_of (d : drule) (secs : Z) : rdargs :=
  match d with
  | DJ n => mkArgs 0 0 0 secs None None None None (Some n)
  | DN n => mkArgs 0 0 0 secs None None None (Some (n + 1)) None
  | DM m w wd => mkArgs 0 0 0 secs (Some m) (Some (if w =? 5 then 31 else 1))
                        (Some ((wd - 1) mod 7, if w =? 5 then -1 else w)) None None
  end.

Definition tzrange_of (r : posix) : res zone :=
  match r.(p_dst) with
  | None => tzrange_init (Some r.(p_name)) (Some r.(p_off)) None None ANone ANone
  | Some ds =>
      tzrange_init (Some r.(p_name)) (Some r.(p_off)) (Some ds.(d_name)) (Some ds.(d_off))
        (AArgs (rd_args_of ds.(d_start).(pr_date) ds.(d_start).(pr_time)))
        (AArgs (rd_args_of ds.(d_end).(pr_date)
                           (ds.(d_end).(pr_time) - (ds.(d_off) - r.(p_off)))))
  end.

Lemma tzstr_delta_args off doff d t (isend : bool) : wf_date d = true ->
  tzstr_delta off doff (ast_rule (mkPrule d t)) isend =
  rd_mk (rd_args_of d (if isend then t - (doff - off) else t)).
Proof.
  intros W. destruct d as [n | n | m w wd]; cbn [wf_date] in W; try reflexivity.
  unfold tzstr_delta, ast_rule, rd_args_of.
  cbn [pr_date pr_time x_month x_weekday x_week x_time some_or].
  destruct (Z.eqb_spec w 5) as [-> | N]; [reflexivity|].
  replace (0 <? w) with true by lia. reflexivity.
Qed.

(* tzrange with equivalent arguments is the same zone object as tzstr's *)
Lemma tzrange_equiv_tzstr_lemma r po :
  wf_posix r = true -> (po = true \/ not_gmt_utc r.(p_name) = true) ->
  forall z, tzstr_of_res (Ok (Some (ast_of_posix r))) po = Ok z -> z.(z_hasdst) = true ->
  tzrange_of r = Ok z.
Proof.
  intros Hwf Hpo z Ez Hh. unfold tzrange_of, ast_of_posix in *.
  assert (Hflip : abbr_is_gmt_utc (Some r.(p_name)) && negb po = false).
  { destruct Hpo as [-> | Hn]; [apply andb_false_r|].
    unfold not_gmt_utc in Hn. apply negb_true_iff in Hn.
    unfold abbr_is_gmt_utc, GMT, UTC.
    change (list_eqb (p_name r) [71; 77; 84] || list_eqb (p_name r) [85; 84; 67])
      with (zlist_eqb (p_name r) [71; 77; 84] || zlist_eqb (p_name r) [85; 84; 67]).
    rewrite Hn. reflexivity. }
  destruct (p_dst r) as [ds|] eqn:Hdst.
  - unfold wf_posix in Hwf. rewrite Hdst in Hwf. split_andb.
    unfold tzstr_of_res, ast_of in Ez.
    cbn [r_unused r_stdabbr r_stdoffset r_dstabbr r_dstoffset r_start r_end] in Ez.
    rewrite Hflip in Ez. unfold tzrange_init in *.
    rewrite (wf_name_truthy ds.(d_name)) in * by assumption.
    cbn [mk_delta rbind z_std_abbr z_dst_abbr z_std_off z_dst_off negb is_none] in *.
    replace (d_start ds) with (mkPrule (pr_date (d_start ds)) (pr_time (d_start ds))) in Ez
      by (destruct (d_start ds); reflexivity).
    replace (d_end ds) with (mkPrule (pr_date (d_end ds)) (pr_time (d_end ds))) in Ez
      by (destruct (d_end ds); reflexivity).
    rewrite !tzstr_delta_args in Ez by assumption. cbn [pr_date pr_time] in *.
    destruct (rd_mk (rd_args_of (pr_date (d_start ds)) (pr_time (d_start ds)))) as [sd|e];
      cbn [rbind] in *; [|discriminate].
    destruct (rd_bool sd) eqn:B.
    + destruct (rd_mk (rd_args_of (pr_date (d_end ds))
                  (pr_time (d_end ds) - (d_off ds - p_off r)))) as [ed|e]; cbn [rbind] in *;
        [|discriminate].
      inversion Ez; subst z. cbn [delta_bool]. rewrite B. reflexivity.
    + inversion Ez; subst z. cbn in Hh. discriminate.
  - unfold tzstr_of_res in Ez. cbn [r_unused r_stdabbr r_stdoffset r_dstabbr r_dstoffset] in Ez.
    rewrite Hflip in Ez. cbn in Ez. inversion Ez; subst z. cbn in Hh. discriminate.
Qed.

(* ------------------------------------------------------------------------------------ *)
(* D8: outside guard_d8 the faithful model contradicts POSIX (witness replayed on dateutil
   and glibc in notes/posix.md): 'EST5EDT4,M3.2.0/2,M11.1.0/0:30' at 2021-11-03T12:00:00Z *)

Definition d8_rule : posix :=
  mkPosix [69; 83; 84] (-18000)
    (Some (mkDst [69; 68; 84] (-14400) (mkPrule (DM 3 2 0) 7200) (mkPrule (DM 11 1 0) 1800))).
Definition d8_instant : Z := 63771624000.

Lemma tzstr_posix_d8_refuted_lemma :
  exists r u z o,
    wf_posix r = true /\ guard_apart r = true /\ guard_d8 r = false /\
    tzstr_init (render_posix r) false = Ok z /\ observe_utc z u = Ok o /\
    o.(o_off) <> fst (fst (posix_observe r u)).
Proof.
  exists d8_rule, d8_instant. eexists. eexists.
  split; [vm_compute; reflexivity|].
  split; [vm_compute; reflexivity|].
  split; [vm_compute; reflexivity|].
  split; [vm_compute; reflexivity|].
  split; [vm_compute; reflexivity|].
  vm_compute. discriminate.
Qed.

(* non-vacuity of the guard, and the chain string -> parse -> zone on a concrete rule *)
Definition ex_rule : posix :=
  mkPosix [69; 83; 84] (-18000)
    (Some (mkDst [69; 68; 84] (-14400) (mkPrule (DM 3 2 0) 7200) (mkPrule (DM 11 1 0) 7200))).
Definition ex_rule_south : posix :=
  mkPosix [65; 69; 83; 84] 36000
    (Some (mkDst [65; 69; 68; 84] 39600 (mkPrule (DM 10 1 0) 7200) (mkPrule (DJ 91) 10800))).

Example guard_ex : guard ex_rule = true /\ guard ex_rule_south = true.
Proof. split; vm_compute; reflexivity. Qed.

Example parse_render_ex :
  tzparse (render_posix ex_rule) = Ok (Some (ast_of_posix ex_rule)) /\
  tzparse (render_posix ex_rule_south) = Ok (Some (ast_of_posix ex_rule_south)).
Proof. split; vm_compute; reflexivity. Qed.

(* ------------------------------------------------------------------------------------ *)
(* GMT+h / UTC+h: h hours AHEAD of UTC unless POSIX interpretation is requested          *)

Fixpoint zrange (k : nat) (lo : Z) : list Z :=
  match k with O => [] | S k' => lo :: zrange k' (lo + 1) end.

Lemma zrange_in k : forall lo h, lo <= h < lo + Z.of_nat k -> In h (zrange k lo).
Proof.
  induction k as [|k IH]; intros lo h Hh; [lia|].
  cbn [zrange]. destruct (Z.eq_dec h lo) as [->|N]; [left; reflexivity|].
  right. apply IH. lia.
Qed.

(* name ++ sign ++ decimal hour *)
Definition gmt_string (name : list Z) (sign : Z) (h : Z) : list Z := name ++ [sign] ++ dec h.

Definition fixed_zone_is (z : res zone) (name : list Z) (off : Z) : bool :=
  match z with
  | Ok z => list_eqb (match z.(z_std_abbr) with Some n => n | None => [] end) name &&
            (z.(z_std_off) =? off) && negb z.(z_hasdst)
  | Err _ => false
  end.

Definition gmt_check (h : Z) : bool :=
  forallb (fun name =>
    fixed_zone_is (tzstr_init (gmt_string name 43 h) false) name (h * 3600) &&
    fixed_zone_is (tzstr_init (gmt_string name 45 h) false) name (- h * 3600) &&
    fixed_zone_is (tzstr_init (gmt_string name 43 h) true) name (- h * 3600) &&
    fixed_zone_is (tzstr_init (gmt_string name 45 h) true) name (h * 3600)) [GMT; UTC].

Lemma gmt_plus_h_lemma h : 0 <= h < 100 -> gmt_check h = true.
Proof.
  intros Hh.
  assert (A : forallb gmt_check (zrange 100 0) = true) by (vm_compute; reflexivity).
  rewrite forallb_forall in A. apply A. apply zrange_in. lia.
Qed.

(* ------------------------------------------------------------------------------------ *)
(* negative saving (daylight offset smaller than the standard offset), outside guard_apart:
   the faithful model contradicts POSIX.  'IST-1GMT0,M10.5.0/2,M3.5.0/1' at
   2021-10-31T01:30:00Z: model/dateutil +01:00 IST on wall 01:30, POSIX and glibc +00:00 GMT *)
Definition negdst_rule : posix :=
  mkPosix [73; 83; 84] 3600
    (Some (mkDst [71; 77; 84] 0 (mkPrule (DM 10 5 0) 7200) (mkPrule (DM 3 5 0) 3600))).
Definition negdst_instant : Z := 63771327000.

(* guard_apart without its clause on the SIGN of the saving: the same distances (with |saving| <= 24 h) *)
Definition guard_distance (r : posix) : bool :=
  match r.(p_dst) with
  | None => true
  | Some ds =>
      let s_lo := yday_lo ds.(d_start).(pr_date) * DAY + ds.(d_start).(pr_time) in
      let s_hi := yday_hi ds.(d_start).(pr_date) * DAY + ds.(d_start).(pr_time) in
      let e_lo := yday_lo ds.(d_end).(pr_date) * DAY + ds.(d_end).(pr_time) in
      let e_hi := yday_hi ds.(d_end).(pr_date) * DAY + ds.(d_end).(pr_time) in
      let a := Z.abs r.(p_off) + Z.abs ds.(d_off) in
      (MARGIN + a <=? s_lo) && (MARGIN + a <=? e_lo) &&
      (s_hi + MARGIN + a <=? 365 * DAY) && (e_hi + MARGIN + a <=? 365 * DAY) &&
      ((s_hi + 28 * DAY + a <=? e_lo) || (e_hi + 28 * DAY + a <=? s_lo)) &&
      (Z.abs (ds.(d_off) - r.(p_off)) <=? DAY)
  end.

Lemma guard_apart_is_distance_and_positive_saving r :
  guard_apart r = guard_distance r &&
                  match r.(p_dst) with Some ds => r.(p_off) <? ds.(d_off) | None => true end.
Proof.
  unfold guard_apart, guard_distance. destruct (p_dst r) as [ds|]; [|reflexivity].
  cbv zeta. destruct (0 <? d_off ds - p_off r) eqn:E.
  - replace (p_off r <? d_off ds) with true by lia.
    replace (Z.abs (d_off ds - p_off r)) with (d_off ds - p_off r) by lia.
    rewrite !andb_true_r. reflexivity.
  - replace (p_off r <? d_off ds) with false by lia.
    rewrite !andb_false_r. cbn [andb]. rewrite ?andb_false_r. reflexivity.
Qed.

(* the ONLY failing clause of the guard is the sign of the saving *)
Lemma tzstr_posix_negative_dst_refuted_lemma :
  exists r u z o,
    wf_posix r = true /\ guard_d8 r = true /\ guard_distance r = true /\
    (exists ds, r.(p_dst) = Some ds /\ ds.(d_off) < r.(p_off)) /\
    tzstr_init (render_posix r) false = Ok z /\ observe_utc z u = Ok o /\
    o.(o_off) <> fst (fst (posix_observe r u)) /\ o.(o_wall) - o.(o_off) <> u.
Proof.
  exists negdst_rule, negdst_instant. eexists. eexists.
  split; [vm_compute; reflexivity|].
  split; [vm_compute; reflexivity|].
  split; [vm_compute; reflexivity|].
  split; [eexists; split; [reflexivity|vm_compute; reflexivity]|].
  split; [vm_compute; reflexivity|].
  split; [vm_compute; reflexivity|].
  split; vm_compute; discriminate.
Qed.

(* 'UTC' / 'GMT' without an offset are fixed zones at offset 0, whatever posix_offset is
   (TypeError before fix edf5097 in /repo) *)
Lemma gmt_utc_bare_lemma :
  forallb (fun name => fixed_zone_is (tzstr_init name false) name 0 &&
                       fixed_zone_is (tzstr_init name true) name 0) [GMT; UTC] = true.
Proof. vm_compute. reflexivity. Qed.
