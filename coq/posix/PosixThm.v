(* THEOREMS of C08 assembled for coq/props/C08.v: tzstr / tzrange model vs POSIX specification. *)
From Coq Require Import ZArith List Bool Lia ZifyBool.
From V Require Import base.Cal posix.PTime posix.RDelta posix.TzParseModel posix.TzRangeModel
     posix.PosixSpec posix.TransThm posix.MainThm.
Import ListNotations.
Ltac Zify.zify_post_hook ::= Z.to_euclidean_division_equations.
Open Scope Z_scope.

(* a zone without DST part observes its fixed offset everywhere *)
Lemma no_dst_fixed_lemma z u :
  z.(z_hasdst) = false ->
  observe_utc z u = Ok (mkObs (u + z.(z_std_off)) false z.(z_std_off) 0 z.(z_std_abbr)).
Proof.
  intros H. unfold observe_utc, fromutc, transitions, utcoffset, dst, tzname, isdst.
  rewrite H. cbn. reflexivity.
Qed.

(* the parse result the canonical rendering of a rule stands for *)
Definition ast_of_posix (r : posix) : tzres :=
  match r.(p_dst) with
  | Some ds => ast_of r ds
  | None => mkRes (Some r.(p_name)) (Some r.(p_off)) None None attr0 attr0 false
  end.

(* the guard of the main theorem, as one executable predicate *)
Definition guard (r : posix) : bool := wf_posix r && guard_apart r && guard_d8 r.

(* MAIN (tzstr): for every well-formed rule inside the guard and EVERY instant u, the zone tzstr
   builds from the parsed rule reports the offset, dst and abbreviation POSIX prescribes *)
Lemma tzstr_posix_lemma r po u :
  guard r = true -> (po = true \/ not_gmt_utc r.(p_name) = true) ->
  exists z f, tzstr_of_res (Ok (Some (ast_of_posix r))) po = Ok z /\
    observe_utc z u = Ok (let '(o, d, n) := posix_observe r u in mkObs (u + o) f o d (Some n)).
Proof.
  intros G Hpo. unfold guard in G. apply andb_prop in G. destruct G as [G Hd8].
  apply andb_prop in G. destruct G as [Hwf Hap].
  unfold ast_of_posix. destruct (p_dst r) as [ds|] eqn:Hdst.
  - destruct (tzstr_zone_for r ds Hdst Hwf Hap Hd8 po Hpo) as (z & Ez & Hz).
    destruct (observe_utc_posix r ds Hdst Hwf Hap z u Hz) as (f & Ho).
    exists z, f. split; assumption.
  - (* no daylight part: fixed offset *)
    assert (Hflip : abbr_is_gmt_utc (Some r.(p_name)) && negb po = false).
    { destruct Hpo as [-> | Hn]; [apply andb_false_r|].
      unfold not_gmt_utc in Hn. apply negb_true_iff in Hn.
      unfold abbr_is_gmt_utc, GMT, UTC.
      change (list_eqb (p_name r) [71; 77; 84] || list_eqb (p_name r) [85; 84; 67])
        with (zlist_eqb (p_name r) [71; 77; 84] || zlist_eqb (p_name r) [85; 84; 67]).
      rewrite Hn. reflexivity. }
    unfold tzstr_of_res. cbn [r_unused r_stdabbr r_stdoffset r_dstabbr r_dstoffset].
    rewrite Hflip. cbn.
    eexists _, false. split; [reflexivity|].
    rewrite no_dst_fixed_lemma by reflexivity. cbn [z_std_off z_std_abbr].
    unfold posix_observe. rewrite Hdst. reflexivity.
Qed.

(* tzrange built from the equivalent keyword arguments (the documented recipe: both deltas in
   standard time) *)
Definition rd_args_of (d : drule) (secs : Z) : rdargs :=
  match d with
  | DJ n => mkArgs 0 0 0 secs None None None None (Some n)
  | DN n => mkArgs 0 0 0 secs None None None (Some (n + 1)) None
  | DM m w wd => mkArgs 0 0 0 secs (Some m) (Some (if w =? 5 then 31 else 1))
                        (Some ((wd - 1) mod 7, if w =? 5 then -1 else w)) None None
  end.

Definition tzrange_of (r : posix) : res zone :=
  match r.(p_dst) with
  | None => tzrange_init (Some r.(p_name)) (Some r.(p_off)) None None ANone ANone
  | Some ds =>
      tzrange_init (Some r.(p_name)) (Some r.(p_off)) (Some ds.(d_name)) (Some ds.(d_off))
        (AArgs (rd_args_of ds.(d_start).(pr_date) ds.(d_start).(pr_time)))
        (AArgs (rd_args_of ds.(d_end).(pr_date)
                           (ds.(d_end).(pr_time) - (ds.(d_off) - r.(p_off)))))
  end.

Lemma tzstr_delta_args off doff d t (isend : bool) : wf_date d = true ->
  tzstr_delta off doff (ast_rule (mkPrule d t)) isend =
  rd_mk (rd_args_of d (if isend then t - (doff - off) else t)).
Proof.
  intros W. destruct d as [n | n | m w wd]; cbn [wf_date] in W; try reflexivity.
  unfold tzstr_delta, ast_rule, rd_args_of.
  cbn [pr_date pr_time x_month x_weekday x_week x_time some_or].
  destruct (Z.eqb_spec w 5) as [-> | N]; [reflexivity|].
  replace (0 <? w) with true by lia. reflexivity.
Qed.

(* tzrange with equivalent arguments is the same zone object as tzstr's *)
Lemma tzrange_equiv_tzstr_lemma r po :
  wf_posix r = true -> (po = true \/ not_gmt_utc r.(p_name) = true) ->
  forall z, tzstr_of_res (Ok (Some (ast_of_posix r))) po = Ok z -> z.(z_hasdst) = true ->
  tzrange_of r = Ok z.
Proof.
  intros Hwf Hpo z Ez Hh. unfold tzrange_of, ast_of_posix in *.
  assert (Hflip : abbr_is_gmt_utc (Some r.(p_name)) && negb po = false).
  { destruct Hpo as [-> | Hn]; [apply andb_false_r|].
    unfold not_gmt_utc in Hn. apply negb_true_iff in Hn.
    unfold abbr_is_gmt_utc, GMT, UTC.
    change (list_eqb (p_name r) [71; 77; 84] || list_eqb (p_name r) [85; 84; 67])
      with (zlist_eqb (p_name r) [71; 77; 84] || zlist_eqb (p_name r) [85; 84; 67]).
    rewrite Hn. reflexivity. }
  destruct (p_dst r) as [ds|] eqn:Hdst.
  - unfold wf_posix in Hwf. rewrite Hdst in Hwf. split_andb.
    unfold tzstr_of_res, ast_of in Ez.
    cbn [r_unused r_stdabbr r_stdoffset r_dstabbr r_dstoffset r_start r_end] in Ez.
    rewrite Hflip in Ez. unfold tzrange_init in *.
    rewrite (wf_name_truthy ds.(d_name)) in * by assumption.
    cbn [mk_delta rbind z_std_abbr z_dst_abbr z_std_off z_dst_off negb is_none] in *.
    replace (d_start ds) with (mkPrule (pr_date (d_start ds)) (pr_time (d_start ds))) in Ez
      by (destruct (d_start ds); reflexivity).
    replace (d_end ds) with (mkPrule (pr_date (d_end ds)) (pr_time (d_end ds))) in Ez
      by (destruct (d_end ds); reflexivity).
    rewrite !tzstr_delta_args in Ez by assumption. cbn [pr_date pr_time] in *.
    destruct (rd_mk (rd_args_of (pr_date (d_start ds)) (pr_time (d_start ds)))) as [sd|e];
      cbn [rbind] in *; [|discriminate].
    destruct (rd_bool sd) eqn:B.
    + destruct (rd_mk (rd_args_of (pr_date (d_end ds))
                  (pr_time (d_end ds) - (d_off ds - p_off r)))) as [ed|e]; cbn [rbind] in *;
        [|discriminate].
      inversion Ez; subst z. cbn [delta_bool]. rewrite B. reflexivity.
    + inversion Ez; subst z. cbn in Hh. discriminate.
  - unfold tzstr_of_res in Ez. cbn [r_unused r_stdabbr r_stdoffset r_dstabbr r_dstoffset] in Ez.
    rewrite Hflip in Ez. cbn in Ez. inversion Ez; subst z. cbn in Hh. discriminate.
Qed.

