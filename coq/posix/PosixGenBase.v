(* Vocabulary used by the regenerated definitions (coq/gen/PosixGen.v) that the hand models do
   not already provide: how a caller-supplied start / end argument of tzrange(...) becomes the
   stored delta. *)
From Coq Require Import ZArith List Bool.
From V Require Import posix.RDelta posix.TzParseModel posix.TzRangeModel.
Import ListNotations.
Open Scope Z_scope.

(* `start is None` *)
Definition darg_is_none (a : darg) : bool := match a with ANone => true | _ => false end.

(* self._start_delta = start : None, False, or the relativedelta the caller built *)
Definition delta_of_darg (a : darg) : res delta :=
  match a with
  | ANone => Ok DNone
  | AFalse => Ok DFalse
  | AArgs x => rbind (rd_mk x) (fun r => Ok (DRd r))
  end.
