(* MODEL of tz.tzical / tz._tzicalvtz (iCalendar VTIMEZONE zones).
   - components: (onsets, tzoffsetfrom, tzoffsetto, isdst, tzname).  `comp.rrule` is only used
     through `.before(dt, inc=True)` = the latest onset <= dt; the recurrence set is represented
     by its sorted list of onsets (naive local readings, integer seconds as in PTime.v).
   - _find_comp with the 10-entry lookup cache as an explicit state, _find_compdt, utcoffset,
     dst, tzname, the generic _tzinfo.fromutc / _fold_status / is_ambiguous.
   - tzical._parse_rfc as a state machine over the lines of the stream (after str.splitlines),
     _parse_offset, get(tzid).  rrulestr() of the DTSTART/RRULE/RDATE lines is NOT modelled here
     (the parser model returns the collected lines' indices). *)
From Coq Require Import String Ascii.
From Coq Require Import ZArith List Bool.
From V Require Import posix.RDelta posix.TzParseModel.
Import ListNotations.
Open Scope Z_scope.

Record comp := mkComp {
  c_onsets : list Z;           (* sorted ascending *)
  c_from : Z; c_to : Z;
  c_isdst : bool;
  c_name : option (list Z) }.

Definition c_diff (c : comp) : Z := c.(c_to) - c.(c_from).

(* rrule.before(dt, inc=True): last = None; for i in gen: if i > dt: break; last = i *)
Fixpoint before_inc (onsets : list Z) (dt : Z) (last : option Z) : option Z :=
  match onsets with
  | [] => last
  | i :: t => if dt <? i then last else before_inc t dt (Some i)
  end.

(* _find_compdt *)
Definition find_compdt (c : comp) (w : Z) (fold : bool) : option Z :=
  let w := if (c_diff c <? 0) && fold then w - c_diff c else w in
  before_inc c.(c_onsets) w None.

(* for comp in comps: compdt = ...; if compdt and (not lastcompdt or lastcompdt < compdt) *)
Fixpoint scan_comps (cs : list comp) (idx : nat) (w : Z) (fold : bool)
         (last : option (Z * nat)) : option (Z * nat) :=
  match cs with
  | [] => last
  | c :: t =>
      let last' :=
        match find_compdt c w fold with
        | None => last
        | Some d => match last with
                    | None => Some (d, idx)
                    | Some (ld, _) => if ld <? d then Some (d, idx) else last
                    end
        end in
      scan_comps t (S idx) w fold last'
  end.

Fixpoint first_std (cs : list comp) (idx : nat) : option nat :=
  match cs with
  | [] => None
  | c :: t => if negb c.(c_isdst) then Some idx else first_std t (S idx)
  end.

(* _find_comp without the cache: index of the selected component (None = IndexError on []) *)
Definition find_comp_nocache (cs : list comp) (w : Z) (fold : bool) : option nat :=
  match scan_comps cs 0 w fold None with
  | Some (_, i) => Some i
  | None => match first_std cs 0 with
            | Some i => Some i
            | None => match cs with [] => None | _ => Some O end
            end
  end.

(* the cache: _cachedate / _cachecomp as one association list, newest first *)
Definition cache := list (Z * bool * nat).

Fixpoint cache_lookup (st : cache) (w : Z) (fold : bool) : option nat :=
  match st with
  | [] => None
  | (k, f, c) :: t => if (k =? w) && Bool.eqb f fold then Some c else cache_lookup t w fold
  end.

Definition cache_insert (st : cache) (w : Z) (fold : bool) (c : nat) : cache :=
  let st' := (w, fold, c) :: st in
  if (10 <? length st')%nat then removelast st' else st'.

(* _find_comp: (selected component index, new cache) *)
Definition find_comp (cs : list comp) (st : cache) (w : Z) (fold : bool) : option nat * cache :=
  match cs with
  | [_] => (Some O, st)
  | _ =>
      match cache_lookup st w fold with
      | Some c => (Some c, st)
      | None =>
          match find_comp_nocache cs w fold with
          | Some c => (Some c, cache_insert st w fold c)
          | None => (None, st)
          end
      end
  end.

(* same without state, for specifications *)
Definition find_comp_pure (cs : list comp) (w : Z) (fold : bool) : option nat :=
  match cs with [_] => Some O | _ => find_comp_nocache cs w fold end.

Definition get_comp (cs : list comp) (i : option nat) : res comp :=
  match i with
  | None => Err 3                            (* IndexError *)
  | Some i => match nth_error cs i with Some c => Ok c | None => Err 3 end
  end.

(* utcoffset / dst / tzname of a wall reading, threading the cache *)
Definition ical_utcoffset (cs : list comp) (st : cache) (w : Z) (f : bool) : res Z * cache :=
  let '(i, st') := find_comp cs st w f in
  (rbind (get_comp cs i) (fun c => Ok c.(c_to)), st').

Definition ical_dst (cs : list comp) (st : cache) (w : Z) (f : bool) : res Z * cache :=
  let '(i, st') := find_comp cs st w f in
  (rbind (get_comp cs i) (fun c => Ok (if c.(c_isdst) then c_diff c else 0)), st').

Definition ical_tzname (cs : list comp) (st : cache) (w : Z) (f : bool)
  : res (option (list Z)) * cache :=
  let '(i, st') := find_comp cs st w f in
  (rbind (get_comp cs i) (fun c => Ok c.(c_name)), st').

(* stateless versions (cache-transparency theorem: they give the same answers) *)
Definition comp_at (cs : list comp) (w : Z) (f : bool) : res comp :=
  get_comp cs (find_comp_pure cs w f).
Definition ic_utcoffset cs w f : res Z := rbind (comp_at cs w f) (fun c => Ok c.(c_to)).
Definition ic_dst cs w f : res Z :=
  rbind (comp_at cs w f) (fun c => Ok (if c.(c_isdst) then c_diff c else 0)).
Definition ic_tzname cs w f : res (option (list Z)) :=
  rbind (comp_at cs w f) (fun c => Ok c.(c_name)).

(* _tzinfo.is_ambiguous: utcoffset differs between fold=0 and fold=1 *)
Definition ic_is_ambiguous cs w : res bool :=
  rbind (ic_utcoffset cs w false) (fun o0 =>
  rbind (ic_utcoffset cs w true) (fun o1 => Ok (negb (o0 =? o1)))).

(* _tzinfo._fromutc + fromutc + _fold_status : UTC reading -> (wall, fold) *)
Definition ic_fromutc cs (u : Z) : res (Z * bool) :=
  rbind (ic_utcoffset cs u false) (fun dtoff =>
  rbind (ic_dst cs u false) (fun dtdst =>
    let delta := dtoff - dtdst in
    let dt := u + delta in
    rbind (ic_dst cs dt true) (fun dtdst2 =>
      let wall := dt + dtdst2 in
      rbind (ic_is_ambiguous cs wall) (fun amb =>
        if amb then Ok (wall, (wall - u =? dtoff - dtdst))
        else Ok (wall, false))))).

Definition ic_observe_utc cs (u : Z) : res (Z * bool * Z * Z * option (list Z)) :=
  rbind (ic_fromutc cs u) (fun '(w, f) =>
  rbind (ic_utcoffset cs w f) (fun off =>
  rbind (ic_dst cs w f) (fun d =>
  rbind (ic_tzname cs w f) (fun n => Ok (w, f, off, d, n))))).

Definition ic_observe_wall cs (w : Z) (f : bool) : res (Z * Z * option (list Z)) :=
  rbind (ic_utcoffset cs w f) (fun off =>
  rbind (ic_dst cs w f) (fun d =>
  rbind (ic_tzname cs w f) (fun n => Ok (off, d, n)))).

(* a sequence of wall queries through the cached implementation: list of utcoffset answers *)
Fixpoint run_queries (cs : list comp) (st : cache) (qs : list (Z * bool)) : list (res Z) :=
  match qs with
  | [] => []
  | (w, f) :: t => let '(r, st') := ical_utcoffset cs st w f in r :: run_queries cs st' t
  end.

(* ---------------------------------------------------------------------------------- *)
(* tzical._parse_offset / _parse_rfc                                                  *)

Fixpoint zs (s : String.string) : list Z :=
  match s with
  | String.EmptyString => []
  | String.String a r => Z.of_N (Ascii.N_of_ascii a) :: zs r
  end.

Definition is_space (c : Z) : bool :=
  ((9 <=? c) && (c <=? 13)) || ((28 <=? c) && (c <=? 32)).

Fixpoint lstrip (s : list Z) : list Z :=
  match s with c :: t => if is_space c then lstrip t else s | [] => [] end.
Definition rstrip (s : list Z) : list Z := rev (lstrip (rev s)).
Definition strip (s : list Z) : list Z := rstrip (lstrip s).

(* int(s) for an ASCII field of _parse_offset: optional surrounding blanks, sign, digits with
   single underscores -- here only what can reach int(): the slices s[:2], s[2:], s[2:4], s[4:]
   of a string without surrounding blanks.  Modelled: optional sign + digits; anything else
   (including underscores, inner blanks) is treated as ValueError -- see notes (restriction). *)
Definition py_int_simple (s0 : list Z) : option Z :=
  match strip s0 with
  | 43 :: t => int_tok t
  | 45 :: t => option_map Z.opp (int_tok t)
  | s => int_tok s
  end.

Definition parse_offset (s0 : list Z) : res Z :=
  let s := strip s0 in
  match s with
  | [] => Err EValue
  | c :: t =>
      let '(signal, s) := if c =? 43 then (1, t) else if c =? 45 then (-1, t) else (1, s) in
      if (length s =? 4)%nat then
        match py_int_simple (firstn 2 s), py_int_simple (skipn 2 s) with
        | Some h, Some m => Ok ((h * 3600 + m * 60) * signal)
        | _, _ => Err EValue
        end
      else if (length s =? 6)%nat then
        match py_int_simple (firstn 2 s), py_int_simple (firstn 2 (skipn 2 s)),
              py_int_simple (skipn 4 s) with
        | Some h, Some m, Some sec => Ok ((h * 3600 + m * 60 + sec) * signal)
        | _, _, _ => Err EValue
        end
      else Err EValue
  end.

(* unfolding of continuation lines *)
Fixpoint append_last (out : list (list Z)) (x : list Z) : list (list Z) :=
  match out with
  | [] => []
  | [l] => [l ++ x]
  | l :: t => l :: append_last t x
  end.

Fixpoint unfold_lines (raw : list (list Z)) (out : list (list Z)) : list (list Z) :=
  match raw with
  | [] => out
  | L :: t =>
      let s := rstrip L in
      match s with
      | [] => unfold_lines t out
      | c :: s' =>
          match out with
          | [] => unfold_lines t [L]
          | _ => if c =? 32 then unfold_lines t (append_last out s')
                 else unfold_lines t (out ++ [L])
          end
      end
  end.

(* line.split(':', 1) *)
Fixpoint split_first (c : Z) (s : list Z) (acc : list Z) : option (list Z * list Z) :=
  match s with
  | [] => None
  | x :: t => if x =? c then Some (rev acc, t) else split_first c t (x :: acc)
  end.

(* name.split(';') *)
Fixpoint split_all (c : Z) (s : list Z) (cur : list Z) : list (list Z) :=
  match s with
  | [] => [rev cur]
  | x :: t => if x =? c then rev cur :: split_all c t [] else split_all c t (x :: cur)
  end.

Definition upper (s : list Z) : list Z :=
  map (fun c => if (97 <=? c) && (c <=? 122) then c - 32 else c) s.

Definition seq_eq (a : list Z) (b : String.string) : bool := list_eqb a (zs b).

(* a finished component: the model does not interpret the recurrence lines, it reports them *)
Record pcomp := mkPcomp {
  pc_from : Z; pc_to : Z; pc_isdst : bool; pc_name : option (list Z);
  pc_rrulelines : list (list Z) }.

Record pstate := mkPstate {
  ps_vtz : list (list Z * list pcomp);         (* self._vtz in insertion order *)
  ps_tzid : option (list Z);
  ps_comps : list pcomp;
  ps_invtz : bool;
  ps_comptype : option (list Z);
  ps_founddtstart : bool;
  ps_from : option Z; ps_to : option Z;
  ps_rrulelines : list (list Z);
  ps_tzname : option (list Z) }.

Definition ps0 : pstate := mkPstate [] None [] false None false None None [] None.

(* dict assignment self._vtz[tzid] = zone *)
Fixpoint dict_set (d : list (list Z * list pcomp)) (k : list Z) (v : list pcomp) :=
  match d with
  | [] => [(k, v)]
  | (k', v') :: t => if list_eqb k k' then (k, v) :: t else (k', v') :: dict_set t k v
  end.

Definition truthy_ostr (o : option (list Z)) : bool :=
  match o with Some (_ :: _) => true | _ => false end.

Definition ostr_eq (o : option (list Z)) (v : list Z) : bool :=
  match o with Some a => list_eqb a v | None => false end.

Definition step (st : pstate) (line : list Z) : res pstate :=
  match line with [] => Ok st | _ =>
  match split_first 58 line [] with
  | None => Err EValue                          (* name, value = line.split(':', 1) *)
  | Some (name0, value) =>
    let parms0 := split_all 59 name0 [] in
    let name := upper (hd [] parms0) in
    let parms := tl parms0 in
    let no_parms := match parms with [] => true | _ => false end in
    let set_comp (st : pstate) ct fd fr to rl tn :=
      mkPstate st.(ps_vtz) st.(ps_tzid) st.(ps_comps) st.(ps_invtz) ct fd fr to rl tn in
    if st.(ps_invtz) then
      if seq_eq name "BEGIN" then
        if seq_eq value "STANDARD" || seq_eq value "DAYLIGHT" then
          Ok (set_comp st (Some value) false None None [] None)
        else Err EValue
      else if seq_eq name "END" then
        if seq_eq value "VTIMEZONE" then
          if truthy_ostr st.(ps_comptype) then Err EValue
          else if negb (truthy_ostr st.(ps_tzid)) then Err EValue
          else match st.(ps_comps) with
               | [] => Err EValue
               | _ =>
                 match st.(ps_tzid) with
                 | None => Err EValue
                 | Some tzid =>
                   Ok (mkPstate (dict_set st.(ps_vtz) tzid st.(ps_comps)) st.(ps_tzid)
                                st.(ps_comps) false st.(ps_comptype) st.(ps_founddtstart)
                                st.(ps_from) st.(ps_to) st.(ps_rrulelines) st.(ps_tzname))
                 end
               end
        else if ostr_eq st.(ps_comptype) value then
          if negb st.(ps_founddtstart) then Err EValue
          else match st.(ps_from), st.(ps_to) with
               | Some fr, Some to =>
                   let c := mkPcomp fr to (seq_eq value "DAYLIGHT") st.(ps_tzname)
                                    st.(ps_rrulelines) in
                   Ok (mkPstate st.(ps_vtz) st.(ps_tzid) (st.(ps_comps) ++ [c]) true None
                                st.(ps_founddtstart) st.(ps_from) st.(ps_to)
                                st.(ps_rrulelines) st.(ps_tzname))
               | _, _ => Err EValue
               end
        else Err EValue
      else if truthy_ostr st.(ps_comptype) then
        if seq_eq name "DTSTART" then
          if forallb (fun p => seq_eq p "VALUE=DATE-TIME") parms then
            Ok (set_comp st st.(ps_comptype) true st.(ps_from) st.(ps_to)
                         (st.(ps_rrulelines) ++ [line]) st.(ps_tzname))
          else Err EValue
        else if seq_eq name "RRULE" || seq_eq name "RDATE" || seq_eq name "EXRULE" ||
                seq_eq name "EXDATE" then
          Ok (set_comp st st.(ps_comptype) st.(ps_founddtstart) st.(ps_from) st.(ps_to)
                       (st.(ps_rrulelines) ++ [line]) st.(ps_tzname))
        else if seq_eq name "TZOFFSETFROM" then
          if negb no_parms then Err EValue
          else rbind (parse_offset value) (fun v =>
            Ok (set_comp st st.(ps_comptype) st.(ps_founddtstart) (Some v) st.(ps_to)
                         st.(ps_rrulelines) st.(ps_tzname)))
        else if seq_eq name "TZOFFSETTO" then
          if negb no_parms then Err EValue
          else rbind (parse_offset value) (fun v =>
            Ok (set_comp st st.(ps_comptype) st.(ps_founddtstart) st.(ps_from) (Some v)
                         st.(ps_rrulelines) st.(ps_tzname)))
        else if seq_eq name "TZNAME" then
          if negb no_parms then Err EValue
          else Ok (set_comp st st.(ps_comptype) st.(ps_founddtstart) st.(ps_from) st.(ps_to)
                            st.(ps_rrulelines) (Some value))
        else if seq_eq name "COMMENT" then Ok st
        else Err EValue
      else
        if seq_eq name "TZID" then
          if negb no_parms then Err EValue
          else Ok (mkPstate st.(ps_vtz) (Some value) st.(ps_comps) st.(ps_invtz) st.(ps_comptype)
                            st.(ps_founddtstart) st.(ps_from) st.(ps_to) st.(ps_rrulelines)
                            st.(ps_tzname))
        else if seq_eq name "TZURL" || seq_eq name "LAST-MODIFIED" || seq_eq name "COMMENT"
        then Ok st
        else Err EValue
    else if seq_eq name "BEGIN" && seq_eq value "VTIMEZONE" then
      Ok (mkPstate st.(ps_vtz) None [] true st.(ps_comptype) st.(ps_founddtstart)
                   st.(ps_from) st.(ps_to) st.(ps_rrulelines) st.(ps_tzname))
    else Ok st
  end end.

Fixpoint run_lines (st : pstate) (lines : list (list Z)) : res pstate :=
  match lines with
  | [] => Ok st
  | l :: t => rbind (step st l) (fun st' => run_lines st' t)
  end.

(* _parse_rfc on s.splitlines() *)
Definition parse_rfc (raw : list (list Z)) : res (list (list Z * list pcomp)) :=
  match raw with
  | [] => Err EValue                                   (* empty string *)
  | _ => rbind (run_lines ps0 (unfold_lines raw [])) (fun st => Ok st.(ps_vtz))
  end.

(* tzical.get(tzid): Ok None = returns None *)
Definition ical_get (vtz : list (list Z * list pcomp)) (tzid : option (list Z))
  : res (option (list pcomp)) :=
  let fix find (d : list (list Z * list pcomp)) (k : list Z) :=
    match d with
    | [] => None
    | (k', v) :: t => if list_eqb k k' then Some v else find t k
    end in
  match tzid with
  | Some k => Ok (find vtz k)
  | None =>
      match vtz with
      | [] => Err EValue
      | [(_, v)] => Ok (Some v)
      | _ => Err EValue
      end
  end.
