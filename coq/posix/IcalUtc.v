(* C17: UTC -> local through the generic _tzinfo.fromutc on a VTIMEZONE zone whose onsets are a
   rule's events: at every instant (inside the listed horizon) the zone reports what POSIX
   prescribes -- offset, dst, abbreviation, on the wall reading u + offset. *)
From Coq Require Import ZArith List Bool Lia ZifyBool.
From V Require Import base.Cal posix.PTime posix.RDelta posix.TzParseModel posix.TzRangeModel
     posix.PosixSpec posix.TransThm posix.MainThm posix.PosixThm posix.IcalModel posix.IcalEquiv.
Import ListNotations.
Ltac Zify.zify_post_hook ::= Z.to_euclidean_division_equations.
Open Scope Z_scope.

Lemma year_of_secs_mono x x' : x <= x' -> year_of_secs x <= year_of_secs x'.
Proof.
  intros H. pose proof (year_of_secs_spec x) as A. pose proof (year_of_secs_spec x') as B.
  destruct (Z_le_gt_dec (year_of_secs x) (year_of_secs x')) as [L | G]; [exact L|].
  pose proof (ystart_mono (year_of_secs x' + 1) (year_of_secs x) ltac:(lia)). lia.
Qed.

Section IcalUtc.
  Variable r : posix.
  Variable ds : dstpart.
  Hypothesis Hdst : r.(p_dst) = Some ds.
  Hypothesis Hwf : wf_posix r = true.
  Hypothesis Hap : guard_apart r = true.
  Variable y0 : Z.
  Variable n : nat.
  Variable cs : list comp.
  Hypothesis Hcs : cs = [comp_daylight r ds y0 n; comp_standard r ds y0 n] \/
                   cs = [comp_standard r ds y0 n; comp_daylight r ds y0 n].

  Local Notation off := (p_off r).
  Local Notation doff := (d_off ds).
  Local Notation sv := (d_off ds - p_off r).

  Definition in_range (w : Z) : Prop := y0 < year_of_secs w < y0 + Z.of_nat n.

  (* the three observers of the zone, for a wall reading of a year inside the horizon *)
  Lemma ic_obs w f : in_range w ->
    let b := LI r ds (year_of_secs w) w f in
    ic_utcoffset cs w f = Ok (if b then doff else off) /\
    ic_dst cs w f = Ok (if b then sv else 0) /\
    ic_tzname cs w f = Ok (if b then Some ds.(d_name) else Some r.(p_name)).
  Proof.
    intros Hy. cbv zeta.
    pose proof (year_of_secs_spec w) as Hw.
    destruct (ical_decision r ds Hdst Hwf Hap y0 n w f _ Hw Hy) as [D1 D2].
    assert (D : ical_isdst cs w f = Some (LI r ds (year_of_secs w) w f))
      by (destruct Hcs as [-> | ->]; assumption).
    pose proof (comp_at_of_isdst r ds y0 n cs w f _ Hcs D) as C.
    unfold ic_utcoffset, ic_dst, ic_tzname. rewrite C. cbn [rbind].
    destruct (LI r ds (year_of_secs w) w f); cbn; repeat split; reflexivity.
  Qed.

  (* LI at the standard-time reading of u, with fold=1, is the specification's decision at u *)
  Lemma LI_probe u y : ystart y <= u < ystart (y + 1) ->
    LI r ds y (u + off) true = naive_isdst u (RS ds y - off) (RE ds y - doff).
  Proof.
    intros Hy.
    pose proof (a_bound r ds Hdst Hwf) as (Ha & Ha1 & Ha2).
    pose proof (sv_range r ds Hdst Hap) as Hsv.
    pose proof (RS_bounds r ds Hdst Hwf Hap y) as [B1 B2].
    pose proof (RE_bounds r ds Hdst Hwf Hap y) as [B3 B4].
    unfold LI, AMB, naive_isdst.
    destruct (order r ds Hdst Hwf Hap) as [N | S].
    - pose proof (N y).
      replace (RS ds y - off <? RE ds y - doff) with true by (unfold DAY in *; lia).
      destruct (Z.leb_spec (RS ds y - off) u); destruct (Z.ltb_spec u (RE ds y - doff));
        destruct (Z.ltb_spec (u + off) (RE ds y)); unfold DAY in *; try (exfalso; lia);
        leb_lia; reflexivity.
    - pose proof (S y).
      replace (RS ds y - off <? RE ds y - doff) with false by (unfold DAY in *; lia).
      destruct (Z.leb_spec (RE ds y - doff) u); destruct (Z.ltb_spec u (RS ds y - off));
        destruct (Z.ltb_spec (u + off) (RE ds y)); unfold DAY in *; try (exfalso; lia);
        leb_lia; reflexivity.
  Qed.

  Lemma offs_lt_day : Z.abs off < DAY /\ Z.abs doff < DAY.
  Proof.
    pose proof Hwf as W. unfold wf_posix in W. rewrite Hdst in W. split_andb.
    unfold wf_off in *. unfold DAY. lia.
  Qed.

  (* MAIN (UTC -> local) *)
  Theorem ical_utc_posix u :
    in_range (u - DAY) -> in_range (u + DAY) ->
    exists f, ic_observe_utc cs u =
      Ok (let '(o, d, nm) := posix_observe r u in (u + o, f, o, d, Some nm)).
  Proof.
    intros Hlo Hhi.
    pose proof offs_lt_day as [Ho1 Ho2].
    pose proof (a_bound r ds Hdst Hwf) as (Ha & Ha1 & Ha2).
    pose proof (sv_range r ds Hdst Hap) as Hsv.
    assert (Hr : forall x, u - DAY <= x <= u + DAY -> in_range x).
    { intros x Hx. unfold in_range in *.
      pose proof (year_of_secs_mono (u - DAY) x ltac:(lia)).
      pose proof (year_of_secs_mono x (u + DAY) ltac:(lia)). lia. }
    pose proof (year_of_secs_spec u) as Hy. set (y := year_of_secs u) in *.
    pose proof (spec_isdst_year r ds Hdst Hwf Hap u y Hy) as HP.
    (* every reading we look at is within a day of u, hence near year y *)
    assert (Tr : forall w f, u - DAY <= w <= u + DAY ->
                   LI r ds (year_of_secs w) w f = LI r ds y w f).
    { intros w f Hw. pose proof (year_of_secs_spec w) as Hyw.
      destruct (transport r ds Hdst Hwf Hap w y (year_of_secs w) f Hyw
                  ltac:(unfold DAY in *; lia)) as [_ T]. exact T. }
    unfold ic_observe_utc, ic_fromutc.
    destruct (ic_obs u false (Hr u ltac:(unfold DAY; lia))) as (U1 & U2 & _).
    rewrite U1, U2. cbn [rbind].
    replace ((if LI r ds (year_of_secs u) u false then doff else off) -
             (if LI r ds (year_of_secs u) u false then sv else 0)) with off
      by (destruct (LI r ds (year_of_secs u) u false); lia).
    destruct (ic_obs (u + off) true (Hr (u + off) ltac:(unfold DAY in *; lia))) as (_ & V2 & _).
    rewrite V2. cbn [rbind].
    rewrite (Tr (u + off) true ltac:(unfold DAY in *; lia)), (LI_probe u y Hy).
    unfold posix_observe. rewrite Hdst, HP.
    unfold ic_is_ambiguous.
    destruct (naive_isdst u (RS ds y - off) (RE ds y - doff)) eqn:Pu.
    - (* daylight at u: wall = u + doff *)
      replace (u + off + sv) with (u + doff) by lia.
      assert (Hw : u - DAY <= u + doff <= u + DAY) by (unfold DAY in *; lia).
      destruct (ic_obs (u + doff) false (Hr _ Hw)) as (W1 & W2 & W3).
      destruct (ic_obs (u + doff) true (Hr _ Hw)) as (X1 & _ & _).
      rewrite W1, X1. cbn [rbind].
      rewrite !(Tr (u + doff) _ Hw).
      rewrite (LI_dst r ds Hdst Hwf Hap u y Hy Pu).
      destruct (LI r ds y (u + doff) true).
      + replace (doff =? doff) with true by lia. cbn [negb rbind]. exists false.
        rewrite W1, W2, W3. cbn [rbind]. rewrite !(Tr (u + doff) _ Hw).
        rewrite (LI_dst r ds Hdst Hwf Hap u y Hy Pu). reflexivity.
      + replace (doff =? off) with false by lia. cbn [negb rbind].
        replace (u + doff - u =? off) with false by lia. exists false.
        rewrite W1, W2, W3. cbn [rbind]. rewrite !(Tr (u + doff) _ Hw).
        rewrite (LI_dst r ds Hdst Hwf Hap u y Hy Pu). reflexivity.
    - (* standard time at u: wall = u + off *)
      replace (u + off + 0) with (u + off) by lia.
      assert (Hw : u - DAY <= u + off <= u + DAY) by (unfold DAY in *; lia).
      destruct (ic_obs (u + off) false (Hr _ Hw)) as (W1 & W2 & W3).
      destruct (ic_obs (u + off) true (Hr _ Hw)) as (X1 & X2 & X3).
      rewrite W1, X1. cbn [rbind]. rewrite !(Tr (u + off) _ Hw).
      pose proof (LI_std r ds Hdst Hwf Hap u y Hy Pu) as Ls.
      (* LI only depends on the fold inside the ambiguous window *)
      unfold LI in Ls |- *.
      destruct (naive_isdst (u + off) (RS ds y) (RE ds y - sv)) eqn:Nv; cbn [negb] in *;
        [destruct (AMB r ds y (u + off)); discriminate|].
      destruct (AMB r ds y (u + off)) eqn:Am; cbn [negb] in *.
      + replace (doff =? off) with false by lia. cbn [negb rbind].
        replace (u + off - u =? off) with true by lia. exists true.
        rewrite X1, X2, X3. cbn [rbind]. rewrite !(Tr (u + off) _ Hw). unfold LI.
        rewrite Nv, Am. reflexivity.
      + replace (off =? off) with true by lia. cbn [negb rbind]. exists false.
        rewrite W1, W2, W3. cbn [rbind]. rewrite !(Tr (u + off) _ Hw). unfold LI.
        rewrite Nv, Am. reflexivity.
  Qed.
End IcalUtc.

(* ------------------------------------------------------------------------------------------------
   F-C17-1 as a theorem about the faithful model: NEGATIVE saving (the Irish rule
   'IST-1GMT0,M10.5.0/2,M3.5.0/1'; every guard clause holds except the sign of the saving).  At
   2021-10-31T00:30:00Z, half an hour before the transition into the lower offset, the VTIMEZONE zone
   converts UTC to the wall reading 00:30 with offset +01:00 -- which is not that instant -- while the
   tzstr zone of the same rule (and POSIX) says 01:30 +01:00 IST: tzical differs from tzstr. *)
Definition ical_negdst_rule : posix :=
  mkPosix [73; 83; 84] 3600
    (Some (mkDst [71; 77; 84] 0 (mkPrule (DM 10 5 0) 7200) (mkPrule (DM 3 5 0) 3600))).
Definition ical_negdst_instant : Z := ord_of_ymd 2021 10 31 * 86400 + 1800.

Lemma ical_negative_dst_refuted_lemma :
  exists r ds y0 n u z o w f off d nm,
    r.(p_dst) = Some ds /\ wf_posix r = true /\ guard_d8 r = true /\ ds.(d_off) < r.(p_off) /\
    in_range y0 n (u - DAY) /\ in_range y0 n (u + DAY) /\
    tzstr_init (render_posix r) false = Ok z /\ observe_utc z u = Ok o /\
    ic_observe_utc [comp_daylight r ds y0 n; comp_standard r ds y0 n] u = Ok (w, f, off, d, nm) /\
    w <> o.(o_wall) /\ w - off <> u /\
    (o.(o_wall), o.(o_off)) = (u + fst (fst (posix_observe r u)), fst (fst (posix_observe r u))).
Proof.
  exists ical_negdst_rule. eexists. exists 2019, 5%nat, ical_negdst_instant.
  do 7 eexists.
  split; [reflexivity|].
  split; [vm_compute; reflexivity|].
  split; [vm_compute; reflexivity|].
  split; [vm_compute; reflexivity|].
  split; [unfold in_range; vm_compute; split; reflexivity|].
  split; [unfold in_range; vm_compute; split; reflexivity|].
  split; [vm_compute; reflexivity|].
  split; [vm_compute; reflexivity|].
  split; [vm_compute; reflexivity|].
  split; [vm_compute; discriminate|].
  split; [vm_compute; discriminate|].
  vm_compute. reflexivity.
Qed.
