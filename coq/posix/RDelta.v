(* MODEL.  The piece of dateutil.relativedelta that tzrange / tzstr use for their yearly rules:
   the keyword constructor (month, day, weekday(n), yearday, nlyearday, days, hours, minutes,
   seconds; relativedelta.py __init__ 104-245 with _fix 247-278), __bool__ (475-491) and
   __add__ (357-402) applied to datetime(year, 1, 1).  years/months/year/hour/minute/second/
   microsecond(s) are never set by tzrange's callers here and are left out (stated in notes/posix.md).
   datetime range errors (OverflowError outside years 1..9999) are not modelled. *)
From Coq Require Import ZArith List Bool.
From V Require Import base.Cal posix.PTime.
Import ListNotations.
Open Scope Z_scope.

(* outcome of an operation that may raise *)
Inductive res (A : Type) : Type :=
| Ok (a : A)
| Err (e : Z).
Arguments Ok {A} a.
Arguments Err {A} e.

Definition EValue : Z := 1.   (* ValueError (incl. calendar.IllegalMonthError) *)
Definition EType : Z := 2.    (* TypeError *)
Definition EFuel : Z := 9.    (* model ran out of fuel: proved unreachable *)

Definition rbind {A B} (r : res A) (f : A -> res B) : res B :=
  match r with Ok a => f a | Err e => Err e end.

Record rdelta := mkRd {
  rd_days : Z; rd_leapdays : Z; rd_hours : Z; rd_minutes : Z; rd_seconds : Z;
  rd_month : option Z; rd_day : option Z;
  rd_weekday : option (Z * Z)       (* (weekday, n); n = 0 stands for n=None ("or 1") *)
}.

(* keyword arguments of the constructor *)
Record rdargs := mkArgs {
  a_days : Z; a_hours : Z; a_minutes : Z; a_seconds : Z;
  a_month : option Z; a_day : option Z; a_weekday : option (Z * Z);
  a_yearday : option Z; a_nlyearday : option Z
}.

Definition py_sign (x : Z) : Z := if x <? 0 then -1 else 1.

(* one carry of _fix: if abs(lo) > lim-1: s = sign(lo); div, mod = divmod(lo*s, lim);
   lo = mod*s; hi += div*s *)
Definition fix_carry (lo hi lim : Z) : Z * Z :=
  if lim - 1 <? Z.abs lo then
    let s := py_sign lo in
    ((lo * s) mod lim * s, hi + (lo * s) / lim * s)
  else (lo, hi).

Definition ydayidx : list Z := [31; 59; 90; 120; 151; 181; 212; 243; 273; 304; 334; 366].

(* for idx, ydays in enumerate(ydayidx): if yday <= ydays: month = idx+1;
   day = yday (idx = 0) or yday - ydayidx[idx-1]; break   else: raise ValueError *)
Fixpoint yday_lookup (tbl : list Z) (idx prev yday : Z) : option (Z * Z) :=
  match tbl with
  | [] => None
  | ydays :: t =>
      if yday <=? ydays then Some (idx + 1, if idx =? 0 then yday else yday - prev)
      else yday_lookup t (idx + 1) ydays yday
  end.

Definition truthy_oz (o : option Z) : bool :=
  match o with Some v => negb (v =? 0) | None => false end.

Definition rd_mk (a : rdargs) : res rdelta :=
  let '(yday, leapdays) :=
    if truthy_oz a.(a_nlyearday) then (match a.(a_nlyearday) with Some v => v | None => 0 end, 0)
    else if truthy_oz a.(a_yearday) then
      let v := match a.(a_yearday) with Some v => v | None => 0 end in
      (* if 59 < yearday < 366: self.leapdays = -1     (code after fix f29aa05) *)
      (v, if (59 <? v) && (v <? 366) then -1 else 0)
    else (0, 0) in
  let md :=
    if yday =? 0 then Ok (a.(a_month), a.(a_day))
    else match yday_lookup ydayidx 0 0 yday with
         | Some (m, d) => Ok (Some m, Some d)
         | None => Err EValue
         end in
  rbind md (fun '(month, day) =>
    (* _fix: seconds -> minutes -> hours -> days *)
    let '(sec, mi) := fix_carry a.(a_seconds) a.(a_minutes) 60 in
    let '(mi, ho) := fix_carry mi a.(a_hours) 60 in
    let '(ho, da) := fix_carry ho a.(a_days) 24 in
    Ok (mkRd da leapdays ho mi sec month day a.(a_weekday))).

(* relativedelta.__bool__ *)
Definition is_none {A} (o : option A) : bool := match o with None => true | Some _ => false end.
Definition rd_bool (r : rdelta) : bool :=
  negb ((r.(rd_days) =? 0) && (r.(rd_hours) =? 0) && (r.(rd_minutes) =? 0) &&
        (r.(rd_seconds) =? 0) && (r.(rd_leapdays) =? 0) &&
        is_none r.(rd_month) && is_none r.(rd_day) && is_none r.(rd_weekday)).

(* `self.x or other.x` with other = datetime(year, 1, 1) *)
Definition py_or (o : option Z) (dflt : Z) : Z :=
  match o with Some v => if v =? 0 then dflt else v | None => dflt end.

(* total of the timedelta(days=, hours=, minutes=, seconds=) added in __add__ *)
Definition rd_duration (r : rdelta) : Z :=
  r.(rd_days) * DAY + r.(rd_hours) * 3600 + r.(rd_minutes) * 60 + r.(rd_seconds).

(* weekday jump of __add__ *)
Definition wd_jump (ret : Z) (wdn : option (Z * Z)) : Z :=
  match wdn with
  | None => ret
  | Some (wd, n) =>
      let nth := if n =? 0 then 1 else n in
      let jump := (Z.abs nth - 1) * 7 in
      let rw := weekday_of_secs ret in
      let jump := if 0 <? nth then jump + (7 - rw + wd) mod 7
                  else (jump + (rw - wd) mod 7) * -1 in
      ret + jump * DAY
  end.

(* datetime(year, 1, 1) + r *)
Definition rd_add_jan1 (r : rdelta) (year : Z) : res Z :=
  let month := py_or r.(rd_month) 1 in
  if negb ((1 <=? month) && (month <=? 12)) then Err EValue   (* monthrange: IllegalMonthError *)
  else
    let day := Z.min (dim year month) (py_or r.(rd_day) 1) in
    if day <? 1 then Err EValue                                (* datetime.replace(day=...) *)
    else
      let days := if negb (r.(rd_leapdays) =? 0) && (2 <? month) && is_leap year
                  then r.(rd_leapdays) else 0 in
      let ret := secs_of_ymd year month day + days * DAY + rd_duration r in
      Ok (wd_jump ret r.(rd_weekday)).
