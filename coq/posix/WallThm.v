(* C08: wall readings of a rule zone (tzstr / tzrange model), either fold, against the POSIX
   specification's classification: a reading that denotes an instant (normal, or ambiguous with
   its fold) observes what POSIX prescribes at that instant. *)
From Coq Require Import ZArith List Bool Lia ZifyBool.
From V Require Import base.Cal posix.PTime posix.RDelta posix.TzParseModel posix.TzRangeModel
     posix.PosixSpec posix.TransThm posix.MainThm posix.PosixThm.
Import ListNotations.
Ltac Zify.zify_post_hook ::= Z.to_euclidean_division_equations.
Open Scope Z_scope.

Section Wall.
  Variable r : posix.
  Variable ds : dstpart.
  Hypothesis Hdst : r.(p_dst) = Some ds.
  Hypothesis Hwf : wf_posix r = true.
  Hypothesis Hap : guard_apart r = true.

  Local Notation off := (p_off r).
  Local Notation doff := (d_off ds).
  Local Notation sv := (d_off ds - p_off r).
  Local Notation RSy := (RS ds).
  Local Notation REy := (RE ds).

  Lemma offs_lt_day : Z.abs off < DAY /\ Z.abs doff < DAY.
  Proof.
    pose proof Hwf as W. unfold wf_posix in W. rewrite Hdst in W. split_andb.
    unfold wf_off in *. unfold DAY. lia.
  Qed.

  (* the specification's decision at an instant near year y, in terms of year y's events *)
  Definition D (y x : Z) : bool := naive_isdst x (RSy y - off) (REy y - doff).

  Lemma D_transport x y y' :
    ystart y' <= x < ystart (y' + 1) ->
    ystart y - DAY <= x < ystart (y + 1) + DAY ->
    D y' x = D y x.
  Proof.
    intros H1 H2.
    pose proof (a_bound r ds Hdst Hwf) as (Ha & Ha1 & Ha2).
    pose proof (RS_bounds r ds Hdst Hwf Hap y) as [B1 B2].
    pose proof (RE_bounds r ds Hdst Hwf Hap y) as [B3 B4].
    pose proof (ystart_succ y) as Y2. pose proof (year_len_bounds y).
    pose proof (sv_range r ds Hdst Hap) as Hsv.
    assert (Hm : ystart y - MARGIN - (Z.abs off + Z.abs doff) <= x
                 < ystart (y + 1) + MARGIN + (Z.abs off + Z.abs doff)).
    { unfold MARGIN, DAY in *. lia. }
    destruct (near_years r ds Hdst Hwf x y y' H1 Hm) as [E | [E | E]]; subst y'.
    - pose proof (RS_bounds r ds Hdst Hwf Hap (y - 1)) as [A1 A2].
      pose proof (RE_bounds r ds Hdst Hwf Hap (y - 1)) as [A3 A4].
      pose proof (ystart_succ (y - 1)) as Y1. replace (y - 1 + 1) with y in * by lia.
      pose proof (year_len_bounds (y - 1)).
      unfold D, naive_isdst.
      destruct (order r ds Hdst Hwf Hap) as [N | S].
      + pose proof (N (y - 1)). pose proof (N y). unfold MARGIN, DAY in *; leb_lia; reflexivity.
      + pose proof (S (y - 1)). pose proof (S y). unfold MARGIN, DAY in *; leb_lia; reflexivity.
    - reflexivity.
    - pose proof (RS_bounds r ds Hdst Hwf Hap (y + 1)) as [C1 C2].
      pose proof (RE_bounds r ds Hdst Hwf Hap (y + 1)) as [C3 C4].
      unfold D, naive_isdst.
      destruct (order r ds Hdst Hwf Hap) as [N | S].
      + pose proof (N (y + 1)). pose proof (N y). unfold MARGIN, DAY in *; leb_lia; reflexivity.
      + pose proof (S (y + 1)). pose proof (S y). unfold MARGIN, DAY in *; leb_lia; reflexivity.
  Qed.

  (* posix_isdst at an instant within |offsets| + a day of year y *)
  Lemma spec_near x y :
    ystart y - DAY <= x < ystart (y + 1) + DAY ->
    posix_isdst r x = D y x.
  Proof.
    intros H. pose proof (year_of_secs_spec x) as Hx.
    rewrite (spec_isdst_year r ds Hdst Hwf Hap x _ Hx).
    apply (D_transport x y (year_of_secs x) Hx H).
  Qed.

  (* tzrangebase's decision for a wall reading against the two candidate instants *)
  Lemma LI_class y w (f : bool) :
    ystart y <= w < ystart (y + 1) ->
    let c1 := D y (w - doff) in let c0 := negb (D y (w - off)) in
    c1 || c0 = true ->
    LI r ds y w f = (if c1 && c0 then negb f else c1).
  Proof.
    intros Hw c1 c0 H. subst c1 c0.
    pose proof (a_bound r ds Hdst Hwf) as (Ha & Ha1 & Ha2).
    pose proof (sv_range r ds Hdst Hap) as Hsv.
    pose proof (RS_bounds r ds Hdst Hwf Hap y) as [B1 B2].
    pose proof (RE_bounds r ds Hdst Hwf Hap y) as [B3 B4].
    unfold D, LI, AMB, naive_isdst in *.
    destruct (order r ds Hdst Hwf Hap) as [N | S].
    - pose proof (N y).
      replace (RSy y - off <? REy y - doff) with true in * by (unfold DAY in *; lia).
      replace (RSy y <? REy y - sv) with true by (unfold DAY in *; lia).
      destruct (Z.leb_spec (RSy y) w); destruct (Z.ltb_spec w (REy y - sv));
        destruct (Z.ltb_spec w (REy y)); destruct (Z.leb_spec (RSy y - off) (w - doff));
        unfold DAY in *; try (exfalso; lia);
        revert H; leb_lia; cbn [andb orb negb]; intros H; try discriminate; reflexivity.
    - pose proof (S y).
      replace (RSy y - off <? REy y - doff) with false in * by (unfold DAY in *; lia).
      replace (RSy y <? REy y - sv) with false by (unfold DAY in *; lia).
      destruct (Z.leb_spec (RSy y) w); destruct (Z.ltb_spec w (REy y - sv));
        destruct (Z.ltb_spec w (REy y)); destruct (Z.leb_spec (RSy y - off) (w - doff));
        unfold DAY in *; try (exfalso; lia);
        revert H; leb_lia; cbn [andb orb negb]; intros H; try discriminate; reflexivity.
  Qed.

  (* MAIN (wall): every wall reading that denotes an instant -- normal, or ambiguous with its
     fold (fold=0 the earlier, fold=1 the later instant) -- observes what POSIX prescribes there *)
  Theorem observe_wall_posix z w f u : zone_for r ds z ->
    wall_instant r w f = Some u ->
    observe_wall z w f = Ok (let '(o, d, n) := posix_observe r u in (o, d, Some n)).
  Proof.
    intros Hz Hu.
    pose proof (year_of_secs_spec w) as Hw. set (y := year_of_secs w) in *.
    pose proof (a_bound r ds Hdst Hwf) as (Ha & Ha1 & Ha2).
    pose proof (sv_range r ds Hdst Hap) as Hsv.
    pose proof offs_lt_day as [Ho1 Ho2].
    assert (P1 : posix_isdst r (w - doff) = D y (w - doff)) by (apply spec_near; unfold DAY in *; lia).
    assert (P0 : posix_isdst r (w - off) = D y (w - off)) by (apply spec_near; unfold DAY in *; lia).
    unfold observe_wall, utcoffset, dst, tzname.
    rewrite (isdst_model r ds z w f Hz). fold y. cbn [rbind].
    pose proof (LI_class y w f Hw) as L. cbv zeta in L.
    unfold wall_instant, wall_candidates in Hu. rewrite Hdst in Hu. rewrite P1, P0 in Hu.
    destruct Hz as (Hsa & Hda & Hso & Hdo & Hh & Ht). unfold dst_base. rewrite Hso, Hdo, Hsa, Hda.
    unfold posix_observe. rewrite Hdst.
    destruct (D y (w - doff)) eqn:C1; destruct (D y (w - off)) eqn:C0; cbn [negb app andb orb] in *.
    - inversion Hu; subst u. rewrite (L eq_refl), P1. reflexivity.
    - rewrite (L eq_refl). destruct f; cbn [negb] in *; inversion Hu; subst u.
      + rewrite Z.max_r by lia. rewrite P0. reflexivity.
      + rewrite Z.min_l by lia. rewrite P1. reflexivity.
    - discriminate.
    - inversion Hu; subst u. rewrite (L eq_refl), P0. reflexivity.
  Qed.
End Wall.

(* with the zone tzstr builds from the rule *)
Lemma tzstr_wall_posix_lemma r po w f u :
  guard r = true -> (po = true \/ not_gmt_utc r.(p_name) = true) ->
  r.(p_dst) <> None ->
  wall_instant r w f = Some u ->
  exists z, tzstr_of_res (Ok (Some (ast_of_posix r))) po = Ok z /\
    observe_wall z w f = Ok (let '(o, d, n) := posix_observe r u in (o, d, Some n)).
Proof.
  intros G Hpo Hd Hu. unfold guard in G. apply andb_prop in G. destruct G as [G Hd8].
  apply andb_prop in G. destruct G as [Hwf Hap].
  destruct (p_dst r) as [ds|] eqn:Hdst; [|congruence].
  destruct (tzstr_zone_for r ds Hdst Hwf Hap Hd8 po Hpo) as (z & Ez & Hz).
  exists z. split.
  - unfold ast_of_posix. rewrite Hdst. exact Ez.
  - apply (observe_wall_posix r ds Hdst Hwf Hap z w f u Hz Hu).
Qed.
