(* C10 -- history theorem under the sharper guard mild_history (RSetHist2.v): iterators obtained
   before a mutator may be advanced after it, provided they never change the attributes shared
   by all iterators of the set.  What such an iterator itself returns is not specified, but
   every other observation is.  The complement of this guard is exactly how F-C10-stale does
   its damage: a stale iterator reaching the end of its generator writes _cache_complete /
   _cache_gen / _len of the invalidated state. *)
From Coq Require Import ZArith List Bool Lia Permutation.
From V Require Import rset.RSetModel rset.RSetSpec rset.RSetHist rset.RSetThm rset.RSetHistThm rset.RSetHist2.
Import ListNotations.
Open Scope Z_scope.

Lemma len_eqb_eq : forall a b, len_eqb a b = true -> a = b.
Proof.
  intros [x|] [y|] Hb; simpl in Hb; try discriminate; [|reflexivity].
  apply Z.eqb_eq in Hb. subst. reflexivity.
Qed.

Lemma flags_eqb_eq : forall o o', flags_eqb o o' = true ->
  o_complete o = o_complete o' /\ o_gen_none o = o_gen_none o' /\ o_len o = o_len o'.
Proof.
  intros o o' Hf. unfold flags_eqb in Hf. apply andb_true_iff in Hf. destruct Hf as [Hf H3].
  apply andb_true_iff in Hf. destruct Hf as [H1 H2].
  apply Bool.eqb_prop in H1. apply Bool.eqb_prop in H2. apply len_eqb_eq in H3. auto.
Qed.

Lemma nth_set_nth_other : forall (A : Type) (l : list A) i j v d, i <> j -> nth j (set_nth l i v) d = nth j l d.
Proof.
  induction l as [|a l IH]; intros [|i] [|j] v d Hne; simpl; auto; try congruence.
Qed.

Lemma get_set_cell_other : forall o e e' c, e <> e' -> get_cell (set_cell o e c) e' = get_cell o e'.
Proof. intros. unfold get_cell, set_cell. simpl. apply nth_set_nth_other. assumption. Qed.

Section Hist2.
Variable H : heap_ops.
Variable is_heap : list item -> Prop.
Hypothesis HC : heap_contract H is_heap.

Notation obj_ok := (obj_ok H is_heap).
Notation iter_ok := (iter_ok H is_heap).

(* what is known about an iterator obtained before a later mutator *)
Definition stale_inv (o : obj) (it : iter_state) : Prop :=
  match it with
  | ICNew => o_cached o = true
  | ICLoop e i => o_cached o = true /\ (e <= cur o)%nat /\
                  (e = cur o -> (i <= length (cur_cache o))%nat)
  | _ => True
  end.

Lemma stale_of_fresh : forall o it pos, iter_ok o it pos -> stale_inv o it.
Proof.
  intros o it pos Hit. destruct it; simpl in *; auto.
  - destruct Hit as [_ Hc]. assumption.
  - destruct Hit as [-> [-> [Hi Hc]]]. repeat split; auto.
Qed.

Lemma stale_inv_ext : forall o o' it, stale_inv o it -> ext o o' -> stale_inv o' it.
Proof.
  intros o o' it Hs He. pose proof (ext_cur _ _ He) as Hc.
  destruct He as [A1 [A2 [A3 [A4 _]]]].
  destruct it; simpl in *; auto; rewrite ?A2, ?Hc.
  - assumption.
  - destruct Hs as [B1 [B2 B3]]. repeat split; auto. intro E. specialize (B3 E). lia.
Qed.

(* a cell other than the current one is irrelevant to the invariant of the object *)
Lemma obj_ok_set_other : forall o e c, e <> cur o -> obj_ok o -> obj_ok (set_cell o e c) /\ ext o (set_cell o e c).
Proof.
  intros o e c Hne Hok.
  assert (Hcur : cur (set_cell o e c) = cur o) by apply cur_set_cell.
  assert (Hcell : get_cell (set_cell o e c) (cur o) = get_cell o (cur o)) by (apply get_set_cell_other; assumption).
  assert (Hcc : cur_cache (set_cell o e c) = cur_cache o) by (unfold cur_cache; rewrite Hcur, Hcell; reflexivity).
  assert (Hcg : cur_gen (set_cell o e c) = cur_gen o) by (unfold cur_gen; rewrite Hcur, Hcell; reflexivity).
  split.
  - destruct Hok as [A [B [C D]]]. unfold RSetHistThm.obj_ok. rewrite Hcc, Hcg.
    change (S_of (set_cell o e c)) with (S_of o). change (slen (set_cell o e c)) with (slen o).
    change (o_m (set_cell o e c)) with (o_m o). change (o_len (set_cell o e c)) with (o_len o).
    change (o_complete (set_cell o e c)) with (o_complete o). change (o_cached (set_cell o e c)) with (o_cached o).
    change (o_gen_none (set_cell o e c)) with (o_gen_none o).
    split; [assumption|]. split; [assumption|]. split; [assumption|].
    destruct (o_cached o); [|assumption]. destruct D as [D1 D2].
    split; [apply set_nth_nonnil; assumption|assumption].
  - unfold ext. rewrite Hcc. unfold set_cell. cbn [o_m o_cached o_cells o_complete o_len].
    rewrite set_nth_length. repeat split; auto.
Qed.

Lemma set_len_same : forall o p, o_len (set_len o p) = o_len o -> set_len o p = o.
Proof.
  intros [ca m ce gn co le] [n|] E; unfold set_len in *; simpl in *; [|reflexivity].
  subst. reflexivity.
Qed.

(* one next() on such an iterator that leaves the shared attributes alone *)
Lemma stale_step : forall o it, obj_ok o -> stale_inv o it ->
  flags_eqb o (snd (fst (iter_next H o it))) = true ->
  obj_ok (snd (fst (iter_next H o it))) /\ ext o (snd (fst (iter_next H o it))) /\
  stale_inv (snd (fst (iter_next H o it))) (snd (iter_next H o it)).
Proof.
  intros o it Hok Hst Hfl.
  assert (Hsame : forall (ob : obs) (it' : iter_state), stale_inv o it' ->
            obj_ok (snd (fst (ob, o, it'))) /\ ext o (snd (fst (ob, o, it'))) /\
            stale_inv (snd (fst (ob, o, it'))) (snd (ob, o, it'))).
  { intros ob it' Hi. simpl. split; [assumption|]. split; [apply ext_refl|assumption]. }
  destruct it as [g|e i| |e i|e i|].
  - (* stale generator of an uncached set *)
    unfold iter_next in *. destruct (gnext H (o_m o) g) as [[z|p|] g'].
    + apply Hsame. exact I.
    + cbn [fst snd] in *. apply flags_eqb_eq in Hfl. destruct Hfl as [_ [_ Hl]].
      rewrite (set_len_same o p (eq_sym Hl)). split; [assumption|]. split; [apply ext_refl|exact I].
    + apply Hsame. exact I.
  - unfold iter_next. destruct (nth_error (c_cache (get_cell o e)) i); apply Hsame; exact I.
  - (* _iter_cached created before the mutator but first advanced after it: binds to the current state *)
    simpl in Hst.
    destruct (iter_next_spec H is_heap HC o ICNew 0%nat Hok (conj eq_refl Hst))
      as [o' [it' [Hn [Hok' [Hext [Hit' _]]]]]].
    rewrite Hn. cbn [fst snd]. split; [assumption|]. split; [assumption|].
    eapply stale_of_fresh; eauto.
  - destruct Hst as [Hca [Hle Hcur]].
    destruct (Nat.eq_dec e (cur o)) as [->|Hne].
    + (* still bound to the current cell: behaves like a fresh iterator *)
      unfold iter_next in *.
      destruct (loop_step_spec H is_heap HC o i Hok Hca (Hcur eq_refl)) as [o' [it' [Hn [Hok' [Hext [Hit' _]]]]]].
      rewrite Hn in *. cbn [fst snd] in *. split; [assumption|]. split; [assumption|].
      eapply stale_of_fresh; eauto.
    + (* bound to an old cell *)
      unfold iter_next, loop_step in *.
      destruct (Nat.eqb i (length (c_cache (get_cell o e)))).
      * destruct (o_complete o) eqn:Hco.
        -- unfold tail_step. destruct (o_len o); [|apply Hsame; exact I].
           destruct (Z.of_nat i <? z); [|apply Hsame; exact I].
           destruct (nth_error (c_cache (get_cell o e)) i); apply Hsame; exact I.
        -- destruct (fill H 10 (o_m o) (c_cache (get_cell o e)) (c_gen (get_cell o e))) as [[cache' g'] [|p|]].
           ++ destruct (obj_ok_set_other o e (mkCell cache' g') Hne Hok) as [Hok' Hext'].
              destruct (nth_error cache' i); cbn [fst snd]; (split; [assumption|]); (split; [assumption|]).
              ** simpl. rewrite cur_set_cell. repeat split; auto. intro E. contradiction.
              ** exact I.
           ++ (* StopIteration from the stale generator: the shared attributes would change *)
              exfalso. clear Hsame.
              assert (Hc : o_complete (snd (fst (tail_step
                        (set_complete (set_len (set_cell o e (mkCell cache' g')) p)) e i))) = true).
              { unfold tail_step. destruct (o_len _); [|reflexivity].
                destruct (Z.of_nat i <? z); [|reflexivity]. destruct (nth_error _ i); reflexivity. }
              apply flags_eqb_eq in Hfl. destruct Hfl as [Hfc _]. rewrite Hc, Hco in Hfc. discriminate.
           ++ apply Hsame. exact I.
      * destruct (nth_error (c_cache (get_cell o e)) i); [|apply Hsame; exact I].
        cbn [fst snd]. split; [assumption|]. split; [apply ext_refl|]. simpl. repeat split; auto.
        intro E. contradiction.
  - unfold iter_next, tail_step. destruct (o_len o); [|apply Hsame; exact I].
    destruct (Z.of_nat i <? z); [|apply Hsame; exact I].
    destruct (nth_error (c_cache (get_cell o e)) i); apply Hsame; exact I.
  - apply Hsame. exact I.
Qed.

(* ------------------------------------------------------------------ the invariant of a run *)
Definition Rel2 (o : obj) (its : list iter_state) (m : members) (sits : list (option nat)) (n_stale : nat) : Prop :=
  obj_ok o /\ o_m o = m /\ length its = length sits /\ (n_stale <= length its)%nat /\
  (forall k it, nth_error its k = Some it -> (n_stale <= k)%nat ->
     exists pos, nth_error sits k = Some (Some pos) /\ iter_ok o it pos) /\
  (forall k it, nth_error its k = Some it -> (k < n_stale)%nat ->
     nth_error sits k = Some None /\ stale_inv o it).

Lemma stale_inv_mutate : forall o q it, obj_ok o -> is_mutator q = true -> stale_inv o it ->
  stale_inv (invalidate (add_member o q)) it.
Proof.
  intros o q it Hok Hmut Hst.
  assert (Hca : o_cached (add_member o q) = o_cached o) by (destruct q; reflexivity).
  assert (Hce : o_cells (add_member o q) = o_cells o) by (destruct q; reflexivity).
  assert (Hca' : o_cached (invalidate (add_member o q)) = o_cached o).
  { unfold invalidate. rewrite Hca. destruct (o_cached o); reflexivity. }
  destruct it as [g|e i| |e i|e i|]; simpl in *; auto.
  - congruence.
  - destruct Hst as [Hc [Hle Hcur]]. split; [congruence|].
    assert (Hcur' : cur (invalidate (add_member o q)) = S (cur o)).
    { unfold invalidate. rewrite Hca, Hc. unfold cur. cbn [o_cells]. rewrite Hce, app_length. simpl.
      destruct Hok as [_ [_ [_ D]]]. rewrite Hc in D. destruct D as [Dne _].
      destruct (o_cells o); [contradiction|]. simpl. lia. }
    rewrite Hcur'. split; [lia|]. intro E. lia.
Qed.

Theorem hist_main2 : forall ops o its m sits n_stale,
  Rel2 o its m sits n_stale -> Forall op_ok ops -> mild_ops H (o, its) n_stale ops = true ->
  obs_match (run_ops H (o, its) ops) (spec_ops m sits ops).
Proof.
  induction ops as [|q r IH]; intros o its m sits n_stale HR Hops Hmild; [constructor|].
  inversion Hops as [|? ? Hq Hr]; subst.
  destruct HR as [Hok [Hm [Hlen [Hst [Hfresh Hstale]]]]].
  cbn [mild_ops] in Hmild. apply andb_true_iff in Hmild. destruct Hmild as [Hq1 Hmild].
  cbn [snd fst] in Hq1, Hmild.
  destruct (is_mutator q) eqn:Emut.
  - (* mutator: every iterator becomes stale *)
    destruct (mutate_ok H is_heap HC o q Hok Hq Emut) as [Hok' Hm'].
    assert (Hstep : step H (o, its) q = ((invalidate (add_member o q), its), ONone))
      by (unfold step; rewrite Emut; reflexivity).
    assert (Hspec : spec_ops m sits (q :: r) =
                    ONone :: spec_ops (add_member_m m q) (map (fun _ => None) sits) r)
      by (simpl; rewrite Emut; reflexivity).
    rewrite run_ops_cons, Hstep, Hspec. rewrite Hstep in Hmild. cbn [fst] in Hmild.
    constructor; [right; reflexivity|].
    apply (IH _ _ _ _ (length its)); [|assumption|assumption].
    split; [assumption|]. split; [rewrite Hm', Hm; reflexivity|].
    split; [rewrite map_length; assumption|]. split; [lia|]. split.
    + intros k it Hk Hge. exfalso. assert (k < length its)%nat by (apply nth_error_Some; congruence). lia.
    + intros k it Hk Hlt. split.
      * rewrite nth_error_map. destruct (nth_error sits k) eqn:E; [reflexivity|].
        apply nth_error_None in E. lia.
      * apply stale_inv_mutate; auto.
        destruct (Nat.lt_ge_cases k n_stale) as [Hks|Hks].
        -- apply (Hstale k it Hk Hks).
        -- destruct (Hfresh k it Hk Hks) as [pos [_ Hit]]. eapply stale_of_fresh; eauto.
  - destruct (op_eq_dec_newiter q) as [->|Hnn].
    + (* iter() *)
      change (run_ops H (o, its) (NewIter :: r)) with (ONone :: run_ops H (o, its ++ [new_iter o]) r).
      change (fst (step H (o, its) NewIter)) with (o, its ++ [new_iter o]) in Hmild.
      simpl spec_ops. constructor; [right; reflexivity|].
      apply (IH _ _ _ _ n_stale); [|assumption|assumption].
      split; [assumption|]. split; [assumption|].
      split; [rewrite !app_length; simpl; lia|]. split; [rewrite app_length; lia|]. split.
      * intros k it Hk Hge.
        destruct (Nat.lt_ge_cases k (length its)) as [Hlt|Hge'].
        -- rewrite nth_error_app1 in Hk by assumption. rewrite nth_error_app1 by lia. apply Hfresh; assumption.
        -- assert (k = length its).
           { assert (k < length (its ++ [new_iter o]))%nat by (apply nth_error_Some; congruence).
             rewrite app_length in *. simpl in *. lia. }
           subst k. rewrite nth_error_app2 in Hk by lia. rewrite Nat.sub_diag in Hk. simpl in Hk.
           injection Hk as <-. exists O. split.
           ++ rewrite nth_error_app2 by lia. rewrite Hlen, Nat.sub_diag. reflexivity.
           ++ apply new_iter_ok; assumption.
      * intros k it Hk Hlt. rewrite nth_error_app1 in Hk by lia. rewrite nth_error_app1 by lia.
        apply Hstale; assumption.
    + destruct (op_is_next q) as [[k ->]|Hnx].
      * (* next(it_k) *)
        apply andb_true_iff in Hq1. destruct Hq1 as [Hk2 Hfl]. apply Nat.ltb_lt in Hk2.
        destruct (nth_error its k) as [it|] eqn:Eit; [|apply nth_error_None in Eit; lia].
        assert (Hstep : step H (o, its) (Next k) =
                        ((snd (fst (iter_next H o it)), set_nth its k (snd (iter_next H o it))),
                         fst (fst (iter_next H o it)))).
        { unfold step. cbn [is_mutator]. rewrite Eit. destruct (iter_next H o it) as [[ob o'] it']. reflexivity. }
        rewrite run_ops_cons, Hstep. rewrite Hstep in Hmild, Hfl. cbn [fst snd] in Hmild, Hfl.
        destruct (Nat.ltb_spec k n_stale) as [Hks|Hks].
        -- (* an iterator obtained before a later mutator *)
           destruct (Hstale k it Eit Hks) as [Hsk Hinv].
           destruct (stale_step o it Hok Hinv Hfl) as [Hok' [Hext Hinv']].
           simpl spec_ops. rewrite Hsk. constructor; [left; reflexivity|].
           apply (IH _ _ _ _ n_stale); [|assumption|assumption].
           split; [assumption|]. split; [destruct Hext as [E _]; congruence|].
           split; [rewrite set_nth_length; assumption|]. split; [rewrite set_nth_length; assumption|]. split.
           ++ intros k' it0 Hk' Hge. rewrite nth_error_set_nth_neq in Hk' by lia.
              destruct (Hfresh k' it0 Hk' Hge) as [pos [A B]]. exists pos. split; [assumption|].
              eapply iter_ok_ext; eauto.
           ++ intros k' it0 Hk' Hlt. destruct (Nat.eq_dec k k') as [<-|Hne].
              ** rewrite nth_error_set_nth_eq in Hk' by assumption. injection Hk' as <-. split; assumption.
              ** rewrite nth_error_set_nth_neq in Hk' by assumption.
                 destruct (Hstale k' it0 Hk' Hlt) as [A B]. split; [assumption|]. eapply stale_inv_ext; eauto.
        -- (* a fresh iterator *)
           destruct (Hfresh k it Eit Hks) as [pos [Hs Hit]].
           destruct (iter_next_spec H is_heap HC o it pos Hok Hit) as [o' [it' [Hn [Hok' [Hext [Hit' _]]]]]].
           rewrite Hn in *. cbn [fst snd] in *.
           simpl spec_ops. rewrite Hs.
           unfold step_obs, next_pos in *. unfold S_of in *. rewrite Hm in *.
           assert (Hm'' : o_m o' = m) by (destruct Hext as [E _]; congruence).
           assert (Hothers : forall k' it0, k' <> k -> nth_error its k' = Some it0 -> (n_stale <= k')%nat ->
                      exists pos0, nth_error sits k' = Some (Some pos0) /\ iter_ok o' it0 pos0).
           { intros k' it0 Hne Hk' Hge. destruct (Hfresh k' it0 Hk' Hge) as [pos0 [A B]].
             exists pos0. split; [assumption|]. eapply iter_ok_ext; eauto. }
           assert (Hstales : forall k' it0, nth_error its k' = Some it0 -> (k' < n_stale)%nat ->
                      nth_error sits k' = Some None /\ stale_inv o' it0).
           { intros k' it0 Hk' Hlt. destruct (Hstale k' it0 Hk' Hlt) as [A B].
             split; [assumption|]. eapply stale_inv_ext; eauto. }
           destruct (nth_error (spec_of m) pos) as [z|] eqn:En; (constructor; [right; reflexivity|]).
           ++ apply (IH _ _ _ _ n_stale); [|assumption|assumption].
              split; [assumption|]. split; [assumption|]. split; [rewrite !set_nth_length; assumption|].
              split; [rewrite set_nth_length; assumption|]. split.
              ** intros k' it0 Hk' Hge. destruct (Nat.eq_dec k k') as [<-|Hne].
                 --- rewrite nth_error_set_nth_eq in Hk' by assumption. injection Hk' as <-.
                     exists (S pos). split; [apply nth_error_set_nth_eq; lia|assumption].
                 --- rewrite nth_error_set_nth_neq in Hk' by assumption.
                     rewrite nth_error_set_nth_neq by assumption. apply Hothers; auto.
              ** intros k' it0 Hk' Hlt. rewrite nth_error_set_nth_neq in Hk' by lia.
                 rewrite nth_error_set_nth_neq by lia. apply Hstales; assumption.
           ++ apply (IH _ _ _ _ n_stale); [|assumption|assumption].
              split; [assumption|]. split; [assumption|]. split; [rewrite set_nth_length; assumption|].
              split; [rewrite set_nth_length; assumption|]. split.
              ** intros k' it0 Hk' Hge. destruct (Nat.eq_dec k k') as [<-|Hne].
                 --- rewrite nth_error_set_nth_eq in Hk' by assumption. injection Hk' as <-.
                     exists pos. split; assumption.
                 --- rewrite nth_error_set_nth_neq in Hk' by assumption. apply Hothers; auto.
              ** intros k' it0 Hk' Hlt. rewrite nth_error_set_nth_neq in Hk' by lia. apply Hstales; assumption.
      * (* a query *)
        destruct (query_spec H is_heap HC o q Hok) as [o' [Hqr [Hok' Hext]]].
        rewrite run_ops_cons, (step_query H o its q Emut Hnn Hnx), Hqr.
        rewrite (step_query H o its q Emut Hnn Hnx), Hqr in Hmild. cbn [fst] in Hmild.
        rewrite (spec_ops_query m sits q r Emut Hnn Hnx).
        unfold S_of. rewrite Hm. constructor; [right; reflexivity|].
        apply (IH _ _ _ _ n_stale); [|assumption|assumption].
        split; [assumption|]. split; [destruct Hext as [E _]; congruence|].
        split; [assumption|]. split; [assumption|]. split.
        -- intros k it Hk Hge. destruct (Hfresh k it Hk Hge) as [pos [A B]].
           exists pos. split; [assumption|]. eapply iter_ok_ext; eauto.
        -- intros k it Hk Hlt. destruct (Hstale k it Hk Hlt) as [A B].
           split; [assumption|]. eapply stale_inv_ext; eauto.
Qed.

End Hist2.

Theorem rset_history_mild : forall H is_heap, heap_contract H is_heap ->
  forall cached ops, Forall op_ok ops -> mild_history H cached ops = true ->
  obs_match (run_history H cached ops) (spec_history ops).
Proof.
  intros H is_heap HC cached ops Hops Hm. unfold run_history, spec_history.
  apply (hist_main2 H is_heap HC ops (new_obj cached) [] no_members [] 0); [|assumption|exact Hm].
  split; [apply new_obj_ok; assumption|]. split; [destruct cached; reflexivity|].
  split; [reflexivity|]. split; [simpl; lia|]. split.
  - intros k it Hk. destruct k; discriminate.
  - intros k it Hk. destruct k; discriminate.
Qed.

(* non-vacuity: an iterator obtained before a mutator IS advanced afterwards (a full batch of 10
   and more), the set is queried in between and afterwards, everything specified agrees; the
   history is not fresh_history *)
Definition mild_example_ops : list op :=
  [AddRRule [0; 1; 2; 3; 4; 5; 6; 7; 8; 9; 10; 11; 12; 13; 14; 15; 16; 17; 18; 19; 20; 21; 22; 23; 24];
   NewIter; Next 0; AddExDate 3; Next 0; Next 0; QList; Next 0; Next 0; Next 0; Next 0; Next 0; Next 0;
   Next 0; Next 0; Next 0; Next 0; QCount; NewIter; Next 1; Next 0; QGet 2].

Example mild_example :
  Forall op_ok mild_example_ops /\ fresh_history mild_example_ops = false /\
  mild_history heap_first true mild_example_ops = true /\
  mild_history heap_first false mild_example_ops = true /\
  nth_error (run_history heap_first true mild_example_ops) 17 = Some (OVal 24) /\
  nth_error (spec_history mild_example_ops) 21 = Some (OVal 2).
Proof.
  split.
  - unfold mild_example_ops. repeat (constructor; [simpl; repeat split; try apply Forall_nil; repeat constructor; try lia|]).
    constructor.
  - vm_compute. repeat split; reflexivity.
Qed.

(* the defect is exactly what the guard excludes *)
Example stale_not_mild :
  mild_history heap_first true stale_ops_cached = false /\
  mild_history heap_first false stale_ops_uncached = false.
Proof. vm_compute. split; reflexivity. Qed.
