(* C10 -- the regenerated model IS the hand-written model.  coq/gen/RSetGen.v is produced from
   /repo/src/dateutil/rrule.py (class rruleset, rrulebase.__init__ / _invalidate_cache, the decorator
   _invalidates_cache) by harness/gen_rset.py on every run; this file proves, for ALL inputs, that
     - the generated _genitem methods are those of the literal twin RSetLit.v,
     - the generated pieces of rruleset._iter (set-up, exclusion loop, generator loop up to the next
       yield / the end, the code between a yield and the loop head) are the twin's, hence the
       generator they form yields exactly RSetLit.rset_iter_l and, ids erased, RSetModel.rset_iter,
     - the generated __init__ / mutators / _invalidate_cache are RSetHist's new_obj / step / invalidate.
   A change of the source either makes the translator abort (RSetGen.v poisoned) or changes a
   generated definition so that one of these proofs fails: both break props/C10.v. *)
From Coq Require Import ZArith List Bool Lia.
From V Require Import rset.RSetModel rset.RSetLit rset.RSetLitThm rset.RSetHist rset.RSetGenBase gen.RSetGen.
Import ListNotations.
Open Scope Z_scope.

(* ------------------------------------------------------------------ _genitem *)
Theorem gen_cmp_is_model : forall a b,
  gen_lt a b = (dt_of a <? dt_of b) /\ gen_gt a b = (dt_of a >? dt_of b) /\
  gen_eq a b = (dt_of a =? dt_of b) /\ gen_ne a b = negb (dt_of a =? dt_of b).
Proof. intros a b. repeat split; reflexivity. Qed.

Theorem gen_genitem_init_is_model : forall st gen, gen_genitem_init st gen = genitem_init_l st gen.
Proof. intros [genlist n] gen. destruct gen; reflexivity. Qed.

Theorem gen_genitem_next_is_model : forall HL genlist self,
  gen_genitem_next HL genlist self = genitem_next_l HL genlist self.
Proof. intros HL genlist self. unfold gen_genitem_next, genitem_next_l. destruct (snd (fst self)); reflexivity. Qed.

(* advance_iterator(x); if L and L[0] is x: heapreplace(L, x)  -- for x = L[0] *)
Lemma gen_tail_is_model : forall HL x t,
  (let l1 := gen_genitem_next HL (x :: t) x in
   if (match l1 with [] => false | h :: _ => same h x end) then heapreplace_l HL l1 else l1)
  = advance_root_l HL (x :: t).
Proof.
  intros HL x t. cbv zeta. rewrite gen_genitem_next_is_model. unfold advance_root_l.
  destruct (genitem_next_l HL (x :: t) x) as [|h l]; [reflexivity|]. destruct (same h x); reflexivity.
Qed.

(* ------------------------------------------------------------------ rruleset._iter *)
Theorem gen_loop1_is_model : forall HL fuel ex ritem,
  gen_loop1 HL fuel ex ritem = ex_advance_l HL fuel ex (dt_of ritem).
Proof.
  intros HL fuel. induction fuel as [|f IH]; intros ex ritem; [reflexivity|].
  cbn [gen_loop1 ex_advance_l]. destruct ex as [|e t]; [reflexivity|].
  unfold gen_lt. destruct (dt_of e <? dt_of ritem); [|reflexivity].
  cbv zeta. rewrite IH. f_equal. apply (gen_tail_is_model HL e t).
Qed.

Theorem gen_run_is_model : forall HL fuel rl ex lastdt total,
  gen_run HL fuel rl ex lastdt total = run_l HL fuel rl ex lastdt total.
Proof.
  intros HL fuel. induction fuel as [|f IH]; intros rl ex lastdt total; [reflexivity|].
  cbn [gen_run run_l]. destruct rl as [|r t]; [reflexivity|]. cbv zeta.
  pose proof (gen_tail_is_model HL r t) as T. cbv zeta in T.
  destruct (match lastdt with None => true | Some l => negb (l =? dt_of r) end).
  - rewrite gen_loop1_is_model. destruct (ex_advance_l HL (S (size_l ex)) ex (dt_of r)) as [ex'|]; [|reflexivity].
    unfold gen_ne.
    destruct (match ex' with [] => true | e :: _ => negb (dt_of r =? dt_of e) end); [reflexivity|].
    rewrite T. apply IH.
  - rewrite T. apply IH.
Qed.

Theorem gen_resume_is_model : forall HL r t ex total,
  gen_resume HL (r :: t) ex total = (advance_root_l HL (r :: t), ex, Some (dt_of r), total).
Proof.
  intros HL r t ex total. unfold gen_resume. cbv zeta.
  pose proof (gen_tail_is_model HL r t) as T. cbv zeta in T. rewrite T. reflexivity.
Qed.

Lemma fold_left_init_ext : forall rules st,
  fold_left gen_genitem_init rules st = fold_left genitem_init_l rules st.
Proof.
  induction rules as [|g rules IH]; intros st; [reflexivity|].
  cbn [fold_left]. rewrite gen_genitem_init_is_model. apply IH.
Qed.

Theorem gen_setup_is_model : forall HL rr rd exr exd,
  gen_setup HL rr rd exr exd =
  (let (rl0, n1) := gen_list_l 0 rd rr in
   let (ex0, _) := gen_list_l n1 exd exr in
   (heapify_l HL rl0, heapify_l HL ex0, None, 0)).
Proof.
  intros HL rr rd exr exd. unfold gen_setup, gen_list_l. cbv zeta.
  rewrite !gen_genitem_init_is_model.
  destruct (genitem_init_l ([], 0%nat) (sortZ rd)) as [rl1 n1] eqn:E1.
  rewrite fold_left_init_ext.
  destruct (fold_left genitem_init_l rr (rl1, n1)) as [rl2 n2] eqn:E2.
  rewrite gen_genitem_init_is_model.
  destruct (genitem_init_l ([], n2) (sortZ exd)) as [ex1 n3] eqn:E3.
  rewrite fold_left_init_ext.
  destruct (fold_left genitem_init_l exr (ex1, n3)) as [ex2 n4] eqn:E4.
  reflexivity.
Qed.

(* the consumer of the generator (list(gen), then the value left in self._len): next() runs the loop
   up to the next yield, the following next() first executes the code after the yield *)
Fixpoint drain_g (HL : heap_ops_l) (n : nat) (rl ex : list litem) (lastdt : option Z) (total : Z)
  : option (list Z * option Z) :=
  match n with
  | O => None
  | S k =>
      match gen_run HL (S (size_l rl)) rl ex lastdt total with
      | YieldedL z rl' ex' t =>
          let '(rl2, ex2, lastdt2, t2) := gen_resume HL rl' ex' t in
          match drain_g HL k rl2 ex2 lastdt2 t2 with
          | Some (l, p) => Some (z :: l, p)
          | None => None
          end
      | FinishedL t => Some ([], Some t)
      | NoFuelL => None
      end
  end.

Definition rset_iter_g (HL : heap_ops_l) (rr : list (list Z)) (rd : list Z) (exr : list (list Z)) (exd : list Z)
  : option (list Z * option Z) :=
  let '(rl, ex, lastdt, total) := gen_setup HL rr rd exr exd in
  drain_g HL (S (total_len rr rd)) rl ex lastdt total.

(* a yield happens with ritem = rlist[0] and yields its dt *)
Lemma run_l_yield_head : forall HL fuel rl ex lastdt total z rl' ex' t,
  run_l HL fuel rl ex lastdt total = YieldedL z rl' ex' t -> exists r tl, rl' = r :: tl /\ z = dt_of r.
Proof.
  intros HL fuel. induction fuel as [|f IH]; intros rl ex lastdt total z rl' ex' t H; [discriminate|].
  cbn [run_l] in H. destruct rl as [|r tl]; [discriminate|]. cbv zeta in H.
  destruct (match lastdt with None => true | Some l => negb (l =? dt_of r) end).
  - destruct (ex_advance_l HL (S (size_l ex)) ex (dt_of r)) as [ex1|]; [|discriminate].
    destruct (match ex1 with [] => true | e :: _ => negb (dt_of r =? dt_of e) end).
    + inversion H; subst. exists r, tl. split; reflexivity.
    + apply (IH _ _ _ _ _ _ _ _ H).
  - apply (IH _ _ _ _ _ _ _ _ H).
Qed.

Lemma drain_g_is_model : forall HL n rl ex lastdt total,
  drain_g HL n rl ex lastdt total = drain_l HL n rl ex lastdt total.
Proof.
  intros HL n. induction n as [|k IH]; intros rl ex lastdt total; [reflexivity|].
  cbn [drain_g drain_l]. rewrite gen_run_is_model.
  destruct (run_l HL (S (size_l rl)) rl ex lastdt total) as [z rl' ex' t| |] eqn:E; try reflexivity.
  destruct (run_l_yield_head HL _ _ _ _ _ _ _ _ _ E) as (r & tl & -> & ->).
  rewrite gen_resume_is_model. rewrite IH. reflexivity.
Qed.

Theorem gen_iter_is_twin : forall HL rr rd exr exd,
  rset_iter_g HL rr rd exr exd = rset_iter_l HL rr rd exr exd.
Proof.
  intros HL rr rd exr exd. unfold rset_iter_g, rset_iter_l. rewrite gen_setup_is_model.
  destruct (gen_list_l 0 rd rr) as [rl0 n1]. destruct (gen_list_l n1 exd exr) as [ex0 n2].
  apply drain_g_is_model.
Qed.

(* ids erased: the generated generator computes RSetModel.rset_iter (for which C10_rset_iter_correct holds) *)
Theorem gen_iter_is_model : forall HL H, lit_rel HL H ->
  forall rr rd exr exd, rset_iter_g HL rr rd exr exd = rset_iter H rr rd exr exd.
Proof.
  intros HL H R rr rd exr exd. rewrite gen_iter_is_twin. apply (rset_iter_l_erase HL H R).
Qed.

(* ------------------------------------------------------------------ the object-level methods *)
Theorem gen_invalidate_is_model : forall o, gen_invalidate o = invalidate o.
Proof. intros [c m cells gn cp ln]. unfold gen_invalidate, invalidate. destruct c; reflexivity. Qed.

Theorem gen_base_init_is_model : forall cache, gen_base_init cache = new_obj cache.
Proof. intros []; reflexivity. Qed.

Theorem gen_rruleset_init_is_model : forall cache, gen_rruleset_init cache = new_obj cache.
Proof. intros []; reflexivity. Qed.

Theorem gen_decorator_is_model : forall f o, gen_invalidates_cache f o = invalidate (f o).
Proof. intros f o. unfold gen_invalidates_cache. apply gen_invalidate_is_model. Qed.

Theorem gen_mutators_are_model : forall o,
  (forall l, gen_rrule o l = invalidate (add_member o (AddRRule l))) /\
  (forall z, gen_rdate o z = invalidate (add_member o (AddRDate z))) /\
  (forall l, gen_exrule o l = invalidate (add_member o (AddExRule l))) /\
  (forall z, gen_exdate o z = invalidate (add_member o (AddExDate z))).
Proof.
  intro o. repeat split; intros; unfold gen_rrule, gen_rdate, gen_exrule, gen_exdate;
    rewrite gen_decorator_is_model; reflexivity.
Qed.

(* one step of a history with a mutator = the generated mutator *)
Theorem gen_step_mutator : forall H o its,
  (forall l, step H (o, its) (AddRRule l) = ((gen_rrule o l, its), ONone)) /\
  (forall z, step H (o, its) (AddRDate z) = ((gen_rdate o z, its), ONone)) /\
  (forall l, step H (o, its) (AddExRule l) = ((gen_exrule o l, its), ONone)) /\
  (forall z, step H (o, its) (AddExDate z) = ((gen_exdate o z, its), ONone)).
Proof.
  intros H o its. destruct (gen_mutators_are_model o) as (A & B & C & D).
  repeat split; intros; cbn [step is_mutator]; rewrite ?A, ?B, ?C, ?D; reflexivity.
Qed.
