(* C10 -- vocabulary of the translator harness/gen_rset.py (coq/gen/RSetGen.v is written in terms of
   RSetModel / RSetLit / RSetHist and of the few object-level primitives below).  No proofs.
   The attributes of an rrulebase object as far as rruleset uses them are the fields of RSetHist.obj:
   o_cached = (self._cache is not None); the pair (self._cache, self._cache_gen) = the LAST cell of
   o_cells (older cells are the pairs still referenced by iterators created before a mutator);
   o_gen_none = (self._cache_gen is None); o_complete = self._cache_complete; o_len = self._len. *)
From Coq Require Import ZArith List Bool.
From V Require Import rset.RSetModel rset.RSetHist.
Import ListNotations.
Open Scope Z_scope.

(* the object before __init__ has run: no attribute has been read yet, every field is overwritten
   (or irrelevant: an uncached set never reads _cache_gen) *)
Definition blank_obj : obj := mkObj false no_members [] false false None.

(* self._cache = []   (a list that no generator fills yet: only the fact `is not None`) *)
Definition set_cached (o : obj) : obj :=
  mkObj true (o_m o) (o_cells o) (o_gen_none o) (o_complete o) (o_len o).
(* self._cache = None *)
Definition set_uncached (o : obj) : obj :=
  mkObj false (o_m o) (o_cells o) (o_gen_none o) (o_complete o) (o_len o).
(* self._cache_complete = False *)
Definition set_complete_false (o : obj) : obj :=
  mkObj (o_cached o) (o_m o) (o_cells o) (o_gen_none o) false (o_len o).
(* self._len = None *)
Definition set_len_none (o : obj) : obj :=
  mkObj (o_cached o) (o_m o) (o_cells o) (o_gen_none o) (o_complete o) None.
(* self._cache = []; self._cache_complete = False; self._cache_gen = self._iter():
   a new cache list together with a new, not yet started generator *)
Definition fresh_cell (o : obj) : obj :=
  mkObj true (o_m o) (o_cells o ++ [mkCell [] GStart]) false false (o_len o).
