(* C10 (rruleset) -- executable model of dateutil.rrule.rruleset._iter and _genitem
   (src/dateutil/rrule.py 1326-1413 of the current /repo), mirroring the code branch for branch.
   No proofs in this file.

   Instants are integers (seconds).  A member (an rrule's generator, or the list iterator over
   the sorted rdates / exdates) is the finite list of instants it will still produce.

   _genitem  =  (dt, rest) : the instant it currently holds and what its generator has left.
   The two heaps rlist / exlist are lists of items; heapq is abstracted as a record of three
   operations on such lists (heapify, the list left by heappop, heapreplace of the root), see
   RSetThm.v for the contract they have to satisfy and two executable instances below.

   Identity tests of the Python code are resolved as follows (both call sites pass the root):
     `self.genlist[0] is self` in _genitem.__next__  : always true, because _iter only ever
        advances rlist[0] / exlist[0]; the else branch (remove + heapify) is dead and not modelled;
     `rlist and rlist[0] is ritem` after the advance : true iff the item was not exhausted
        (an exhausted item has just been popped), carried as the boolean of genitem_next. *)
From Coq Require Import ZArith List Bool.
Import ListNotations.
Open Scope Z_scope.

Notation item := (Z * list Z)%type (only parsing).

Record heap_ops := mkHeap {
  heapify : list item -> list item;       (* heapq.heapify(l) *)
  heappop_rest : list item -> list item;  (* l after heapq.heappop(l) *)
  heapreplace : list item -> list item    (* l after heapq.heapreplace(l, l[0]) (root was modified) *)
}.

(* what an item / a heap will still produce *)
Definition item_list (it : item) : list Z := fst it :: snd it.
Definition contents (l : list item) : list Z := flat_map item_list l.
Definition size (l : list item) : nat := length (contents l).

(* sorted() / list.sort() on instants *)
Fixpoint insertZ (x : Z) (l : list Z) : list Z :=
  match l with
  | [] => [x]
  | h :: t => if x <=? h then x :: l else h :: insertZ x t
  end.
Definition sortZ (l : list Z) : list Z := fold_right insertZ [] l.

(* _genitem.__init__(genlist, gen): append only if the generator yields something *)
Definition genitem_init (genlist : list item) (gen : list Z) : list item :=
  match gen with
  | [] => genlist
  | x :: r => genlist ++ [(x, r)]
  end.

(* rlist = []; _genitem(rlist, iter(sorted rdate)); for gen in rrules: _genitem(rlist, gen) *)
Definition gen_list (dates : list Z) (rules : list (list Z)) : list item :=
  fold_left genitem_init rules (genitem_init [] (sortZ dates)).

Inductive outcome :=
| Yielded (z : Z) (rl ex : list item) (total : Z)  (* suspended at `yield ritem.dt`; ritem = rl[0] *)
| Finished (total : Z)                             (* loop left: self._len = total *)
| NoFuel.

Section WithHeap.
Variable H : heap_ops.

(* advance_iterator(genlist[0]) : _genitem.__next__ on the root.
   Returns the list and whether the item is still in it (at the root). *)
Definition genitem_next (genlist : list item) : list item * bool :=
  match genlist with
  | [] => ([], false)
  | (_, rest) :: tl =>
      match rest with
      | x :: rest' => ((x, rest') :: tl, true)         (* self.dt = next(self.gen) *)
      | [] => (heappop_rest H genlist, false)          (* StopIteration: heappop *)
      end
  end.

(* advance_iterator(item); if lst and lst[0] is item: heapq.heapreplace(lst, item) *)
Definition advance_root (l : list item) : list item :=
  let (l1, still) := genitem_next l in
  if still then heapreplace H l1 else l1.

(* while exlist and exlist[0] < ritem: ... *)
Fixpoint ex_advance (fuel : nat) (ex : list item) (rdt : Z) : option (list item) :=
  match fuel with
  | O => None
  | S f =>
      match ex with
      | [] => Some ex
      | (edt, _) :: _ =>
          if edt <? rdt then ex_advance f (advance_root ex) rdt else Some ex
      end
  end.

(* the `while rlist:` loop, run up to the next yield *)
Fixpoint run (fuel : nat) (rl ex : list item) (lastdt : option Z) (total : Z) : outcome :=
  match fuel with
  | O => NoFuel
  | S f =>
      match rl with
      | [] => Finished total
      | (rdt, _) :: _ =>
          if (match lastdt with None => true | Some l => negb (l =? rdt) end) then
            match ex_advance (S (size ex)) ex rdt with
            | None => NoFuel
            | Some ex' =>
                if (match ex' with [] => true | (edt, _) :: _ => negb (rdt =? edt) end)
                then Yielded rdt rl ex' (total + 1)
                else run f (advance_root rl) ex' (Some rdt) total
            end
          else run f (advance_root rl) ex lastdt total
      end
  end.

(* generator states of rruleset._iter *)
Inductive gen_state :=
| GStart                                       (* created, body not started *)
| GYield (rl ex : list item) (total : Z)       (* suspended at the yield, ritem = rl[0] *)
| GDone.

Inductive gen_result :=
| GY (z : Z)                  (* next() returned z *)
| GStop (publ : option Z)     (* StopIteration; Some n: self._len = n was executed on the way *)
| GNoFuel.

Definition of_outcome (o : outcome) : gen_result * gen_state :=
  match o with
  | Yielded z rl ex t => (GY z, GYield rl ex t)
  | Finished t => (GStop (Some t), GDone)
  | NoFuel => (GNoFuel, GDone)
  end.

(* one next() on the generator; the members are read when the body starts *)
Definition gen_next (rr : list (list Z)) (rd : list Z) (exr : list (list Z)) (exd : list Z)
           (g : gen_state) : gen_result * gen_state :=
  match g with
  | GStart =>
      let rl := heapify H (gen_list rd rr) in
      let ex := heapify H (gen_list exd exr) in
      of_outcome (run (S (size rl)) rl ex None 0)
  | GYield rl ex total =>
      match rl with
      | [] => (GNoFuel, GDone)   (* not reachable: a yield happens with ritem = rl[0] *)
      | (rdt, _) :: _ =>
          let rl' := advance_root rl in    (* lastdt = ritem.dt; advance; heapreplace *)
          of_outcome (run (S (size rl')) rl' ex (Some rdt) total)
      end
  | GDone => (GStop None, GDone)
  end.

(* list(gen) and the published length; n bounds the number of next() calls *)
Fixpoint drain (n : nat) (rr : list (list Z)) (rd : list Z) (exr : list (list Z)) (exd : list Z)
         (g : gen_state) : option (list Z * option Z) :=
  match n with
  | O => None
  | S k =>
      match gen_next rr rd exr exd g with
      | (GY z, g') =>
          match drain k rr rd exr exd g' with
          | Some (l, p) => Some (z :: l, p)
          | None => None
          end
      | (GStop p, _) => Some ([], p)
      | (GNoFuel, _) => None
      end
  end.

Definition total_len (rr : list (list Z)) (rd : list Z) : nat :=
  length (concat rr) + length rd.

(* list(iter(rset)) of an uncached set, with the value left in self._len *)
Definition rset_iter (rr : list (list Z)) (rd : list Z) (exr : list (list Z)) (exd : list Z)
  : option (list Z * option Z) :=
  drain (S (total_len rr rd)) rr rd exr exd GStart.

End WithHeap.

(* ------------------------------------------------------------------------------------ *)
(* two executable heap disciplines that break ties in opposite ways: the minimum is moved to
   the front, everything else keeps its order *)
Fixpoint min_front (prefer_last : bool) (l : list item) : list item :=
  match l with
  | [] => []
  | x :: t =>
      match min_front prefer_last t with
      | [] => [x]
      | m :: r =>
          if (if prefer_last then fst m <=? fst x else fst m <? fst x)
          then m :: x :: r else x :: m :: r
      end
  end.

Definition heap_sel (prefer_last : bool) : heap_ops :=
  mkHeap (min_front prefer_last)
         (fun l => min_front prefer_last (tl l))
         (min_front prefer_last).

Definition heap_first := heap_sel false.
Definition heap_last := heap_sel true.

(* ------------------------------------------------------------------------------------ *)
(* naive / aware instants: comparing a naive with an aware datetime by < raises TypeError.
   A set whose heaps (or date lists) mix the two kinds fails on the first next(), before any
   yield: sort() / heapify / `exlist[0] < ritem` must compare across the kinds.  Tags: 0 naive,
   1 aware.  A tagged member is (tag, instants). *)
Definition tags_mixed (ts : list Z) : bool :=
  match ts with
  | [] => false
  | t :: r => existsb (fun u => negb (u =? t)) r
  end.

Definition heap_tags (date_tags : list Z) (rules : list (Z * list Z)) : list Z :=
  firstn 1 date_tags ++ map fst (filter (fun r => match snd r with [] => false | _ => true end) rules).

Definition tag_error (rr : list (Z * list Z)) (rd : list (Z * Z))
           (exr : list (Z * list Z)) (exd : list (Z * Z)) : bool :=
  let rt := heap_tags (map fst rd) rr in
  let et := heap_tags (map fst exd) exr in
  tags_mixed (map fst rd) || tags_mixed (map fst exd) || tags_mixed rt || tags_mixed et ||
  match rt, et with
  | a :: _, b :: _ => negb (a =? b)
  | _, _ => false
  end.

Inductive tres :=
| TOk (l : list Z) (len : option Z)
| TTypeError
| TNoFuel.

Definition rset_iter_tagged (H : heap_ops) (rr : list (Z * list Z)) (rd : list (Z * Z))
           (exr : list (Z * list Z)) (exd : list (Z * Z)) : tres :=
  if tag_error rr rd exr exd then TTypeError
  else match rset_iter H (map snd rr) (map snd rd) (map snd exr) (map snd exd) with
       | Some (l, p) => TOk l p
       | None => TNoFuel
       end.
