(* C10 -- histories of operations on one rruleset object: the four mutators (each followed by
   _invalidate_cache, rrule.py 80-91, 116-125, 1356-1381), iter() / next() on any number of live
   iterators, and the rrulebase queries that the property observes, cache on and off
   (rrulebase.__iter__, _iter_cached, __getitem__ for integers, __contains__, count, before,
   after, between: rrule.py 95-320).  No proofs in this file.

   A cached set owns, per _invalidate_cache call, one cache list object and one generator object;
   iterators created earlier keep referring to the old pair (`gen = self._cache_gen; cache =
   self._cache` are read once by _iter_cached), while _cache_complete / _cache_gen / _len are
   attributes of the set shared by all of them.  `o_cells` keeps every pair, the current one last.
   The lock is not modelled (single-threaded histories: it is free at every acquire). *)
From Coq Require Import ZArith List Bool.
From V Require Import rset.RSetModel rset.RSetSpec.
Import ListNotations.
Open Scope Z_scope.

Record members := mkMembers {
  m_rr : list (list Z); m_rd : list Z; m_exr : list (list Z); m_exd : list Z }.

Definition no_members := mkMembers [] [] [] [].

Record cell := mkCell { c_cache : list Z; c_gen : gen_state }.

Record obj := mkObj {
  o_cached : bool;
  o_m : members;
  o_cells : list cell;
  o_gen_none : bool;      (* self._cache_gen is None *)
  o_complete : bool;      (* self._cache_complete *)
  o_len : option Z        (* self._len *)
}.

Inductive exn := EIndex | EType | EFuel.

Inductive obs :=
| ONone | OVal (z : Z) | ONull | OBool (b : bool) | OList (l : list Z) | OStop | OErr (e : exn)
| OUnspec.   (* only produced by the specification: behaviour not fixed by the property *)

Inductive iter_state :=
| IGen (g : gen_state)                        (* uncached: the generator self._iter() *)
| IList (e : nat) (i : nat)                   (* iter(self._cache) taken while _cache_complete *)
| ICNew                                       (* _iter_cached() created, body not started *)
| ICLoop (e : nat) (i : nat)                  (* in `while gen:` with a live local gen, after i += 1 *)
| ICTail (e : nat) (i : nat)                  (* in `while i < self._len:` *)
| IDone.

Inductive op :=
| AddRRule (l : list Z) | AddRDate (z : Z) | AddExRule (l : list Z) | AddExDate (z : Z)
| NewIter | Next (k : nat)
| QList | QCount | QGet (i : Z) | QContains (z : Z)
| QBefore (z : Z) (inc : bool) | QAfter (z : Z) (inc : bool) | QBetween (a b : Z) (inc : bool).

Definition new_obj (cached : bool) : obj :=
  mkObj cached no_members (if cached then [mkCell [] GStart] else []) false false None.

Definition cur (o : obj) : nat := pred (length (o_cells o)).

Definition get_cell (o : obj) (e : nat) : cell := nth e (o_cells o) (mkCell [] GDone).

Fixpoint set_nth {A : Type} (l : list A) (n : nat) (v : A) : list A :=
  match l, n with
  | [], _ => []
  | _ :: t, O => v :: t
  | h :: t, S k => h :: set_nth t k v
  end.

Definition set_cell (o : obj) (e : nat) (c : cell) : obj :=
  mkObj (o_cached o) (o_m o) (set_nth (o_cells o) e c) (o_gen_none o) (o_complete o) (o_len o).

Definition set_len (o : obj) (p : option Z) : obj :=
  match p with
  | None => o
  | Some _ => mkObj (o_cached o) (o_m o) (o_cells o) (o_gen_none o) (o_complete o) p
  end.

(* self._cache_gen = gen = None; self._cache_complete = True *)
Definition set_complete (o : obj) : obj :=
  mkObj (o_cached o) (o_m o) (o_cells o) true true (o_len o).

(* rrulebase._invalidate_cache *)
Definition invalidate (o : obj) : obj :=
  if o_cached o
  then mkObj true (o_m o) (o_cells o ++ [mkCell [] GStart]) false false None
  else mkObj false (o_m o) (o_cells o) (o_gen_none o) (o_complete o) None.

Definition with_members (o : obj) (m : members) : obj :=
  mkObj (o_cached o) m (o_cells o) (o_gen_none o) (o_complete o) (o_len o).

(* rrulebase.__iter__ *)
Definition new_iter (o : obj) : iter_state :=
  if o_complete o then IList (cur o) 0
  else if negb (o_cached o) then IGen GStart
  else ICNew.

Inductive fill_end := FFull | FStop (publ : option Z) | FFuel.

Definition pull_fuel (o : obj) : nat :=
  S (S (total_len (m_rr (o_m o)) (m_rd (o_m o)) + length (concat (map c_cache (o_cells o))))).

Section WithHeap.
Variable H : heap_ops.

Definition gnext (m : members) (g : gen_state) : gen_result * gen_state :=
  gen_next H (m_rr m) (m_rd m) (m_exr m) (m_exd m) g.

(* for j in range(10): cache.append(advance_iterator(gen)) *)
Fixpoint fill (n : nat) (m : members) (cache : list Z) (g : gen_state) : list Z * gen_state * fill_end :=
  match n with
  | O => (cache, g, FFull)
  | S k =>
      match gnext m g with
      | (GY z, g') => fill k m (cache ++ [z]) g'
      | (GStop p, g') => (cache, g', FStop p)
      | (GNoFuel, g') => (cache, g', FFuel)
      end
  end.

(* while i < self._len: yield cache[i]; i += 1 *)
Definition tail_step (o : obj) (e i : nat) : obs * obj * iter_state :=
  match o_len o with
  | None => (OErr EType, o, IDone)
  | Some n =>
      if Z.of_nat i <? n then
        match nth_error (c_cache (get_cell o e)) i with
        | Some z => (OVal z, o, ICTail e (S i))
        | None => (OErr EIndex, o, IDone)
        end
      else (OStop, o, IDone)
  end.

(* one round of `while gen:` in _iter_cached; alive = the local gen is not None *)
Definition loop_step (o : obj) (e i : nat) (alive : bool) : obs * obj * iter_state :=
  if alive then
    let c := get_cell o e in
    if Nat.eqb i (length (c_cache c)) then
      if o_complete o then tail_step o e i
      else
        match fill 10 (o_m o) (c_cache c) (c_gen c) with
        | (cache', g', FFull) =>
            let o' := set_cell o e (mkCell cache' g') in
            match nth_error cache' i with
            | Some z => (OVal z, o', ICLoop e (S i))
            | None => (OErr EIndex, o', IDone)
            end
        | (cache', g', FStop p) =>
            let o' := set_complete (set_len (set_cell o e (mkCell cache' g')) p) in
            tail_step o' e i
        | (_, _, FFuel) => (OErr EFuel, o, IDone)
        end
    else
      match nth_error (c_cache c) i with
      | Some z => (OVal z, o, ICLoop e (S i))
      | None => (OErr EIndex, o, IDone)
      end
  else tail_step o e i.

(* next(it) *)
Definition iter_next (o : obj) (it : iter_state) : obs * obj * iter_state :=
  match it with
  | IGen g =>
      match gnext (o_m o) g with
      | (GY z, g') => (OVal z, o, IGen g')
      | (GStop p, g') => (OStop, set_len o p, IGen g')
      | (GNoFuel, g') => (OErr EFuel, o, IDone)
      end
  | IList e i =>
      match nth_error (c_cache (get_cell o e)) i with
      | Some z => (OVal z, o, IList e (S i))
      | None => (OStop, o, IDone)
      end
  | ICNew => loop_step o (cur o) 0 (negb (o_gen_none o))
  | ICLoop e i => loop_step o e i true
  | ICTail e i => tail_step o e i
  | IDone => (OStop, o, IDone)
  end.

(* for x in <iterator>: ... break when stop (number of earlier elements) x.
   Returns the elements seen (the stopping one included), whether the loop was left by the
   break, an exception if one escaped, and the object. *)
Fixpoint pull (fuel : nat) (o : obj) (it : iter_state) (stop : nat -> Z -> bool) (acc : list Z)
  : list Z * bool * option exn * obj :=
  match fuel with
  | O => (rev acc, false, Some EFuel, o)
  | S f =>
      match iter_next o it with
      | (OVal z, o', it') =>
          if stop (length acc) z then (rev (z :: acc), true, None, o')
          else pull f o' it' stop (z :: acc)
      | (OStop, o', _) => (rev acc, false, None, o')
      | (OErr e, o', _) => (rev acc, false, Some e, o')
      | (_, o', _) => (rev acc, false, Some EFuel, o')
      end
  end.

Definition pull_new (o : obj) (stop : nat -> Z -> bool) : list Z * bool * option exn * obj :=
  pull (pull_fuel o) o (new_iter o) stop [].

Definition never (_ : nat) (_ : Z) : bool := false.

Definition py_index (l : list Z) (i : Z) : obs :=
  let j := if i <? 0 then i + Z.of_nat (length l) else i in
  if j <? 0 then OErr EIndex
  else match nth_error l (Z.to_nat j) with Some z => OVal z | None => OErr EIndex end.

Fixpoint dropwhile (f : Z -> bool) (l : list Z) : list Z :=
  match l with
  | [] => []
  | x :: t => if f x then dropwhile f t else l
  end.

(* the elements seen before the break *)
Definition before_break (r : list Z) (stopped : bool) : list Z :=
  if stopped then removelast r else r.

Definition opt_obs (p : option Z) : obs := match p with Some z => OVal z | None => ONull end.

Definition query (o : obj) (q : op) : obs * obj :=
  match q with
  | QList =>
      match pull_new o never with
      | (r, _, None, o') => (OList r, o')
      | (_, _, Some e, o') => (OErr e, o')
      end
  | QCount =>
      match o_len o with
      | None =>
          match pull_new o never with
          | (_, _, None, o') => (opt_obs (o_len o'), o')
          | (_, _, Some e, o') => (OErr e, o')
          end
      | Some n => (OVal n, o)
      end
  | QGet i =>
      if o_complete o then (py_index (c_cache (get_cell o (cur o))) i, o)
      else if 0 <=? i then
        match pull_new o (fun k _ => Nat.eqb k (Z.to_nat i)) with
        | (r, true, None, o') => (opt_obs (last (map Some r) None), o')
        | (_, false, None, o') => (OErr EIndex, o')
        | (_, _, Some e, o') => (OErr e, o')
        end
      else
        match pull_new o never with
        | (r, _, None, o') => (py_index r i, o')
        | (_, _, Some e, o') => (OErr e, o')
        end
  | QContains z =>
      if o_complete o then (OBool (memZ z (c_cache (get_cell o (cur o)))), o)
      else
        match pull_new o (fun _ x => z <=? x) with
        | (r, true, None, o') => (OBool (match last (map Some r) None with Some x => x =? z | None => false end), o')
        | (_, false, None, o') => (OBool false, o')
        | (_, _, Some e, o') => (OErr e, o')
        end
  | QBefore z inc =>
      match pull_new o (fun _ x => if inc then z <? x else z <=? x) with
      | (r, st, None, o') => (opt_obs (last (map Some (before_break r st)) None), o')
      | (_, _, Some e, o') => (OErr e, o')
      end
  | QAfter z inc =>
      match pull_new o (fun _ x => if inc then z <=? x else z <? x) with
      | (r, true, None, o') => (opt_obs (last (map Some r) None), o')
      | (_, false, None, o') => (ONull, o')
      | (_, _, Some e, o') => (OErr e, o')
      end
  | QBetween a b inc =>
      match pull_new o (fun _ x => if inc then b <? x else b <=? x) with
      | (r, st, None, o') =>
          (OList (dropwhile (fun x => negb (if inc then a <=? x else a <? x)) (before_break r st)), o')
      | (_, _, Some e, o') => (OErr e, o')
      end
  | _ => (ONone, o)
  end.

Definition hstate := (obj * list iter_state)%type.

Definition add_member (o : obj) (q : op) : obj :=
  let m := o_m o in
  match q with
  | AddRRule l => with_members o (mkMembers (m_rr m ++ [l]) (m_rd m) (m_exr m) (m_exd m))
  | AddRDate z => with_members o (mkMembers (m_rr m) (m_rd m ++ [z]) (m_exr m) (m_exd m))
  | AddExRule l => with_members o (mkMembers (m_rr m) (m_rd m) (m_exr m ++ [l]) (m_exd m))
  | AddExDate z => with_members o (mkMembers (m_rr m) (m_rd m) (m_exr m) (m_exd m ++ [z]))
  | _ => o
  end.

Definition is_mutator (q : op) : bool :=
  match q with AddRRule _ | AddRDate _ | AddExRule _ | AddExDate _ => true | _ => false end.

Definition step (s : hstate) (q : op) : hstate * obs :=
  let (o, its) := s in
  if is_mutator q then ((invalidate (add_member o q), its), ONone)
  else match q with
       | NewIter => ((o, its ++ [new_iter o]), ONone)
       | Next k =>
           match nth_error its k with
           | None => (s, OErr EIndex)       (* no such iterator: harness error *)
           | Some it =>
               let '(ob, o', it') := iter_next o it in
               ((o', set_nth its k it'), ob)
           end
       | _ => let (ob, o') := query o q in ((o', its), ob)
       end.

Fixpoint run_ops (s : hstate) (ops : list op) : list obs :=
  match ops with
  | [] => []
  | q :: r => let (s', ob) := step s q in ob :: run_ops s' r
  end.

Definition run_history (cached : bool) (ops : list op) : list obs :=
  run_ops (new_obj cached, []) ops.

End WithHeap.

(* ------------------------------------------------------------------------------------ *)
(* Specification of histories: every observation is determined by the recurrence set of the
   members present at that moment.  An iterator is fresh until the next mutator; what a next()
   on an iterator obtained before a later mutator returns is not fixed by the property
   (OUnspec), but everything observed afterwards still is. *)
Definition spec_of (m : members) : list Z := spec_set (m_rr m) (m_rd m) (m_exr m) (m_exd m).

Definition add_member_m (m : members) (q : op) : members :=
  match q with
  | AddRRule l => mkMembers (m_rr m ++ [l]) (m_rd m) (m_exr m) (m_exd m)
  | AddRDate z => mkMembers (m_rr m) (m_rd m ++ [z]) (m_exr m) (m_exd m)
  | AddExRule l => mkMembers (m_rr m) (m_rd m) (m_exr m ++ [l]) (m_exd m)
  | AddExDate z => mkMembers (m_rr m) (m_rd m) (m_exr m) (m_exd m ++ [z])
  | _ => m
  end.

Definition opt_obs' (p : option Z) : obs := match p with Some z => OVal z | None => ONull end.

Definition spec_query (s : list Z) (q : op) : obs :=
  match q with
  | QList => OList s
  | QCount => OVal (q_count s)
  | QGet i => match q_getitem s i with Some z => OVal z | None => OErr EIndex end
  | QContains z => OBool (q_contains s z)
  | QBefore z inc => opt_obs' (q_before s z inc)
  | QAfter z inc => opt_obs' (q_after s z inc)
  | QBetween a b inc => OList (q_between s a b inc)
  | _ => ONone
  end.

(* iterators: Some pos = fresh, at position pos; None = obtained before a later mutator *)
Fixpoint spec_ops (m : members) (its : list (option nat)) (ops : list op) : list obs :=
  match ops with
  | [] => []
  | q :: r =>
      if is_mutator q then ONone :: spec_ops (add_member_m m q) (map (fun _ => None) its) r
      else match q with
           | NewIter => ONone :: spec_ops m (its ++ [Some O]) r
           | Next k =>
               match nth_error its k with
               | None => OErr EIndex :: spec_ops m its r
               | Some None => OUnspec :: spec_ops m its r
               | Some (Some pos) =>
                   match nth_error (spec_of m) pos with
                   | Some z => OVal z :: spec_ops m (set_nth its k (Some (S pos))) r
                   | None => OStop :: spec_ops m its r
                   end
               end
           | _ => spec_query (spec_of m) q :: spec_ops m its r
           end
  end.

Definition spec_history (ops : list op) : list obs := spec_ops no_members [] ops.

(* guard of the history theorem: no next() on an iterator obtained before a later mutator *)
Fixpoint fresh_ops (n_stale n_iters : nat) (ops : list op) : bool :=
  match ops with
  | [] => true
  | q :: r =>
      if is_mutator q then fresh_ops n_iters n_iters r
      else match q with
           | NewIter => fresh_ops n_stale (S n_iters) r
           | Next k => Nat.leb n_stale k && Nat.ltb k n_iters && fresh_ops n_stale n_iters r
           | _ => fresh_ops n_stale n_iters r
           end
  end.

Definition fresh_history (ops : list op) : bool := fresh_ops 0 0 ops.

(* ------------------------------------------------------------------------------------ *)
(* flat integer encoding for the extracted oracle *)
Definition b2z (b : bool) : Z := if b then 1 else 0.
Definition z2b (z : Z) : bool := negb (z =? 0).

Fixpoint dec_ops (fuel : nat) (l : list Z) : list op :=
  match fuel with
  | O => []
  | S f =>
      match l with
      | 1 :: n :: r => AddRRule (firstn (Z.to_nat n) r) :: dec_ops f (skipn (Z.to_nat n) r)
      | 2 :: z :: r => AddRDate z :: dec_ops f r
      | 3 :: n :: r => AddExRule (firstn (Z.to_nat n) r) :: dec_ops f (skipn (Z.to_nat n) r)
      | 4 :: z :: r => AddExDate z :: dec_ops f r
      | 5 :: r => NewIter :: dec_ops f r
      | 6 :: k :: r => Next (Z.to_nat k) :: dec_ops f r
      | 7 :: r => QList :: dec_ops f r
      | 8 :: r => QCount :: dec_ops f r
      | 9 :: i :: r => QGet i :: dec_ops f r
      | 10 :: z :: r => QContains z :: dec_ops f r
      | 11 :: z :: b :: r => QBefore z (z2b b) :: dec_ops f r
      | 12 :: z :: b :: r => QAfter z (z2b b) :: dec_ops f r
      | 13 :: a :: b :: c :: r => QBetween a b (z2b c) :: dec_ops f r
      | _ => []
      end
  end.

Definition enc_exn (e : exn) : Z := match e with EIndex => 1 | EType => 2 | EFuel => 9 end.

Definition enc_obs (o : obs) : list Z :=
  match o with
  | ONone => [0]
  | OVal z => [1; z]
  | ONull => [2]
  | OBool b => [3; b2z b]
  | OList l => 4 :: Z.of_nat (length l) :: l
  | OStop => [5]
  | OErr e => [6; enc_exn e]
  | OUnspec => [7]
  end.

(* args: cached :: encoded ops *)
Definition hist_dispatch (H : heap_ops) (args : list Z) : list Z :=
  match args with
  | c :: r => flat_map enc_obs (run_history H (z2b c) (dec_ops (length r) r))
  | [] => [-1]
  end.

Definition hist_spec_dispatch (args : list Z) : list Z :=
  match args with
  | _ :: r => flat_map enc_obs (spec_history (dec_ops (length r) r))
  | [] => [-1]
  end.
