(* C10 -- the input-level guard `fresh_history` (no next() on an iterator obtained before a later mutator)
   implies the sharper guard `mild_history`: C10_rset_history is a corollary of the headline theorem
   C10_rset_history_mild, not a separate statement with a wider guard.  *)
From Coq Require Import ZArith List Bool Lia.
From V Require Import rset.RSetModel rset.RSetSpec rset.RSetHist rset.RSetHistThm rset.RSetHist2.
Import ListNotations.
Open Scope Z_scope.

Lemma step_its_length : forall H o its q,
  length (snd (fst (step H (o, its) q))) =
  match q with NewIter => S (length its) | _ => length its end.
Proof.
  intros H o its q. unfold step. destruct (is_mutator q) eqn:M.
  - destruct q; try discriminate M; reflexivity.
  - destruct q; try discriminate M; cbn [fst snd];
      try (destruct (query H o _) as [ob o']; reflexivity).
    + rewrite app_length. cbn [length]. lia.
    + destruct (nth_error its k) as [it|]; [|reflexivity].
      destruct (iter_next H o it) as [[ob o'] it']. cbn [fst snd]. apply set_nth_length.
Qed.

Lemma fresh_ops_mild : forall H ops s n_stale,
  fresh_ops n_stale (length (snd s)) ops = true -> mild_ops H s n_stale ops = true.
Proof.
  intros H ops. induction ops as [|q r IH]; intros [o its] n_stale F; [reflexivity|].
  cbn [mild_ops fresh_ops] in *. cbn [snd fst] in *.
  pose proof (step_its_length H o its q) as L.
  destruct (step H (o, its) q) as [[o' its'] ob] eqn:E. cbn [fst snd] in *.
  destruct (is_mutator q) eqn:M.
  - assert (Hq : match q with Next _ => False | _ => True end) by (destruct q; try discriminate M; exact I).
    replace (match q with Next k => _ | _ => true end) with true by (destruct q; try reflexivity; contradiction).
    cbn [andb]. apply (IH (o', its')). cbn [snd]. rewrite L.
    destruct q; try discriminate M; exact F.
  - destruct q; try discriminate M; cbn [andb];
      try (apply (IH (o', its')); cbn [snd]; rewrite L; exact F).
    apply andb_true_iff in F. destruct F as [F1 F]. apply andb_true_iff in F1. destruct F1 as [F1 F2].
    rewrite F2. replace (k <? n_stale)%nat with false by (symmetry; apply Nat.ltb_ge; apply Nat.leb_le; exact F1).
    cbn [andb]. apply (IH (o', its')). cbn [snd]. rewrite L. exact F.
Qed.

Theorem fresh_implies_mild : forall H cached ops,
  fresh_history ops = true -> mild_history H cached ops = true.
Proof.
  intros H cached ops F. unfold mild_history. apply fresh_ops_mild. exact F.
Qed.
