(* C10 -- a sharper guard for histories: an iterator obtained before a later mutator MAY be
   advanced afterwards as long as that never changes the attributes the set shares between all
   its iterators (_cache_complete, _cache_gen is None, _len) -- i.e. as long as it is not driven
   to the end of its (stale) generator.  Definitions only; the theorem is in RSetHistThm2.v. *)
From Coq Require Import ZArith List Bool.
From V Require Import rset.RSetModel rset.RSetSpec rset.RSetHist.
Import ListNotations.
Open Scope Z_scope.

Definition len_eqb (a b : option Z) : bool :=
  match a, b with
  | None, None => true
  | Some x, Some y => x =? y
  | _, _ => false
  end.

Definition flags_eqb (o o' : obj) : bool :=
  Bool.eqb (o_complete o) (o_complete o') && Bool.eqb (o_gen_none o) (o_gen_none o') &&
  len_eqb (o_len o) (o_len o').

(* run the model; every next() names an existing iterator, and a next() on an iterator obtained
   before a later mutator leaves the shared attributes as they were *)
Fixpoint mild_ops (H : heap_ops) (s : hstate) (n_stale : nat) (ops : list op) : bool :=
  match ops with
  | [] => true
  | q :: r =>
      let s' := fst (step H s q) in
      let n_stale' := if is_mutator q then length (snd s) else n_stale in
      (match q with
       | Next k => Nat.ltb k (length (snd s)) &&
                   (if Nat.ltb k n_stale then flags_eqb (fst s) (fst s') else true)
       | _ => true
       end) && mild_ops H s' n_stale' r
  end.

Definition mild_history (H : heap_ops) (cached : bool) (ops : list op) : bool :=
  mild_ops H (new_obj cached, []) 0 ops.

(* observation lists agree wherever the specification fixes the observation *)
Definition obs_match (model spec : list obs) : Prop :=
  Forall2 (fun a b => b = OUnspec \/ a = b) model spec.
