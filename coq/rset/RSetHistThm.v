(* C10 -- theorems about histories of operations on one rruleset object (RSetHist.v):
   every observation of a history that never advances an iterator obtained before a later
   mutator equals the query applied to spec_set of the members present at that moment,
   cache on and off, for every heap discipline satisfying heap_contract. *)
From Coq Require Import ZArith List Bool Lia Permutation.
From V Require Import rset.RSetModel rset.RSetSpec rset.RSetHist rset.RSetThm.
Import ListNotations.
Open Scope Z_scope.

(* ------------------------------------------------------------------ lists *)
Lemma is_enum_tail : forall P z l, is_enum P (z :: l) -> is_enum (fun x => P x /\ x <> z) l.
Proof.
  intros P z l [Hs Hm]. split; [eapply strict_sorted_tail; eauto|].
  intro x. split.
  - intro Hx. split; [apply Hm; right; assumption|].
    pose proof (strict_sorted_head_lt _ _ _ Hs Hx). lia.
  - intros [Hp Hne]. apply Hm in Hp. destruct Hp as [->|Hp]; [congruence|assumption].
Qed.

Lemma is_enum_head_min : forall P z l x, is_enum P (z :: l) -> P x -> z <= x.
Proof.
  intros P z l x [Hs Hm] Hp. apply Hm in Hp. destruct Hp as [<-|Hp]; [lia|].
  pose proof (strict_sorted_head_lt _ _ _ Hs Hp). lia.
Qed.

Lemma skipn_nth_cons : forall (l : list Z) j z, nth_error l j = Some z -> skipn j l = z :: skipn (S j) l.
Proof.
  induction l as [|a l IH]; intros j z Hn; destruct j; simpl in *; try discriminate.
  - injection Hn as ->. reflexivity.
  - apply IH. assumption.
Qed.

Lemma skipn_nth_nil : forall (l : list Z) j, nth_error l j = None -> skipn j l = [].
Proof. intros l j Hn. apply skipn_all2. apply nth_error_None. assumption. Qed.

Lemma firstn_snoc_nth : forall (l : list Z) j z, nth_error l j = Some z -> firstn j l ++ [z] = firstn (S j) l.
Proof.
  induction l as [|a l IH]; intros j z Hn; destruct j; simpl in *; try discriminate.
  - injection Hn as ->. reflexivity.
  - f_equal. apply IH. assumption.
Qed.


(* ------------------------------------------------------------------ for-loops with break, on lists *)
Fixpoint scan (stop : nat -> Z -> bool) (k : nat) (l : list Z) : list Z * bool :=
  match l with
  | [] => ([], false)
  | x :: t => if stop k x then ([x], true) else let (r, b) := scan stop (S k) t in (x :: r, b)
  end.

Lemma scan_cons : forall stop k x t,
  scan stop k (x :: t) = if stop k x then ([x], true) else let (r, b) := scan stop (S k) t in (x :: r, b).
Proof. reflexivity. Qed.

Lemma scan_ext : forall f g, (forall k x, f k x = g k x) -> forall l k, scan f k l = scan g k l.
Proof.
  intros f g Hfg. induction l as [|x t IH]; intro k; simpl; [reflexivity|].
  rewrite Hfg, IH. reflexivity.
Qed.

Lemma scan_never : forall l k, scan never k l = (l, false).
Proof. induction l as [|x t IH]; intro k; simpl; [reflexivity|]. rewrite IH. reflexivity. Qed.

Lemma scan_true_nonempty : forall stop l k, snd (scan stop k l) = true -> fst (scan stop k l) <> [].
Proof.
  intros stop l. induction l as [|x t IH]; intros k Hs; simpl in *; [discriminate|].
  destruct (stop k x); simpl; [discriminate|].
  destruct (scan stop (S k) t); simpl. discriminate.
Qed.

Definition lastz (r : list Z) : option Z := last (map Some r) None.

Lemma lastz_cons : forall x r, r <> [] -> lastz (x :: r) = lastz r.
Proof. intros x [|y r] Hne; [contradiction|reflexivity]. Qed.

Lemma removelast_cons : forall (x : Z) r, r <> [] -> removelast (x :: r) = x :: removelast r.
Proof. intros x [|y r] Hne; [contradiction|reflexivity]. Qed.

Fixpoint takewhile (p : Z -> bool) (l : list Z) : list Z :=
  match l with
  | [] => []
  | x :: t => if p x then x :: takewhile p t else []
  end.

(* the elements seen before `break` when the loop breaks at the first x with p x = false *)
Lemma scan_before : forall p l k,
  before_break (fst (scan (fun _ x => negb (p x)) k l)) (snd (scan (fun _ x => negb (p x)) k l)) = takewhile p l.
Proof.
  intros p. induction l as [|x t IH]; intro k; simpl; [reflexivity|].
  destruct (p x) eqn:Ep; simpl; [|reflexivity].
  specialize (IH (S k)). pose proof (scan_true_nonempty (fun _ x => negb (p x)) t (S k)) as Hne.
  destruct (scan (fun _ x0 => negb (p x0)) (S k) t) as [r b]. simpl in *.
  destruct b; simpl in *.
  - rewrite <- IH. destruct r as [|y r]; [exfalso; apply Hne; reflexivity|reflexivity].
  - rewrite IH. reflexivity.
Qed.

Lemma filter_none : forall (p : Z -> bool) l, (forall y, In y l -> p y = false) -> filter p l = [].
Proof.
  intros p l. induction l as [|x t IH]; intro Hf; simpl; [reflexivity|].
  rewrite (Hf x (or_introl eq_refl)). apply IH. intros y Hy. apply Hf. right. assumption.
Qed.

Lemma filter_all : forall (p : Z -> bool) l, (forall y, In y l -> p y = true) -> filter p l = l.
Proof.
  intros p l. induction l as [|x t IH]; intro Hf; simpl; [reflexivity|].
  rewrite (Hf x (or_introl eq_refl)). f_equal. apply IH. intros y Hy. apply Hf. right. assumption.
Qed.

Lemma takewhile_filter : forall p l, strict_sorted l ->
  (forall x y, x < y -> p y = true -> p x = true) -> takewhile p l = filter p l.
Proof.
  intros p l Hs Hdown. induction l as [|x t IH]; simpl; [reflexivity|].
  destruct (p x) eqn:Ep.
  - f_equal. apply IH. eapply strict_sorted_tail; eauto.
  - symmetry. apply filter_none. intros y Hy.
    pose proof (strict_sorted_head_lt _ _ _ Hs Hy) as Hlt.
    destruct (p y) eqn:Ey; [|reflexivity]. rewrite (Hdown x y Hlt Ey) in Ep. discriminate.
Qed.

Lemma dropwhile_filter : forall p l, strict_sorted l ->
  (forall x y, x < y -> p x = true -> p y = true) -> dropwhile (fun x => negb (p x)) l = filter p l.
Proof.
  intros p l Hs Hup. induction l as [|x t IH]; simpl; [reflexivity|].
  destruct (p x) eqn:Ep; simpl.
  - f_equal. symmetry. apply filter_all. intros y Hy.
    apply (Hup x y); [eapply strict_sorted_head_lt; eauto|assumption].
  - apply IH. eapply strict_sorted_tail; eauto.
Qed.

Lemma filter_filter : forall (f g : Z -> bool) l, filter f (filter g l) = filter (fun x => f x && g x) l.
Proof.
  intros f g l. induction l as [|x t IH]; simpl; [reflexivity|].
  destruct (g x); simpl; [|rewrite andb_false_r; assumption].
  rewrite andb_true_r. destruct (f x); simpl; rewrite IH; reflexivity.
Qed.

(* the element at which an `if cond: return x` loop returns *)
Lemma scan_after : forall a l k,
  (if snd (scan (fun _ x => a x) k l) then lastz (fst (scan (fun _ x => a x) k l)) else None)
  = hd None (map Some (filter a l)).
Proof.
  intros a. induction l as [|x t IH]; intro k; simpl; [reflexivity|].
  destruct (a x) eqn:Ea; simpl; [reflexivity|].
  specialize (IH (S k)). pose proof (scan_true_nonempty (fun _ x => a x) t (S k)) as Hne.
  destruct (scan (fun _ x0 => a x0) (S k) t) as [r b]. simpl in *.
  destruct b; [|assumption]. rewrite lastz_cons; [assumption|]. apply Hne. reflexivity.
Qed.

(* membership by the early-exit loop of __contains__ *)
Lemma scan_contains : forall z l k, strict_sorted l ->
  (if snd (scan (fun _ x => z <=? x) k l)
   then match lastz (fst (scan (fun _ x => z <=? x) k l)) with Some x => x =? z | None => false end
   else false) = memZ z l.
Proof.
  intros z. induction l as [|x t IH]; intros k Hs; simpl; [reflexivity|].
  destruct (z <=? x) eqn:E; simpl.
  - apply Z.leb_le in E. destruct (Z.eqb_spec x z) as [->|Hne].
    + rewrite Z.eqb_refl. reflexivity.
    + destruct (Z.eqb_spec z x) as [->|_]; [congruence|]. simpl. symmetry.
      apply not_true_is_false. intro Hm. apply memZ_in in Hm.
      pose proof (strict_sorted_head_lt _ _ _ Hs Hm). lia.
  - apply Z.leb_gt in E. destruct (Z.eqb_spec z x) as [->|_]; [lia|]. simpl.
    specialize (IH (S k) (strict_sorted_tail _ _ Hs)).
    pose proof (scan_true_nonempty (fun _ x => z <=? x) t (S k)) as Hne.
    destruct (scan (fun _ x0 => z <=? x0) (S k) t) as [r b]. simpl in *.
    destruct b; [|assumption]. rewrite lastz_cons; [assumption|]. apply Hne. reflexivity.
Qed.

(* the advance loop of __getitem__ *)
Lemma scan_index : forall l k n,
  scan (fun k' _ => Nat.eqb k' (k + n)) k l =
  match nth_error l n with Some _ => (firstn (S n) l, true) | None => (l, false) end.
Proof.
  induction l as [|x t IH]; intros k n; [destruct n; reflexivity|].
  rewrite scan_cons. destruct n as [|n].
  - rewrite Nat.add_0_r, Nat.eqb_refl. reflexivity.
  - destruct (Nat.eqb_spec k (k + S n)); [lia|].
    replace (k + S n)%nat with (S k + n)%nat by lia. rewrite IH. simpl.
    destruct (nth_error t n); reflexivity.
Qed.

Lemma lastz_firstn : forall l n z, nth_error l n = Some z -> lastz (firstn (S n) l) = Some z.
Proof.
  induction l as [|x t IH]; intros [|n] z Hn; simpl in Hn; try discriminate.
  - injection Hn as ->. reflexivity.
  - change (firstn (S (S n)) (x :: t)) with (x :: firstn (S n) t).
    rewrite lastz_cons; [apply IH; assumption|]. destruct t; [destruct n; discriminate|discriminate].
Qed.


Lemma op_eq_dec_newiter : forall q, {q = NewIter} + {q <> NewIter}.
Proof. intro q. destruct q; try (right; discriminate). left. reflexivity. Qed.

Lemma op_is_next : forall q, {k | q = Next k} + {forall k, q <> Next k}.
Proof. intro q. destruct q; try (right; intros; discriminate). left. exists k. reflexivity. Qed.

Section Hist.
Variable H : heap_ops.
Variable is_heap : list item -> Prop.
Hypothesis HC : heap_contract H is_heap.

Definition mem_ok (m : members) : Prop := Forall nondec (m_rr m) /\ Forall nondec (m_exr m).

(* ------------------------------------------------------------------ the generator *)
Definition resume_args (m : members) (g : gen_state) : option (list item * list item * option Z * Z) :=
  match g with
  | GStart => Some (heapify H (gen_list (m_rd m) (m_rr m)), heapify H (gen_list (m_exd m) (m_exr m)), None, 0)
  | GYield rl ex total =>
      match rl with
      | [] => None
      | (rdt, _) :: _ => Some (advance_root H rl, ex, Some rdt, total)
      end
  | GDone => None
  end.

Lemma gnext_resume : forall m g rl ex last tot, resume_args m g = Some (rl, ex, last, tot) ->
  gnext H m g = of_outcome (run H (S (size rl)) rl ex last tot).
Proof.
  intros m g rl ex last tot Hr. destruct g as [|rl0 ex0 t0|]; simpl in Hr.
  - injection Hr as <- <- <- <-. reflexivity.
  - destruct rl0 as [|[rdt r] tl]; [discriminate|]. injection Hr as <- <- <- <-. reflexivity.
  - discriminate.
Qed.

(* the generator is alive and has produced the first j instants of the recurrence set *)
Definition gen_live (m : members) (g : gen_state) (j : nat) : Prop :=
  exists rl ex last, resume_args m g = Some (rl, ex, last, Z.of_nat j) /\ Inv is_heap rl ex last /\
                     is_enum (remaining rl ex last) (skipn j (spec_of m)) /\
                     (j <= length (spec_of m))%nat.

Lemma gen_live_start : forall m, mem_ok m -> gen_live m GStart 0.
Proof.
  intros m [Hrr Hexr]. unfold gen_live.
  set (rl0 := heapify H (gen_list (m_rd m) (m_rr m))). set (ex0 := heapify H (gen_list (m_exd m) (m_exr m))).
  exists rl0, ex0, None. split; [reflexivity|].
  destruct (hc_heapify _ _ HC (gen_list (m_rd m) (m_rr m))) as [Hh1 Hp1].
  destruct (hc_heapify _ _ HC (gen_list (m_exd m) (m_exr m))) as [Hh2 Hp2].
  split; [|split; [|lia]].
  - split; [split; [exact Hh1|]|split; [split; [exact Hh2|]|]].
    + eapply items_ok_perm; [exact Hp1|]. apply items_ok_gen_list. assumption.
    + eapply items_ok_perm; [exact Hp2|]. apply items_ok_gen_list. assumption.
    + intros l El. discriminate.
  - simpl skipn. eapply is_enum_ext; [|apply (spec_set_enum (m_rr m) (m_rd m) (m_exr m) (m_exd m))].
    intro x. unfold remaining, in_set.
    assert (E1 : In x (contents rl0) <-> In x (inclusion (m_rr m) (m_rd m))).
    { rewrite <- in_gen_list. split; apply Permutation_in; [apply Permutation_sym|]; apply contents_perm; exact Hp1. }
    assert (E2 : In x (contents ex0) <-> In x (inclusion (m_exr m) (m_exd m))).
    { rewrite <- in_gen_list. split; apply Permutation_in; [apply Permutation_sym|]; apply contents_perm; exact Hp2. }
    rewrite E1, E2. split; [|tauto]. intros [A B]. split; [assumption|]. split; [assumption|discriminate].
Qed.

(* one next() on a live generator *)
Lemma gen_step : forall m g j, gen_live m g j ->
  match nth_error (spec_of m) j with
  | Some z => exists g', gnext H m g = (GY z, g') /\ gen_live m g' (S j)
  | None => gnext H m g = (GStop (Some (Z.of_nat (length (spec_of m)))), GDone)
  end.
Proof.
  intros m g j [rl [ex [last [Hr [HI [He Hj]]]]]].
  rewrite (gnext_resume _ _ _ _ _ _ Hr).
  pose proof (run_spec H is_heap HC (S (size rl)) rl ex last (Z.of_nat j) (Nat.lt_succ_diag_r _) HI) as Hpost.
  destruct (nth_error (spec_of m) j) as [z|] eqn:En.
  - rewrite (skipn_nth_cons _ _ _ En) in He.
    destruct (run H (S (size rl)) rl ex last (Z.of_nat j)) as [z' rl' ex' t|t|]; simpl in Hpost.
    + destruct Hpost as [-> [Hz [Hmin [[r [tl ->]] [HI' [Hiff Hlt]]]]]].
      assert (z' = z).
      { pose proof (is_enum_head_min _ _ _ _ He Hz).
        assert (Hzr : remaining rl ex last z) by (apply (proj2 He); left; reflexivity).
        specialize (Hmin z Hzr). lia. }
      subst z'. simpl. eexists. split; [reflexivity|].
      exists (advance_root H ((z, r) :: tl)), ex', (Some z). split.
      * simpl. f_equal. f_equal. lia.
      * split; [exact HI'|]. split.
        -- eapply is_enum_ext; [|apply (is_enum_tail _ _ _ He)]. intro x. simpl. rewrite Hiff. reflexivity.
        -- assert (j < length (spec_of m))%nat by (apply nth_error_Some; congruence). lia.
    + destruct Hpost as [_ Hnone]. exfalso. apply (Hnone z). apply (proj2 He). left. reflexivity.
    + contradiction.
  - rewrite (skipn_nth_nil _ _ En) in He. apply nth_error_None in En.
    destruct (run H (S (size rl)) rl ex last (Z.of_nat j)) as [z' rl' ex' t|t|]; simpl in Hpost.
    + destruct Hpost as [_ [Hz _]]. apply (proj2 He) in Hz. destruct Hz.
    + destruct Hpost as [-> _]. simpl. repeat f_equal. lia.
    + contradiction.
Qed.


(* ------------------------------------------------------------------ object invariant *)
Definition S_of (o : obj) : list Z := spec_of (o_m o).
Definition slen (o : obj) : Z := Z.of_nat (length (S_of o)).
Definition cur_cache (o : obj) : list Z := c_cache (get_cell o (cur o)).
Definition cur_gen (o : obj) : gen_state := c_gen (get_cell o (cur o)).

Definition obj_ok (o : obj) : Prop :=
  mem_ok (o_m o) /\
  (o_len o = None \/ o_len o = Some (slen o)) /\
  (o_complete o = true -> o_len o = Some (slen o)) /\
  if o_cached o then
    o_cells o <> [] /\ o_gen_none o = o_complete o /\
    exists j, cur_cache o = firstn j (S_of o) /\ (j <= length (S_of o))%nat /\
              (if o_complete o then j = length (S_of o) else gen_live (o_m o) (cur_gen o) j)
  else o_complete o = false.

(* a fresh iterator that has returned the first pos instants *)
Definition iter_ok (o : obj) (it : iter_state) (pos : nat) : Prop :=
  match it with
  | IGen g => o_cached o = false /\
              (gen_live (o_m o) g pos \/
               (g = GDone /\ (length (S_of o) <= pos)%nat /\ o_len o = Some (slen o)))
  | IList e i => e = cur o /\ i = pos /\ o_complete o = true
  | ICNew => pos = O /\ o_cached o = true
  | ICLoop e i => e = cur o /\ i = pos /\ (i <= length (cur_cache o))%nat /\ o_cached o = true
  | ICTail e i => e = cur o /\ i = pos /\ o_complete o = true
  | IDone => (length (S_of o) <= pos)%nat /\ o_len o = Some (slen o)
  end.

(* how an observation may change the object *)
Definition ext (o o' : obj) : Prop :=
  o_m o' = o_m o /\ o_cached o' = o_cached o /\ length (o_cells o') = length (o_cells o) /\
  (length (cur_cache o) <= length (cur_cache o'))%nat /\
  (o_complete o = true -> o_complete o' = true) /\
  (o_len o = Some (slen o) -> o_len o' = Some (slen o)).

Lemma ext_refl : forall o, ext o o.
Proof. intro o. unfold ext. repeat split; auto. Qed.

Lemma ext_S : forall o o', ext o o' -> S_of o' = S_of o.
Proof. intros o o' [Hm _]. unfold S_of. rewrite Hm. reflexivity. Qed.

Lemma ext_slen : forall o o', ext o o' -> slen o' = slen o.
Proof. intros o o' He. unfold slen. rewrite (ext_S _ _ He). reflexivity. Qed.

Lemma ext_cur : forall o o', ext o o' -> cur o' = cur o.
Proof. intros o o' [_ [_ [Hl _]]]. unfold cur. rewrite Hl. reflexivity. Qed.

Lemma ext_trans : forall o1 o2 o3, ext o1 o2 -> ext o2 o3 -> ext o1 o3.
Proof.
  intros o1 o2 o3 H12 H23. pose proof (ext_slen _ _ H12) as Hs.
  destruct H12 as [A1 [A2 [A3 [A4 [A5 A6]]]]]. destruct H23 as [B1 [B2 [B3 [B4 [B5 B6]]]]].
  unfold ext. rewrite Hs in B6.
  split; [congruence|]. split; [congruence|]. split; [congruence|]. split; [lia|]. split; auto.
Qed.

Lemma iter_ok_ext : forall o o' it pos, iter_ok o it pos -> ext o o' -> iter_ok o' it pos.
Proof.
  intros o o' it pos Hok He.
  pose proof (ext_S _ _ He) as HS. pose proof (ext_slen _ _ He) as Hsl. pose proof (ext_cur _ _ He) as Hc.
  destruct He as [A1 [A2 [A3 [A4 [A5 A6]]]]].
  destruct it; simpl in *; rewrite ?HS, ?Hsl, ?Hc, ?A1, ?A2.
  - destruct Hok as [Hu [Hl|[Hg [Hp Hlen]]]]; split; auto.
  - destruct Hok as [? [? ?]]. auto.
  - assumption.
  - destruct Hok as [? [? [? ?]]]. repeat split; auto. lia.
  - destruct Hok as [? [? ?]]. auto.
  - destruct Hok as [? ?]. auto.
Qed.

(* ------------------------------------------------------------------ cells *)
Lemma set_nth_length : forall (A : Type) (l : list A) n v, length (set_nth l n v) = length l.
Proof. induction l as [|a l IH]; intros [|n] v; simpl; auto. Qed.

Lemma nth_set_nth : forall (A : Type) (l : list A) n v d, (n < length l)%nat -> nth n (set_nth l n v) d = v.
Proof.
  induction l as [|a l IH]; intros [|n] v d Hn; simpl in *; try lia; auto.
  apply IH. lia.
Qed.

Lemma set_nth_nonnil : forall (A : Type) (l : list A) n v, l <> [] -> set_nth l n v <> [].
Proof. intros A [|a l] [|n] v Hne; simpl; congruence. Qed.

Lemma cur_lt : forall o, o_cells o <> [] -> (cur o < length (o_cells o))%nat.
Proof. intros o Hne. unfold cur. destruct (o_cells o); [contradiction|]. simpl. lia. Qed.

Lemma cur_set_cell : forall o e c, cur (set_cell o e c) = cur o.
Proof. intros. unfold cur, set_cell. simpl. rewrite set_nth_length. reflexivity. Qed.

Lemma get_set_cell : forall o c, o_cells o <> [] -> get_cell (set_cell o (cur o) c) (cur o) = c.
Proof. intros o c Hne. unfold get_cell, set_cell. simpl. apply nth_set_nth. apply cur_lt. assumption. Qed.

(* ------------------------------------------------------------------ fill *)
Lemma fill_spec : forall n m cache g j, gen_live m g j -> cache = firstn j (spec_of m) ->
  if (j + n <=? length (spec_of m))%nat
  then exists g', fill H n m cache g = (firstn (j + n) (spec_of m), g', FFull) /\ gen_live m g' (j + n)
  else fill H n m cache g = (spec_of m, GDone, FStop (Some (Z.of_nat (length (spec_of m))))).
Proof.
  induction n as [|k IH]; intros m cache g j Hl Hc.
  - assert (Hj : (j <= length (spec_of m))%nat) by (destruct Hl as [? [? [? [_ [_ [_ Hj]]]]]]; exact Hj).
    rewrite Nat.add_0_r. destruct (Nat.leb_spec j (length (spec_of m))); [|lia].
    exists g. split; [simpl; congruence|assumption].
  - pose proof (gen_step m g j Hl) as Hs. simpl fill.
    destruct (nth_error (spec_of m) j) as [z|] eqn:En.
    + destruct Hs as [g' [Hn Hl']]. rewrite Hn.
      specialize (IH m (cache ++ [z]) g' (S j) Hl').
      rewrite Hc, (firstn_snoc_nth _ _ _ En) in IH. specialize (IH eq_refl).
      replace (j + S k)%nat with (S j + k)%nat by lia. rewrite Hc, (firstn_snoc_nth _ _ _ En). exact IH.
    + rewrite Hs. apply nth_error_None in En.
      assert (Hj : (j <= length (spec_of m))%nat) by (destruct Hl as [? [? [? [_ [_ [_ Hj]]]]]]; exact Hj).
      destruct (Nat.leb_spec (j + S k) (length (spec_of m))); [lia|].
      rewrite Hc, firstn_all2 by lia. reflexivity.
Qed.


(* ------------------------------------------------------------------ one next() *)
Definition step_obs (o : obj) (pos : nat) : obs :=
  match nth_error (S_of o) pos with Some z => OVal z | None => OStop end.
Definition next_pos (o : obj) (pos : nat) : nat :=
  match nth_error (S_of o) pos with Some _ => S pos | None => pos end.

Lemma nth_error_firstn_lt : forall (l : list Z) n i, (i < n)%nat -> nth_error (firstn n l) i = nth_error l i.
Proof.
  induction l as [|a l IH]; intros [|n] [|i] Hi; simpl; try lia; auto.
  apply IH. lia.
Qed.

Lemma complete_cache : forall o, obj_ok o -> o_cached o = true -> o_complete o = true ->
  cur_cache o = S_of o /\ o_len o = Some (slen o).
Proof.
  intros o [_ [_ [Hcl Hc]]] Hca Hco. rewrite Hca, Hco in Hc.
  destruct Hc as [_ [_ [j [Hcache [_ ->]]]]]. split; [|auto].
  rewrite Hcache. apply firstn_all.
Qed.

Lemma tail_step_spec : forall o i, obj_ok o -> o_cached o = true -> o_complete o = true ->
  exists it', tail_step o (cur o) i = (step_obs o i, o, it') /\ iter_ok o it' (next_pos o i).
Proof.
  intros o i Hok Hca Hco. destruct (complete_cache o Hok Hca Hco) as [Hcache Hlen].
  unfold tail_step, step_obs, next_pos. rewrite Hlen. fold (cur_cache o). rewrite Hcache.
  destruct (nth_error (S_of o) i) as [z|] eqn:En.
  - assert (i < length (S_of o))%nat by (apply nth_error_Some; congruence).
    unfold slen. destruct (Z.ltb_spec (Z.of_nat i) (Z.of_nat (length (S_of o)))); [|lia].
    eexists. split; [reflexivity|]. simpl. auto.
  - apply nth_error_None in En.
    unfold slen. destruct (Z.ltb_spec (Z.of_nat i) (Z.of_nat (length (S_of o)))); [lia|].
    eexists. split; [reflexivity|]. simpl. auto.
Qed.

Lemma loop_step_spec : forall o i, obj_ok o -> o_cached o = true -> (i <= length (cur_cache o))%nat ->
  exists o' it', loop_step H o (cur o) i true = (step_obs o i, o', it') /\ obj_ok o' /\ ext o o' /\
                 iter_ok o' it' (next_pos o i) /\
                 (nth_error (S_of o) i = None -> o_len o' = Some (slen o)).
Proof.
  intros o i Hok Hca Hi.
  pose proof Hok as [Hmem [Hlen [Hcl Hc]]]. rewrite Hca in Hc.
  destruct Hc as [Hne [Hgn [j [Hcache [Hj Hgen]]]]].
  assert (Hlc : length (cur_cache o) = j) by (rewrite Hcache; apply firstn_length_le; assumption).
  unfold loop_step. fold (cur_cache o). fold (cur_gen o). rewrite Hlc in *.
  destruct (Nat.eqb_spec i j) as [->|Hneq].
  - destruct (o_complete o) eqn:Hco.
    + destruct (tail_step_spec o j Hok Hca Hco) as [it' [Ht Hit]].
      exists o, it'. split; [exact Ht|]. split; [assumption|]. split; [apply ext_refl|]. split; [assumption|].
      intros _. apply (complete_cache o Hok Hca Hco).
    + pose proof (fill_spec 10 (o_m o) (cur_cache o) (cur_gen o) j Hgen Hcache) as Hf.
      fold (S_of o) in Hf.
      destruct (Nat.leb_spec (j + 10) (length (S_of o))) as [Hle|Hgt].
      * destruct Hf as [g' [Hf Hl']]. rewrite Hf.
        assert (En : nth_error (firstn (j + 10) (S_of o)) j = nth_error (S_of o) j)
          by (apply nth_error_firstn_lt; lia).
        rewrite En. unfold step_obs, next_pos.
        destruct (nth_error (S_of o) j) as [z|] eqn:En'; [|apply nth_error_None in En'; lia].
        set (o' := set_cell o (cur o) (mkCell (firstn (j + 10) (S_of o)) g')).
        assert (Hcur : cur o' = cur o) by apply cur_set_cell.
        assert (Hcell : get_cell o' (cur o) = mkCell (firstn (j + 10) (S_of o)) g') by (apply get_set_cell; assumption).
        exists o', (ICLoop (cur o) (S j)). split; [reflexivity|].
        assert (Hcc : cur_cache o' = firstn (j + 10) (S_of o)) by (unfold cur_cache; rewrite Hcur, Hcell; reflexivity).
        split; [|split; [|split]].
        -- unfold obj_ok. rewrite Hcc. change (S_of o') with (S_of o). change (slen o') with (slen o).
           change (o_m o') with (o_m o). change (o_len o') with (o_len o).
           change (o_complete o') with (o_complete o). change (o_cached o') with (o_cached o).
           change (o_gen_none o') with (o_gen_none o). rewrite Hca, Hco.
           split; [assumption|]. split; [exact Hlen|]. split; [discriminate|].
           split; [apply set_nth_nonnil; assumption|].
           split; [assumption|]. exists (j + 10)%nat. split; [reflexivity|]. split; [assumption|].
           unfold cur_gen. rewrite Hcur, Hcell. exact Hl'.
        -- unfold ext. rewrite Hcc, Hlc, firstn_length_le by assumption.
           change (o_m o') with (o_m o). change (o_len o') with (o_len o).
           change (o_complete o') with (o_complete o). change (o_cached o') with (o_cached o).
           split; [reflexivity|]. split; [reflexivity|].
           split; [apply set_nth_length|]. split; [lia|]. split; auto.
        -- simpl. rewrite Hcur, Hcc, firstn_length_le by assumption. repeat split; auto. lia.
        -- discriminate.
      * rewrite Hf.
        set (o1 := set_cell o (cur o) (mkCell (S_of o) GDone)).
        set (o' := set_complete (set_len o1 (Some (Z.of_nat (length (S_of o)))))).
        assert (Hcur : cur o' = cur o) by (unfold o', o1, cur; simpl; rewrite set_nth_length; reflexivity).
        assert (Hcell : get_cell o' (cur o) = mkCell (S_of o) GDone).
        { unfold o', o1, get_cell. simpl. apply nth_set_nth. apply cur_lt. assumption. }
        assert (Hcc : cur_cache o' = S_of o) by (unfold cur_cache; rewrite Hcur, Hcell; reflexivity).
        assert (HS' : S_of o' = S_of o) by reflexivity.
        assert (Hok' : obj_ok o').
        { unfold obj_ok. rewrite Hcc, HS'. unfold slen. rewrite HS'. unfold o' at 1 2 3 4 5 6 7 8 9. unfold o1.
          cbn [set_complete set_len set_cell o_m o_len o_complete o_cached o_cells o_gen_none].
          split; [assumption|]. split; [right; reflexivity|]. split; [reflexivity|]. rewrite Hca.
          split; [intro E; apply (f_equal (@length _)) in E; rewrite set_nth_length in E; destruct (o_cells o); [contradiction|discriminate]|].
          split; [reflexivity|]. exists (length (S_of o)). split; [symmetry; apply firstn_all|]. split; [lia|reflexivity]. }
        assert (Hext : ext o o').
        { unfold ext. rewrite Hcc, Hlc. unfold o', o1.
          cbn [set_complete set_len set_cell o_m o_len o_complete o_cached o_cells].
          rewrite set_nth_length. repeat split; auto. }
        assert (Hca' : o_cached o' = true) by exact Hca.
        assert (Hco' : o_complete o' = true) by reflexivity.
        destruct (tail_step_spec o' j Hok' Hca' Hco') as [it' [Ht Hit]].
        rewrite Hcur in Ht. exists o', it'.
        unfold step_obs, next_pos in *. rewrite HS' in *.
        split; [exact Ht|]. split; [assumption|]. split; [assumption|]. split; [assumption|].
        intros _. reflexivity.
  - assert (Hlt : (i < j)%nat) by lia.
    assert (En : nth_error (cur_cache o) i = nth_error (S_of o) i)
      by (rewrite Hcache; apply nth_error_firstn_lt; assumption).
    rewrite En. unfold step_obs, next_pos.
    destruct (nth_error (S_of o) i) as [z|] eqn:En'; [|apply nth_error_None in En'; lia].
    exists o, (ICLoop (cur o) (S i)). split; [reflexivity|]. split; [assumption|]. split; [apply ext_refl|].
    split; [|discriminate]. simpl. rewrite Hlc. repeat split; auto.
Qed.


Lemma ok_complete_cached : forall o, obj_ok o -> o_complete o = true -> o_cached o = true.
Proof.
  intros o [_ [_ [_ Hc]]] Hco. destruct (o_cached o); [reflexivity|]. congruence.
Qed.

Lemma iter_next_spec : forall o it pos, obj_ok o -> iter_ok o it pos ->
  exists o' it', iter_next H o it = (step_obs o pos, o', it') /\ obj_ok o' /\ ext o o' /\
                 iter_ok o' it' (next_pos o pos) /\
                 (nth_error (S_of o) pos = None -> o_len o' = Some (slen o)).
Proof.
  intros o it pos Hok Hit. destruct it as [g|e i| |e i|e i|]; simpl in Hit.
  - (* uncached generator *)
    destruct Hit as [Hu [Hl|[-> [Hp Hlen]]]].
    + pose proof (gen_step (o_m o) g pos Hl) as Hs. fold (S_of o) in Hs.
      unfold iter_next, step_obs, next_pos.
      destruct (nth_error (S_of o) pos) as [z|] eqn:En.
      * destruct Hs as [g' [Hn Hl']]. rewrite Hn. exists o, (IGen g').
        split; [reflexivity|]. split; [assumption|]. split; [apply ext_refl|].
        split; [simpl; auto|discriminate].
      * rewrite Hs. apply nth_error_None in En.
        set (o' := set_len o (Some (Z.of_nat (length (S_of o))))).
        exists o', (IGen GDone). split; [reflexivity|].
        destruct Hok as [Hmem [Hl0 [Hcl Hc]]]. rewrite Hu in Hc.
        assert (Hok' : obj_ok o').
        { unfold obj_ok. change (S_of o') with (S_of o). change (slen o') with (slen o).
          change (o_m o') with (o_m o). change (o_complete o') with (o_complete o).
          change (o_cached o') with (o_cached o). rewrite Hu.
          split; [assumption|]. split; [right; reflexivity|]. split; [intros; reflexivity|assumption]. }
        split; [exact Hok'|]. split.
        -- unfold ext. repeat split; auto.
        -- split; [|intros _; reflexivity]. simpl. split; [assumption|]. right.
           split; [reflexivity|]. split; [assumption|reflexivity].
    + unfold iter_next, step_obs, next_pos.
      assert (En : nth_error (S_of o) pos = None) by (apply nth_error_None; assumption).
      rewrite En. exists o, (IGen GDone). split; [reflexivity|]. split; [assumption|]. split; [apply ext_refl|].
      split; [|intros _; assumption]. simpl. split; [assumption|]. right. auto.
  - (* list iterator over the complete cache *)
    destruct Hit as [-> [-> Hco]].
    pose proof (ok_complete_cached o Hok Hco) as Hca.
    destruct (complete_cache o Hok Hca Hco) as [Hcache Hlen].
    unfold iter_next, step_obs, next_pos. fold (cur_cache o). rewrite Hcache.
    destruct (nth_error (S_of o) pos) as [z|] eqn:En.
    + exists o, (IList (cur o) (S pos)). split; [reflexivity|]. split; [assumption|]. split; [apply ext_refl|].
      split; [simpl; auto|discriminate].
    + apply nth_error_None in En. exists o, IDone. split; [reflexivity|]. split; [assumption|].
      split; [apply ext_refl|]. split; [simpl; auto|intros _; assumption].
  - (* _iter_cached not yet started *)
    destruct Hit as [-> Hca]. unfold iter_next.
    pose proof Hok as [_ [_ [_ Hc]]]. rewrite Hca in Hc. destruct Hc as [_ [Hgn _]]. rewrite Hgn.
    destruct (o_complete o) eqn:Hco.
    + unfold loop_step. cbn [negb]. cbv iota.
      destruct (tail_step_spec o 0%nat Hok Hca Hco) as [it' [Ht Hit']].
      exists o, it'. split; [exact Ht|]. split; [assumption|]. split; [apply ext_refl|]. split; [assumption|].
      intros _. apply (complete_cache o Hok Hca Hco).
    + cbn [negb]. apply loop_step_spec; [assumption|assumption|lia].
  - destruct Hit as [-> [-> [Hi Hca]]]. unfold iter_next. apply loop_step_spec; assumption.
  - destruct Hit as [-> [-> Hco]]. unfold iter_next.
    pose proof (ok_complete_cached o Hok Hco) as Hca.
    destruct (tail_step_spec o pos Hok Hca Hco) as [it' [Ht Hit']].
    exists o, it'. split; [exact Ht|]. split; [assumption|]. split; [apply ext_refl|]. split; [assumption|].
    intros _. apply (complete_cache o Hok Hca Hco).
  - destruct Hit as [Hp Hlen]. unfold iter_next, step_obs, next_pos.
    assert (En : nth_error (S_of o) pos = None) by (apply nth_error_None; assumption).
    rewrite En. exists o, IDone. split; [reflexivity|]. split; [assumption|]. split; [apply ext_refl|].
    split; [simpl; auto|intros _; assumption].
Qed.

(* ------------------------------------------------------------------ for-loops over a fresh iterator *)
Lemma pull_spec : forall fuel o it pos stop acc, obj_ok o -> iter_ok o it pos ->
  (length (skipn pos (S_of o)) < fuel)%nat ->
  exists o', pull H fuel o it stop acc =
             (rev acc ++ fst (scan stop (length acc) (skipn pos (S_of o))),
              snd (scan stop (length acc) (skipn pos (S_of o))), None, o') /\
             obj_ok o' /\ ext o o' /\
             (snd (scan stop (length acc) (skipn pos (S_of o))) = false -> o_len o' = Some (slen o)).
Proof.
  induction fuel as [|f IH]; intros o it pos stop acc Hok Hit Hf; [lia|].
  destruct (iter_next_spec o it pos Hok Hit) as [o' [it' [Hn [Hok' [Hext [Hit' Hstop]]]]]].
  simpl pull. rewrite Hn. unfold step_obs, next_pos in *.
  destruct (nth_error (S_of o) pos) as [z|] eqn:En.
  - rewrite (skipn_nth_cons _ _ _ En) in *. rewrite scan_cons. cbn [length] in Hf.
    destruct (stop (length acc) z) eqn:Est.
    + exists o'. cbn [fst snd rev]. split; [reflexivity|]. split; [assumption|]. split; [assumption|discriminate].
    + destruct (IH o' it' (S pos) stop (z :: acc) Hok' Hit') as [o'' [Hp [Hok'' [Hext' Hlen]]]].
      { rewrite (ext_S _ _ Hext). lia. }
      rewrite (ext_S _ _ Hext) in Hp, Hlen. simpl length in Hp, Hlen.
      exists o''. rewrite Hp.
      destruct (scan stop (S (length acc)) (skipn (S pos) (S_of o))) as [r b]. cbn [fst snd rev].
      split; [rewrite <- app_assoc; reflexivity|]. split; [assumption|].
      split; [eapply ext_trans; eauto|]. intro Hb. rewrite <- (ext_slen _ _ Hext). auto.
  - rewrite (skipn_nth_nil _ _ En). cbn [scan fst snd]. exists o'. rewrite app_nil_r.
    split; [reflexivity|]. split; [assumption|]. split; [assumption|]. intros _. auto.
Qed.

Lemma insert_uniq_length : forall x l, (length (insert_uniq x l) <= S (length l))%nat.
Proof.
  intros x l. induction l as [|h t IH]; simpl; [lia|].
  destruct (x <? h); simpl; [lia|]. destruct (x =? h); simpl; lia.
Qed.

Lemma sort_set_length : forall l, (length (sort_set l) <= length l)%nat.
Proof.
  induction l as [|h t IH]; simpl; [lia|].
  pose proof (insert_uniq_length h (sort_set t)). lia.
Qed.

Lemma filter_len_le : forall (f : Z -> bool) l, (length (filter f l) <= length l)%nat.
Proof. intros f l. induction l as [|h t IH]; simpl; [lia|]. destruct (f h); simpl; lia. Qed.

Lemma spec_len_le : forall rr rd exr exd, (length (spec_set rr rd exr exd) <= total_len rr rd)%nat.
Proof.
  intros. unfold spec_set, total_len.
  pose proof (filter_len_le (fun x => negb (memZ x (inclusion exr exd))) (sort_set (inclusion rr rd))).
  pose proof (sort_set_length (inclusion rr rd)). unfold inclusion in *. rewrite app_length in *. lia.
Qed.

Lemma new_iter_ok : forall o, obj_ok o -> iter_ok o (new_iter o) 0.
Proof.
  intros o Hok. unfold new_iter. destruct (o_complete o) eqn:Hco; [simpl; auto|].
  destruct (o_cached o) eqn:Hca; simpl; [auto|].
  split; [assumption|]. left. apply gen_live_start. apply Hok.
Qed.

Lemma pull_new_spec : forall o stop, obj_ok o ->
  exists o', pull_new H o stop = (fst (scan stop 0 (S_of o)), snd (scan stop 0 (S_of o)), None, o') /\
             obj_ok o' /\ ext o o' /\
             (snd (scan stop 0 (S_of o)) = false -> o_len o' = Some (slen o)).
Proof.
  intros o stop Hok. unfold pull_new.
  destruct (pull_spec (pull_fuel o) o (new_iter o) 0 stop [] Hok (new_iter_ok o Hok)) as [o' Hp].
  - simpl skipn. unfold pull_fuel, S_of, spec_of.
    pose proof (spec_len_le (m_rr (o_m o)) (m_rd (o_m o)) (m_exr (o_m o)) (m_exd (o_m o))). lia.
  - exists o'. exact Hp.
Qed.


(* ------------------------------------------------------------------ queries *)
Lemma S_sorted : forall o, strict_sorted (S_of o).
Proof. intro o. apply (spec_set_enum (m_rr (o_m o)) (m_rd (o_m o)) (m_exr (o_m o)) (m_exd (o_m o))). Qed.

Lemma py_index_spec : forall l i,
  py_index l i = match q_getitem l i with Some z => OVal z | None => OErr EIndex end.
Proof.
  intros l i. unfold py_index, q_getitem.
  destruct ((if i <? 0 then i + Z.of_nat (length l) else i) <? 0); [reflexivity|].
  destruct (nth_error l _); reflexivity.
Qed.

Lemma scan_index0 : forall l n,
  scan (fun k' _ => Nat.eqb k' n) 0 l =
  match nth_error l n with Some _ => (firstn (S n) l, true) | None => (l, false) end.
Proof. intros l n. exact (scan_index l 0 n). Qed.

Lemma query_spec : forall o q, obj_ok o ->
  exists o', query H o q = (spec_query (S_of o) q, o') /\ obj_ok o' /\ ext o o'.
Proof.
  intros o q Hok.
  assert (Hdef : exists o', (ONone, o) = (ONone, o') /\ obj_ok o' /\ ext o o')
    by (exists o; split; [reflexivity|split; [assumption|apply ext_refl]]).
  destruct q; try exact Hdef; clear Hdef.
  - (* list *)
    destruct (pull_new_spec o never Hok) as [o' [Hp [Hok' [Hext _]]]].
    unfold query. rewrite Hp, scan_never. exists o'. auto.
  - (* count *)
    unfold query. destruct (o_len o) as [n|] eqn:El.
    + exists o. split; [|split; [assumption|apply ext_refl]].
      destruct Hok as [_ [[Hl|Hl] _]]; rewrite El in Hl; [discriminate|]. injection Hl as ->. reflexivity.
    + destruct (pull_new_spec o never Hok) as [o' [Hp [Hok' [Hext Hlen]]]].
      rewrite Hp. rewrite scan_never in *. cbn [fst snd] in *. rewrite (Hlen eq_refl).
      exists o'. auto.
  - (* [i] *)
    unfold query. destruct (o_complete o) eqn:Hco.
    + pose proof (ok_complete_cached o Hok Hco) as Hca.
      destruct (complete_cache o Hok Hca Hco) as [Hcache _]. fold (cur_cache o). rewrite Hcache.
      exists o. split; [|split; [assumption|apply ext_refl]]. rewrite py_index_spec. reflexivity.
    + destruct (0 <=? i) eqn:Ei.
      * destruct (pull_new_spec o (fun k _ => Nat.eqb k (Z.to_nat i)) Hok) as [o' [Hp [Hok' [Hext _]]]].
        rewrite Hp, scan_index0. exists o'. split; [|auto].
        apply Z.leb_le in Ei. unfold spec_query, q_getitem.
        destruct (Z.ltb_spec i 0); [lia|]. destruct (Z.ltb_spec i 0); [lia|].
        destruct (nth_error (S_of o) (Z.to_nat i)) as [z|] eqn:En; cbn [fst snd].
        -- fold (lastz (firstn (S (Z.to_nat i)) (S_of o))). rewrite (lastz_firstn _ _ _ En). reflexivity.
        -- reflexivity.
      * destruct (pull_new_spec o never Hok) as [o' [Hp [Hok' [Hext _]]]].
        rewrite Hp, scan_never. cbn [fst snd]. exists o'. split; [|auto].
        rewrite py_index_spec. reflexivity.
  - (* in *)
    unfold query. destruct (o_complete o) eqn:Hco.
    + pose proof (ok_complete_cached o Hok Hco) as Hca.
      destruct (complete_cache o Hok Hca Hco) as [Hcache _]. fold (cur_cache o). rewrite Hcache.
      exists o. split; [reflexivity|split; [assumption|apply ext_refl]].
    + destruct (pull_new_spec o (fun _ x => z <=? x) Hok) as [o' [Hp [Hok' [Hext _]]]].
      rewrite Hp. exists o'. split; [|auto].
      pose proof (scan_contains z (S_of o) 0 (S_sorted o)) as Hc. unfold lastz in Hc.
      destruct (scan (fun _ x => z <=? x) 0 (S_of o)) as [r b]. cbn [fst snd] in *.
      unfold spec_query, q_contains. rewrite <- Hc. destruct b; reflexivity.
  - (* before *)
    unfold query.
    destruct (pull_new_spec o (fun _ x => if inc then z <? x else z <=? x) Hok) as [o' [Hp [Hok' [Hext _]]]].
    rewrite Hp. exists o'. split; [|auto].
    set (p := fun x => if inc then x <=? z else x <? z).
    rewrite (scan_ext (fun _ x => if inc then z <? x else z <=? x) (fun _ x => negb (p x))).
    2:{ intros k x. unfold p. destruct inc; [destruct (Z.ltb_spec z x), (Z.leb_spec x z)|destruct (Z.leb_spec z x), (Z.ltb_spec x z)]; simpl; try reflexivity; lia. }
    cbn [fst snd]. rewrite scan_before.
    rewrite (takewhile_filter p (S_of o) (S_sorted o)).
    2:{ intros x y Hlt. unfold p. destruct inc; [rewrite !Z.leb_le|rewrite !Z.ltb_lt]; lia. }
    reflexivity.
  - (* after *)
    unfold query.
    destruct (pull_new_spec o (fun _ x => if inc then z <=? x else z <? x) Hok) as [o' [Hp [Hok' [Hext _]]]].
    rewrite Hp. exists o'. split; [|auto].
    pose proof (scan_after (fun x => if inc then z <=? x else z <? x) (S_of o) 0) as Ha. unfold lastz in Ha.
    cbv beta in Ha.
    destruct (scan (fun _ x => if inc then z <=? x else z <? x) 0 (S_of o)) as [r b]. cbn [fst snd] in *.
    unfold spec_query, q_after. rewrite <- Ha. destruct b; reflexivity.
  - (* between *)
    unfold query.
    destruct (pull_new_spec o (fun _ x => if inc then b <? x else b <=? x) Hok) as [o' [Hp [Hok' [Hext _]]]].
    rewrite Hp. exists o'. split; [|auto].
    set (pb := fun x => if inc then x <=? b else x <? b).
    set (pa := fun x => if inc then a <=? x else a <? x).
    rewrite (scan_ext (fun _ x => if inc then b <? x else b <=? x) (fun _ x => negb (pb x))).
    2:{ intros k x. unfold pb. destruct inc; [destruct (Z.ltb_spec b x), (Z.leb_spec x b)|destruct (Z.leb_spec b x), (Z.ltb_spec x b)]; simpl; try reflexivity; lia. }
    cbn [fst snd]. rewrite scan_before.
    rewrite (takewhile_filter pb (S_of o) (S_sorted o)).
    2:{ intros x y Hlt. unfold pb. destruct inc; [rewrite !Z.leb_le|rewrite !Z.ltb_lt]; lia. }
    change (fun x => negb (if inc then a <=? x else a <? x)) with (fun x => negb (pa x)).
    rewrite (dropwhile_filter pa).
    2:{ apply filter_sorted. apply S_sorted. }
    2:{ intros x y Hlt. unfold pa. destruct inc; [rewrite !Z.leb_le|rewrite !Z.ltb_lt]; lia. }
    rewrite filter_filter. unfold spec_query, q_between, pa, pb.
    f_equal. f_equal. apply filter_ext. intro x. destruct inc; reflexivity.
Qed.


(* ------------------------------------------------------------------ histories *)
Definition op_ok (q : op) : Prop :=
  match q with AddRRule l | AddExRule l => nondec l | _ => True end.

Definition Rel (o : obj) (its : list iter_state) (m : members) (sits : list (option nat)) (n_stale : nat) : Prop :=
  obj_ok o /\ o_m o = m /\ length its = length sits /\ (n_stale <= length its)%nat /\
  forall k it, nth_error its k = Some it -> (n_stale <= k)%nat ->
    exists pos, nth_error sits k = Some (Some pos) /\ iter_ok o it pos.

Lemma nth_error_set_nth_eq : forall (A : Type) (l : list A) k v, (k < length l)%nat ->
  nth_error (set_nth l k v) k = Some v.
Proof. induction l as [|a l IH]; intros [|k] v Hk; simpl in *; try lia; auto. apply IH. lia. Qed.

Lemma nth_error_set_nth_neq : forall (A : Type) (l : list A) k k' v, k <> k' ->
  nth_error (set_nth l k v) k' = nth_error l k'.
Proof.
  induction l as [|a l IH]; intros [|k] [|k'] v Hne; simpl; auto; try congruence.
Qed.

Lemma mutate_ok : forall o q, obj_ok o -> op_ok q -> is_mutator q = true ->
  obj_ok (invalidate (add_member o q)) /\ o_m (invalidate (add_member o q)) = add_member_m (o_m o) q.
Proof.
  intros o q Hok Hq Hmut.
  assert (Hm : o_m (invalidate (add_member o q)) = add_member_m (o_m o) q).
  { unfold invalidate. destruct q; try discriminate; simpl; destruct (o_cached o); reflexivity. }
  split; [|exact Hm].
  assert (Hmem : mem_ok (add_member_m (o_m o) q)).
  { destruct Hok as [[Hrr Hexr] _].
    assert (Hsnoc : forall ls l, Forall nondec ls -> nondec l -> Forall nondec (ls ++ [l])).
    { intros ls l0 A B. apply Forall_app. split; [assumption|]. constructor; [assumption|constructor]. }
    destruct q; try discriminate; split; cbn [add_member_m m_rr m_exr]; try assumption; apply Hsnoc; assumption. }
  assert (Hca : o_cached (add_member o q) = o_cached o) by (destruct q; reflexivity).
  assert (Hco : o_complete (add_member o q) = o_complete o) by (destruct q; reflexivity).
  assert (Hce : o_cells (add_member o q) = o_cells o) by (destruct q; reflexivity).
  set (o1 := add_member o q) in *.
  assert (Hinv : invalidate o1 =
                 if o_cached o
                 then mkObj true (o_m o1) (o_cells o1 ++ [mkCell [] GStart]) false false None
                 else mkObj false (o_m o1) (o_cells o1) (o_gen_none o1) (o_complete o1) None).
  { unfold invalidate. rewrite Hca. reflexivity. }
  assert (Hm1 : o_m o1 = add_member_m (o_m o) q).
  { rewrite <- Hm. rewrite Hinv. destruct (o_cached o); reflexivity. }
  rewrite Hinv. destruct (o_cached o) eqn:Ec.
  - set (o' := mkObj true (o_m o1) (o_cells o1 ++ [mkCell [] GStart]) false false None).
    assert (Hcell : get_cell o' (cur o') = mkCell [] GStart).
    { unfold get_cell, cur, o'. cbn [o_cells]. rewrite app_length. simpl length.
      replace (Init.Nat.pred (length (o_cells o1) + 1)) with (length (o_cells o1) + 0)%nat by lia.
      rewrite app_nth2_plus. reflexivity. }
    unfold obj_ok. unfold cur_cache, cur_gen. rewrite Hcell. unfold S_of, slen, S_of.
    unfold o'. cbn [o_m o_len o_complete o_cached o_cells o_gen_none c_cache c_gen]. rewrite Hm1.
    split; [assumption|]. split; [left; reflexivity|]. split; [discriminate|].
    split; [intro E; apply (f_equal (@length _)) in E; rewrite app_length in E; simpl in E; lia|].
    split; [reflexivity|]. exists O.
    split; [reflexivity|]. split; [lia|]. apply gen_live_start. assumption.
  - unfold obj_ok. unfold S_of, slen, S_of.
    cbn [o_m o_len o_complete o_cached o_cells o_gen_none]. rewrite Hm1.
    split; [assumption|]. split; [left; reflexivity|].
    destruct Hok as [_ [_ [_ Hc]]]. rewrite Ec in Hc. rewrite Hco, Hc. split; [discriminate|reflexivity].
Qed.

Lemma new_obj_ok : forall cached, obj_ok (new_obj cached).
Proof.
  intro cached. unfold obj_ok, new_obj. cbn [o_m o_len o_complete o_cached o_cells o_gen_none].
  split; [split; constructor|]. split; [left; reflexivity|]. split; [discriminate|].
  destruct cached; [|reflexivity].
  split; [discriminate|]. split; [reflexivity|]. exists O.
  split; [reflexivity|]. split; [lia|]. apply gen_live_start. split; constructor.
Qed.

Lemma step_query : forall o its q, is_mutator q = false -> q <> NewIter -> (forall k, q <> Next k) ->
  step H (o, its) q = (let (ob, o') := query H o q in ((o', its), ob)).
Proof.
  intros o its q Hm Hn Hx. destruct q; try discriminate; try reflexivity.
  - contradiction.
  - exfalso. apply (Hx k). reflexivity.
Qed.

Lemma spec_ops_query : forall m sits q r, is_mutator q = false -> q <> NewIter -> (forall k, q <> Next k) ->
  spec_ops m sits (q :: r) = spec_query (spec_of m) q :: spec_ops m sits r.
Proof.
  intros m sits q r Hm Hn Hx. destruct q; try discriminate; try reflexivity.
  - contradiction.
  - exfalso. apply (Hx k). reflexivity.
Qed.

Lemma fresh_ops_query : forall a b q r, is_mutator q = false -> q <> NewIter -> (forall k, q <> Next k) ->
  fresh_ops a b (q :: r) = fresh_ops a b r.
Proof.
  intros a b q r Hm Hn Hx. destruct q; try discriminate; try reflexivity.
  - contradiction.
  - exfalso. apply (Hx k). reflexivity.
Qed.

Lemma run_ops_cons : forall s q r,
  run_ops H s (q :: r) = let (s', ob) := step H s q in ob :: run_ops H s' r.
Proof. reflexivity. Qed.

Theorem hist_main : forall ops o its m sits n_stale,
  Rel o its m sits n_stale -> Forall op_ok ops -> fresh_ops n_stale (length its) ops = true ->
  run_ops H (o, its) ops = spec_ops m sits ops.
Proof.
  induction ops as [|q r IH]; intros o its m sits n_stale HR Hops Hfresh; [reflexivity|].
  inversion Hops as [|? ? Hq Hr]; subst.
  destruct HR as [Hok [Hm [Hlen [Hst Hits]]]].
  destruct (is_mutator q) eqn:Emut.
  - (* mutator *)
    destruct (mutate_ok o q Hok Hq Emut) as [Hok' Hm'].
    assert (Hstep : step H (o, its) q = ((invalidate (add_member o q), its), ONone))
      by (unfold step; rewrite Emut; reflexivity).
    assert (Hspec : spec_ops m sits (q :: r) =
                    ONone :: spec_ops (add_member_m m q) (map (fun _ => None) sits) r)
      by (simpl; rewrite Emut; reflexivity).
    assert (Hf : fresh_ops (length its) (length its) r = true)
      by (simpl in Hfresh; rewrite Emut in Hfresh; exact Hfresh).
    rewrite run_ops_cons. rewrite Hstep, Hspec. f_equal.
    apply (IH _ _ _ _ (length its)); [|assumption|assumption].
    split; [assumption|]. split; [rewrite Hm', Hm; reflexivity|].
    split; [rewrite map_length; assumption|]. split; [lia|].
    intros k it Hk Hge. exfalso. assert (k < length its)%nat by (apply nth_error_Some; congruence). lia.
  - destruct (op_eq_dec_newiter q) as [->|Hnn].
    + (* iter() *)
      change (run_ops H (o, its) (NewIter :: r)) with (ONone :: run_ops H (o, its ++ [new_iter o]) r).
      simpl spec_ops. f_equal.
      simpl in Hfresh.
      apply (IH _ _ _ _ n_stale); [|assumption|rewrite app_length; simpl; rewrite Nat.add_1_r; assumption].
      split; [assumption|]. split; [assumption|].
      split; [rewrite !app_length; simpl; lia|]. split; [rewrite app_length; lia|].
      intros k it Hk Hge.
      destruct (Nat.lt_ge_cases k (length its)) as [Hlt|Hge'].
      * rewrite nth_error_app1 in Hk by assumption. rewrite nth_error_app1 by lia. apply Hits; assumption.
      * assert (k = length its).
        { assert (k < length (its ++ [new_iter o]))%nat by (apply nth_error_Some; congruence).
          rewrite app_length in *. simpl in *. lia. }
        subst k. rewrite nth_error_app2 in Hk by lia. rewrite Nat.sub_diag in Hk. simpl in Hk.
        injection Hk as <-. exists O. split.
        -- rewrite nth_error_app2 by lia. rewrite Hlen, Nat.sub_diag. reflexivity.
        -- apply new_iter_ok. assumption.
    + destruct (op_is_next q) as [[k ->]|Hnx].
      * (* next(it_k) *)
        simpl in Hfresh. apply andb_true_iff in Hfresh. destruct Hfresh as [Hk Hf].
        apply andb_true_iff in Hk. destruct Hk as [Hk1 Hk2].
        apply Nat.leb_le in Hk1. apply Nat.ltb_lt in Hk2.
        destruct (nth_error its k) as [it|] eqn:Eit; [|apply nth_error_None in Eit; lia].
        destruct (Hits k it Eit Hk1) as [pos [Hs Hit]].
        destruct (iter_next_spec o it pos Hok Hit) as [o' [it' [Hn [Hok' [Hext [Hit' _]]]]]].
        rewrite run_ops_cons. unfold step. cbn [is_mutator]. rewrite Eit, Hn. cbv iota beta.
        simpl spec_ops. rewrite Hs.
        unfold step_obs, next_pos in *. unfold S_of in *. rewrite Hm in *.
        assert (Hothers : forall k' it0, k' <> k -> nth_error its k' = Some it0 -> (n_stale <= k')%nat ->
                   exists pos0, nth_error sits k' = Some (Some pos0) /\ iter_ok o' it0 pos0).
        { intros k' it0 Hne Hk' Hge. destruct (Hits k' it0 Hk' Hge) as [pos0 [A B]].
          exists pos0. split; [assumption|]. eapply iter_ok_ext; eauto. }
        assert (Hm'' : o_m o' = m) by (destruct Hext as [E _]; congruence).
        destruct (nth_error (spec_of m) pos) as [z|] eqn:En; f_equal.
        -- apply (IH _ _ _ _ n_stale); [|assumption|rewrite set_nth_length; assumption].
           split; [assumption|]. split; [assumption|]. split; [rewrite !set_nth_length; assumption|].
           split; [rewrite set_nth_length; assumption|].
           intros k' it0 Hk' Hge. destruct (Nat.eq_dec k k') as [<-|Hne].
           ++ rewrite nth_error_set_nth_eq in Hk' by assumption. injection Hk' as <-.
              exists (S pos). split; [apply nth_error_set_nth_eq; lia|assumption].
           ++ rewrite nth_error_set_nth_neq in Hk' by assumption.
              rewrite nth_error_set_nth_neq by assumption. apply Hothers; auto.
        -- apply (IH _ _ _ _ n_stale); [|assumption|rewrite set_nth_length; assumption].
           split; [assumption|]. split; [assumption|]. split; [rewrite set_nth_length; assumption|].
           split; [rewrite set_nth_length; assumption|].
           intros k' it0 Hk' Hge. destruct (Nat.eq_dec k k') as [<-|Hne].
           ++ rewrite nth_error_set_nth_eq in Hk' by assumption. injection Hk' as <-.
              exists pos. split; assumption.
           ++ rewrite nth_error_set_nth_neq in Hk' by assumption. apply Hothers; auto.
      * (* a query *)
        destruct (query_spec o q Hok) as [o' [Hqr [Hok' Hext]]].
        rewrite run_ops_cons. rewrite (step_query o its q Emut Hnn Hnx), Hqr.
        rewrite (spec_ops_query m sits q r Emut Hnn Hnx).
        rewrite (fresh_ops_query _ _ q r Emut Hnn Hnx) in Hfresh.
        unfold S_of. rewrite Hm. f_equal.
        apply (IH _ _ _ _ n_stale); [|assumption|assumption].
        split; [assumption|]. split; [destruct Hext as [E _]; congruence|].
        split; [assumption|]. split; [assumption|].
        intros k it Hk Hge. destruct (Hits k it Hk Hge) as [pos [A B]].
        exists pos. split; [assumption|]. eapply iter_ok_ext; eauto.
Qed.

End Hist.

(* ------------------------------------------------------------------ the history theorem *)
Theorem rset_history : forall H is_heap, heap_contract H is_heap ->
  forall cached ops, Forall op_ok ops -> fresh_history ops = true ->
  run_history H cached ops = spec_history ops.
Proof.
  intros H is_heap HC cached ops Hops Hf. unfold run_history, spec_history.
  apply (hist_main H is_heap HC ops (new_obj cached) [] no_members [] 0); [|assumption|exact Hf].
  split; [apply new_obj_ok; assumption|]. split; [destruct cached; reflexivity|].
  split; [reflexivity|]. split; [simpl; lia|].
  intros k it Hk. destruct k; discriminate.
Qed.

(* in a history satisfying the guard the specification fixes every observation *)
Lemma spec_ops_specified : forall ops m sits n_stale,
  fresh_ops n_stale (length sits) ops = true ->
  (forall k, (n_stale <= k)%nat -> (k < length sits)%nat -> exists pos, nth_error sits k = Some (Some pos)) ->
  ~ In OUnspec (spec_ops m sits ops).
Proof.
  induction ops as [|q r IH]; intros m sits n_stale Hf Hs; [intros []|].
  destruct (is_mutator q) eqn:Emut.
  - simpl. rewrite Emut. simpl in Hf. rewrite Emut in Hf.
    intros [E|Hin]; [discriminate|]. revert Hin.
    apply (IH _ _ (length sits)); [rewrite map_length; assumption|].
    intros k Hk1 Hk2. rewrite map_length in Hk2. lia.
  - destruct q; try discriminate; simpl in *.
    + intros [E|Hin]; [discriminate|]. revert Hin.
      apply (IH _ _ n_stale); [rewrite app_length; simpl; rewrite Nat.add_1_r; assumption|].
      intros k Hk1 Hk2. rewrite app_length in Hk2. simpl in Hk2.
      destruct (Nat.lt_ge_cases k (length sits)) as [Hlt|Hge].
      * rewrite nth_error_app1 by assumption. apply Hs; assumption.
      * assert (k = length sits) by lia. subst k. exists O.
        rewrite nth_error_app2 by lia. rewrite Nat.sub_diag. reflexivity.
    + apply andb_true_iff in Hf. destruct Hf as [Hk Hf]. apply andb_true_iff in Hk. destruct Hk as [Hk1 Hk2].
      apply Nat.leb_le in Hk1. apply Nat.ltb_lt in Hk2.
      destruct (Hs k Hk1 Hk2) as [pos Hp]. rewrite Hp.
      destruct (nth_error (spec_of m) pos).
      * intros [E|Hin]; [discriminate|]. revert Hin.
        apply (IH _ _ n_stale); [rewrite set_nth_length; assumption|].
        intros k' Hk1' Hk2'. rewrite set_nth_length in Hk2'.
        destruct (Nat.eq_dec k k') as [<-|Hne].
        -- exists (S pos). apply nth_error_set_nth_eq. assumption.
        -- rewrite nth_error_set_nth_neq by assumption. apply Hs; assumption.
      * intros [E|Hin]; [discriminate|]. revert Hin. apply (IH _ _ n_stale); assumption.
    + intros [E|Hin]; [discriminate|]. revert Hin. apply (IH _ _ n_stale); assumption.
    + intros [E|Hin]; [discriminate|]. revert Hin. apply (IH _ _ n_stale); assumption.
    + intros [E|Hin]; [destruct (q_getitem (spec_of m) i); discriminate|]. revert Hin. apply (IH _ _ n_stale); assumption.
    + intros [E|Hin]; [discriminate|]. revert Hin. apply (IH _ _ n_stale); assumption.
    + intros [E|Hin]; [destruct (q_before (spec_of m) z inc); discriminate|]. revert Hin. apply (IH _ _ n_stale); assumption.
    + intros [E|Hin]; [destruct (q_after (spec_of m) z inc); discriminate|]. revert Hin. apply (IH _ _ n_stale); assumption.
    + intros [E|Hin]; [discriminate|]. revert Hin. apply (IH _ _ n_stale); assumption.
Qed.

Theorem fresh_history_specified : forall ops, fresh_history ops = true -> ~ In OUnspec (spec_history ops).
Proof.
  intros ops Hf. unfold spec_history. apply (spec_ops_specified ops no_members [] 0 Hf).
  intros k _ Hk. simpl in Hk. lia.
Qed.

(* ------------------------------------------------------------------ without the guard: refuted *)
(* FULL STATEMENT (false of the faithful model, hence of the code -- finding F-C10-stale):
     forall cached ops, Forall op_ok ops ->
       every observation of run_history that spec_history specifies equals it.
   Witnesses: an iterator obtained before a mutator and advanced after it. *)
Definition stale_ops_cached : list op :=
  [AddRRule [0; 1; 2; 3; 4; 5; 6; 7; 8; 9; 10; 11; 12; 13; 14]; NewIter; Next 0; AddRDate (-5)]
  ++ repeat (Next 0) 15 ++ [QList; QCount].

Definition stale_ops_uncached : list op :=
  [AddRRule [0; 1; 2]; NewIter; Next 0; AddRRule [10; 11; 12]; Next 0; Next 0; Next 0; QCount].

Theorem rset_history_unguarded_refuted :
  (Forall op_ok stale_ops_cached /\ fresh_history stale_ops_cached = false /\
   nth_error (spec_history stale_ops_cached) 19 =
     Some (OList [-5; 0; 1; 2; 3; 4; 5; 6; 7; 8; 9; 10; 11; 12; 13; 14]) /\
   nth_error (run_history heap_first true stale_ops_cached) 19 = Some (OList []) /\
   nth_error (spec_history stale_ops_cached) 20 = Some (OVal 16) /\
   nth_error (run_history heap_first true stale_ops_cached) 20 = Some (OVal 15)) /\
  (Forall op_ok stale_ops_uncached /\ fresh_history stale_ops_uncached = false /\
   nth_error (spec_history stale_ops_uncached) 7 = Some (OVal 6) /\
   nth_error (run_history heap_first false stale_ops_uncached) 7 = Some (OVal 3)).
Proof.
  split.
  - split; [repeat constructor; simpl; repeat split; try apply Forall_nil; repeat constructor; lia|].
    vm_compute. repeat split; reflexivity.
  - split; [repeat constructor; simpl; repeat split; try apply Forall_nil; repeat constructor; lia|].
    vm_compute. repeat split; reflexivity.
Qed.

(* non-vacuity of the guarded theorem: a history with a mutation after partial iteration,
   cache on, fresh iterators crossing the batch-of-10 boundary, queries with early exit *)
Definition example_ops : list op :=
  [AddRRule [0; 2; 4; 6; 8; 10; 12; 14; 16; 18; 20; 22; 24]; AddRDate 5; AddRDate 5; AddExDate 4;
   NewIter; Next 0; Next 0; QAfter 7 false; AddExRule [0; 10; 20]; QCount; NewIter; NewIter;
   Next 1; Next 2; Next 1; QGet (-1); QBetween 5 16 true; QContains 10; QBefore 5 false; QList;
   AddRRule [1; 2; 3]; QGet 11; NewIter; Next 3; QList].

Example example_history :
  Forall op_ok example_ops /\ fresh_history example_ops = true /\
  run_history heap_last true example_ops = spec_history example_ops /\
  nth_error (spec_history example_ops) 24 = Some (OList [1; 2; 3; 5; 6; 8; 12; 14; 16; 18; 22; 24]).
Proof.
  split.
  - unfold example_ops. repeat (constructor; [simpl; repeat split; try apply Forall_nil; repeat constructor; try lia|]).
    constructor.
  - vm_compute. repeat split; reflexivity.
Qed.
