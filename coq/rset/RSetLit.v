(* C10 -- literal twin of the generator model with OBJECT IDENTITY: every _genitem carries the
   serial number of its creation, `a is b` is equality of serial numbers, `self.dt = ...` updates
   the object wherever it sits in the heap list, and _genitem.__next__ has both of its branches
   (heappop when `self.genlist[0] is self`, otherwise list.remove -- which compares with __eq__,
   i.e. by dt -- followed by heapify).  RSetLitThm.v proves that, ids erased, this model computes
   exactly RSetModel.rset_iter, i.e. that the static resolution of the identity tests made in
   RSetModel.v is right (the remove+heapify branch is dead).  No proofs in this file. *)
From Coq Require Import ZArith List Bool.
From V Require Import rset.RSetModel.
Import ListNotations.
Open Scope Z_scope.

(* ((dt, rest), id) *)
Notation litem := ((Z * list Z) * nat)%type (only parsing).

Record heap_ops_l := mkHeapL {
  heapify_l : list litem -> list litem;
  heappop_rest_l : list litem -> list litem;
  heapreplace_l : list litem -> list litem
}.

Definition same (a b : litem) : bool := Nat.eqb (snd a) (snd b).      (* a is b *)
Definition dt_of (a : litem) : Z := fst (fst a).

(* list.remove(x): delete the first element that is == x (here: _genitem.__eq__, same dt) *)
Fixpoint py_remove (x : litem) (l : list litem) : list litem :=
  match l with
  | [] => []
  | y :: t => if dt_of y =? dt_of x then t else y :: py_remove x t
  end.

(* _genitem.__init__: the n-th _genitem created gets serial number n *)
Definition genitem_init_l (st : list litem * nat) (gen : list Z) : list litem * nat :=
  let (genlist, n) := st in
  match gen with
  | [] => (genlist, S n)
  | x :: r => (genlist ++ [((x, r), n)], S n)
  end.

Definition gen_list_l (n0 : nat) (dates : list Z) (rules : list (list Z)) : list litem * nat :=
  fold_left genitem_init_l rules (genitem_init_l ([], n0) (sortZ dates)).

Inductive outcome_l :=
| YieldedL (z : Z) (rl ex : list litem) (total : Z)
| FinishedL (total : Z)
| NoFuelL.

Section WithHeapL.
Variable HL : heap_ops_l.

(* advance_iterator(self) for an object self of the heap list genlist *)
Definition genitem_next_l (genlist : list litem) (self : litem) : list litem :=
  match snd (fst self) with
  | x :: rest' =>
      (* self.dt = advance_iterator(self.gen): in-place update of the object *)
      map (fun y => if same y self then ((x, rest'), snd y) else y) genlist
  | [] =>
      (* except StopIteration: *)
      match genlist with
      | h :: _ =>
          if same h self then heappop_rest_l HL genlist          (* heapq.heappop(self.genlist) *)
          else heapify_l HL (py_remove self genlist)             (* remove(self); heapify *)
      | [] => genlist
      end
  end.

(* xitem = lst[0]; advance_iterator(xitem); if lst and lst[0] is xitem: heapreplace(lst, xitem) *)
Definition advance_root_l (l : list litem) : list litem :=
  match l with
  | [] => []
  | xitem :: _ =>
      let l1 := genitem_next_l l xitem in
      match l1 with
      | h :: _ => if same h xitem then heapreplace_l HL l1 else l1
      | [] => l1
      end
  end.

Definition size_l (l : list litem) : nat := size (map fst l).

Fixpoint ex_advance_l (fuel : nat) (ex : list litem) (rdt : Z) : option (list litem) :=
  match fuel with
  | O => None
  | S f =>
      match ex with
      | [] => Some ex
      | e :: _ => if dt_of e <? rdt then ex_advance_l f (advance_root_l ex) rdt else Some ex
      end
  end.

Fixpoint run_l (fuel : nat) (rl ex : list litem) (lastdt : option Z) (total : Z) : outcome_l :=
  match fuel with
  | O => NoFuelL
  | S f =>
      match rl with
      | [] => FinishedL total
      | ritem :: _ =>
          let rdt := dt_of ritem in
          if (match lastdt with None => true | Some l => negb (l =? rdt) end) then
            match ex_advance_l (S (size_l ex)) ex rdt with
            | None => NoFuelL
            | Some ex' =>
                if (match ex' with [] => true | e :: _ => negb (rdt =? dt_of e) end)
                then YieldedL rdt rl ex' (total + 1)
                else run_l f (advance_root_l rl) ex' (Some rdt) total
            end
          else run_l f (advance_root_l rl) ex lastdt total
      end
  end.

(* list(self._iter()) and the published length, as one loop (no suspension needed here) *)
Fixpoint drain_l (n : nat) (rl ex : list litem) (lastdt : option Z) (total : Z)
  : option (list Z * option Z) :=
  match n with
  | O => None
  | S k =>
      match run_l (S (size_l rl)) rl ex lastdt total with
      | YieldedL z rl' ex' t =>
          match drain_l k (advance_root_l rl') ex' (Some z) t with
          | Some (l, p) => Some (z :: l, p)
          | None => None
          end
      | FinishedL t => Some ([], Some t)
      | NoFuelL => None
      end
  end.

Definition rset_iter_l (rr : list (list Z)) (rd : list Z) (exr : list (list Z)) (exd : list Z)
  : option (list Z * option Z) :=
  let (rl0, n1) := gen_list_l 0 rd rr in
  let (ex0, _) := gen_list_l n1 exd exr in
  drain_l (S (total_len rr rd)) (heapify_l HL rl0) (heapify_l HL ex0) None 0.

End WithHeapL.

Fixpoint min_front_l (prefer_last : bool) (l : list litem) : list litem :=
  match l with
  | [] => []
  | x :: t =>
      match min_front_l prefer_last t with
      | [] => [x]
      | m :: r =>
          if (if prefer_last then dt_of m <=? dt_of x else dt_of m <? dt_of x)
          then m :: x :: r else x :: m :: r
      end
  end.

Definition heap_sel_l (prefer_last : bool) : heap_ops_l :=
  mkHeapL (min_front_l prefer_last) (fun l => min_front_l prefer_last (tl l)) (min_front_l prefer_last).
