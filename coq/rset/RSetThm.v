(* C10 -- theorems about the model of rruleset._iter (RSetModel.v) against the specification
   (RSetSpec.v).  Everything is proved for an arbitrary heap discipline satisfying heap_contract,
   hence independently of how heapq breaks ties between items holding the same instant. *)
From Coq Require Import ZArith List Bool Lia Permutation.
From V Require Import rset.RSetModel rset.RSetSpec.
Import ListNotations.
Open Scope Z_scope.

(* ------------------------------------------------------------------ orders on lists *)
Definition lb (a : Z) (l : list Z) : Prop := Forall (fun y => a <= y) l.

(* non-decreasing *)
Fixpoint nondec (l : list Z) : Prop :=
  match l with
  | [] => True
  | x :: t => lb x t /\ nondec t
  end.

Lemma lb_in : forall a l x, lb a l -> In x l -> a <= x.
Proof. intros a l x Hl Hi. unfold lb in Hl. rewrite Forall_forall in Hl. auto. Qed.

Lemma lb_of_in : forall a l, (forall x, In x l -> a <= x) -> lb a l.
Proof. intros. unfold lb. rewrite Forall_forall. auto. Qed.

Lemma strict_sorted_cons : forall z l,
  strict_sorted l -> (forall x, In x l -> z < x) -> strict_sorted (z :: l).
Proof.
  intros z l Hs Hlt. destruct l as [|y l']; constructor.
  - apply Hlt. left. reflexivity.
  - exact Hs.
Qed.

Lemma strict_sorted_tail : forall z l, strict_sorted (z :: l) -> strict_sorted l.
Proof. intros z l Hs. inversion Hs; subst; try constructor; assumption. Qed.

Lemma strict_sorted_head_lt : forall z l x, strict_sorted (z :: l) -> In x l -> z < x.
Proof.
  intros z l. revert z. induction l as [|y l IH]; intros z x Hs Hi.
  - destruct Hi.
  - inversion Hs; subst. destruct Hi as [->|Hi]; [assumption|].
    assert (y < x) by (apply IH; assumption). lia.
Qed.

(* a strictly increasing enumeration of a predicate is unique *)
Definition is_enum (P : Z -> Prop) (l : list Z) : Prop :=
  strict_sorted l /\ forall x, In x l <-> P x.

Lemma is_enum_unique : forall P l1 l2, is_enum P l1 -> is_enum P l2 -> l1 = l2.
Proof.
  intros P l1. revert P. induction l1 as [|a l1 IH]; intros P l2 [S1 M1] [S2 M2].
  - destruct l2 as [|b l2]; [reflexivity|].
    exfalso. apply (M1 b). apply M2. left. reflexivity.
  - destruct l2 as [|b l2].
    + exfalso. apply (M2 a). apply M1. left. reflexivity.
    + assert (Hab : a = b).
      { assert (Ha : In a (b :: l2)) by (apply M2, M1; left; reflexivity).
        assert (Hb : In b (a :: l1)) by (apply M1, M2; left; reflexivity).
        destruct Ha as [Ha|Ha]; [auto|]. destruct Hb as [Hb|Hb]; [auto|].
        pose proof (strict_sorted_head_lt _ _ _ S2 Ha).
        pose proof (strict_sorted_head_lt _ _ _ S1 Hb). lia. }
      subst b. f_equal.
      apply (IH (fun x => In x l1) l2).
      * split; [eapply strict_sorted_tail; eauto|]. intro x. reflexivity.
      * split; [eapply strict_sorted_tail; eauto|]. intro x. split; intro Hx.
        -- assert (Hx' : In x (a :: l1)) by (apply M1, M2; right; assumption).
           destruct Hx' as [->|Hx']; [|assumption].
           pose proof (strict_sorted_head_lt _ _ _ S2 Hx). lia.
        -- assert (Hx' : In x (a :: l2)) by (apply M2, M1; right; assumption).
           destruct Hx' as [->|Hx']; [|assumption].
           pose proof (strict_sorted_head_lt _ _ _ S1 Hx). lia.
Qed.

Lemma is_enum_ext : forall P Q l, (forall x, P x <-> Q x) -> is_enum P l -> is_enum Q l.
Proof. intros P Q l HPQ [S M]. split; [assumption|]. intro x. rewrite M. apply HPQ. Qed.

(* ------------------------------------------------------------------ sortZ *)
Lemma insertZ_in : forall x l y, In y (insertZ x l) <-> y = x \/ In y l.
Proof.
  intros x l y. induction l as [|h t IH]; simpl.
  - intuition.
  - destruct (x <=? h); simpl; [intuition|]. rewrite IH. intuition.
Qed.

Lemma sortZ_in : forall l y, In y (sortZ l) <-> In y l.
Proof.
  induction l as [|h t IH]; intro y; simpl; [reflexivity|].
  rewrite insertZ_in, IH. intuition.
Qed.

Lemma insertZ_length : forall x l, length (insertZ x l) = S (length l).
Proof.
  intros x l. induction l as [|h t IH]; simpl; [reflexivity|].
  destruct (x <=? h); simpl; [reflexivity|]. rewrite IH. reflexivity.
Qed.

Lemma sortZ_length : forall l, length (sortZ l) = length l.
Proof. induction l as [|h t IH]; simpl; [reflexivity|]. rewrite insertZ_length, IH. reflexivity. Qed.

Lemma insertZ_nondec : forall x l, nondec l -> nondec (insertZ x l).
Proof.
  intros x l. induction l as [|h t IH]; intro Hn; simpl.
  - split; [constructor|exact I].
  - destruct Hn as [Hlb Hn]. destruct (x <=? h) eqn:E.
    + apply Z.leb_le in E. split.
      * constructor; [assumption|]. apply lb_of_in. intros y Hy. pose proof (lb_in _ _ _ Hlb Hy). lia.
      * split; assumption.
    + apply Z.leb_gt in E. split.
      * apply lb_of_in. intros y Hy. apply insertZ_in in Hy. destruct Hy as [->|Hy]; [lia|].
        eapply lb_in; eauto.
      * apply IH. assumption.
Qed.

Lemma sortZ_nondec : forall l, nondec (sortZ l).
Proof. induction l as [|h t IH]; simpl; [exact I|]. apply insertZ_nondec. assumption. Qed.

(* ------------------------------------------------------------------ the specification *)
Lemma memZ_in : forall x l, memZ x l = true <-> In x l.
Proof.
  intros x l. unfold memZ. rewrite existsb_exists. split.
  - intros [y [Hy E]]. apply Z.eqb_eq in E. subst. assumption.
  - intro Hi. exists x. split; [assumption|apply Z.eqb_refl].
Qed.

Lemma insert_uniq_in : forall x l y, In y (insert_uniq x l) <-> y = x \/ In y l.
Proof.
  intros x l y. induction l as [|h t IH]; simpl.
  - intuition.
  - destruct (x <? h); simpl; [intuition|].
    destruct (x =? h) eqn:E; simpl.
    + apply Z.eqb_eq in E. subst. intuition.
    + rewrite IH. intuition.
Qed.

Lemma insert_uniq_sorted : forall x l, strict_sorted l -> strict_sorted (insert_uniq x l).
Proof.
  intros x l. induction l as [|h t IH]; intro Hs; simpl.
  - constructor.
  - destruct (x <? h) eqn:E1.
    + apply Z.ltb_lt in E1. constructor; assumption.
    + apply Z.ltb_ge in E1. destruct (x =? h) eqn:E2; [assumption|].
      apply Z.eqb_neq in E2. apply strict_sorted_cons.
      * apply IH. eapply strict_sorted_tail; eauto.
      * intros y Hy. apply insert_uniq_in in Hy. destruct Hy as [->|Hy]; [lia|].
        eapply strict_sorted_head_lt; eauto.
Qed.

Lemma sort_set_in : forall l y, In y (sort_set l) <-> In y l.
Proof.
  induction l as [|h t IH]; intro y; simpl; [reflexivity|].
  rewrite insert_uniq_in, IH. intuition.
Qed.

Lemma sort_set_sorted : forall l, strict_sorted (sort_set l).
Proof. induction l as [|h t IH]; simpl; [constructor|]. apply insert_uniq_sorted. assumption. Qed.

Lemma filter_sorted : forall f l, strict_sorted l -> strict_sorted (filter f l).
Proof.
  intros f l. induction l as [|h t IH]; intro Hs; simpl; [constructor|].
  pose proof (strict_sorted_tail _ _ Hs) as Ht.
  destruct (f h); [|auto].
  apply strict_sorted_cons; [auto|].
  intros x Hx. apply filter_In in Hx. destruct Hx as [Hx _].
  eapply strict_sorted_head_lt; eauto.
Qed.

Definition in_set (rr : list (list Z)) (rd : list Z) (exr : list (list Z)) (exd : list Z) (x : Z) : Prop :=
  In x (inclusion rr rd) /\ ~ In x (inclusion exr exd).

Lemma spec_set_enum : forall rr rd exr exd, is_enum (in_set rr rd exr exd) (spec_set rr rd exr exd).
Proof.
  intros. unfold spec_set, in_set. split.
  - apply filter_sorted, sort_set_sorted.
  - intro x. rewrite filter_In, sort_set_in, negb_true_iff.
    split; intros [H1 H2]; split; try assumption.
    + intro Hi. apply memZ_in in Hi. congruence.
    + destruct (memZ x (inclusion exr exd)) eqn:E; [|reflexivity].
      apply memZ_in in E. contradiction.
Qed.

Lemma spec_set_is_recurrence_set : forall rr rd exr exd,
  is_recurrence_set rr rd exr exd (spec_set rr rd exr exd).
Proof. intros. exact (spec_set_enum rr rd exr exd). Qed.

(* ------------------------------------------------------------------ heaps *)
Definition item_ok (it : item) : Prop := nondec (item_list it).

Definition head_min (l : list item) : Prop :=
  match l with
  | [] => True
  | h :: t => Forall (fun y => fst h <= fst y) t
  end.

(* what heapq is assumed to provide: some invariant is_heap of the list representation that
   heapify establishes, heappop and heapreplace (of an arbitrarily modified root) preserve,
   and that puts a minimal item at index 0; the operations only permute the items. *)
Record heap_contract (H : heap_ops) (is_heap : list item -> Prop) : Prop := {
  hc_min : forall l, is_heap l -> head_min l;
  hc_heapify : forall l, is_heap (heapify H l) /\ Permutation l (heapify H l);
  hc_pop : forall h t, is_heap (h :: t) ->
             is_heap (heappop_rest H (h :: t)) /\ Permutation t (heappop_rest H (h :: t));
  hc_replace : forall h h' t, is_heap (h :: t) ->
             is_heap (heapreplace H (h' :: t)) /\ Permutation (h' :: t) (heapreplace H (h' :: t))
}.

Lemma contents_perm : forall l l', Permutation l l' -> Permutation (contents l) (contents l').
Proof. intros l l' Hp. unfold contents. apply Permutation_flat_map. assumption. Qed.

Lemma size_perm : forall l l', Permutation l l' -> size l = size l'.
Proof. intros. unfold size. apply Permutation_length, contents_perm. assumption. Qed.

Lemma items_ok_perm : forall l l', Permutation l l' -> Forall item_ok l -> Forall item_ok l'.
Proof. intros l l' Hp Hf. eapply Permutation_Forall; eauto. Qed.

Lemma item_ok_lb : forall it x, item_ok it -> In x (item_list it) -> fst it <= x.
Proof.
  intros [d r] x Hok Hi. unfold item_ok, item_list in *. simpl in *.
  destruct Hi as [<-|Hi]; [lia|]. destruct Hok as [Hlb _]. eapply lb_in; eauto.
Qed.

(* the root bounds everything the heap will still produce *)
Lemma head_lb : forall h t, Forall item_ok (h :: t) -> head_min (h :: t) -> lb (fst h) (contents (h :: t)).
Proof.
  intros h t Hok Hmin. apply lb_of_in. intros x Hx.
  unfold contents in Hx. apply in_flat_map in Hx. destruct Hx as [it [Hit Hx]].
  rewrite Forall_forall in Hok. pose proof (item_ok_lb it x (Hok it Hit) Hx) as Hle.
  destruct Hit as [<-|Hit]; [assumption|].
  simpl in Hmin. rewrite Forall_forall in Hmin. specialize (Hmin it Hit). lia.
Qed.

Ltac szlia := lia.

Section Contract.
Variable H : heap_ops.
Variable is_heap : list item -> Prop.
Hypothesis HC : heap_contract H is_heap.

Definition hp (l : list item) : Prop := is_heap l /\ Forall item_ok l.

Lemma hp_lb : forall h t, hp (h :: t) -> lb (fst h) (contents (h :: t)).
Proof. intros h t [Hh Hok]. apply head_lb; [assumption|]. apply (hc_min _ _ HC). assumption. Qed.

(* advancing the root removes exactly its instant *)
Lemma advance_root_spec : forall h t, hp (h :: t) ->
  hp (advance_root H (h :: t)) /\
  Permutation (fst h :: contents (advance_root H (h :: t))) (contents (h :: t)).
Proof.
  intros [d r] t [Hh Hok]. unfold advance_root, genitem_next.
  destruct r as [|x r'].
  - destruct (hc_pop _ _ HC _ _ Hh) as [Hh' Hp]. split.
    + split; [assumption|]. eapply items_ok_perm; eauto. inversion Hok; assumption.
    + simpl. constructor. apply Permutation_sym. apply contents_perm in Hp. exact Hp.
  - destruct (hc_replace _ _ HC (d, x :: r') (x, r') t Hh) as [Hh' Hp]. split.
    + split; [assumption|]. eapply items_ok_perm; eauto.
      inversion Hok as [|? ? Hi Ht]; subst. constructor; [|assumption].
      unfold item_ok, item_list in *. simpl in *. destruct Hi as [_ Hi]. exact Hi.
    + simpl. constructor. apply Permutation_sym. apply contents_perm in Hp. exact Hp.
Qed.

Lemma advance_root_size : forall h t, hp (h :: t) ->
  S (size (advance_root H (h :: t))) = size (h :: t).
Proof.
  intros h t Hhp. destruct (advance_root_spec h t Hhp) as [_ Hp].
  apply Permutation_length in Hp. exact Hp.
Qed.

Lemma advance_root_in : forall h t x, hp (h :: t) ->
  (In x (contents (h :: t)) <-> x = fst h \/ In x (contents (advance_root H (h :: t)))).
Proof.
  intros h t x Hhp. destruct (advance_root_spec h t Hhp) as [_ Hp]. split; intro Hx.
  - apply (Permutation_in _ (Permutation_sym Hp)) in Hx. destruct Hx as [<-|Hx]; auto.
  - apply (Permutation_in _ Hp). destruct Hx as [->|Hx]; [left; reflexivity|right; assumption].
Qed.

(* the exclusion cursor loop *)
Lemma ex_advance_spec : forall fuel ex rdt, (size ex < fuel)%nat -> hp ex ->
  exists ex', ex_advance H fuel ex rdt = Some ex' /\ hp ex' /\
              (forall x, rdt <= x -> (In x (contents ex) <-> In x (contents ex'))) /\
              (forall x, In x (contents ex') -> rdt <= x).
Proof.
  induction fuel as [|f IH]; intros ex rdt Hf Hhp; [lia|].
  simpl. destruct ex as [|[edt er] t].
  - exists []. split; [reflexivity|]. split; [assumption|]. split; [intros; reflexivity|].
    intros x Hx. destruct Hx.
  - destruct (edt <? rdt) eqn:E.
    + apply Z.ltb_lt in E.
      destruct (advance_root_spec _ _ Hhp) as [Hhp' _].
      pose proof (advance_root_size _ _ Hhp) as Hsz.
      assert (Hlt : (size (advance_root H ((edt, er) :: t)) < f)%nat). { rewrite <- Hsz in Hf. apply Nat.succ_lt_mono. exact Hf. }
      destruct (IH (advance_root H ((edt, er) :: t)) rdt Hlt Hhp') as [ex' [He [Hhp'' [Hm Hlb]]]].
      exists ex'. split; [exact He|]. split; [exact Hhp''|]. split; [|exact Hlb].
      intros x Hx. rewrite <- (Hm x Hx). rewrite (advance_root_in _ _ x Hhp). simpl. split.
      * intros [->|Hi]; [lia|assumption].
      * intro Hi. right. assumption.
    + apply Z.ltb_ge in E. exists ((edt, er) :: t). split; [reflexivity|]. split; [assumption|].
      split; [intros; reflexivity|]. intros x Hx. pose proof (lb_in _ _ _ (hp_lb _ _ Hhp) Hx). simpl in *. lia.
Qed.

(* after the cursor loop the `ritem != exlist[0]` test decides membership in the exclusions *)
Lemma ex_head_test : forall ex rdt, hp ex -> (forall x, In x (contents ex) -> rdt <= x) ->
  (match ex with [] => true | (edt, _) :: _ => negb (rdt =? edt) end) = negb (memZ rdt (contents ex)).
Proof.
  intros ex rdt Hhp Hlb. destruct ex as [|[edt er] t]; [reflexivity|].
  f_equal. destruct (rdt =? edt) eqn:E.
  - apply Z.eqb_eq in E. subst. symmetry. apply memZ_in. simpl. left. reflexivity.
  - apply Z.eqb_neq in E. symmetry. apply not_true_is_false. intro M.
    apply memZ_in in M. pose proof (lb_in _ _ _ (hp_lb _ _ Hhp) M) as H1. simpl in H1.
    assert (rdt <= edt) by (apply Hlb; simpl; left; reflexivity). lia.
Qed.

(* ------------------------------------------------------------------ the main loop *)
Definition remaining (rl ex : list item) (last : option Z) (x : Z) : Prop :=
  In x (contents rl) /\ ~ In x (contents ex) /\ last <> Some x.

Definition Inv (rl ex : list item) (last : option Z) : Prop :=
  hp rl /\ hp ex /\ forall l, last = Some l -> lb l (contents rl).

Definition run_post (rl ex : list item) (last : option Z) (tot : Z) (o : outcome) : Prop :=
  match o with
  | NoFuel => False
  | Finished t => t = tot /\ forall x, ~ remaining rl ex last x
  | Yielded z rl' ex' t =>
      t = tot + 1 /\ remaining rl ex last z /\ (forall x, remaining rl ex last x -> z <= x) /\
      (exists r tl, rl' = (z, r) :: tl) /\
      Inv (advance_root H rl') ex' (Some z) /\
      (forall x, remaining (advance_root H rl') ex' (Some z) x <-> (remaining rl ex last x /\ x <> z)) /\
      (size (advance_root H rl') < size rl)%nat
  end.

Lemma run_post_equiv : forall rl1 ex1 last1 rl2 ex2 last2 tot o,
  (forall x, remaining rl1 ex1 last1 x <-> remaining rl2 ex2 last2 x) ->
  (size rl1 <= size rl2)%nat ->
  run_post rl1 ex1 last1 tot o -> run_post rl2 ex2 last2 tot o.
Proof.
  intros rl1 ex1 last1 rl2 ex2 last2 tot o Heq Hsz Hp. destruct o as [z rl' ex' t|t|]; simpl in *.
  - destruct Hp as [Ht [Hz [Hmin [Hhd [Hinv [Hrem Hs]]]]]].
    split; [assumption|]. split; [apply Heq; assumption|].
    split; [intros x Hx; apply Hmin, Heq; assumption|].
    split; [assumption|]. split; [assumption|].
    split; [|lia]. intro x. rewrite Hrem, Heq. reflexivity.
  - destruct Hp as [Ht Hn]. split; [assumption|]. intros x Hx. apply (Hn x), Heq. assumption.
  - assumption.
Qed.

Lemma run_S : forall f rl ex lastdt total,
  run H (S f) rl ex lastdt total =
  match rl with
  | [] => Finished total
  | (rdt, _) :: _ =>
      if (match lastdt with None => true | Some l => negb (l =? rdt) end) then
        match ex_advance H (S (size ex)) ex rdt with
        | None => NoFuel
        | Some ex' =>
            if (match ex' with [] => true | (edt, _) :: _ => negb (rdt =? edt) end)
            then Yielded rdt rl ex' (total + 1)
            else run H f (advance_root H rl) ex' (Some rdt) total
        end
      else run H f (advance_root H rl) ex lastdt total
  end.
Proof. reflexivity. Qed.

Lemma run_spec : forall fuel rl ex last tot, (size rl < fuel)%nat -> Inv rl ex last ->
  run_post rl ex last tot (run H fuel rl ex last tot).
Proof.
  induction fuel as [|f IH]; intros rl ex last tot Hf HI; [lia|].
  destruct HI as [Hrl [Hex Hlast]].
  rewrite run_S. destruct rl as [|[rdt rr] tl].
  - simpl. split; [reflexivity|]. intros x [Hx _]. destruct Hx.
  - pose proof (hp_lb _ _ Hrl) as Hlb. simpl fst in Hlb.
    destruct (advance_root_spec _ _ Hrl) as [Hrl' _].
    pose proof (advance_root_size _ _ Hrl) as Hsz.
    pose proof (fun x => advance_root_in _ _ x Hrl) as Hin. simpl fst in Hin.
    remember ((rdt, rr) :: tl) as rl0 eqn:Erl0.
    assert (Hhead : In rdt (contents rl0)) by (subst rl0; simpl; left; reflexivity).
    destruct (match last with None => true | Some l => negb (l =? rdt) end) eqn:Etest.
    + (* a new instant: run the exclusion cursor *)
      assert (Hlast' : last <> Some rdt).
      { destruct last as [l|]; [|discriminate]. apply negb_true_iff, Z.eqb_neq in Etest. congruence. }
      assert (Hlastlt : forall l, last = Some l -> l < rdt).
      { intros l El. subst last. pose proof (lb_in _ _ _ (Hlast l eq_refl) Hhead).
        apply negb_true_iff, Z.eqb_neq in Etest. lia. }
      destruct (ex_advance_spec (S (size ex)) ex rdt (Nat.lt_succ_diag_r _) Hex) as [ex' [He [Hex' [Hm Hexlb]]]].
      rewrite He. rewrite (ex_head_test ex' rdt Hex' Hexlb).
      assert (Hrem_eq : forall x, rdt <= x -> (In x (contents ex) <-> In x (contents ex'))) by exact Hm.
      destruct (memZ rdt (contents ex')) eqn:M; simpl negb; cbv iota.
      * (* excluded *)
        apply memZ_in in M.
        assert (HI' : Inv (advance_root H rl0) ex' (Some rdt)).
        { split; [assumption|]. split; [assumption|]. intros l El. injection El as <-.
          apply lb_of_in. intros x Hx. apply (lb_in _ _ _ Hlb). apply Hin. right. assumption. }
        apply (run_post_equiv (advance_root H rl0) ex' (Some rdt)); [| szlia | apply IH; [szlia|exact HI']].
        intro x. unfold remaining. split.
        -- intros [H1 [H2 H3]]. assert (Hx : In x (contents rl0)) by (apply Hin; right; assumption).
           pose proof (lb_in _ _ _ Hlb Hx) as Hle.
           split; [assumption|]. split; [rewrite (Hrem_eq x Hle); assumption|].
           intro El. specialize (Hlastlt x El). lia.
        -- intros [H1 [H2 H3]]. pose proof (lb_in _ _ _ Hlb H1) as Hle.
           assert (x <> rdt).
           { intro; subst x. apply H2. apply (Hrem_eq rdt Hle). assumption. }
           split; [apply Hin in H1; destruct H1; [contradiction|assumption]|].
           split; [rewrite <- (Hrem_eq x Hle); assumption|congruence].
      * (* yielded *)
        assert (Hnot : ~ In rdt (contents ex')).
        { intro Hi. apply memZ_in in Hi. congruence. }
        simpl. split; [reflexivity|].
        assert (Hrdt : remaining rl0 ex last rdt).
        { split; [assumption|]. split; [rewrite (Hrem_eq rdt (Z.le_refl _)); assumption|assumption]. }
        split; [exact Hrdt|].
        split; [intros x [Hx _]; apply (lb_in _ _ _ Hlb Hx)|].
        split; [exists rr, tl; exact Erl0|].
        split.
        { split; [assumption|]. split; [assumption|]. intros l El. injection El as <-.
          apply lb_of_in. intros x Hx. apply (lb_in _ _ _ Hlb). apply Hin. right. assumption. }
        split; [|szlia].
        intro x. unfold remaining. split.
        -- intros [H1 [H2 H3]]. assert (Hx : In x (contents rl0)) by (apply Hin; right; assumption).
           pose proof (lb_in _ _ _ Hlb Hx) as Hle.
           split; [|congruence].
           split; [assumption|]. split; [rewrite (Hrem_eq x Hle); assumption|].
           intro El. specialize (Hlastlt x El). assert (x <> rdt) by congruence. lia.
        -- intros [[H1 [H2 H3]] Hne]. pose proof (lb_in _ _ _ Hlb H1) as Hle.
           split; [apply Hin in H1; destruct H1; [contradiction|assumption]|].
           split; [rewrite <- (Hrem_eq x Hle); assumption|congruence].
    + (* same instant as the last one: skipped *)
      destruct last as [l|]; [|discriminate].
      apply negb_false_iff, Z.eqb_eq in Etest. subst l.
      assert (HI' : Inv (advance_root H rl0) ex (Some rdt)).
      { split; [assumption|]. split; [assumption|]. intros l El. injection El as <-.
        apply lb_of_in. intros x Hx. apply (lb_in _ _ _ Hlb). apply Hin. right. assumption. }
      apply (run_post_equiv (advance_root H rl0) ex (Some rdt)); [| szlia | apply IH; [szlia|exact HI']].
      intro x. unfold remaining. split.
      * intros [H1 [H2 H3]]. split; [apply Hin; right; assumption|]. split; assumption.
      * intros [H1 [H2 H3]]. split; [|split; assumption].
        apply Hin in H1. destruct H1 as [->|H1]; [congruence|assumption].
Qed.


(* ------------------------------------------------------------------ the generator *)
Lemma enum_step : forall rl ex last z rl' ex' out',
  remaining rl ex last z -> (forall x, remaining rl ex last x -> z <= x) ->
  Inv (advance_root H rl') ex' (Some z) ->
  (forall x, remaining (advance_root H rl') ex' (Some z) x <-> (remaining rl ex last x /\ x <> z)) ->
  is_enum (remaining (advance_root H rl') ex' (Some z)) out' ->
  is_enum (remaining rl ex last) (z :: out').
Proof.
  intros rl ex last z rl' ex' out' Hz Hmin [_ [_ Hlb]] Hiff [Hs Hm]. split.
  - apply strict_sorted_cons; [assumption|]. intros x Hx. apply Hm in Hx.
    destruct Hx as [Hx1 [_ Hx3]]. pose proof (lb_in _ _ _ (Hlb z eq_refl) Hx1).
    assert (x <> z) by congruence. lia.
  - intro x. split.
    + intros [<-|Hx]; [assumption|]. apply Hm, Hiff in Hx. tauto.
    + intro Hx. destruct (Z.eq_dec x z) as [->|Hne]; [left; reflexivity|].
      right. apply Hm, Hiff. tauto.
Qed.

(* drain after one step whose outcome is o *)
Definition drain_o (n : nat) (rr : list (list Z)) (rd : list Z) (exr : list (list Z)) (exd : list Z)
           (o : outcome) : option (list Z * option Z) :=
  match of_outcome o with
  | (GY z, g') =>
      match drain H n rr rd exr exd g' with
      | Some (l, p) => Some (z :: l, p)
      | None => None
      end
  | (GStop p, _) => Some ([], p)
  | (GNoFuel, _) => None
  end.

Lemma drain_S : forall n rr rd exr exd g,
  drain H (S n) rr rd exr exd g =
  match gen_next H rr rd exr exd g with
  | (GY z, g') =>
      match drain H n rr rd exr exd g' with
      | Some (l, p) => Some (z :: l, p)
      | None => None
      end
  | (GStop p, _) => Some ([], p)
  | (GNoFuel, _) => None
  end.
Proof. reflexivity. Qed.

Lemma drain_o_spec : forall n rr rd exr exd rl ex last tot o,
  run_post rl ex last tot o -> (size rl <= n)%nat ->
  exists out, drain_o n rr rd exr exd o = Some (out, Some (tot + Z.of_nat (length out))) /\
              is_enum (remaining rl ex last) out.
Proof.
  induction n as [|k IH]; intros rr rd exr exd rl ex last tot o Hpost Hsz.
  - destruct o as [z rl' ex' t|t|]; simpl in Hpost.
    + destruct Hpost as [_ [_ [_ [_ [_ [_ Hlt]]]]]]. lia.
    + destruct Hpost as [-> Hnone]. exists []. split.
      * unfold drain_o. simpl. rewrite Z.add_0_r. reflexivity.
      * split; [constructor|]. intro x. split; [intros []|]. intro Hx. exact (Hnone x Hx).
    + contradiction.
  - destruct o as [z rl' ex' t|t|]; simpl in Hpost.
    + destruct Hpost as [-> [Hz [Hmin [[r [tl ->]] [HI [Hiff Hlt]]]]]].
      unfold drain_o. cbn [of_outcome]. rewrite drain_S. cbn [gen_next].
      pose proof (run_spec (S (size (advance_root H ((z, r) :: tl)))) (advance_root H ((z, r) :: tl)) ex'
                           (Some z) (tot + 1) (Nat.lt_succ_diag_r _) HI) as Hpost'.
      destruct (IH rr rd exr exd _ _ _ _ _ Hpost' ltac:(lia)) as [out' [Hd He]].
      fold (drain_o k rr rd exr exd
              (run H (S (size (advance_root H ((z, r) :: tl)))) (advance_root H ((z, r) :: tl)) ex' (Some z) (tot + 1))).
      rewrite Hd. exists (z :: out'). split.
      * f_equal. f_equal. f_equal. cbn [length]. lia.
      * eapply enum_step; eauto.
    + destruct Hpost as [-> Hnone]. exists []. split.
      * unfold drain_o. simpl. rewrite Z.add_0_r. reflexivity.
      * split; [constructor|]. intro x. split; [intros []|]. intro Hx. exact (Hnone x Hx).
    + contradiction.
Qed.

(* ------------------------------------------------------------------ the initial heaps *)
Lemma contents_app : forall a b, contents (a ++ b) = contents a ++ contents b.
Proof. intros. unfold contents. apply flat_map_app. Qed.

Lemma contents_fold : forall rules acc,
  contents (fold_left genitem_init rules acc) = contents acc ++ concat rules.
Proof.
  induction rules as [|g rules IH]; intro acc; simpl.
  - rewrite app_nil_r. reflexivity.
  - rewrite IH. destruct g as [|x r]; simpl; [reflexivity|].
    rewrite contents_app. simpl. rewrite app_nil_r, <- app_assoc. reflexivity.
Qed.

Lemma contents_gen_list : forall dates rules,
  contents (gen_list dates rules) = sortZ dates ++ concat rules.
Proof.
  intros. unfold gen_list. rewrite contents_fold. f_equal.
  destruct (sortZ dates) as [|x r]; simpl; [reflexivity|]. rewrite app_nil_r. reflexivity.
Qed.

Lemma items_ok_fold : forall rules acc, Forall item_ok acc -> Forall nondec rules ->
  Forall item_ok (fold_left genitem_init rules acc).
Proof.
  induction rules as [|g rules IH]; intros acc Ha Hr; simpl; [assumption|].
  inversion Hr as [|? ? Hg Hrs]; subst. apply IH; [|assumption].
  destruct g as [|x r]; simpl; [assumption|].
  apply Forall_app. split; [assumption|]. constructor; [|constructor]. exact Hg.
Qed.

Lemma items_ok_gen_list : forall dates rules, Forall nondec rules -> Forall item_ok (gen_list dates rules).
Proof.
  intros dates rules Hr. unfold gen_list. apply items_ok_fold; [|assumption].
  pose proof (sortZ_nondec dates) as Hs. destruct (sortZ dates) as [|x r]; simpl; [constructor|].
  constructor; [exact Hs|constructor].
Qed.

Lemma size_gen_list : forall dates rules, size (gen_list dates rules) = total_len rules dates.
Proof.
  intros. unfold size, total_len. rewrite contents_gen_list, app_length, sortZ_length. lia.
Qed.

Lemma in_gen_list : forall dates rules x,
  In x (contents (gen_list dates rules)) <-> In x (inclusion rules dates).
Proof.
  intros. rewrite contents_gen_list. unfold inclusion. rewrite !in_app_iff, sortZ_in. tauto.
Qed.

(* ------------------------------------------------------------------ main theorem *)
Theorem rset_iter_enum : forall rr rd exr exd, Forall nondec rr -> Forall nondec exr ->
  exists out, rset_iter H rr rd exr exd = Some (out, Some (Z.of_nat (length out))) /\
              is_enum (in_set rr rd exr exd) out.
Proof.
  intros rr rd exr exd Hrr Hexr. unfold rset_iter. rewrite drain_S. cbn [gen_next].
  set (rl0 := heapify H (gen_list rd rr)). set (ex0 := heapify H (gen_list exd exr)).
  destruct (hc_heapify _ _ HC (gen_list rd rr)) as [Hh1 Hp1].
  destruct (hc_heapify _ _ HC (gen_list exd exr)) as [Hh2 Hp2].
  assert (HI : Inv rl0 ex0 None).
  { split; [split; [exact Hh1|]|split; [split; [exact Hh2|]|]].
    - eapply items_ok_perm; [exact Hp1|]. apply items_ok_gen_list. assumption.
    - eapply items_ok_perm; [exact Hp2|]. apply items_ok_gen_list. assumption.
    - intros l El. discriminate. }
  assert (Hsz : size rl0 = total_len rr rd).
  { unfold rl0. rewrite <- (size_perm _ _ Hp1). apply size_gen_list. }
  pose proof (run_spec (S (size rl0)) rl0 ex0 None 0 (Nat.lt_succ_diag_r _) HI) as Hpost.
  destruct (drain_o_spec (total_len rr rd) rr rd exr exd _ _ _ _ _ Hpost ltac:(lia)) as [out [Hd He]].
  fold (drain_o (total_len rr rd) rr rd exr exd (run H (S (size rl0)) rl0 ex0 None 0)).
  rewrite Hd. exists out. split; [reflexivity|].
  eapply is_enum_ext; [|exact He].
  intro x. unfold remaining, in_set.
  assert (E1 : In x (contents rl0) <-> In x (inclusion rr rd)).
  { rewrite <- in_gen_list. split; apply Permutation_in; [apply Permutation_sym|]; apply contents_perm; exact Hp1. }
  assert (E2 : In x (contents ex0) <-> In x (inclusion exr exd)).
  { rewrite <- in_gen_list. split; apply Permutation_in; [apply Permutation_sym|]; apply contents_perm; exact Hp2. }
  rewrite E1, E2. split; [tauto|]. intros [A B]. split; [assumption|]. split; [assumption|discriminate].
Qed.

Theorem rset_iter_correct_lemma : forall rr rd exr exd, Forall nondec rr -> Forall nondec exr ->
  rset_iter H rr rd exr exd =
  Some (spec_set rr rd exr exd, Some (Z.of_nat (length (spec_set rr rd exr exd)))).
Proof.
  intros rr rd exr exd Hrr Hexr.
  destruct (rset_iter_enum rr rd exr exd Hrr Hexr) as [out [Hd He]].
  rewrite Hd. rewrite (is_enum_unique _ _ _ He (spec_set_enum rr rd exr exd)). reflexivity.
Qed.

End Contract.

(* ------------------------------------------------------------------ consequences *)
Theorem rset_iter_correct : forall H is_heap, heap_contract H is_heap ->
  forall rr rd exr exd, Forall nondec rr -> Forall nondec exr ->
  rset_iter H rr rd exr exd =
  Some (spec_set rr rd exr exd, Some (Z.of_nat (length (spec_set rr rd exr exd)))).
Proof. intros H is_heap HC. exact (rset_iter_correct_lemma H is_heap HC). Qed.

(* output strictly increasing, each instant once, exactly the set of the property;
   the generator stops (the fuel S (total_len) given to drain is enough) and publishes the length *)
Theorem rset_strict_increasing : forall H is_heap, heap_contract H is_heap ->
  forall rr rd exr exd, Forall nondec rr -> Forall nondec exr ->
  exists out, rset_iter H rr rd exr exd = Some (out, Some (Z.of_nat (length out))) /\
              is_recurrence_set rr rd exr exd out.
Proof.
  intros H is_heap HC rr rd exr exd Hrr Hexr.
  destruct (rset_iter_enum H is_heap HC rr rd exr exd Hrr Hexr) as [out [Hd He]].
  exists out. split; [assumption|exact He].
Qed.

(* independence of heap tie-breaking *)
Theorem rset_tiebreak_independent : forall H1 P1 H2 P2, heap_contract H1 P1 -> heap_contract H2 P2 ->
  forall rr rd exr exd, Forall nondec rr -> Forall nondec exr ->
  rset_iter H1 rr rd exr exd = rset_iter H2 rr rd exr exd.
Proof.
  intros. rewrite (rset_iter_correct H1 P1), (rset_iter_correct H2 P2); auto.
Qed.

(* strictly increasing members (what an rrule produces) are in particular non-decreasing *)
Lemma strict_nondec : forall l, strict_sorted l -> nondec l.
Proof.
  induction l as [|x t IH]; intro Hs; [exact I|]. split.
  - apply lb_of_in. intros y Hy. pose proof (strict_sorted_head_lt _ _ _ Hs Hy). lia.
  - apply IH. eapply strict_sorted_tail; eauto.
Qed.

Lemma Forall_strict_nondec : forall ls, Forall strict_sorted ls -> Forall nondec ls.
Proof. intros ls Hs. eapply Forall_impl; [|exact Hs]. exact strict_nondec. Qed.

(* ------------------------------------------------------------------ the executable heaps *)
Lemma min_front_perm : forall b l, Permutation l (min_front b l).
Proof.
  intros b l. induction l as [|x t IH]; simpl; [constructor|].
  destruct (min_front b t) as [|m r] eqn:E.
  - apply Permutation_sym, Permutation_nil in IH. subst. constructor. constructor.
  - destruct (if b then fst m <=? fst x else fst m <? fst x).
    + eapply perm_trans; [apply perm_skip; exact IH|]. apply perm_swap.
    + apply perm_skip. exact IH.
Qed.

Lemma min_front_min : forall b l, head_min (min_front b l).
Proof.
  intros b l. induction l as [|x t IH]; simpl; [exact I|].
  destruct (min_front b t) as [|m r] eqn:E; simpl; [constructor|].
  simpl in IH.
  destruct (if b then fst m <=? fst x else fst m <? fst x) eqn:C; simpl.
  - assert (fst m <= fst x) by (destruct b; [apply Z.leb_le in C|apply Z.ltb_lt in C]; lia).
    constructor; [assumption|exact IH].
  - assert (fst x <= fst m) by (destruct b; [apply Z.leb_gt in C|apply Z.ltb_ge in C]; lia).
    constructor; [assumption|]. eapply Forall_impl; [|exact IH]. intros a Ha. simpl in Ha. lia.
Qed.

Theorem heap_sel_contract : forall b, heap_contract (heap_sel b) head_min.
Proof.
  intro b. constructor; unfold heap_sel; cbn [heapify heappop_rest heapreplace tl].
  - auto.
  - intro l. split; [apply min_front_min|apply min_front_perm].
  - intros h t _. split; [apply min_front_min|apply min_front_perm].
  - intros h h' t _. split; [apply min_front_min|apply min_front_perm].
Qed.

Theorem rset_iter_first_correct : forall rr rd exr exd, Forall nondec rr -> Forall nondec exr ->
  rset_iter heap_first rr rd exr exd =
  Some (spec_set rr rd exr exd, Some (Z.of_nat (length (spec_set rr rd exr exd)))).
Proof. exact (rset_iter_correct heap_first head_min (heap_sel_contract false)). Qed.

(* non-vacuity: a concrete set with coinciding occurrences, duplicates and exclusions *)
Example rset_example :
  rset_iter heap_last [[1; 3; 5]; [3; 4; 4]] [9; 2; 2] [[4]; [0; 9]] [5]
  = Some ([1; 2; 3], Some 3).
Proof. vm_compute. reflexivity. Qed.

Example rset_example_hyp : Forall nondec [[1; 3; 5]; [3; 4; 4]] /\ Forall nondec [[4]; [0; 9]].
Proof. repeat constructor; lia. Qed.

(* ------------------------------------------------------------------ prefix theorem *)
(* The instants up to a bound b that the set yields depend only on the members' instants up to
   b: cutting every member at b cuts the output at b.  (For the infinite members of the real
   library this is the finite window through which the first outputs are determined.) *)
Definition cut (b : Z) (l : list Z) : list Z := filter (fun x => x <=? b) l.

Lemma cut_in : forall b l x, In x (cut b l) <-> In x l /\ x <= b.
Proof. intros. unfold cut. rewrite filter_In, Z.leb_le. reflexivity. Qed.

Lemma cut_nondec : forall b l, nondec l -> nondec (cut b l).
Proof.
  intros b l. induction l as [|x t IH]; intro Hn; simpl; [exact I|].
  destruct Hn as [Hlb Hn]. destruct (x <=? b); [|auto]. split; [|auto].
  apply lb_of_in. intros y Hy. apply cut_in in Hy. eapply lb_in; [exact Hlb|tauto].
Qed.

Lemma inclusion_cut_in : forall b rr rd x,
  In x (inclusion (map (cut b) rr) (cut b rd)) <-> In x (inclusion rr rd) /\ x <= b.
Proof.
  intros b rr rd x. unfold inclusion. rewrite !in_app_iff, cut_in, !in_concat. split.
  - intros [[l [Hl Hx]]|[Hx Hb]].
    + apply in_map_iff in Hl. destruct Hl as [l0 [<- Hl0]]. apply cut_in in Hx.
      split; [left; exists l0; tauto|tauto].
    + tauto.
  - intros [[[l [Hl Hx]]|Hx] Hb].
    + left. exists (cut b l). split; [apply in_map; assumption|apply cut_in; tauto].
    + tauto.
Qed.

Lemma spec_set_cut : forall b rr rd exr exd,
  cut b (spec_set rr rd exr exd) = spec_set (map (cut b) rr) (cut b rd) (map (cut b) exr) (cut b exd).
Proof.
  intros. apply (is_enum_unique (fun x => in_set rr rd exr exd x /\ x <= b)).
  - destruct (spec_set_enum rr rd exr exd) as [Hs Hm]. split.
    + apply filter_sorted. assumption.
    + intro x. rewrite cut_in, Hm. reflexivity.
  - eapply is_enum_ext; [|apply spec_set_enum]. intro x. unfold in_set.
    rewrite !inclusion_cut_in. tauto.
Qed.

Theorem rset_prefix : forall H is_heap, heap_contract H is_heap ->
  forall b rr rd exr exd, Forall nondec rr -> Forall nondec exr ->
  exists out p out' p',
    rset_iter H rr rd exr exd = Some (out, p) /\
    rset_iter H (map (cut b) rr) (cut b rd) (map (cut b) exr) (cut b exd) = Some (out', p') /\
    cut b out = out'.
Proof.
  intros H is_heap HC b rr rd exr exd Hrr Hexr.
  assert (Hc : forall ls, Forall nondec ls -> Forall nondec (map (cut b) ls)).
  { intros ls Hls. apply Forall_forall. intros l Hl. apply in_map_iff in Hl.
    destruct Hl as [l0 [<- Hl0]]. apply cut_nondec. rewrite Forall_forall in Hls. auto. }
  do 4 eexists. split; [apply (rset_iter_correct H is_heap HC); assumption|].
  split; [apply (rset_iter_correct H is_heap HC); auto|]. apply spec_set_cut.
Qed.

(* two families of members that agree up to b yield the same instants up to b *)
Theorem rset_prefix_agree : forall H is_heap, heap_contract H is_heap ->
  forall b rr rd exr exd rr' rd' exr' exd',
  Forall nondec rr -> Forall nondec exr -> Forall nondec rr' -> Forall nondec exr' ->
  map (cut b) rr = map (cut b) rr' -> cut b rd = cut b rd' ->
  map (cut b) exr = map (cut b) exr' -> cut b exd = cut b exd' ->
  exists out p out' p',
    rset_iter H rr rd exr exd = Some (out, p) /\ rset_iter H rr' rd' exr' exd' = Some (out', p') /\
    cut b out = cut b out'.
Proof.
  intros H is_heap HC b rr rd exr exd rr' rd' exr' exd' H1 H2 H3 H4 E1 E2 E3 E4.
  do 4 eexists. split; [apply (rset_iter_correct H is_heap HC); assumption|].
  split; [apply (rset_iter_correct H is_heap HC); assumption|].
  rewrite !spec_set_cut, E1, E2, E3, E4. reflexivity.
Qed.

Example prefix_example :
  cut 6 [1; 2; 3; 9; 12] = [1; 2; 3] /\
  map (cut 6) [[1; 5; 9; 13]; [2; 4; 6; 8]] = map (cut 6) [[1; 5; 7]; [2; 4; 6; 100; 200]].
Proof. vm_compute. split; reflexivity. Qed.

(* ------------------------------------------------------------------ naive / aware *)
(* a set whose instants are all of one kind (as far as the comparisons made by sort, heapq and
   the exclusion cursor can tell: tag_error = false) behaves like the untagged set; the TypeError
   side (tag_error = true) is only compared with the implementation, not derived *)
Theorem rset_iter_tagged_ok : forall H is_heap, heap_contract H is_heap ->
  forall rr rd exr exd, tag_error rr rd exr exd = false ->
  Forall nondec (map snd rr) -> Forall nondec (map snd exr) ->
  rset_iter_tagged H rr rd exr exd =
  TOk (spec_set (map snd rr) (map snd rd) (map snd exr) (map snd exd))
      (Some (Z.of_nat (length (spec_set (map snd rr) (map snd rd) (map snd exr) (map snd exd))))).
Proof.
  intros H is_heap HC rr rd exr exd Ht Hrr Hexr. unfold rset_iter_tagged. rewrite Ht.
  rewrite (rset_iter_correct H is_heap HC) by assumption. reflexivity.
Qed.

Example tagged_example :
  tag_error [(1, [0; 5])] [(1, 3)] [] [(1, 5)] = false /\
  tag_error [(1, [0; 5])] [(1, 3)] [] [(0, 5)] = true /\
  tag_error [(1, [0; 5]); (0, [])] [] [(0, [])] [] = false.
Proof. vm_compute. repeat split; reflexivity. Qed.

Lemma filter_none_Z : forall (p : Z -> bool) l, (forall y, In y l -> p y = false) -> filter p l = [].
Proof.
  intros p l. induction l as [|x t IH]; intro Hf; simpl; [reflexivity|].
  rewrite (Hf x (or_introl eq_refl)). apply IH. intros y Hy. apply Hf. right. assumption.
Qed.

(* the literal form: the first k+1 outputs are what the set cut at the (k+1)-th output yields *)
Lemma cut_firstn : forall out k b, strict_sorted out -> nth_error out k = Some b ->
  cut b out = firstn (S k) out.
Proof.
  induction out as [|a t IH]; intros k b Hs Hn; [destruct k; discriminate|].
  destruct k as [|k]; simpl in Hn.
  - injection Hn as ->. unfold cut. simpl. rewrite Z.leb_refl. f_equal.
    apply filter_none_Z. intros y Hy. pose proof (strict_sorted_head_lt _ _ _ Hs Hy).
    apply Z.leb_gt. lia.
  - assert (Hb : In b t) by (eapply nth_error_In; eauto).
    pose proof (strict_sorted_head_lt _ _ _ Hs Hb) as Hlt.
    unfold cut. simpl filter. destruct (Z.leb_spec a b); [|lia].
    change (firstn (S (S k)) (a :: t)) with (a :: firstn (S k) t). f_equal.
    apply IH; [eapply strict_sorted_tail; eauto|assumption].
Qed.

Theorem rset_first_n : forall H is_heap, heap_contract H is_heap ->
  forall rr rd exr exd out p k b, Forall nondec rr -> Forall nondec exr ->
  rset_iter H rr rd exr exd = Some (out, p) -> nth_error out k = Some b ->
  exists p', rset_iter H (map (cut b) rr) (cut b rd) (map (cut b) exr) (cut b exd) = Some (firstn (S k) out, p').
Proof.
  intros H is_heap HC rr rd exr exd out p k b Hrr Hexr Hr Hn.
  destruct (rset_prefix H is_heap HC b rr rd exr exd Hrr Hexr) as [out1 [p1 [out2 [p2 [E1 [E2 E3]]]]]].
  rewrite Hr in E1. injection E1 as <- <-.
  exists p2. rewrite E2. f_equal. f_equal. rewrite <- E3. apply cut_firstn; [|assumption].
  destruct (rset_strict_increasing H is_heap HC rr rd exr exd Hrr Hexr) as [o [Ho [Hs _]]].
  rewrite Hr in Ho. injection Ho as <- _. exact Hs.
Qed.
