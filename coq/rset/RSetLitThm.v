(* C10 -- the literal model with object identity (RSetLit.v) computes, ids erased, exactly the
   abstract generator model (RSetModel.v): the `is` tests are resolved as RSetModel.v claims and
   the remove+heapify branch of _genitem.__next__ is never taken. *)
From Coq Require Import ZArith List Bool Lia Permutation.
From V Require Import rset.RSetModel rset.RSetLit rset.RSetThm.
Import ListNotations.
Open Scope Z_scope.

Definition ids (l : list litem) : list nat := map snd l.
Definition uniq (l : list litem) : Prop := NoDup (ids l).

(* a heap discipline on identified items that acts on the (dt, rest) parts like H and only
   permutes the objects *)
Record lit_rel (HL : heap_ops_l) (H : heap_ops) : Prop := {
  lr_heapify : forall l, map fst (heapify_l HL l) = heapify H (map fst l) /\ Permutation l (heapify_l HL l);
  lr_pop : forall l, map fst (heappop_rest_l HL l) = heappop_rest H (map fst l) /\
                     Permutation (tl l) (heappop_rest_l HL l);
  lr_replace : forall l, map fst (heapreplace_l HL l) = heapreplace H (map fst l) /\
                         Permutation l (heapreplace_l HL l)
}.

Lemma NoDup_app_snoc : forall (l : list nat) a, NoDup l -> ~ In a l -> NoDup (l ++ [a]).
Proof.
  induction l as [|b l IH]; intros a Hn Hi; simpl.
  - constructor; [intros []|constructor].
  - inversion Hn; subst. constructor.
    + rewrite in_app_iff. simpl. intros [Hb|[Hb|[]]]; [contradiction|]. apply Hi. left. symmetry. assumption.
    + apply IH; [assumption|]. intro Ha. apply Hi. right. assumption.
Qed.

Lemma uniq_perm : forall l l', Permutation l l' -> uniq l -> uniq l'.
Proof.
  intros l l' Hp Hu. unfold uniq, ids in *. eapply Permutation_NoDup; [|exact Hu].
  apply Permutation_map. assumption.
Qed.

(* the abstract generator as one loop *)
Fixpoint drain_d (H : heap_ops) (n : nat) (rl ex : list item) (lastdt : option Z) (total : Z)
  : option (list Z * option Z) :=
  match n with
  | O => None
  | S k =>
      match run H (S (size rl)) rl ex lastdt total with
      | Yielded z rl' ex' t =>
          match drain_d H k (advance_root H rl') ex' (Some z) t with
          | Some (l, p) => Some (z :: l, p)
          | None => None
          end
      | Finished t => Some ([], Some t)
      | NoFuel => None
      end
  end.

Section Sim.
Variable HL : heap_ops_l.
Variable H : heap_ops.
Hypothesis HR : lit_rel HL H.

Lemma run_yield_head : forall fuel rl ex last tot z rl' ex' t,
  run H fuel rl ex last tot = Yielded z rl' ex' t -> exists r tl, rl' = (z, r) :: tl.
Proof.
  induction fuel as [|f IH]; intros rl ex last tot z rl' ex' t Hr; [discriminate|].
  rewrite run_S in Hr. destruct rl as [|[rdt r] tl]; [discriminate|].
  destruct (match last with None => true | Some l => negb (l =? rdt) end).
  - destruct (ex_advance H (S (size ex)) ex rdt) as [ex1|]; [|discriminate].
    match type of Hr with (if ?c then _ else _) = _ => destruct c end.
    + injection Hr as <- <- <- <-. eauto.
    + eapply IH; eauto.
  - eapply IH; eauto.
Qed.

Lemma drain_direct_yield : forall n rr rd exr exd z r tl ex tot,
  drain H n rr rd exr exd (GYield ((z, r) :: tl) ex tot) =
  drain_d H n (advance_root H ((z, r) :: tl)) ex (Some z) tot.
Proof.
  induction n as [|k IH]; intros; [reflexivity|].
  cbn [drain drain_d gen_next].
  destruct (run H (S (size (advance_root H ((z, r) :: tl)))) (advance_root H ((z, r) :: tl)) ex (Some z) tot)
    as [z' rl' ex' t|t|] eqn:Er; cbn [of_outcome]; try reflexivity.
  destruct (run_yield_head _ _ _ _ _ _ _ _ _ Er) as [r' [tl' ->]].
  rewrite IH. reflexivity.
Qed.

Lemma drain_direct_start : forall n rr rd exr exd,
  drain H (S n) rr rd exr exd GStart =
  drain_d H (S n) (heapify H (gen_list rd rr)) (heapify H (gen_list exd exr)) None 0.
Proof.
  intros. cbn [drain drain_d gen_next].
  destruct (run H (S (size (heapify H (gen_list rd rr)))) (heapify H (gen_list rd rr))
                (heapify H (gen_list exd exr)) None 0) as [z' rl' ex' t|t|] eqn:Er; cbn [of_outcome]; try reflexivity.
  destruct (run_yield_head _ _ _ _ _ _ _ _ _ Er) as [r' [tl' ->]].
  rewrite drain_direct_yield. reflexivity.
Qed.

(* ------------------------------------------------------------------ one advance *)
Lemma map_upd_other : forall (t : list litem) (self : litem) (f : litem -> litem),
  ~ In (snd self) (ids t) -> map (fun y => if same y self then f y else y) t = t.
Proof.
  induction t as [|y t IH]; intros self f Hn; simpl; [reflexivity|].
  simpl in Hn. unfold same at 1. destruct (Nat.eqb_spec (snd y) (snd self)) as [E|E].
  - exfalso. apply Hn. left. assumption.
  - f_equal. apply IH. intro Hi. apply Hn. right. assumption.
Qed.

Lemma advance_root_nil_rest : forall d tl,
  advance_root H ((d, []) :: tl) = heappop_rest H ((d, []) :: tl).
Proof. reflexivity. Qed.

Lemma advance_root_cons_rest : forall d x r tl,
  advance_root H ((d, x :: r) :: tl) = heapreplace H ((x, r) :: tl).
Proof. reflexivity. Qed.

Lemma same_refl : forall a, same a a = true.
Proof. intro a. unfold same. apply Nat.eqb_refl. Qed.

Lemma advance_root_sim : forall ll, uniq ll ->
  map fst (advance_root_l HL ll) = advance_root H (map fst ll) /\ uniq (advance_root_l HL ll).
Proof.
  intros ll Hu. destruct ll as [|[[d rest] id] t]; [split; [reflexivity|assumption]|].
  unfold uniq, ids in Hu. simpl in Hu. inversion Hu as [|? ? Hnotin Hut]; subst.
  unfold advance_root_l, genitem_next_l. cbn [fst snd].
  destruct rest as [|x r'].
  - (* exhausted: genlist[0] is self, heappop *)
    rewrite !same_refl.
    destruct (lr_pop _ _ HR (((d, []), id) :: t)) as [Hm Hp]. cbn [tl] in Hp.
    cbn [map fst] in Hm |- *. rewrite advance_root_nil_rest.
    assert (Hu' : uniq (heappop_rest_l HL (((d, []), id) :: t))) by (eapply uniq_perm; eauto).
    destruct (heappop_rest_l HL (((d, []), id) :: t)) as [|h l1] eqn:El.
    + cbv iota. split; [|assumption]. rewrite <- Hm. reflexivity.
    + cbv iota. assert (Hh : In (snd h) (ids t)).
      { unfold ids. apply in_map. apply (Permutation_in _ (Permutation_sym Hp)). left. reflexivity. }
      unfold same. cbn [snd]. destruct (Nat.eqb_spec (snd h) id) as [E|E]; [subst; unfold ids in *; contradiction|].
      split; [|assumption]. rewrite <- Hm. reflexivity.
  - (* self.dt = next(gen): only the object itself changes; it is still the root: heapreplace *)
    cbn [map]. rewrite same_refl.
    rewrite (map_upd_other t ((d, x :: r'), id) (fun y => ((x, r'), snd y))) by exact Hnotin.
    unfold same. cbn [snd]. rewrite Nat.eqb_refl.
    destruct (lr_replace _ _ HR (((x, r'), id) :: t)) as [Hm Hp].
    cbn [map fst] in Hm |- *. rewrite advance_root_cons_rest.
    split; [rewrite Hm; reflexivity|].
    eapply uniq_perm; [exact Hp|]. unfold uniq, ids. simpl. constructor; assumption.
Qed.

Lemma ex_advance_sim : forall fuel ex rdt, uniq ex ->
  match ex_advance_l HL fuel ex rdt with
  | Some ex' => ex_advance H fuel (map fst ex) rdt = Some (map fst ex') /\ uniq ex'
  | None => ex_advance H fuel (map fst ex) rdt = None
  end.
Proof.
  induction fuel as [|f IH]; intros ex rdt Hu; [reflexivity|].
  simpl. destruct ex as [|[[edt er] id] t]; [split; [reflexivity|assumption]|].
  cbn [map fst dt_of]. destruct (edt <? rdt).
  - destruct (advance_root_sim (((edt, er), id) :: t) Hu) as [Hm Hu'].
    specialize (IH (advance_root_l HL (((edt, er), id) :: t)) rdt Hu').
    rewrite Hm in IH. exact IH.
  - split; [reflexivity|assumption].
Qed.

Definition out_rel (ol : outcome_l) (o : outcome) : Prop :=
  match ol, o with
  | YieldedL z rl ex t, Yielded z' rl' ex' t' =>
      z = z' /\ map fst rl = rl' /\ map fst ex = ex' /\ t = t' /\ uniq rl /\ uniq ex
  | FinishedL t, Finished t' => t = t'
  | NoFuelL, NoFuel => True
  | _, _ => False
  end.

Lemma run_l_S : forall f rl ex lastdt total,
  run_l HL (S f) rl ex lastdt total =
  match rl with
  | [] => FinishedL total
  | ritem :: _ =>
      let rdt := dt_of ritem in
      if (match lastdt with None => true | Some l => negb (l =? rdt) end) then
        match ex_advance_l HL (S (size_l ex)) ex rdt with
        | None => NoFuelL
        | Some ex' =>
            if (match ex' with [] => true | e :: _ => negb (rdt =? dt_of e) end)
            then YieldedL rdt rl ex' (total + 1)
            else run_l HL f (advance_root_l HL rl) ex' (Some rdt) total
        end
      else run_l HL f (advance_root_l HL rl) ex lastdt total
  end.
Proof. reflexivity. Qed.

Lemma run_sim : forall fuel rl ex last tot, uniq rl -> uniq ex ->
  out_rel (run_l HL fuel rl ex last tot) (run H fuel (map fst rl) (map fst ex) last tot).
Proof.
  induction fuel as [|f IH]; intros rl ex last tot Hr He; [exact I|].
  rewrite run_l_S, run_S. destruct rl as [|[[rdt rr] id] tl]; [reflexivity|].
  cbn [map fst dt_of]. cbv zeta.
  destruct (advance_root_sim (((rdt, rr), id) :: tl) Hr) as [Hm Hu'].
  destruct (match last with None => true | Some l => negb (l =? rdt) end).
  - pose proof (ex_advance_sim (S (size_l ex)) ex rdt He) as Hx. unfold size_l in *.
    destruct (ex_advance_l HL (S (size (map fst ex))) ex rdt) as [ex'|].
    + destruct Hx as [Hx Hux]. rewrite Hx.
      assert (Eh : (match ex' with [] => true | e :: _ => negb (rdt =? dt_of e) end) =
                   (match map fst ex' with [] => true | (edt, _) :: _ => negb (rdt =? edt) end)).
      { destruct ex' as [|[[edt er] i] t]; reflexivity. }
      rewrite Eh. destruct (match map fst ex' with [] => true | (edt, _) :: _ => negb (rdt =? edt) end).
      * simpl. repeat split; auto.
      * specialize (IH (advance_root_l HL (((rdt, rr), id) :: tl)) ex' (Some rdt) tot Hu' Hux).
        rewrite Hm in IH. exact IH.
    + rewrite Hx. exact I.
  - specialize (IH (advance_root_l HL (((rdt, rr), id) :: tl)) ex last tot Hu' He).
    rewrite Hm in IH. exact IH.
Qed.

Lemma drain_sim : forall n rl ex last tot, uniq rl -> uniq ex ->
  drain_l HL n rl ex last tot = drain_d H n (map fst rl) (map fst ex) last tot.
Proof.
  induction n as [|k IH]; intros rl ex last tot Hr He; [reflexivity|].
  cbn [drain_l drain_d]. unfold size_l.
  pose proof (run_sim (S (size (map fst rl))) rl ex last tot Hr He) as Hs.
  destruct (run_l HL (S (size (map fst rl))) rl ex last tot) as [z rl' ex' t|t|];
    destruct (run H (S (size (map fst rl))) (map fst rl) (map fst ex) last tot) as [z' rl'' ex'' t'|t'|];
    simpl in Hs; try contradiction; try reflexivity.
  - destruct Hs as [<- [<- [<- [<- [Hur Hue]]]]].
    destruct (advance_root_sim rl' Hur) as [Hm Hu'].
    rewrite (IH _ _ _ _ Hu' Hue), Hm. reflexivity.
  - subst. reflexivity.
Qed.

(* ------------------------------------------------------------------ creation of the items *)
Lemma gen_list_fold_sim : forall rules st,
  NoDup (ids (fst st)) -> (forall i, In i (ids (fst st)) -> (i < snd st)%nat) ->
  let st' := fold_left genitem_init_l rules st in
  map fst (fst st') = fold_left genitem_init rules (map fst (fst st)) /\
  NoDup (ids (fst st')) /\ (forall i, In i (ids (fst st')) -> (i < snd st')%nat).
Proof.
  induction rules as [|g rules IH]; intros [l n] Hnd Hlt; [simpl; auto|].
  cbn [fold_left]. cbn [fst snd] in Hnd, Hlt. destruct g as [|x r].
  - cbn [genitem_init_l genitem_init]. cbn [fst].
    apply (IH (l, S n)); cbn [fst snd]; [assumption|].
    intros i Hi. specialize (Hlt i Hi). lia.
  - cbn [genitem_init_l genitem_init]. cbn [fst].
    replace (map fst l ++ [(x, r)]) with (map fst (fst (l ++ [((x, r), n)], S n)))
      by (cbn [fst]; rewrite map_app; reflexivity).
    apply (IH (l ++ [((x, r), n)], S n)); cbn [fst snd].
    + unfold ids. rewrite map_app. simpl. apply NoDup_app_snoc; [assumption|].
      intro Hi. specialize (Hlt n Hi). lia.
    + intros i Hi. unfold ids in Hi. rewrite map_app, in_app_iff in Hi. simpl in Hi.
      destruct Hi as [Hi|[<-|[]]]; [specialize (Hlt i Hi)|]; lia.
Qed.


Lemma gen_list_sim : forall n0 dates rules,
  map fst (fst (gen_list_l n0 dates rules)) = gen_list dates rules /\ uniq (fst (gen_list_l n0 dates rules)).
Proof.
  intros n0 dates rules. unfold gen_list_l, gen_list.
  assert (Hinit : forall gen,
            map fst (fst (genitem_init_l ([], n0) gen)) = genitem_init [] gen /\
            NoDup (ids (fst (genitem_init_l ([], n0) gen))) /\
            (forall i, In i (ids (fst (genitem_init_l ([], n0) gen))) -> (i < snd (genitem_init_l ([], n0) gen))%nat)).
  { intros [|x r]; simpl.
    - split; [reflexivity|]. split; [constructor|]. intros i [].
    - split; [reflexivity|]. split; [constructor; [intros []|constructor]|]. intros i [<-|[]]. lia. }
  destruct (Hinit (sortZ dates)) as [A [B C]].
  destruct (gen_list_fold_sim rules (genitem_init_l ([], n0) (sortZ dates)) B C) as [D [E _]].
  rewrite A in D. split; assumption.
Qed.

Theorem rset_iter_l_erase : forall rr rd exr exd,
  rset_iter_l HL rr rd exr exd = rset_iter H rr rd exr exd.
Proof.
  intros. unfold rset_iter_l, rset_iter. rewrite drain_direct_start.
  destruct (gen_list_sim 0 rd rr) as [A1 U1].
  destruct (gen_list_l 0 rd rr) as [rl0 n1]. cbn [fst] in *.
  destruct (gen_list_sim n1 exd exr) as [A2 U2].
  destruct (gen_list_l n1 exd exr) as [ex0 n2]. cbn [fst] in *.
  destruct (lr_heapify _ _ HR rl0) as [M1 P1]. destruct (lr_heapify _ _ HR ex0) as [M2 P2].
  rewrite drain_sim; [|eapply uniq_perm; eauto|eapply uniq_perm; eauto].
  rewrite M1, M2, A1, A2. reflexivity.
Qed.

End Sim.

(* the executable identified heaps erase to the executable abstract heaps *)
Lemma min_front_l_erase : forall b l, map fst (min_front_l b l) = min_front b (map fst l).
Proof.
  intros b l. induction l as [|x t IH]; simpl; [reflexivity|].
  rewrite <- IH. destruct (min_front_l b t) as [|m r]; simpl; [reflexivity|].
  unfold dt_of. destruct (if b then fst (fst m) <=? fst (fst x) else fst (fst m) <? fst (fst x)); reflexivity.
Qed.

Lemma min_front_l_perm : forall b l, Permutation l (min_front_l b l).
Proof.
  intros b l. induction l as [|x t IH]; simpl; [constructor|].
  destruct (min_front_l b t) as [|m r] eqn:E.
  - apply Permutation_sym, Permutation_nil in IH. subst. constructor. constructor.
  - destruct (if b then dt_of m <=? dt_of x else dt_of m <? dt_of x).
    + eapply perm_trans; [apply perm_skip; exact IH|]. apply perm_swap.
    + apply perm_skip. exact IH.
Qed.

Theorem heap_sel_l_rel : forall b, lit_rel (heap_sel_l b) (heap_sel b).
Proof.
  intro b. constructor; intro l; unfold heap_sel_l, heap_sel;
    cbn [heapify_l heappop_rest_l heapreplace_l heapify heappop_rest heapreplace].
  - split; [apply min_front_l_erase|apply min_front_l_perm].
  - split; [rewrite min_front_l_erase; destruct l; reflexivity|apply min_front_l_perm].
  - split; [apply min_front_l_erase|apply min_front_l_perm].
Qed.

Theorem rset_iter_literal : forall b rr rd exr exd,
  rset_iter_l (heap_sel_l b) rr rd exr exd = rset_iter (heap_sel b) rr rd exr exd.
Proof. intro b. exact (rset_iter_l_erase (heap_sel_l b) (heap_sel b) (heap_sel_l_rel b)). Qed.

Example literal_example :
  rset_iter_l (heap_sel_l true) [[1; 3; 5]; [3; 4; 4]] [9; 2; 2] [[4]; [0; 9]] [5] = Some ([1; 2; 3], Some 3).
Proof. vm_compute. reflexivity. Qed.
