(* C10 -- executable model of CPython's heapq (Lib/heapq.py: _siftdown, _siftup, heapify,
   heappop, heapreplace; the C accelerator _heapq implements the same algorithms) on the list
   representation, with _genitem.__lt__ as the only comparison.  RSetHeapqThm.v proves that it
   satisfies heap_contract with the binary-heap order as representation invariant, so the
   theorems of RSetThm.v / RSetHistThm.v hold for the heap discipline the code really uses.
   No proofs in this file. *)
From Coq Require Import ZArith List Bool.
From V Require Import rset.RSetModel rset.RSetHist.
Import ListNotations.
Open Scope Z_scope.

Definition dflt : item := (0, []).
Definition getn (l : list item) (i : nat) : item := nth i l dflt.
Definition lt_item (a b : item) : bool := fst a <? fst b.      (* _genitem.__lt__ *)

(* _siftdown(heap, startpos, pos) after `newitem = heap[pos]`; pos decreases every round, the
   fuel S pos is never exhausted before `pos > startpos` fails (and the O case performs the
   same final store) *)
Fixpoint siftdown_loop (fuel : nat) (heap : list item) (startpos pos : nat) (newitem : item) : list item :=
  match fuel with
  | O => set_nth heap pos newitem
  | S f =>
      if Nat.ltb startpos pos then
        let parentpos := ((pos - 1) / 2)%nat in                 (* (pos - 1) >> 1 *)
        let parent := getn heap parentpos in
        if lt_item newitem parent
        then siftdown_loop f (set_nth heap pos parent) startpos parentpos newitem
        else set_nth heap pos newitem
      else set_nth heap pos newitem
  end.

Definition siftdown (heap : list item) (startpos pos : nat) : list item :=
  siftdown_loop (S pos) heap startpos pos (getn heap pos).

(* the `while childpos < endpos` loop of _siftup: bubble the smaller child up until a leaf *)
Fixpoint siftup_loop (fuel : nat) (heap : list item) (endpos pos : nat) : list item * nat :=
  match fuel with
  | O => (heap, pos)
  | S f =>
      let childpos := (2 * pos + 1)%nat in
      if Nat.ltb childpos endpos then
        let rightpos := (childpos + 1)%nat in
        let c := if Nat.ltb rightpos endpos && negb (lt_item (getn heap childpos) (getn heap rightpos))
                 then rightpos else childpos in
        siftup_loop f (set_nth heap pos (getn heap c)) endpos c
      else (heap, pos)
  end.

(* _siftup(heap, pos) *)
Definition siftup (heap : list item) (pos : nat) : list item :=
  let endpos := length heap in
  let newitem := getn heap pos in
  let (heap1, pos1) := siftup_loop endpos heap endpos pos in
  siftdown (set_nth heap1 pos1 newitem) pos pos1.

(* for i in reversed(range(n//2)): _siftup(x, i) *)
Fixpoint heapify_from (i : nat) (heap : list item) : list item :=
  match i with
  | O => heap
  | S k => heapify_from k (siftup heap k)
  end.

Definition heapify_py (l : list item) : list item := heapify_from (length l / 2)%nat l.

(* heap after heappop: lastelt = heap.pop(); if heap: heap[0] = lastelt; _siftup(heap, 0) *)
Definition heappop_rest_py (l : list item) : list item :=
  match removelast l with
  | [] => []
  | h => siftup (set_nth h 0 (last l dflt)) 0
  end.

(* heapreplace(heap, item) where item is heap[0] itself: heap[0] = item; _siftup(heap, 0) *)
Definition heapreplace_py (l : list item) : list item :=
  match l with
  | [] => []
  | _ => siftup l 0
  end.

Definition heap_py : heap_ops := mkHeap heapify_py heappop_rest_py heapreplace_py.
