(* C10 -- executable specification, written without reference to heaps or cursors:
   the recurrence set is the sorted, duplicate-free list of the inclusion instants that are not
   exclusion instants. *)
From Coq Require Import ZArith List Bool.
Import ListNotations.
Open Scope Z_scope.

Definition memZ (x : Z) (l : list Z) : bool := existsb (Z.eqb x) l.

(* insertion into a strictly increasing list, dropping duplicates *)
Fixpoint insert_uniq (x : Z) (l : list Z) : list Z :=
  match l with
  | [] => [x]
  | h :: t => if x <? h then x :: l else if x =? h then l else h :: insert_uniq x t
  end.
Definition sort_set (l : list Z) : list Z := fold_right insert_uniq [] l.

Definition inclusion (rr : list (list Z)) (rd : list Z) : list Z := concat rr ++ rd.

Definition spec_set (rr : list (list Z)) (rd : list Z) (exr : list (list Z)) (exd : list Z) : list Z :=
  let exc := inclusion exr exd in
  filter (fun x => negb (memZ x exc)) (sort_set (inclusion rr rd)).

(* the property as a predicate on an arbitrary output list *)
Inductive strict_sorted : list Z -> Prop :=
| ss_nil : strict_sorted []
| ss_one : forall x, strict_sorted [x]
| ss_cons : forall x y l, x < y -> strict_sorted (y :: l) -> strict_sorted (x :: y :: l).

Definition is_recurrence_set (rr : list (list Z)) (rd : list Z) (exr : list (list Z)) (exd : list Z)
           (out : list Z) : Prop :=
  strict_sorted out /\
  forall x, In x out <-> (In x (inclusion rr rd) /\ ~ In x (inclusion exr exd)).

(* queries on a listed recurrence set (what the rrulebase methods mean) *)
Definition q_count (s : list Z) : Z := Z.of_nat (length s).
Definition q_contains (s : list Z) (z : Z) : bool := memZ z s.
Definition q_before (s : list Z) (z : Z) (inc : bool) : option Z :=
  last (map Some (filter (fun x => if inc then x <=? z else x <? z) s)) None.
Definition q_after (s : list Z) (z : Z) (inc : bool) : option Z :=
  hd None (map Some (filter (fun x => if inc then z <=? x else z <? x) s)).
Definition q_between (s : list Z) (a b : Z) (inc : bool) : list Z :=
  filter (fun x => if inc then (a <=? x) && (x <=? b) else (a <? x) && (x <? b)) s.
Definition q_getitem (s : list Z) (i : Z) : option Z :=
  let j := if i <? 0 then i + Z.of_nat (length s) else i in
  if j <? 0 then None else nth_error s (Z.to_nat j).
