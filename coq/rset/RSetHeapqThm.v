(* C10 -- the heapq.py algorithms (RSetHeapq.v) satisfy heap_contract with the binary-heap
   order as representation invariant. *)
From Coq Require Import ZArith List Bool Lia Permutation.
From V Require Import rset.RSetModel rset.RSetHist rset.RSetThm rset.RSetHeapq.
Import ListNotations.
Ltac Zify.zify_post_hook ::= Z.to_euclidean_division_equations.
Open Scope nat_scope.

(* ------------------------------------------------------------------ lists as arrays *)
Lemma set_len : forall (l : list item) i v, length (set_nth l i v) = length l.
Proof. induction l as [|a l IH]; intros [|i] v; simpl; auto. Qed.

Lemma getn_set_eq : forall (l : list item) i v, i < length l -> getn (set_nth l i v) i = v.
Proof.
  unfold getn. induction l as [|a l IH]; intros [|i] v Hi; simpl in *; try lia; auto.
  apply IH. lia.
Qed.

Lemma getn_set_neq : forall (l : list item) i j v, i <> j -> getn (set_nth l i v) j = getn l j.
Proof.
  unfold getn. induction l as [|a l IH]; intros [|i] [|j] v Hne; simpl; auto; try lia.
Qed.

Lemma set_set_same : forall (l : list item) i v w, set_nth (set_nth l i v) i w = set_nth l i w.
Proof. induction l as [|a l IH]; intros [|i] v w; simpl; auto. f_equal. apply IH. Qed.

Lemma set_same : forall (l : list item) i, set_nth l i (getn l i) = l.
Proof.
  unfold getn. induction l as [|a l IH]; intros [|i]; simpl; auto. f_equal. apply IH.
Qed.

Lemma perm_set_head : forall (t : list item) j a, j < length t ->
  Permutation (getn t j :: set_nth t j a) (a :: t).
Proof.
  unfold getn. induction t as [|b t IH]; intros [|j] a Hj; simpl in *; try lia.
  - apply perm_swap.
  - eapply perm_trans; [apply perm_swap|]. eapply perm_trans; [|apply perm_swap].
    apply perm_skip. apply IH. lia.
Qed.

(* exchanging two cells *)
Lemma swap_perm : forall (l : list item) i j, i < length l -> j < length l ->
  Permutation (set_nth (set_nth l i (getn l j)) j (getn l i)) l.
Proof.
  induction l as [|a l IH]; intros [|i] [|j] Hi Hj; simpl in *; try lia.
  - reflexivity.
  - change (getn (a :: l) (S j)) with (getn l j). change (getn (a :: l) 0) with a.
    apply perm_set_head. lia.
  - change (getn (a :: l) (S i)) with (getn l i). change (getn (a :: l) 0) with a.
    apply perm_set_head. lia.
  - change (getn (a :: l) (S j)) with (getn l j). change (getn (a :: l) (S i)) with (getn l i).
    apply perm_skip. apply IH; lia.
Qed.

(* moving the hole: heap[pos] = heap[c]; pos = c *)
Lemma hole_move_perm : forall (heap : list item) pos c x, pos < length heap -> c < length heap -> pos <> c ->
  Permutation (set_nth (set_nth heap pos (getn heap c)) c x) (set_nth heap pos x).
Proof.
  intros heap pos c x Hp Hc Hne.
  set (M := set_nth heap pos x).
  assert (E : set_nth (set_nth heap pos (getn heap c)) c x =
              set_nth (set_nth M pos (getn M c)) c (getn M pos)).
  { unfold M. rewrite set_set_same, getn_set_eq by assumption. rewrite getn_set_neq by assumption. reflexivity. }
  rewrite E. apply swap_perm; unfold M; rewrite set_len; assumption.
Qed.

Definition key (l : list item) (i : nat) : Z := fst (getn l i).

Lemma key_set : forall l i v j, i < length l ->
  key (set_nth l i v) j = if Nat.eqb i j then fst v else key l j.
Proof.
  intros l i v j Hi. unfold key. destruct (Nat.eqb_spec i j) as [<-|Hne].
  - rewrite getn_set_eq by assumption. reflexivity.
  - rewrite getn_set_neq by assumption. reflexivity.
Qed.

(* ------------------------------------------------------------------ the tree *)
Inductive anc (s : nat) : nat -> Prop :=
| anc_refl : anc s s
| anc_l : forall p, anc s p -> anc s (2 * p + 1)
| anc_r : forall p, anc s p -> anc s (2 * p + 2).

Lemma anc_ge : forall s p, anc s p -> s <= p.
Proof. intros s p Ha. induction Ha; lia. Qed.

(* parent c = (c - 1) / 2; lia treats the quotient as an atom, these two facts characterise it *)
Lemma parent_spec : forall c, 0 < c -> c = 2 * ((c - 1) / 2) + 1 \/ c = 2 * ((c - 1) / 2) + 2.
Proof.
  intros c Hc. pose proof (Nat.div_mod (c - 1) 2 ltac:(lia)) as Hd.
  pose proof (Nat.mod_upper_bound (c - 1) 2 ltac:(lia)) as Hm. lia.
Qed.

Lemma parent_left : forall p, (2 * p + 1 - 1) / 2 = p.
Proof. intro p. replace (2 * p + 1 - 1) with (p * 2) by lia. apply Nat.div_mul. lia. Qed.

Lemma parent_right : forall p, (2 * p + 2 - 1) / 2 = p.
Proof. intro p. symmetry. apply (Nat.div_unique (2 * p + 2 - 1) 2 p 1); lia. Qed.

Lemma parent_eq : forall c p, 0 < c -> ((c - 1) / 2 = p <-> c = 2 * p + 1 \/ c = 2 * p + 2).
Proof.
  intros c p Hc. split.
  - intros <-. apply parent_spec. assumption.
  - intros [->| ->]; [apply parent_left|apply parent_right].
Qed.

Lemma anc_parent : forall s p, anc s p -> s < p -> anc s ((p - 1) / 2).
Proof.
  intros s p Ha Hlt. inversion Ha; subst.
  - lia.
  - rewrite parent_left. assumption.
  - rewrite parent_right. assumption.
Qed.

(* the edge into c is in order *)
Definition ok (l : list item) (c : nat) : Prop := (key l ((c - 1) / 2) <= key l c)%Z.

(* every node >= s dominates its children *)
Definition valid_from (l : list item) (s : nat) : Prop :=
  forall c, 0 < c -> c < length l -> s <= (c - 1) / 2 -> ok l c.

Definition is_heap_py (l : list item) : Prop := valid_from l 0.

Ltac eqbs := repeat match goal with |- context [Nat.eqb ?a ?b] => destruct (Nat.eqb_spec a b) end.

Section Sift.
Variable s : nat.       (* startpos *)
Variable n : nat.       (* len(heap) *)

(* ------------------------------------------------------------------ phase 1 of _siftup *)
Definition Inv1 (heap : list item) (pos : nat) : Prop :=
  forall c, 0 < c -> c < n -> s <= (c - 1) / 2 -> ((c - 1) / 2 = s -> pos <> s) -> ok heap c.

Lemma siftup_loop_spec : forall fuel heap pos,
  length heap = n -> pos < n -> anc s pos -> Inv1 heap pos -> n <= fuel + pos ->
  exists h1 p1, siftup_loop fuel heap n pos = (h1, p1) /\
    length h1 = n /\ p1 < n /\ anc s p1 /\ n <= 2 * p1 + 1 /\ Inv1 h1 p1 /\
    (forall x, Permutation (set_nth h1 p1 x) (set_nth heap pos x)).
Proof.
  induction fuel as [|f IH]; intros heap pos Hlen Hpos Hanc HI Hfuel; [lia|].
  cbn [siftup_loop]. destruct (Nat.ltb_spec (2 * pos + 1) n) as [Hc|Hc].
  2:{ exists heap, pos. repeat split; auto. }
  replace (2 * pos + 1 + 1) with (2 * pos + 2) by lia.
  set (c := if Nat.ltb (2 * pos + 2) n && negb (lt_item (getn heap (2 * pos + 1)) (getn heap (2 * pos + 2)))
            then 2 * pos + 2 else 2 * pos + 1).
  assert (Hcc : (c = 2 * pos + 1 /\ (2 * pos + 2 < n -> (key heap (2 * pos + 1) <= key heap (2 * pos + 2))%Z)) \/
                (c = 2 * pos + 2 /\ 2 * pos + 2 < n /\ (key heap (2 * pos + 2) <= key heap (2 * pos + 1))%Z)).
  { unfold c, lt_item, key. destruct (Nat.ltb_spec (2 * pos + 2) n) as [HR|HR]; cbn [andb].
    - destruct (Z.ltb_spec (fst (getn heap (2 * pos + 1))) (fst (getn heap (2 * pos + 2)))); cbn [negb];
        [left|right]; split; auto; try lia.
    - left. split; [reflexivity|lia]. }
  clearbody c.
  assert (Hcn : c < n) by (destruct Hcc as [[-> _]|[-> [? _]]]; lia).
  assert (Hcp : (c - 1) / 2 = pos) by (apply parent_eq; destruct Hcc as [[-> _]|[-> _]]; lia).
  assert (Hcgt : pos < c) by (destruct Hcc as [[-> _]|[-> _]]; lia).
  assert (Hancc : anc s c) by (destruct Hcc as [[-> _]|[-> _]]; [apply anc_l|apply anc_r]; assumption).
  pose proof (anc_ge _ _ Hanc) as Hsp.
  set (heap' := set_nth heap pos (getn heap c)).
  destruct (IH heap' c) as [h1 [p1 [Hr [Hl1 [Hp1 [Ha1 [Hleaf [HI1 Hperm]]]]]]]].
  - unfold heap'. rewrite set_len. assumption.
  - assumption.
  - assumption.
  - (* Inv1 is re-established with the hole at c *)
    intros d Hd0 Hdn Hsd _.
    assert (Hk : forall j, key heap' j = if Nat.eqb pos j then key heap c else key heap j)
      by (intro j; unfold heap'; rewrite key_set by lia; reflexivity).
    unfold ok. rewrite !Hk.
    destruct (Nat.eqb_spec pos ((d - 1) / 2)) as [E1|E1]; destruct (Nat.eqb_spec pos d) as [E2|E2].
    + pose proof (parent_spec d Hd0). lia.
    + (* d is a child of pos *)
      assert (Hd : d = 2 * pos + 1 \/ d = 2 * pos + 2) by (symmetry in E1; apply parent_eq in E1; assumption).
      destruct Hcc as [[-> Hle]|[-> [HRn Hle]]]; destruct Hd as [-> | ->]; lia.
    + (* d = pos: the parent of pos against the child moved up *)
      subst d. assert (Hps : s < pos) by (pose proof (parent_spec pos Hd0); lia).
      assert (H1 : ok heap pos) by (apply HI; auto; lia).
      assert (H2 : ok heap c) by (apply HI; auto; lia).
      unfold ok in H1, H2. rewrite Hcp in H2. lia.
    + apply HI; auto. intros Es. lia.
  - lia.
  - exists h1, p1. split; [exact Hr|]. repeat split; auto.
    intro x. eapply perm_trans; [apply Hperm|]. unfold heap'. apply hole_move_perm; lia.
Qed.

(* ------------------------------------------------------------------ _siftdown *)
Variable newitem : item.

Definition Inv2 (hp : list item) (p : nat) : Prop :=
  (forall c, 0 < c -> c < n -> s <= (c - 1) / 2 -> c <> p -> ok (set_nth hp p newitem) c) /\
  (s < p -> forall d, 0 < d -> d < n -> (d - 1) / 2 = p ->
            (key (set_nth hp p newitem) ((p - 1) / 2) <= key (set_nth hp p newitem) d)%Z).

Lemma siftdown_loop_spec : forall fuel hp p,
  length hp = n -> p < n -> anc s p -> Inv2 hp p -> p <= fuel + s ->
  length (siftdown_loop fuel hp s p newitem) = n /\
  valid_from (siftdown_loop fuel hp s p newitem) s /\
  Permutation (siftdown_loop fuel hp s p newitem) (set_nth hp p newitem).
Proof.
  assert (Hstop : forall hp p, length hp = n -> p < n -> Inv2 hp p -> p = s ->
            length (set_nth hp p newitem) = n /\ valid_from (set_nth hp p newitem) s /\
            Permutation (set_nth hp p newitem) (set_nth hp p newitem)).
  { intros hp p Hlen Hp [Hi _] ->. split; [rewrite set_len; assumption|]. split; [|reflexivity].
    intros c Hc0 Hcn Hsc. rewrite set_len in Hcn. apply Hi; auto; try lia.
    pose proof (parent_spec c Hc0). lia. }
  induction fuel as [|f IH]; intros hp p Hlen Hp Hanc HI Hfuel; pose proof (anc_ge _ _ Hanc) as Hsp.
  - cbn [siftdown_loop]. apply Hstop; auto. lia.
  - cbn [siftdown_loop]. destruct (Nat.ltb_spec s p) as [Hlt|Hge]; [|apply Hstop; auto; lia].
    set (q := (p - 1) / 2).
    assert (Hq : p = 2 * q + 1 \/ p = 2 * q + 2) by (apply parent_spec; lia).
    pose proof (anc_parent _ _ Hanc Hlt) as Hancq. fold q in Hancq. pose proof (anc_ge _ _ Hancq) as Hsq.
    destruct HI as [Hi Hii].
    unfold lt_item. destruct (Z.ltb_spec (fst newitem) (fst (getn hp q))) as [Hnl|Hnl].
    + (* heap[pos] = parent; pos = parentpos *)
      set (hp' := set_nth hp p (getn hp q)).
      assert (Hlen' : length hp' = n) by (unfold hp'; rewrite set_len; assumption).
      assert (HK' : forall j, key (set_nth hp' q newitem) j =
                     if Nat.eqb q j then fst newitem else if Nat.eqb p j then key hp q else key hp j).
      { intro j. unfold hp'. rewrite !key_set by (rewrite ?set_len; lia). reflexivity. }
      assert (HK : forall j, key (set_nth hp p newitem) j = if Nat.eqb p j then fst newitem else key hp j).
      { intro j. rewrite key_set by lia. reflexivity. }
      destruct (IH hp' q) as [R1 [R2 R3]]; auto; try lia.
      * split.
        -- intros c Hc0 Hcn Hsc Hcq. unfold ok. rewrite !HK'.
           pose proof (parent_spec c Hc0) as Hpc.
           destruct (Nat.eq_dec c p) as [->|Hcp].
           ++ fold q. rewrite Nat.eqb_refl. destruct (Nat.eqb_spec q p); [lia|]. rewrite Nat.eqb_refl.
              unfold key. lia.
           ++ destruct (Nat.eq_dec ((c - 1) / 2) q) as [Eq|Nq].
              ** (* the sibling of p *)
                 rewrite Eq, Nat.eqb_refl. destruct (Nat.eqb_spec q c); [lia|]. destruct (Nat.eqb_spec p c); [lia|].
                 pose proof (Hi c Hc0 Hcn Hsc Hcp) as Hok. unfold ok in Hok. rewrite !HK in Hok. rewrite Eq in Hok.
                 destruct (Nat.eqb_spec p q); [lia|]. destruct (Nat.eqb_spec p c); [lia|]. unfold key in *. lia.
              ** destruct (Nat.eq_dec ((c - 1) / 2) p) as [Ep|Np].
                 --- (* a child of p *)
                     rewrite Ep. destruct (Nat.eqb_spec q p); [lia|]. rewrite Nat.eqb_refl.
                     destruct (Nat.eqb_spec q c); [lia|]. destruct (Nat.eqb_spec p c); [lia|].
                     pose proof (Hii Hlt c Hc0 Hcn Ep) as Hok. rewrite !HK in Hok. fold q in Hok.
                     destruct (Nat.eqb_spec p q); [lia|]. destruct (Nat.eqb_spec p c); [lia|]. exact Hok.
                 --- destruct (Nat.eqb_spec q ((c - 1) / 2)); [lia|]. destruct (Nat.eqb_spec p ((c - 1) / 2)); [lia|].
                     destruct (Nat.eqb_spec q c); [lia|]. destruct (Nat.eqb_spec p c); [lia|].
                     pose proof (Hi c Hc0 Hcn Hsc Hcp) as Hok. unfold ok in Hok. rewrite !HK in Hok.
                     destruct (Nat.eqb_spec p ((c - 1) / 2)); [lia|]. destruct (Nat.eqb_spec p c); [lia|]. exact Hok.
        -- intros Hsq' d Hd0 Hdn Hdq. rewrite !HK'.
           assert (Hq0 : 0 < q) by lia.
           pose proof (parent_spec q Hq0) as Hpq.
           pose proof (anc_ge _ _ (anc_parent _ _ Hancq Hsq')) as Hspq.
           destruct (Nat.eqb_spec q ((q - 1) / 2)); [lia|]. destruct (Nat.eqb_spec p ((q - 1) / 2)); [lia|].
           assert (Hokq : ok (set_nth hp p newitem) q) by (apply Hi; auto; lia).
           unfold ok in Hokq. rewrite !HK in Hokq.
           destruct (Nat.eqb_spec p ((q - 1) / 2)); [lia|]. destruct (Nat.eqb_spec p q); [lia|].
           destruct (Nat.eqb_spec q d); [pose proof (parent_spec d Hd0); lia|].
           destruct (Nat.eqb_spec p d) as [Epd|Npd]; [exact Hokq|].
           assert (Hokd : ok (set_nth hp p newitem) d) by (apply Hi; auto; lia).
           unfold ok in Hokd. rewrite !HK in Hokd. rewrite Hdq in Hokd.
           destruct (Nat.eqb_spec p q); [lia|]. destruct (Nat.eqb_spec p d); [lia|]. lia.
      * split; [exact R1|]. split; [exact R2|].
        eapply perm_trans; [exact R3|]. unfold hp'. apply hole_move_perm; lia.
    + (* break: heap[pos] = newitem *)
      split; [rewrite set_len; assumption|]. split; [|reflexivity].
      intros c Hc0 Hcn Hsc. rewrite set_len, Hlen in Hcn.
      destruct (Nat.eq_dec c p) as [->|Hcp]; [|apply Hi; auto].
      unfold ok. fold q. rewrite !key_set by lia. rewrite Nat.eqb_refl.
      destruct (Nat.eqb_spec p q); [lia|]. unfold key. lia.
Qed.

End Sift.

(* ------------------------------------------------------------------ _siftup *)
Lemma siftup_spec : forall h0 s, s < length h0 -> valid_from h0 (S s) ->
  length (siftup h0 s) = length h0 /\ valid_from (siftup h0 s) s /\ Permutation (siftup h0 s) h0.
Proof.
  intros h0 s Hs Hv. unfold siftup.
  destruct (siftup_loop_spec s (length h0) (length h0) h0 s eq_refl Hs (anc_refl s))
    as [h1 [p1 [Hr [Hl1 [Hp1 [Ha1 [Hleaf [HI1 Hperm]]]]]]]].
  - intros c Hc0 Hcn Hsc Hne. apply Hv; auto.
    destruct (Nat.eq_dec ((c - 1) / 2) s) as [E|E]; [exfalso; apply (Hne E); reflexivity|lia].
  - lia.
  - rewrite Hr. unfold siftdown. set (newitem := getn h0 s). set (L1 := set_nth h1 p1 newitem).
    assert (Hg : getn L1 p1 = newitem) by (unfold L1; apply getn_set_eq; lia).
    assert (HL1 : length L1 = length h0) by (unfold L1; rewrite set_len; assumption).
    assert (Hsame : set_nth L1 p1 newitem = L1) by (unfold L1; apply set_set_same).
    rewrite Hg.
    destruct (siftdown_loop_spec s (length h0) newitem (S p1) L1 p1 HL1 Hp1 Ha1) as [R1 [R2 R3]].
    + split.
      * intros c Hc0 Hcn Hsc Hcp. rewrite Hsame. unfold ok, L1. rewrite !key_set by lia.
        pose proof (parent_spec c Hc0) as Hpc.
        destruct (Nat.eqb_spec p1 ((c - 1) / 2)) as [E1|E1]; [lia|].
        destruct (Nat.eqb_spec p1 c) as [E2|E2]; [lia|].
        apply HI1; auto. intros Es Ep. lia.
      * intros _ d Hd0 Hdn Hdp. pose proof (parent_spec d Hd0). lia.
    + lia.
    + split; [exact R1|]. split; [exact R2|].
      eapply perm_trans; [exact R3|]. rewrite Hsame. unfold L1.
      eapply perm_trans; [apply Hperm|]. unfold newitem. rewrite set_same. reflexivity.
Qed.

(* ------------------------------------------------------------------ the contract *)
Lemma root_min : forall l, valid_from l 0 -> forall i, i < length l -> (key l 0 <= key l i)%Z.
Proof.
  intros l Hv i. induction i as [i IH] using lt_wf_ind. intro Hi.
  destruct i as [|i]; [lia|].
  assert (Hok : ok l (S i)) by (apply Hv; lia).
  pose proof (parent_spec (S i) ltac:(lia)) as Hp.
  assert (Hlt : (S i - 1) / 2 < S i) by lia.
  specialize (IH _ Hlt ltac:(lia)). unfold ok in Hok. lia.
Qed.

Lemma heap_py_min : forall l, is_heap_py l -> head_min l.
Proof.
  intros [|h t] Hh; [exact I|]. simpl. apply Forall_forall. intros y Hy.
  destruct (In_nth _ _ dflt Hy) as [j [Hj Ej]].
  pose proof (root_min _ Hh (S j) ltac:(simpl; lia)) as Hr.
  unfold key, getn in Hr. simpl in Hr. rewrite Ej in Hr. exact Hr.
Qed.

Lemma heapify_from_spec : forall k l, k <= length l -> valid_from l k ->
  length (heapify_from k l) = length l /\ valid_from (heapify_from k l) 0 /\ Permutation (heapify_from k l) l.
Proof.
  induction k as [|k IH]; intros l Hk Hv; [simpl; auto|].
  cbn [heapify_from]. destruct (siftup_spec l k ltac:(lia) Hv) as [A [B C]].
  destruct (IH (siftup l k) ltac:(lia) B) as [A' [B' C']].
  split; [congruence|]. split; [assumption|]. eapply perm_trans; eauto.
Qed.

Lemma half_le : forall n, n / 2 <= n.
Proof. intro n. pose proof (Nat.div_mod n 2 ltac:(lia)). lia. Qed.

Lemma heapify_py_spec : forall l, is_heap_py (heapify_py l) /\ Permutation l (heapify_py l).
Proof.
  intro l. unfold heapify_py, is_heap_py.
  destruct (heapify_from_spec (length l / 2) l (half_le _)) as [_ [B C]].
  - intros c Hc0 Hcn Hsc. exfalso.
    pose proof (parent_spec c Hc0). pose proof (Nat.div_mod (length l) 2 ltac:(lia)).
    pose proof (Nat.mod_upper_bound (length l) 2 ltac:(lia)). lia.
  - split; [assumption|apply Permutation_sym; assumption].
Qed.

(* replacing the root keeps every other node dominating its children *)
Lemma valid_root_irrelevant : forall l l', length l = length l' ->
  (forall i, 0 < i -> getn l i = getn l' i) -> valid_from l 1 -> valid_from l' 1.
Proof.
  intros l l' Hlen Hg Hv c Hc0 Hcn Hsc. rewrite <- Hlen in Hcn.
  specialize (Hv c Hc0 Hcn Hsc). unfold ok, key in *. rewrite <- !Hg by lia. exact Hv.
Qed.

Lemma valid_weaken : forall l a b, a <= b -> valid_from l a -> valid_from l b.
Proof. intros l a b Hab Hv c Hc0 Hcn Hsc. apply Hv; auto. lia. Qed.

Lemma heapreplace_py_spec : forall h h' t, is_heap_py (h :: t) ->
  is_heap_py (heapreplace_py (h' :: t)) /\ Permutation (h' :: t) (heapreplace_py (h' :: t)).
Proof.
  intros h h' t Hh. unfold heapreplace_py, is_heap_py.
  destruct (siftup_spec (h' :: t) 0) as [_ [B C]].
  - simpl. lia.
  - apply (valid_root_irrelevant (h :: t)); [reflexivity| |apply (valid_weaken _ 0); [lia|exact Hh]].
    intros [|i] Hi; [lia|reflexivity].
  - split; [assumption|apply Permutation_sym; assumption].
Qed.

Lemma nth_removelast : forall (l : list item) i, i < length (removelast l) ->
  nth i (removelast l) dflt = nth i l dflt.
Proof.
  induction l as [|a l IH]; intros i Hi; [simpl in Hi; lia|].
  destruct l as [|b l]; [simpl in Hi; lia|].
  change (removelast (a :: b :: l)) with (a :: removelast (b :: l)) in *.
  destruct i as [|i]; [reflexivity|]. cbn [length] in Hi. change (nth (S i) (a :: removelast (b :: l)) dflt)
    with (nth i (removelast (b :: l)) dflt). rewrite IH by lia. reflexivity.
Qed.

Lemma removelast_length : forall (l : list item), length (removelast l) = length l - 1.
Proof.
  induction l as [|a l IH]; [reflexivity|]. destruct l as [|b l]; [reflexivity|].
  change (removelast (a :: b :: l)) with (a :: removelast (b :: l)).
  cbn [length] in *. lia.
Qed.

Lemma heappop_py_spec : forall h t, is_heap_py (h :: t) ->
  is_heap_py (heappop_rest_py (h :: t)) /\ Permutation t (heappop_rest_py (h :: t)).
Proof.
  intros h t Hh. unfold heappop_rest_py.
  destruct t as [|b t]; [simpl; split; [intros c ? Hc; simpl in Hc; lia|constructor]|].
  change (removelast (h :: b :: t)) with (h :: removelast (b :: t)).
  change (last (h :: b :: t) dflt) with (last (b :: t) dflt).
  change (set_nth (h :: removelast (b :: t)) 0 (last (b :: t) dflt)) with (last (b :: t) dflt :: removelast (b :: t)).
  set (h0 := last (b :: t) dflt :: removelast (b :: t)).
  assert (Hl0 : length h0 = length (b :: t)).
  { unfold h0. cbn [length]. rewrite removelast_length. cbn [length]. lia. }
  destruct (siftup_spec h0 0) as [_ [B C]].
  - rewrite Hl0. simpl. lia.
  - intros c Hc0 Hcn Hsc. rewrite Hl0 in Hcn.
    pose proof (parent_spec c Hc0) as Hpc.
    assert (Hv : ok (h :: b :: t) c) by (apply Hh; cbn [length] in *; lia).
    assert (Hg : forall i, 0 < i -> i < length (b :: t) -> getn h0 i = getn (h :: b :: t) i).
    { intros [|i] Hi Hi2; [lia|]. unfold h0, getn.
      change (nth (S i) (last (b :: t) dflt :: removelast (b :: t)) dflt) with (nth i (removelast (b :: t)) dflt).
      rewrite nth_removelast by (rewrite removelast_length; lia). reflexivity. }
    unfold ok, key in *. rewrite !Hg by lia. exact Hv.
  - split; [exact B|].
    eapply perm_trans; [|apply Permutation_sym; exact C]. unfold h0.
    rewrite (app_removelast_last dflt (l := b :: t)) at 1 by discriminate.
    apply Permutation_sym, Permutation_cons_append.
Qed.

Theorem heap_py_contract : heap_contract heap_py is_heap_py.
Proof.
  constructor; unfold heap_py; cbn [heapify heappop_rest heapreplace].
  - exact heap_py_min.
  - exact heapify_py_spec.
  - exact heappop_py_spec.
  - exact heapreplace_py_spec.
Qed.
