(* Extraction of the easter model (regenerated) and spec.  ExtrOcamlBasic only. *)
Require Extraction.
Require Import ExtrOcamlBasic.
From Coq Require Import ZArith List.
From V Require Import base.Cal gen.EasterGen easter.EasterSpec.
Import ListNotations.
Open Scope Z_scope.

Definition enc (r : option (Z * Z * Z)) : list Z :=
  match r with Some (y, m, d) => [1; y; m; d] | None => [0] end.

(* entry 0: model easter_gen y method; entry 1: spec; entry 2: default method *)
Definition dispatch (n : Z) (args : list Z) : list Z :=
  match n, args with
  | 0, [y; m] => enc (easter_gen y m)
  | 1, [y; m] => enc (easter_spec y m)
  | 2, [] => [easter_default_method]
  | _, _ => [-1]
  end.

Extraction "model.ml" dispatch.
