(* Extraction of the POSIX-TZ / VTIMEZONE models and specification.  ExtrOcamlBasic only. *)
Require Extraction.
Require Import ExtrOcamlBasic.
From Coq Require Import ZArith List Bool.
From V Require Import base.Cal posix.PTime posix.RDelta posix.TzParseModel posix.TzRangeModel
     posix.PosixSpec posix.IcalModel posix.TzLocalModel posix.IcalConcModel.
Import ListNotations.
Open Scope Z_scope.

(* ---- decoders: every decoder returns (value, rest) ---- *)
Definition dstr (a : list Z) : option (list Z * list Z) :=
  match a with
  | n :: t => if n <? 0 then None else Some (firstn (Z.to_nat n) t, skipn (Z.to_nat n) t)
  | [] => None
  end.
Definition dostr (a : list Z) : option (option (list Z) * list Z) :=
  match a with
  | n :: t => if n <? 0 then Some (None, t)
              else Some (Some (firstn (Z.to_nat n) t), skipn (Z.to_nat n) t)
  | [] => None
  end.
Definition doz (a : list Z) : option (option Z * list Z) :=
  match a with
  | 0 :: t => Some (None, t)
  | 1 :: v :: t => Some (Some v, t)
  | _ => None
  end.
Definition dwd (a : list Z) : option (option (Z * Z) * list Z) :=
  match a with
  | 0 :: t => Some (None, t)
  | 1 :: w :: n :: t => Some (Some (w, n), t)
  | _ => None
  end.
Definition ddarg (a : list Z) : option (darg * list Z) :=
  match a with
  | 0 :: t => Some (ANone, t)
  | 1 :: t => Some (AFalse, t)
  | 2 :: d :: h :: mi :: s :: t =>
      match doz t with
      | Some (mo, t) =>
        match doz t with
        | Some (da, t) =>
          match dwd t with
          | Some (wd, t) =>
            match doz t with
            | Some (yd, t) =>
              match doz t with
              | Some (nl, t) => Some (AArgs (mkArgs d h mi s mo da wd yd nl), t)
              | None => None
              end
            | None => None
            end
          | None => None
          end
        | None => None
        end
      | None => None
      end
  | _ => None
  end.

Definition ddate (a : list Z) : option (drule * list Z) :=
  match a with
  | 0 :: n :: _ :: _ :: t => Some (DJ n, t)
  | 1 :: n :: _ :: _ :: t => Some (DN n, t)
  | 2 :: m :: w :: d :: t => Some (DM m w d, t)
  | _ => None
  end.
Definition drl (a : list Z) : option (prule * list Z) :=
  match ddate a with
  | Some (d, tm :: t) => Some (mkPrule d tm, t)
  | _ => None
  end.
(* posix AST: off, name, hasdst, [dname, doff, start rule, end rule] *)
Definition dposix (a : list Z) : option (posix * list Z) :=
  match a with
  | off :: t =>
    match dstr t with
    | Some (nm, 0 :: t) => Some (mkPosix nm off None, t)
    | Some (nm, 1 :: t) =>
      match dstr t with
      | Some (dn, doff :: t) =>
        match drl t with
        | Some (s, t) =>
          match drl t with
          | Some (e, t) => Some (mkPosix nm off (Some (mkDst dn doff s e)), t)
          | None => None
          end
        | None => None
        end
      | _ => None
      end
    | _ => None
    end
  | [] => None
  end.

(* ---- encoders ---- *)
Definition estr (s : list Z) : list Z := Z.of_nat (length s) :: s.
Definition eostr (o : option (list Z)) : list Z :=
  match o with None => [-1] | Some s => estr s end.
Definition eoz (o : option Z) : list Z := match o with None => [0] | Some v => [1; v] end.
Definition eb (b : bool) : Z := if b then 1 else 0.

Definition eattr (x : tzattr) : list Z :=
  eoz x.(x_month) ++ eoz x.(x_week) ++ eoz x.(x_weekday) ++ eoz x.(x_yday) ++
  eoz x.(x_jyday) ++ eoz x.(x_day) ++ eoz x.(x_time).

Definition eparse (p : res (option tzres)) : list Z :=
  match p with
  | Err e => [e]
  | Ok None => [-1]
  | Ok (Some r) =>
      [0] ++ eostr r.(r_stdabbr) ++ eoz r.(r_stdoffset) ++ eostr r.(r_dstabbr) ++
      eoz r.(r_dstoffset) ++ eattr r.(r_start) ++ eattr r.(r_end) ++ [eb r.(r_unused)]
  end.

Definition ezone (z : res zone) : list Z :=
  match z with
  | Err e => [e]
  | Ok z => [0; eb z.(z_hasdst); z.(z_std_off); z.(z_dst_off)] ++ eostr z.(z_std_abbr) ++
            eostr z.(z_dst_abbr)
  end.

Definition eobs (o : res obs) : list Z :=
  match o with
  | Err e => [e]
  | Ok o => [0; o.(o_wall); eb o.(o_fold); o.(o_off); o.(o_dst)] ++ eostr o.(o_name)
  end.
Definition ewall (o : res (Z * Z * option (list Z))) : list Z :=
  match o with
  | Err e => [e]
  | Ok (off, d, n) => [0; off; d] ++ eostr n
  end.

Definition utc_batch (z : res zone) (us : list Z) : list Z :=
  match z with
  | Err e => [e]
  | Ok z => 0 :: flat_map (fun u => eobs (observe_utc z u)) us
  end.
Fixpoint pairs (l : list Z) : list (Z * bool) :=
  match l with
  | w :: f :: t => (w, negb (f =? 0)) :: pairs t
  | _ => []
  end.
Definition wall_batch (z : res zone) (ws : list Z) : list Z :=
  match z with
  | Err e => [e]
  | Ok z => 0 :: flat_map (fun '(w, f) => ewall (observe_wall z w f)) (pairs ws)
  end.

Definition dtzstr (a : list Z) : option (res zone * list Z) :=
  match a with
  | po :: t => match dstr t with
               | Some (s, t) => Some (tzstr_init s (negb (po =? 0)), t)
               | None => None
               end
  | [] => None
  end.

Definition dtzrange (a : list Z) : option (res zone * list Z) :=
  match dostr a with
  | Some (sa, t) =>
    match doz t with
    | Some (so, t) =>
      match dostr t with
      | Some (da, t) =>
        match doz t with
        | Some (dof, t) =>
          match ddarg t with
          | Some (s, t) =>
            match ddarg t with
            | Some (e, t) => Some (tzrange_init sa so da dof s e, t)
            | None => None
            end
          | None => None
          end
        | None => None
        end
      | None => None
      end
    | None => None
    end
  | None => None
  end.

(* ---- ical ---- *)
Fixpoint dcomps (n : nat) (a : list Z) : option (list comp * list Z) :=
  match n with
  | O => Some ([], a)
  | S n' =>
    match a with
    | k :: t =>
      let ons := firstn (Z.to_nat k) t in
      match skipn (Z.to_nat k) t with
      | fr :: to :: isd :: t =>
        match dostr t with
        | Some (nm, t) =>
          match dcomps n' t with
          | Some (cs, t) => Some (mkComp ons fr to (negb (isd =? 0)) nm :: cs, t)
          | None => None
          end
        | None => None
        end
      | _ => None
      end
    | [] => None
    end
  end.
Definition dcomplist (a : list Z) : option (list comp * list Z) :=
  match a with n :: t => dcomps (Z.to_nat n) t | [] => None end.

Definition eres5 (o : res (Z * bool * Z * Z * option (list Z))) : list Z :=
  match o with
  | Err e => [e]
  | Ok (w, f, off, d, n) => [0; w; eb f; off; d] ++ eostr n
  end.

Fixpoint dlines (n : nat) (a : list Z) : option (list (list Z) * list Z) :=
  match n with
  | O => Some ([], a)
  | S n' => match dstr a with
            | Some (l, t) => match dlines n' t with
                             | Some (ls, t) => Some (l :: ls, t)
                             | None => None
                             end
            | None => None
            end
  end.

Definition epcomp (c : pcomp) : list Z :=
  [c.(pc_from); c.(pc_to); eb c.(pc_isdst)] ++ eostr c.(pc_name) ++
  [Z.of_nat (length c.(pc_rrulelines))].
Definition ezones (v : list (list Z * list pcomp)) : list Z :=
  Z.of_nat (length v) ::
  flat_map (fun '(k, cs) => estr k ++ Z.of_nat (length cs) :: flat_map epcomp cs) v.

Definition eres_z (r : res Z) : list Z := match r with Ok v => [0; v] | Err e => [e] end.

(* ---- interleaved lookups on one shared zone object ---- *)
Fixpoint dtodos (n : nat) (a : list Z) : option (list (list key) * list Z) :=
  match n with
  | O => Some ([], a)
  | S n' =>
    match a with
    | k :: t =>
      let qs := pairs (firstn (2 * Z.to_nat k) t) in
      match dtodos n' (skipn (2 * Z.to_nat k) t) with
      | Some (r, rest) => Some (qs :: r, rest)
      | None => None
      end
    | [] => None
    end
  end.
Definition eout (o : list (key * res nat)) : list Z :=
  Z.of_nat (length o) :: flat_map (fun '(_, a) => match a with Ok c => [0; Z.of_nat c] | Err e => [e; 0] end) o.
Definition conc_run (cs : list comp) (todos : list (list key)) (sched : list Z) : list Z :=
  let '(sh, ths) := run cs true (map Z.to_nat sched) (mkSh [] []) (map fresh todos) in
  flat_map (fun th => eout th.(t_out)) ths ++
  Z.of_nat (length sh.(sh_dates)) ::
  flat_map (fun '(q, c) => [fst q; eb (snd q); Z.of_nat c]) (combine sh.(sh_dates) sh.(sh_comps)).

(* ---- dispatch ---- *)
Definition dispatch (n : Z) (args : list Z) : list Z :=
  match n with
  | 10 => match dtzstr args with Some (z, _) => ezone z | None => [-9] end
  | 11 => match dtzstr args with Some (z, us) => utc_batch z us | None => [-9] end
  | 12 => match dtzstr args with Some (z, ws) => wall_batch z ws | None => [-9] end
  | 13 => match dtzrange args with Some (z, _) => ezone z | None => [-9] end
  | 14 => match dtzrange args with Some (z, us) => utc_batch z us | None => [-9] end
  | 15 => match dtzrange args with Some (z, ws) => wall_batch z ws | None => [-9] end
  | 16 => eparse (tzparse args)
  | 17 => (* transitions of a tzstr for a year *)
      match dtzstr args with
      | Some (Ok z, [y]) => match transitions z y with
                            | Ok (Some (s, e)) => [0; s; e]
                            | Ok None => [-1]
                            | Err e => [e]
                            end
      | Some (Err e, _) => [e]
      | _ => [-9]
      end
  | 20 => match dposix args with
          | Some (r, us) => flat_map (fun u => let '(off, d, nm) := posix_observe r u in
                                               [off; d] ++ estr nm) us
          | None => [-9]
          end
  | 21 => match dposix args with
          | Some (r, ws) =>
              flat_map (fun w => wall_class r w ::
                                 match wall_instant r w false, wall_instant r w true with
                                 | Some a, Some b => [a; b]
                                 | _, _ => [0; 0]
                                 end) ws
          | None => [-9]
          end
  | 22 => match dposix args with Some (r, _) => render_posix r | None => [-9] end
  | 23 => match dposix args with
          | Some (r, _) => [eb (wf_posix r); eb (guard_apart r); eb (guard_d8 r);
                            eb (not_gmt_utc r.(p_name))]
          | None => [-9]
          end
  | 24 => match dposix args with
          | Some (r, [y]) => match r.(p_dst) with
                             | Some ds => [start_utc r.(p_off) ds y; end_utc ds y]
                             | None => [-1]
                             end
          | _ => [-9]
          end
  | 26 => match dposix args with
          | Some (r, us) => map (fun u => eb (posix_fold r u)) us
          | None => [-9]
          end
  | 25 => (* tzlocal model over the spec as C library: [tj; tl; wall queries] *)
      match dposix args with
      | Some (r, tj :: tl :: ws) =>
          flat_map (fun '(w, f) => let '(off, d, nm) := tzlocal_observe_wall r tj tl w f in
                                   [off; d] ++ estr nm) (pairs ws)
      | _ => [-9]
      end
  | 27 => (* tzlocal model, UTC -> local: [tj; tl; instants] *)
      match dposix args with
      | Some (r, tj :: tl :: us) =>
          flat_map (fun u => let '(w, f, off, d, nm) := tzlocal_observe_utc r tj tl u in
                             [w; eb f; off; d] ++ estr nm) us
      | _ => [-9]
      end
  | 28 => (* CPython's time module over the spec as C library: [tj; tl] *)
      match dposix args with
      | Some (r, [tj; tl]) =>
          let '(so, ao, dl, sn, dn) := tzlocal_of r tj tl in [so; ao; eb dl] ++ estr sn ++ estr dn
      | _ => [-9]
      end
  | 30 => match dcomplist args with
          | Some (cs, us) => flat_map (fun u => eres5 (ic_observe_utc cs u)) us
          | None => [-9]
          end
  | 31 => match dcomplist args with
          | Some (cs, ws) => flat_map (fun '(w, f) => ewall (ic_observe_wall cs w f)) (pairs ws)
          | None => [-9]
          end
  | 32 => match dcomplist args with
          | Some (cs, ws) => flat_map eres_z (run_queries cs [] (pairs ws))
          | None => [-9]
          end
  | 33 => match args with
          | k :: t => match dlines (Z.to_nat k) t with
                      | Some (ls, _) => match parse_rfc ls with
                                        | Ok v => 0 :: ezones v
                                        | Err e => [e]
                                        end
                      | None => [-9]
                      end
          | [] => [-9]
          end
  | 36 => match dcomplist args with
          | Some (cs, n :: t) =>
              match dtodos (Z.to_nat n) t with
              | Some (todos, sched) => conc_run cs todos sched
              | None => [-9]
              end
          | _ => [-9]
          end
  | 34 => match parse_offset args with Ok v => [0; v] | Err e => [e] end
  | 35 => (* get(tzid) after parse: args = has_tzid, tzid str, nlines, lines *)
      match args with
      | h :: t =>
        match dstr t with
        | Some (k, n :: t) =>
          match dlines (Z.to_nat n) t with
          | Some (ls, _) =>
            match parse_rfc ls with
            | Ok v => match ical_get v (if h =? 0 then None else Some k) with
                      | Ok None => [0; -1]
                      | Ok (Some cs) => [0; Z.of_nat (length cs)]
                      | Err e => [e]
                      end
            | Err e => [e]
            end
          | None => [-9]
          end
        | _ => [-9]
        end
      | [] => [-9]
      end
  | _ => [-1]
  end.

Extraction "model.ml" dispatch.
