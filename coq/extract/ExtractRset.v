(* Extraction of the rruleset model and spec (C10).  ExtrOcamlBasic only. *)
Require Extraction.
Require Import ExtrOcamlBasic.
From Coq Require Import ZArith List Bool.
From V Require Import rset.RSetModel rset.RSetSpec rset.RSetHist rset.RSetLit rset.RSetHeapq rset.RSetHist2.
Import ListNotations.
Open Scope Z_scope.

(* ---- decoding of flat integer arguments *)
Fixpoint dec_lists (k : nat) (l : list Z) : list (list Z) * list Z :=
  match k with
  | O => ([], l)
  | S k' =>
      match l with
      | [] => ([], [])
      | len :: r =>
          let n := Z.to_nat len in
          let (ls, rest) := dec_lists k' (skipn n r) in
          (firstn n r :: ls, rest)
      end
  end.

Definition dec_counted_lists (l : list Z) : list (list Z) * list Z :=
  match l with
  | [] => ([], [])
  | k :: r => dec_lists (Z.to_nat k) r
  end.

Definition dec_counted (l : list Z) : list Z * list Z :=
  match l with
  | [] => ([], [])
  | k :: r => (firstn (Z.to_nat k) r, skipn (Z.to_nat k) r)
  end.

(* set := n_rr {len e..}..  n_rd e..  n_exr {len e..}..  n_exd e.. ; returns the rest too *)
Definition dec_set (l : list Z) : (list (list Z) * list Z * list (list Z) * list Z) * list Z :=
  let (rr, l1) := dec_counted_lists l in
  let (rd, l2) := dec_counted l1 in
  let (exr, l3) := dec_counted_lists l2 in
  let (exd, l4) := dec_counted l3 in
  ((rr, rd, exr, exd), l4).

(* tagged: a rule is (tag :: instants) (len counts the tag), a date is two integers tag, instant *)
Definition untag_rule (l : list Z) : Z * list Z := (hd 0 l, tl l).
Fixpoint pairs (l : list Z) : list (Z * Z) :=
  match l with
  | a :: b :: r => (a, b) :: pairs r
  | _ => []
  end.

Definition enc_opt (p : option Z) : Z := match p with Some n => n | None => -1 end.

Definition enc_iter (r : option (list Z * option Z)) : list Z :=
  match r with
  | Some (l, p) => 1 :: enc_opt p :: l
  | None => [9]
  end.

Definition dispatch (n : Z) (args : list Z) : list Z :=
  match n with
  | 0 => let '((rr, rd, exr, exd), _) := dec_set args in enc_iter (rset_iter heap_first rr rd exr exd)
  | 1 => let '((rr, rd, exr, exd), _) := dec_set args in enc_iter (rset_iter heap_last rr rd exr exd)
  | 2 => let '((rr, rd, exr, exd), _) := dec_set args in
         let s := spec_set rr rd exr exd in 1 :: Z.of_nat (length s) :: s
  | 3 => let '((rr, rd, exr, exd), _) := dec_set args in
         match rset_iter_tagged heap_first (map untag_rule rr) (pairs rd) (map untag_rule exr) (pairs exd) with
         | TOk l p => 1 :: enc_opt p :: l
         | TTypeError => [2]
         | TNoFuel => [9]
         end
  | 4 => let '((rr, rd, exr, exd), _) := dec_set args in enc_iter (rset_iter_l (heap_sel_l false) rr rd exr exd)
  | 5 => let '((rr, rd, exr, exd), _) := dec_set args in enc_iter (rset_iter heap_py rr rd exr exd)
  | 10 => hist_dispatch heap_first args
  | 11 => hist_dispatch heap_last args
  | 12 => hist_spec_dispatch args
  | 13 => hist_dispatch heap_py args
  | 14 => match args with
          | c :: r => [b2z (mild_history heap_first (z2b c) (dec_ops (length r) r))]
          | [] => [-1]
          end
  | _ => [-1]
  end.

Extraction "model.ml" dispatch.
