(* Extraction of the relativedelta model and specs (C03, C09, C16).  ExtrOcamlBasic only. *)
Require Extraction.
Require Import ExtrOcamlBasic.
From Coq Require Import ZArith List Bool.
From V Require Import base.Cal gen.RdTables rd.RdBase rd.RdModel rd.RdSpec rd.RdAwareModel.
Import ListNotations.
Open Scope Z_scope.

(* ---- decoders: consume a prefix of the argument list *)
Definition dec (A : Type) : Type := list Z -> option (A * list Z).

Definition d_z : dec Z := fun l => match l with x :: r => Some (x, r) | [] => None end.

Definition d_opt : dec (option Z) := fun l =>
  match l with f :: v :: r => Some (if f =? 0 then None else Some v, r) | _ => None end.

Definition d_rel : dec relf := fun l =>
  match l with
  | y :: mo :: d :: h :: mi :: s :: us :: r => Some (mkrel y mo d h mi s us, r)
  | _ => None
  end.

Definition d_abs : dec absf := fun l =>
  match d_opt l with Some (y, l) =>
  match d_opt l with Some (mo, l) =>
  match d_opt l with Some (d, l) =>
  match d_opt l with Some (h, l) =>
  match d_opt l with Some (mi, l) =>
  match d_opt l with Some (s, l) =>
  match d_opt l with Some (us, l) => Some (mkabs y mo d h mi s us, l)
  | None => None end | None => None end | None => None end | None => None end
  | None => None end | None => None end | None => None end.

Definition d_wd : dec (option wdv) := fun l =>
  match l with
  | f :: w :: nf :: n :: r =>
      Some (if f =? 0 then None else Some (w, if nf =? 0 then None else Some n), r)
  | _ => None
  end.

Definition d_wdarg : dec wdarg := fun l =>
  match l with
  | t :: w :: nf :: n :: r =>
      Some (if t =? 0 then WNone else if t =? 1 then WInt w
            else WObj w (if nf =? 0 then None else Some n), r)
  | _ => None
  end.

Definition d_rd : dec rd := fun l =>
  match d_rel l with Some (r, l) =>
  match d_z l with Some (lp, l) =>
  match d_abs l with Some (a, l) =>
  match d_wd l with Some (w, l) => Some (mkrd r lp a w, l)
  | None => None end | None => None end | None => None end | None => None end.

Definition d_kw : dec kwargs := fun l =>
  match d_rel l with Some (r, l) =>
  match d_z l with Some (lp, l) =>
  match d_z l with Some (wk, l) =>
  match d_abs l with Some (a, l) =>
  match d_wdarg l with Some (w, l) =>
  match d_opt l with Some (yd, l) =>
  match d_opt l with Some (nl, l) => Some (mkkw r lp wk a w yd nl, l)
  | None => None end | None => None end | None => None end | None => None end
  | None => None end | None => None end | None => None end.

Definition d_dt : dec pydt := fun l =>
  match l with
  | k :: y :: m :: d :: hh :: mi :: ss :: us :: r =>
      Some (if k =? 0 then PD y m d else PDT y m d hh mi ss us, r)
  | _ => None
  end.

(* ---- encoders *)
Definition e_opt (a : option Z) : list Z := match a with Some v => [1; v] | None => [0; 0] end.
Definition e_rel (r : relf) : list Z :=
  [f_years r; f_months r; f_days r; f_hours r; f_minutes r; f_seconds r; f_us r].
Definition e_abs (a : absf) : list Z :=
  e_opt (a_year a) ++ e_opt (a_month a) ++ e_opt (a_day a) ++ e_opt (a_hour a) ++
  e_opt (a_minute a) ++ e_opt (a_second a) ++ e_opt (a_us a).
Definition e_wd (w : option wdv) : list Z :=
  match w with
  | None => [0; 0; 0; 0]
  | Some (k, None) => [1; k; 0; 0]
  | Some (k, Some n) => [1; k; 1; n]
  end.
Definition e_rd (d : rd) : list Z := e_rel (rel d) ++ [leapdays d] ++ e_abs (ab d) ++ e_wd (wd d).
Definition e_dt (o : pydt) : list Z :=
  match o with
  | PD y m d => [0; y; m; d; 0; 0; 0; 0]
  | PDT y m d hh mi ss us => [1; y; m; d; hh; mi; ss; us]
  end.
Definition e_err (e : err) : Z :=
  match e with EValue => 1 | EOverflow => 2 | EAssert => 3 | EIndex => 4 | EFuel => 5 end.
Definition e_res {A : Type} (enc : A -> list Z) (r : res A) : list Z :=
  match r with Ok a => 0 :: enc a | Err e => [1; e_err e] end.
Definition e_optv {A : Type} (enc : A -> list Z) (r : option A) : list Z :=
  match r with Some a => 1 :: enc a | None => [0] end.
Definition e_b (b : bool) : Z := if b then 1 else 0.
Definition e_hash (d : rd) : list Z :=
  let '(w, r, lp, a) := hash_key d in
  (match w with Some (k, n) => [1; k; n] | None => [0; 0; 0] end) ++ e_rel r ++ [lp] ++ e_abs a.

Definition bad : list Z := [-1].

Definition with1 {A : Type} (da : dec A) (args : list Z) (f : A -> list Z) : list Z :=
  match da args with Some (a, []) => f a | _ => bad end.
Definition with2 {A B : Type} (da : dec A) (db : dec B) (args : list Z) (f : A -> B -> list Z) : list Z :=
  match da args with
  | Some (a, l) => match db l with Some (b, []) => f a b | _ => bad end
  | None => bad
  end.
Definition with3 {A B C : Type} (da : dec A) (db : dec B) (dc : dec C) (args : list Z)
  (f : A -> B -> C -> list Z) : list Z :=
  match da args with
  | Some (a, l) =>
      match db l with
      | Some (b, l) => match dc l with Some (c, []) => f a b c | _ => bad end
      | None => bad
      end
  | None => bad
  end.

Definition diff_report (dt1 dt2 : pydt) (d : rd) : list Z :=
  let '(c1, c2) := coerce_pair dt1 dt2 in
  [e_b (diff_ok dt1 dt2 d); e_b (only_relative d); e_b (diff_normalised_b d);
   e_b (match spec_add d c2 with Some x => pydt_eqb x c1 | None => false end);
   e_b (months_maximal c1 c2 d)].

(* utcoffset table: count k, then k pairs (wall position, offset) *)
Fixpoint d_pairs (k : nat) (l : list Z) : option (list (Z * Z) * list Z) :=
  match k with
  | O => Some ([], l)
  | S k' =>
      match l with
      | a :: b :: r => match d_pairs k' r with Some (t, r') => Some ((a, b) :: t, r') | None => None end
      | _ => None
      end
  end.
Definition d_offtab : dec (list (Z * Z)) := fun l =>
  match l with
  | k :: r => if (0 <=? k) && (k <=? 64) then d_pairs (Z.to_nat k) r else None
  | [] => None
  end.

Definition dispatch (n : Z) (args : list Z) : list Z :=
  match n with
  (* model *)
  | 1 => with1 d_kw args (fun k => e_res e_rd (mk k))
  | 2 => with2 d_rd d_dt args (fun d o => e_res e_dt (add_dt d o))
  | 3 => with2 d_rd d_dt args (fun d o => e_res e_dt (rsub d o))
  | 4 => with1 d_rd args (fun d => e_rd (neg d))
  | 5 => with1 d_rd args (fun d => e_rd (abs_rd d))
  | 6 => with2 d_rd d_rd args (fun a b => e_rd (add_rd a b))
  | 7 => with2 d_rd d_rd args (fun a b => e_rd (sub_rd a b))
  | 8 => with2 d_rd d_z args (fun d k => e_rd (mul_int d k))
  | 9 => with2 d_rd d_rel args (fun d p => e_rd (mul_with d p))
  | 10 => with1 d_rd args (fun d => e_rd (normalized d))
  | 11 => with2 d_rd d_rd args (fun a b => [e_b (eqb a b)])
  | 12 => with1 d_rd args e_hash
  | 13 => with1 d_rd args (fun d => [e_b (rd_bool d)])
  | 14 => with1 d_rd args (fun d => [e_b (has_time d)])
  | 15 => with2 d_dt d_dt args (fun a b => e_res e_rd (mk_diff a b))
  | 16 => with2 d_rd d_dt args (fun d o => e_res e_dt (radd d o))
  (* specs *)
  | 20 => with2 d_rd d_dt args (fun d o => e_optv e_dt (spec_add d o))
  | 21 => with1 d_rd args (fun d => [e_b (wf_rd d)])
  | 22 => with3 d_dt d_dt d_rd args diff_report
  | 23 => with1 d_rd args (fun d => [e_b (norm_rel (rel d)); e_b (rd_empty d); e_b (no_relative d)])
  | 24 => with2 d_dt d_z args (fun o k => e_optv e_dt (month_shift o k))
  | 25 => with2 d_z d_z args (fun y n => e_optv (fun '(a, b, c) => [a; b; c]) (spec_yearday_date y n))
  | 26 => with2 d_z d_z args (fun y n => e_optv (fun '(a, b, c) => [a; b; c]) (spec_nlyearday_date y n))
  | 27 => with2 d_rd d_dt args (fun d o => e_optv e_dt (spec_add_raw d o))
  | 28 => with3 d_offtab d_dt d_dt args (fun t a b => e_res e_rd (mk_diff_aware (off_lookup t) a b))
  | _ => bad
  end.

Extraction "model.ml" dispatch.
