(* Extraction of the rrulebase cache transition system (C11) and the query models / specs (C12).
   ExtrOcamlBasic only.

   Wire formats (all integers):
     list   : n x1 .. xn
     option : flag v            (flag 0 = None)
     op     : code a b inc      (0 OList, 1 OTake a, 2 OGet a, 3 OCount, 4 OContains a,
                                 5 OBetween a b inc, 6 OBefore a inc, 7 OAfter a inc,
                                 8 OSliceTo a = rule[:a], 9 ONegIdx a = rule[-(a+1)],
                                 10 OXafter a (count b if inc >= 2) (inc odd))
     outcome: Ret l -> 1 n l.. ; Raise e -> 2 e   (e: 1 IndexError, 2 TypeError, 3 ValueError)
     qres   : QVal v -> 0 v ; QNone -> 1 ; QList l -> 2 l.. ; QBool b -> 3 b ; QIndexError -> 4 ;
              QValueError -> 5
   Entries:
     (flags = fixed + 2*raises: 1 = the code after bb46216 with a generator that ends normally,
              3 = same code, generator that raises ValueError after seq)
     10  flags seq m ops.. hist..      single-threaded history; hist = pairs (kind, tid):
                                       0 create (one step: the __iter__/query entry test), 1 next(), 2 run to completion
     11  flags seq m ops.. sched..     thread schedule -> per entry 10 ints
                                       (enabled pc_before |cache| complete gen_alive owner+1 len+1 i |out| pc_after)
                                       then -1 all_done stuck, then per thread: pc outcome-or-0
     12  seq op                        spec_result ; 13 seq op  spec_result_raising
     20..33                            C12 model (even) / spec (odd), see dispatch
     34  l a b c (options)             py_slice ; 35 islice ; 36 l k py_index
     40  rrule constructor arguments   the recorded _original_rule dictionary (RReplace.record) *)
Require Extraction.
Require Import ExtrOcamlBasic.
From Coq Require Import ZArith List Bool.
From V Require Import rcache.PyList rcache.RCacheModel rcache.RCacheSpec rcache.RQueryModel rcache.RQuerySpec.
From V Require rr.RRBase rr.RRNorm rcache.RReplace.
Import ListNotations.
Open Scope Z_scope.

Definition b2z (b : bool) : Z := if b then 1 else 0.
Definition z2b (z : Z) : bool := negb (z =? 0).
Definition n2z (n : nat) : Z := Z.of_nat n.

Fixpoint take (n : nat) (l : list Z) : option (list Z * list Z) :=
  match n with
  | O => Some ([], l)
  | S m => match l with
           | [] => None
           | x :: r => match take m r with
                       | Some (a, b) => Some (x :: a, b)
                       | None => None
                       end
           end
  end.

Definition take_list (l : list Z) : option (list Z * list Z) :=
  match l with
  | n :: r => if n <? 0 then None else take (Z.to_nat n) r
  | [] => None
  end.

Definition dec_opt (f v : Z) : option Z := if f =? 0 then None else Some v.

Definition dec_op (c a b i : Z) : option op :=
  if c =? 0 then Some OList
  else if c =? 1 then Some (OTake (Z.to_nat a))
  else if c =? 2 then Some (OGet (Z.to_nat a))
  else if c =? 3 then Some OCount
  else if c =? 4 then Some (OContains a)
  else if c =? 5 then Some (OBetween a b (z2b i))
  else if c =? 6 then Some (OBefore a (z2b i))
  else if c =? 7 then Some (OAfter a (z2b i))
  else if c =? 8 then Some (OSliceTo (Z.to_nat a))
  else if c =? 9 then Some (ONegIdx (Z.to_nat a))
  else if c =? 10 then Some (OXafter a (if 2 <=? i then Some b else None) (Z.odd i))
  else None.

Fixpoint dec_ops (m : nat) (l : list Z) : option (list op * list Z) :=
  match m with
  | O => Some ([], l)
  | S k => match l with
           | c :: a :: b :: i :: r =>
               match dec_op c a b i, dec_ops k r with
               | Some o, Some (os, rest) => Some (o :: os, rest)
               | _, _ => None
               end
           | _ => None
           end
  end.

Definition enc_exn (e : exn) : Z := match e with EIndexError => 1 | ETypeError => 2 | EValueError => 3 end.
Definition enc_outcome (o : outcome) : list Z :=
  match o with
  | Ret l => 1 :: n2z (length l) :: l
  | Raise e => [2; enc_exn e]
  end.

Definition enc_qres (r : qres) : list Z :=
  match r with
  | QVal v => [0; v]
  | QNone => [1]
  | QList l => 2 :: l
  | QBool b => [3; b2z b]
  | QIndexError => [4]
  | QValueError => [5]
  end.

Definition pc_code (p : pc) : Z :=
  match p with
  | PQTest => 100 | PLenTest => 101 | PIterTest => 102 | PRetLen => 103 | PDone => 104
  | PInit => 1 | PGetGen => 2 | PGetCache => 3 | PGetAcq => 4 | PGetRel => 5 | PWhile => 6
  | PIfLen => 7 | PAcquire => 8 | PTryO => 9 | PTestC => 10 | PBreakC => 11 | PTryI => 12
  | PFor _ => 13 | PAdvance _ => 14 | PGenPub _ => 14 | PExcept => 15 | PSetGen => 16
  | PSetC => 17 | PBreakE => 18 | PRelease _ => 20 | PExcX => 15 | PRelX => 20 | PYield => 21 | PIncr => 22
  | PTWhile => 23 | PTYield => 24 | PTIncr => 25
  end.

(* ---------------------------------------------------------------- single-threaded histories *)

(* RCacheThm.history_drivers_total: this fuel is never exhausted (fixed code, generator ends normally) *)
Definition fuel_for (seq : list Z) : nat := 64 * (length seq + 1) + 80.

Definition delivered (dl : list nat) (t : nat) : nat := nth t dl O.

(* dl = values already delivered per iterator; rz = iterator whose exception was already delivered
   (a Python generator that raised is finished: a later next() is StopIteration) *)
Fixpoint hist_run (seq : list Z) (fixed raises : bool) (h : list Z) (s : state) (dl : list nat)
                  (rz : list bool) : list Z :=
  match h with
  | k :: t :: r =>
      let tn := Z.to_nat t in
      if k =? 0 then
        match step seq fixed raises s tn with
        | Some s' => 9 :: hist_run seq fixed raises r s' dl rz
        | None => [8]
        end
      else if k =? 1 then
        match run_next seq fixed raises (fuel_for seq) s tn (delivered dl tn) with
        | NValue v s' => 1 :: v :: hist_run seq fixed raises r s' (upd dl tn (S (delivered dl tn))) rz
        | NStop s' => 0 :: hist_run seq fixed raises r s' dl rz
        | NRaise e s' =>
            if nth tn rz false then 0 :: hist_run seq fixed raises r s' dl rz
            else 2 :: enc_exn e :: hist_run seq fixed raises r s' dl (upd rz tn true)
        | NDeadlock => [3]
        | NFuel => [4]
        end
      else
        match run_done seq fixed raises (fuel_for seq) s tn with
        | Some (Some s') =>
            match nth_error (thr s') tn with
            | Some th => match t_res th with
                         | Some o => 5 :: enc_outcome o ++ hist_run seq fixed raises r s' dl rz
                         | None => [7]
                         end
            | None => [7]
            end
        | Some None => [3]
        | None => [4]
        end
  | _ => []
  end.

(* ---------------------------------------------------------------- thread schedules *)

(* one granted line; the generator-internal point PGenPub is not a line of _iter_cached *)
Definition vstep (seq : list Z) (fixed raises : bool) (s : state) (t : nat) : option state :=
  match step seq fixed raises s t with
  | None => None
  | Some s' =>
      match pc_of s' t with
      | Some (PGenPub _) => step seq fixed raises s' t
      | _ => Some s'
      end
  end.

Definition snap (s : state) (t : nat) : list Z :=
  let sd := sh s in
  [ n2z (length (cache sd)); b2z (complete sd); b2z (sgen sd);
    match lock sd with Some o => n2z o + 1 | None => 0 end;
    match lenp sd with Some n => n2z n + 1 | None => 0 end ] ++
  match nth_error (thr s) t with
  | Some th => [ n2z (t_i th); n2z (length (t_out th)); pc_code (t_pc th) ]
  | None => [ -1; -1; -1 ]
  end.

Definition enc_final (seq : list Z) (fixed raises : bool) (s : state) : list Z :=
  [-1; b2z (all_done s); b2z (stuck seq fixed raises s)] ++
  flat_map (fun th => pc_code (t_pc th) ::
                      match t_res th with Some o => enc_outcome o | None => [0] end) (thr s).

Fixpoint trace_run (seq : list Z) (fixed raises : bool) (sched : list Z) (s : state) : list Z :=
  match sched with
  | [] => enc_final seq fixed raises s
  | t :: r =>
      let tn := Z.to_nat t in
      match nth_error (thr s) tn with
      | None => [-2]
      | Some th =>
          match vstep seq fixed raises s tn with
          | None => 0 :: pc_code (t_pc th) :: snap s tn ++ trace_run seq fixed raises r s
          | Some s' => 1 :: pc_code (t_pc th) :: snap s' tn ++ trace_run seq fixed raises r s'
          end
      end
  end.

Definition with_prog (args : list Z) (k : bool -> bool -> list Z -> list op -> list Z -> list Z) : list Z :=
  match args with
  | fx :: r =>
      match take_list r with
      | Some (sq, m :: r2) =>
          if m <? 0 then [-1]
          else match dec_ops (Z.to_nat m) r2 with
               | Some (ops, rest) => k (Z.odd fx) (2 <=? fx) sq ops rest
               | None => [-1]
               end
      | _ => [-1]
      end
  | [] => [-1]
  end.

(* ---------------------------------------------------------------- C12, replace(): _original_rule *)

(* option list: 0 | 1 n x1..xn *)
Definition dec_olist (l : list Z) : option (option (list Z) * list Z) :=
  match l with
  | 0 :: r => Some (None, r)
  | _ :: r => match take_list r with Some (v, rest) => Some (Some v, rest) | None => None end
  | [] => None
  end.

Fixpoint zpairs (l : list Z) : list (Z * Z) :=
  match l with a :: b :: r => (a, b) :: zpairs r | _ => [] end.

Fixpoint dec_olists (n : nat) (l : list Z) : option (list (option (list Z)) * list Z) :=
  match n with
  | O => Some ([], l)
  | S k => match dec_olist l with
           | Some (v, rest) => match dec_olists k rest with
                               | Some (vs, rest') => Some (v :: vs, rest')
                               | None => None
                               end
           | None => None
           end
  end.

Definition enc_ent (e : RReplace.ent Z) : list Z :=
  match e with RReplace.Absent => [0] | RReplace.RNone => [1] | RReplace.RVal v => 2 :: n2z (length v) :: v end.
Definition enc_ent_pairs (e : RReplace.ent (Z * Z)) : list Z :=
  match e with
  | RReplace.Absent => [0] | RReplace.RNone => [1]
  | RReplace.RVal v => 2 :: n2z (length v) :: flat_map (fun wn => [fst wn; snd wn]) v
  end.

(* freq isdate y m d H M S interval, then bysetpos bymonth bymonthday byyearday byeaster byweekno byhour
   byminute bysecond (option lists), then byweekday (option list of flattened pairs) *)
Definition record_entry (args : list Z) : list Z :=
  match args with
  | fr :: isd :: y :: m :: d :: hh :: mm :: ss :: itv :: rest =>
      match dec_olists 9 rest with
      | Some ([bsp; bm; bmd; byd; be; bwn; bh; bmi; bs], rest2) =>
          match dec_olist rest2 with
          | Some (bwd, []) =>
              let r := RRNorm.mkRaw fr (z2b isd) y m d hh mm ss itv 0 None None false
                             bsp bm bmd byd be bwn (option_map zpairs bwd) bh bmi bs in
              let o := RReplace.record r in
              enc_ent (RReplace.o_bysetpos o) ++ enc_ent (RReplace.o_bymonth o) ++ enc_ent (RReplace.o_bymonthday o) ++
              enc_ent (RReplace.o_byyearday o) ++ enc_ent (RReplace.o_byeaster o) ++ enc_ent (RReplace.o_byweekno o) ++
              enc_ent (RReplace.o_byhour o) ++ enc_ent (RReplace.o_byminute o) ++ enc_ent (RReplace.o_bysecond o) ++
              enc_ent_pairs (RReplace.o_byweekday o)
          | _ => [-1]
          end
      | _ => [-1]
      end
  | _ => [-1]
  end.

(* ---------------------------------------------------------------- C12 *)

Definition dec_item (l : list Z) : option item :=
  match l with
  | [0; k] => Some (IInt k)
  | [1; fa; a; fb; b; fc; c] => Some (ISlice (dec_opt fa a) (dec_opt fb b) (dec_opt fc c))
  | _ => None
  end.

Definition with_list (args : list Z) (k : bool -> list Z -> list Z -> list Z) : list Z :=
  match args with
  | c :: r => match take_list r with
              | Some (l, rest) => k (z2b c) l rest
              | None => [-1]
              end
  | [] => [-1]
  end.

Definition dispatch (n : Z) (args : list Z) : list Z :=
  match n with
  | 10 => with_prog args (fun fx rz sq ops rest =>
            hist_run sq fx rz rest (init ops) (map (fun _ => O) ops) (map (fun _ => false) ops))
  | 11 => with_prog args (fun fx rz sq ops rest => trace_run sq fx rz rest (init ops))
  | 13 => match take_list args with
          | Some (sq, [c; a; b; i]) =>
              match dec_op c a b i with Some o => enc_outcome (spec_result_raising o sq) | None => [-1] end
          | _ => [-1]
          end
  | 12 => match take_list args with
          | Some (sq, [c; a; b; i]) =>
              match dec_op c a b i with Some o => enc_outcome (spec_result o sq) | None => [-1] end
          | _ => [-1]
          end
  | 20 => with_list args (fun c l rest =>
            match dec_item rest with Some it => enc_qres (getitem c l it) | None => [-1] end)
  | 21 => with_list args (fun c l rest =>
            match dec_item rest with Some it => enc_qres (spec_getitem l it) | None => [-1] end)
  | 22 => with_list args (fun c l rest =>
            match rest with [x] => enc_qres (QBool (contains c l x)) | _ => [-1] end)
  | 23 => with_list args (fun c l rest =>
            match rest with [x] => enc_qres (QBool (spec_contains l x)) | _ => [-1] end)
  | 24 => with_list args (fun c l rest => [count l])
  | 25 => with_list args (fun c l rest => [spec_count l])
  | 26 => with_list args (fun c l rest =>
            match rest with [dt; i] => enc_qres (before c l dt (z2b i)) | _ => [-1] end)
  | 27 => with_list args (fun c l rest =>
            match rest with [dt; i] => enc_qres (spec_before l dt (z2b i)) | _ => [-1] end)
  | 28 => with_list args (fun c l rest =>
            match rest with [dt; i] => enc_qres (after c l dt (z2b i)) | _ => [-1] end)
  | 29 => with_list args (fun c l rest =>
            match rest with [dt; i] => enc_qres (spec_after l dt (z2b i)) | _ => [-1] end)
  | 30 => with_list args (fun c l rest =>
            match rest with [a; b; i] => enc_qres (between c l a b (z2b i)) | _ => [-1] end)
  | 31 => with_list args (fun c l rest =>
            match rest with [a; b; i] => enc_qres (spec_between l a b (z2b i)) | _ => [-1] end)
  | 32 => with_list args (fun c l rest =>
            match rest with [dt; fc; cn; i] => enc_qres (xafter c l dt (dec_opt fc cn) (z2b i)) | _ => [-1] end)
  | 33 => with_list args (fun c l rest =>
            match rest with [dt; fc; cn; i] => enc_qres (spec_xafter l dt (dec_opt fc cn) (z2b i)) | _ => [-1] end)
  | 34 => with_list args (fun _ l rest =>
            match rest with
            | [fa; a; fb; b; fc; c] => enc_qres (of_slice (py_slice l (dec_opt fa a) (dec_opt fb b) (dec_opt fc c)))
            | _ => [-1] end)
  | 35 => with_list args (fun _ l rest =>
            match rest with
            | [fa; a; fb; b; fc; c] => enc_qres (of_slice (islice l (dec_opt fa a) (dec_opt fb b) (dec_opt fc c)))
            | _ => [-1] end)
  | 40 => record_entry args
  | 36 => with_list args (fun _ l rest =>
            match rest with [k] => enc_qres (of_index (py_index l k)) | _ => [-1] end)
  | _ => [-1]
  end.

Extraction "model.ml" dispatch.
