(* Extraction of the rrule model (RRNorm/RRMasks/RRIter) and specification (RRSpec).
   ExtrOcamlBasic only. *)
Require Extraction.
Require Import ExtrOcamlBasic.
From Coq Require Import ZArith List Bool.
From V Require Import base.Cal gen.RrTables gen.EasterGen easter.EasterSpec
  rr.RRBase rr.RRNorm rr.RRMasks rr.RRIter rr.RRSpec rr.RRSpecX.
Import ListNotations.
Open Scope Z_scope.

(* ---- decoding of the argument vector *)
Definition dec_opt_list (l : list Z) : option (option (list Z) * list Z) :=
  match l with
  | 0 :: t => Some (None, t)
  | 1 :: n :: t => if Z.of_nat (length t) <? n then None
                   else Some (Some (firstn (Z.to_nat n) t), skipn (Z.to_nat n) t)
  | _ => None
  end.

Fixpoint pairs (l : list Z) : list (Z * Z) :=
  match l with a :: b :: t => (a, b) :: pairs t | _ => [] end.

Definition dec_opt_pairs (l : list Z) : option (option (list (Z * Z)) * list Z) :=
  match l with
  | 0 :: t => Some (None, t)
  | 1 :: n :: t => if Z.of_nat (length t) <? 2 * n then None
                   else Some (Some (pairs (firstn (Z.to_nat (2 * n)) t)), skipn (Z.to_nat (2 * n)) t)
  | _ => None
  end.

Definition dec_raw (l : list Z) : option (raw * list Z) :=
  match l with
  | fr :: isd :: y :: m :: d :: hh :: mi :: ss :: itv :: wk :: cf :: c :: uf :: uo :: us :: uu :: tzm :: t0 =>
    match dec_opt_list t0 with None => None | Some (setpos, t1) =>
    match dec_opt_list t1 with None => None | Some (bmonth, t2) =>
    match dec_opt_list t2 with None => None | Some (bmday, t3) =>
    match dec_opt_list t3 with None => None | Some (byday, t4) =>
    match dec_opt_list t4 with None => None | Some (beaster, t5) =>
    match dec_opt_list t5 with None => None | Some (bweekno, t6) =>
    match dec_opt_pairs t6 with None => None | Some (bwday, t7) =>
    match dec_opt_list t7 with None => None | Some (bhour, t8) =>
    match dec_opt_list t8 with None => None | Some (bminute, t9) =>
    match dec_opt_list t9 with None => None | Some (bsecond, t10) =>
      Some (mkRaw fr (negb (isd =? 0)) y m d hh mi ss itv wk
                  (if cf =? 0 then None else Some c)
                  (if uf =? 0 then None else Some (uo, us, uu))
                  (negb (tzm =? 0))
                  setpos bmonth bmday byday beaster bweekno bwday bhour bminute bsecond, t10)
    end end end end end end end end end end
  | _ => None
  end.

(* ---- encoding of results *)
Definition exn_code (e : exn) : Z := match e with EValue => 1 | EIndex => 2 | EType => 3 end.
Definition term_code (t : term) : list Z :=
  match t with
  | TCount => [0; 0] | TUntil => [1; 0] | TMaxYear => [2; 0] | TRaised e => [3; exn_code e]
  | TOutOfFuel => [4; 0] | TLimit => [5; 0]
  end.
Definition sterm_code (t : sterm) : Z := match t with SExhausted => 0 | SLimit => 5 | SFuel => 4 end.

(* [phase; term; exn; n; inst_code...]; phase 0 = the constructor raised *)
Definition model_entry (r : raw) (limit fuel : Z) : list Z :=
  match normalize r with
  | Err e => [0; 3; exn_code e; 0]
  | Ok rl =>
    let '(out, t) := iterate rl limit (Z.to_nat fuel) in
    let out' := firstn (Z.to_nat limit) out in
    (1 :: (if limit <=? zlen out then term_code TLimit else term_code t)) ++ (zlen out' :: map inst_code out')
  end.

Definition spec_entry (r : raw) (limit fuel : Z) : list Z :=
  let '(out, t) := spec_iter r limit (Z.to_nat fuel) in
  let out' := firstn (Z.to_nat limit) out in
  [1; (if limit <=? zlen out then sterm_code SLimit else sterm_code t); 0; zlen out'] ++ map inst_code out'.

(* entry 0: model; entry 1: spec; entry 2: spec_wf; entry 3: day_ok of one ordinal;
   entry 4: (week-year, week number, weeks in that week-year) of an ordinal for wkst;
   entry 5: spec_xwf (the extended domain: never-matching time members and BYMONTHDAY 0 admitted) *)
Definition dispatch (n : Z) (args : list Z) : list Z :=
  match n, args with
  | 4, [wk; o] => let '(wy, w) := week_of wk o in [wy; w; weeks_in wk wy]
  | _, _ =>
    match dec_raw args with
    | None => [-1]
    | Some (r, rest) =>
      match n, rest with
      | 0, [limit; fuel] => model_entry r limit fuel
      | 1, [limit; fuel] => spec_entry r limit fuel
      | 2, [] => [if spec_wf r then 1 else 0]
      | 3, [o] => [if day_ok r o then 1 else 0]
      | 5, [] => [if spec_xwf r then 1 else 0]
      | _, _ => [-1]
      end
    end
  end.

Extraction "model.ml" dispatch.
