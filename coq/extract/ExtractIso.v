(* Extraction of the isoparser model and the ISO-8601 spec.  ExtrOcamlBasic only. *)
Require Extraction.
Require Import ExtrOcamlBasic.
From Coq Require Import ZArith List Bool.
From V Require Import base.Cal iso.IsoBase iso.IsoModel iso.IsoSpec iso.IsoText.
Import ListNotations.
Open Scope Z_scope.

Definition enc_err (e : err) : list Z :=
  match e with ValueError => [0; 1] | OverflowError => [0; 2] | OutOfFuel => [0; 3] | Unmodelled => [0; 4] end.

Definition enc_tz (t : tzv) : list Z :=
  match t with TzNone => [0; 0] | TzUTC => [1; 0] | TzOff s => [2; s] end.

Definition enc_dt (v : dt8) : list Z :=
  let '(y, m, d, h, mi, s, us, tz) := v in [1; y; m; d; h; mi; s; us] ++ enc_tz tz.
Definition enc_date (v : date3) : list Z := let '(y, m, d) := v in [1; y; m; d].
Definition enc_time (v : time5) : list Z :=
  let '(h, mi, s, us, tz) := v in [1; h; mi; s; us] ++ enc_tz tz.
Definition enc_tzv (v : tzv) : list Z := 1 :: enc_tz v.

Definition enc_res {A} (f : A -> list Z) (r : res A) : list Z :=
  match r with Ok a => f a | Err e => enc_err e end.
Definition enc_opt {A} (f : A -> list Z) (r : option A) : list Z :=
  match r with Some a => f a | None => [0; 1] end.

(* [nsep; sep bytes...; string...]  nsep = -1: sep=None *)
Definition split_sep (args : list Z) : option (option (list Z) * list Z) :=
  match args with
  | n :: r => if n <? 0 then Some (None, r)
              else let k := Z.to_nat n in Some (Some (firstn k r), skipn k r)
  | [] => None
  end.

Definition dform_of (n : Z) : dform :=
  match n with
  | 0 => FYear | 1 => FMonth | 2 => FCalX | 3 => FCalB | 4 => FWeekX | 5 => FWeekB
  | 6 => FWeekDayX | 7 => FWeekDayB | 8 => FOrdX | _ => FOrdB
  end.
Definition tform_of (n : Z) : tform :=
  match n with
  | 0 => THour | 1 => TMinX | 2 => TMinB | 3 => TSecX | 4 => TSecB | 5 => TFracX | _ => TFracB
  end.
Definition off_of (kind flag h m : Z) : off :=
  let b := negb (flag =? 0) in
  match kind with
  | 0 => ONone | 1 => OZulu b | 2 => OHH b h | 3 => OHHMM b h m | _ => OHH_MM b h m
  end.
Definition b2z (b : bool) : Z := if b then 1 else 0.

(* entries
   0 model isoparser(sep).isoparse(s)     [nsep; sep..; s..]
   1 model parse_isodate(s)               [s..]
   2 model parse_isotime(s)               [s..]
   3 model parse_tzstr(s, zero_as_utc)    [z; s..]
   10..13 the same four for the SPEC (10: sep must be a valid separator)
   30, 32 isoparse / parse_isotime for the grammar of the property TEXT (IsoText.iso_text / time_text)
   20 render: [sepcfg(-1|byte); dform; has_time; tform; comma; k; sepbyte; offkind; offflag; oh; om;
               y; m; d; h; mi; s; us; extra...]
      -> [wf; valid; n; string (n bytes)...; expected (10 ints)]
   21 render of the 24:00 spelling: same arguments -> same result layout                  *)
Definition dispatch (n : Z) (args : list Z) : list Z :=
  match n with
  | 0 => match split_sep args with
         | Some (sep, s) => enc_res enc_dt (isoparser_isoparse sep s)
         | None => [-1]
         end
  | 1 => enc_res enc_date (parse_isodate args)
  | 2 => enc_res enc_time (parse_isotime args)
  | 3 => match args with z :: s => enc_res enc_tzv (parse_tzstr s (negb (z =? 0))) | [] => [-1] end
  | 10 => match split_sep args with
          | Some (None, s) => enc_opt enc_dt (iso_denotes None s)
          | Some (Some [c], s) => enc_opt enc_dt (iso_denotes (Some c) s)
          | _ => [-1]
          end
  | 11 => enc_opt enc_date (date_denotes args)
  | 12 => enc_opt enc_time (time_denotes args)
  | 13 => match args with z :: s => enc_opt enc_tzv (tzstr_denotes (negb (z =? 0)) s) | [] => [-1] end
  | 30 => match split_sep args with       (* the grammar of the property text (iso/IsoText.v) *)
          | Some (None, s) => enc_opt enc_dt (iso_text None s)
          | Some (Some [c], s) => enc_opt enc_dt (iso_text (Some c) s)
          | _ => [-1]
          end
  | 32 => enc_opt enc_time (time_text args)
  | 20 | 21 =>
      match args with
      | sepcfg :: df :: has_time :: tf :: comma :: k :: sepbyte :: okind :: oflag :: oh :: om ::
        y :: m :: d :: h :: mi :: s :: us :: extra =>
          let ts := TS (tform_of tf) (negb (comma =? 0)) (Z.to_nat k) extra in
          let f := mkFmt (dform_of df) (if has_time =? 0 then None else Some ts) sepbyte in
          let o := off_of okind oflag oh om in
          let sep := if sepcfg <? 0 then None else Some sepcfg in
          let dt := (y, m, d, h, mi, s, us) in
          if n =? 20 then
            let str := render_iso f dt o in
            [b2z (wf_fmt f sep o) + 2 * b2z (wf_fmt_text f sep o); b2z (valid_dt dt); Z.of_nat (length str)] ++ str ++
            enc_dt (expected f dt o)
          else
            let str := render_iso_2400 f (y, m, d) o in
            [b2z (wf_fmt_2400 f sep o); b2z (valid_ymd y m d); Z.of_nat (length str)] ++ str ++
            enc_opt enc_dt (expected_2400 (y, m, d) o)
      | _ => [-1]
      end
  | 22 =>   (* render_date: [df; y; m; d] -> [valid; n; string...; 1; trunc_date (3 ints)] *)
      match args with
      | [df; y; m; d] =>
          let str := render_date (dform_of df) y m d in
          [b2z (valid_ymd y m d); Z.of_nat (length str)] ++ str ++
          enc_date (trunc_date (dform_of df) y m d)
      | _ => [-1]
      end
  | 23 =>   (* render_time ++ render_off: [tf; comma; k; okind; oflag; oh; om; h; mi; s; us; extra...]
               -> [wf; valid; n; string...; 1; h'; mi'; s'; us'; tz (2 ints)] *)
      match args with
      | tf :: comma :: k :: okind :: oflag :: oh :: om :: h :: mi :: s :: us :: extra =>
          let ts := TS (tform_of tf) (negb (comma =? 0)) (Z.to_nat k) extra in
          let o := off_of okind oflag oh om in
          let str := render_time ts h mi s us ++ render_off o in
          let '(h', mi', s', us') := trunc_time ts h mi s us in
          [b2z (wf_tspec ts && wf_off o); b2z (valid_hmsu h mi s us); Z.of_nat (length str)] ++ str ++
          enc_time (h', mi', s', us', tz_of o)
      | _ => [-1]
      end
  | 24 =>   (* render_off: [okind; oflag; oh; om] -> [wf; n; string...; 1; tz (2 ints)] *)
      match args with
      | [okind; oflag; oh; om] =>
          let o := off_of okind oflag oh om in
          let str := render_off o in
          [b2z (wf_off o && negb (okind =? 0)); Z.of_nat (length str)] ++ str ++ enc_tzv (tz_of o)
      | _ => [-1]
      end
  | _ => [-1]
  end.

Extraction "model.ml" dispatch.
