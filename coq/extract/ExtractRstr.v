(* Extraction of the rrule.__str__ / rrulestr model and spec.  ExtrOcamlBasic only. *)
Require Extraction.
Require Import ExtrOcamlBasic.
From Coq Require Import ZArith List Bool.
From V Require Import base.Cal rstr.RstrPrim rstr.RstrModel rstr.RstrSpec.
Import ListNotations.
Open Scope Z_scope.

(* ---- decoders over the flat integer argument list ---- *)
Definition dec (A : Type) := list Z -> option (A * list Z).
Definition d_ret {A} (a : A) : dec A := fun l => Some (a, l).
Definition d_bind {A B} (d : dec A) (f : A -> dec B) : dec B :=
  fun l => match d l with Some (a, r) => f a r | None => None end.
Notation "x <- d ;; e" := (d_bind d (fun x => e)) (at level 61, d at next level, right associativity).
Definition d_z : dec Z := fun l => match l with x :: r => Some (x, r) | [] => None end.
Definition d_bool : dec bool := x <- d_z ;; d_ret (negb (x =? 0)).
Fixpoint d_rep {A} (n : nat) (d : dec A) : dec (list A) :=
  match n with
  | O => d_ret []
  | S k => x <- d ;; t <- d_rep k d ;; d_ret (x :: t)
  end.
Definition d_list {A} (d : dec A) : dec (list A) := n <- d_z ;; d_rep (Z.to_nat n) d.
Definition d_optlist {A} (d : dec A) : dec (option (list A)) :=
  fun l => match l with
           | (-1) :: r => Some (None, r)
           | _ => match d_list d l with Some (x, r) => Some (Some x, r) | None => None end
           end.
Definition d_opt {A} (d : dec A) : dec (option A) :=
  t <- d_z ;; if t =? 0 then d_ret None else (x <- d ;; d_ret (Some x)).
Definition d_dt : dec dt :=
  y <- d_z ;; mo <- d_z ;; d <- d_z ;; h <- d_z ;; mi <- d_z ;; s <- d_z ;; us <- d_z ;; tz <- d_z ;;
  d_ret (mkdt y mo d h mi s us tz).
Definition d_wd : dec wd :=
  w <- d_z ;; hn <- d_z ;; n <- d_z ;; d_ret (mkwd w (if hn =? 0 then None else Some n)).
Definition d_str : dec str := d_list d_z.
Definition d_nat : dec nat := x <- d_z ;; d_ret (Z.to_nat x).

Definition d_kw : dec kwargs :=
  fq <- d_opt d_z ;; iv <- d_opt d_z ;; wk <- d_opt d_z ;; ct <- d_opt d_z ;; un <- d_opt d_dt ;;
  l0 <- d_optlist d_z ;; l1 <- d_optlist d_z ;; l2 <- d_optlist d_z ;; l3 <- d_optlist d_z ;;
  l4 <- d_optlist d_z ;; l5 <- d_optlist d_z ;; l6 <- d_optlist d_z ;; l7 <- d_optlist d_z ;;
  l8 <- d_optlist d_z ;; w <- d_optlist d_wd ;;
  d_ret (mkkw fq iv wk ct un l0 l1 l2 l3 l4 l5 w l6 l7 l8).
Definition d_env : dec env := f <- d_z ;; n <- d_dt ;; d_ret (mkenv f n).
Definition d_tzent : dec (str * Z) := s <- d_str ;; t <- d_z ;; d_ret (s, t).
Definition d_opts : dec opts :=
  st <- d_opt d_dt ;; ca <- d_bool ;; un <- d_bool ;; fs <- d_bool ;; co <- d_bool ;; ig <- d_bool ;;
  tz <- d_list d_tzent ;; d_ret (mkopts st ca un fs co ig tz).
Definition d_choice : dec choice :=
  pl <- d_bool ;; wn <- d_bool ;; sty <- d_list d_z ;; sh <- d_bool ;; pm <- d_list d_nat ;;
  pf <- d_bool ;; il <- d_z ;; fo <- d_list d_nat ;; cs <- d_list d_bool ;;
  d_ret (mkchoice pl wn sty sh pm pf il fo cs).

(* ---- encoders ---- *)
Definition e_bool (b : bool) : list Z := [if b then 1 else 0].
Definition e_dt (d : dt) : list Z := [dy d; dmo d; dd d; dh d; dmi d; ds d; dus d; dtz d].
Definition e_list {A} (e : A -> list Z) (l : list A) : list Z :=
  Z.of_nat (List.length l) :: flat_map e l.
Definition e_optlist {A} (e : A -> list Z) (o : option (list A)) : list Z :=
  match o with None => [-1] | Some l => e_list e l end.
Definition e_opt {A} (e : A -> list Z) (o : option A) : list Z :=
  match o with None => [0] | Some x => 1 :: e x end.
Definition e_z (x : Z) : list Z := [x].
Definition e_pair (p : Z * Z) : list Z := [fst p; snd p].
Definition e_wd (w : wd) : list Z :=
  match wn w with None => [wday w; 0; 0] | Some n => [wday w; 1; n] end.
Definition e_oent {A} (e : A -> list Z) (o : oent A) : list Z :=
  match o with OAbsent => [0] | ONone => [1] | OVals l => 2 :: e_list e l end.
Definition e_err (e : err) : Z :=
  match e with EValue => 1 | EType => 2 | EIndex => 3 | EKey => 4 | EAttr => 5 | EOverflow => 6 | EUnmodelled => 9 end.

Definition e_rule (r : rule) : list Z :=
  e_dt (r_dtstart r) ++ [r_freq r; r_interval r; r_wkst r] ++ e_opt e_z (r_count r) ++ e_opt e_dt (r_until r)
  ++ e_optlist e_z (r_bysetpos r) ++ e_optlist e_z (r_bymonth r)
  ++ e_list e_z (r_bymonthday r) ++ e_list e_z (r_bynmonthday r)
  ++ e_optlist e_z (r_byyearday r) ++ e_optlist e_z (r_byeaster r) ++ e_optlist e_z (r_byweekno r)
  ++ e_optlist e_z (r_byweekday r) ++ e_optlist e_pair (r_bynweekday r)
  ++ e_optlist e_z (r_byhour r) ++ e_optlist e_z (r_byminute r) ++ e_optlist e_z (r_bysecond r)
  ++ e_oent e_z (og_bysetpos r) ++ e_oent e_z (og_bymonth r) ++ e_oent e_z (og_bymonthday r)
  ++ e_oent e_z (og_byyearday r) ++ e_oent e_z (og_byeaster r) ++ e_oent e_z (og_byweekno r)
  ++ e_oent e_wd (og_byweekday r)
  ++ e_oent e_z (og_byhour r) ++ e_oent e_z (og_byminute r) ++ e_oent e_z (og_bysecond r).

Definition e_result (x : result) : list Z :=
  match x with
  | RErr e => [0; e_err e]
  | RRule c r => 1 :: e_bool c ++ e_rule r
  | RSet c rr rd xr xd =>
    2 :: e_bool c ++ e_list e_rule rr ++ e_list e_dt rd ++ e_list e_rule xr ++ e_list e_dt xd
  end.

Definition e_kw (k : kwargs) : list Z :=
  e_opt e_z (k_freq k) ++ e_opt e_z (k_interval k) ++ e_opt e_z (k_wkst k) ++ e_opt e_z (k_count k)
  ++ e_opt e_dt (k_until k)
  ++ e_optlist e_z (k_bysetpos k) ++ e_optlist e_z (k_bymonth k) ++ e_optlist e_z (k_bymonthday k)
  ++ e_optlist e_z (k_byyearday k) ++ e_optlist e_z (k_byeaster k) ++ e_optlist e_z (k_byweekno k)
  ++ e_optlist e_z (k_byhour k) ++ e_optlist e_z (k_byminute k) ++ e_optlist e_z (k_bysecond k)
  ++ e_optlist e_wd (k_byweekday k).

Definition run {A} (d : dec A) (f : A -> list Z) (args : list Z) : list Z :=
  match d args with
  | Some (a, []) => f a
  | _ => [-1]
  end.

(* entries
   0  model_rrulestr   env opts text                  -> result
   1  model_ctor       env optdt kwargs               -> [1; rule] | [0; err]
   2  model_str        env optdt kwargs               -> [1; len; chars] | [0; err]   str of rrule(kw)
   3  spec_spell       choice tzname optdt kwargs     -> [len; chars]
   4  spec_wf_kw       kwargs                         -> [0|1]
   5  prims            op text [extra]                -> ...
   6  model_parse_date ignoretz text                  -> [1; dt] | [0; 1] (ValueError) | [0; 9]
   7  model_kw         ignoretz line                  -> [1; kwargs] | [0; err]        the rrkwargs dict *)
Definition prims (op : Z) (s : str) : list Z :=
  if op =? 0 then e_list e_z (upper s)
  else if op =? 1 then e_list (e_list e_z) (words s)
  else if op =? 2 then e_list (e_list e_z) (splitlines s)
  else if op =? 3 then e_opt e_z (py_int s)
  else if op =? 4 then e_list e_z (strip s)
  else if op =? 5 then e_list e_z (rstrip s)
  else if op =? 6 then e_list (e_list e_z) (tzid_findall s)
  else if op =? 7 then e_list e_z (str_of_int (match s with x :: _ => x | [] => 0 end))
  else if op =? 8 then e_list e_z (fmt_plus (match s with x :: _ => x | [] => 0 end))
  else if op =? 9 then e_list (e_list e_z) (unfold_lines (splitlines s) [])
  else [-1].

Definition dispatch (n : Z) (args : list Z) : list Z :=
  match n with
  | 0 => run (ev <- d_env ;; o <- d_opts ;; s <- d_str ;; d_ret (ev, o, s))
             (fun '(ev, o, s) => e_result (parse_rfc ev o s)) args
  | 1 => run (ev <- d_env ;; st <- d_opt d_dt ;; k <- d_kw ;; d_ret (ev, st, k))
             (fun '(ev, st, k) => match ctor ev st k with
                                  | Ok r => 1 :: e_rule r
                                  | Err e => [0; e_err e]
                                  end) args
  | 2 => run (ev <- d_env ;; st <- d_opt d_dt ;; k <- d_kw ;; d_ret (ev, st, k))
             (fun '(ev, st, k) => match ctor ev st k with
                                  | Ok r => 1 :: e_list e_z (to_str r)
                                  | Err e => [0; e_err e]
                                  end) args
  | 3 => run (c <- d_choice ;; tzn <- d_str ;; st <- d_opt d_dt ;; k <- d_kw ;; d_ret (c, tzn, st, k))
             (fun '(c, tzn, st, k) => e_list e_z (spell c tzn st k)) args
  | 4 => run d_kw (fun k => e_bool (wf_kw k)) args
  | 5 => run (op <- d_z ;; s <- d_str ;; d_ret (op, s)) (fun '(op, s) => prims op s) args
  | 6 => run (ig <- d_bool ;; s <- d_str ;; d_ret (ig, s))
             (fun '(ig, s) => match parse_date ig s with
                              | DOk d => 1 :: e_dt d
                              | DBad => [0; 1]
                              | DOv => [0; 6]
                              | DUn => [0; 9]
                              end) args
  | 7 => run (ig <- d_bool ;; s <- d_str ;; d_ret (ig, s))
             (fun '(ig, s) => match parse_rrule_kw ig s with
                              | Ok k => 1 :: e_kw k
                              | Err e => [0; e_err e]
                              end) args
  | _ => [-1]
  end.

Extraction "model.ml" dispatch.
