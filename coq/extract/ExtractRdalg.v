(* Extraction of the relativedelta model + the C16 additions and specs (area "rdalg" ->
   bin/oracle_rdalg).  ExtrOcamlBasic only.  The wire format of values is the one of
   extract/ExtractRd.v (harness/rd_common.py encodes/decodes it); the decoders/encoders are
   repeated here because that file belongs to the C03/C09 builder. *)
Require Extraction.
Require Import ExtrOcamlBasic.
From Coq Require Import ZArith List Bool.
From V Require Import base.Cal gen.RdTables rd.RdBase rd.RdModel rd.RdAlgModel rd.RdAlgSpec rd.RdAlgQModel.
Import ListNotations.
Open Scope Z_scope.

(* ---- decoders: consume a prefix of the argument list *)
Definition dec (A : Type) : Type := list Z -> option (A * list Z).

Definition d_z : dec Z := fun l => match l with x :: r => Some (x, r) | [] => None end.

Definition d_opt : dec (option Z) := fun l =>
  match l with f :: v :: r => Some (if f =? 0 then None else Some v, r) | _ => None end.

Definition d_rel : dec relf := fun l =>
  match l with
  | y :: mo :: d :: h :: mi :: s :: us :: r => Some (mkrel y mo d h mi s us, r)
  | _ => None
  end.

Definition d_abs : dec absf := fun l =>
  match d_opt l with Some (y, l) =>
  match d_opt l with Some (mo, l) =>
  match d_opt l with Some (d, l) =>
  match d_opt l with Some (h, l) =>
  match d_opt l with Some (mi, l) =>
  match d_opt l with Some (s, l) =>
  match d_opt l with Some (us, l) => Some (mkabs y mo d h mi s us, l)
  | None => None end | None => None end | None => None end | None => None end
  | None => None end | None => None end | None => None end.

Definition d_wd : dec (option wdv) := fun l =>
  match l with
  | f :: w :: nf :: n :: r =>
      Some (if f =? 0 then None else Some (w, if nf =? 0 then None else Some n), r)
  | _ => None
  end.

Definition d_wdarg : dec wdarg := fun l =>
  match l with
  | t :: w :: nf :: n :: r =>
      Some (if t =? 0 then WNone else if t =? 1 then WInt w
            else WObj w (if nf =? 0 then None else Some n), r)
  | _ => None
  end.

Definition d_rd : dec rd := fun l =>
  match d_rel l with Some (r, l) =>
  match d_z l with Some (lp, l) =>
  match d_abs l with Some (a, l) =>
  match d_wd l with Some (w, l) => Some (mkrd r lp a w, l)
  | None => None end | None => None end | None => None end | None => None end.

Definition d_kw : dec kwargs := fun l =>
  match d_rel l with Some (r, l) =>
  match d_z l with Some (lp, l) =>
  match d_z l with Some (wk, l) =>
  match d_abs l with Some (a, l) =>
  match d_wdarg l with Some (w, l) =>
  match d_opt l with Some (yd, l) =>
  match d_opt l with Some (nl, l) => Some (mkkw r lp wk a w yd nl, l)
  | None => None end | None => None end | None => None end | None => None end
  | None => None end | None => None end | None => None end.

Definition d_dt : dec pydt := fun l =>
  match l with
  | k :: y :: m :: d :: hh :: mi :: ss :: us :: r =>
      Some (if k =? 0 then PD y m d else PDT y m d hh mi ss us, r)
  | _ => None
  end.

(* ---- encoders *)
Definition e_opt (a : option Z) : list Z := match a with Some v => [1; v] | None => [0; 0] end.
Definition e_rel (r : relf) : list Z :=
  [f_years r; f_months r; f_days r; f_hours r; f_minutes r; f_seconds r; f_us r].
Definition e_abs (a : absf) : list Z :=
  e_opt (a_year a) ++ e_opt (a_month a) ++ e_opt (a_day a) ++ e_opt (a_hour a) ++
  e_opt (a_minute a) ++ e_opt (a_second a) ++ e_opt (a_us a).
Definition e_wd (w : option wdv) : list Z :=
  match w with
  | None => [0; 0; 0; 0]
  | Some (k, None) => [1; k; 0; 0]
  | Some (k, Some n) => [1; k; 1; n]
  end.
Definition e_rd (d : rd) : list Z := e_rel (rel d) ++ [leapdays d] ++ e_abs (ab d) ++ e_wd (wd d).
Definition e_dt (o : pydt) : list Z :=
  match o with
  | PD y m d => [0; y; m; d; 0; 0; 0; 0]
  | PDT y m d hh mi ss us => [1; y; m; d; hh; mi; ss; us]
  end.
Definition e_err (e : err) : Z :=
  match e with EValue => 1 | EOverflow => 2 | EAssert => 3 | EIndex => 4 | EFuel => 5 end.
Definition e_res {A : Type} (enc : A -> list Z) (r : res A) : list Z :=
  match r with Ok a => 0 :: enc a | Err e => [1; e_err e] end.
Definition e_optv {A : Type} (enc : A -> list Z) (r : option A) : list Z :=
  match r with Some a => 1 :: enc a | None => [0] end.
Definition e_b (b : bool) : Z := if b then 1 else 0.
Definition e_hash (d : rd) : list Z :=
  let '(w, r, lp, a) := hash_key d in
  (match w with Some (k, n) => [1; k; n] | None => [0; 0; 0] end) ++ e_rel r ++ [lp] ++ e_abs a.

Definition bad : list Z := [-1].

Definition with1 {A : Type} (da : dec A) (args : list Z) (f : A -> list Z) : list Z :=
  match da args with Some (a, []) => f a | _ => bad end.
Definition with2 {A B : Type} (da : dec A) (db : dec B) (args : list Z) (f : A -> B -> list Z) : list Z :=
  match da args with
  | Some (a, l) => match db l with Some (b, []) => f a b | _ => bad end
  | None => bad
  end.
Definition with3 {A B C : Type} (da : dec A) (db : dec B) (dc : dec C) (args : list Z)
  (f : A -> B -> C -> list Z) : list Z :=
  match da args with
  | Some (a, l) =>
      match db l with
      | Some (b, l) => match dc l with Some (c, []) => f a b c | _ => bad end
      | None => bad
      end
  | None => bad
  end.

Definition d_pos : dec positive := fun l =>
  match l with x :: r => if 0 <? x then Some (Z.to_pos x, r) else None | [] => None end.

Definition e_canon (d : rd) : list Z :=
  let '(w, r, lp, a) := canon d in
  (match w with Some (k, n) => [1; k; n] | None => [0; 0; 0] end) ++ e_rel r ++ [lp] ++ e_abs a.

Definition with5 {A B C D E : Type} (da : dec A) (db : dec B) (dc : dec C) (dd : dec D) (de : dec E)
  (args : list Z) (f : A -> B -> C -> D -> E -> list Z) : list Z :=
  match da args with Some (a, l) =>
  match db l with Some (b, l) =>
  match dc l with Some (c, l) =>
  match dd l with Some (d, l) =>
  match de l with Some (e, []) => f a b c d e
  | _ => bad end | None => bad end | None => bad end | None => bad end | None => bad end.

Definition dispatch (n : Z) (args : list Z) : list Z :=
  match n with
  (* model (same numbers as ExtractRd.v) *)
  | 1 => with1 d_kw args (fun k => e_res e_rd (mk k))
  | 2 => with2 d_rd d_dt args (fun d o => e_res e_dt (add_dt d o))
  | 3 => with2 d_rd d_dt args (fun d o => e_res e_dt (rsub d o))
  | 4 => with1 d_rd args (fun d => e_rd (neg d))
  | 5 => with1 d_rd args (fun d => e_rd (abs_rd d))
  | 6 => with2 d_rd d_rd args (fun a b => e_rd (add_rd a b))
  | 7 => with2 d_rd d_rd args (fun a b => e_rd (sub_rd a b))
  | 8 => with2 d_rd d_z args (fun d k => e_rd (mul_int d k))
  | 9 => with2 d_rd d_rel args (fun d p => e_rd (mul_with d p))
  | 10 => with1 d_rd args (fun d => e_rd (normalized d))
  | 11 => with2 d_rd d_rd args (fun a b => [e_b (eqb a b)])
  | 12 => with1 d_rd args e_hash
  | 13 => with1 d_rd args (fun d => [e_b (rd_bool d)])
  | 14 => with1 d_rd args (fun d => [e_b (has_time d)])
  | 15 => with2 d_dt d_dt args (fun a b => e_res e_rd (mk_diff a b))
  (* C16 additions *)
  | 30 => with5 d_z d_pos d_z d_pos d_kw args (fun yn yd mn md k => e_res e_rd (mk_frac yn yd mn md k))
  | 31 => with1 d_rd args (fun d => e_res e_rd (mk (fields_of d)))
  | 32 => with2 d_rd d_rel args (fun d t => e_rd (add_td d (f_days t) (f_seconds t) (f_us t)))
  | 33 => with3 d_rd d_z d_pos args (fun d p q => e_rd (mul_q d p q))
  (* rational idealisation of float-valued fields: denominator, then the delta of numerators *)
  | 50 => with2 d_pos d_rd args (fun D d => e_rd (ctor_q (Z.pos D) d))
  | 51 => with2 d_pos d_rd args (fun D d => e_rd (normalized_q (Z.pos D) d))
  | 52 => with2 d_pos d_rd args (fun D d => e_rd (neg_q (Z.pos D) d))
  | 53 => with2 d_pos d_rd args (fun D d => e_rd (abs_q (Z.pos D) d))
  | 54 => with3 d_pos d_rd d_rd args (fun D a b => e_rd (add_q (Z.pos D) a b))
  | 55 => with3 d_pos d_rd d_rd args (fun D a b => e_rd (sub_q (Z.pos D) a b))
  (* specs *)
  | 40 => with1 d_rel args (fun r => e_rel (spec_fix_rel r))
  | 41 => with2 d_rd d_rd args (fun a b => [e_b (spec_eqb a b)])
  | 42 => with1 d_rd args (fun d => [e_b (wf_b d); e_b (no_rel d); e_b (empty_b d)])
  | 43 => with1 d_rd args e_canon
  | _ => bad
  end.

Extraction "model.ml" dispatch.
