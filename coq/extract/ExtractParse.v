(* Extraction of the generic-parser model (lexer, parse) and the C15/C02 specs.  ExtrOcamlBasic only. *)
Require Extraction.
Require Import ExtrOcamlBasic.
From Coq Require Import ZArith List Bool.
From V Require Import base.Cal gen.ParseTables parse.Lex parse.Prim parse.Ymd parse.Parse parse.Build
                      parse.ParseSpec parse.ParseSpec2 parse.FuzzyThm parse.ZoneThm parse.Local parse.Full.
Import ListNotations.
Open Scope Z_scope.

Definition b2z (b : bool) : Z := if b then 1 else 0.
Definition z2b (z : Z) : bool := negb (z =? 0).

Definition enc_str (t : str) : list Z := Z.of_nat (length t) :: t.
Definition enc_strs (l : list str) : list Z := Z.of_nat (length l) :: flat_map enc_str l.

(* [n; c1..cn; rest] *)
Definition take_str (a : list Z) : option (str * list Z) :=
  match a with
  | n :: r => let k := Z.to_nat n in Some (firstn k r, skipn k r)
  | [] => None
  end.

Fixpoint take_strs (k : nat) (a : list Z) : option (list str * list Z) :=
  match k with
  | O => Some ([], a)
  | S k' => match take_str a with
            | Some (t, r) => match take_strs k' r with
                             | Some (ts, r') => Some (t :: ts, r')
                             | None => None end
            | None => None end
  end.

Definition dec_tzval (kind arg : Z) : tzval :=
  match kind with 0 => TVNone | 1 => TVInt arg | 2 => TVStr arg | 3 => TVObj arg | _ => TVBad end.

(* dict entries: [len; name..; kind; arg] *)
Fixpoint take_dict (k : nat) (a : list Z) : option (list (str * tzval) * list Z) :=
  match k with
  | O => Some ([], a)
  | S k' => match take_str a with
            | Some (t, kind :: arg :: r) =>
                match take_dict k' r with
                | Some (d, r') => Some ((t, dec_tzval kind arg) :: d, r')
                | None => None end
            | _ => None end
  end.

(* callable table entries: [has_name; len; name..; kind; arg] *)
Fixpoint take_call (k : nat) (a : list Z) : option (list (option str * tzval) * list Z) :=
  match k with
  | O => Some ([], a)
  | S k' => match a with
            | hn :: a1 =>
              match take_str a1 with
              | Some (t, kind :: arg :: r) =>
                  match take_call k' r with
                  | Some (d, r') => Some (((if z2b hn then Some t else None), dec_tzval kind arg) :: d, r')
                  | None => None end
              | _ => None end
            | [] => None end
  end.

Definition take_tzinfos (a : list Z) : option (tzinfos * list Z) :=
  match a with
  | 0 :: r => Some (TINone, r)
  | 1 :: n :: r => match take_dict (Z.to_nat n) r with
                   | Some (d, r') => Some (TIDict d, r') | None => None end
  | 2 :: n :: r => match take_call (Z.to_nat n) r with
                   | Some (d, kind :: arg :: r') => Some (TICall d (dec_tzval kind arg), r')
                   | _ => None end
  | 3 :: r => Some (TICallOff, r)
  | _ => None
  end.

Definition zopt (has v : Z) : option Z := if z2b has then Some v else None.

Definition okw (z : Z) : option bool := if z =? 2 then None else Some (z2b z).

(* [fuzzy; fwt; dayfirst(0|1|2=None); yearfirst; info_dayfirst; info_yearfirst; ignoretz; cur_year;
    dy; dmo; dd; dh; dmi; ds; dus; nm0; nm1; nlocal; local names..; tzinfos..; string..] *)
Definition take_opts (a : list Z) : option (opts * list Z) :=
  match a with
  | fz :: fwt :: df :: yf :: idf :: iyf :: ig :: cy :: dy :: dmo :: dd :: dh :: dmi :: ds :: dus
    :: nm0 :: nm1 :: nl :: r =>
      match take_strs (Z.to_nat nl) r with
      | Some (loc, r1) =>
          match take_tzinfos r1 with
          | Some (ti, r2) =>
              Some (mkOpts (z2b fz) (z2b fwt) (okw df) (okw yf) (z2b idf) (z2b iyf) (z2b ig) ti
                           (mkDt dy dmo dd dh dmi ds dus) cy loc (z2b nm0) (z2b nm1), r2)
          | None => None end
      | None => None end
  | _ => None
  end.

Definition enc_exn (e : exn) : Z :=
  match e with
  | IndexError => 1 | ValueError => 2 | OverflowError => 3 | AssertionError => 4 | TypeError => 5
  | UnboundLocalError => 6 | OutOfFuel => 7 | ValueErrorNoStr => 8
  end.

Definition enc_zone (z : zone) : list Z :=
  match z with
  | ZNaive => [0; 0; 0; 0]
  | ZUTC => [1; 0; 0; 0]
  | ZOffset None s => [2; s; 0; 0]
  | ZOffset (Some n) s => [2; s; 1] ++ enc_str n
  | ZLocal => [3; 0; 0; 0]
  | ZUser id => [4; id; 0; 0]
  | ZStr id => [5; id; 0; 0]
  end.

Definition enc_dt (d : dt7) : list Z := [d_y d; d_mo d; d_d d; d_h d; d_mi d; d_s d; d_us d].

(* [0; y; mo; d; h; mi; s; us; fold; warned; zone (kind; arg; has_name; len; name..); ntok; toks..]
   | [1] ParserError | [2] OverflowError | [3; exn] anything else *)
Definition enc_outcome (o : outcome) : list Z :=
  match o with
  | OutOk d z fold w toks => [0] ++ enc_dt d ++ [fold; b2z w] ++ enc_zone z ++ enc_strs toks
  | OutParserError => [1]
  | OutOverflow => [2]
  | OutEscape e => [3; enc_exn e]
  end.

Definition enc_opt3 (t : option Z * option Z * option Z) : list Z :=
  let e (o : option Z) := match o with Some v => [1; v] | None => [0; 0] end in
  let '(a, b, c) := t in e a ++ e b ++ e c.

Definition dec_dform (n : Z) : dform :=
  match n with
  | 0 => DNone | 1 => DIso | 2 => DCompact | 3 => DSlashYMD | 4 => DUS | 5 => DEU | 6 => DEUDot
  | 7 => DMonDY | 8 => DMonthDY | 9 => DDMonY | 10 => DDMonthY | 11 => DDashMon | 12 => DYY | _ => DUSYY
  end.
Definition dec_joiner (n : Z) : joiner := match n with 0 => JT | 1 => JSpace | _ => JNone end.
Definition dec_tform (n k fl : Z) : tform :=
  match n with
  | 0 => TNone | 1 => THM | 2 => THMS | 3 => TFrac (Z.to_nat k) (z2b fl) | 4 => TCompactHM | 5 => TCompactHMS
  | 6 => T12HM (z2b fl) | 7 => T12HMS (z2b fl) | 8 => T12H (z2b fl) | _ => TWords
  end.
Definition dec_oform (n : Z) : oform :=
  match n with 0 => ONone | 1 => OZ | 2 => OUTC | 3 => OGMT | 4 => OHHMM | 5 => OHH_MM | _ => OHH end.
Definition dec_template (kd df j tf k fl ofm : Z) : template :=
  match kd with
  | 0 => TDT (dec_dform df) (dec_joiner j) (dec_tform tf k fl) (dec_oform ofm)
  | 1 => TCtime
  | _ => TRfc (dec_oform ofm)
  end.

(* entries
   0  timelex(s)                      [s..] -> [ntok; (len; chars..)..]
   1  parser.parse(s, opts)           [opts..; s..] -> outcome
   2  _parse only: the result record  [opts..; s..] -> [0] | [1; fields..]
   3  parser.parse, full model: failing tz.tzlocal (Local.v), bad tzinfos values / TZ strings (Full.v)
   10.. C15 / C02 spec functions (see ParseSpec.v) *)
Definition dispatch (n : Z) (args : list Z) : list Z :=
  match n with
  | 0 => enc_strs (timelex args)
  | 1 => match take_opts args with
         | Some (o, s) => enc_outcome (parse o s)
         | None => [-1] end
  | 3 => (* the full model (Full.v): failing local zone, tzinfos values of an unsupported type, rejected TZ
            strings: [dst_saved; naive_dst; nbad; bad ids..; opts..; s..] -> outcome *)
         match args with
         | ds :: nd :: nb :: r =>
             let k := Z.to_nat nb in
             match take_opts (skipn k r) with
             | Some (o, s) => enc_outcome (parse_full o (mkLocalz ds (z2b nd)) (firstn k r) s)
             | None => [-1] end
         | _ => [-1] end
  | 2 => match take_opts args with
         | Some (o, s) =>
             match parse_res (o_fuzzy o) (o_fwt o) (oflag (o_yearfirst o) (o_info_yearfirst o))
                             (oflag (o_dayfirst o) (o_info_dayfirst o)) (o_cur_year o) s with
             | Ok (Some (r, _)) =>
                 1 :: (match r_tzname r with Some nm => 1 :: enc_str nm | None => [0; 0] end)
                   ++ enc_opt3 (r_year r, r_month r, r_day r) ++ enc_opt3 (r_hour r, r_minute r, r_second r)
                   ++ enc_opt3 (r_us r, r_tzoffset r, r_weekday r)
             | _ => [0]
             end
         | None => [-1] end
  | 10 =>
      match args with
      | [hy; y; hmo; mo; hd; d; hh; h; hmi; mi; hs; s; hus; us; hwd; wd; dy; dmo; dd; dh; dmi; ds; dus] =>
        match spec_fill (zopt hy y) (zopt hmo mo) (zopt hd d) (zopt hh h) (zopt hmi mi) (zopt hs s)
                        (zopt hus us) (zopt hwd wd) (mkDt dy dmo dd dh dmi ds dus) with
        | FillOk r => 0 :: enc_dt r
        | FillInvalid => [1]
        | FillOverflow => [2]
        end
      | _ => [-1]
      end
  | 11 =>
      (* [opts..; has_name; len; name..; has_off; off; posix_form] *)
      match take_opts args with
      | Some (o, hn :: r) =>
          match take_str r with
          | Some (nm, [ho; off; pf]) =>
              match spec_zone (o_tzinfos o) (o_local o) (o_nm0 o || o_nm1 o)
                              (if z2b hn then Some nm else None) (zopt ho off) (z2b pf) with
              | ZR z w => [0; b2z w] ++ enc_zone z
              | ZROverflow => [2]
              | ZRTypeError => [3; 5]
              end
          | _ => [-1]
          end
      | _ => [-1]
      end
  | 12 =>
      (* [raises; opts..; has_name; len; name..; has_off; off; posix_form] *)
      match args with
      | rs :: args' =>
      match take_opts args' with
      | Some (o, hn :: r) =>
          match take_str r with
          | Some (nm, [ho; off; pf]) =>
              match spec_zone_lz (o_tzinfos o) (o_local o) (o_nm0 o || o_nm1 o) (z2b rs)
                                 (if z2b hn then Some nm else None) (zopt ho off) (z2b pf) with
              | ZR z w => [0; b2z w] ++ enc_zone z
              | ZROverflow => [2]
              | ZRTypeError => [3; 5]
              end
          | _ => [-1]
          end
      | _ => [-1]
      end
      | _ => [-1]
      end
  | 23 =>
      (* guard of F-C02-tzlocal-range: [dst_saved; naive_dst; y; mo; d; h; mi; s; us] -> [raises] *)
      match args with
      | [ds; nd; y; mo; d; h; mi; sc; us] => [b2z (tzlocal_raises (mkLocalz ds (z2b nd)) (mkDt y mo d h mi sc us))]
      | _ => [-1]
      end
  | 20 =>
      (* [kind; dform; joiner; tform; k; flag; oform; y; mo; d; h; mi; s; us; offpos; offh; offm;
          default x7; cur_year]
         -> [wf; guard; dayfirst; yearfirst; n; text..; expected dt x7; has_off; off] *)
      match args with
      | [kd; df; j; tf; k; fl; ofm; y; mo; d; h; mi; s; us; op; oh; om; dy; dmo; dd; dh; dmi; ds; dus; cy] =>
          let t := dec_template kd df j tf k fl ofm in
          let dt := mkDt y mo d h mi s us in
          let o := mkOff (z2b op) oh om in
          let dfl := mkDt dy dmo dd dh dmi ds dus in
          let txt := render t dt o in
          let '(dayf, yearf) := flags_of t in
          [b2z (wf_template t && wf_off o && valid_dt dt && valid_dt dfl); b2z (guard_year t cy dt);
           b2z dayf; b2z yearf] ++ enc_str txt ++ enc_dt (expected_dt t dt dfl)
          ++ (match expected_off t o with Some v => [1; v] | None => [0; 0] end)
      | _ => [-1]
      end
  | 21 =>
      (* compact time + fraction: [space; k; comma; oform; y; mo; d; h; mi; s; us; offpos; offh; offm]
         -> [wf; n; text..; expected dt x7; has_off; off] *)
      match args with
      | [sp; k; cm; ofm; y; mo; d; h; mi; s; us; op; oh; om] =>
          let dt := mkDt y mo d h mi s us in
          let o := mkOff (z2b op) oh om in
          let kk := Z.to_nat k in
          [b2z (wf_cf kk (dec_oform ofm) && wf_off o && valid_dt dt)]
          ++ enc_str (render_cf (z2b sp) kk (z2b cm) (dec_oform ofm) dt o)
          ++ enc_dt (expected_cf_dt kk dt)
          ++ (match expected_cf_off (dec_oform ofm) o with Some v => [1; v] | None => [0; 0] end)
      | _ => [-1]
      end
  | 22 =>
      (* guard of F-C15-ampm: does the strict run meet an AM/PM word with the flag already set? *)
      match take_opts args with
      | Some (o, s) => [b2z (strict_clash (o_cur_year o) s)]
      | None => [-1]
      end
  | _ => [-1]
  end.

Extraction "model.ml" dispatch.
