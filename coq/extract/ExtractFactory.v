(* Extraction of the zone-factory transition system and its spec.  ExtrOcamlBasic only. *)
Require Extraction.
Require Import ExtrOcamlBasic.
From Coq Require Import ZArith List Bool.
From V Require Import factory.FacModel factory.FacSpec factory.FacObs factory.FacEq factory.FacFixed factory.FacKind.
Import ListNotations.
Open Scope Z_scope.

Definition fac_of (n : Z) : fac := if n =? 0 then FOff else if n =? 1 then FStr else FGet.

Definition kind_of (tag a b : Z) : kind :=
  if tag =? 0 then KFresh else if tag =? 1 then KRaise else if tag =? 2 then KStatic a
  else if tag =? 3 then KLocal else if tag =? 4 then KNone else KTzstr a (negb (b =? 0)).

(* an operation is 7 integers: tag a1..a6 *)
Definition op_of (l : list Z) : op :=
  match l with
  | [tag; a1; a2; a3; a4; a5; a6] =>
      if tag =? 0 then OCall (fac_of a1) a2 (kind_of a3 a4 a5) a6
      else if tag =? 1 then OInstance a1
      else if tag =? 2 then OUtc a1
      else if tag =? 3 then ODrop a1
      else if tag =? 4 then OClear
      else OSetSize a1
  | _ => OClear
  end.

Fixpoint take_ops (n : nat) (l : list Z) : list op * list Z :=
  match n with
  | O => ([], l)
  | S m => let '(ops, rest) := take_ops m (skipn 7 l) in (op_of (firstn 7 l) :: ops, rest)
  end.

Fixpoint take_progs (n : nat) (l : list Z) : list (list op) * list Z :=
  match n with
  | O => ([], l)
  | S m =>
      match l with
      | [] => ([], [])
      | cnt :: r =>
          let '(ops, rest) := take_ops (Z.to_nat cnt) r in
          let '(ps, rest') := take_progs m rest in (ops :: ps, rest')
      end
  end.

Definition pc_code (p : pc) : Z :=
  match p with
  | PIdle => 0 | PKey => 1 | PAcq => 2 | PGet => 3 | PChk => 4 | PCons => 5 | PSdRead => 6
  | PSdWrite => 7 | PTouch => 8 | PLen => 9 | PPop => 10 | PRel => 11 | PRet => 12
  | PExcRel => 13 | PExc => 14 | GAcq => 15 | GGet => 16 | GChk => 17 | GNoc => 18
  | GCacheable => 19 | GSet => 20 | GEarlyRel => 21 | GEarlyRet => 22 | GExcRel => 23
  | CAcq => 24 | CNew => 25 | CClr => 26 | CRel => 27 | SAcq => 28 | SSet => 29 | SLoop => 30
  | SRel => 31 | SExcRel => 32 | UChk => 33 | UNew => 34 | URet => 35 | UDel => 36 | PDone => 37
  end.

Definition oz (x : option obj) : Z := match x with Some o => o | None => 0 end.
Definition on (x : option nat) : Z := match x with Some t => Z.of_nat t | None => -1 end.

Fixpoint flat (l : list (Z * obj)) : list Z :=
  match l with [] => [] | (k, o) :: r => k :: o :: flat r end.

(* the visible weak map: newest binding of each key, if its referent is alive *)
Fixpoint visible (s : state) (l : list (key * obj)) (seen : list key) : list (key * obj) :=
  match l with
  | [] => []
  | (k, o) :: r =>
      if zmem k seen then visible s r seen
      else (if alive s o then [(k, o)] else []) ++ visible s r (k :: seen)
  end.

Definition enc_fac (s : state) (f : fac) : list Z :=
  let x := facs s f in
  let v := visible s (wmap x) [] in
  [on (lock x); csize x; Z.of_nat (length v)] ++ flat v ++ [Z.of_nat (length (lru x))] ++ flat (lru x).

Definition thr_pc (s : state) (t : nat) : Z :=
  match nth_error (thrs s) t with Some th => pc_code (tpc th) | None => -1 end.
Definition thr_left (s : state) (t : nat) : Z :=
  match nth_error (thrs s) t with Some th => Z.of_nat (length (prog th)) | None => 0 end.

Definition snapshot (s : state) : list Z :=
  enc_fac s FOff ++ enc_fac s FStr ++ enc_fac s FGet
  ++ [oz (single s); Z.of_nat (length (refs s))] ++ flat (refs s).


(* one record per schedule entry:  len  tid  pc_before  blocked  pc_after  ops_left  snapshot... *)
Fixpoint trace (old : bool) (verbose : bool) (s : state) (sched : list Z) : list Z * state :=
  match sched with
  | [] => ([], s)
  | tz :: r =>
      if finished s then ([], s) else
      let t := Z.to_nat tz in
      let pc0 := thr_pc s t in
      let '(blocked, s') := match step_gen old s t with Some s' => (0, s') | None => (1, s) end in
      let body := [tz; pc0; blocked; thr_pc s' t; thr_left s' t]
                    ++ (if verbose || (thr_pc s' t =? 0) then snapshot s' else []) in
      let '(rest, sf) := trace old verbose s' r in
      ((Z.of_nat (length body) :: body) ++ rest, sf)
  end.

Definition run_entry (old : bool) (args : list Z) : list Z :=
  match args with
  | verbose :: single0 :: nthreads :: r =>
      let '(progs, sched) := take_progs (Z.to_nat nthreads) r in
      let s0 := init_gen (if single0 =? 0 then None else Some single0) progs in
      let '(out, sf) := trace old (negb (verbose =? 0)) s0 sched in
      let h := obs_of_log (log sf) in
      out ++ [-7; (if finished sf then 1 else 0); (if spec_identity h then 1 else 0);
              (if spec_identity_strict h then 1 else 0);
              (if spec_one_live h (map snd (refs sf)) then 1 else 0)]
  | _ => [-1]
  end.

(* observed history: newest first; each record  fac key obj epoch nheld held...  *)
Fixpoint take_obs (fuel : nat) (l : list Z) : list obsret :=
  match fuel, l with
  | S m, f :: k :: o :: e :: n :: r =>
      mkO f k o e (firstn (Z.to_nat n) r) :: take_obs m (skipn (Z.to_nat n) r)
  | _, _ => []
  end.

Definition b2z (b : bool) : Z := if b then 1 else 0.

(* zone equality layer: a zone is  class a b c  (see FacEq.zone_of) *)
Definition zone_entry (args : list Z) : list Z :=
  match args with
  | [c1; a1; b1; d1; e1; f1; g1; h1; i1; c2; a2; b2; d2; e2; f2; g2; h2; i2] =>
      let x := zone_of c1 a1 b1 d1 e1 f1 g1 h1 i1 in
      let y := zone_of c2 a2 b2 d2 e2 f2 g2 h2 i2 in
      [b2z (zone_eq x y); b2z (zone_eq y x); b2z (zone_ne x y)]
  | _ => [-1]
  end.

(* fixed-offset zones (hand model FacFixed, proved equal to the regenerated methods):
   is_utc name okind oval w fold newfold ->
   offset  utcoffset dst tzname is_ambiguous fromutc.wall fromutc.fold enfold.wall enfold.fold *)
Definition fixed_entry (args : list Z) : list Z :=
  match args with
  | [isutc; name; okind; oval; w; fold; nf] =>
      let d : dtv := (w, negb (fold =? 0)) in
      if isutc =? 0 then
        let z := fx_init name (if okind =? 0 then ONum oval else OTd oval) in
        [fz_offset z; fx_utcoffset z d; fx_dst z d; fx_tzname z d; b2z (fx_is_ambiguous z d);
         fst (fx_fromutc z d); b2z (snd (fx_fromutc z d));
         fst (fx_enfold d (negb (nf =? 0))); b2z (snd (fx_enfold d (negb (nf =? 0))))]
      else
        [0; ux_utcoffset d; ux_dst d; ux_tzname d; b2z (ux_is_ambiguous d);
         fst (ux_fromutc d); b2z (snd (ux_fromutc d));
         fst (fx_enfold d (negb (nf =? 0))); b2z (snd (fx_enfold d (negb (nf =? 0))))]
  | _ => [-1]
  end.

Definition nz (x : Z) : bool := negb (x =? 0).
Definition kind_entry (args : list Z) : list Z :=
  match args with
  | [isnone; a; b; c; d; e; f; g; h; i; j; k; l] =>
      let fs := mkFacts (nz a) (nz b) (nz c) (nz d) (nz e) (nz f) (nz g) (nz h) (nz i) (nz j) (nz k) (nz l) in
      [zkind_code (gettz_kind fs); b2z (gettz_caches (nz isnone) (gettz_kind fs))]
  | _ => [-1]
  end.

(* 0: run current code; 1: run pre-e7e8908 code; 2: spec on an observed history
   (-> identity, identity ignoring epochs); 3: zone equality table *)
Definition dispatch (n : Z) (args : list Z) : list Z :=
  match n with
  | 0 => run_entry false args
  | 1 => run_entry true args
  | 2 => let h := take_obs (length args) args in
         [b2z (spec_identity h); b2z (spec_identity_strict h)]
  | 3 => zone_entry args
  | 4 => fixed_entry args
  | 5 => kind_entry args
  | _ => [-1]
  end.

Extraction "model.ml" dispatch.
