(* Extraction of the shared calendar model (coq/base/Cal.v) for its exhaustive correspondence with
   CPython's datetime/calendar (harness/cal_corr.py).  ExtrOcamlBasic only. *)
Require Extraction.
Require Import ExtrOcamlBasic.
From Coq Require Import ZArith List.
From V Require Import base.Cal.
Import ListNotations.
Open Scope Z_scope.

Fixpoint range_map (f : Z -> list Z) (lo : Z) (n : nat) : list Z :=
  match n with O => [] | S k => f lo ++ range_map f (lo + 1) k end.

Definition ord_row (o : Z) : list Z :=
  let '(y, m, d) := ymd_of_ord o in
  let '(iy, iw, id) := isocalendar o in
  [y * 10000 + m * 100 + d; weekday_of_ord o; iy * 1000 + iw * 10 + id; ord_of_ymd y m d].

Definition year_row (y : Z) : list Z :=
  [ (if is_leap y then 1 else 0); days_before_year y; year_len y;
    dim y 1; dim y 2; dim y 3; dim y 4; dim y 5; dim y 6; dim y 7; dim y 8; dim y 9; dim y 10; dim y 11; dim y 12 ].

(* entry 0 [lo; n]: ord_row for ordinals lo .. lo+n-1; entry 1 [lo; n]: year_row for years;
   entry 2 [y; m; d]: valid_ymd *)
Definition dispatch (e : Z) (args : list Z) : list Z :=
  match e, args with
  | 0, [lo; n] => range_map ord_row lo (Z.to_nat n)
  | 1, [lo; n] => range_map year_row lo (Z.to_nat n)
  | 2, [y; m; d] => [if valid_ymd y m d then 1 else 0]
  | _, _ => [-1]
  end.

Extraction "model.ml" dispatch.
