(* Extraction of the tzfile model and spec.  ExtrOcamlBasic only.
   All zone entries take  [nbytes; byte_1 .. byte_n; query ...]  and decode the bytes with the
   model's read_tzfile / parse_tzif on every call. *)
Require Extraction.
Require Import ExtrOcamlBasic.
From Coq Require Import ZArith List Bool.
From V Require Import tzfile.TzModel tzfile.TzSpec tzfile.TzData tzfile.TzGenericModel.
Import ListNotations.
Open Scope Z_scope.

Definition split_bytes (args : list Z) : list Z * list Z :=
  match args with
  | [] => ([], [])
  | n :: r => (firstn (Z.to_nat n) r, skipn (Z.to_nat n) r)
  end.

Definition b2z (b : bool) : Z := if b then 1 else 0.
Definition enc_res {A} (f : A -> list Z) (r : res A) : list Z :=
  match r with Ok a => 0 :: f a | Err e => [e] end.
Definition enc_str (s : list Z) : list Z := len s :: s.
Definition enc_ostr (s : option (list Z)) : list Z :=
  match s with Some s => enc_str s | None => [-1] end.
Definition enc_oz (o : option Z) : list Z := match o with Some x => [1; x] | None => [0; 0] end.

(* entry 1: per UTC instant u:
   st w fold | st off | st dst | st name | st back      (st = 0 ok, else error code alone) *)
Definition obs_utc (d : tzdata) (u : Z) : list Z :=
  match fromutc d u with
  | Err e => [e]
  | Ok (w, f) =>
    [0; w; b2z f] ++ enc_res (fun x => [x]) (dt_utcoffset d w f) ++ enc_res (fun x => [x]) (dt_dst d w f) ++
    enc_res enc_ostr (tzname d w f) ++ enc_res (fun x => [x]) (to_utc d w f)
  end.

(* entry 2: per (w, fold): off | dst | name | ambiguous | exists | resolve_imaginary (w', fold') *)
Definition obs_wall (d : tzdata) (w : Z) (f : bool) : list Z :=
  enc_res (fun x => [x]) (dt_utcoffset d w f) ++ enc_res (fun x => [x]) (dt_dst d w f) ++
  enc_res enc_ostr (tzname d w f) ++ enc_res (fun b => [b2z b]) (datetime_ambiguous d w) ++
  enc_res (fun b => [b2z b]) (datetime_exists d w f) ++
  enc_res (fun p => [fst p; b2z (snd p)]) (resolve_imaginary d w f).

(* entry 3: spec per u: off, local, fold *)
Definition spec_utc (z : zone) (u : Z) : list Z := [off z u; local z u; b2z (fold_spec z u)].

(* entry 4: spec per w: n, preimages..., utc_of fold0, utc_of fold1, gap width, resolve_spec, isolated *)
(* utc_of_spec z w f is min_list / max_list of preimages z w by definition; gap width, resolve_spec
   and isolated are only evaluated for imaginary w (resolve_spec z w = w otherwise) *)
Definition spec_wall (z : zone) (w : Z) : list Z :=
  let p := preimages z w in
  (len p :: p) ++ enc_oz (min_list p) ++ enc_oz (max_list p) ++
  match p with
  | [] => enc_oz (gap_width z w) ++ [resolve_spec z w; b2z (isolated z w)]
  | _ :: _ => [0; 0; w; 0]
  end.

(* entry 5: what the raw data says at u: in_range, found, gmtoff, isdst, abbr *)
Definition spec_data (r : raw) (u : Z) : list Z :=
  b2z (in_data_range r u) ::
  match data_at r u with
  | Some (g, d, a) => [1; g; d] ++ enc_str a
  | None => [0]
  end.

Fixpoint pairs (l : list Z) : list (Z * Z) :=
  match l with a :: b :: r => (a, b) :: pairs r | _ => [] end.

Fixpoint triples (l : list Z) : list (Z * Z * Z) :=
  match l with a :: b :: c :: r => (a, b, c) :: triples r | _ => [] end.

(* entry 6 argument layout: leapcnt, ntimes, times.., idx.., ntypes, (g d a).., nabbr, abbr.., nstd, std.., ngmt, gmt.. *)
Definition take_n (l : list Z) : list Z * list Z :=
  match l with [] => ([], []) | n :: r => (firstn (Z.to_nat n) r, skipn (Z.to_nat n) r) end.
Definition decode_raw (args : list Z) : raw :=
  match args with
  | leap :: nt :: r0 =>
    let times := firstn (Z.to_nat nt) r0 in
    let r1 := skipn (Z.to_nat nt) r0 in
    let idx := firstn (Z.to_nat nt) r1 in
    let r2 := skipn (Z.to_nat nt) r1 in
    match r2 with
    | ny :: r3 =>
      let types := triples (firstn (Z.to_nat (3 * ny)) r3) in
      let r4 := skipn (Z.to_nat (3 * ny)) r3 in
      let (abbr, r5) := take_n r4 in
      let (isstd, r6) := take_n r5 in
      let (isgmt, _) := take_n r6 in
      mkRaw times idx types abbr leap isstd isgmt
    | [] => mkRaw times idx [] [] leap [] []
    end
  | _ => mkRaw [] [] [] [] 0 [] []
  end.

Definition info (bytes : list Z) : list Z :=
  match parse_tzif bytes with
  | Err e => [e]
  | Ok r =>
    match build r with
    | Err e => [e]
    | Ok d =>
      let z := zone_of d in
      [0; b2z (wf_zone z); b2z (good d); b2z (wf_data r); b2z (wf_raw r); z_init z; len (z_trans z)] ++
      flat_map (fun p => [fst p; snd p]) (z_trans z) ++ d_wall d
    end
  end.

Definition with_zone (bytes : list Z) (f : tzdata -> list Z) : list Z :=
  match read_tzfile bytes with Ok d => 0 :: f d | Err e => [e] end.

(* entry 9: the generic _tzinfo.fromutc with the zone's utcoffset/dst given as a finite table
   [(x, fold, utcoffset, dst)]; when the model needs a value that is not in the table it answers
   [1; x; fold] and the harness asks the real zone and calls again: [u; x f uo dst; ...] *)
Fixpoint quads (l : list Z) : list (Z * Z * Z * Z) :=
  match l with a :: b :: c :: e :: r => (a, b, c, e) :: quads r | _ => [] end.
Fixpoint tbl_find (t : list (Z * Z * Z * Z)) (x : Z) (f : bool) : option (Z * Z) :=
  match t with
  | [] => None
  | (x', f', uo, ds) :: r => if (x' =? x) && Bool.eqb (negb (f' =? 0)) f then Some (uo, ds) else tbl_find r x f
  end.
Definition generic_entry (args : list Z) : list Z :=
  match args with
  | [] => [-1]
  | u :: rest =>
    let t := quads rest in
    let UO := fun x f => match tbl_find t x f with Some (a, _) => a | None => 0 end in
    let DS := fun x f => match tbl_find t x f with Some (_, b) => b | None => 0 end in
    let missing := fun x f => match tbl_find t x f with Some _ => false | None => true end in
    if missing u false then [1; u; 0] else
    let s := u + (UO u false - DS u false) in
    if missing s true then [1; s; 1] else
    let w := g_fromutc_wall UO DS u in
    if missing w false then [1; w; 0] else
    if missing w true then [1; w; 1] else
    let (w', f) := g_fromutc UO DS u in [0; w'; b2z f]
  end.

(* entries 0-5 and 8 take [nbytes; bytes...; queries...]; split_bytes must not be applied to the
   arguments of the other entries (their first number is not a length) *)
Definition zone_entry (n : Z) (args : list Z) : list Z :=
  let (bytes, q) := split_bytes args in
  match n with
  | 0 => info bytes
  | 1 => with_zone bytes (fun d => flat_map (obs_utc d) q)
  | 2 => with_zone bytes (fun d => flat_map (fun p => obs_wall d (fst p) (negb (snd p =? 0))) (pairs q))
  | 3 => with_zone bytes (fun d => flat_map (spec_utc (zone_of d)) q)
  | 4 => with_zone bytes (fun d => flat_map (spec_wall (zone_of d)) q)
  | 5 => match parse_tzif bytes with Ok r => 0 :: flat_map (spec_data r) q | Err e => [e] end
  | 8 => (* zone equality of two byte strings: [n1; bytes1; n2; bytes2] *)
         let (b2, _) := split_bytes q in
         match read_tzfile bytes, read_tzfile b2 with
         | Ok d1, Ok d2 => [0; b2z (zone_eqb d1 d2)]
         | _, _ => [1]
         end
  | _ => [-1]
  end.

Definition dispatch (n : Z) (args : list Z) : list Z :=
  if (n =? 6) then (let r := decode_raw args in b2z (wf_raw r) :: render_tzif r)
  else if (n =? 7) then
    match args with
    | [o; u] => let (w, f) := fixed_fromutc o u in
                [w; b2z f; fixed_utcoffset o w f; w - fixed_utcoffset o w f;
                 b2z (fixed_is_ambiguous o w); b2z (fixed_exists o w f)]
    | _ => [-1]
    end
  else if (n =? 9) then generic_entry args
  else zone_entry n args.

Extraction "model.ml" dispatch.
