(* The lexer is linear: it never produces more tokens than there are characters. *)
From Coq Require Import ZArith List Bool Lia.
From V Require Import gen.ParseTables parse.Lex.
Import ListNotations.
Open Scope Z_scope.

Lemma split_rest_len t : forall cur,
  (length (split_rest cur t) <= length t + match cur with [] => 0 | _ => 1 end)%nat.
Proof.
  induction t as [|c t IH]; intros cur; cbn [split_rest length].
  - destruct cur; cbn; lia.
  - destruct (is_sep c).
    + pose proof (IH []) as H0. cbn in H0. destruct cur; cbn [length]; lia.
    + pose proof (IH (c :: cur)) as H1. cbn in H1. destruct cur; lia.
Qed.

Lemma split_first_len t : forall cur, (length (snd (split_first cur t)) <= length t)%nat.
Proof.
  induction t as [|c t IH]; intros cur; cbn [split_first length snd]; [lia|].
  destruct (is_sep c); cbn [snd length].
  - pose proof (split_rest_len t []) as H. cbn in H. lia.
  - pose proof (IH (c :: cur)). lia.
Qed.

(* a token under construction starts with a letter or a digit, never with a separator *)
Definition good (rtok : str) : Prop := exists r c, rtok = r ++ [c] /\ is_sep c = false.

Lemma good_cons c rtok : good rtok -> good (c :: rtok).
Proof. intros (r & c0 & -> & H). exists (c :: r), c0. split; [reflexivity|assumption]. Qed.

Lemma alpha_not_sep c : is_alpha c = true -> is_sep c = false.
Proof.
  unfold is_sep. intros H.
  destruct (c =? 46) eqn:E1; [apply Z.eqb_eq in E1; subst; discriminate|].
  destruct (c =? 44) eqn:E2; [apply Z.eqb_eq in E2; subst; discriminate|]. reflexivity.
Qed.

Lemma digit_not_sep c : is_digit c = true -> is_sep c = false.
Proof.
  unfold is_sep. intros H.
  destruct (c =? 46) eqn:E1; [apply Z.eqb_eq in E1; subst; discriminate|].
  destruct (c =? 44) eqn:E2; [apply Z.eqb_eq in E2; subst; discriminate|]. reflexivity.
Qed.

Lemma good_single c : is_sep c = false -> good [c].
Proof. intros H. exists [], c. auto. Qed.

Lemma finish_len st seen rtok : good rtok -> (length (finish st seen (rev rtok)) <= length rtok)%nat.
Proof.
  intros (r & c & -> & Hc). rewrite rev_app_distr. cbn [rev app].
  rewrite app_length. cbn [length].
  unfold finish.
  destruct ((match st with SAd | S0d => true | _ => false end) && _).
  - cbn [split_first]. rewrite Hc.
    pose proof (split_first_len (rev r) [c]) as H.
    destruct (split_first [c] (rev r)) as [t1 ex]. cbn [snd] in H. rewrite rev_length in H.
    cbn [length]. lia.
  - cbn [length]. lia.
Qed.

Lemma lex_go_len s : forall st seen rtok,
  (match st with Some _ => good rtok | None => True end) ->
  (length (lex_go st seen rtok s) <= length s + match st with Some _ => length rtok | None => 0 end)%nat.
Proof.
  induction s as [|c s IH]; intros st seen rtok Hg; cbn [lex_go].
  - destruct st; cbn [length]; [|lia]. pose proof (finish_len l seen rtok Hg). lia.
  - destruct (c =? 0).
    { pose proof (IH st seen rtok Hg). cbn [length]. lia. }
    cbv zeta. cbn beta.
    match goal with |- context [if is_alpha c then lex_go (Some SA) false [c] s else ?b] =>
      set (start := if is_alpha c then lex_go (Some SA) false [c] s else b) end.
    assert (Hstart : (length start <= S (length s))%nat).
    { subst start.
destruct (is_alpha c) eqn:Ea.
      - pose proof (IH (Some SA) false [c] (good_single c (alpha_not_sep c Ea))). cbn [length] in *. lia.
      - destruct (is_digit c) eqn:Ed.
        + pose proof (IH (Some S0) false [c] (good_single c (digit_not_sep c Ed))). cbn [length] in *. lia.
        + pose proof (IH None false [] I). destruct (is_space c); cbn [length] in *; lia. }
    cbn [length].
    destruct st as [[| | |]|]; [| | | |lia];
      repeat match goal with
      | |- context [if ?b then _ else _] =>
          destruct b
      end;
      try (match goal with |- (length (lex_go ?st' ?sn (c :: rtok) s) <= _)%nat =>
             pose proof (IH st' sn (c :: rtok) (good_cons c rtok Hg)) as H1; cbn [length] in H1; lia end);
      try (rewrite app_length;
           match goal with |- context [finish ?st ?sn (rev rtok)] =>
             pose proof (finish_len st sn rtok Hg) end; lia).
Qed.

Theorem lex_linear_lemma s : (length (timelex s) <= length s)%nat.
Proof. unfold timelex. pose proof (lex_go_len s None false [] I). cbn in H. lia. Qed.
