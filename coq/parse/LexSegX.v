(* Lexer lemma (helper rdalg): a dotted date "DD.MM.YYYY" -- three digit runs joined by two dots --
   is read by _timelex as ONE token in state '0.', and because it contains more than one dot it is
   split afterwards into  DD  .  MM  .  YYYY  (five tokens).  What follows may be nothing, a
   separator other than '.', or a word (the 'T' joiner). *)
From Coq Require Import ZArith List Bool Lia.
From V Require Import gen.ParseTables parse.Lex parse.LexSeg.
Import ListNotations.
Open Scope Z_scope.

Lemma split_first_dot a : forall cur t, all_digit a = true ->
  split_first cur (a ++ 46 :: t) = (rev cur ++ a, [46] :: split_rest [] t).
Proof.
  induction a as [|c a IH]; intros cur t H; cbn [app split_first].
  - change (is_sep 46) with true. cbv iota. rewrite app_nil_r. reflexivity.
  - unfold all_digit in H. cbn [forallb] in H. apply andb_prop in H. destruct H as [Hc H].
    rewrite (digit_not_sep' c Hc). rewrite IH by exact H. cbn [rev]. rewrite <- app_assoc. reflexivity.
Qed.

Lemma split_rest_dot b : forall cur t, all_digit b = true -> nonempty (rev cur ++ b) = true ->
  split_rest cur (b ++ 46 :: t) = (rev cur ++ b) :: [46] :: split_rest [] t.
Proof.
  induction b as [|c b IH]; intros cur t H Hne; cbn [app split_rest].
  - change (is_sep 46) with true. cbv iota. rewrite app_nil_r in *.
    destruct cur as [|x cur]; [discriminate Hne | reflexivity].
  - unfold all_digit in H. cbn [forallb] in H. apply andb_prop in H. destruct H as [Hc H].
    rewrite (digit_not_sep' c Hc). rewrite IH.
    + cbn [rev]. rewrite <- app_assoc. reflexivity.
    + exact H.
    + cbn [rev]. rewrite <- app_assoc. cbn [app]. destruct (rev cur); reflexivity.
Qed.

Lemma split_rest_end c : forall cur, all_digit c = true -> nonempty (rev cur ++ c) = true ->
  split_rest cur c = [rev cur ++ c].
Proof.
  induction c as [|x c IH]; intros cur H Hne; cbn [split_rest].
  - rewrite app_nil_r in *. destruct cur as [|y cur]; [discriminate Hne | reflexivity].
  - unfold all_digit in H. cbn [forallb] in H. apply andb_prop in H. destruct H as [Hx H].
    rewrite (digit_not_sep' x Hx). rewrite IH.
    + cbn [rev]. rewrite <- app_assoc. reflexivity.
    + exact H.
    + cbn [rev]. rewrite <- app_assoc. cbn [app]. destruct (rev cur); reflexivity.
Qed.

Lemma last_rev_digits (g : Z) gs tl : is_digit g = true -> all_digit gs = true ->
  exists x xs, rev gs ++ g :: tl = x :: xs /\ is_digit x = true.
Proof.
  intros Hg Hgs. destruct (rev gs) as [|x xs] eqn:Er.
  - exists g, tl. auto.
  - exists x, (xs ++ g :: tl). split; [reflexivity|].
    assert (Hin : In x gs) by (apply in_rev; rewrite Er; left; reflexivity).
    unfold all_digit in Hgs. rewrite forallb_forall in Hgs. apply Hgs, Hin.
Qed.

Lemma lex_dotted3 d ds e es g gs rest :
  is_digit d = true -> all_digit ds = true -> is_digit e = true -> all_digit es = true ->
  is_digit g = true -> all_digit gs = true ->
  follows (fun x => negb (is_digit x) && negb (x =? 46)) rest ->
  lex_go None false [] (((d :: ds) ++ 46 :: (e :: es) ++ 46 :: (g :: gs)) ++ rest)
  = (d :: ds) :: [46] :: (e :: es) :: [46] :: (g :: gs) :: lex_go None false [] rest.
Proof.
  intros Hd Hds He Hes Hg Hgs Hf.
  assert (Ha : all_digit (d :: ds) = true) by (apply all_digit_cons; assumption).
  assert (Hb : all_digit (e :: es) = true) by (apply all_digit_cons; assumption).
  assert (Hc : all_digit (g :: gs) = true) by (apply all_digit_cons; assumption).
  repeat rewrite <- app_assoc. cbn [app].
  rewrite lex_start by (apply digit_nz; exact Hd).
  rewrite (digit_not_alpha d Hd), Hd. rewrite run_digits by exact Hds.
  (* first dot: '0' -> '0.' *)
  cbn [lex_go]. change (46 =? 0) with false. change (is_digit 46) with false. change (46 =? 46) with true.
  cbn [orb]. cbv iota.
  (* e :: es *)
  rewrite (digit_nz e He), He, orb_true_r. repeat rewrite <- app_assoc. cbn [app].
  rewrite (run_digits_d es) by exact Hes.
  (* second dot *)
  cbn [lex_go]. change (46 =? 0) with false. change (46 =? 46) with true. cbn [orb]. cbv iota.
  (* g :: gs *)
  rewrite (digit_nz g Hg), Hg, orb_true_r. repeat rewrite <- app_assoc. cbn [app].
  rewrite (run_digits_d gs) by exact Hgs.
  set (rtok := rev gs ++ g :: 46 :: rev es ++ e :: 46 :: rev ds ++ [d]).
  assert (Hrev : rev rtok = (d :: ds) ++ 46 :: (e :: es) ++ 46 :: (g :: gs)).
  { subst rtok. repeat (rewrite ?rev_app_distr, ?rev_involutive; cbn [rev app]; rewrite <- ?app_assoc).
    cbn [app]. reflexivity. }
  assert (Hlast : last_is_dot rtok = false).
  { subst rtok. destruct (last_rev_digits g gs (46 :: rev es ++ e :: 46 :: rev ds ++ [d]) Hg Hgs) as (x & xs & E & Hx).
    rewrite E. cbn [last_is_dot]. apply digit_not46, Hx. }
  assert (Hfin : finish S0d false (rev rtok) = [d :: ds; [46]; e :: es; [46]; g :: gs]).
  { rewrite Hrev. unfold finish.
    assert (Hcd : count_dot ((d :: ds) ++ 46 :: (e :: es) ++ 46 :: g :: gs) = 2%nat).
    { rewrite count_dot_app, (count_dot_cons 46), count_dot_app, (count_dot_cons 46).
      rewrite (count_dot_digits _ Ha), (count_dot_digits _ Hb), (count_dot_digits _ Hc). reflexivity. }
    rewrite Hcd. change (1 <? Z.of_nat 2) with true. cbn [andb orb]. cbv iota.
    rewrite (split_first_dot (d :: ds) [] _ Ha).
    rewrite (split_rest_dot (e :: es) [] _ Hb) by reflexivity.
    rewrite (split_rest_end (g :: gs) [] Hc) by reflexivity. cbn [rev app].
    rewrite (count_dot_digits _ Ha). cbn [Nat.eqb].
    rewrite (comma_to_dot_digits _ Ha). reflexivity. }
  destruct Hf as [-> | (c & r & -> & Hc0 & Hcc)].
  - cbn [lex_go]. rewrite Hfin. reflexivity.
  - apply andb_prop in Hcc. destruct Hcc as [H1 H2]. apply negb_true_iff in H1, H2.
    cbn [lex_go]. rewrite Hc0, H1, H2, Hlast, andb_false_r. cbn [orb]. rewrite Hfin. cbn [app].
    repeat f_equal; try (symmetry; apply lex_start; exact Hc0).
Qed.

(* the dotted date followed by well-formed segments (nothing, a separator other than '.', or a word) *)
Definition ok_after_dotted (l : list seg) : bool :=
  match l with
  | [] => true
  | SSep x :: _ => negb (x =? 46)
  | SWord _ :: _ => true
  | _ => false
  end.

Theorem timelex_dotted3 a b c l :
  nonempty a && all_digit a = true -> nonempty b && all_digit b = true -> nonempty c && all_digit c = true ->
  wf_segs l = true -> ok_after_dotted l = true ->
  timelex ((a ++ 46 :: b ++ 46 :: c) ++ concat (map seg_str l)) = a :: [46] :: b :: [46] :: c :: map seg_tok l.
Proof.
  intros Ha Hb Hc Hl Hok. unfold timelex. rewrite <- (lex_segments l Hl).
  apply andb_prop in Ha. destruct Ha as [Na Da]. apply andb_prop in Hb. destruct Hb as [Nb Db].
  apply andb_prop in Hc. destruct Hc as [Nc Dc].
  destruct a as [|d ds]; [discriminate|]. destruct b as [|e es]; [discriminate|]. destruct c as [|g gs]; [discriminate|].
  unfold all_digit in Da, Db, Dc. cbn [forallb] in Da, Db, Dc.
  apply andb_prop in Da. destruct Da as [Hd Hds]. apply andb_prop in Db. destruct Db as [He Hes].
  apply andb_prop in Dc. destruct Dc as [Hg Hgs].
  apply lex_dotted3; try assumption.
  destruct l as [|s l']; [left; reflexivity | right].
  cbn [wf_segs] in Hl. apply andb_prop in Hl. destruct Hl as [Hl _]. apply andb_prop in Hl. destruct Hl as [Hs _].
  destruct (seg_first s Hs) as (x & r & E & Hx0 & Hx).
  exists x, (r ++ concat (map seg_str l')). cbn [map concat]. rewrite E. cbn [app].
  split; [reflexivity|]. split; [exact Hx0|].
  destruct s as [ds'|cs|x'|a' b' cm]; cbn [ok_after_dotted] in Hok; try discriminate.
  - rewrite (alpha_not_digit x Hx), (alpha_not46 x Hx). reflexivity.
  - destruct Hx as (-> & _ & Hdg). rewrite Hdg. cbn [negb andb]. exact Hok.
Qed.
