(* C14: kind analysis of the parser model.  Inside _parse only IndexError / ValueError can arise
   (both are caught), the asserts and the `None + 1` TypeError are unreachable, the loop never runs
   out of fuel (the index grows in every iteration), validate never fails; hence parse() ends in
   a datetime, ParserError or OverflowError. *)
From Coq Require Import ZArith List Bool Lia ZifyBool Arith.
From V Require Import base.Cal gen.ParseTables parse.Lex parse.Prim parse.Ymd parse.Parse parse.Build
                      parse.BuildThm parse.YearThm.
Import ListNotations.
Open Scope Z_scope.

Definition okerr (e : exn) : Prop := e = IndexError \/ e = ValueError \/ e = ValueErrorNoStr.

Definition post {A : Type} (P : A -> Prop) (x : R A) : Prop :=
  match x with Ok a => P a | Err e => okerr e end.

Lemma post_bind {A B} (Q : A -> Prop) (P : B -> Prop) (x : R A) (f : A -> R B) :
  post Q x -> (forall a, Q a -> post P (f a)) -> post P (bind x f).
Proof. destruct x; cbn; auto. Qed.

Lemma post_weaken {A} (P Q : A -> Prop) (x : R A) :
  post P x -> (forall a, P a -> Q a) -> post Q x.
Proof. destruct x; cbn; auto. Qed.

Lemma okerr_V : okerr ValueError. Proof. right; left; reflexivity. Qed.
Lemma okerr_N : okerr ValueErrorNoStr. Proof. right; right; reflexivity. Qed.
Lemma okerr_I : okerr IndexError. Proof. left; reflexivity. Qed.
#[global] Hint Resolve okerr_V okerr_I okerr_N : core.

(* ---- primitives ---- *)
Lemma post_tk l i : post (fun _ => True) (tk l i).
Proof. unfold tk. destruct (nth_error l i); cbn; auto. Qed.

Lemma int_acc_nonneg t : forall a, 0 <= a -> all_decimal t = true -> 0 <= int_acc a t.
Proof.
  unfold all_decimal.
  induction t as [|c t IH]; cbn [forallb int_acc]; intros a Ha H; [lia|].
  apply andb_prop in H. destruct H as [H1 H2]. apply IH; [|assumption].
  apply Z.leb_le in H1. lia.
Qed.

Lemma post_py_int t : post (fun v => 0 <= v) (py_int t).
Proof.
  unfold py_int. destruct t as [|c t]; cbn [post]; auto.
  destruct (all_decimal (c :: t) && _) eqn:E; cbn [post]; auto.
  apply andb_prop in E. destruct E as [E _]. apply (int_acc_nonneg (c :: t) 0); [lia|assumption].
Qed.

Lemma decnum_nonneg t v : decnum t = Some v -> 0 <= fst v.
Proof.
  unfold decnum. destruct (split_dot [] t) as [ip fr]. destruct ip as [|c ip]; [discriminate|].
  destruct (all_decimal (c :: ip)) eqn:E; [|discriminate].
  destruct fr as [f|].
  - destruct (all_decimal f); [|discriminate]. intros H; injection H as <-; cbn [fst].
    apply (int_acc_nonneg (c :: ip) 0); [lia|assumption].
  - intros H; injection H as <-; cbn [fst]. apply (int_acc_nonneg (c :: ip) 0); [lia|assumption].
Qed.

Lemma post_to_decimal t : post (fun v => 0 <= fst v) (to_decimal t).
Proof.
  unfold to_decimal. destruct (decnum t) eqn:E; cbn [post]; auto. eapply decnum_nonneg; eauto.
Qed.

Lemma post_parsems t : post (fun _ => True) (parsems t).
Proof.
  unfold parsems. destruct (has_dot t).
  - destruct (split_dot [] t) as [i rest]. destruct rest as [f|]; cbn [post]; auto.
    destruct (has_dot f); cbn [post]; auto.
    eapply post_bind; [apply post_py_int|]. intros a _.
    eapply post_bind; [apply post_py_int|]. intros b _. exact I.
  - eapply post_bind; [apply post_py_int|]. intros a _. exact I.
Qed.

Lemma post_monthlen y m : post (fun _ => True) (monthlen y m).
Proof. unfold monthlen. destruct (_ && _); cbn [post]; auto. destruct (str_limit_hit m); cbn [post]; auto. Qed.

Definition nonneg_list (l : list Z) : Prop := Forall (fun v => 0 <= v) l.

Lemma post_getz l i : nonneg_list l -> post (fun v => 0 <= v) (getz l i).
Proof.
  intros Hl. unfold getz.
  destruct ((0 <=? _) && _); cbn [post]; auto.
  destruct (nth_error l _) eqn:E; cbn [post]; auto.
  apply nth_error_In in E. unfold nonneg_list in Hl. rewrite Forall_forall in Hl. auto.
Qed.

(* ---- the ymd accumulator ---- *)
Definition idx_ok (n : Z) (o : option Z) : Prop := match o with Some i => 0 <= i < n | None => True end.
Definition ne_opt (a b : option Z) : Prop := match a, b with Some i, Some j => i <> j | _, _ => True end.

Definition ymd_inv (y : ymd) : Prop :=
  nonneg_list (y_vals y) /\ idx_ok (ylen y) (y_y y) /\ idx_ok (ylen y) (y_m y) /\ idx_ok (ylen y) (y_d y)
  /\ ne_opt (y_y y) (y_m y) /\ ne_opt (y_y y) (y_d y) /\ ne_opt (y_m y) (y_d y).

Lemma ymd_inv_empty : ymd_inv ymd_empty.
Proof. unfold ymd_inv, ymd_empty; cbn. repeat split; auto. constructor. Qed.

Lemma idx_ok_mono n o : idx_ok n o -> idx_ok (n + 1) o.
Proof. destruct o; cbn; lia. Qed.

Lemma ne_opt_fresh n o : idx_ok n o -> ne_opt (Some n) o /\ ne_opt o (Some n).
Proof. destruct o; cbn; lia. Qed.

Lemma post_append_core y v big lab :
  ymd_inv y -> 0 <= v -> post ymd_inv (append_core y v big lab).
Proof.
  intros (Hv & Hy & Hm & Hd & Hym & Hyd & Hmd) Hnn.
  assert (Hlen : Z.of_nat (length (y_vals y ++ [v])) = ylen y + 1).
  { rewrite app_length. cbn [length]. unfold ylen. lia. }
  assert (Hvals : nonneg_list (y_vals y ++ [v])).
  { unfold nonneg_list in *. apply Forall_app; split; auto. }
  pose proof (ne_opt_fresh _ _ Hy) as [Fy1 Fy2].
  pose proof (ne_opt_fresh _ _ Hm) as [Fm1 Fm2].
  pose proof (ne_opt_fresh _ _ Hd) as [Fd1 Fd2].
  assert (Hself : 0 <= ylen y < ylen y + 1) by (unfold ylen; lia).
  unfold append_core.
  destruct lab as [[| |]|]; destruct big; cbn [post]; auto;
  repeat match goal with
  | |- context [isSome ?o] => destruct o eqn:?; cbn [isSome post]; auto
  end;
  unfold ymd_inv, ylen; cbn [y_vals y_y y_m y_d]; rewrite ?Hlen;
  repeat split; auto using idx_ok_mono; cbn; auto; try (unfold ylen in *; lia).
Qed.

Lemma post_append_str y t lab : ymd_inv y -> post ymd_inv (append_str y t lab).
Proof.
  intros Hy. unfold append_str.
  destruct lab as [[| |]|]; destruct (py_isdigit t && _); cbn [post]; auto;
    (eapply post_bind; [apply post_py_int|]; intros v Hv; apply post_append_core; assumption).
Qed.

Lemma post_append_dec y v lab : ymd_inv y -> 0 <= fst v -> post ymd_inv (append_dec y v lab).
Proof. intros. unfold append_dec, dec_int. apply post_append_core; assumption. Qed.

Lemma post_append_int y n lab : ymd_inv y -> 0 <= n -> post ymd_inv (append_int y n lab).
Proof. intros. unfold append_int. apply post_append_core; assumption. Qed.

Lemma post_append_yearstr y n : ymd_inv y -> 0 <= n -> post ymd_inv (append_yearstr y n).
Proof. intros. unfold append_yearstr. apply post_append_core; assumption. Qed.

Lemma post_could_be_day y v : ymd_inv y -> post (fun _ => True) (could_be_day y v).
Proof.
  intros (Hv & _). unfold could_be_day.
  destruct (isSome (y_d y)); cbn [post]; auto.
  destruct (y_m y); cbn [post]; auto.
  destruct (y_y y).
  - eapply post_bind; [apply post_getz; assumption|]. intros month _.
    eapply post_bind; [apply post_getz; assumption|]. intros year _.
    destruct (dec_ge v 1); cbn [post]; auto.
    eapply post_bind; [apply post_monthlen|]. intros; exact I.
  - eapply post_bind; [apply post_getz; assumption|]. intros month _.
    destruct (dec_ge v 1); cbn [post]; auto.
    eapply post_bind; [apply post_monthlen|]. intros; exact I.
Qed.

(* ---- hms helpers ---- *)
Lemma find_hms_idx_sound l idx b h : find_hms_idx l idx b = Some h -> hms_at l h = true.
Proof.
  unfold find_hms_idx.
  destruct (hms_at l (idx + 1)) eqn:E1; [intros H; injection H as <-; assumption|].
  destruct (b && _ && hms_at l (idx + 2)) eqn:E2.
  { intros H; injection H as <-. apply andb_prop in E2. tauto. }
  destruct ((0 <? idx)%nat && hms_at l (idx - 1)) eqn:E3.
  { intros H; injection H as <-. apply andb_prop in E3. tauto. }
  destruct ((1 <? idx)%nat && _ && _ && hms_at l (idx - 2)) eqn:E4; [|discriminate].
  intros H; injection H as <-. apply andb_prop in E4. tauto.
Qed.

Lemma post_parse_hms l idx h :
  hms_at l h = true -> post (fun p => (idx <= fst p)%nat) (parse_hms l idx h).
Proof.
  unfold hms_at, parse_hms, tk. destruct (nth_error l h) as [t|]; [|discriminate].
  cbn [bind]. destruct (info_hms t); [|discriminate]. intros _.
  destruct (idx <? h)%nat eqn:E; cbn [post fst]; [apply Nat.ltb_lt in E; lia | lia].
Qed.

Lemma post_assign_hms r s hms : post (fun _ => True) (assign_hms r s hms).
Proof.
  unfold assign_hms. eapply post_bind; [apply post_to_decimal|]. intros v _.
  destruct (hms =? 0). { destruct (frac_nonzero v); exact I. }
  destruct (hms =? 1). { destruct (parse_min_sec v); exact I. }
  destruct (hms =? 2); [|exact I].
  eapply post_bind; [apply post_parsems|]. intros; exact I.
Qed.

Lemma sassoc_forall (P : Z -> Prop) k t v :
  Forall (fun p => P (snd p)) t -> sassoc k t = Some v -> P v.
Proof.
  induction t as [|[k' v'] t IH]; cbn; [discriminate|].
  intros H. inversion H; subst. destruct (str_eqb k' k); [intros E; injection E as <-; assumption|auto].
Qed.

Lemma tbl_months_nonneg : Forall (fun p : str * Z => 0 <= snd p) tbl_months.
Proof.
  apply Forall_forall. intros p Hp.
  assert (H : forallb (fun p : str * Z => 0 <=? snd p) tbl_months = true) by (vm_compute; reflexivity).
  rewrite forallb_forall in H. apply Z.leb_le. apply H. assumption.
Qed.

Lemma info_month_nonneg t m : info_month t = Some m -> 0 <= m.
Proof.
  unfold info_month. destruct (sassoc (lower t) tbl_months) eqn:E; [|discriminate].
  intros H; injection H as <-.
  pose proof (sassoc_forall (fun v => 0 <= v) _ _ _ tbl_months_nonneg E). cbn in H. lia.
Qed.

Ltac pstep :=
  lazymatch goal with
  | |- post _ (bind (tk _ _) _) => eapply post_bind; [apply post_tk | intros ? _]
  | |- post _ (bind (py_int _) _) => eapply post_bind; [apply post_py_int | intros ? ?]
  | |- post _ (bind (to_decimal _) _) => eapply post_bind; [apply post_to_decimal | intros ? ?]
  | |- post _ (bind (parsems _) _) => eapply post_bind; [apply post_parsems | intros ? _]
  | |- post _ (bind (append_str _ _ _) _) =>
      eapply post_bind; [apply post_append_str; assumption | intros ? ?]
  | |- post _ (bind (append_dec _ _ _) _) =>
      eapply post_bind; [apply post_append_dec; assumption | intros ? ?]
  | |- post _ (bind (append_int _ _ _) _) =>
      eapply post_bind; [apply post_append_int; [assumption | eauto using info_month_nonneg] | intros ? ?]
  | |- post _ (bind (append_yearstr _ _) _) =>
      eapply post_bind; [apply post_append_yearstr; assumption | intros ? ?]
  | |- post _ (bind (could_be_day _ _) _) =>
      eapply post_bind; [apply post_could_be_day; assumption | intros ? _]
  | |- post _ (bind (assign_hms _ _ _) _) => eapply post_bind; [apply post_assign_hms | intros ? _]
  | |- post _ (bind (parse_hms _ _ _) _) =>
      eapply post_bind; [apply post_parse_hms; eapply find_hms_idx_sound; eassumption | intros ? ?]
  | |- post _ (bind (Err _) _) => cbn [bind post]; auto
  | |- post _ (bind (Ok _) _) => cbn [bind]
  | |- post _ (bind (match ?x with _ => _ end) _) => destruct x eqn:?
  | |- post _ (bind (if ?c then _ else _) _) => destruct c eqn:?
  | |- post _ (if ?c then _ else _) => destruct c eqn:?
  | |- post _ (match ?x with _ => _ end) => destruct x eqn:?
  | |- post _ (Err _) => cbn [post]; auto
  | |- post _ (Ok _) => cbn [post fst snd]; cbn beta in *; split; [lia | assumption]
  end.

Definition num_post (idx : nat) (p : nat * ymd * pres) : Prop :=
  (idx <= fst (fst p))%nat /\ ymd_inv (snd (fst p)).

Lemma post_parse_numeric l idx y r fuzzy :
  ymd_inv y -> post (num_post idx) (parse_numeric l idx y r fuzzy).
Proof.
  intros Hy. unfold parse_numeric, num_post. cbv zeta.
  repeat pstep.
Qed.

(* ---- one loop iteration ---- *)
Lemma set_nth_length l : forall i v, length (set_nth l i v) = length l.
Proof. induction l as [|x l IH]; intros [|i] v; cbn; auto. Qed.

Lemma post_convertyear cur v cs :
  0 <= v -> 50 <= cur -> post (fun y => 0 <= y) (convertyear cur v cs).
Proof.
  intros Hv Hc. unfold convertyear.
  destruct (v <? 0) eqn:E0; [lia|].
  destruct ((v <? 100) && negb cs); cbn [post]; [|lia].
  destruct (cur + 50 <=? _) eqn:E1; cbn [post]; [lia|].
  destruct (_ <? cur - 50) eqn:E2; cbn [post]; lia.
Qed.

Lemma post_ampm_valid hour ampm fz :
  post (fun ok => ok = true -> isSome hour = true) (ampm_valid hour ampm fz).
Proof.
  unfold ampm_valid. destruct hour as [h|].
  - destruct (_ && _); cbn [post]; auto. destruct fz; cbn [post]; auto.
  - destruct fz; cbn [post]; auto.
Qed.

Definition step_post (st st' : pst) : Prop :=
  (p_i st < p_i st')%nat /\ length (p_l st') = length (p_l st) /\ ymd_inv (p_y st') /\
  (p_sk st' = p_sk st \/ p_sk st' = p_i st :: p_sk st).

Ltac sleaf :=
  cbn [post p_i p_l p_y p_sk]; cbn beta in *;
  split; [lia | split; [rewrite ?set_nth_length; reflexivity | split; [assumption |
  first [left; reflexivity | right; reflexivity]]]].

Lemma bind_assoc {A B C} (x : R A) (f : A -> R B) (g : B -> R C) :
  bind (bind x f) g = bind x (fun a => bind (f a) g).
Proof. destruct x; reflexivity. Qed.

Ltac sstep :=
  lazymatch goal with
  | |- post _ (bind (bind _ _) _) => rewrite bind_assoc
  | |- post _ (bind (tk _ _) _) => eapply post_bind; [apply post_tk | intros ? _]
  | |- post _ (bind (py_int _) _) => eapply post_bind; [apply post_py_int | intros ? ?]
  | |- post _ (bind (append_str _ _ _) _) =>
      eapply post_bind; [apply post_append_str; assumption | intros ? ?]
  | |- post _ (bind (append_int _ _ _) _) =>
      eapply post_bind; [apply post_append_int; [assumption | eauto using info_month_nonneg] | intros ? ?]
  | |- post _ (bind (append_yearstr _ _) _) =>
      eapply post_bind; [apply post_append_yearstr; assumption | intros ? ?]
  | |- post _ (bind (convertyear _ _ _) _) =>
      eapply post_bind; [apply post_convertyear; assumption | intros ? ?]
  | |- post _ (bind (Err _) _) => cbn [bind post]; auto
  | |- post _ (bind (Ok _) _) => cbn [bind]; cbn beta iota
  | |- post _ (bind (match ?x with _ => _ end) _) => destruct x eqn:?
  | |- post _ (bind (if ?c then _ else _) _) => destruct c eqn:?
  | |- post _ (if ?c then _ else _) => destruct c eqn:?
  | |- post _ (match ?x with _ => _ end) => destruct x eqn:?
  | |- post _ (Err ValueError) => cbn [post]; auto
  | |- post _ (Err IndexError) => cbn [post]; auto
  | |- post _ (Ok _) => sleaf
  end.

Lemma nth_set_nth_other (l : list str) : forall i j v, i <> j -> nth j (set_nth l i v) [] = nth j l [].
Proof.
  induction l as [|x l IH]; intros [|i] [|j] v H; cbn [set_nth nth]; try reflexivity; try congruence.
  apply IH. congruence.
Qed.

Lemma post_parse_step fz cur st :
  50 <= cur -> ymd_inv (p_y st) -> post (step_post st) (parse_step fz cur st).
Proof.
  intros Hc Hy. destruct st as [l i r y sk]. cbn [p_y] in Hy.
  unfold parse_step, step_post. cbn [p_l p_i p_r p_y p_sk]. cbv zeta.
  eapply post_bind; [apply post_tk|]. intros t _.
  destruct (is_float t).
  { eapply post_bind; [apply post_parse_numeric; assumption|]. intros [[i' y'] r'] [H1 H2].
    cbn [fst snd] in H1, H2. sleaf. }
  destruct (info_weekday t). { sleaf. }
  destruct (info_month t) as [m|] eqn:Em. { repeat sstep. }
  destruct (info_ampm t) as [ap|].
  { eapply post_bind; [apply post_ampm_valid|]. intros ok Hok.
    destruct ok.
    - destruct (r_hour r); [sleaf|]. specialize (Hok eq_refl). discriminate.
    - destruct fz; sleaf. }
  repeat sstep.
Qed.

(* ---- the loop: the index grows, so `number of tokens` iterations suffice ---- *)
(* skipped indices: strictly decreasing (most recent first), all below the current index *)
Fixpoint sk_desc (bound : nat) (sk : list nat) : Prop :=
  match sk with [] => True | k :: sk' => (k < bound)%nat /\ sk_desc k sk' end.

Lemma sk_desc_weaken sk : forall b b', (b <= b')%nat -> sk_desc b sk -> sk_desc b' sk.
Proof. destruct sk as [|k sk]; cbn; [auto|]. intros b b' Hb [H1 H2]. split; [lia|assumption]. Qed.

Lemma sk_desc_lt sk : forall b k, sk_desc b sk -> In k sk -> (k < b)%nat.
Proof.
  induction sk as [|x sk IH]; cbn; [tauto|]. intros b k [H1 H2] [<- | Hin]; [assumption|].
  specialize (IH x k H2 Hin). lia.
Qed.

(* loop invariant: ymd invariant; skipped indices strictly decreasing and below the index *)
Definition loop_inv (st : pst) : Prop := ymd_inv (p_y st) /\ sk_desc (p_i st) (p_sk st).

Lemma post_parse_loop fz cur : 50 <= cur -> forall fuel st,
  loop_inv st -> (length (p_l st) - p_i st <= fuel)%nat ->
  post loop_inv (parse_loop fuel fz cur st).
Proof.
  intros Hc. induction fuel as [|f IH]; intros st Hinv Hf; cbn [parse_loop].
  - destruct (length (p_l st) <=? p_i st)%nat eqn:E; cbn [post]; [assumption|].
    apply Nat.leb_gt in E. lia.
  - destruct (length (p_l st) <=? p_i st)%nat eqn:E; cbn [post]; [assumption|].
    apply Nat.leb_gt in E. destruct Hinv as (Hy & Hsk).
    eapply post_bind; [apply post_parse_step; assumption|].
    intros st' (H1 & H2 & H3 & H4). apply IH; [|rewrite H2; lia].
    split; [assumption|].
    destruct H4 as [-> | ->].
    + eapply sk_desc_weaken; [|exact Hsk]. lia.
    + cbn [sk_desc]. split; [lia|assumption].
Qed.

(* the progress statement on its own: every iteration that succeeds moves the index forward *)
Lemma parse_step_progress_lemma fz cur st st' :
  50 <= cur -> ymd_inv (p_y st) -> parse_step fz cur st = Ok st' ->
  (p_i st < p_i st')%nat /\ length (p_l st') = length (p_l st).
Proof.
  intros Hc Hy H. pose proof (post_parse_step fz cur st Hc Hy) as P. rewrite H in P.
  destruct P as (P1 & P2 & _). auto.
Qed.

(* ---- resolve_ymd: the two asserts of _resolve_from_stridxs cannot fail ---- *)
Definition nonneg_opt (o : option Z) : Prop := match o with Some v => 0 <= v | None => True end.
Definition nonneg3 (t : ymd3) : Prop :=
  nonneg_opt (fst (fst t)) /\ nonneg_opt (snd (fst t)) /\ nonneg_opt (snd t).

Lemma post_opt_get l o : nonneg_list l -> post nonneg_opt (opt_get l o).
Proof.
  intros Hl. destruct o as [i|]; cbn [opt_get post nonneg_opt]; auto.
  eapply post_bind; [apply post_getz; assumption|]. intros v Hv. exact Hv.
Qed.

Lemma idx3 i : 0 <= i < 3 -> i = 0 \/ i = 1 \/ i = 2. Proof. lia. Qed.

Lemma post_resolve_from_stridxs y :
  ymd_inv y ->
  ((ylen y =? nsome (y_y y) + nsome (y_m y) + nsome (y_d y)) = true \/
   (ylen y = 3 /\ nsome (y_y y) + nsome (y_m y) + nsome (y_d y) = 2)) ->
  post nonneg3 (resolve_from_stridxs y).
Proof.
  intros (Hv & Hy & Hm & Hd & Hym & Hyd & Hmd) Hc.
  unfold resolve_from_stridxs.
  set (n_str := nsome (y_y y) + nsome (y_m y) + nsome (y_d y)) in *.
  assert (Hfin : forall iy im id,
    ylen y = nsome iy + nsome im + nsome id ->
    post nonneg3
      (if negb (ylen y =? nsome iy + nsome im + nsome id) then Err AssertionError else
       do yy <- opt_get (y_vals y) iy; do mm <- opt_get (y_vals y) im; do dd <- opt_get (y_vals y) id;
       Ok (yy, mm, dd))).
  { intros iy im id E. rewrite <- E, Z.eqb_refl. cbn [negb].
    eapply post_bind; [apply post_opt_get; assumption|]. intros yy Hyy.
    eapply post_bind; [apply post_opt_get; assumption|]. intros mm Hmm.
    eapply post_bind; [apply post_opt_get; assumption|]. intros dd Hdd.
    cbn [post]. unfold nonneg3; cbn [fst snd]. auto. }
  destruct ((ylen y =? 3) && (n_str =? 2)) eqn:E32.
  - apply andb_prop in E32. destruct E32 as [E3 E2]. apply Z.eqb_eq in E3, E2.
    subst n_str. rewrite E3 in *.
    destruct (y_y y) as [a|], (y_m y) as [b|], (y_d y) as [c|]; cbn [nsome] in E2; try lia;
      cbn [idx_ok ne_opt] in *;
      repeat match goal with
      | H : 0 <= ?i < 3 |- _ => destruct (idx3 i H) as [-> | [-> | ->]]; clear H
      end; try lia;
      match goal with |- context [filter ?f ?l] =>
        let v := eval vm_compute in (filter f l) in change (filter f l) with v end;
      cbn [bind]; apply Hfin; cbn [nsome]; lia.
  - cbn [bind]. apply Hfin. destruct Hc as [Hc | [Hc1 Hc2]].
    + apply Z.eqb_eq in Hc. exact Hc.
    + exfalso. subst n_str. rewrite Hc1, Hc2 in E32. discriminate.
Qed.

Ltac rstep Hv :=
  lazymatch goal with
  | |- post _ (bind (getz _ _) _) => eapply post_bind; [apply post_getz; exact Hv | intros ? ?]
  | |- post _ (if ?c then _ else _) => destruct c eqn:?
  | |- post _ (match ?x with _ => _ end) => destruct x eqn:?
  | |- post _ (Err ValueError) => cbn [post]; auto
  | |- post _ (Ok _) => cbn [post]; unfold nonneg3; cbn [fst snd nonneg_opt]; auto
  end.

Lemma post_resolve_ymd y yf df : ymd_inv y -> post nonneg3 (resolve_ymd y yf df).
Proof.
  intros Hy. pose proof Hy as (Hv & _).
  unfold resolve_ymd. cbv zeta.
  destruct (((ylen y =? _) && _) || _) eqn:E.
  - apply post_resolve_from_stridxs; [assumption|].
    apply orb_prop in E. destruct E as [E|E]; apply andb_prop in E; destruct E as [E1 E2].
    + left. exact E1.
    + right. apply Z.eqb_eq in E1, E2. auto.
  - repeat rstep Hv.
Qed.

(* ---- validate never fails once the year is non-negative ---- *)
Lemma convertyear_ok cur v cs : 0 <= v -> exists y', convertyear cur v cs = Ok y'.
Proof.
  intros Hv. unfold convertyear. destruct (v <? 0) eqn:E0; [lia|].
  destruct ((v <? 100) && negb cs); [|eauto].
  destruct (cur + 50 <=? _); [eauto|]. destruct (_ <? cur - 50); eauto.
Qed.

Lemma validate_ok cur r : nonneg_opt (r_year r) -> exists r', validate cur r = Ok r'.
Proof.
  intros Hy. unfold validate.
  destruct (r_year r) as [yv|]; cbn [nonneg_opt] in Hy.
  - destruct (convertyear_ok cur yv (r_century r) Hy) as [y' ->]. cbn [bind].
    match goal with |- context [if ?c then _ else _] => destruct c end; eauto.
    match goal with |- context [if ?c then _ else _] => destruct c end; eauto.
  - cbn [bind].
    match goal with |- context [if ?c then _ else _] => destruct c end; eauto.
    match goal with |- context [if ?c then _ else _] => destruct c end; eauto.
Qed.

(* ---- _parse never raises: every internal error is caught ---- *)
Lemma parse_res_total fz fwt yf df cur s :
  50 <= cur -> exists v, parse_res fz fwt yf df cur s = Ok v.
Proof.
  intros Hc. unfold parse_res. cbv zeta.
  set (l := timelex s).
  pose proof (post_parse_loop (fz || fwt) cur Hc (length l) (mkSt l 0 res_empty ymd_empty [])
                (conj ymd_inv_empty I)) as PL.
  cbn [p_l p_i] in PL. specialize (PL ltac:(lia)).
  destruct (parse_loop _ _ _ _) as [st|e]; cbn [post bind] in *.
  - destruct PL as [PL PLsk].
    pose proof (post_resolve_ymd (p_y st) yf df PL) as PR.
    destruct (resolve_ymd (p_y st) yf df) as [[[yy mm] dd]|e]; cbn [post bind] in *.
    + destruct PR as (P1 & _). cbn [fst snd] in P1.
      cbn [p_r].
      destruct (validate_ok cur (set_ymdc (p_r st) yy mm dd (y_century (p_y st)))) as [r' Hr'];
        [exact P1|].
      rewrite Hr'. cbn [bind]. eauto.
    + destruct PR as [-> | [-> | ->]]; eauto.
  - destruct PL as [-> | [-> | ->]]; eauto.
Qed.

(* ---- C14: parse() ends in a datetime, ParserError or OverflowError ---- *)
(* the only escape is the unprintable IllegalMonthError (open finding F-C14-bigmonth) *)
Definition allowed (x : outcome) : Prop :=
  match x with OutEscape e => e = ValueErrorNoStr | _ => True end.

Theorem parse_total_lemma o s :
  wf_tzinfos (o_tzinfos o) = true -> 50 <= o_cur_year o -> allowed (parse o s).
Proof.
  intros Hwf Hc. unfold parse.
  destruct (parse_res_total (o_fuzzy o) (o_fwt o) (oflag (o_yearfirst o) (o_info_yearfirst o))
              (oflag (o_dayfirst o) (o_info_dayfirst o)) (o_cur_year o) s Hc) as [v Hv].
  rewrite Hv. destruct v as [[r toks]|]; [|exact I].
  destruct (res_len r =? 0); [exact I|].
  destruct (build_naive r (o_default o)) as [nv|e] eqn:En.
  - destruct (o_ignoretz o); [exact I|].
    destruct (build_tzaware o r) as [[[z f] w]|e] eqn:Et; [exact I|].
    rewrite (build_tzaware_kind o r e Hwf Et). exact I.
  - destruct (build_naive_kind r (o_default o) e En) as [-> | [-> | ->]]; cbn; auto.
Qed.

(* the model threads no state: the outcome is a function of (options, text) -- by construction;
   stated for the record *)
Lemma parse_deterministic o s1 s2 : s1 = s2 -> parse o s1 = parse o s2.
Proof. intros ->. reflexivity. Qed.

(* ---- non-vacuity: concrete well-formed options and texts ---- *)
Definition ex_opts : opts :=
  mkOpts true true None (Some true) false false false
         (TIDict [([66; 82; 83; 84], TVInt (-10800))]) (mkDt 2003 9 25 0 0 0 0) 2026
         [[85; 84; 67]; [85; 84; 67]] true false.

(* "Today is 25 of September of 2003, exactly at 10:49:41 with timezone -03:00." *)
Example parse_total_example :
  wf_tzinfos (o_tzinfos ex_opts) = true /\ 50 <= o_cur_year ex_opts /\
  (exists toks, parse ex_opts [49; 48; 58; 52; 57; 58; 52; 49; 32; 45; 48; 51; 58; 48; 48; 32; 120]
     = OutOk (mkDt 2003 9 25 10 49 41 0) (ZOffset None (-10800)) 0 false toks) /\
  parse ex_opts [49; 48; 58; 58; 58] = OutParserError /\
  parse ex_opts ([49; 48; 58] ++ repeat 49 30) = OutOverflow.
Proof.
  split; [reflexivity|]. split; [cbn; lia|]. split; [eexists; vm_compute; reflexivity|].
  split; vm_compute; reflexivity.
Qed.


(* ---- F-C14-bigmonth: the faithful model does let one exception class escape ----
   When the month handed to calendar.monthrange has more digits than the int -> str limit,
   IllegalMonthError(month) cannot be formatted: `str(e)` in parse()'s `except ValueError` handler
   raises a plain ValueError.  Concrete text (reproduced on the implementation and on the extracted
   model by check_C14, regression corpus): "60 " followed by 4301 ones. *)
Lemma escape_characterised o s e :
  wf_tzinfos (o_tzinfos o) = true -> 50 <= o_cur_year o -> parse o s = OutEscape e ->
  e = ValueErrorNoStr /\
  exists r toks,
    parse_res (o_fuzzy o) (o_fwt o) (oflag (o_yearfirst o) (o_info_yearfirst o))
              (oflag (o_dayfirst o) (o_info_dayfirst o)) (o_cur_year o) s = Ok (Some (r, toks)) /\
    build_naive r (o_default o) = Err ValueErrorNoStr.
Proof.
  intros Hwf Hc. unfold parse.
  destruct (parse_res_total (o_fuzzy o) (o_fwt o) (oflag (o_yearfirst o) (o_info_yearfirst o))
              (oflag (o_dayfirst o) (o_info_dayfirst o)) (o_cur_year o) s Hc) as [v Hv].
  rewrite Hv. destruct v as [[r toks]|]; [|discriminate].
  destruct (res_len r =? 0); [discriminate|].
  destruct (build_naive r (o_default o)) as [nv|e'] eqn:En.
  - destruct (o_ignoretz o); [discriminate|].
    destruct (build_tzaware o r) as [[[z f] w]|e'] eqn:Et; [discriminate|].
    rewrite (build_tzaware_kind o r e' Hwf Et). discriminate.
  - destruct (build_naive_kind r (o_default o) e' En) as [-> | [-> | ->]]; try discriminate.
    intros H; injection H as <-. split; [reflexivity|]. exists r, toks. auto.
Qed.

Definition bigmonth_res (m : Z) : pres :=
  mkRes (Some 60) (Some m) None None None None None None None None None false.

Lemma build_naive_bigmonth m d :
  12 < m -> str_limit_hit m = true -> build_naive (bigmonth_res m) d = Err ValueErrorNoStr.
Proof.
  intros Hm Hs. unfold build_naive, bigmonth_res. cbn [r_day r_year r_month dflt].
  unfold monthlen. replace ((1 <=? m) && (m <=? 12)) with false by lia. rewrite Hs. reflexivity.
Qed.

Lemma bigmonth_exists : exists m, 12 < m /\ str_limit_hit m = true.
Proof.
  exists (10 ^ int_max_str_digits). unfold str_limit_hit.
  assert (H1 : 10 ^ 2 <= 10 ^ int_max_str_digits).
  { apply Z.pow_le_mono_r; [reflexivity | vm_compute; discriminate]. }
  assert (H2 : 10 ^ Z.min int_max_str_digits 18 <= 10 ^ int_max_str_digits).
  { apply Z.pow_le_mono_r; [reflexivity | vm_compute; discriminate]. }
  remember (10 ^ int_max_str_digits) as P eqn:EP.
  remember (10 ^ Z.min int_max_str_digits 18) as Q eqn:EQ.
  change (10 ^ 2) with 100 in H1.
  split; [lia|].
  rewrite Z.abs_eq by lia. rewrite Z.leb_refl.
  replace (Q <=? P) with true by lia. reflexivity.
Qed.

(* the unguarded totality statement is false of the faithful model *)
Lemma parse_total_unguarded_refuted_lemma :
  exists r d, valid_dt d = true /\ build_naive r d = Err ValueErrorNoStr.
Proof.
  destruct bigmonth_exists as (m & H1 & H2).
  exists (bigmonth_res m), (mkDt 2003 9 25 0 0 0 0). split; [reflexivity|].
  apply build_naive_bigmonth; assumption.
Qed.
