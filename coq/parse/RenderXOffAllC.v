(* C02: family theorem for numeric UTC offsets after "Mon DD, YYYY HH:MM[:SS]" / "Month DD, YYYY ..."
   (collects RenderXOffC_*.v; rd builder). *)
From Coq Require Import ZArith List Bool.
From V Require Import base.Cal parse.Lex parse.Prim parse.Parse parse.Build parse.ParseSpec parse.RenderIso parse.RenderOffDefs parse.RenderXOffAll.
From V Require Import parse.RenderXOffC_DMonDY_THM_OHH_MM parse.RenderXOffC_DMonDY_THM_OHH parse.RenderXOffC_DMonDY_THM_OHHMM parse.RenderXOffC_DMonDY_THMS_OHH_MM parse.RenderXOffC_DMonDY_THMS_OHH parse.RenderXOffC_DMonDY_THMS_OHHMM parse.RenderXOffC_DMonthDY_THM_OHH_MM parse.RenderXOffC_DMonthDY_THM_OHH parse.RenderXOffC_DMonthDY_THM_OHHMM parse.RenderXOffC_DMonthDY_THMS_OHH_MM parse.RenderXOffC_DMonthDY_THMS_OHH parse.RenderXOffC_DMonthDY_THMS_OHHMM.
Import ListNotations.
Open Scope Z_scope.

Definition x_comma_dforms : list dform := [DMonDY; DMonthDY].

(* 12 templates x 2 signs: "Sep 25, 2003 10:49:41 -03:00", "September 25, 2003 10:49+0300", ...;
   guard 100 <= year (F-C02-padyear) *)
Theorem parse_render_comma_offset_lemma : forall f tf ofm d o df cy loc n0 n1 yf ig,
  In f x_comma_dforms -> In tf x_tforms -> In ofm x_oforms ->
  valid_dt d = true -> valid_dt df = true -> 100 <= d_y d -> wf_off o = true -> smem utc_name loc = false ->
  parse (opts_df0 yf ig df cy loc n0 n1) (render (TDT f JSpace tf ofm) d o)
  = OutOk (expected_dt (TDT f JSpace tf ofm) d df) (zone_expected (TDT f JSpace tf ofm) o ig) 0 false [].
Proof.
  intros f tf ofm d o df cy loc n0 n1 yf ig Hf Htf Hofm Hd Hdf Hy Ho Hloc.
  unfold x_comma_dforms, x_tforms, x_oforms in *. cbn [In] in Hf, Htf, Hofm. unfold zone_expected.
  destruct Hf as [<- | [<- | []]]; destruct Htf as [<- | [<- | []]]; destruct Hofm as [<- | [<- | [<- | []]]].
  - exact (parse_render_x_DMonDY_THM_OHH_MM d o df cy loc n0 n1 yf ig Hd Hdf Hy Ho Hloc).
  - exact (parse_render_x_DMonDY_THM_OHH d o df cy loc n0 n1 yf ig Hd Hdf Hy Ho Hloc).
  - exact (parse_render_x_DMonDY_THM_OHHMM d o df cy loc n0 n1 yf ig Hd Hdf Hy Ho Hloc).
  - exact (parse_render_x_DMonDY_THMS_OHH_MM d o df cy loc n0 n1 yf ig Hd Hdf Hy Ho Hloc).
  - exact (parse_render_x_DMonDY_THMS_OHH d o df cy loc n0 n1 yf ig Hd Hdf Hy Ho Hloc).
  - exact (parse_render_x_DMonDY_THMS_OHHMM d o df cy loc n0 n1 yf ig Hd Hdf Hy Ho Hloc).
  - exact (parse_render_x_DMonthDY_THM_OHH_MM d o df cy loc n0 n1 yf ig Hd Hdf Hy Ho Hloc).
  - exact (parse_render_x_DMonthDY_THM_OHH d o df cy loc n0 n1 yf ig Hd Hdf Hy Ho Hloc).
  - exact (parse_render_x_DMonthDY_THM_OHHMM d o df cy loc n0 n1 yf ig Hd Hdf Hy Ho Hloc).
  - exact (parse_render_x_DMonthDY_THMS_OHH_MM d o df cy loc n0 n1 yf ig Hd Hdf Hy Ho Hloc).
  - exact (parse_render_x_DMonthDY_THMS_OHH d o df cy loc n0 n1 yf ig Hd Hdf Hy Ho Hloc).
  - exact (parse_render_x_DMonthDY_THMS_OHHMM d o df cy loc n0 n1 yf ig Hd Hdf Hy Ho Hloc).
Qed.
