(* C15: theorems about option handling on the parser model: default fill-in, weekday shift,
   ignoretz, fuzzy_with_tokens vs fuzzy, the D15 counter-example. *)
From Coq Require Import ZArith List Bool Lia ZifyBool.
From V Require Import base.Cal gen.ParseTables parse.Lex parse.Prim parse.Ymd parse.Parse parse.Build
                      parse.ParseSpec.
Import ListNotations.
Open Scope Z_scope.
Ltac Zify.zify_post_hook ::= Z.to_euclidean_division_equations.

(* ---- default fill-in ---- *)
Lemma dt_replace_fields d y mo dd h mi s us n :
  dt_replace d y mo dd h mi s us = Ok n ->
  n = mkDt (dflt y (d_y d)) (dflt mo (d_mo d)) (dflt dd (d_d d)) (dflt h (d_h d))
           (dflt mi (d_mi d)) (dflt s (d_s d)) (dflt us (d_us d)) /\ valid_dt n = true.
Proof.
  unfold dt_replace. destruct (negb _); [discriminate|].
  destruct (valid_dt _) eqn:E; [|discriminate]. intros H; inversion H; subst. auto.
Qed.

(* fields absent from the text come from the default; an absent day is the default day clipped
   to the length of the resulting month (no weekday in the text) *)
Lemma default_fill_lemma r d n :
  build_naive r d = Ok n -> r_weekday r = None ->
  d_y n = dflt (r_year r) (d_y d) /\ d_mo n = dflt (r_month r) (d_mo d) /\
  d_d n = match r_day r with
          | Some v => v
          | None => Z.min (d_d d) (dim (dflt (r_year r) (d_y d)) (dflt (r_month r) (d_mo d)))
          end /\
  d_h n = dflt (r_hour r) (d_h d) /\ d_mi n = dflt (r_minute r) (d_mi d) /\
  d_s n = dflt (r_second r) (d_s d) /\ d_us n = dflt (r_us r) (d_us d) /\ valid_dt n = true.
Proof.
  unfold build_naive. intros H Hw. rewrite Hw in H.
  destruct (r_day r) as [dv|]; cbn [bind] in H.
  - destruct (dt_replace _ _ _ _ _ _ _ _) eqn:Er; cbn [bind] in H; [|discriminate].
    inversion H; subst. apply dt_replace_fields in Er. destruct Er as [-> Hv].
    cbn. repeat split; auto.
  - unfold monthlen in H. destruct (_ && _) eqn:Em; cbn [bind] in H; [|destruct (str_limit_hit _); discriminate].
    destruct (dim _ _ <? d_d d) eqn:El; cbn [bind] in H;
      (destruct (dt_replace _ _ _ _ _ _ _ _) eqn:Er; cbn [bind] in H; [|discriminate]);
      inversion H; subst; apply dt_replace_fields in Er; destruct Er as [-> Hv];
      cbn; repeat split; auto; cbn in *; lia.
Qed.

(* ---- a bare weekday moves the date forward to that weekday ---- *)
Lemma add_weekday_forward d wd d' :
  add_weekday d wd = Ok d' -> 0 <= wd <= 6 -> valid_dt d = true ->
  let o := ord_of_ymd (d_y d) (d_mo d) (d_d d) in
  let o' := ord_of_ymd (d_y d') (d_mo d') (d_d d') in
  o <= o' < o + 7 /\ weekday_of_ord o' = wd /\
  d_h d' = d_h d /\ d_mi d' = d_mi d /\ d_s d' = d_s d /\ d_us d' = d_us d.
Proof.
  unfold add_weekday. intros H Hwd Hv.
  set (o := ord_of_ymd (d_y d) (d_mo d) (d_d d)) in *.
  set (j := (7 - weekday_of_ord o + wd) mod 7) in *.
  destruct (max_ord <? o + j) eqn:Emax; [discriminate|].
  destruct (ymd_of_ord (o + j)) as [[y m] dd] eqn:Ey.
  inversion H; subst d'; clear H. cbn [d_y d_mo d_d d_h d_mi d_s d_us].
  assert (Hrange : 1 <= o <= max_ord).
  { unfold valid_dt in Hv.
    destruct (valid_ymd (d_y d) (d_mo d) (d_d d)) eqn:Evy; [|cbn in Hv; discriminate].
    subst o. apply ord_of_ymd_range. assumption. }
  assert (Hj : 0 <= j < 7) by (subst j; apply Z.mod_pos_bound; lia).
  assert (Ho' : ord_of_ymd y m dd = o + j).
  { pose proof (ord_of_ymd_of_ord (o + j)) as Hinv. rewrite Ey in Hinv. apply Hinv. }
  rewrite Ho'. repeat split; try lia.
  subst j. unfold weekday_of_ord. lia.
Qed.

(* ---- ignoretz: same wall time, no zone ---- *)
Definition with_ignoretz (o : opts) (b : bool) : opts :=
  mkOpts (o_fuzzy o) (o_fwt o) (o_dayfirst o) (o_yearfirst o) (o_info_dayfirst o) (o_info_yearfirst o)
         b (o_tzinfos o) (o_default o) (o_cur_year o) (o_local o) (o_nm0 o) (o_nm1 o).

Lemma ignoretz_same_wall_lemma o s d z fold w toks :
  parse (with_ignoretz o false) s = OutOk d z fold w toks ->
  parse (with_ignoretz o true) s = OutOk d ZNaive 0 false toks.
Proof.
  unfold parse, with_ignoretz; cbn [o_fuzzy o_fwt o_yearfirst o_info_yearfirst o_dayfirst o_info_dayfirst
                                    o_cur_year o_default o_ignoretz].
  destruct (parse_res _ _ _ _ _ _) as [[[r tk]|]|e]; try discriminate.
  2:{ destruct e; discriminate. }
  destruct (res_len r =? 0); [discriminate|].
  destruct (build_naive r (o_default o)) as [nv|e]; [|destruct e; discriminate].
  destruct (build_tzaware _ r) as [[[z' f'] w']|e]; [|destruct e; discriminate].
  intros H; inversion H; subst. reflexivity.
Qed.

(* and a text rejected with the zone is rejected without it only via the zone construction *)
Lemma ignoretz_only_drops_zone_errors o s :
  parse (with_ignoretz o true) s = OutParserError ->
  parse (with_ignoretz o false) s = OutParserError.
Proof.
  unfold parse, with_ignoretz; cbn [o_fuzzy o_fwt o_yearfirst o_info_yearfirst o_dayfirst o_info_dayfirst
                                    o_cur_year o_default o_ignoretz].
  destruct (parse_res _ _ _ _ _ _) as [[[r tk]|]|e]; try discriminate; auto.
  destruct (res_len r =? 0); auto.
  destruct (build_naive r (o_default o)) as [nv|e]; [discriminate|auto].
Qed.

(* ---- fuzzy_with_tokens returns the datetime of fuzzy ---- *)
Definition with_fuzzy (o : opts) (fz fwt : bool) : opts :=
  mkOpts fz fwt (o_dayfirst o) (o_yearfirst o) (o_info_dayfirst o) (o_info_yearfirst o)
         (o_ignoretz o) (o_tzinfos o) (o_default o) (o_cur_year o) (o_local o) (o_nm0 o) (o_nm1 o).

Definition drop_tokens (x : outcome) : outcome :=
  match x with OutOk d z f w _ => OutOk d z f w [] | _ => x end.

Lemma parse_res_fwt fz yf df cy s :
  parse_res fz true yf df cy s =
  match parse_res true false yf df cy s with
  | Ok (Some (r, _)) =>
      match parse_res fz true yf df cy s with Ok (Some (_, t)) => Ok (Some (r, t)) | x => x end
  | x => match x with Ok (Some _) => x | Ok None => Ok None | Err e => Err e end
  end.
Proof.
  unfold parse_res. rewrite !orb_true_r. cbn [orb].
  destruct (bind _ _) as [st|e].
  - destruct (validate cy (p_r st)); cbn [bind]; reflexivity.
  - destruct e; reflexivity.
Qed.

Lemma fuzzy_tokens_same_dt_lemma o s fz :
  drop_tokens (parse (with_fuzzy o fz true) s) = drop_tokens (parse (with_fuzzy o true false) s).
Proof.
  unfold parse, with_fuzzy; cbn [o_fuzzy o_fwt o_yearfirst o_info_yearfirst o_dayfirst o_info_dayfirst
                                 o_cur_year o_default o_ignoretz].
  unfold parse_res. rewrite !orb_true_r. cbn [orb].
  destruct (bind _ _) as [st|e].
  - destruct (validate (o_cur_year o) (p_r st)) as [r|e]; cbn [bind].
    + destruct (res_len r =? 0); [reflexivity|].
      destruct (build_naive r (o_default o)) as [nv|e]; [|destruct e; reflexivity].
      destruct (o_ignoretz o); [reflexivity|].
      match goal with |- drop_tokens (match ?a with _ => _ end) = drop_tokens (match ?b with _ => _ end) =>
        change b with a; destruct a as [[[z f] w]|e] end; [reflexivity|destruct e; reflexivity].
    + destruct e; reflexivity.
  - destruct e; reflexivity.
Qed.

(* ---- D15: "accepted without fuzzy => same result with fuzzy" is false of the faithful model ---- *)
Definition opts0 : opts :=
  mkOpts false false None None false false false TINone (mkDt 2003 9 25 0 0 0 0) 2026 [] true false.

(* "10:00 am pm" *)
Definition d15_text : list Z := [49; 48; 58; 48; 48; 32; 97; 109; 32; 112; 109].

Lemma fuzzy_conservative_refuted_lemma :
  exists s d1 d2, parse opts0 s = OutOk d1 ZNaive 0 false [] /\
                  parse (with_fuzzy opts0 true false) s = OutOk d2 ZNaive 0 false [] /\
                  d_h d1 = 22 /\ d_h d2 = 10.
Proof.
  exists d15_text. eexists. eexists. split; [vm_compute; reflexivity|].
  split; [vm_compute; reflexivity|]. split; reflexivity.
Qed.
