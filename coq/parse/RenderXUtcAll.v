(* C02: family theorem for Z / " UTC" / " GMT" after month-name and comma date-times
   (collects RenderXUtcN_*.v / RenderXUtcC_*.v; rd builder). *)
From Coq Require Import ZArith List Bool.
From V Require Import base.Cal parse.Lex parse.Prim parse.Parse parse.Build parse.ParseSpec parse.RenderIso parse.RenderOffDefs parse.RenderXOffAll.
From V Require Import parse.RenderXUtcN_DDMonY_THM_OZ parse.RenderXUtcN_DDMonY_THM_OUTC parse.RenderXUtcN_DDMonY_THM_OGMT parse.RenderXUtcN_DDMonY_THMS_OZ parse.RenderXUtcN_DDMonY_THMS_OUTC parse.RenderXUtcN_DDMonY_THMS_OGMT parse.RenderXUtcN_DDMonthY_THM_OZ parse.RenderXUtcN_DDMonthY_THM_OUTC parse.RenderXUtcN_DDMonthY_THM_OGMT parse.RenderXUtcN_DDMonthY_THMS_OZ parse.RenderXUtcN_DDMonthY_THMS_OUTC parse.RenderXUtcN_DDMonthY_THMS_OGMT parse.RenderXUtcC_DMonDY_THM_OZ parse.RenderXUtcC_DMonDY_THM_OUTC parse.RenderXUtcC_DMonDY_THM_OGMT parse.RenderXUtcC_DMonDY_THMS_OZ parse.RenderXUtcC_DMonDY_THMS_OUTC parse.RenderXUtcC_DMonDY_THMS_OGMT parse.RenderXUtcC_DMonthDY_THM_OZ parse.RenderXUtcC_DMonthDY_THM_OUTC parse.RenderXUtcC_DMonthDY_THM_OGMT parse.RenderXUtcC_DMonthDY_THMS_OZ parse.RenderXUtcC_DMonthDY_THMS_OUTC parse.RenderXUtcC_DMonthDY_THMS_OGMT.
Import ListNotations.
Open Scope Z_scope.

Definition x_word_dforms : list dform := [DDMonY; DDMonthY; DMonDY; DMonthDY].
Definition x_utc_oforms : list oform := [OZ; OUTC; OGMT].

(* 24 templates: "25 Sep 2003 10:49:41Z", "September 25, 2003 10:49 UTC", ...; guard 100 <= year
   (F-C02-padyear); UTC / GMT not local zone names *)
Theorem parse_render_word_utc_lemma : forall f tf ofm d o df cy loc n0 n1 yf ig,
  In f x_word_dforms -> In tf x_tforms -> In ofm x_utc_oforms ->
  valid_dt d = true -> valid_dt df = true -> 100 <= d_y d ->
  smem [85; 84; 67] loc = false -> smem [71; 77; 84] loc = false ->
  parse (opts_df0 yf ig df cy loc n0 n1) (render (TDT f JSpace tf ofm) d o)
  = OutOk (expected_dt (TDT f JSpace tf ofm) d df) (if ig then ZNaive else ZUTC) 0 false [].
Proof.
  intros f tf ofm d o df cy loc n0 n1 yf ig Hf Htf Hofm Hd Hdf Hy Hl1 Hl2.
  unfold x_word_dforms, x_tforms, x_utc_oforms in *. cbn [In] in Hf, Htf, Hofm.
  destruct Hf as [<- | [<- | [<- | [<- | []]]]]; destruct Htf as [<- | [<- | []]]; destruct Hofm as [<- | [<- | [<- | []]]].
  - exact (parse_render_xu_DDMonY_THM_OZ d o df cy loc n0 n1 yf ig Hd Hdf Hy Hl1 Hl2).
  - exact (parse_render_xu_DDMonY_THM_OUTC d o df cy loc n0 n1 yf ig Hd Hdf Hy Hl1 Hl2).
  - exact (parse_render_xu_DDMonY_THM_OGMT d o df cy loc n0 n1 yf ig Hd Hdf Hy Hl1 Hl2).
  - exact (parse_render_xu_DDMonY_THMS_OZ d o df cy loc n0 n1 yf ig Hd Hdf Hy Hl1 Hl2).
  - exact (parse_render_xu_DDMonY_THMS_OUTC d o df cy loc n0 n1 yf ig Hd Hdf Hy Hl1 Hl2).
  - exact (parse_render_xu_DDMonY_THMS_OGMT d o df cy loc n0 n1 yf ig Hd Hdf Hy Hl1 Hl2).
  - exact (parse_render_xu_DDMonthY_THM_OZ d o df cy loc n0 n1 yf ig Hd Hdf Hy Hl1 Hl2).
  - exact (parse_render_xu_DDMonthY_THM_OUTC d o df cy loc n0 n1 yf ig Hd Hdf Hy Hl1 Hl2).
  - exact (parse_render_xu_DDMonthY_THM_OGMT d o df cy loc n0 n1 yf ig Hd Hdf Hy Hl1 Hl2).
  - exact (parse_render_xu_DDMonthY_THMS_OZ d o df cy loc n0 n1 yf ig Hd Hdf Hy Hl1 Hl2).
  - exact (parse_render_xu_DDMonthY_THMS_OUTC d o df cy loc n0 n1 yf ig Hd Hdf Hy Hl1 Hl2).
  - exact (parse_render_xu_DDMonthY_THMS_OGMT d o df cy loc n0 n1 yf ig Hd Hdf Hy Hl1 Hl2).
  - exact (parse_render_xu_DMonDY_THM_OZ d o df cy loc n0 n1 yf ig Hd Hdf Hy Hl1 Hl2).
  - exact (parse_render_xu_DMonDY_THM_OUTC d o df cy loc n0 n1 yf ig Hd Hdf Hy Hl1 Hl2).
  - exact (parse_render_xu_DMonDY_THM_OGMT d o df cy loc n0 n1 yf ig Hd Hdf Hy Hl1 Hl2).
  - exact (parse_render_xu_DMonDY_THMS_OZ d o df cy loc n0 n1 yf ig Hd Hdf Hy Hl1 Hl2).
  - exact (parse_render_xu_DMonDY_THMS_OUTC d o df cy loc n0 n1 yf ig Hd Hdf Hy Hl1 Hl2).
  - exact (parse_render_xu_DMonDY_THMS_OGMT d o df cy loc n0 n1 yf ig Hd Hdf Hy Hl1 Hl2).
  - exact (parse_render_xu_DMonthDY_THM_OZ d o df cy loc n0 n1 yf ig Hd Hdf Hy Hl1 Hl2).
  - exact (parse_render_xu_DMonthDY_THM_OUTC d o df cy loc n0 n1 yf ig Hd Hdf Hy Hl1 Hl2).
  - exact (parse_render_xu_DMonthDY_THM_OGMT d o df cy loc n0 n1 yf ig Hd Hdf Hy Hl1 Hl2).
  - exact (parse_render_xu_DMonthDY_THMS_OZ d o df cy loc n0 n1 yf ig Hd Hdf Hy Hl1 Hl2).
  - exact (parse_render_xu_DMonthDY_THMS_OUTC d o df cy loc n0 n1 yf ig Hd Hdf Hy Hl1 Hl2).
  - exact (parse_render_xu_DMonthDY_THMS_OGMT d o df cy loc n0 n1 yf ig Hd Hdf Hy Hl1 Hl2).
Qed.
