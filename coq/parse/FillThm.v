(* C15: _build_naive of the model refines the default-fill specification spec_fill. *)
From Coq Require Import ZArith List Bool Lia ZifyBool.
From V Require Import base.Cal gen.ParseTables parse.Lex parse.Prim parse.Ymd parse.Parse parse.Build
                      parse.ParseSpec parse.OptThm.
Import ListNotations.
Open Scope Z_scope.
Ltac Zify.zify_post_hook ::= Z.to_euclidean_division_equations.

(* the search finds the first ordinal from o on with the wanted weekday, if one exists within n days *)
Lemma next_weekday_from_spec n : forall o w,
  (exists j, 0 <= j < Z.of_nat n /\ weekday_of_ord (o + j) = w) ->
  let res := next_weekday_from n o w in
  o <= res < o + Z.of_nat n /\ weekday_of_ord res = w /\
  (forall k, o <= k < res -> weekday_of_ord k <> w).
Proof.
  induction n as [|n IH]; intros o w (j & Hj & Hw); [lia|].
  cbn [next_weekday_from]. destruct (weekday_of_ord o =? w) eqn:E.
  - apply Z.eqb_eq in E. repeat split; try lia; try exact E.
  - apply Z.eqb_neq in E.
    assert (Hj0 : j <> 0) by (intros ->; rewrite Z.add_0_r in Hw; contradiction).
    destruct (IH (o + 1) w) as (H1 & H2 & H3).
    { exists (j - 1). split; [lia|]. replace (o + 1 + (j - 1)) with (o + j) by lia. exact Hw. }
    cbv zeta in *. repeat split; try lia; try exact H2.
    intros k Hk. destruct (Z.eq_dec k o) as [-> | Hne]; [exact E|]. apply H3. lia.
Qed.

Lemma weekday_unique o a b w :
  o <= a < o + 7 -> o <= b < o + 7 -> weekday_of_ord a = w -> weekday_of_ord b = w -> a = b.
Proof. unfold weekday_of_ord. lia. Qed.

Lemma next_weekday_formula o w : 0 <= w <= 6 ->
  next_weekday_from 7 o w = o + (7 - weekday_of_ord o + w) mod 7.
Proof.
  intros Hw. set (j := (7 - weekday_of_ord o + w) mod 7).
  assert (Hj : 0 <= j < 7) by (subst j; apply Z.mod_pos_bound; lia).
  assert (Hwj : weekday_of_ord (o + j) = w) by (subst j; unfold weekday_of_ord; lia).
  destruct (next_weekday_from_spec 7 o w) as (H1 & H2 & _).
  { exists j. split; [exact Hj|exact Hwj]. }
  cbv zeta in *. change (Z.of_nat 7) with 7 in H1.
  apply (weekday_unique o _ _ w); try lia; assumption.
Qed.

Definition fields_of (r : pres) (d : dt7) : fill_result :=
  spec_fill (r_year r) (r_month r) (r_day r) (r_hour r) (r_minute r) (r_second r) (r_us r) (r_weekday r) d.

Definition wd_ok (o : option Z) : Prop := match o with Some w => 0 <= w <= 6 | None => True end.

(* whenever the implementation's construction succeeds it returns what the specification says,
   and whenever the specification defines a value the construction returns it *)
Theorem build_naive_refines_spec_fill r d x :
  wd_ok (r_weekday r) ->
  (build_naive r d = Ok x <-> fields_of r d = FillOk x).
Proof.
  intros Hwd. unfold fields_of, spec_fill, build_naive.
  set (Y := dflt (r_year r) (d_y d)). set (M := dflt (r_month r) (d_mo d)).
  destruct (r_day r) as [dv|] eqn:Ed; cbn [bind].
  - (* day given *)
    unfold dt_replace. fold Y M. change (dflt (Some dv) (d_d d)) with dv.
    set (n := mkDt Y M dv (dflt (r_hour r) (d_h d)) (dflt (r_minute r) (d_mi d))
                   (dflt (r_second r) (d_s d)) (dflt (r_us r) (d_us d))).
    destruct (valid_dt n) eqn:Ev; cbn [negb].
    + assert (Hok : opt_ok (r_year r) && opt_ok (r_month r) && opt_ok (Some dv) && opt_ok (r_hour r)
                    && opt_ok (r_minute r) && opt_ok (r_second r) && opt_ok (r_us r) = true).
      { unfold valid_dt, valid_ymd in Ev. subst n Y M. cbn [d_y d_mo d_d d_h d_mi d_s d_us] in Ev.
        pose proof (dim_pos (dflt (r_year r) (d_y d)) (dflt (r_month r) (d_mo d))).
        unfold opt_ok, c_int_ok.
        destruct (r_year r), (r_month r), (r_hour r), (r_minute r), (r_second r), (r_us r); cbn [dflt] in *; lia. }
      rewrite Hok. cbn [negb bind].
      destruct (r_weekday r) as [w|]; cbv beta iota; [|split; intros H; injection H as <-; reflexivity].
      destruct dv; cbv beta iota; try (split; intros H; injection H as <-; reflexivity).
      (* day = 0 is not a valid day *)
      exfalso. unfold valid_dt, valid_ymd in Ev. subst n. cbn [d_d dflt] in Ev. lia.
    + destruct (negb _); cbn [bind]; split; discriminate.
  - (* day absent: clipped default day *)
    unfold monthlen. destruct ((1 <=? M) && (M <=? 12)) eqn:Em; cbn [bind].
    + set (D := Z.min (d_d d) (dim Y M)).
      assert (Hday : dflt (if dim Y M <? d_d d then Some (dim Y M) else None) (d_d d) = D).
      { subst D. destruct (dim Y M <? d_d d) eqn:El; cbn [dflt]; lia. }
      replace (do day <- (if dim Y M <? d_d d then Ok (Some (dim Y M)) else Ok None);
               do naive <- dt_replace d (r_year r) (r_month r) day (r_hour r) (r_minute r) (r_second r) (r_us r);
               match r_weekday r with Some wd => add_weekday naive wd | None => Ok naive end)
        with (do naive <- dt_replace d (r_year r) (r_month r)
                            (if dim Y M <? d_d d then Some (dim Y M) else None)
                            (r_hour r) (r_minute r) (r_second r) (r_us r);
              match r_weekday r with Some wd => add_weekday naive wd | None => Ok naive end)
        by (destruct (dim Y M <? d_d d); reflexivity).
      unfold dt_replace. fold Y M. rewrite Hday.
      set (n := mkDt Y M D (dflt (r_hour r) (d_h d)) (dflt (r_minute r) (d_mi d))
                     (dflt (r_second r) (d_s d)) (dflt (r_us r) (d_us d))).
      destruct (valid_dt n) eqn:Ev; cbn [negb].
      * assert (Hok : opt_ok (r_year r) && opt_ok (r_month r)
                      && opt_ok (if dim Y M <? d_d d then Some (dim Y M) else None) && opt_ok (r_hour r)
                      && opt_ok (r_minute r) && opt_ok (r_second r) && opt_ok (r_us r) = true).
        { unfold valid_dt, valid_ymd in Ev. subst n Y M D. cbn [d_y d_mo d_d d_h d_mi d_s d_us] in Ev.
          pose proof (dim_pos (dflt (r_year r) (d_y d)) (dflt (r_month r) (d_mo d))).
          unfold opt_ok, c_int_ok.
          destruct (dim _ _ <? d_d d);
          destruct (r_year r), (r_month r), (r_hour r), (r_minute r), (r_second r), (r_us r); cbn [dflt] in *; lia. }
        rewrite Hok. cbn [negb bind].
        destruct (r_weekday r) as [w|]; cbv beta iota; [|split; intros H; injection H as <-; reflexivity].
        cbn [wd_ok] in Hwd. unfold add_weekday. subst n. cbn [d_y d_mo d_d d_h d_mi d_s d_us].
        rewrite (next_weekday_formula _ w Hwd).
        destruct (max_ord <? _); [split; discriminate|].
        destruct (ymd_of_ord _) as [[y' m'] d']. split; intros H; injection H as <-; reflexivity.
      * destruct (negb _); cbn [bind]; split; discriminate.
    + (* invalid month: both fail *)
      assert (Hv : valid_dt (mkDt Y M (Z.min (d_d d) (dim Y M)) (dflt (r_hour r) (d_h d)) (dflt (r_minute r) (d_mi d))
                                  (dflt (r_second r) (d_s d)) (dflt (r_us r) (d_us d))) = false).
      { unfold valid_dt, valid_ymd. cbn [d_y d_mo d_d]. lia. }
      rewrite Hv. cbn [negb]. destruct (str_limit_hit M); split; discriminate.
Qed.
