(* Kind analysis of the construction phase (C14): which exception classes _build_naive and
   _build_tzaware can raise. *)
From Coq Require Import ZArith List Bool Lia.
From V Require Import base.Cal gen.ParseTables parse.Lex parse.Prim parse.Ymd parse.Parse parse.Build.
Import ListNotations.
Open Scope Z_scope.

Lemma monthlen_kind y m e : monthlen y m = Err e -> e = ValueError \/ e = ValueErrorNoStr.
Proof. unfold monthlen. destruct (_ && _); [discriminate|]. destruct (str_limit_hit m); intros H; injection H as <-; auto. Qed.

Lemma dt_replace_kind d y mo dd h mi s us e :
  dt_replace d y mo dd h mi s us = Err e -> e = ValueError \/ e = OverflowError.
Proof.
  unfold dt_replace. destruct (negb _); [intros H; inversion H; auto|].
  destruct (valid_dt _); [discriminate|]. intros H; inversion H; auto.
Qed.

Lemma add_weekday_kind d wd e : add_weekday d wd = Err e -> e = OverflowError.
Proof.
  unfold add_weekday. destruct (max_ord <? _); [congruence|].
  destruct (ymd_of_ord _) as [[? ?] ?]. discriminate.
Qed.

(* _build_naive raises only ValueError (re-raised as ParserError by parse()), OverflowError, or the
   IllegalMonthError whose message cannot be formatted (open finding F-C14-bigmonth) *)
Lemma build_naive_kind r d e :
  build_naive r d = Err e -> e = ValueError \/ e = OverflowError \/ e = ValueErrorNoStr.
Proof.
  unfold build_naive. intros H.
  destruct (r_day r) as [dv|] eqn:Ed; cbn [bind] in H.
  - destruct (dt_replace _ _ _ _ _ _ _ _) eqn:Er; cbn [bind] in H.
    + destruct (r_weekday r); [|discriminate].
      destruct dv; try discriminate. right. left. eapply add_weekday_kind; eauto.
    + inversion H; subst. destruct (dt_replace_kind _ _ _ _ _ _ _ _ _ Er); auto.
  - destruct (monthlen _ _) eqn:Em; cbn [bind] in H.
    + destruct (a <? d_d d); cbn [bind] in H;
      (destruct (dt_replace _ _ _ _ _ _ _ _) eqn:Er; cbn [bind] in H;
       [ destruct (r_weekday r); [|discriminate]; right; left; eapply add_weekday_kind; eauto
       | inversion H; subst; destruct (dt_replace_kind _ _ _ _ _ _ _ _ _ Er); auto ]).
    + inversion H; subst. destruct (monthlen_kind _ _ _ Em); auto.
Qed.

Lemma dict_get_wf k d v : forallb (fun p => wf_tzval (snd p)) d = true -> dict_get k d = Some v -> wf_tzval v = true.
Proof.
  induction d as [|[k' v'] d IH]; cbn; [discriminate|].
  intros H. apply andb_prop in H. destruct H as [H1 H2].
  destruct (str_eqb k' k); [intros E; inversion E; subst; auto | auto].
Qed.

Lemma call_get_wf k t df : forallb (fun p => wf_tzval (snd p)) t = true -> wf_tzval df = true ->
  wf_tzval (call_get k t df) = true.
Proof.
  induction t as [|[k' v'] t IH]; cbn; auto.
  intros H Hd. apply andb_prop in H. destruct H as [H1 H2].
  destruct (oname_eqb k' k); auto.
Qed.

Lemma build_tzinfo_kind o n off data e :
  wf_tzval data = true -> build_tzinfo o n off data = Err e -> e = OverflowError.
Proof.
  destruct data; cbn; try discriminate.
  intros _. destruct (tzoffset_ok secs); congruence.
Qed.

(* with well-formed options _build_tzaware raises at most OverflowError (timedelta range);
   in particular the implicit final `else` (UnboundLocalError) is unreachable *)
Lemma build_tzaware_kind o r e :
  wf_tzinfos (o_tzinfos o) = true -> build_tzaware o r = Err e -> e = OverflowError.
Proof.
  intros Hwf. unfold build_tzaware.
  set (via := match o_tzinfos o with TINone => None | _ => _ end).
  assert (Hvia : forall data, via = Some data -> wf_tzval data = true).
  { subst via. intros data. destruct (o_tzinfos o) eqn:Et; cbn in Hwf.
    - discriminate.
    - destruct (r_tzname r); [|discriminate]. apply dict_get_wf; auto.
    - apply andb_prop in Hwf. destruct Hwf. intros E; inversion E; subst. apply call_get_wf; auto.
    - intros E; inversion E; subst. destruct (r_tzoffset r); reflexivity. }
  destruct via as [data|].
  - specialize (Hvia data eq_refl).
    destruct (build_tzinfo o (r_tzname r) (r_tzoffset r) data) eqn:Eb; cbn [bind]; [discriminate|].
    intros H; inversion H; subst. eapply build_tzinfo_kind; eauto.
  - destruct (name_truthy (r_tzname r) && _).
    + destruct (negb (o_nm0 o) && negb (o_nm1 o) && _); discriminate.
    + destruct (r_tzoffset r) as [v|].
      * destruct v; try discriminate; destruct (tzoffset_ok _); congruence.
      * destruct (name_truthy (r_tzname r)); cbn; discriminate.
Qed.
