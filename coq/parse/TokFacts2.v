(* More token facts: slices of digit fields and of concatenated digit fields (compact forms). *)
From Coq Require Import ZArith List Bool Lia ZifyBool.
From V Require Import base.Cal gen.ParseTables parse.Lex parse.Prim parse.Ymd parse.Parse parse.Build
                      parse.ParseSpec parse.LexSeg parse.TokFacts.
Import ListNotations.
Open Scope Z_scope.

Lemma firstn_digits_all k n : firstn k (digits_n k n) = digits_n k n.
Proof. rewrite <- (digits_n_length k n) at 1. apply firstn_all. Qed.

Lemma firstn_digits_app k n r : firstn k (digits_n k n ++ r) = digits_n k n.
Proof.
  rewrite firstn_app, digits_n_length, Nat.sub_diag. cbn [firstn]. rewrite app_nil_r. apply firstn_digits_all.
Qed.

Lemma skipn_digits_app k n r : skipn k (digits_n k n ++ r) = r.
Proof.
  rewrite skipn_app, digits_n_length, Nat.sub_diag. cbn [skipn].
  rewrite <- (digits_n_length k n) at 1. rewrite skipn_all. reflexivity.
Qed.

(* two adjacent digit fields are one digit field *)
Lemma digits_n_app a : forall b x y, 0 <= y < 10 ^ Z.of_nat b ->
  digits_n a x ++ digits_n b y = digits_n (a + b) (x * 10 ^ Z.of_nat b + y).
Proof.
  intros b. revert a. induction b as [|b IH]; intros a x y Hy.
  - change (10 ^ Z.of_nat 0) with 1 in *. assert (y = 0) by lia. subst. cbn [digits_n].
    rewrite app_nil_r, Nat.add_0_r. f_equal. lia.
  - rewrite Nat2Z.inj_succ, Z.pow_succ_r in Hy by lia.
    cbn [digits_n]. rewrite app_assoc.
    rewrite (IH a x (y / 10)) by (split; [apply Z.div_pos; lia | apply Z.div_lt_upper_bound; lia]).
    replace (a + S b)%nat with (S (a + b)) by lia. cbn [digits_n].
    rewrite Nat2Z.inj_succ, Z.pow_succ_r by lia.
    assert (E1 : (x * (10 * 10 ^ Z.of_nat b) + y) / 10 = x * 10 ^ Z.of_nat b + y / 10).
    { replace (x * (10 * 10 ^ Z.of_nat b) + y) with (y + (x * 10 ^ Z.of_nat b) * 10) by ring.
      rewrite Z.div_add by lia. lia. }
    assert (E2 : (x * (10 * 10 ^ Z.of_nat b) + y) mod 10 = y mod 10).
    { replace (x * (10 * 10 ^ Z.of_nat b) + y) with (y + (x * 10 ^ Z.of_nat b) * 10) by ring.
      apply Z.mod_add. lia. }
    rewrite E1, E2. reflexivity.
Qed.

Lemma skipn_len_cat {A} (pre r : list A) n : length pre = n -> skipn n (pre ++ r) = r.
Proof. intros <-. rewrite skipn_app, Nat.sub_diag, skipn_all. reflexivity. Qed.

Lemma firstn_len_cat {A} (pre r : list A) n : length pre = n -> firstn n (pre ++ r) = pre.
Proof. intros <-. rewrite firstn_app, Nat.sub_diag, firstn_all. cbn [firstn]. apply app_nil_r. Qed.

Ltac len_tac := rewrite ?app_length, ?digits_n_length; reflexivity.

(* YYYYMMDD[hhmm[ss]] as one token:  D4 y ++ D2 m ++ D2 d ++ (D2 h ++ D2 mi ++ (D2 s ++ ...)) *)
Lemma sl_0_4 y r : firstn 4 (digits_n 4 y ++ r) = digits_n 4 y.
Proof. apply firstn_len_cat. len_tac. Qed.
Lemma sl_4_6 y m r : slice 4 6 (digits_n 4 y ++ digits_n 2 m ++ r) = digits_n 2 m.
Proof. unfold slice. cbn [Nat.sub]. rewrite (skipn_len_cat (digits_n 4 y)) by len_tac. apply firstn_len_cat. len_tac. Qed.
Lemma sl_6_8 y m d r : slice 6 8 (digits_n 4 y ++ digits_n 2 m ++ digits_n 2 d ++ r) = digits_n 2 d.
Proof.
  unfold slice. cbn [Nat.sub]. rewrite (app_assoc (digits_n 4 y)).
  rewrite (skipn_len_cat (digits_n 4 y ++ digits_n 2 m)) by len_tac. apply firstn_len_cat. len_tac.
Qed.
Lemma sl_8_10 y m d h r :
  slice 8 10 (digits_n 4 y ++ digits_n 2 m ++ digits_n 2 d ++ digits_n 2 h ++ r) = digits_n 2 h.
Proof.
  unfold slice. cbn [Nat.sub]. rewrite (app_assoc (digits_n 2 m)), (app_assoc (digits_n 4 y)).
  rewrite (skipn_len_cat (digits_n 4 y ++ digits_n 2 m ++ digits_n 2 d)) by len_tac. apply firstn_len_cat. len_tac.
Qed.
Lemma sl_10_12 y m d h mi r :
  slice 10 12 (digits_n 4 y ++ digits_n 2 m ++ digits_n 2 d ++ digits_n 2 h ++ digits_n 2 mi ++ r) = digits_n 2 mi.
Proof.
  unfold slice. cbn [Nat.sub].
  rewrite (app_assoc (digits_n 2 d)), (app_assoc (digits_n 2 m)), (app_assoc (digits_n 4 y)).
  rewrite (skipn_len_cat (digits_n 4 y ++ digits_n 2 m ++ digits_n 2 d ++ digits_n 2 h)) by len_tac.
  apply firstn_len_cat. len_tac.
Qed.
Lemma sk_12 y m d h mi r :
  skipn 12 (digits_n 4 y ++ digits_n 2 m ++ digits_n 2 d ++ digits_n 2 h ++ digits_n 2 mi ++ r) = r.
Proof.
  rewrite (app_assoc (digits_n 2 h)), (app_assoc (digits_n 2 d)), (app_assoc (digits_n 2 m)), (app_assoc (digits_n 4 y)).
  apply skipn_len_cat. len_tac.
Qed.
(* HHMM[SS] as one token *)
Lemma sl_0_2 h r : firstn 2 (digits_n 2 h ++ r) = digits_n 2 h.
Proof. apply firstn_len_cat. len_tac. Qed.
Lemma sk_2 h r : skipn 2 (digits_n 2 h ++ r) = r.
Proof. apply skipn_len_cat. len_tac. Qed.
Lemma sl_2_4 h mi r : slice 2 4 (digits_n 2 h ++ digits_n 2 mi ++ r) = digits_n 2 mi.
Proof. unfold slice. cbn [Nat.sub]. rewrite sk_2. apply firstn_len_cat. len_tac. Qed.
Lemma sk_4 h mi r : skipn 4 (digits_n 2 h ++ digits_n 2 mi ++ r) = r.
Proof. rewrite (app_assoc (digits_n 2 h)). apply skipn_len_cat. len_tac. Qed.

(* whole-token facts for a concatenation that is, as a whole, one digit field *)
Section Cat.
  Variables (t : str) (k : nat) (v : Z).
  Hypothesis E : t = digits_n (S k) v.
  Hypothesis Hv : 0 <= v < 10 ^ Z.of_nat (S k).
  Lemma cat_is_float : is_float t = true. Proof. rewrite E. apply tok_is_float. exact Hv. Qed.
  Lemma cat_to_decimal : to_decimal t = Ok (v, []). Proof. rewrite E. apply tok_to_decimal. exact Hv. Qed.
  Lemma cat_slen : slen t = Z.of_nat (S k). Proof. rewrite E. apply tok_slen. Qed.
  Lemma cat_has_dot : has_dot t = false. Proof. rewrite E. apply tok_has_dot. Qed.
  Lemma cat_find_dot : find_dot t 0 = -1. Proof. rewrite E. apply tok_find_dot. Qed.
End Cat.
