(* C02: definitions and tactics shared by the month-name template proofs. *)
From Coq Require Import ZArith List Bool Lia ZifyBool.
From V Require Import base.Cal gen.ParseTables parse.Lex parse.Prim parse.Ymd parse.Parse parse.Build
                      parse.ParseSpec parse.LexSeg parse.TokFacts parse.YearThm parse.RenderTac parse.RenderIso parse.WordFacts.
Import ListNotations.
Open Scope Z_scope.
Ltac Zify.zify_post_hook ::= Z.to_euclidean_division_equations.

Local Arguments digits_n : simpl never.
Local Arguments is_float : simpl never.
Local Arguments to_decimal : simpl never.
Local Arguments py_int : simpl never.
Local Arguments py_isdigit : simpl never.
Local Arguments slen : simpl never.
Local Arguments has_dot : simpl never.
Local Arguments find_dot : simpl never.
Local Arguments info_jump : simpl never.
Local Arguments info_weekday : simpl never.
Local Arguments info_month : simpl never.
Local Arguments info_hms : simpl never.
Local Arguments info_ampm : simpl never.
Local Arguments info_pertain : simpl never.
Local Arguments info_utczone : simpl never.
Local Arguments info_tzoffset : simpl never.
Local Arguments is1 : simpl never.
Local Arguments str_eqb : simpl never.
Local Arguments could_be_tzname : simpl never.
Local Arguments parsems : simpl never.
Local Arguments all_digit : simpl never.
Local Arguments convertyear : simpl never.
Local Arguments dt_replace : simpl never.
Local Arguments valid_dt : simpl never.
Local Arguments monthlen : simpl never.
Local Arguments Z.eqb !x !y.
Local Arguments Z.ltb !x !y.
Local Arguments Z.leb !x !y.
Local Arguments Z.add !x !y.
Local Arguments Z.mul !x !y.
Local Arguments Z.sub !m !n.
Local Arguments Z.opp !x.

Local Arguments mon3 : simpl never.
Local Arguments month_name : simpl never.
Local Arguments wd3 : simpl never.

Definition mdate_segs (f : dform) (d : dt7) : list seg :=
  let y4 := SDig (digits_n 4 (d_y d)) in
  let d2 := SDig (digits_n 2 (d_d d)) in
  match f with
  | DDMonY => [d2; SSep 32; SWord (mon3 (d_mo d)); SSep 32; y4]
  | DDMonthY => [d2; SSep 32; SWord (month_name (d_mo d)); SSep 32; y4]
  | _ => []
  end.

Definition msegs_of (t : template) (d : dt7) : list seg :=
  match t with
  | TDT df j tf ONone => mdate_segs df d ++ join_segs j ++ time_segs tf d
  | _ => []
  end.

Ltac mrender_tac :=
  unfold render, render_date, render_time, render_off, join_txt, msegs_of, mdate_segs, join_segs, time_segs;
  cbn [map concat seg_str app]; repeat (progress (repeat rewrite <- app_assoc; cbn [app])); rewrite ?app_nil_r; reflexivity.

Ltac mwf_tac Hm :=
  unfold msegs_of, mdate_segs, join_segs, time_segs; cbn [app wf_segs hd_error ok_next];
  rewrite ?(mon3_wf _ Hm), ?(month_wf _ Hm); cbn [wf_seg];
  rewrite ?digits_n_all_digit, ?digits_n_length, ?nonempty_digits; vm_compute; reflexivity.

Ltac wordrw Hm :=
  rewrite ?(mon3_float _ Hm), ?(mon3_weekday _ Hm), ?(mon3_month _ Hm),
          ?(month_float _ Hm), ?(month_weekday _ Hm), ?(month_month _ Hm),
          ?(mon3_hms _ Hm), ?(mon3_ampm _ Hm), ?(mon3_jump _ Hm),
          ?(month_hms _ Hm), ?(month_ampm _ Hm), ?(month_jump _ Hm),
          ?tok_info_pertain, ?tok_info_utczone.

Ltac msym Hm := repeat (progress (unfold dec_gt, dec_ge, dec_lt, dec_le, frac_nonzero; cbn [fst snd existsb]; sym1; wordrw Hm; rewrite ?convertyear_ge100 by lia)).

