(* Lexer of the generic parser: dateutil.parser._parser._timelex (get_token state machine).
   Strings are lists of code points (Z).  Character classes: closed formulas for ASCII
   (checked against the running Python by harness/gen_parse_tables.py on every run) and the
   dumped finite table gen/ParseTables.tbl_chars for non-ASCII; every other code point is
   outside the modelled alphabet (treated as "other").  No proofs here. *)
From Coq Require Import ZArith List Bool.
From V Require Import gen.ParseTables.
Import ListNotations.
Open Scope Z_scope.

Definition str := list Z.

Fixpoint str_eqb (a b : str) : bool :=
  match a, b with
  | [], [] => true
  | x :: a', y :: b' => (x =? y) && str_eqb a' b'
  | _, _ => false
  end.

Fixpoint zassoc {A : Type} (c : Z) (t : list (Z * A)) : option A :=
  match t with
  | [] => None
  | (k, v) :: t' => if k =? c then Some v else zassoc c t'
  end.

(* ---- character classes (str.isalpha / isdigit / isspace / decimal value / lower) ---- *)
Definition in_table (c : Z) : bool :=
  match zassoc c tbl_chars with Some _ => true | None => false end.

(* the modelled alphabet *)
Definition in_sigma (c : Z) : bool := ((0 <=? c) && (c <? 128)) || in_table c.

Definition is_alpha (c : Z) : bool :=
  if c <? 128 then ((65 <=? c) && (c <=? 90)) || ((97 <=? c) && (c <=? 122))
  else match zassoc c tbl_chars with Some ((a, _, _), _) => a | None => false end.

Definition is_digit (c : Z) : bool :=
  if c <? 128 then (48 <=? c) && (c <=? 57)
  else match zassoc c tbl_chars with Some ((_, d, _), _) => d | None => false end.

Definition is_space (c : Z) : bool :=
  if c <? 128 then ((9 <=? c) && (c <=? 13)) || ((28 <=? c) && (c <=? 32))
  else match zassoc c tbl_chars with Some ((_, _, s), _) => s | None => false end.

(* decimal digit value (str.isdecimal), -1 when none *)
Definition dec_val (c : Z) : Z :=
  if c <? 128 then (if (48 <=? c) && (c <=? 57) then c - 48 else -1)
  else match zassoc c tbl_chars with Some (_, (d, _)) => d | None => -1 end.

Definition lower_c (c : Z) : list Z :=
  if c <? 128 then (if (65 <=? c) && (c <=? 90) then [c + 32] else [c])
  else match zassoc c tbl_chars with Some (_, (_, l)) => l | None => [c] end.

Definition lower (t : str) : str := flat_map lower_c t.

(* ---- the token state machine ---- *)
Inductive lstate := SA | S0 | SAd | S0d.   (* 'a'  '0'  'a.'  '0.' *)

Definition is_sep (c : Z) : bool := (c =? 46) || (c =? 44).   (* '.' ',' *)

Definition count_dot (t : str) : nat := length (filter (fun c => c =? 46) t).

(* re.compile("([.,])").split(token): first piece (kept even when empty) and the remaining
   pieces and separators with the empty pieces dropped. [cur] is the reversed current piece. *)
Fixpoint split_rest (cur : str) (t : str) : list str :=
  match t with
  | [] => match cur with [] => [] | _ => [rev cur] end
  | c :: t' =>
      if is_sep c then
        match cur with [] => [c] :: split_rest [] t' | _ => rev cur :: [c] :: split_rest [] t' end
      else split_rest (c :: cur) t'
  end.

Fixpoint split_first (cur : str) (t : str) : str * list str :=
  match t with
  | [] => (rev cur, [])
  | c :: t' => if is_sep c then (rev cur, [c] :: split_rest [] t') else split_first (c :: cur) t'
  end.

Definition last_is_sep (t : str) : bool :=
  match rev t with c :: _ => is_sep c | [] => false end.

Definition comma_to_dot (t : str) : str := map (fun c => if c =? 44 then 46 else c) t.

(* what get_token returns (head) and pushes on tokenstack (tail) once the token is complete *)
Definition finish (st : lstate) (seen : bool) (tok : str) : list str :=
  let dotted := match st with SAd | S0d => true | _ => false end in
  let '(tok1, extra) :=
    if dotted && (seen || (1 <? Z.of_nat (count_dot tok)) || last_is_sep tok)
    then split_first [] tok else (tok, []) in
  let tok2 := match st with
              | S0d => if (count_dot tok1 =? 0)%nat then comma_to_dot tok1 else tok1
              | _ => tok1 end in
  tok2 :: extra.

Definition last_is_dot (rtok : str) : bool :=
  match rtok with c :: _ => c =? 46 | [] => false end.

(* [st = None]: no token in progress.  [rtok] is the token read so far, reversed.
   NUL code points are skipped when read from the stream; a character that ends a token is
   handled again as the first character of the next one (charstack). *)
Fixpoint lex_go (st : option lstate) (seen : bool) (rtok : str) (s : list Z) : list str :=
  match s with
  | [] => match st with None => [] | Some st' => finish st' seen (rev rtok) end
  | c :: s' =>
      if c =? 0 then lex_go st seen rtok s' else
      let start := fun (_ : unit) =>
        if is_alpha c then lex_go (Some SA) false [c] s'
        else if is_digit c then lex_go (Some S0) false [c] s'
        else if is_space c then [32] :: lex_go None false [] s'
        else [c] :: lex_go None false [] s' in
      match st with
      | None => start tt
      | Some SA =>
          if is_alpha c then lex_go (Some SA) true (c :: rtok) s'
          else if c =? 46 then lex_go (Some SAd) true (c :: rtok) s'
          else finish SA true (rev rtok) ++ start tt
      | Some S0 =>
          if is_digit c then lex_go (Some S0) seen (c :: rtok) s'
          else if (c =? 46) || ((c =? 44) && (2 <=? Z.of_nat (length rtok)))
               then lex_go (Some S0d) seen (c :: rtok) s'
          else finish S0 seen (rev rtok) ++ start tt
      | Some SAd =>
          if (c =? 46) || is_alpha c then lex_go (Some SAd) true (c :: rtok) s'
          else if is_digit c && last_is_dot rtok then lex_go (Some S0d) true (c :: rtok) s'
          else finish SAd true (rev rtok) ++ start tt
      | Some S0d =>
          if (c =? 46) || is_digit c then lex_go (Some S0d) seen (c :: rtok) s'
          else if is_alpha c && last_is_dot rtok then lex_go (Some SAd) seen (c :: rtok) s'
          else finish S0d seen (rev rtok) ++ start tt
      end
  end.

Definition timelex (s : list Z) : list str := lex_go None false [] s.
