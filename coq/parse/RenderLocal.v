(* C02: UTC designators (Z, UTC, GMT) after further numeric date-time forms. *)
From Coq Require Import ZArith List Bool Lia ZifyBool.
From V Require Import base.Cal gen.ParseTables parse.Lex parse.Prim parse.Ymd parse.Parse parse.Build
                      parse.ParseSpec parse.LexSeg parse.TokFacts parse.YearThm parse.RenderTac parse.RenderTac3 parse.RenderTac4 parse.ZoneThm parse.Local parse.RenderIso parse.RenderUtcDefs.
Import ListNotations.
Open Scope Z_scope.
Ltac Zify.zify_post_hook ::= Z.to_euclidean_division_equations.

Local Arguments digits_n : simpl never.
Local Arguments is_float : simpl never.
Local Arguments to_decimal : simpl never.
Local Arguments py_int : simpl never.
Local Arguments py_isdigit : simpl never.
Local Arguments slen : simpl never.
Local Arguments has_dot : simpl never.
Local Arguments find_dot : simpl never.
Local Arguments info_jump : simpl never.
Local Arguments info_weekday : simpl never.
Local Arguments info_month : simpl never.
Local Arguments info_hms : simpl never.
Local Arguments info_ampm : simpl never.
Local Arguments info_pertain : simpl never.
Local Arguments info_utczone : simpl never.
Local Arguments info_tzoffset : simpl never.
Local Arguments is1 : simpl never.
Local Arguments str_eqb : simpl never.
Local Arguments could_be_tzname : simpl never.
Local Arguments parsems : simpl never.
Local Arguments all_digit : simpl never.
Local Arguments convertyear : simpl never.
Local Arguments dt_replace : simpl never.
Local Arguments valid_dt : simpl never.
Local Arguments monthlen : simpl never.
Local Arguments Z.eqb !x !y.
Local Arguments Z.ltb !x !y.
Local Arguments Z.leb !x !y.
Local Arguments Z.add !x !y.
Local Arguments Z.mul !x !y.
Local Arguments Z.sub !m !n.
Local Arguments Z.opp !x.


(* YYYY-MM-DD{T, space}HH:MM + Z / UTC / GMT *)
(* the rendered zone name IS one of time.tzname: the local zone (or UTC when the local zone does not
   report that name at the wall time and the name is a UTC alias) *)
Definition local_name (ofm : oform) : str := match ofm with OUTC => [85; 84; 67] | _ => [71; 77; 84] end.
Definition local_zone_res (ig n0 n1 : bool) : zone * Z :=
  if ig then (ZNaive, 0) else if negb n0 && negb n1 then (ZUTC, 0) else (ZLocal, assign_fold n0 n1).

Theorem parse_render_iso_local_lemma : forall j tf ofm d o df cy loc n0 n1 yf ig,
  In j plain_joiners -> In tf [THM; THMS] -> In ofm [OUTC; OGMT] ->
  valid_dt d = true -> valid_dt df = true ->
  smem (local_name ofm) loc = true ->
  parse (opts_df0 yf ig df cy loc n0 n1) (render (TDT DIso j tf ofm) d o)
  = OutOk (expected_dt (TDT DIso j tf ofm) d df) (fst (local_zone_res ig n0 n1)) (snd (local_zone_res ig n0 n1)) false [].
Proof.
  intros j tf ofm d o df cy loc n0 n1 yf ig Hj Htf Hofm Hd Hdf Hl1.
  destruct (valid_dt_ranges d Hd) as (Ry & Rmo & Rd & Rh & Rmi & Rs & Rus).
  assert (Hm12 : 1 <= d_mo d <= 12 /\ 1 <= d_d d <= 31).
  { unfold valid_dt, valid_ymd in Hd. pose proof (dim_pos (d_y d) (d_mo d)). lia. }
  destruct Hm12 as [Hm12 Hd31].
  unfold plain_joiners in *. cbn [In] in Hj, Htf, Hofm.
  repeat match goal with H : _ \/ _ |- _ => destruct H as [<- | H] | H : False |- _ => destruct H end;
  unfold local_name, smem in Hl1;
  match goal with |- parse _ (render ?t d o) = _ =>
    assert (Hrender : render t d o = concat (map seg_str (usegs_of t d)))
      by (unfold render, render_date, render_time, render_off, join_txt, usegs_of, date_segs, join_segs, time_segs, utc_segs;
          cbn [map concat seg_str app]; repeat (progress (rewrite <- ?app_assoc, ?app_nil_r; cbn [app])); reflexivity);
    assert (Hwf : wf_segs (usegs_of t d) = true)
      by (unfold usegs_of, date_segs, join_segs, time_segs, utc_segs; cbn [app wf_segs wf_seg hd_error ok_next];
          rewrite ?digits_n_all_digit, ?digits_n_length, ?nonempty_digits; vm_compute; reflexivity)
  end;
  unfold parse, opts_df0;
  cbn [o_fuzzy o_fwt o_yearfirst o_info_yearfirst o_dayfirst o_info_dayfirst o_cur_year oflag o_default
       o_ignoretz o_tzinfos o_local o_nm0 o_nm1];
  unfold parse_res; rewrite Hrender, timelex_segments by exact Hwf; clear Hrender Hwf;
  unfold usegs_of, date_segs, join_segs, time_segs, utc_segs; cbn [app map seg_tok length];
  lrun ltac:(rewrite ?Hl1);
  unfold local_zone_res; destruct ig; try reflexivity; destruct n0, n1; reflexivity.
Qed.

(* the same renderings on the model with the failing tz.tzlocal (F-C02-tzlocal-range): the round trip holds
   exactly when tzlocal can serve the wall time *)
Theorem parse_lz_render_iso_local_lemma : forall j tf ofm d o df cy loc n0 n1 yf ig lz,
  In j plain_joiners -> In tf [THM; THMS] -> In ofm [OUTC; OGMT] ->
  valid_dt d = true -> valid_dt df = true ->
  smem (local_name ofm) loc = true ->
  parse_lz (opts_df0 yf ig df cy loc n0 n1) lz (render (TDT DIso j tf ofm) d o)
  = if negb ig && tzlocal_raises lz (expected_dt (TDT DIso j tf ofm) d df) then OutOverflow
    else OutOk (expected_dt (TDT DIso j tf ofm) d df) (fst (local_zone_res ig n0 n1)) (snd (local_zone_res ig n0 n1)) false [].
Proof.
  intros j tf ofm d o df cy loc n0 n1 yf ig lz Hj Htf Hofm Hd Hdf Hl.
  destruct (tzlocal_raises lz (expected_dt (TDT DIso j tf ofm) d df)) eqn:Er.
  - destruct ig; cbn [negb andb].
    + rewrite (parse_lz_not_local (opts_df0 yf true df cy loc n0 n1) lz _
                 (expected_dt (TDT DIso j tf ofm) d df) ZNaive 0 false []).
      * exact (parse_render_iso_local_lemma j tf ofm d o df cy loc n0 n1 yf true Hj Htf Hofm Hd Hdf Hl).
      * exact (parse_render_iso_local_lemma j tf ofm d o df cy loc true n1 yf true Hj Htf Hofm Hd Hdf Hl).
      * discriminate.
    + apply (parse_lz_local_raises (opts_df0 yf false df cy loc n0 n1) lz _
               (expected_dt (TDT DIso j tf ofm) d df) 0 false []); [|exact Er].
      exact (parse_render_iso_local_lemma j tf ofm d o df cy loc true n1 yf false Hj Htf Hofm Hd Hdf Hl).
  - rewrite andb_false_r. apply parse_lz_transfer; [|exact Er].
    exact (parse_render_iso_local_lemma j tf ofm d o df cy loc n0 n1 yf ig Hj Htf Hofm Hd Hdf Hl).
Qed.
