(* C15: fuzzy_with_tokens returns the skipped text in order of appearance -- statement over the REAL token
   list.  The token list of the run is the lexer's output except that `GMT+3`-style sign tokens are
   reversed in place (`l[i+1] = ('+', '-')[l[i+1] == '+']`); each returned string is the concatenation of
   one maximal run of consecutive skipped positions of that list. *)
From Coq Require Import ZArith List Bool Lia Arith.
From V Require Import base.Cal gen.ParseTables parse.Lex parse.Prim parse.Ymd parse.Parse parse.Build
                      parse.BuildThm parse.YearThm parse.TotalThm parse.SkipThm.
Import ListNotations.
Open Scope Z_scope.

Definition postk {A : Type} (P : A -> Prop) (x : R A) : Prop :=
  match x with Ok a => P a | Err _ => True end.
Lemma postk_bind {A B} (Q : A -> Prop) (P : B -> Prop) (x : R A) (f : A -> R B) :
  postk Q x -> (forall a, Q a -> postk P (f a)) -> postk P (bind x f).
Proof. destruct x; cbn; auto. Qed.
Lemma postk_true {A} (x : R A) : postk (fun _ => True) x.
Proof. destruct x; exact I. Qed.

(* a token and what the run may have turned it into *)
Definition sign_flip (a b : str) : Prop := a = b \/ (a = [43] /\ b = [45]) \/ (a = [45] /\ b = [43]).
Definition flip_rel (l l' : list str) : Prop :=
  length l' = length l /\ forall k, sign_flip (nth k l []) (nth k l' []).

Lemma flip_refl l : flip_rel l l.
Proof. split; [reflexivity|]. intros k. left. reflexivity. Qed.

Lemma flip_trans l1 l2 l3 : flip_rel l1 l2 -> flip_rel l2 l3 -> flip_rel l1 l3.
Proof.
  intros [H1 F1] [H2 F2]. split; [congruence|]. intros k.
  specialize (F1 k). specialize (F2 k). unfold sign_flip in *.
  destruct F1 as [E1 | [[E1 E1'] | [E1 E1']]], F2 as [E2 | [[E2 E2'] | [E2 E2']]];
    first [ left; congruence | right; left; split; congruence | right; right; split; congruence ].
Qed.

Lemma is1_eq t c : is1 t c = true -> t = [c].
Proof.
  unfold is1. destruct t as [|x [|y t]]; try discriminate. intros H. apply Z.eqb_eq in H. congruence.
Qed.

Lemma nth_set_nth_same (l : list str) : forall i v, (i < length l)%nat -> nth i (set_nth l i v) [] = v.
Proof.
  induction l as [|x l IH]; intros [|i] v H; cbn [set_nth nth length] in *; try lia; try reflexivity.
  apply IH. lia.
Qed.

Lemma flip_set_nth l i t1 :
  nth_error l i = Some t1 -> is_sign t1 = true ->
  flip_rel l (set_nth l i (if is1 t1 43 then [45] else [43])).
Proof.
  intros Hn Hs. split; [apply set_nth_length|]. intros k.
  destruct (Nat.eq_dec i k) as [<- | Hne].
  - assert (Hlt : (i < length l)%nat) by (apply nth_error_Some; congruence).
    rewrite nth_set_nth_same by exact Hlt.
    rewrite (nth_error_nth l i [] Hn).
    unfold is_sign in Hs. destruct (is1 t1 43) eqn:E.
    + right. left. split; [apply is1_eq; exact E | reflexivity].
    + cbn [orb] in Hs. right. right. split; [apply is1_eq; exact Hs | reflexivity].
  - rewrite nth_set_nth_other by exact Hne. left. reflexivity.
Qed.

Ltac fleaf :=
  cbn [postk p_l]; first [apply flip_refl | apply flip_set_nth; assumption].

Ltac fstep :=
  lazymatch goal with
  | |- postk _ (bind (bind _ _) _) => rewrite bind_assoc
  | |- postk _ (bind (Err _) _) => cbn [bind postk]; exact I
  | |- postk _ (bind (Ok _) _) => cbn [bind]; cbn beta iota
  | |- postk _ (bind (match ?x with _ => _ end) _) => destruct x eqn:?
  | |- postk _ (bind (if ?c then _ else _) _) => destruct c eqn:?
  | |- postk _ (bind ?x _) => eapply postk_bind; [apply (postk_true x) | intros ? _]
  | |- postk _ (if ?c then _ else _) => destruct c eqn:?
  | |- postk _ (match ?x with _ => _ end) => destruct x eqn:?
  | |- postk _ (Err _) => exact I
  | |- postk _ (Ok _) => fleaf
  end.

(* one iteration changes the token list at most by reversing one sign token *)
Lemma parse_step_flip fz cur st :
  postk (fun st' => flip_rel (p_l st) (p_l st')) (parse_step fz cur st).
Proof.
  destruct st as [l i r y sk].
  unfold parse_step. cbn [p_l p_i p_r p_y p_sk]. cbv zeta.
  repeat fstep.
Qed.

Lemma parse_loop_unfold f fz cy st :
  parse_loop (S f) fz cy st =
  if (length (p_l st) <=? p_i st)%nat then Ok st
  else bind (parse_step fz cy st) (parse_loop f fz cy).
Proof. reflexivity. Qed.

Lemma parse_loop_flip fz cur : forall fuel st,
  postk (fun st' => flip_rel (p_l st) (p_l st')) (parse_loop fuel fz cur st).
Proof.
  induction fuel as [|f IH]; intros st.
  - cbn [parse_loop]. destruct (length (p_l st) <=? p_i st)%nat; cbn [postk]; [apply flip_refl | exact I].
  - rewrite parse_loop_unfold.
    destruct (length (p_l st) <=? p_i st)%nat; [cbn [postk]; apply flip_refl|].
    eapply postk_bind; [apply parse_step_flip|].
    intros st1 H1. specialize (IH st1).
    destruct (parse_loop f fz cur st1) as [st2|e]; cbn [postk] in *; [|exact I].
    eapply flip_trans; eassumption.
Qed.

(* maximal runs of consecutive positions of an ascending list *)
Fixpoint runs_aux (cur : list nat) (prev : nat) (idxs : list nat) : list (list nat) :=
  match idxs with
  | [] => [rev cur]
  | k :: rest => if (S prev =? k)%nat then runs_aux (k :: cur) k rest
                 else rev cur :: runs_aux [k] k rest
  end.
Definition runs (idxs : list nat) : list (list nat) :=
  match idxs with [] => [] | k :: rest => runs_aux [k] k rest end.

Definition run_text (l : list str) (run : list nat) : str := concat (map (fun k => nth k l []) run).

Lemma recombine_runs_aux l : forall idxs p cur acc',
  recombine l (Some p) idxs (run_text l (rev cur) :: acc') = rev acc' ++ map (run_text l) (runs_aux cur p idxs).
Proof.
  induction idxs as [|k rest IH]; intros p cur acc'; cbn [recombine runs_aux].
  - cbn [rev map]. reflexivity.
  - destruct (S p =? k)%nat.
    + replace (run_text l (rev cur) ++ nth k l []) with (run_text l (rev (k :: cur))).
      * apply IH.
      * unfold run_text. cbn [rev]. rewrite map_app, concat_app. cbn [map concat]. rewrite app_nil_r. reflexivity.
    + replace (nth k l []) with (run_text l (rev [k])) at 1
        by (unfold run_text; cbn [rev app map concat]; apply app_nil_r).
      rewrite IH. cbn [rev map]. rewrite <- app_assoc. reflexivity.
Qed.

Lemma recombine_runs l idxs : recombine l None idxs [] = map (run_text l) (runs idxs).
Proof.
  destruct idxs as [|k rest]; [reflexivity|].
  cbn [recombine runs].
  replace (nth k l []) with (run_text l (rev [k]))
    by (unfold run_text; cbn [rev app map concat]; apply app_nil_r).
  rewrite recombine_runs_aux. reflexivity.
Qed.

(* skipped positions are positions of tokens *)
Ltac bleaf :=
  cbn [postk p_l p_sk]; intros ? Hin;
  first [ left; exact Hin
        | destruct Hin as [<- | Hin]; [right; apply nth_error_Some; congruence | left; exact Hin] ].

Ltac bstep :=
  lazymatch goal with
  | |- postk _ (bind (bind _ _) _) => rewrite bind_assoc
  | |- postk _ (bind (Err _) _) => cbn [bind postk]; exact I
  | |- postk _ (bind (Ok _) _) => cbn [bind]; cbn beta iota
  | |- postk _ (bind (match ?x with _ => _ end) _) => destruct x eqn:?
  | |- postk _ (bind (if ?c then _ else _) _) => destruct c eqn:?
  | |- postk _ (bind ?x _) => eapply postk_bind; [apply (postk_true x) | intros ? _]
  | |- postk _ (if ?c then _ else _) => destruct c eqn:?
  | |- postk _ (match ?x with _ => _ end) => destruct x eqn:?
  | |- postk _ (Err _) => exact I
  | |- postk _ (Ok _) => bleaf
  end.

Lemma parse_step_skbound fz cur st :
  postk (fun st' => forall k, In k (p_sk st') -> In k (p_sk st) \/ (k < length (p_l st))%nat)
        (parse_step fz cur st).
Proof.
  destruct st as [l i r y sk].
  unfold parse_step. cbn [p_l p_i p_r p_y p_sk]. cbv zeta.
  unfold tk at 1. destruct (nth_error l i) as [t|] eqn:Ht; [|cbn [bind postk]; exact I].
  cbn [bind].
  repeat bstep.
Qed.

Lemma parse_loop_skbound fz cur : forall fuel st,
  (forall k, In k (p_sk st) -> (k < length (p_l st))%nat) ->
  postk (fun st' => forall k, In k (p_sk st') -> (k < length (p_l st'))%nat) (parse_loop fuel fz cur st).
Proof.
  induction fuel as [|f IH]; intros st H0.
  - cbn [parse_loop]. destruct (length (p_l st) <=? p_i st)%nat; cbn [postk]; [exact H0 | exact I].
  - rewrite parse_loop_unfold.
    destruct (length (p_l st) <=? p_i st)%nat; [cbn [postk]; exact H0|].
    pose proof (parse_step_skbound fz cur st) as B1. pose proof (parse_step_flip fz cur st) as F1.
    destruct (parse_step fz cur st) as [st1|e]; cbn [postk bind] in *; [|exact I].
    apply IH. intros k Hk. destruct F1 as [Hlen _]. rewrite Hlen.
    destruct (B1 k Hk) as [Hin | Hlt]; [apply H0; exact Hin | exact Hlt].
Qed.

(* the statement: l' is the lexer's token list up to reversed sign tokens; idxs are strictly increasing
   positions of it; the returned strings are, one by one, the texts of the maximal consecutive runs *)
Theorem skipped_tokens_in_order2_lemma fz yf df cur s r toks :
  50 <= cur -> parse_res fz true yf df cur s = Ok (Some (r, toks)) ->
  exists (l' : list str) (idxs : list nat),
    flip_rel (timelex s) l' /\ asc 0 idxs /\ (forall k, In k idxs -> (k < length l')%nat) /\
    toks = map (run_text l') (runs idxs).
Proof.
  intros Hc. unfold parse_res. cbv zeta. rewrite orb_true_r.
  set (l := timelex s).
  pose proof (post_parse_loop true cur Hc (length l) (mkSt l 0 res_empty ymd_empty [])
                (conj ymd_inv_empty I)) as PL.
  cbn [p_l p_i] in PL. specialize (PL ltac:(lia)).
  pose proof (parse_loop_flip true cur (length l) (mkSt l 0 res_empty ymd_empty [])) as PF.
  pose proof (parse_loop_skbound true cur (length l) (mkSt l 0 res_empty ymd_empty [])) as PB.
  cbn [p_l p_sk] in PF, PB. specialize (PB ltac:(intros k [])).
  destruct (parse_loop _ _ _ _) as [st|e]; cbn [post postk bind] in *.
  - destruct PL as [PLy PLsk].
    destruct (resolve_ymd (p_y st) yf df) as [[[yy mm] dd]|e]; cbn [bind].
    + cbn [p_r p_l p_sk]. destruct (validate cur _) as [r'|e]; cbn [bind]; [|destruct e; discriminate].
      intros H; injection H as <- <-.
      exists (p_l st), (rev (p_sk st)). split; [exact PF|].
      destruct (sk_desc_asc _ _ PLsk) as [A B]. split; [exact A|]. split.
      * intros k Hk. apply PB. apply in_rev. exact Hk.
      * apply recombine_runs.
    + destruct e; discriminate.
  - destruct e; discriminate.
Qed.
