(* Primitives of the generic-parser model: exception classes, result monad, int()/float()/Decimal()
   acceptance on tokens, Decimal arithmetic actually used by the parser (precision 28,
   ROUND_HALF_EVEN), parserinfo look-ups over the dumped word tables.  No proofs here. *)
From Coq Require Import ZArith List Bool.
From V Require Import base.Cal gen.ParseTables parse.Lex.
Import ListNotations.
Open Scope Z_scope.

(* one constructor per Python exception class that can arise inside the parser *)
Inductive exn :=
| IndexError | ValueError | OverflowError | AssertionError | TypeError | UnboundLocalError
| ValueErrorNoStr   (* a ValueError whose str() itself raises ValueError: calendar.IllegalMonthError
                       carrying an int with more digits than sys.get_int_max_str_digits() *)
| OutOfFuel.

Inductive R (A : Type) : Type := Ok (a : A) | Err (e : exn).
Arguments Ok {A} a.
Arguments Err {A} e.

Definition bind {A B : Type} (x : R A) (f : A -> R B) : R B :=
  match x with Ok a => f a | Err e => Err e end.
Notation "'do' x <- e ; f" := (bind e (fun x => f)) (at level 200, x pattern, e at level 100, f at level 200).

Definition isSome {A} (o : option A) : bool := match o with Some _ => true | None => false end.
Definition isNone {A} (o : option A) : bool := match o with Some _ => false | None => true end.

(* ---- tokens ---- *)
Definition tk (l : list str) (i : nat) : R str :=
  match nth_error l i with Some t => Ok t | None => Err IndexError end.

Definition slen (t : str) : Z := Z.of_nat (length t).

(* s[a:b], s[a:] for 0 <= a <= b *)
Definition slice (a b : nat) (t : str) : str := firstn (b - a) (skipn a t).

Definition is1 (t : str) (c : Z) : bool := match t with [x] => x =? c | _ => false end.

Definition has_dot (t : str) : bool := existsb (fun c => c =? 46) t.

(* str.find('.') *)
Fixpoint find_dot (t : str) (k : Z) : Z :=
  match t with [] => -1 | c :: t' => if c =? 46 then k else find_dot t' (k + 1) end.

(* ---- int(str) on (slices of) tokens ----
   Tokens never contain white space, signs or underscores together with other characters, so
   int() succeeds exactly on non-empty strings of Unicode decimal digits whose length does not
   exceed sys.get_int_max_str_digits(). *)
Definition all_decimal (t : str) : bool := forallb (fun c => 0 <=? dec_val c) t.

Fixpoint int_acc (a : Z) (t : str) : Z :=
  match t with [] => a | c :: t' => int_acc (10 * a + dec_val c) t' end.

Definition py_int (t : str) : R Z :=
  match t with
  | [] => Err ValueError
  | _ => if all_decimal t && ((int_max_str_digits =? 0) || (slen t <=? int_max_str_digits))
         then Ok (int_acc 0 t) else Err ValueError
  end.

(* str.isdigit(): non-empty, every character isdigit (superscripts included) *)
Definition py_isdigit (t : str) : bool :=
  match t with [] => false | _ => forallb is_digit t end.

(* ---- Decimal(token) restricted to finite values: digits+ [ '.' digits* ] ----
   value = ipart + 0.frac ; frac kept as its digit list *)
Definition dec := (Z * list Z)%type.

Fixpoint split_dot (cur : str) (t : str) : str * option str :=
  match t with
  | [] => (rev cur, None)
  | c :: t' => if c =? 46 then (rev cur, Some t') else split_dot (c :: cur) t'
  end.

Definition decnum (t : str) : option dec :=
  let '(ip, fr) := split_dot [] t in
  match ip with
  | [] => None
  | _ => if all_decimal ip then
           match fr with
           | None => Some (int_acc 0 ip, [])
           | Some f => if all_decimal f then Some (int_acc 0 ip, map dec_val f) else None
           end
         else None
  end.

(* parser._to_decimal: every failure (InvalidOperation, non-finite) becomes ValueError *)
Definition to_decimal (t : str) : R dec :=
  match decnum t with Some v => Ok v | None => Err ValueError end.

Definition ascii_lower (t : str) : str :=
  map (fun c => if (65 <=? c) && (c <=? 90) then c + 32 else c) t.

(* float(token) succeeds *)
Definition is_float (t : str) : bool :=
  isSome (decnum t)
  || (let u := ascii_lower t in
      str_eqb u [105; 110; 102] || str_eqb u [110; 97; 110]
      || str_eqb u [105; 110; 102; 105; 110; 105; 116; 121]).

Definition frac_nonzero (v : dec) : bool := existsb (fun d => negb (d =? 0)) (snd v).
Definition dec_int (v : dec) : Z := fst v.
Definition dec_gt (v : dec) (n : Z) : bool := (n <? fst v) || ((fst v =? n) && frac_nonzero v).
Definition dec_ge (v : dec) (n : Z) : bool := n <=? fst v.
Definition dec_lt (v : dec) (n : Z) : bool := fst v <? n.
Definition dec_le (v : dec) (n : Z) : bool := (fst v <? n) || ((fst v =? n) && negb (frac_nonzero v)).

(* number of decimal digits of n >= 1 *)
Fixpoint ndigits (fuel : nat) (n : Z) : Z :=
  match fuel with
  | O => 1
  | S f => if n <? 10 then 1 else 1 + ndigits f (n / 10)
  end.

(* round coefficient c (exponent e) to 28 significant digits, ROUND_HALF_EVEN *)
Definition round28 (fuel : nat) (c e : Z) : Z * Z :=
  let nd := ndigits fuel c in
  if nd <=? 28 then (c, e) else
  let d := nd - 28 in
  let p := 10 ^ d in
  let q := c / p in
  let rm := c mod p in
  let up := (p <? 2 * rm) || ((2 * rm =? p) && Z.odd q) in
  ((if up then q + 1 else q), e + d).

Definition digits_val (f : list Z) : Z := fold_left (fun a d => 10 * a + d) f 0.

(* leading zeros of the fraction *)
Fixpoint strip0 (f : list Z) (z : Z) : list Z * Z :=
  match f with
  | 0 :: f' => strip0 f' (z + 1)
  | _ => (f, z)
  end.

(* value - int(value) in the default Decimal context: the exact fraction 0.f rounded to 28
   significant digits (ROUND_HALF_EVEN), as coefficient and exponent *)
Definition frac_round (f : list Z) : Z * Z :=
  let '(g, z) := strip0 f 0 in
  let n := Z.of_nat (length g) in
  if n <=? 28 then (digits_val g, - (z + n)) else
  let q := digits_val (firstn 28 g) in
  match skipn 28 g with
  | t0 :: tl =>
      let nz := existsb (fun d => negb (d =? 0)) tl in
      let up := (5 <? t0) || ((t0 =? 5) && (nz || Z.odd q)) in
      ((if up then q + 1 else q), - (z + 28))
  | [] => (q, - (z + 28))
  end.

(* int(60 * (value - int(value))) in the default Decimal context, for a non-zero fraction *)
Definition frac60 (v : dec) : Z :=
  let '(c1, e1) := frac_round (snd v) in
  let '(c2, e2) := round28 40 (60 * c1) e1 in
  if 0 <=? e2 then c2 * 10 ^ e2 else c2 / 10 ^ (- e2).

(* parser._parse_min_sec *)
Definition parse_min_sec (v : dec) : Z * option Z :=
  (dec_int v, if frac_nonzero v then Some (frac60 v) else None).

(* parser._parsems on a string *)
Definition ljust6 (f : str) : str := firstn 6 (f ++ [48; 48; 48; 48; 48; 48]).

Definition parsems (t : str) : R (Z * Z) :=
  if has_dot t then
    let '(i, rest) := split_dot [] t in
    match rest with
    | Some f => if has_dot f then Err ValueError   (* too many values to unpack *)
                else do a <- py_int i; do b <- py_int (ljust6 f); Ok (a, b)
    | None => Err ValueError
    end
  else do a <- py_int t; Ok (a, 0).

(* ---- parserinfo ---- *)
Fixpoint sassoc (k : str) (t : list (str * Z)) : option Z :=
  match t with
  | [] => None
  | (k', v) :: t' => if str_eqb k' k then Some v else sassoc k t'
  end.

Definition smem (k : str) (t : list str) : bool := existsb (str_eqb k) t.

Definition info_jump (t : str) : bool := isSome (sassoc (lower t) tbl_jump).
Definition info_weekday (t : str) : option Z := sassoc (lower t) tbl_weekdays.
Definition info_month (t : str) : option Z :=
  match sassoc (lower t) tbl_months with Some i => Some (i + 1) | None => None end.
Definition info_hms (t : str) : option Z := sassoc (lower t) tbl_hms.
Definition info_ampm (t : str) : option Z := sassoc (lower t) tbl_ampm.
Definition info_pertain (t : str) : bool := isSome (sassoc (lower t) tbl_pertain).
Definition info_utczone (t : str) : bool := isSome (sassoc (lower t) tbl_utczone).
(* parserinfo.tzoffset: the name is NOT lower-cased before the look-up in _utczone *)
Definition info_tzoffset (t : str) : option Z :=
  if isSome (sassoc t tbl_utczone) then Some 0 else sassoc t tbl_tzoffset.
Definition in_utczone_raw (t : str) : bool := smem t tbl_utczone_raw.

(* parserinfo.convertyear; [cur] = parserinfo._year *)
Definition convertyear (cur : Z) (year : Z) (century_specified : bool) : R Z :=
  if year <? 0 then Err AssertionError else
  if (year <? 100) && negb century_specified then
    let y := year + cur / 100 * 100 in
    if cur + 50 <=? y then Ok (y - 100)
    else if y <? cur - 50 then Ok (y + 100)
    else Ok y
  else Ok year.

(* str(n) raises ValueError for ints with more than sys.get_int_max_str_digits() digits *)
(* (the first comparison is implied by the second; it only keeps the extracted code from
   computing 10^4300 for small n) *)
Definition str_limit_hit (n : Z) : bool :=
  negb (int_max_str_digits =? 0) && (10 ^ Z.min int_max_str_digits 18 <=? Z.abs n)
  && (10 ^ int_max_str_digits <=? Z.abs n).

(* calendar.monthrange(y, m)[1]; IllegalMonthError(m) is a ValueError whose message formats m *)
Definition monthlen (y m : Z) : R Z :=
  if (1 <=? m) && (m <=? 12) then Ok (dim y m)
  else if str_limit_hit m then Err ValueErrorNoStr else Err ValueError.
