(* C02: parse_render theorems for day - month name - year forms (DD Mon YYYY, DD Month YYYY). *)
From Coq Require Import ZArith List Bool Lia ZifyBool.
From V Require Import base.Cal gen.ParseTables parse.Lex parse.Prim parse.Ymd parse.Parse parse.Build
                      parse.ParseSpec parse.LexSeg parse.TokFacts parse.YearThm parse.RenderTac parse.RenderIso parse.WordFacts parse.RenderMonDefs parse.RenderMon_DDMonY_JNone_TNone parse.RenderMon_DDMonY_JSpace_THM parse.RenderMon_DDMonY_JSpace_THMS parse.RenderMon_DDMonthY_JNone_TNone parse.RenderMon_DDMonthY_JSpace_THM parse.RenderMon_DDMonthY_JSpace_THMS.
Import ListNotations.
Open Scope Z_scope.
Ltac Zify.zify_post_hook ::= Z.to_euclidean_division_equations.

Local Arguments digits_n : simpl never.
Local Arguments is_float : simpl never.
Local Arguments to_decimal : simpl never.
Local Arguments py_int : simpl never.
Local Arguments py_isdigit : simpl never.
Local Arguments slen : simpl never.
Local Arguments has_dot : simpl never.
Local Arguments find_dot : simpl never.
Local Arguments info_jump : simpl never.
Local Arguments info_weekday : simpl never.
Local Arguments info_month : simpl never.
Local Arguments info_hms : simpl never.
Local Arguments info_ampm : simpl never.
Local Arguments info_pertain : simpl never.
Local Arguments info_utczone : simpl never.
Local Arguments info_tzoffset : simpl never.
Local Arguments is1 : simpl never.
Local Arguments str_eqb : simpl never.
Local Arguments could_be_tzname : simpl never.
Local Arguments parsems : simpl never.
Local Arguments all_digit : simpl never.
Local Arguments convertyear : simpl never.
Local Arguments dt_replace : simpl never.
Local Arguments valid_dt : simpl never.
Local Arguments monthlen : simpl never.
Local Arguments Z.eqb !x !y.
Local Arguments Z.ltb !x !y.
Local Arguments Z.leb !x !y.
Local Arguments Z.add !x !y.
Local Arguments Z.mul !x !y.
Local Arguments Z.sub !m !n.
Local Arguments Z.opp !x.

Local Arguments mon3 : simpl never.
Local Arguments month_name : simpl never.
Local Arguments wd3 : simpl never.


Definition name_dforms : list dform := [DDMonY; DDMonthY].
Definition name_tails : list (joiner * tform) := [(JNone, TNone); (JSpace, THM); (JSpace, THMS)].

(* DD Mon YYYY / DD Month YYYY, alone or followed by a space and HH:MM[:SS]; year >= 100
   (years 1..99 are open finding F-C02-padyear, see RenderRefuted.v) *)
Theorem parse_render_name_date_lemma : forall f jt d o df cy loc n0 n1 yf ig,
  In f name_dforms -> In jt name_tails ->
  valid_dt d = true -> valid_dt df = true -> 100 <= d_y d ->
  parse (opts_df0 yf ig df cy loc n0 n1) (render (TDT f (fst jt) (snd jt) ONone) d o)
  = OutOk (expected_dt (TDT f (fst jt) (snd jt) ONone) d df) ZNaive 0 false [].
Proof.
  intros f jt d o df cy loc n0 n1 yf ig Hf Hjt Hd Hdf Hy.
  unfold name_dforms, name_tails in *. cbn [In] in Hf, Hjt.
  destruct Hf as [<- | [<- | []]]; destruct Hjt as [<- | [<- | [<- | []]]]; cbn [fst snd].
  - apply parse_render_DDMonY_JNone_TNone; assumption.
  - apply parse_render_DDMonY_JSpace_THM; assumption.
  - apply parse_render_DDMonY_JSpace_THMS; assumption.
  - apply parse_render_DDMonthY_JNone_TNone; assumption.
  - apply parse_render_DDMonthY_JSpace_THM; assumption.
  - apply parse_render_DDMonthY_JSpace_THMS; assumption.
Qed.
