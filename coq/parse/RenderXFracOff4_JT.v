(* C02 (helper rdalg): YYYY-MM-DD{T, space}HH:MM:SS{.,}f{+,-}HHMM, f = 1..9 digits. *)
From Coq Require Import ZArith List Bool Lia ZifyBool.
From V Require Import base.Cal gen.ParseTables parse.Lex parse.Prim parse.Ymd parse.Parse parse.Build
                      parse.ParseSpec parse.LexSeg parse.TokFacts parse.YearThm parse.RenderTac parse.RenderTac3 parse.RenderIso parse.TokFacts2 parse.RenderOffDefs parse.RenderTac4 parse.FracFacts parse.RenderFrac parse.RenderOff4.
Import ListNotations.
Open Scope Z_scope.
Ltac Zify.zify_post_hook ::= Z.to_euclidean_division_equations.

Local Arguments digits_n : simpl never.
Local Arguments is_float : simpl never.
Local Arguments to_decimal : simpl never.
Local Arguments py_int : simpl never.
Local Arguments py_isdigit : simpl never.
Local Arguments slen : simpl never.
Local Arguments has_dot : simpl never.
Local Arguments find_dot : simpl never.
Local Arguments info_jump : simpl never.
Local Arguments info_weekday : simpl never.
Local Arguments info_month : simpl never.
Local Arguments info_hms : simpl never.
Local Arguments info_ampm : simpl never.
Local Arguments info_pertain : simpl never.
Local Arguments info_utczone : simpl never.
Local Arguments info_tzoffset : simpl never.
Local Arguments is1 : simpl never.
Local Arguments str_eqb : simpl never.
Local Arguments could_be_tzname : simpl never.
Local Arguments parsems : simpl never.
Local Arguments all_digit : simpl never.
Local Arguments convertyear : simpl never.
Local Arguments dt_replace : simpl never.
Local Arguments valid_dt : simpl never.
Local Arguments monthlen : simpl never.
Local Arguments Z.eqb !x !y.
Local Arguments Z.ltb !x !y.
Local Arguments Z.leb !x !y.
Local Arguments Z.add !x !y.
Local Arguments Z.mul !x !y.
Local Arguments Z.sub !m !n.
Local Arguments Z.opp !x.

Local Arguments firstn : simpl never.
Local Arguments skipn : simpl never.

Local Arguments frac_digits : simpl never.
Local Arguments trunc_us : simpl never.

Definition fz4segs_of_JT (k : nat) (comma : bool) (d : dt7) (o : offs) : list seg :=
  date_segs DIso d ++ join_segs JT ++ ftime_segs k comma d ++ off4_segs o.

Lemma parse_render_iso_frac_offset4_JT : forall k comma d o df cy loc n0 n1 yf ig,
  (1 <= k <= 9)%nat ->
  valid_dt d = true -> valid_dt df = true -> wf_off o = true -> smem utc_name loc = false ->
  parse (opts_df0 yf ig df cy loc n0 n1) (render (TDT DIso JT (TFrac k comma) OHHMM) d o)
  = OutOk (expected_dt (TDT DIso JT (TFrac k comma) OHHMM) d df)
          (if ig then ZNaive else zone_of_off (off_secs o)) 0 false [].
Proof.
  intros k comma d o df cy loc n0 n1 yf ig Hk Hd Hdf Ho Hloc.
  destruct (valid_dt_ranges d Hd) as (Ry & Rmo & Rd & Rh & Rmi & Rs & Rus).
  assert (Hs100 : 0 <= d_s d < 100) by (change (10 ^ Z.of_nat 2) with 100 in Rs; exact Rs).
  assert (Hus : 0 <= d_us d < 1000000) by (change (10 ^ Z.of_nat 6) with 1000000 in Rus; exact Rus).
  assert (Hkne : nonempty (frac_digits k (d_us d)) = true)
    by (destruct k as [|k']; [lia | apply frac_digits_nonempty]).
  assert (Hoff : (0 <= of_h o < 10 ^ Z.of_nat 2) /\ (0 <= of_m o < 10 ^ Z.of_nat 2) /\ 0 <= of_h o <= 23 /\ 0 <= of_m o <= 59).
  { unfold wf_off in Ho. change (10 ^ Z.of_nat 2) with 100. lia. }
  destruct Hoff as (Roh & Rom & Hoh & Hom).
  destruct o as [pos oh om]. cbn [of_pos of_h of_m] in *.
  unfold smem, utc_name in Hloc.
  pose proof (trunc_us_range k _ Hus) as Htr.
  assert (E4 : T4o oh om = digits_n 4 (oh * 100 + om)) by (apply T4o_eq; lia).
  assert (H4 : 0 <= oh * 100 + om < 10 ^ Z.of_nat 4) by (change (10 ^ Z.of_nat 4) with 10000; lia).
  pose proof (cat_slen _ 3%nat _ E4) as F4.
  assert (W4 : wf_seg (SDig (T4o oh om)) = true) by (cbn [wf_seg]; rewrite E4, nonempty_digits, digits_n_all_digit; reflexivity).
  assert (L4 : length (T4o oh om) = 4%nat) by (rewrite E4; apply digits_n_length).
  clear E4.
  destruct comma; destruct pos;
  match goal with |- parse _ (render (TDT DIso JT (TFrac ?k ?c) OHHMM) d ?o) = _ =>
    assert (Hrender : render (TDT DIso JT (TFrac k c) OHHMM) d o = concat (map seg_str (fz4segs_of_JT k c d o)))
      by (unfold render, render_date, render_time, render_off, join_txt, fz4segs_of_JT, date_segs, join_segs, ftime_segs, off4_segs, T4o;
          cbn [map concat seg_str app of_pos of_h of_m];
          repeat (progress (rewrite <- ?app_assoc, ?app_nil_r; cbn [app])); reflexivity);
    assert (Hwf : wf_segs (fz4segs_of_JT k c d o) = true)
      by (unfold fz4segs_of_JT, date_segs, join_segs, ftime_segs, off4_segs; cbn [app wf_segs hd_error ok_next of_pos of_h of_m];
          rewrite ?W4, ?L4; cbn [wf_seg];
          rewrite ?digits_n_all_digit, ?digits_n_length, ?nonempty_digits, ?frac_digits_all_digit, ?Hkne; vm_compute; reflexivity)
  end;
  unfold parse, opts_df0;
  cbn [o_fuzzy o_fwt o_yearfirst o_info_yearfirst o_dayfirst o_info_dayfirst o_cur_year oflag o_default
       o_ignoretz o_tzinfos o_local o_nm0 o_nm1];
  unfold parse_res; rewrite Hrender, timelex_segments by exact Hwf; clear Hrender Hwf;
  unfold fz4segs_of_JT, date_segs, join_segs, ftime_segs, off4_segs, off_secs, zone_of_off;
  cbn [app map seg_tok length of_pos of_h of_m];
  lrun ltac:(rewrite ?F4; unfold T4o; rewrite ?sl_0_2, ?sk_2; fold (T4o oh om);
             rewrite ?tok_parsems_frac by (first [assumption | lia]));
  try (match goal with |- context [match ?x with Z0 => _ | Zpos _ => _ | Zneg _ => _ end] => destruct x eqn:Esecs end);
  try lia;
  repeat (progress (sym2; rewrite ?Hloc; rewrite ?tzoffset_ok_small by lia));
  try match goal with |- (if ?b then _ else _) = _ => destruct b end;
  zeq; first [reflexivity | (repeat f_equal; lia)].
Qed.
