(* C02: parse_render theorems for the RFC 2822 form  Www, DD Mon YYYY HH:MM:SS +HHMM (the canonical RFC 2822 form). *)
From Coq Require Import ZArith List Bool Lia ZifyBool.
From V Require Import base.Cal gen.ParseTables parse.Lex parse.Prim parse.Ymd parse.Parse parse.Build
                      parse.ParseSpec parse.LexSeg parse.TokFacts parse.YearThm parse.RenderTac parse.RenderTac3 parse.RenderIso parse.WordFacts parse.LexSeg2 parse.RenderCommaDefs parse.RenderTac4 parse.TokFacts2 parse.RenderOffDefs parse.RenderOff4.
Import ListNotations.
Open Scope Z_scope.
Ltac Zify.zify_post_hook ::= Z.to_euclidean_division_equations.

Local Arguments digits_n : simpl never.
Local Arguments is_float : simpl never.
Local Arguments to_decimal : simpl never.
Local Arguments py_int : simpl never.
Local Arguments py_isdigit : simpl never.
Local Arguments slen : simpl never.
Local Arguments has_dot : simpl never.
Local Arguments find_dot : simpl never.
Local Arguments info_jump : simpl never.
Local Arguments info_weekday : simpl never.
Local Arguments info_month : simpl never.
Local Arguments info_hms : simpl never.
Local Arguments info_ampm : simpl never.
Local Arguments info_pertain : simpl never.
Local Arguments info_utczone : simpl never.
Local Arguments info_tzoffset : simpl never.
Local Arguments is1 : simpl never.
Local Arguments str_eqb : simpl never.
Local Arguments could_be_tzname : simpl never.
Local Arguments parsems : simpl never.
Local Arguments all_digit : simpl never.
Local Arguments convertyear : simpl never.
Local Arguments dt_replace : simpl never.
Local Arguments valid_dt : simpl never.
Local Arguments monthlen : simpl never.
Local Arguments Z.eqb !x !y.
Local Arguments Z.ltb !x !y.
Local Arguments Z.leb !x !y.
Local Arguments Z.add !x !y.
Local Arguments Z.mul !x !y.
Local Arguments Z.sub !m !n.
Local Arguments Z.opp !x.

Local Arguments mon3 : simpl never.
Local Arguments month_name : simpl never.
Local Arguments wd3 : simpl never.

Lemma day_nonzero v : 1 <= v -> match v with 0 => true | _ => false end = false.
Proof. destruct v; [lia | reflexivity | reflexivity]. Qed.

Ltac wdrw Hw :=
  rewrite ?(wd3_float _ Hw), ?(wd3_weekday _ Hw), ?(wd3_hms _ Hw), ?(wd3_ampm _ Hw), ?(wd3_jump _ Hw).

Local Arguments weekday : simpl never.
Local Arguments firstn : simpl never.
Local Arguments skipn : simpl never.

Definition rfco_segs (d : dt7) (o : offs) : list seg :=
  [SWord (wd3 (weekday (d_y d) (d_mo d) (d_d d))); SSep 44; SSep 32; SDig (digits_n 2 (d_d d)); SSep 32;
   SWord (mon3 (d_mo d)); SSep 32; SDig (digits_n 4 (d_y d)); SSep 32;
   SDig (digits_n 2 (d_h d)); SSep 58; SDig (digits_n 2 (d_mi d)); SSep 58; SDig (digits_n 2 (d_s d));
   SSep 32; SSep (if of_pos o then 43 else 45); SDig (T4o (of_h o) (of_m o))].

(* RFC 2822: "Thu, 25 Sep 2003 10:36:28 -0300"; year >= 100; "UTC" not a local zone name *)
Theorem parse_render_rfc_offset_lemma : forall d o df cy loc n0 n1 yf ig,
  valid_dt d = true -> valid_dt df = true -> 100 <= d_y d -> wf_off o = true -> smem utc_name loc = false ->
  parse (opts_df0 yf ig df cy loc n0 n1) (render (TRfc OHHMM) d o)
  = OutOk (expected_dt (TRfc OHHMM) d df) (if ig then ZNaive else zone_of_off (off_secs o)) 0 false [].
Proof.
  intros d o df cy loc n0 n1 yf ig Hd Hdf Hy100 Ho Hloc.
  destruct (valid_dt_ranges d Hd) as (Ry & Rmo & Rd & Rh & Rmi & Rs & Rus).
  assert (Hm12 : 1 <= d_mo d <= 12 /\ 1 <= d_d d <= 31).
  { unfold valid_dt, valid_ymd in Hd. pose proof (dim_pos (d_y d) (d_mo d)). lia. }
  destruct Hm12 as [Hm12 Hd31].
  assert (Hw : 0 <= weekday (d_y d) (d_mo d) (d_d d) <= 6) by (unfold weekday; apply weekday_of_ord_range).
  assert (Hyc : d_y d = 100 \/ 100 < d_y d) by lia.
  assert (Hoff : (0 <= of_h o < 10 ^ Z.of_nat 2) /\ (0 <= of_m o < 10 ^ Z.of_nat 2) /\ 0 <= of_h o <= 23 /\ 0 <= of_m o <= 59).
  { unfold wf_off in Ho. change (10 ^ Z.of_nat 2) with 100. lia. }
  destruct Hoff as (Roh & Rom & Hoh & Hom).
  destruct o as [pos oh om]. cbn [of_pos of_h of_m] in *.
  unfold smem, utc_name in Hloc.
  assert (E4 : T4o oh om = digits_n 4 (oh * 100 + om)) by (apply T4o_eq; lia).
  pose proof (cat_slen _ 3%nat _ E4) as F4.
  assert (W4 : wf_seg (SDig (T4o oh om)) = true) by (cbn [wf_seg]; rewrite E4, nonempty_digits, digits_n_all_digit; reflexivity).
  assert (L4 : length (T4o oh om) = 4%nat) by (rewrite E4; apply digits_n_length).
  clear E4.
  assert (Hrender : render (TRfc OHHMM) d (mkOff pos oh om) = concat (map seg_str (rfco_segs d (mkOff pos oh om)))).
  { unfold render, render_time, render_off, rfco_segs, T4o. cbn [map concat seg_str app of_pos of_h of_m].
    repeat (progress (rewrite <- ?app_assoc, ?app_nil_r; cbn [app])). reflexivity. }
  assert (Hwf : wf_segs (rfco_segs d (mkOff pos oh om)) = true).
  { unfold rfco_segs. destruct pos; cbn [app wf_segs hd_error ok_next of_pos of_h of_m];
    rewrite ?(mon3_wf _ Hm12), ?(wd3_wf _ Hw), ?W4, ?L4; cbn [wf_seg];
    rewrite ?digits_n_all_digit, ?digits_n_length, ?nonempty_digits; vm_compute; reflexivity. }
  unfold parse, opts_df0;
  cbn [o_fuzzy o_fwt o_yearfirst o_info_yearfirst o_dayfirst o_info_dayfirst o_cur_year oflag o_default
       o_ignoretz o_tzinfos o_local o_nm0 o_nm1].
  unfold parse_res. rewrite Hrender, timelex_segments by exact Hwf. clear Hrender Hwf.
  unfold rfco_segs, off_secs, zone_of_off.
  destruct pos; cbn [app map seg_tok length of_pos of_h of_m];
  destruct Hyc as [Hyc | Hyc];
  lrun ltac:(unfold dec_gt, dec_ge, dec_lt, dec_le, frac_nonzero; cbn [fst snd existsb];
             wordrw Hm12; wdrw Hw; rewrite ?convertyear_ge100 by lia;
             rewrite ?F4; unfold T4o; rewrite ?sl_0_2, ?sk_2; fold (T4o oh om));
  try (match goal with |- context [match ?x with Z0 => _ | Zpos _ => _ | Zneg _ => _ end] => destruct x eqn:Esecs end);
  try (exfalso; clear - Esecs Hoh Hom; lia);
  repeat (progress (sym2; rewrite ?Hloc; rewrite ?tzoffset_ok_small by (clear - Esecs Hoh Hom; lia)));
  try (match goal with |- context [if ?c then add_weekday _ _ else _] =>
         replace c with false by (clear - Hd31; destruct (d_d d); [exfalso; lia | reflexivity | reflexivity]) end);
  repeat (progress sym2);
  try match goal with |- (if ?b then _ else _) = _ => destruct b end;
  first [reflexivity | (repeat f_equal; clear - Esecs Hoh Hom; lia)].
Qed.
