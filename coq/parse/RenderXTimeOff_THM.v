(* C02 (helper rdalg): time-only forms HH:MM followed by a numeric offset +HH:MM / +HH (date from the default). *)
From Coq Require Import ZArith List Bool Lia ZifyBool.
From V Require Import base.Cal gen.ParseTables parse.Lex parse.Prim parse.Ymd parse.Parse parse.Build
                      parse.ParseSpec parse.LexSeg parse.TokFacts parse.YearThm parse.RenderTac parse.RenderTac3 parse.RenderIso parse.TokFacts2 parse.RenderOffDefs parse.RenderTac4.
Import ListNotations.
Open Scope Z_scope.
Ltac Zify.zify_post_hook ::= Z.to_euclidean_division_equations.

Local Arguments digits_n : simpl never.
Local Arguments is_float : simpl never.
Local Arguments to_decimal : simpl never.
Local Arguments py_int : simpl never.
Local Arguments py_isdigit : simpl never.
Local Arguments slen : simpl never.
Local Arguments has_dot : simpl never.
Local Arguments find_dot : simpl never.
Local Arguments info_jump : simpl never.
Local Arguments info_weekday : simpl never.
Local Arguments info_month : simpl never.
Local Arguments info_hms : simpl never.
Local Arguments info_ampm : simpl never.
Local Arguments info_pertain : simpl never.
Local Arguments info_utczone : simpl never.
Local Arguments info_tzoffset : simpl never.
Local Arguments is1 : simpl never.
Local Arguments str_eqb : simpl never.
Local Arguments could_be_tzname : simpl never.
Local Arguments parsems : simpl never.
Local Arguments all_digit : simpl never.
Local Arguments convertyear : simpl never.
Local Arguments dt_replace : simpl never.
Local Arguments valid_dt : simpl never.
Local Arguments monthlen : simpl never.
Local Arguments Z.eqb !x !y.
Local Arguments Z.ltb !x !y.
Local Arguments Z.leb !x !y.
Local Arguments Z.add !x !y.
Local Arguments Z.mul !x !y.
Local Arguments Z.sub !m !n.
Local Arguments Z.opp !x.

Local Arguments firstn : simpl never.
Local Arguments skipn : simpl never.


Definition tzsegs_THM (ofm : oform) (d : dt7) (o : offs) : list seg := time_segs THM d ++ off_segs ofm o.

Lemma parse_render_time_offset_THM : forall ofm d o df cy loc n0 n1 yf ig,
  In ofm zone_oforms ->
  valid_dt d = true -> valid_dt df = true -> wf_off o = true -> smem utc_name loc = false ->
  parse (opts_df0 yf ig df cy loc n0 n1) (render (TDT DNone JNone THM ofm) d o)
  = OutOk (expected_dt (TDT DNone JNone THM ofm) d df)
          (if ig then ZNaive else
           match expected_off (TDT DNone JNone THM ofm) o with Some v => zone_of_off v | None => ZNaive end)
          0 false [].
Proof.
  intros ofm d o df cy loc n0 n1 yf ig Hofm Hd Hdf Ho Hloc.
  destruct (valid_dt_ranges d Hd) as (Ry & Rmo & Rd & Rh & Rmi & Rs & Rus).
  assert (Hdfv : 1 <= d_d df <= dim (d_y df) (d_mo df) /\ 1 <= d_mo df <= 12).
  { unfold valid_dt, valid_ymd in Hdf. lia. }
  assert (Hoff : (0 <= of_h o < 10 ^ Z.of_nat 2) /\ (0 <= of_m o < 10 ^ Z.of_nat 2) /\ 0 <= of_h o <= 23 /\ 0 <= of_m o <= 59).
  { unfold wf_off in Ho. change (10 ^ Z.of_nat 2) with 100. lia. }
  destruct Hoff as (Roh & Rom & Hoh & Hom).
  destruct o as [pos oh om]. cbn [of_pos of_h of_m] in *.
  unfold smem, utc_name in Hloc.
  unfold zone_oforms in *. cbn [In] in Hofm.
  destruct Hofm as [<- | [<- | []]];
  destruct pos;
  match goal with |- parse _ (render (TDT DNone JNone THM ?ofm) d ?o) = _ =>
    assert (Hrender : render (TDT DNone JNone THM ofm) d o = concat (map seg_str (tzsegs_THM ofm d o)))
      by (unfold render, render_date, render_time, render_off, join_txt, tzsegs_THM, time_segs, off_segs;
          cbn [map concat seg_str app of_pos of_h of_m];
          repeat (progress (repeat rewrite <- app_assoc; cbn [app])); rewrite ?app_nil_r; reflexivity);
    assert (Hwf : wf_segs (tzsegs_THM ofm d o) = true)
      by (unfold tzsegs_THM, time_segs, off_segs; cbn [app wf_segs wf_seg hd_error ok_next of_pos of_h of_m];
          rewrite ?digits_n_all_digit, ?digits_n_length, ?nonempty_digits; vm_compute; reflexivity)
  end;
  unfold parse, opts_df0;
  cbn [o_fuzzy o_fwt o_yearfirst o_info_yearfirst o_dayfirst o_info_dayfirst o_cur_year oflag o_default
       o_ignoretz o_tzinfos o_local o_nm0 o_nm1];
  unfold parse_res; rewrite Hrender, timelex_segments by exact Hwf; clear Hrender Hwf;
  unfold tzsegs_THM, time_segs, off_segs, expected_off, off_secs, zone_of_off;
  cbn [app map seg_tok length of_pos of_h of_m];
  lrun ltac:(rewrite ?firstn_digits_all; unfold parse_hms, assign_hms, parse_min_sec, frac_nonzero, dec_int;
             cbn [fst snd existsb]; unfold monthlen);
  try (match goal with |- context [match ?x with Z0 => _ | Zpos _ => _ | Zneg _ => _ end] => destruct x eqn:Esecs end);
  try lia;
  repeat (progress (sym2; rewrite ?firstn_digits_all; rewrite ?Hloc; rewrite ?tzoffset_ok_small by lia; unfold monthlen));
  try match goal with |- (if ?b then _ else _) = _ => destruct b end;
  zeq; first [reflexivity | (repeat f_equal; lia)].
Qed.
