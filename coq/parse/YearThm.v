(* C02: the two-digit-year pivot of parserinfo.convertyear. *)
From Coq Require Import ZArith List Bool Lia ZifyBool.
From V Require Import base.Cal gen.ParseTables parse.Lex parse.Prim.
Open Scope Z_scope.
Ltac Zify.zify_post_hook ::= Z.to_euclidean_division_equations.

(* a two-digit year resolves to the unique year within -50..+49 of the current year that ends
   in those two digits *)
Lemma convertyear_pivot_lemma y cur :
  0 <= y < 100 ->
  exists r, convertyear cur y false = Ok r /\ cur - 50 <= r < cur + 50 /\ r mod 100 = y.
Proof.
  intros Hy. unfold convertyear.
  destruct (y <? 0) eqn:E0; [lia|].
  destruct ((y <? 100) && negb false) eqn:E1; [|lia].
  destruct (cur + 50 <=? y + cur / 100 * 100) eqn:E2.
  - eexists; split; [reflexivity|]. lia.
  - destruct (y + cur / 100 * 100 <? cur - 50) eqn:E3.
    + eexists; split; [reflexivity|]. lia.
    + eexists; split; [reflexivity|]. lia.
Qed.

Lemma convertyear_unique cur y r1 r2 :
  cur - 50 <= r1 < cur + 50 -> cur - 50 <= r2 < cur + 50 -> r1 mod 100 = y -> r2 mod 100 = y -> r1 = r2.
Proof. lia. Qed.

Lemma convertyear_century cur y : 0 <= y -> convertyear cur y true = Ok y.
Proof.
  intros Hy. unfold convertyear. destruct (y <? 0) eqn:E; [lia|].
  rewrite andb_false_r. reflexivity.
Qed.
