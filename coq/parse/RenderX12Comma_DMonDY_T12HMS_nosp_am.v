(* C02 (helper rdalg): "Mon DD, YYYY" followed by the 12-hour time T12HMS (no space before AM/PM); year >= 100. *)
From Coq Require Import ZArith List Bool Lia ZifyBool.
From V Require Import base.Cal gen.ParseTables parse.Lex parse.Prim parse.Ymd parse.Parse parse.Build
                      parse.ParseSpec parse.LexSeg parse.TokFacts parse.YearThm parse.RenderTac parse.RenderTac3 parse.RenderIso parse.WordFacts parse.LexSeg2 parse.RenderCommaDefs parse.Render12Defs parse.RenderTac4.
Import ListNotations.
Open Scope Z_scope.
Ltac Zify.zify_post_hook ::= Z.to_euclidean_division_equations.

Local Arguments digits_n : simpl never.
Local Arguments is_float : simpl never.
Local Arguments to_decimal : simpl never.
Local Arguments py_int : simpl never.
Local Arguments py_isdigit : simpl never.
Local Arguments slen : simpl never.
Local Arguments has_dot : simpl never.
Local Arguments find_dot : simpl never.
Local Arguments info_jump : simpl never.
Local Arguments info_weekday : simpl never.
Local Arguments info_month : simpl never.
Local Arguments info_hms : simpl never.
Local Arguments info_ampm : simpl never.
Local Arguments info_pertain : simpl never.
Local Arguments info_utczone : simpl never.
Local Arguments info_tzoffset : simpl never.
Local Arguments is1 : simpl never.
Local Arguments str_eqb : simpl never.
Local Arguments could_be_tzname : simpl never.
Local Arguments parsems : simpl never.
Local Arguments all_digit : simpl never.
Local Arguments convertyear : simpl never.
Local Arguments dt_replace : simpl never.
Local Arguments valid_dt : simpl never.
Local Arguments monthlen : simpl never.
Local Arguments Z.eqb !x !y.
Local Arguments Z.ltb !x !y.
Local Arguments Z.leb !x !y.
Local Arguments Z.add !x !y.
Local Arguments Z.mul !x !y.
Local Arguments Z.sub !m !n.
Local Arguments Z.opp !x.

Local Arguments mon3 : simpl never.
Local Arguments month_name : simpl never.
Local Arguments h12 : simpl never.
Local Arguments ampm_txt : simpl never.


Definition xc12_segs_am (d : dt7) : list seg2 :=
  cdate_segs false d ++ map S1 ([SSep 32] ++ t12_segs true false d).

Theorem parse_render_12h_DMonDY_T12HMS_nosp_am : forall d o df cy loc n0 n1 yf ig,
  valid_dt d = true -> valid_dt df = true -> 100 <= d_y d -> d_h d < 12 ->
  parse (opts_df0 yf ig df cy loc n0 n1) (render (TDT DMonDY JSpace (T12HMS false) ONone) d o)
  = OutOk (expected_dt (TDT DMonDY JSpace (T12HMS false) ONone) d df) ZNaive 0 false [].
Proof.
  intros d o df cy loc n0 n1 yf ig Hd Hdf Hy100 Hampm.
  destruct (valid_dt_ranges d Hd) as (Ry & Rmo & Rd & Rh & Rmi & Rs & Rus).
  assert (Hm12 : 1 <= d_mo d <= 12 /\ 1 <= d_d d <= 31).
  { unfold valid_dt, valid_ymd in Hd. pose proof (dim_pos (d_y d) (d_mo d)). lia. }
  destruct Hm12 as [Hm12 Hd31].
  assert (Hh23 : 0 <= d_h d <= 23) by (unfold valid_dt in Hd; lia).
  assert (Hyc : d_y d = 100 \/ 100 < d_y d) by lia.
  assert (Hrender : render (TDT DMonDY JSpace (T12HMS false) ONone) d o = concat (map seg2_str (xc12_segs_am d))).
  { unfold render, render_date, render_time, render_off, join_txt, xc12_segs_am, cdate_segs, t12_segs, sp.
    cbn [map concat seg2_str seg_str app].
    repeat (progress (rewrite <- ?app_assoc, ?app_nil_r; cbn [app])). reflexivity. }
  unfold parse, opts_df0;
  cbn [o_fuzzy o_fwt o_yearfirst o_info_yearfirst o_dayfirst o_info_dayfirst o_cur_year oflag o_default
       o_ignoretz o_tzinfos o_local o_nm0 o_nm1].
  unfold parse_res. rewrite Hrender. clear Hrender. unfold xc12_segs_am, cdate_segs, t12_segs.
  assert (Hcase : d_h d = 0 \/ 0 < d_h d < 12) by lia;
  destruct Hcase as [Hc | Hc];
  [ replace (h12 (d_h d)) with 12 by (unfold h12; destruct (d_h d mod 12 =? 0) eqn:E12; lia);
    replace (ampm_txt (d_h d)) with [65; 77] by (unfold ampm_txt; rewrite Hc; reflexivity)
  | replace (h12 (d_h d)) with (d_h d) by (unfold h12; destruct (d_h d mod 12 =? 0) eqn:E12; lia);
    replace (ampm_txt (d_h d)) with [65; 77] by (unfold ampm_txt; replace (d_h d <? 12) with true by lia; reflexivity) ];
  (rewrite timelex_segments2
     by (cbn [app map wf_segs2 hd_error ok_next2 ok_next wf_seg2];
         rewrite ?(mon3_wf _ Hm12), ?(month_wf _ Hm12); cbn [wf_seg];
         rewrite ?digits_n_all_digit, ?digits_n_length, ?nonempty_digits; vm_compute; reflexivity));
  cbn [app map flat_map seg2_toks seg_tok length];
  destruct Hyc as [Hyc | Hyc];
  lrun ltac:(unfold adjust_ampm, dec_gt, dec_ge, dec_lt, dec_le, frac_nonzero; cbn [fst snd existsb];
             wordrw Hm12; rewrite ?convertyear_ge100 by lia; zeq);
  try match goal with |- (if ?b then _ else _) = _ => destruct b end;
  zeq; first [reflexivity | (repeat f_equal; lia)].
Qed.
