(* Facts about seconds-with-fraction tokens SS.f (for the C02 fraction templates). *)
From Coq Require Import ZArith List Bool Lia ZifyBool.
From V Require Import base.Cal gen.ParseTables parse.Lex parse.Prim parse.Ymd parse.Parse parse.Build
                      parse.ParseSpec parse.LexSeg parse.TokFacts.
Import ListNotations.
Open Scope Z_scope.
Ltac Zify.zify_post_hook ::= Z.to_euclidean_division_equations.

Lemma digits6 us : digits_n 6 us =
  [48 + us / 100000 mod 10; 48 + us / 10000 mod 10; 48 + us / 1000 mod 10;
   48 + us / 100 mod 10; 48 + us / 10 mod 10; 48 + us mod 10].
Proof.
  cbn [digits_n app].
  replace (us / 10 / 10 / 10 / 10 / 10) with (us / 100000) by lia.
  replace (us / 10 / 10 / 10 / 10) with (us / 10000) by lia.
  replace (us / 10 / 10 / 10) with (us / 1000) by lia.
  replace (us / 10 / 10) with (us / 100) by lia. reflexivity.
Qed.

Lemma forallb_firstn {A} (f : A -> bool) k : forall l, forallb f l = true -> forallb f (firstn k l) = true.
Proof.
  induction k as [|k IH]; intros l H; [reflexivity|]. destruct l as [|x l]; [reflexivity|].
  cbn [firstn forallb] in *. apply andb_prop in H. destruct H as [H1 H2]. rewrite H1, IH by exact H2. reflexivity.
Qed.

Lemma frac_digits_all_digit k us : all_digit (frac_digits k us) = true.
Proof.
  unfold frac_digits, all_digit. apply forallb_firstn. rewrite forallb_app.
  pose proof (digits_n_all_digit 6 us) as H. unfold all_digit in H. rewrite H. cbn [andb].
  induction k as [|k IH]; cbn [repeat forallb]; [reflexivity|]. rewrite IH. reflexivity.
Qed.

Lemma frac_digits_nonempty k us : nonempty (frac_digits (S k) us) = true.
Proof. unfold frac_digits. rewrite digits6. reflexivity. Qed.

Lemma has_dot_app_dot a b : has_dot (a ++ 46 :: b) = true.
Proof. unfold has_dot. rewrite existsb_app. cbn [existsb]. rewrite orb_true_r. reflexivity. Qed.

Lemma split_dot_app a : forall cur b, all_digit a = true ->
  split_dot cur (a ++ 46 :: b) = (rev cur ++ a, Some b).
Proof.
  induction a as [|c a IH]; intros cur b H; cbn [app split_dot].
  - rewrite app_nil_r. reflexivity.
  - unfold all_digit in H. cbn [forallb] in H. apply andb_prop in H. destruct H as [Hc H].
    rewrite (digit_not46 c Hc). rewrite IH by exact H. cbn [rev]. rewrite <- app_assoc. reflexivity.
Qed.

(* value of the six-character, zero-extended fraction *)
Lemma ljust6_frac k us : (1 <= k <= 9)%nat -> 0 <= us < 1000000 ->
  py_int (ljust6 (frac_digits k us)) = Ok (trunc_us k us).
Proof.
  intros Hk Hus. unfold frac_digits. rewrite digits6.
  assert (D : forall e, 0 <= e <= 9 -> dec_val (48 + e) = e) by (intros; apply dch_val; assumption).
  assert (D0 : dec_val 48 = 0) by reflexivity.
  unfold py_int, ljust6, trunc_us, all_decimal, slen.
  assert (Hc : (k = 1 \/ k = 2 \/ k = 3 \/ k = 4 \/ k = 5 \/ k = 6 \/ k = 7 \/ k = 8 \/ k = 9)%nat) by lia.
  repeat (destruct Hc as [-> | Hc]); try subst k;
  cbn [repeat app firstn forallb int_acc length Nat.leb Nat.sub];
  rewrite ?D by lia; rewrite ?D0;
  repeat match goal with |- context [0 <=? ?x] => replace (0 <=? x) with true by lia end;
  cbn [andb]; change int_max_str_digits with 4300;
  change ((4300 =? 0) || (Z.of_nat 6 <=? 4300)) with true; cbv iota;
  f_equal; cbn [Z.of_nat Pos.of_succ_nat Pos.succ];
  repeat match goal with |- context [10 ^ ?e] => let v := eval vm_compute in (10 ^ e) in change (10 ^ e) with v end;
  lia.
Qed.

Lemma tok_parsems_frac s k us :
  0 <= s < 100 -> (1 <= k <= 9)%nat -> 0 <= us < 1000000 ->
  parsems (digits_n 2 s ++ 46 :: frac_digits k us) = Ok (s, trunc_us k us).
Proof.
  intros Hs Hk Hus. unfold parsems. rewrite has_dot_app_dot.
  rewrite split_dot_app by apply digits_n_all_digit. cbn [rev app].
  rewrite (digits_no_dot (frac_digits k us)) by apply frac_digits_all_digit.
  rewrite (tok_py_int 1 s) by (change (10 ^ Z.of_nat 2) with 100; lia || cbn; lia).
  cbn [bind]. rewrite ljust6_frac by assumption. reflexivity.
Qed.

Lemma trunc_us_range k us : 0 <= us < 1000000 -> 0 <= trunc_us k us <= 999999.
Proof.
  intros H. unfold trunc_us. destruct (6 <=? k)%nat; [lia|].
  assert (Hp : 0 < 10 ^ Z.of_nat (6 - k)) by (apply Z.pow_pos_nonneg; lia).
  pose proof (Z.mul_div_le us _ Hp). pose proof (Z.div_pos us _ (proj1 H) Hp). nia.
Qed.
