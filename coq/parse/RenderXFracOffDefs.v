(* C02 (helper rdalg): ISO date-time with a fraction of k = 1..9 digits (dot or comma) FOLLOWED by a numeric
   UTC offset +HH:MM / +HH: shared definitions and the proof script. *)
From Coq Require Import ZArith List Bool Lia ZifyBool.
From V Require Import base.Cal gen.ParseTables parse.Lex parse.Prim parse.Ymd parse.Parse parse.Build
                      parse.ParseSpec parse.LexSeg parse.TokFacts parse.YearThm parse.RenderTac parse.RenderTac3 parse.RenderIso parse.TokFacts2 parse.RenderOffDefs parse.RenderTac4 parse.FracFacts parse.RenderFrac.
Import ListNotations.
Open Scope Z_scope.
Ltac Zify.zify_post_hook ::= Z.to_euclidean_division_equations.

Local Arguments digits_n : simpl never.
Local Arguments is_float : simpl never.
Local Arguments to_decimal : simpl never.
Local Arguments py_int : simpl never.
Local Arguments py_isdigit : simpl never.
Local Arguments slen : simpl never.
Local Arguments has_dot : simpl never.
Local Arguments find_dot : simpl never.
Local Arguments info_jump : simpl never.
Local Arguments info_weekday : simpl never.
Local Arguments info_month : simpl never.
Local Arguments info_hms : simpl never.
Local Arguments info_ampm : simpl never.
Local Arguments info_pertain : simpl never.
Local Arguments info_utczone : simpl never.
Local Arguments info_tzoffset : simpl never.
Local Arguments is1 : simpl never.
Local Arguments str_eqb : simpl never.
Local Arguments could_be_tzname : simpl never.
Local Arguments parsems : simpl never.
Local Arguments all_digit : simpl never.
Local Arguments convertyear : simpl never.
Local Arguments dt_replace : simpl never.
Local Arguments valid_dt : simpl never.
Local Arguments monthlen : simpl never.
Local Arguments Z.eqb !x !y.
Local Arguments Z.ltb !x !y.
Local Arguments Z.leb !x !y.
Local Arguments Z.add !x !y.
Local Arguments Z.mul !x !y.
Local Arguments Z.sub !m !n.
Local Arguments Z.opp !x.

Local Arguments firstn : simpl never.
Local Arguments skipn : simpl never.

Local Arguments frac_digits : simpl never.
Local Arguments trunc_us : simpl never.

Definition fzsegs_of (j : joiner) (k : nat) (comma : bool) (ofm : oform) (d : dt7) (o : offs) : list seg :=
  date_segs DIso d ++ join_segs j ++ ftime_segs k comma d ++ off_segs ofm o.

