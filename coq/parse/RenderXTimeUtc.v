(* C02 (helper rdalg): time-only forms HH:MM / HH:MM:SS followed by Z / " UTC" / " GMT" (date from the default). *)
From Coq Require Import ZArith List Bool Lia ZifyBool.
From V Require Import base.Cal gen.ParseTables parse.Lex parse.Prim parse.Ymd parse.Parse parse.Build
                      parse.ParseSpec parse.LexSeg parse.TokFacts parse.YearThm parse.RenderTac parse.RenderIso parse.RenderUtcDefs parse.RenderTac3 parse.RenderTac4.
Import ListNotations.
Open Scope Z_scope.
Ltac Zify.zify_post_hook ::= Z.to_euclidean_division_equations.

Local Arguments digits_n : simpl never.
Local Arguments is_float : simpl never.
Local Arguments to_decimal : simpl never.
Local Arguments py_int : simpl never.
Local Arguments py_isdigit : simpl never.
Local Arguments slen : simpl never.
Local Arguments has_dot : simpl never.
Local Arguments find_dot : simpl never.
Local Arguments info_jump : simpl never.
Local Arguments info_weekday : simpl never.
Local Arguments info_month : simpl never.
Local Arguments info_hms : simpl never.
Local Arguments info_ampm : simpl never.
Local Arguments info_pertain : simpl never.
Local Arguments info_utczone : simpl never.
Local Arguments info_tzoffset : simpl never.
Local Arguments is1 : simpl never.
Local Arguments str_eqb : simpl never.
Local Arguments could_be_tzname : simpl never.
Local Arguments parsems : simpl never.
Local Arguments all_digit : simpl never.
Local Arguments convertyear : simpl never.
Local Arguments dt_replace : simpl never.
Local Arguments valid_dt : simpl never.
Local Arguments monthlen : simpl never.
Local Arguments Z.eqb !x !y.
Local Arguments Z.ltb !x !y.
Local Arguments Z.leb !x !y.
Local Arguments Z.add !x !y.
Local Arguments Z.mul !x !y.
Local Arguments Z.sub !m !n.
Local Arguments Z.opp !x.



Definition tusegs (tf : tform) (ofm : oform) (d : dt7) : list seg := time_segs tf d ++ utc_segs ofm.

Lemma parse_render_time_utc_OZ : forall tf d o df cy loc n0 n1 yf ig,
  In tf plain_tforms ->
  valid_dt d = true -> valid_dt df = true ->
  smem [85; 84; 67] loc = false -> smem [71; 77; 84] loc = false ->
  parse (opts_df0 yf ig df cy loc n0 n1) (render (TDT DNone JNone tf OZ) d o)
  = OutOk (expected_dt (TDT DNone JNone tf OZ) d df) (if ig then ZNaive else ZUTC) 0 false [].
Proof.
  intros tf d o df cy loc n0 n1 yf ig Htf Hd Hdf Hl1 Hl2.
  destruct (valid_dt_ranges d Hd) as (Ry & Rmo & Rd & Rh & Rmi & Rs & Rus).
  assert (Hdfv : 1 <= d_d df <= dim (d_y df) (d_mo df) /\ 1 <= d_mo df <= 12).
  { unfold valid_dt, valid_ymd in Hdf. lia. }
  unfold smem in Hl1, Hl2.
  unfold plain_tforms in *. cbn [In] in Htf.
  destruct Htf as [<- | [<- | []]];
  match goal with |- parse _ (render (TDT DNone JNone ?tf OZ) d o) = _ =>
    assert (Hrender : render (TDT DNone JNone tf OZ) d o = concat (map seg_str (tusegs tf OZ d)))
      by (unfold render, render_date, render_time, render_off, join_txt, tusegs, time_segs, utc_segs;
          cbn [map concat seg_str app]; repeat (progress (repeat rewrite <- app_assoc; cbn [app]));
          rewrite ?app_nil_r; reflexivity);
    assert (Hwf : wf_segs (tusegs tf OZ d) = true)
      by (unfold tusegs, time_segs, utc_segs; cbn [app wf_segs wf_seg hd_error ok_next];
          rewrite ?digits_n_all_digit, ?digits_n_length, ?nonempty_digits; vm_compute; reflexivity)
  end;
  unfold parse, opts_df0;
  cbn [o_fuzzy o_fwt o_yearfirst o_info_yearfirst o_dayfirst o_info_dayfirst o_cur_year oflag o_default
       o_ignoretz o_tzinfos o_local o_nm0 o_nm1];
  unfold parse_res; rewrite Hrender, timelex_segments by exact Hwf; clear Hrender Hwf;
  unfold tusegs, time_segs, utc_segs; cbn [app map seg_tok length];
  lrun ltac:(rewrite ?Hl1, ?Hl2; unfold parse_hms, assign_hms, parse_min_sec, frac_nonzero, dec_int;
             cbn [fst snd existsb]; unfold monthlen);
  try match goal with |- (if ?b then _ else _) = _ => destruct b end;
  first [reflexivity | (repeat f_equal; lia)].
Qed.

Lemma parse_render_time_utc_OUTC : forall tf d o df cy loc n0 n1 yf ig,
  In tf plain_tforms ->
  valid_dt d = true -> valid_dt df = true ->
  smem [85; 84; 67] loc = false -> smem [71; 77; 84] loc = false ->
  parse (opts_df0 yf ig df cy loc n0 n1) (render (TDT DNone JNone tf OUTC) d o)
  = OutOk (expected_dt (TDT DNone JNone tf OUTC) d df) (if ig then ZNaive else ZUTC) 0 false [].
Proof.
  intros tf d o df cy loc n0 n1 yf ig Htf Hd Hdf Hl1 Hl2.
  destruct (valid_dt_ranges d Hd) as (Ry & Rmo & Rd & Rh & Rmi & Rs & Rus).
  assert (Hdfv : 1 <= d_d df <= dim (d_y df) (d_mo df) /\ 1 <= d_mo df <= 12).
  { unfold valid_dt, valid_ymd in Hdf. lia. }
  unfold smem in Hl1, Hl2.
  unfold plain_tforms in *. cbn [In] in Htf.
  destruct Htf as [<- | [<- | []]];
  match goal with |- parse _ (render (TDT DNone JNone ?tf OUTC) d o) = _ =>
    assert (Hrender : render (TDT DNone JNone tf OUTC) d o = concat (map seg_str (tusegs tf OUTC d)))
      by (unfold render, render_date, render_time, render_off, join_txt, tusegs, time_segs, utc_segs;
          cbn [map concat seg_str app]; repeat (progress (repeat rewrite <- app_assoc; cbn [app]));
          rewrite ?app_nil_r; reflexivity);
    assert (Hwf : wf_segs (tusegs tf OUTC d) = true)
      by (unfold tusegs, time_segs, utc_segs; cbn [app wf_segs wf_seg hd_error ok_next];
          rewrite ?digits_n_all_digit, ?digits_n_length, ?nonempty_digits; vm_compute; reflexivity)
  end;
  unfold parse, opts_df0;
  cbn [o_fuzzy o_fwt o_yearfirst o_info_yearfirst o_dayfirst o_info_dayfirst o_cur_year oflag o_default
       o_ignoretz o_tzinfos o_local o_nm0 o_nm1];
  unfold parse_res; rewrite Hrender, timelex_segments by exact Hwf; clear Hrender Hwf;
  unfold tusegs, time_segs, utc_segs; cbn [app map seg_tok length];
  lrun ltac:(rewrite ?Hl1, ?Hl2; unfold parse_hms, assign_hms, parse_min_sec, frac_nonzero, dec_int;
             cbn [fst snd existsb]; unfold monthlen);
  try match goal with |- (if ?b then _ else _) = _ => destruct b end;
  first [reflexivity | (repeat f_equal; lia)].
Qed.

Lemma parse_render_time_utc_OGMT : forall tf d o df cy loc n0 n1 yf ig,
  In tf plain_tforms ->
  valid_dt d = true -> valid_dt df = true ->
  smem [85; 84; 67] loc = false -> smem [71; 77; 84] loc = false ->
  parse (opts_df0 yf ig df cy loc n0 n1) (render (TDT DNone JNone tf OGMT) d o)
  = OutOk (expected_dt (TDT DNone JNone tf OGMT) d df) (if ig then ZNaive else ZUTC) 0 false [].
Proof.
  intros tf d o df cy loc n0 n1 yf ig Htf Hd Hdf Hl1 Hl2.
  destruct (valid_dt_ranges d Hd) as (Ry & Rmo & Rd & Rh & Rmi & Rs & Rus).
  assert (Hdfv : 1 <= d_d df <= dim (d_y df) (d_mo df) /\ 1 <= d_mo df <= 12).
  { unfold valid_dt, valid_ymd in Hdf. lia. }
  unfold smem in Hl1, Hl2.
  unfold plain_tforms in *. cbn [In] in Htf.
  destruct Htf as [<- | [<- | []]];
  match goal with |- parse _ (render (TDT DNone JNone ?tf OGMT) d o) = _ =>
    assert (Hrender : render (TDT DNone JNone tf OGMT) d o = concat (map seg_str (tusegs tf OGMT d)))
      by (unfold render, render_date, render_time, render_off, join_txt, tusegs, time_segs, utc_segs;
          cbn [map concat seg_str app]; repeat (progress (repeat rewrite <- app_assoc; cbn [app]));
          rewrite ?app_nil_r; reflexivity);
    assert (Hwf : wf_segs (tusegs tf OGMT d) = true)
      by (unfold tusegs, time_segs, utc_segs; cbn [app wf_segs wf_seg hd_error ok_next];
          rewrite ?digits_n_all_digit, ?digits_n_length, ?nonempty_digits; vm_compute; reflexivity)
  end;
  unfold parse, opts_df0;
  cbn [o_fuzzy o_fwt o_yearfirst o_info_yearfirst o_dayfirst o_info_dayfirst o_cur_year oflag o_default
       o_ignoretz o_tzinfos o_local o_nm0 o_nm1];
  unfold parse_res; rewrite Hrender, timelex_segments by exact Hwf; clear Hrender Hwf;
  unfold tusegs, time_segs, utc_segs; cbn [app map seg_tok length];
  lrun ltac:(rewrite ?Hl1, ?Hl2; unfold parse_hms, assign_hms, parse_min_sec, frac_nonzero, dec_int;
             cbn [fst snd existsb]; unfold monthlen);
  try match goal with |- (if ?b then _ else _) = _ => destruct b end;
  first [reflexivity | (repeat f_equal; lia)].
Qed.
