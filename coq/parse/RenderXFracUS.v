(* C02 (helper rdalg): numeric non-ISO dates followed by HH:MM:SS{.,}f, f = 1..9 digits. *)
From Coq Require Import ZArith List Bool Lia ZifyBool.
From V Require Import base.Cal gen.ParseTables parse.Lex parse.Prim parse.Ymd parse.Parse parse.Build
                      parse.ParseSpec parse.LexSeg parse.TokFacts parse.YearThm parse.RenderTac parse.RenderTac3 parse.RenderIso parse.FracFacts parse.RenderFrac.
Import ListNotations.
Open Scope Z_scope.
Ltac Zify.zify_post_hook ::= Z.to_euclidean_division_equations.

Local Arguments digits_n : simpl never.
Local Arguments is_float : simpl never.
Local Arguments to_decimal : simpl never.
Local Arguments py_int : simpl never.
Local Arguments py_isdigit : simpl never.
Local Arguments slen : simpl never.
Local Arguments has_dot : simpl never.
Local Arguments find_dot : simpl never.
Local Arguments info_jump : simpl never.
Local Arguments info_weekday : simpl never.
Local Arguments info_month : simpl never.
Local Arguments info_hms : simpl never.
Local Arguments info_ampm : simpl never.
Local Arguments info_pertain : simpl never.
Local Arguments info_utczone : simpl never.
Local Arguments info_tzoffset : simpl never.
Local Arguments is1 : simpl never.
Local Arguments str_eqb : simpl never.
Local Arguments could_be_tzname : simpl never.
Local Arguments parsems : simpl never.
Local Arguments all_digit : simpl never.
Local Arguments convertyear : simpl never.
Local Arguments dt_replace : simpl never.
Local Arguments valid_dt : simpl never.
Local Arguments monthlen : simpl never.
Local Arguments Z.eqb !x !y.
Local Arguments Z.ltb !x !y.
Local Arguments Z.leb !x !y.
Local Arguments Z.add !x !y.
Local Arguments Z.mul !x !y.
Local Arguments Z.sub !m !n.
Local Arguments Z.opp !x.

Local Arguments frac_digits : simpl never.
Local Arguments trunc_us : simpl never.


Definition fdsegs_DUS (j : joiner) (k : nat) (comma : bool) (d : dt7) : list seg :=
  date_segs DUS d ++ join_segs j ++ ftime_segs k comma d.

(* MM/DD/YYYY{T, space}HH:MM:SS{.,}f (yearfirst = False) *)
Lemma parse_render_frac_DUS : forall j k comma d o df cy loc n0 n1 ig,
  In j plain_joiners -> (1 <= k <= 9)%nat ->
  valid_dt d = true -> valid_dt df = true ->
  parse (opts_df0 false ig df cy loc n0 n1) (render (TDT DUS j (TFrac k comma) ONone) d o)
  = OutOk (expected_dt (TDT DUS j (TFrac k comma) ONone) d df) ZNaive 0 false [].
Proof.
  intros j k comma d o df cy loc n0 n1 ig Hj Hk Hd Hdf.
  destruct (valid_dt_ranges d Hd) as (Ry & Rmo & Rd & Rh & Rmi & Rs & Rus).
  assert (Hm12 : 1 <= d_mo d <= 12 /\ 1 <= d_d d <= 31).
  { unfold valid_dt, valid_ymd in Hd. pose proof (dim_pos (d_y d) (d_mo d)). lia. }
  destruct Hm12 as [Hm12 Hd31].
  assert (Hs100 : 0 <= d_s d < 100) by (change (10 ^ Z.of_nat 2) with 100 in Rs; exact Rs).
  assert (Hus : 0 <= d_us d < 1000000) by (change (10 ^ Z.of_nat 6) with 1000000 in Rus; exact Rus).
  assert (Hkne : nonempty (frac_digits k (d_us d)) = true).
  { destruct k as [|k']; [lia|]. apply frac_digits_nonempty. }
  unfold plain_joiners in Hj. cbn [In] in Hj.
  destruct Hj as [<- | [<- | []]]; destruct comma;
  match goal with |- parse _ (render (TDT DUS ?j (TFrac ?k ?c) ONone) d o) = _ =>
    assert (Hrender : render (TDT DUS j (TFrac k c) ONone) d o = concat (map seg_str (fdsegs_DUS j k c d)))
      by (unfold render, render_date, render_time, render_off, join_txt, fdsegs_DUS, date_segs, join_segs, ftime_segs;
          cbn [map concat seg_str app]; repeat (progress (repeat rewrite <- app_assoc; cbn [app]));
          rewrite ?app_nil_r; reflexivity);
    assert (Hwf : wf_segs (fdsegs_DUS j k c d) = true)
      by (unfold fdsegs_DUS, date_segs, join_segs, ftime_segs; cbn [app wf_segs wf_seg hd_error ok_next];
          rewrite ?digits_n_all_digit, ?digits_n_length, ?nonempty_digits, ?frac_digits_all_digit, ?Hkne;
          vm_compute; reflexivity)
  end;
  unfold parse, opts_df0;
  cbn [o_fuzzy o_fwt o_yearfirst o_info_yearfirst o_dayfirst o_info_dayfirst o_cur_year oflag o_default
       o_ignoretz o_tzinfos o_local o_nm0 o_nm1];
  unfold parse_res; rewrite Hrender, timelex_segments by exact Hwf; clear Hrender Hwf;
  unfold fdsegs_DUS, date_segs, join_segs, ftime_segs; cbn [app map seg_tok];
  pose proof (trunc_us_range k _ Hus) as Htr;
  repeat (progress (sym2; rewrite ?tok_parsems_frac by (first [assumption | lia])));
  try match goal with |- (if ?b then _ else _) = _ => destruct b end;
  reflexivity.
Qed.
