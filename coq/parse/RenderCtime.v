(* C02: parse_render theorem for the ctime() form. *)
From Coq Require Import ZArith List Bool Lia ZifyBool.
From V Require Import base.Cal gen.ParseTables parse.Lex parse.Prim parse.Ymd parse.Parse parse.Build
                      parse.ParseSpec parse.LexSeg parse.TokFacts parse.YearThm parse.RenderTac parse.RenderTac3 parse.RenderIso parse.WordFacts parse.LexSeg2 parse.RenderCommaDefs parse.RenderTac4.
Import ListNotations.
Open Scope Z_scope.
Ltac Zify.zify_post_hook ::= Z.to_euclidean_division_equations.

Local Arguments digits_n : simpl never.
Local Arguments is_float : simpl never.
Local Arguments to_decimal : simpl never.
Local Arguments py_int : simpl never.
Local Arguments py_isdigit : simpl never.
Local Arguments slen : simpl never.
Local Arguments has_dot : simpl never.
Local Arguments find_dot : simpl never.
Local Arguments info_jump : simpl never.
Local Arguments info_weekday : simpl never.
Local Arguments info_month : simpl never.
Local Arguments info_hms : simpl never.
Local Arguments info_ampm : simpl never.
Local Arguments info_pertain : simpl never.
Local Arguments info_utczone : simpl never.
Local Arguments info_tzoffset : simpl never.
Local Arguments is1 : simpl never.
Local Arguments str_eqb : simpl never.
Local Arguments could_be_tzname : simpl never.
Local Arguments parsems : simpl never.
Local Arguments all_digit : simpl never.
Local Arguments convertyear : simpl never.
Local Arguments dt_replace : simpl never.
Local Arguments valid_dt : simpl never.
Local Arguments monthlen : simpl never.
Local Arguments Z.eqb !x !y.
Local Arguments Z.ltb !x !y.
Local Arguments Z.leb !x !y.
Local Arguments Z.add !x !y.
Local Arguments Z.mul !x !y.
Local Arguments Z.sub !m !n.
Local Arguments Z.opp !x.

Local Arguments mon3 : simpl never.
Local Arguments month_name : simpl never.
Local Arguments wd3 : simpl never.

Definition ctime_segs (d : dt7) : list seg :=
  [SWord (wd3 (weekday (d_y d) (d_mo d) (d_d d))); SSep 32; SWord (mon3 (d_mo d)); SSep 32]
  ++ (if d_d d <? 10 then [SSep 32; SDig (digits_n 1 (d_d d))] else [SDig (digits_n 2 (d_d d))])
  ++ [SSep 32; SDig (digits_n 2 (d_h d)); SSep 58; SDig (digits_n 2 (d_mi d)); SSep 58; SDig (digits_n 2 (d_s d));
      SSep 32; SDig (digits_n 4 (d_y d))].

Lemma digit1 n : 0 <= n < 10 -> [48 + n] = digits_n 1 n.
Proof. intros H. change (digits_n 1 n) with ([] ++ [48 + n mod 10]). cbn [app]. rewrite Z.mod_small by lia. reflexivity. Qed.

Lemma tok_is1_digit1 n c : c < 48 \/ 57 < c -> is1 (digits_n 1 n) c = false.
Proof. intros H. change (digits_n 1 n) with ([] ++ [48 + n mod 10]). cbn [app]. unfold is1. pose proof (Z.mod_pos_bound n 10). lia. Qed.

Lemma ctime_render d o : 1 <= d_d d -> render TCtime d o = concat (map seg_str (ctime_segs d)).
Proof.
  intros H1. unfold render, render_time, space_pad2, ctime_segs.
  destruct (d_d d <? 10) eqn:E.
  - rewrite <- (digit1 (d_d d)) by lia.
    cbn [map concat seg_str app]. repeat (progress (rewrite <- ?app_assoc, ?app_nil_r; cbn [app])). reflexivity.
  - cbn [map concat seg_str app]. repeat (progress (rewrite <- ?app_assoc, ?app_nil_r; cbn [app])). reflexivity.
Qed.

Lemma day_nonzero v : 1 <= v -> match v with 0 => true | _ => false end = false.
Proof. destruct v; [lia | reflexivity | reflexivity]. Qed.

Ltac wdrw Hw :=
  rewrite ?(wd3_float _ Hw), ?(wd3_weekday _ Hw), ?(wd3_hms _ Hw), ?(wd3_ampm _ Hw), ?(wd3_jump _ Hw).


Lemma ctime_small_gt : forall d o df cy loc n0 n1 yf ig,
  valid_dt d = true -> valid_dt df = true -> 100 < d_y d -> d_d d < 10 ->
  parse (opts_df0 yf ig df cy loc n0 n1) (render TCtime d o)
  = OutOk (expected_dt TCtime d df) ZNaive 0 false [].
Proof.
  intros d o df cy loc n0 n1 yf ig Hd Hdf Hyc Hd10.
  destruct (valid_dt_ranges d Hd) as (Ry & Rmo & Rd & Rh & Rmi & Rs & Rus).
  assert (Hm12 : 1 <= d_mo d <= 12 /\ 1 <= d_d d <= 31).
  { unfold valid_dt, valid_ymd in Hd. pose proof (dim_pos (d_y d) (d_mo d)). lia. }
  destruct Hm12 as [Hm12 Hd31].
  assert (Hw : 0 <= weekday (d_y d) (d_mo d) (d_d d) <= 6) by (unfold weekday; apply weekday_of_ord_range).
  unfold parse, opts_df0;
  cbn [o_fuzzy o_fwt o_yearfirst o_info_yearfirst o_dayfirst o_info_dayfirst o_cur_year oflag o_default
       o_ignoretz o_tzinfos o_local o_nm0 o_nm1].
  unfold parse_res. rewrite ctime_render by lia.
  assert (Hwf : wf_segs (ctime_segs d) = true).
  { unfold ctime_segs. destruct (d_d d <? 10); cbn [app wf_segs hd_error ok_next];
    rewrite ?(mon3_wf _ Hm12), ?(wd3_wf _ Hw); cbn [wf_seg];
    rewrite ?digits_n_all_digit, ?digits_n_length, ?nonempty_digits; vm_compute; reflexivity. }
  rewrite timelex_segments by exact Hwf. clear Hwf.
  unfold ctime_segs. set (wdn := weekday (d_y d) (d_mo d) (d_d d)) in *.
  replace (d_d d <? 10) with true by lia. cbn [app map seg_tok length].
  assert (Rd' : 0 <= d_d d < 10 ^ Z.of_nat 1) by (change (10 ^ Z.of_nat 1) with 10; lia).
  lrun ltac:(unfold dec_gt, dec_ge, dec_lt, dec_le, frac_nonzero; cbn [fst snd existsb];
             wordrw Hm12; wdrw Hw; rewrite ?tok_is1_digit1 by lia; rewrite ?convertyear_ge100 by lia).
  try (match goal with |- context [if ?c then add_weekday _ _ else _] =>
         replace c with false by (clear - Hd31; destruct (d_d d); [exfalso; lia | reflexivity | reflexivity]) end).
  repeat (progress sym2).
  try match goal with |- (if ?b then _ else _) = _ => destruct b end.
  all: reflexivity.
Qed.

Lemma ctime_small_eq : forall d o df cy loc n0 n1 yf ig,
  valid_dt d = true -> valid_dt df = true -> d_y d = 100 -> d_d d < 10 ->
  parse (opts_df0 yf ig df cy loc n0 n1) (render TCtime d o)
  = OutOk (expected_dt TCtime d df) ZNaive 0 false [].
Proof.
  intros d o df cy loc n0 n1 yf ig Hd Hdf Hyc Hd10.
  destruct (valid_dt_ranges d Hd) as (Ry & Rmo & Rd & Rh & Rmi & Rs & Rus).
  assert (Hm12 : 1 <= d_mo d <= 12 /\ 1 <= d_d d <= 31).
  { unfold valid_dt, valid_ymd in Hd. pose proof (dim_pos (d_y d) (d_mo d)). lia. }
  destruct Hm12 as [Hm12 Hd31].
  assert (Hw : 0 <= weekday (d_y d) (d_mo d) (d_d d) <= 6) by (unfold weekday; apply weekday_of_ord_range).
  unfold parse, opts_df0;
  cbn [o_fuzzy o_fwt o_yearfirst o_info_yearfirst o_dayfirst o_info_dayfirst o_cur_year oflag o_default
       o_ignoretz o_tzinfos o_local o_nm0 o_nm1].
  unfold parse_res. rewrite ctime_render by lia.
  assert (Hwf : wf_segs (ctime_segs d) = true).
  { unfold ctime_segs. destruct (d_d d <? 10); cbn [app wf_segs hd_error ok_next];
    rewrite ?(mon3_wf _ Hm12), ?(wd3_wf _ Hw); cbn [wf_seg];
    rewrite ?digits_n_all_digit, ?digits_n_length, ?nonempty_digits; vm_compute; reflexivity. }
  rewrite timelex_segments by exact Hwf. clear Hwf.
  unfold ctime_segs. set (wdn := weekday (d_y d) (d_mo d) (d_d d)) in *.
  replace (d_d d <? 10) with true by lia. cbn [app map seg_tok length].
  assert (Rd' : 0 <= d_d d < 10 ^ Z.of_nat 1) by (change (10 ^ Z.of_nat 1) with 10; lia).
  lrun ltac:(unfold dec_gt, dec_ge, dec_lt, dec_le, frac_nonzero; cbn [fst snd existsb];
             wordrw Hm12; wdrw Hw; rewrite ?tok_is1_digit1 by lia; rewrite ?convertyear_ge100 by lia).
  try (match goal with |- context [if ?c then add_weekday _ _ else _] =>
         replace c with false by (clear - Hd31; destruct (d_d d); [exfalso; lia | reflexivity | reflexivity]) end).
  repeat (progress sym2).
  try match goal with |- (if ?b then _ else _) = _ => destruct b end.
  all: reflexivity.
Qed.

Lemma ctime_big_gt : forall d o df cy loc n0 n1 yf ig,
  valid_dt d = true -> valid_dt df = true -> 100 < d_y d -> 10 <= d_d d ->
  parse (opts_df0 yf ig df cy loc n0 n1) (render TCtime d o)
  = OutOk (expected_dt TCtime d df) ZNaive 0 false [].
Proof.
  intros d o df cy loc n0 n1 yf ig Hd Hdf Hyc Hd10.
  destruct (valid_dt_ranges d Hd) as (Ry & Rmo & Rd & Rh & Rmi & Rs & Rus).
  assert (Hm12 : 1 <= d_mo d <= 12 /\ 1 <= d_d d <= 31).
  { unfold valid_dt, valid_ymd in Hd. pose proof (dim_pos (d_y d) (d_mo d)). lia. }
  destruct Hm12 as [Hm12 Hd31].
  assert (Hw : 0 <= weekday (d_y d) (d_mo d) (d_d d) <= 6) by (unfold weekday; apply weekday_of_ord_range).
  unfold parse, opts_df0;
  cbn [o_fuzzy o_fwt o_yearfirst o_info_yearfirst o_dayfirst o_info_dayfirst o_cur_year oflag o_default
       o_ignoretz o_tzinfos o_local o_nm0 o_nm1].
  unfold parse_res. rewrite ctime_render by lia.
  assert (Hwf : wf_segs (ctime_segs d) = true).
  { unfold ctime_segs. destruct (d_d d <? 10); cbn [app wf_segs hd_error ok_next];
    rewrite ?(mon3_wf _ Hm12), ?(wd3_wf _ Hw); cbn [wf_seg];
    rewrite ?digits_n_all_digit, ?digits_n_length, ?nonempty_digits; vm_compute; reflexivity. }
  rewrite timelex_segments by exact Hwf. clear Hwf.
  unfold ctime_segs. set (wdn := weekday (d_y d) (d_mo d) (d_d d)) in *.
  replace (d_d d <? 10) with false by lia. cbn [app map seg_tok length].
  lrun ltac:(unfold dec_gt, dec_ge, dec_lt, dec_le, frac_nonzero; cbn [fst snd existsb];
             wordrw Hm12; wdrw Hw; rewrite ?tok_is1_digit1 by lia; rewrite ?convertyear_ge100 by lia).
  try (match goal with |- context [if ?c then add_weekday _ _ else _] =>
         replace c with false by (clear - Hd31; destruct (d_d d); [exfalso; lia | reflexivity | reflexivity]) end).
  repeat (progress sym2).
  try match goal with |- (if ?b then _ else _) = _ => destruct b end.
  all: reflexivity.
Qed.

Lemma ctime_big_eq : forall d o df cy loc n0 n1 yf ig,
  valid_dt d = true -> valid_dt df = true -> d_y d = 100 -> 10 <= d_d d ->
  parse (opts_df0 yf ig df cy loc n0 n1) (render TCtime d o)
  = OutOk (expected_dt TCtime d df) ZNaive 0 false [].
Proof.
  intros d o df cy loc n0 n1 yf ig Hd Hdf Hyc Hd10.
  destruct (valid_dt_ranges d Hd) as (Ry & Rmo & Rd & Rh & Rmi & Rs & Rus).
  assert (Hm12 : 1 <= d_mo d <= 12 /\ 1 <= d_d d <= 31).
  { unfold valid_dt, valid_ymd in Hd. pose proof (dim_pos (d_y d) (d_mo d)). lia. }
  destruct Hm12 as [Hm12 Hd31].
  assert (Hw : 0 <= weekday (d_y d) (d_mo d) (d_d d) <= 6) by (unfold weekday; apply weekday_of_ord_range).
  unfold parse, opts_df0;
  cbn [o_fuzzy o_fwt o_yearfirst o_info_yearfirst o_dayfirst o_info_dayfirst o_cur_year oflag o_default
       o_ignoretz o_tzinfos o_local o_nm0 o_nm1].
  unfold parse_res. rewrite ctime_render by lia.
  assert (Hwf : wf_segs (ctime_segs d) = true).
  { unfold ctime_segs. destruct (d_d d <? 10); cbn [app wf_segs hd_error ok_next];
    rewrite ?(mon3_wf _ Hm12), ?(wd3_wf _ Hw); cbn [wf_seg];
    rewrite ?digits_n_all_digit, ?digits_n_length, ?nonempty_digits; vm_compute; reflexivity. }
  rewrite timelex_segments by exact Hwf. clear Hwf.
  unfold ctime_segs. set (wdn := weekday (d_y d) (d_mo d) (d_d d)) in *.
  replace (d_d d <? 10) with false by lia. cbn [app map seg_tok length].
  lrun ltac:(unfold dec_gt, dec_ge, dec_lt, dec_le, frac_nonzero; cbn [fst snd existsb];
             wordrw Hm12; wdrw Hw; rewrite ?tok_is1_digit1 by lia; rewrite ?convertyear_ge100 by lia).
  try (match goal with |- context [if ?c then add_weekday _ _ else _] =>
         replace c with false by (clear - Hd31; destruct (d_d d); [exfalso; lia | reflexivity | reflexivity]) end).
  repeat (progress sym2).
  try match goal with |- (if ?b then _ else _) = _ => destruct b end.
  all: reflexivity.
Qed.

(* ctime(): "Thu Sep 25 10:36:28 2003" / "Fri Sep  5 10:36:28 2003" (day space-padded); year >= 100 *)
Theorem parse_render_ctime_lemma : forall d o df cy loc n0 n1 yf ig,
  valid_dt d = true -> valid_dt df = true -> 100 <= d_y d ->
  parse (opts_df0 yf ig df cy loc n0 n1) (render TCtime d o)
  = OutOk (expected_dt TCtime d df) ZNaive 0 false [].
Proof.
  intros d o df cy loc n0 n1 yf ig Hd Hdf Hy.
  destruct (Z_lt_le_dec (d_d d) 10); destruct (Z.eq_dec (d_y d) 100).
  - apply ctime_small_eq; assumption.
  - apply ctime_small_gt; try assumption; lia.
  - apply ctime_big_eq; assumption.
  - apply ctime_big_gt; try assumption; lia.
Qed.
