(* C02: family theorems for numeric UTC offsets (+HH:MM, +HH, +HHMM, either sign) after non-ISO
   date-times: DD Mon YYYY / DD Month YYYY (year >= 100), MM/DD/YYYY (yearfirst = False),
   YYYY/MM/DD.  Collects the per-case lemmas of RenderXOffN_*.v / RenderXOffD_*.v (rd builder). *)
From Coq Require Import ZArith List Bool.
From V Require Import base.Cal parse.Lex parse.Prim parse.Parse parse.Build parse.ParseSpec parse.RenderIso parse.RenderOffDefs.
From V Require Import parse.RenderXOffN_DDMonY_THM_OHH_MM parse.RenderXOffN_DDMonY_THM_OHH parse.RenderXOffN_DDMonY_THM_OHHMM parse.RenderXOffN_DDMonY_THMS_OHH_MM parse.RenderXOffN_DDMonY_THMS_OHH parse.RenderXOffN_DDMonY_THMS_OHHMM parse.RenderXOffN_DDMonthY_THM_OHH_MM parse.RenderXOffN_DDMonthY_THM_OHH parse.RenderXOffN_DDMonthY_THM_OHHMM parse.RenderXOffN_DDMonthY_THMS_OHH_MM parse.RenderXOffN_DDMonthY_THMS_OHH parse.RenderXOffN_DDMonthY_THMS_OHHMM parse.RenderXOffD_DUS_JSpace_THM_OHH_MM parse.RenderXOffD_DUS_JSpace_THM_OHH parse.RenderXOffD_DUS_JSpace_THM_OHHMM parse.RenderXOffD_DUS_JSpace_THMS_OHH_MM parse.RenderXOffD_DUS_JSpace_THMS_OHH parse.RenderXOffD_DUS_JSpace_THMS_OHHMM parse.RenderXOffD_DUS_JT_THM_OHH_MM parse.RenderXOffD_DUS_JT_THM_OHH parse.RenderXOffD_DUS_JT_THM_OHHMM parse.RenderXOffD_DUS_JT_THMS_OHH_MM parse.RenderXOffD_DUS_JT_THMS_OHH parse.RenderXOffD_DUS_JT_THMS_OHHMM parse.RenderXOffD_DSlashYMD_JSpace_THM_OHH_MM parse.RenderXOffD_DSlashYMD_JSpace_THM_OHH parse.RenderXOffD_DSlashYMD_JSpace_THM_OHHMM parse.RenderXOffD_DSlashYMD_JSpace_THMS_OHH_MM parse.RenderXOffD_DSlashYMD_JSpace_THMS_OHH parse.RenderXOffD_DSlashYMD_JSpace_THMS_OHHMM.
Import ListNotations.
Open Scope Z_scope.

Definition x_oforms : list oform := [OHH_MM; OHH; OHHMM].
Definition x_tforms : list tform := [THM; THMS].
Definition x_name_dforms : list dform := [DDMonY; DDMonthY].

Definition zone_expected (t : template) (o : offs) (ig : bool) : zone :=
  if ig then ZNaive else match expected_off t o with Some v => zone_of_off v | None => ZNaive end.

(* 12 templates x 2 signs: "25 Sep 2003 10:49:41 -03:00", "25 September 2003 10:49+0300", ... ; guard
   100 <= year (years 1..99: open finding F-C02-padyear) *)
Theorem parse_render_name_offset_lemma : forall f tf ofm d o df cy loc n0 n1 yf ig,
  In f x_name_dforms -> In tf x_tforms -> In ofm x_oforms ->
  valid_dt d = true -> valid_dt df = true -> 100 <= d_y d -> wf_off o = true -> smem utc_name loc = false ->
  parse (opts_df0 yf ig df cy loc n0 n1) (render (TDT f JSpace tf ofm) d o)
  = OutOk (expected_dt (TDT f JSpace tf ofm) d df) (zone_expected (TDT f JSpace tf ofm) o ig) 0 false [].
Proof.
  intros f tf ofm d o df cy loc n0 n1 yf ig Hf Htf Hofm Hd Hdf Hy Ho Hloc.
  unfold x_name_dforms, x_tforms, x_oforms in *. cbn [In] in Hf, Htf, Hofm. unfold zone_expected.
  destruct Hf as [<- | [<- | []]]; destruct Htf as [<- | [<- | []]]; destruct Hofm as [<- | [<- | [<- | []]]].
  - exact (parse_render_x_DDMonY_THM_OHH_MM d o df cy loc n0 n1 yf ig Hd Hdf Hy Ho Hloc).
  - exact (parse_render_x_DDMonY_THM_OHH d o df cy loc n0 n1 yf ig Hd Hdf Hy Ho Hloc).
  - exact (parse_render_x_DDMonY_THM_OHHMM d o df cy loc n0 n1 yf ig Hd Hdf Hy Ho Hloc).
  - exact (parse_render_x_DDMonY_THMS_OHH_MM d o df cy loc n0 n1 yf ig Hd Hdf Hy Ho Hloc).
  - exact (parse_render_x_DDMonY_THMS_OHH d o df cy loc n0 n1 yf ig Hd Hdf Hy Ho Hloc).
  - exact (parse_render_x_DDMonY_THMS_OHHMM d o df cy loc n0 n1 yf ig Hd Hdf Hy Ho Hloc).
  - exact (parse_render_x_DDMonthY_THM_OHH_MM d o df cy loc n0 n1 yf ig Hd Hdf Hy Ho Hloc).
  - exact (parse_render_x_DDMonthY_THM_OHH d o df cy loc n0 n1 yf ig Hd Hdf Hy Ho Hloc).
  - exact (parse_render_x_DDMonthY_THM_OHHMM d o df cy loc n0 n1 yf ig Hd Hdf Hy Ho Hloc).
  - exact (parse_render_x_DDMonthY_THMS_OHH_MM d o df cy loc n0 n1 yf ig Hd Hdf Hy Ho Hloc).
  - exact (parse_render_x_DDMonthY_THMS_OHH d o df cy loc n0 n1 yf ig Hd Hdf Hy Ho Hloc).
  - exact (parse_render_x_DDMonthY_THMS_OHHMM d o df cy loc n0 n1 yf ig Hd Hdf Hy Ho Hloc).
Qed.

(* MM/DD/YYYY{T, space}{HH:MM, HH:MM:SS}{offset}: dayfirst = yearfirst = False *)
Theorem parse_render_us_offset_lemma : forall j tf ofm d o df cy loc n0 n1 ig,
  In j plain_joiners -> In tf x_tforms -> In ofm x_oforms ->
  valid_dt d = true -> valid_dt df = true -> wf_off o = true -> smem utc_name loc = false ->
  parse (opts_df0 false ig df cy loc n0 n1) (render (TDT DUS j tf ofm) d o)
  = OutOk (expected_dt (TDT DUS j tf ofm) d df) (zone_expected (TDT DUS j tf ofm) o ig) 0 false [].
Proof.
  intros j tf ofm d o df cy loc n0 n1 ig Hj Htf Hofm Hd Hdf Ho Hloc.
  unfold plain_joiners, x_tforms, x_oforms in *. cbn [In] in Hj, Htf, Hofm. unfold zone_expected.
  destruct Hj as [<- | [<- | []]]; destruct Htf as [<- | [<- | []]]; destruct Hofm as [<- | [<- | [<- | []]]].
  - exact (parse_render_x_DUS_JT_THM_OHH_MM d o df cy loc n0 n1 false ig Hd Hdf Ho Hloc).
  - exact (parse_render_x_DUS_JT_THM_OHH d o df cy loc n0 n1 false ig Hd Hdf Ho Hloc).
  - exact (parse_render_x_DUS_JT_THM_OHHMM d o df cy loc n0 n1 false ig Hd Hdf Ho Hloc).
  - exact (parse_render_x_DUS_JT_THMS_OHH_MM d o df cy loc n0 n1 false ig Hd Hdf Ho Hloc).
  - exact (parse_render_x_DUS_JT_THMS_OHH d o df cy loc n0 n1 false ig Hd Hdf Ho Hloc).
  - exact (parse_render_x_DUS_JT_THMS_OHHMM d o df cy loc n0 n1 false ig Hd Hdf Ho Hloc).
  - exact (parse_render_x_DUS_JSpace_THM_OHH_MM d o df cy loc n0 n1 false ig Hd Hdf Ho Hloc).
  - exact (parse_render_x_DUS_JSpace_THM_OHH d o df cy loc n0 n1 false ig Hd Hdf Ho Hloc).
  - exact (parse_render_x_DUS_JSpace_THM_OHHMM d o df cy loc n0 n1 false ig Hd Hdf Ho Hloc).
  - exact (parse_render_x_DUS_JSpace_THMS_OHH_MM d o df cy loc n0 n1 false ig Hd Hdf Ho Hloc).
  - exact (parse_render_x_DUS_JSpace_THMS_OHH d o df cy loc n0 n1 false ig Hd Hdf Ho Hloc).
  - exact (parse_render_x_DUS_JSpace_THMS_OHHMM d o df cy loc n0 n1 false ig Hd Hdf Ho Hloc).
Qed.

(* YYYY/MM/DD HH:MM[:SS]{offset}, yearfirst arbitrary *)
Theorem parse_render_slash_offset_lemma : forall tf ofm d o df cy loc n0 n1 yf ig,
  In tf x_tforms -> In ofm x_oforms ->
  valid_dt d = true -> valid_dt df = true -> wf_off o = true -> smem utc_name loc = false ->
  parse (opts_df0 yf ig df cy loc n0 n1) (render (TDT DSlashYMD JSpace tf ofm) d o)
  = OutOk (expected_dt (TDT DSlashYMD JSpace tf ofm) d df) (zone_expected (TDT DSlashYMD JSpace tf ofm) o ig) 0 false [].
Proof.
  intros tf ofm d o df cy loc n0 n1 yf ig Htf Hofm Hd Hdf Ho Hloc.
  unfold x_tforms, x_oforms in *. cbn [In] in Htf, Hofm. unfold zone_expected.
  destruct Htf as [<- | [<- | []]]; destruct Hofm as [<- | [<- | [<- | []]]].
  - exact (parse_render_x_DSlashYMD_JSpace_THM_OHH_MM d o df cy loc n0 n1 yf ig Hd Hdf Ho Hloc).
  - exact (parse_render_x_DSlashYMD_JSpace_THM_OHH d o df cy loc n0 n1 yf ig Hd Hdf Ho Hloc).
  - exact (parse_render_x_DSlashYMD_JSpace_THM_OHHMM d o df cy loc n0 n1 yf ig Hd Hdf Ho Hloc).
  - exact (parse_render_x_DSlashYMD_JSpace_THMS_OHH_MM d o df cy loc n0 n1 yf ig Hd Hdf Ho Hloc).
  - exact (parse_render_x_DSlashYMD_JSpace_THMS_OHH d o df cy loc n0 n1 yf ig Hd Hdf Ho Hloc).
  - exact (parse_render_x_DSlashYMD_JSpace_THMS_OHHMM d o df cy loc n0 n1 yf ig Hd Hdf Ho Hloc).
Qed.
