(* C02: parse_render theorems for ISO date-times followed by a numeric UTC offset +HH:MM / +HH. *)
From Coq Require Import ZArith List Bool Lia ZifyBool.
From V Require Import base.Cal gen.ParseTables parse.Lex parse.Prim parse.Ymd parse.Parse parse.Build
                      parse.ParseSpec parse.LexSeg parse.TokFacts parse.YearThm parse.RenderTac parse.RenderTac3 parse.RenderIso parse.TokFacts2 parse.RenderOffDefs parse.RenderOff_JT_THM parse.RenderOff_JSpace_THM parse.RenderOff_JT_THMS parse.RenderOff_JSpace_THMS.
Import ListNotations.
Open Scope Z_scope.
Ltac Zify.zify_post_hook ::= Z.to_euclidean_division_equations.

Local Arguments digits_n : simpl never.
Local Arguments is_float : simpl never.
Local Arguments to_decimal : simpl never.
Local Arguments py_int : simpl never.
Local Arguments py_isdigit : simpl never.
Local Arguments slen : simpl never.
Local Arguments has_dot : simpl never.
Local Arguments find_dot : simpl never.
Local Arguments info_jump : simpl never.
Local Arguments info_weekday : simpl never.
Local Arguments info_month : simpl never.
Local Arguments info_hms : simpl never.
Local Arguments info_ampm : simpl never.
Local Arguments info_pertain : simpl never.
Local Arguments info_utczone : simpl never.
Local Arguments info_tzoffset : simpl never.
Local Arguments is1 : simpl never.
Local Arguments str_eqb : simpl never.
Local Arguments could_be_tzname : simpl never.
Local Arguments parsems : simpl never.
Local Arguments all_digit : simpl never.
Local Arguments convertyear : simpl never.
Local Arguments dt_replace : simpl never.
Local Arguments valid_dt : simpl never.
Local Arguments monthlen : simpl never.
Local Arguments Z.eqb !x !y.
Local Arguments Z.ltb !x !y.
Local Arguments Z.leb !x !y.
Local Arguments Z.add !x !y.
Local Arguments Z.mul !x !y.
Local Arguments Z.sub !m !n.
Local Arguments Z.opp !x.

Local Arguments firstn : simpl never.
Local Arguments skipn : simpl never.
(* YYYY-MM-DD{T, space}{HH:MM, HH:MM:SS} followed by +HH:MM / -HH:MM / +HH / -HH (offsets
   -23:59 .. +23:59): aware result with exactly the rendered offset, UTC when it is zero; naive
   with ignoretz.  "UTC" must not be a local zone name (a zero offset would resolve to the local
   zone, notes O3). *)
Theorem parse_render_iso_offset_lemma : forall j tf ofm d o df cy loc n0 n1 yf ig,
  In j plain_joiners -> In tf plain_tforms -> In ofm zone_oforms ->
  valid_dt d = true -> valid_dt df = true -> wf_off o = true -> smem utc_name loc = false ->
  parse (opts_df0 yf ig df cy loc n0 n1) (render (TDT DIso j tf ofm) d o)
  = OutOk (expected_dt (TDT DIso j tf ofm) d df)
          (if ig then ZNaive else
           match expected_off (TDT DIso j tf ofm) o with Some v => zone_of_off v | None => ZNaive end)
          0 false [].
Proof.
  intros j tf ofm d o df cy loc n0 n1 yf ig Hj Htf Hofm Hd Hdf Ho Hloc.
  unfold plain_joiners, plain_tforms in *. cbn [In] in Hj, Htf.
  destruct Hj as [<- | [<- | []]]; destruct Htf as [<- | [<- | []]].
  - apply parse_render_iso_offset_JT_THM; assumption.
  - apply parse_render_iso_offset_JT_THMS; assumption.
  - apply parse_render_iso_offset_JSpace_THM; assumption.
  - apply parse_render_iso_offset_JSpace_THMS; assumption.
Qed.
