(* The functions generated from _parser.py (coq/gen/ParseGen.v) ARE the corresponding functions of
   the hand model (parse/Prim.v, Ymd.v, Parse.v), for all inputs. *)
From Coq Require Import ZArith List Bool Lia ZifyBool.
From V Require Import base.Cal gen.ParseTables parse.Lex parse.Prim parse.Ymd parse.Parse parse.ParseGenLib gen.ParseGen.
Import ListNotations.
Open Scope Z_scope.

(* the word tables are never unfolded *)
Opaque tbl_jump tbl_weekdays tbl_months tbl_hms tbl_ampm tbl_utczone tbl_pertain tbl_utczone_raw tbl_tzoffset
       tbl_chars lower.

(* ------------------------------------------------------------------ parserinfo *)

Theorem pg_jump_eq n : pg_parserinfo_jump n = Ok (info_jump n).
Proof. reflexivity. Qed.
Theorem pg_pertain_eq n : pg_parserinfo_pertain n = Ok (info_pertain n).
Proof. reflexivity. Qed.
Theorem pg_utczone_eq n : pg_parserinfo_utczone n = Ok (info_utczone n).
Proof. reflexivity. Qed.
Theorem pg_weekday_eq n : pg_parserinfo_weekday n = Ok (info_weekday n).
Proof. unfold pg_parserinfo_weekday, info_weekday. destruct (sassoc _ _); reflexivity. Qed.
Theorem pg_month_eq n : pg_parserinfo_month n = Ok (info_month n).
Proof. unfold pg_parserinfo_month, info_month. destruct (sassoc _ _); reflexivity. Qed.
Theorem pg_hms_eq n : pg_parserinfo_hms n = Ok (info_hms n).
Proof. unfold pg_parserinfo_hms, info_hms. destruct (sassoc _ _); reflexivity. Qed.
Theorem pg_ampm_eq n : pg_parserinfo_ampm n = Ok (info_ampm n).
Proof. unfold pg_parserinfo_ampm, info_ampm. destruct (sassoc _ _); reflexivity. Qed.
Theorem pg_tzoffset_eq n : pg_parserinfo_tzoffset n = Ok (info_tzoffset n).
Proof. unfold pg_parserinfo_tzoffset, info_tzoffset. destruct (isSome _); reflexivity. Qed.

Ltac contra := try (exfalso; lia).
Ltac noif t := lazymatch t with context [if _ then _ else _] => fail | _ => idtac end.
Ltac psame :=
  repeat (cbn [bind];
          match goal with
          | |- ?x = ?x => reflexivity
          | |- context [if ?c then _ else _] => noif c; destruct c eqn:?; contra
          end);
  try reflexivity; contra.

Theorem pg_convertyear_eq cur y cs : pg_parserinfo_convertyear cur y cs = convertyear cur y cs.
Proof. unfold pg_parserinfo_convertyear, convertyear. cbv zeta. rewrite !Z.geb_leb. psame. Qed.

(* ------------------------------------------------------------------ _ymd *)

Theorem pg_has_eq y :
  pg_ymd_has_year y = isSome (y_y y) /\ pg_ymd_has_month y = isSome (y_m y) /\ pg_ymd_has_day y = isSome (y_d y).
Proof. repeat split. Qed.

Theorem pg_could_be_day_eq y v : pg_ymd_could_be_day y v = could_be_day y v.
Proof.
  unfold pg_ymd_could_be_day, could_be_day, pg_ymd_has_day, pg_ymd_has_month, pg_ymd_has_year.
  destruct (y_d y); cbn [isSome negb]; [reflexivity|].
  destruct (y_m y) as [mi|]; cbn [isSome negb]; [|reflexivity].
  destruct (y_y y) as [yi|]; cbn [isSome negb]; reflexivity.
Qed.

(* ------------------------------------------------------------------ parser helpers *)

Theorem pg_could_be_tzname_eq h n o t :
  pg_parser_could_be_tzname h n o t = Ok (could_be_tzname h n o t).
Proof. reflexivity. Qed.

Theorem pg_adjust_ampm_eq h a : pg_parser_adjust_ampm h a = Ok (adjust_ampm h a).
Proof. unfold pg_parser_adjust_ampm, adjust_ampm. psame. Qed.

Theorem pg_ampm_valid_eq h a f : pg_parser_ampm_valid h a f = ampm_valid h a f.
Proof.
  unfold pg_parser_ampm_valid, ampm_valid. cbv zeta.
  destruct f, a as [a|], h as [h|]; cbn [andb isSome negb]; try reflexivity;
    destruct ((0 <=? h) && (h <=? 12)); reflexivity.
Qed.

(* ------------------------------------------------------------------ token list look-ups *)

Lemma tok_get_nn l i : 0 <= i ->
  tok_get l i = match nth_error l (Z.to_nat i) with Some t => Ok t | None => Err IndexError end.
Proof.
  intros H. unfold tok_get. replace (i <? 0) with false by lia.
  destruct (nth_error l (Z.to_nat i)) eqn:E.
  - assert (Z.to_nat i < length l)%nat by (apply nth_error_Some; congruence).
    replace ((0 <=? i) && (i <? Z.of_nat (length l))) with true by lia. reflexivity.
  - apply nth_error_None in E. replace ((0 <=? i) && (i <? Z.of_nat (length l))) with false by lia. reflexivity.
Qed.

Lemma hms_at_spec l i : hms_at l i = match nth_error l i with Some t => isSome (info_hms t) | None => false end.
Proof. reflexivity. Qed.

Lemma str_eqb_is1 t c : str_eqb t [c] = is1 t c.
Proof.
  destruct t as [|x [|y t]]; cbn [str_eqb is1]; try reflexivity.
  - apply andb_true_r.
  - apply andb_false_r.
Qed.

Ltac nth_facts :=
  repeat match goal with
  | H : nth_error _ _ = None |- _ => apply nth_error_None in H
  | H : nth_error ?l ?k = Some ?t |- _ =>
      assert (k < length l)%nat by (apply nth_error_Some; rewrite H; discriminate); clear H
  end.
Ltac split_ands :=
  repeat match goal with
  | H : _ && _ = true |- _ => apply andb_true_iff in H; destruct H
  | H : ?b = true |- _ => is_var b; subst b
  | H : ?b = false |- _ => is_var b; subst b
  end.
Ltac contra2 :=
  try (exfalso; split_ands; cbn [andb orb negb] in *; nth_facts; first [lia | congruence]).

(* idx is the index of an existing token (the caller's loop invariant); without it tokens[idx-1] on an empty
   list would be an IndexError in the code and `no label` in the model *)
Theorem pg_find_hms_idx_eq l idx aj : (idx < length l)%nat ->
  pg_parser_find_hms_idx (Z.of_nat idx) l aj = Ok (option_map Z.of_nat (find_hms_idx l idx aj)).
Proof.
  intros Hidx. unfold pg_parser_find_hms_idx, find_hms_idx. cbv zeta. rewrite !Z.gtb_ltb, !hms_at_spec.
  assert (T : forall k : nat, tok_get l (Z.of_nat k) =
              match nth_error l k with Some t => Ok t | None => Err IndexError end).
  { intros k. rewrite tok_get_nn by lia. now rewrite Nat2Z.id. }
  replace (Z.of_nat idx + 1) with (Z.of_nat (idx + 1)) by lia.
  replace (Z.of_nat idx + 2) with (Z.of_nat (idx + 2)) by lia.
  destruct idx as [|[|i]].
  - (* idx = 0: nothing to the left *)
    rewrite !T. change (0 <? Z.of_nat 0) with false. change (1 <? Z.of_nat 0) with false. cbn [andb Nat.ltb Nat.leb].
    repeat (cbn [bind isSome option_map andb Nat.add];
            rewrite ?pg_hms_eq, ?str_eqb_is1;
            match goal with
            | |- ?x = ?x => reflexivity
            | |- context [nth_error l ?k] => destruct (nth_error l k) eqn:?
            | |- context [if ?c then _ else _] => noif c; destruct c eqn:?; contra2
            end); try reflexivity; contra2.
  - replace (Z.of_nat 1 - 1) with (Z.of_nat 0) by lia. rewrite !T.
    change (1 <? Z.of_nat 1) with false. cbn [andb].
    repeat (cbn [bind isSome option_map andb Nat.add Nat.sub Nat.ltb Nat.leb];
            rewrite ?pg_hms_eq, ?str_eqb_is1;
            match goal with
            | |- ?x = ?x => reflexivity
            | |- context [nth_error l ?k] => destruct (nth_error l k) eqn:?
            | |- context [if ?c then _ else _] => noif c; destruct c eqn:?; contra2
            end); try reflexivity; contra2.
  - replace (Z.of_nat (S (S i)) - 1) with (Z.of_nat (S i)) by lia.
    replace (Z.of_nat (S (S i)) - 2) with (Z.of_nat i) by lia. rewrite !T.
    replace (S (S i) - 1)%nat with (S i) by lia. replace (S (S i) - 2)%nat with i by lia.
    repeat (cbn [bind isSome option_map andb Nat.ltb Nat.leb];
            rewrite ?pg_hms_eq, ?str_eqb_is1;
            match goal with
            | |- ?x = ?x => reflexivity
            | |- context [nth_error l ?k] => destruct (nth_error l k) eqn:?
            | |- context [if ?c then _ else _] => noif c; destruct c eqn:?; contra2
            end); try reflexivity; contra2.
Qed.

Theorem pg_parse_hms_none l idx : pg_parser_parse_hms idx l None = Ok (idx, None).
Proof. reflexivity. Qed.

(* The hand model returns TypeError in the forward case (hms_idx > idx) when tokens[hms_idx] carries no h/m/s label;
   the code returns (hms_idx, None) there.  Unreachable in the parser (hms_idx comes from _find_hms_idx), so the
   equality is stated for labelled tokens; [pg_parse_hms_forward_unlabelled] records the difference. *)
Theorem pg_parse_hms_eq l idx h :
  (forall t, nth_error l h = Some t -> isSome (info_hms t) = true) ->
  pg_parser_parse_hms (Z.of_nat idx) l (Some (Z.of_nat h)) =
  match parse_hms l idx h with Ok (i, v) => Ok (Z.of_nat i, Some v) | Err e => Err e end.
Proof.
  intros HL. unfold pg_parser_parse_hms, parse_hms, tk. rewrite Z.gtb_ltb.
  rewrite tok_get_nn by lia. rewrite Nat2Z.id.
  destruct (nth_error l h) as [t|]; cbn [bind].
  - specialize (HL t eq_refl). rewrite pg_hms_eq. cbn [bind].
    destruct (info_hms t) as [v|]; [|discriminate].
    destruct (Z.of_nat idx <? Z.of_nat h) eqn:E1, (idx <? h)%nat eqn:E2; contra; reflexivity.
  - destruct (Z.of_nat idx <? Z.of_nat h) eqn:E1, (idx <? h)%nat eqn:E2; contra; reflexivity.
Qed.

Theorem pg_parse_hms_forward_unlabelled l idx h t :
  nth_error l h = Some t -> info_hms t = None -> (idx < h)%nat ->
  pg_parser_parse_hms (Z.of_nat idx) l (Some (Z.of_nat h)) = Ok (Z.of_nat h, None) /\
  parse_hms l idx h = Err TypeError.
Proof.
  intros N I L. unfold pg_parser_parse_hms, parse_hms, tk. rewrite Z.gtb_ltb.
  rewrite tok_get_nn by lia. rewrite Nat2Z.id, N. cbn [bind]. rewrite pg_hms_eq, I. cbn [bind].
  replace (Z.of_nat idx <? Z.of_nat h) with true by lia.
  replace (idx <? h)%nat with true by (symmetry; apply Nat.ltb_lt; lia). split; reflexivity.
Qed.

(* ------------------------------------------------------------------ parserinfo.validate *)

Lemma str_eqb_refl_is1 t c : str_eqb t [c] = is1 t c.
Proof. apply str_eqb_is1. Qed.

Ltac vtail :=
  cbn [r_year r_century r_month r_day r_tzname r_tzoffset set_year set_ymdc set_tzname set_tzoffset isSome
       opt_eqz ostr_truthy ostr_eq str_eqb is1 negb andb orb bind Z.eqb Pos.eqb];
  rewrite ?andb_true_r, ?andb_false_r, ?orb_false_r, ?pg_utczone_eq;
  repeat (cbn [bind negb andb orb];
          match goal with
          | |- ?x = ?x => reflexivity
          | |- context [if ?c then _ else _] => noif c; destruct c eqn:?
          end);
  try reflexivity; try discriminate.

Theorem pg_validate_eq cur r :
  pg_parserinfo_validate cur r = match validate cur r with Ok r' => Ok (true, r') | Err e => Err e end.
Proof.
  unfold pg_parserinfo_validate, validate. destruct r as [yr mo da wd ho mi se us tn tzo ap ce].
  cbn [r_year r_century isSome].
  destruct yr as [yv|]; cbn [isSome].
  - rewrite pg_convertyear_eq. destruct (convertyear cur yv ce) as [y'|e]; cbn [bind]; [|reflexivity].
    destruct tzo as [[|p|p]|], tn as [[|c [|x t]]|]; vtail.
  - cbn [bind]. destruct tzo as [[|p|p]|], tn as [[|c [|x t]]|]; vtail.
Qed.

Theorem pg_parse_min_sec_eq v : pg_parser_parse_min_sec v = Ok (parse_min_sec v).
Proof. unfold pg_parser_parse_min_sec, parse_min_sec. cbv zeta. destruct (frac_nonzero v); reflexivity. Qed.
(* ------------------------------------------------------------------ _parsems, _assign_hms *)

Theorem pg_parsems_eq t : pg_parser_parsems t = parsems t.
Proof.
  unfold pg_parser_parsems, parsems, split2_dot.
  destruct (has_dot t); cbn [negb]; [|reflexivity].
  destruct (split_dot [] t) as [i [f|]]; cbn [bind]; [|reflexivity].
  destruct (has_dot f); reflexivity.
Qed.

Theorem pg_assign_hms_eq r vr h :
  pg_parser_assign_hms r vr h = match assign_hms r vr h with Ok r' => Ok (tt, r') | Err e => Err e end.
Proof.
  unfold pg_parser_assign_hms, assign_hms.
  destruct (to_decimal vr) as [v|e]; cbn [bind]; [|reflexivity].
  destruct (h =? 0).
  - destruct (frac_nonzero v); reflexivity.
  - destruct (h =? 1).
    + rewrite pg_parse_min_sec_eq. cbn [bind]. unfold parse_min_sec. reflexivity.
    + destruct (h =? 2); [|reflexivity].
      rewrite pg_parsems_eq. destruct (parsems vr) as [[a b]|e]; reflexivity.
Qed.

(* ------------------------------------------------------------------ _ymd.resolve_ymd *)

Ltac is_num a := lazymatch a with Zpos _ => idtac | Z0 => idtac | Zneg _ => idtac end.
Ltac fold_cmps :=
  repeat match goal with
  | |- context [Z.eqb ?a ?b] => is_num a; is_num b;
      let r := eval vm_compute in (Z.eqb a b) in change (Z.eqb a b) with r
  | |- context [Z.ltb ?a ?b] => is_num a; is_num b;
      let r := eval vm_compute in (Z.ltb a b) in change (Z.ltb a b) with r
  | |- context [Z.add ?a ?b] => is_num a; is_num b;
      let r := eval vm_compute in (Z.add a b) in change (Z.add a b) with r
  | |- context [Z.sub ?a ?b] => is_num a; is_num b;
      let r := eval vm_compute in (Z.sub a b) in change (Z.sub a b) with r
  end.

Ltac closed_list l := lazymatch l with nil => idtac | cons _ ?t => closed_list t end.
Ltac fold_getz :=
  repeat match goal with
  | |- context [getz ?l ?i] => closed_list l; is_num i;
      let r := eval vm_compute in (getz l i) in change (getz l i) with r
  end.
Ltac rsame :=
  repeat (cbn [bind andb orb negb isSome isNone nsome opt_eqz Z.eqb Pos.eqb]; fold_cmps; fold_getz;
          match goal with
          | |- ?x = ?x => reflexivity
          | |- context [if ?c then _ else _] => noif c; destruct c eqn:?; contra
          | |- context [bind ?x _] => lazymatch x with Ok _ => fail | Err _ => fail | _ => noif x; destruct x eqn:? end
          end);
  try reflexivity; contra.

Theorem pg_resolve_ymd_eq y yf df : pg_ymd_resolve_ymd y yf df = resolve_ymd y yf df.
Proof.
  unfold pg_ymd_resolve_ymd, resolve_ymd. cbv zeta. rewrite !Z.gtb_ltb.
  destruct y as [vals ce d m yy]. unfold ylen. cbn [y_vals y_m y_y y_d].
  set (ns := nsome yy + nsome m + nsome d).
  destruct vals as [|a [|b [|c [|e vals]]]]; cbn [length].
  - change (Z.of_nat 0) with 0. destruct m as [[|[p|[p|p|]|]|p]|], yy as [[|p'|p']|], d as [di|]; subst ns; rsame.
  - change (Z.of_nat 1) with 1. destruct m as [[|[p|[p|p|]|]|p]|], yy as [[|p'|p']|], d as [di|]; subst ns; rsame.
  - change (Z.of_nat 2) with 2. destruct m as [[|[p|[p|p|]|]|p]|], yy as [[|p'|p']|], d as [di|]; subst ns; rsame.
  - change (Z.of_nat 3) with 3. destruct m as [[|[p|[p|p|]|]|p]|], yy as [[|p'|p']|], d as [di|]; subst ns; rsame.
  - assert (L : 3 < Z.of_nat (length (a :: b :: c :: e :: vals))) by (cbn [length]; lia).
    set (n := Z.of_nat (length (a :: b :: c :: e :: vals))) in *. change (Z.of_nat (S (S (S (S (length vals)))))) with n.
    destruct m as [[|[p|[p|p|]|]|p]|], yy as [[|p'|p']|], d as [di|]; subst ns; rsame.
Qed.

(* ------------------------------------------------------------------ _ymd.append (one specialisation per type of `val`) *)

Definition ymap (r : R ymd) : R (unit * ymd) := match r with Ok y => Ok (tt, y) | Err e => Err e end.

Lemma push_len (vals : list Z) v : Z.of_nat (length (vals ++ [v])) - 1 = Z.of_nat (length vals).
Proof. rewrite app_length. cbn [length]. lia. Qed.

(* the label bookkeeping after the value has been appended *)
Lemma append_tail y v big lab :
  (match lab, big with Some LM, true | Some LD, true => False | _, _ => True end) ->
  (let lab' := if big then Some LY else lab in
   let s0 := ymd_push (if big then ymd_set_century y true else y) v in
   if label_is lab' LM then (if pg_ymd_has_month s0 then Err ValueError
                             else Ok (tt, ymd_set_m s0 (Some (ylen s0 - 1))))
   else if label_is lab' LD then (if pg_ymd_has_day s0 then Err ValueError
                                  else Ok (tt, ymd_set_d s0 (Some (ylen s0 - 1))))
   else if label_is lab' LY then (if pg_ymd_has_year s0 then Err ValueError
                                  else Ok (tt, ymd_set_y s0 (Some (ylen s0 - 1))))
   else Ok (tt, s0)) = ymap (append_core y v big lab).
Proof.
  intros H. destruct y as [vals ce d m yy]. unfold append_core, ymap. cbv zeta.
  unfold ymd_push, ymd_set_century, ymd_set_m, ymd_set_d, ymd_set_y, pg_ymd_has_month, pg_ymd_has_day,
    pg_ymd_has_year, ylen.
  destruct big, lab as [[| |]|]; try contradiction;
    cbn [label_is y_vals y_century y_d y_m y_y orb]; rewrite ?push_len, ?orb_true_r, ?orb_false_r;
    try (destruct (isSome m); reflexivity); try (destruct (isSome d); reflexivity);
    try (destruct (isSome yy); reflexivity); reflexivity.
Qed.

Theorem pg_append_str_eq y t lab : pg_ymd_append_str y t lab = ymap (append_str y t lab).
Proof.
  unfold pg_ymd_append_str, append_str. rewrite Z.gtb_ltb. cbv zeta.
  destruct (py_isdigit t && (2 <? slen t)) eqn:B.
  - destruct lab as [[| |]|]; cbn [isNone label_is orb negb].
    + reflexivity.
    + reflexivity.
    + destruct (py_int t) as [v|e]; cbn [bind ymap]; [|reflexivity].
      exact (append_tail y v true (Some LY) I).
    + destruct (py_int t) as [v|e]; cbn [bind ymap]; [|reflexivity].
      exact (append_tail y v true None I).
  - destruct (py_int t) as [v|e]; cbn [bind ymap].
    + destruct lab as [[| |]|];
        match goal with |- _ = ymap (append_core _ _ _ ?l) => exact (append_tail y v false l I) end.
    + destruct lab as [[| |]|]; reflexivity.
Qed.

Theorem pg_append_dec_eq y v lab : pg_ymd_append_dec y v lab = ymap (append_dec y v lab).
Proof.
  unfold pg_ymd_append_dec, append_dec. cbv zeta.
  destruct (dec_gt v 100) eqn:B.
  - destruct lab as [[| |]|]; cbn [isNone label_is orb negb]; try reflexivity.
    + exact (append_tail y (dec_int v) true (Some LY) I).
    + exact (append_tail y (dec_int v) true None I).
  - destruct lab as [[| |]|];
      match goal with |- _ = ymap (append_core _ _ _ ?l) => exact (append_tail y (dec_int v) false l I) end.
Qed.

Theorem pg_append_int_eq y n lab : pg_ymd_append_int y n lab = ymap (append_int y n lab).
Proof.
  unfold pg_ymd_append_int, append_int. rewrite Z.gtb_ltb. cbv zeta.
  destruct (100 <? n) eqn:B.
  - destruct lab as [[| |]|]; cbn [isNone label_is orb negb]; try reflexivity.
    + exact (append_tail y n true (Some LY) I).
    + exact (append_tail y n true None I).
  - destruct lab as [[| |]|];
      match goal with |- _ = ymap (append_core _ _ _ ?l) => exact (append_tail y n false l I) end.
Qed.
