(* parse() for EVERY option combination: tzinfos values of an unsupported type and TZ strings that
   tz.tzstr rejects (C14 audit, 02 Oct).

   _build_tzinfo(tzinfos, tzname, tzoffset):
       tzdata = tzinfos(tzname, tzoffset) if callable(tzinfos) else tzinfos.get(tzname)
       if isinstance(tzdata, datetime.tzinfo) or tzdata is None: tzinfo = tzdata
       elif isinstance(tzdata, text_type):    tzinfo = tz.tzstr(tzdata)   # ValueError("unknown string format")
       elif isinstance(tzdata, integer_types): tzinfo = tz.tzoffset(tzname, tzdata)
       else: raise TypeError("Offset must be tzinfo subclass, tz string, or int offset.")
   Neither exception is caught by _build_tzaware or parse(): a TypeError / a plain ValueError (not
   ParserError) leaves parse().  Build.v has the TypeError (TVBad) but treats every TZ string as valid
   (TVStr id); here the set `bad` lists the ids of the TZ strings tz.tzstr rejects.  parse_full is
   Build.parse with both failures and the failing local zone of Local.v. *)
From Coq Require Import ZArith List Bool Lia.
From V Require Import base.Cal gen.ParseTables parse.Lex parse.Prim parse.Ymd parse.Parse parse.Build
                      parse.ParseSpec parse.ZoneThm parse.BuildThm parse.LexThm parse.TotalThm
                      parse.Local parse.LocalThm.
Import ListNotations.
Open Scope Z_scope.

(* the tzinfos value the text resolves to (first branch of _build_tzaware), if that branch is taken *)
Definition via_tzinfos (o : opts) (r : pres) : option tzval :=
  match o_tzinfos o with
  | TINone => None
  | TIDict d => match r_tzname r with Some n => dict_get n d | None => None end
  | TICall tbl df => Some (call_get (r_tzname r) tbl df)
  | TICallOff => Some (match r_tzoffset r with Some v => TVInt v | None => TVNone end)
  end.

Definition bad_value (o : opts) (r : pres) : bool :=
  match via_tzinfos o r with Some TVBad => true | _ => false end.

Definition rejected_tzstr (bad : list Z) (o : opts) (r : pres) : bool :=
  match via_tzinfos o r with Some (TVStr id) => existsb (Z.eqb id) bad | _ => false end.

Definition build_tzaware_full (o : opts) (lz : localz) (bad : list Z) (naive : dt7) (r : pres)
  : R (zone * Z * bool) :=
  if rejected_tzstr bad o r then Err ValueError else build_tzaware_lz o lz naive r.

Definition parse_full (o : opts) (lz : localz) (bad : list Z) (s : list Z) : outcome :=
  match parse_res (o_fuzzy o) (o_fwt o) (oflag (o_yearfirst o) (o_info_yearfirst o))
                  (oflag (o_dayfirst o) (o_info_dayfirst o)) (o_cur_year o) s with
  | Err OverflowError => OutOverflow
  | Err e => OutEscape e
  | Ok None => OutParserError
  | Ok (Some (r, toks)) =>
      if res_len r =? 0 then OutParserError else
      match build_naive r (o_default o) with
      | Err ValueError => OutParserError
      | Err ValueErrorNoStr => OutEscape ValueErrorNoStr
      | Err OverflowError => OutOverflow
      | Err e => OutEscape e
      | Ok naive =>
          if o_ignoretz o then OutOk naive ZNaive 0 false toks else
          match build_tzaware_full o lz bad naive r with
          | Ok (z, fold, w) => OutOk naive z fold w toks
          | Err OverflowError => OutOverflow
          | Err e => OutEscape e
          end
      end
  end.

(* _build_tzaware without any assumption on tzinfos: OverflowError, or TypeError for a value of an
   unsupported type *)
Lemma build_tzaware_kind_any o r e :
  build_tzaware o r = Err e -> e = OverflowError \/ (e = TypeError /\ bad_value o r = true).
Proof.
  unfold build_tzaware, bad_value, via_tzinfos.
  destruct (o_tzinfos o) as [|d|tbl df|].
  - destruct (name_truthy (r_tzname r) && _).
    + destruct (negb (o_nm0 o) && negb (o_nm1 o) && _); discriminate.
    + destruct (r_tzoffset r) as [v|].
      * destruct v; try discriminate; destruct (tzoffset_ok _); try discriminate; intros H; left; congruence.
      * destruct (name_truthy (r_tzname r)); cbn; discriminate.
  - destruct (r_tzname r) as [n|].
    + destruct (dict_get n d) as [data|].
      * unfold build_tzinfo. destruct data; cbn [bind]; try discriminate.
        -- destruct (tzoffset_ok secs); cbn [bind]; [discriminate|]. intros H; left; congruence.
        -- intros H; right; split; [congruence | reflexivity].
      * destruct (name_truthy (Some n) && _).
        -- destruct (negb (o_nm0 o) && negb (o_nm1 o) && _); discriminate.
        -- destruct (r_tzoffset r) as [v|].
           ++ destruct v; try discriminate; destruct (tzoffset_ok _); try discriminate; intros H; left; congruence.
           ++ destruct (name_truthy (Some n)); cbn; discriminate.
    + cbn [name_truthy andb].
      destruct (r_tzoffset r) as [v|]; [|discriminate].
      destruct v; try discriminate; destruct (tzoffset_ok _); try discriminate; intros H; left; congruence.
  - unfold build_tzinfo. destruct (call_get (r_tzname r) tbl df); cbn [bind]; try discriminate.
    + destruct (tzoffset_ok secs); cbn [bind]; [discriminate|]. intros H; left; congruence.
    + intros H; right; split; [congruence | reflexivity].
  - unfold build_tzinfo. destruct (r_tzoffset r) as [v|]; cbn [bind]; try discriminate.
    destruct (tzoffset_ok v); cbn [bind]; [discriminate|]. intros H; left; congruence.
Qed.

Lemma build_tzaware_full_kind o lz bad naive r e :
  build_tzaware_full o lz bad naive r = Err e ->
  e = OverflowError \/ (e = TypeError /\ bad_value o r = true) \/ (e = ValueError /\ rejected_tzstr bad o r = true).
Proof.
  unfold build_tzaware_full. destruct (rejected_tzstr bad o r) eqn:Er.
  - intros H. right. right. split; [congruence | reflexivity].
  - intros H. destruct (build_tzaware_lz_cases o lz naive r) as [E | (E & _)].
    + rewrite E in H. destruct (build_tzaware_kind_any o r e H) as [-> | [-> Hb]]; auto.
    + rewrite E in H. left. congruence.
Qed.

(* C14 for every option combination: the only exceptions that leave parse() besides ParserError and
   OverflowError are the three recorded classes, each with its exact trigger *)
Definition escape_class (o : opts) (bad : list Z) (s : list Z) (e : exn) : Prop :=
  exists r toks,
    parse_res (o_fuzzy o) (o_fwt o) (oflag (o_yearfirst o) (o_info_yearfirst o))
              (oflag (o_dayfirst o) (o_info_dayfirst o)) (o_cur_year o) s = Ok (Some (r, toks)) /\
    ( (e = ValueErrorNoStr /\ build_naive r (o_default o) = Err ValueErrorNoStr)      (* F-C14-bigmonth *)
   \/ (e = TypeError /\ o_ignoretz o = false /\ bad_value o r = true)                 (* F-C14-tzinfos-type *)
   \/ (e = ValueError /\ o_ignoretz o = false /\ rejected_tzstr bad o r = true) ).    (* F-C14-tzstr *)

Theorem parse_full_total_lemma o lz bad s :
  50 <= o_cur_year o ->
  match parse_full o lz bad s with OutEscape e => escape_class o bad s e | _ => True end.
Proof.
  intros Hc. unfold parse_full, escape_class.
  destruct (parse_res_total (o_fuzzy o) (o_fwt o) (oflag (o_yearfirst o) (o_info_yearfirst o))
              (oflag (o_dayfirst o) (o_info_dayfirst o)) (o_cur_year o) s Hc) as [v Hv].
  rewrite Hv. destruct v as [[r toks]|]; [|exact I].
  destruct (res_len r =? 0); [exact I|].
  destruct (build_naive r (o_default o)) as [nv|e] eqn:En.
  - destruct (o_ignoretz o) eqn:Eig; [exact I|].
    destruct (build_tzaware_full o lz bad nv r) as [[[z f] w]|e] eqn:Et; [exact I|].
    destruct (build_tzaware_full_kind o lz bad nv r e Et) as [-> | [[-> Hb] | [-> Hb]]]; [exact I| |].
    + exists r, toks. split; [reflexivity|]. right. left. auto.
    + exists r, toks. split; [reflexivity|]. right. right. auto.
  - destruct (build_naive_kind r (o_default o) e En) as [-> | [-> | ->]]; cbn; auto.
    exists r, toks. split; [reflexivity|]. left. auto.
Qed.

(* well-formed tzinfos (DESIGN's wf_opts: int | valid TZ string | tzinfo | None): the two new classes
   are impossible and parse_full is parse_lz *)
Lemma wf_no_bad_value o r : wf_tzinfos (o_tzinfos o) = true -> bad_value o r = false.
Proof.
  intros Hwf. unfold bad_value, via_tzinfos.
  destruct (o_tzinfos o) as [|d|tbl df|] eqn:Et; cbn in Hwf; try reflexivity.
  - destruct (r_tzname r) as [n|]; [|reflexivity].
    destruct (dict_get n d) as [data|] eqn:Ed; [|reflexivity].
    pose proof (dict_get_wf n d data Hwf Ed) as Hd. destruct data; try reflexivity. discriminate.
  - apply andb_prop in Hwf. destruct Hwf as [H1 H2].
    pose proof (call_get_wf (r_tzname r) tbl df H1 H2) as Hd.
    destruct (call_get (r_tzname r) tbl df); try reflexivity. discriminate.
  - destruct (r_tzoffset r); reflexivity.
Qed.

Lemma rejected_nil o r : rejected_tzstr [] o r = false.
Proof. unfold rejected_tzstr. destruct (via_tzinfos o r) as [[]|]; reflexivity. Qed.

Theorem parse_full_wf o lz s : parse_full o lz [] s = parse_lz o lz s.
Proof.
  unfold parse_full, parse_lz, build_tzaware_full.
  destruct (parse_res _ _ _ _ _ s) as [[[r toks]|]|e]; try reflexivity.
  destruct (res_len r =? 0); [reflexivity|].
  destruct (build_naive r (o_default o)) as [naive|e]; [|reflexivity].
  rewrite rejected_nil. reflexivity.
Qed.

(* witnesses: parse('10:00 BRST', tzinfos={'BRST': 1.5}) and tzinfos={'BRST': <rejected TZ string #100>} *)
Definition fx_opts (v : tzval) : opts :=
  mkOpts false false None None false false false (TIDict [([66; 82; 83; 84], v)])
         (mkDt 2003 9 25 0 0 0 0) 2026 [[85; 84; 67]; [85; 84; 67]] true false.
Definition fx_text : list Z := [49; 48; 58; 48; 48; 32; 66; 82; 83; 84].

Theorem parse_full_escapes_refuted_lemma :
  parse_full (fx_opts TVBad) (mkLocalz 0 false) [] fx_text = OutEscape TypeError /\
  parse_full (fx_opts (TVStr 100)) (mkLocalz 0 false) [100] fx_text = OutEscape ValueError /\
  parse_full (fx_opts (TVStr 100)) (mkLocalz 0 false) [] fx_text = OutOk (mkDt 2003 9 25 10 0 0 0) (ZStr 100) 0 false [].
Proof. repeat split; vm_compute; reflexivity. Qed.

(* ---- the alphabet.  The character classes of the model (Lex.is_alpha / is_digit / is_space / dec_val /
   lower) are Python's on Sigma = ASCII + the 70 code points of gen/ParseTables.tbl_chars (checked against
   the running interpreter by harness/gen_parse_tables.py); every other code point is classified as
   "other", which is NOT what str.isalpha / isdigit / isspace say for ~130 000 code points.  The totality
   statements are true of the model for every list of integers, but they describe dateutil only for texts
   over Sigma: that hypothesis is part of the headline statement. *)
Definition over_sigma (s : list Z) : Prop := Forall (fun c => in_sigma c = true) s.

Theorem parse_full_total_sigma_lemma o lz bad s :
  over_sigma s -> 50 <= o_cur_year o ->
  match parse_full o lz bad s with OutEscape e => escape_class o bad s e | _ => True end.
Proof. intros _. apply parse_full_total_lemma. Qed.

Theorem parse_total_sigma_lemma o s :
  over_sigma s -> wf_tzinfos (o_tzinfos o) = true -> 50 <= o_cur_year o ->
  match parse o s with OutEscape e => e = ValueErrorNoStr | _ => True end.
Proof. intros _. apply parse_total_lemma. Qed.
