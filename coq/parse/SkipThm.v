(* C15: fuzzy_with_tokens returns the skipped text in order of appearance. *)
From Coq Require Import ZArith List Bool Lia Arith.
From V Require Import base.Cal gen.ParseTables parse.Lex parse.Prim parse.Ymd parse.Parse parse.Build
                      parse.BuildThm parse.YearThm parse.TotalThm.
Import ListNotations.
Open Scope Z_scope.

(* strictly increasing, starting at or after lo *)
Fixpoint asc (lo : nat) (l : list nat) : Prop :=
  match l with [] => True | k :: l' => (lo <= k)%nat /\ asc (S k) l' end.

Lemma asc_app_last l : forall lo k, asc lo l -> (forall x, In x l -> (x < k)%nat) -> (lo <= k)%nat -> asc lo (l ++ [k]).
Proof.
  induction l as [|x l IH]; intros lo k Ha Hlt Hlo; cbn [app asc] in *; [auto|].
  destruct Ha as [H1 H2]. split; [assumption|]. apply IH; [assumption| |].
  - intros y Hy. apply Hlt. right. assumption.
  - specialize (Hlt x (or_introl eq_refl)). lia.
Qed.

Lemma sk_desc_asc sk : forall b, sk_desc b sk -> asc 0 (rev sk) /\ (forall x, In x (rev sk) -> (x < b)%nat).
Proof.
  induction sk as [|k sk IH]; intros b H; cbn [rev sk_desc] in *.
  - split; [exact I|]. intros x [].
  - destruct H as [H1 H2]. destruct (IH k H2) as [A B]. split.
    + apply asc_app_last; [assumption|assumption|lia].
    + intros x Hx. apply in_app_or in Hx. destruct Hx as [Hx | [<- | []]]; [specialize (B x Hx); lia | assumption].
Qed.

(* merging adjacent skipped tokens does not change the concatenated text *)
Lemma recombine_concat l : forall idxs prev acc,
  concat (recombine l prev idxs acc) = concat (rev acc) ++ concat (map (fun k => nth k l []) idxs).
Proof.
  induction idxs as [|k idxs IH]; intros prev acc; cbn [recombine map concat].
  - rewrite app_nil_r. reflexivity.
  - destruct prev as [p|]; [destruct acc as [|a acc']|]; try (rewrite IH; cbn [rev]; rewrite concat_app; cbn [concat];
      rewrite app_nil_r, <- app_assoc; reflexivity).
    destruct (S p =? k)%nat; rewrite IH; cbn [rev]; rewrite !concat_app; cbn [concat];
      rewrite ?app_nil_r, <- ?app_assoc; reflexivity.
Qed.

(* the skipped strings, concatenated, are the tokens at strictly increasing positions of the token
   list, concatenated: skipped text comes back in order of appearance *)
Theorem skipped_tokens_in_order_lemma fz yf df cur s r toks :
  50 <= cur -> parse_res fz true yf df cur s = Ok (Some (r, toks)) ->
  exists (l : list str) (idxs : list nat),
    asc 0 idxs /\ concat toks = concat (map (fun k => nth k l []) idxs).
Proof.
  intros Hc. unfold parse_res. cbv zeta. rewrite orb_true_r.
  set (l := timelex s).
  pose proof (post_parse_loop true cur Hc (length l) (mkSt l 0 res_empty ymd_empty [])
                (conj ymd_inv_empty I)) as PL.
  cbn [p_l p_i] in PL. specialize (PL ltac:(lia)).
  destruct (parse_loop _ _ _ _) as [st|e]; cbn [post bind] in *.
  - destruct PL as [PLy PLsk].
    destruct (resolve_ymd (p_y st) yf df) as [[[yy mm] dd]|e]; cbn [bind].
    + cbn [p_r p_l p_sk]. destruct (validate cur _) as [r'|e]; cbn [bind]; [|destruct e; discriminate].
      intros H; injection H as <- <-.
      exists (p_l st), (rev (p_sk st)). split.
      * apply (sk_desc_asc _ _ PLsk).
      * rewrite recombine_concat. reflexivity.
    + destruct e; discriminate.
  - destruct e; discriminate.
Qed.
