(* gen = model, continued: parser._parse_numeric_token = Parse.parse_numeric (all token lists, indices, states). *)
From Coq Require Import ZArith List Bool Lia ZifyBool.
From V Require Import base.Cal gen.ParseTables parse.Lex parse.Prim parse.Ymd parse.Parse parse.ParseGenLib gen.ParseGen
                      parse.ParseGenThm.
Import ListNotations.
Open Scope Z_scope.

Opaque tbl_jump tbl_weekdays tbl_months tbl_hms tbl_ampm tbl_utczone tbl_pertain tbl_utczone_raw tbl_tzoffset
       tbl_chars lower.

Lemma find_hms_idx_labelled l idx aj h t :
  find_hms_idx l idx aj = Some h -> nth_error l h = Some t -> isSome (info_hms t) = true.
Proof.
  unfold find_hms_idx, hms_at. intros F N.
  repeat match type of F with
  | (if ?c then _ else _) = _ => destruct c eqn:?
  end; try discriminate; injection F as <-;
  repeat match goal with H : _ && _ = true |- _ => apply andb_true_iff in H; destruct H end;
  rewrite N in *; assumption.
Qed.

Definition nmap (x : R (nat * ymd * pres)) : R (Z * ymd * pres) :=
  match x with Ok (i, y, r) => Ok (Z.of_nat i, y, r) | Err e => Err e end.

Lemma of_nat_plus p k : 0 <= k -> Z.of_nat p + k = Z.of_nat (p + Z.to_nat k).
Proof. lia. Qed.

Lemma tok_get_nat l k : tok_get l (Z.of_nat k) = match nth_error l k with Some t => Ok t | None => Err IndexError end.
Proof. rewrite tok_get_nn by lia. now rewrite Nat2Z.id. Qed.

Ltac contra3 := try (exfalso; split_ands; cbn [andb orb negb isSome isNone] in *; nth_facts; first [lia | congruence]).
Ltac leaf := rewrite ?pg_adjust_ampm_eq, ?pg_hms_eq, ?pg_jump_eq, ?pg_month_eq, ?pg_ampm_eq;
             cbn [bind nmap ymap fst snd]; try reflexivity; contra3;
             repeat match goal with p : (_ * _)%type |- _ => destruct p end; cbn [bind fst snd nmap]; try reflexivity; try (exfalso; split_ands; cbn [andb orb negb] in *; nth_facts; first [lia | congruence]);
             try (unfold nmap; cbn [bind ymap]; repeat f_equal; lia).

Ltac bf l idx :=
  unfold ymd_nonempty;
  repeat (cbn [bind nmap ymap fst snd isSome isNone option_map negb andb orb];
          rewrite ?Z.gtb_ltb, ?Z.geb_leb, ?pg_hms_eq, ?pg_jump_eq, ?pg_month_eq, ?pg_ampm_eq, ?pg_append_str_eq,
                  ?pg_append_dec_eq, ?pg_append_int_eq, ?pg_parsems_eq, ?pg_parse_min_sec_eq, ?pg_assign_hms_eq,
                  ?pg_could_be_day_eq, ?pg_adjust_ampm_eq, ?str_eqb_is1;
          match goal with
          | |- ?x = ?x => reflexivity
          | H : Ok _ = Ok _ |- _ => injection H as ?; subst
          | F : find_hms_idx l idx true = Some ?h |- context [pg_parser_parse_hms (Z.of_nat idx) l (Some (Z.of_nat ?h))] =>
              rewrite (pg_parse_hms_eq l idx h (fun t N => find_hms_idx_labelled _ _ _ _ _ F N))
          | |- context [nth_error l ?k] => destruct (nth_error l k) eqn:?; contra3
          | |- context [if ?c then _ else _] => noif c; destruct c eqn:?; contra3
          | |- context [ymap ?x] => destruct x eqn:?
          | |- context [parse_min_sec ?v] => destruct (parse_min_sec v) eqn:?
          | |- context [match ?x with Some _ => _ | None => _ end] => noif x; destruct x eqn:?
          | |- context [match ?x with [] => _ | _ :: _ => _ end] => noif x; destruct x eqn:?
          | |- context [match ?x with Ok _ => _ | Err _ => _ end] =>
              lazymatch x with Ok _ => fail | Err _ => fail | _ => noif x; destruct x as [?|?] eqn:? end
          | |- context [match ?p with (_, _) => _ end] => is_var p; destruct p
          | |- context [bind ?x _] =>
              lazymatch x with
              | Ok _ => fail | Err _ => fail
              | context [bind _ _] => fail
              | _ => noif x; destruct x as [?|?] eqn:?
              end
          end);
  leaf.

(* evaluate the monadic test at the head of the generated code to the model's boolean *)
Ltac test_is l idx b :=
  match goal with
  | |- bind ?c _ = _ => let E := fresh "E" in assert (E : c = Ok b) by (bf l idx); rewrite E; clear E; cbn [bind]
  end.

Theorem pg_parse_numeric_eq l idx y r fz :
  pg_parser_parse_numeric_token l (Z.of_nat idx) y r fz = nmap (parse_numeric l idx y r fz).
Proof.
  unfold pg_parser_parse_numeric_token, parse_numeric, tk, tok_is, jump_at. cbv zeta.
  rewrite ?Z.gtb_ltb, ?Z.geb_leb.
  rewrite !(of_nat_plus idx 1), !(of_nat_plus idx 2), !(of_nat_plus idx 3), !(of_nat_plus idx 4) by lia.
  change (Z.to_nat 1) with 1%nat. change (Z.to_nat 2) with 2%nat. change (Z.to_nat 3) with 3%nat.
  change (Z.to_nat 4) with 4%nat.
  rewrite !tok_get_nat.
  destruct (nth_error l idx) as [s|] eqn:N0; cbn [bind nmap]; [|reflexivity].
  assert (Hidx : (idx < length l)%nat) by (apply nth_error_Some; congruence).
  rewrite !(pg_find_hms_idx_eq l idx true Hidx).
  destruct (to_decimal s) as [value|e] eqn:TD; cbn [bind any_to_valueerror nmap].
  2:{ unfold to_decimal in TD. destruct (decnum s); [discriminate | injection TD as <-; reflexivity]. }
  (* test 1: 19990101T23[59] *)
  test_is l idx ((ylen y =? 3) && ((slen s =? 2) || (slen s =? 4)) && isNone (r_hour r)
                 && match nth_error l (idx + 1) with
                    | None => true
                    | Some t => negb (is1 t 58) && isNone (info_hms t)
                    end).
  match goal with |- context [if ?c then _ else _] => destruct c eqn:B1 end.
  { bf l idx. }
  clear B1.
  (* test 2: YYMMDD or HHMMSS[.ss] *)
  test_is l idx ((slen s =? 6) || ((6 <? slen s) && (find_dot s 0 =? 6))).
  match goal with |- context [if ?c then _ else _] => destruct c eqn:B2 end.
  { test_is l idx ((match y_vals y with [] => true | _ => false end) && negb (has_dot s)).
    bf l idx. }
  clear B2.
  (* test 3: YYYYMMDD[hhmm[ss]] *)
  match goal with |- context [if ?c then _ else _] => destruct c eqn:B3 end.
  { bf l idx. }
  clear B3.
  (* test 4: h / m / s label *)
  cbn [bind isSome option_map].
  destruct (find_hms_idx l idx true) as [h|] eqn:F; cbn [bind isSome option_map].
  { bf l idx. }
  (* test 5: HH:MM[:SS[.ss]] *)
  test_is l idx (isSome (nth_error l (idx + 2))
                 && match nth_error l (idx + 1) with Some t => is1 t 58 | None => false end).
  match goal with |- context [if ?c then _ else _] => destruct c eqn:B5 end.
  { bf l idx. }
  clear B5.
  (* test 6: date with separators *)
  test_is l idx ((match nth_error l (idx + 1) with Some t => is1 t 45 | None => false end)
                 || (match nth_error l (idx + 1) with Some t => is1 t 47 | None => false end)
                 || (match nth_error l (idx + 1) with Some t => is1 t 46 | None => false end)).
  match goal with |- context [if ?c then _ else _] => destruct c eqn:B6 end.
  { Time bf l idx. }
  clear B6.
  (* test 7: end of input or a jump word follows *)
  test_is l idx (isNone (nth_error l (idx + 1))
                 || match nth_error l (idx + 1) with Some t => info_jump t | None => false end).
  match goal with |- context [if ?c then _ else _] => destruct c eqn:B7 end.
  { Time bf l idx. }
  clear B7.
  Time bf l idx.
Qed.
