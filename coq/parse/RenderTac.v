(* Symbolic execution of the parser model on rendered token lists (C02 template proofs):
   argument flags that keep digit-field tokens and symbolic integers folded, evaluation of closed
   look-ups by vm_compute, rewriting with the token facts of TokFacts.v. *)
From Coq Require Import ZArith List Bool Lia ZifyBool.
From V Require Import base.Cal gen.ParseTables parse.Lex parse.Prim parse.Ymd parse.Parse parse.Build
                      parse.ParseSpec parse.LexSeg parse.TokFacts parse.YearThm.
Import ListNotations.
Open Scope Z_scope.

Ltac ceval1 f :=
  match goal with |- context [f ?t] =>
    let v := eval vm_compute in (f t) in
    lazymatch v with true => idtac | false => idtac | None => idtac | Some _ => idtac end;
    change (f t) with v end.
Ltac ceval2 f :=
  match goal with |- context [f ?t ?c] =>
    let v := eval vm_compute in (f t c) in
    lazymatch v with true => idtac | false => idtac end;
    change (f t c) with v end.
Ltac ceval4 f :=
  match goal with |- context [f ?a ?b ?c ?t] =>
    let v := eval vm_compute in (f a b c t) in
    lazymatch v with true => idtac | false => idtac end;
    change (f a b c t) with v end.
Ltac ceval :=
  repeat first [ ceval1 is_float | ceval1 info_jump | ceval1 info_weekday | ceval1 info_month | ceval1 info_hms
               | ceval1 info_ampm | ceval1 info_pertain | ceval1 info_utczone | ceval1 info_tzoffset
               | ceval2 is1 | ceval2 str_eqb | ceval4 could_be_tzname
               | match goal with |- context [Pos.to_nat ?p] =>
                   let v := eval vm_compute in (Pos.to_nat p) in change (Pos.to_nat p) with v end ].

Ltac tokrw R :=
  rewrite ?tok_is_float, ?tok_to_decimal, ?tok_py_int, ?tok_py_isdigit, ?tok_slen, ?tok_has_dot, ?tok_find_dot,
          ?tok_is1, ?tok_info_jump, ?tok_info_hms, ?tok_info_ampm, ?tok_info_month, ?tok_info_weekday,
          ?tok_str_eqb_1, ?tok_parsems, ?orb_true_r, ?andb_false_r, ?andb_true_r, ?orb_false_r by R.

Ltac side := first [assumption | cbn; lia].

Ltac valid_side :=
  unfold valid_dt, valid_ymd in *; cbn [d_y d_mo d_d d_h d_mi d_s d_us dflt] in *; lia.

Ltac zdecide :=
  repeat match goal with
  | |- context [Z.ltb ?a ?b] =>
      first [ replace (Z.ltb a b) with true by lia | replace (Z.ltb a b) with false by lia ]
  | |- context [Z.leb ?a ?b] =>
      first [ replace (Z.leb a b) with true by lia | replace (Z.leb a b) with false by lia ]
  end.

(* one round *)
Ltac sym1 :=
  unfold find_hms_idx, hms_at, is_sign, tok_is, jump_at, validate, build_naive; cbn; tokrw side; ceval;
  zdecide;
  rewrite ?convertyear_century by lia;
  rewrite ?dt_replace_ok by valid_side.
