(* Executable specifications for C15 / C02 (renderers, expected values).  No proofs here. *)
From Coq Require Import ZArith List Bool.
From V Require Import base.Cal gen.ParseTables parse.Lex parse.Prim parse.Ymd parse.Parse parse.Build.
Import ListNotations.
Open Scope Z_scope.

Definition spec_dispatch (n : Z) (args : list Z) : list Z := [-1].
