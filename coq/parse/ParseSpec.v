(* Executable specifications for C15 / C02, written independently of the parser's algorithm:
   default fill-in, the documented time-zone resolution order, renderers of the supported
   formats with their expected values.  No proofs here. *)
From Coq Require Import ZArith List Bool.
From V Require Import base.Cal gen.ParseTables parse.Lex parse.Prim parse.Ymd parse.Parse parse.Build.
Import ListNotations.
Open Scope Z_scope.

(* ------------------------------------------------------------------ C15: default fill-in *)

(* first ordinal >= o whose weekday is wd, by search (not by the mod-7 formula) *)
Fixpoint next_weekday_from (n : nat) (o wd : Z) : Z :=
  match n with
  | O => o
  | S n' => if weekday_of_ord o =? wd then o else next_weekday_from n' (o + 1) wd
  end.

Inductive fill_result := FillOk (d : dt7) | FillInvalid | FillOverflow.

(* fields found in the text (None = absent) + default -> what parse() must return *)
Definition spec_fill (y mo d h mi s us wd : option Z) (df : dt7) : fill_result :=
  let Y := dflt y (d_y df) in
  let M := dflt mo (d_mo df) in
  let D := match d with Some v => v | None => Z.min (d_d df) (dim Y M) end in
  let r := mkDt Y M D (dflt h (d_h df)) (dflt mi (d_mi df)) (dflt s (d_s df)) (dflt us (d_us df)) in
  if negb (valid_dt r) then FillInvalid else
  match wd, d with
  | Some w, None =>
      let o := next_weekday_from 7 (ord_of_ymd Y M D) w in
      if max_ord <? o then FillOverflow else
      let '(y', m', d') := ymd_of_ord o in
      FillOk (mkDt y' m' d' (d_h r) (d_mi r) (d_s r) (d_us r))
  | _, _ => FillOk r
  end.

(* ------------------------------------------------------------------ C15: zone resolution order
   Inputs are the *meaning* of the zone text: an abbreviation (maybe), a signed offset in seconds
   east of UTC as written (maybe), whether the text had the form NAME+h / NAME-h ("my time + h is
   NAME": the sign is inverted and a UTC alias is dropped); and the environment: the tzinfos
   argument, time.tzname, and whether the local zone reports the abbreviation at that wall time. *)
Inductive zres := ZR (z : zone) (warned : bool) | ZROverflow | ZRTypeError.

Definition is_utc_alias (n : str) : bool := isSome (sassoc (lower n) tbl_utczone).
Definition is_zulu (n : str) : bool := is1 n 90 || is1 n 122.
Definition utc_name : str := [85; 84; 67].

Definition spec_zone (ti : tzinfos) (locals : list str) (local_matches : bool)
                     (name0 : option str) (off0 : option Z) (posix_form : bool) : zres :=
  (* step 0: meaning of the text *)
  let off := if posix_form then match off0 with Some v => Some (- v) | None => None end else off0 in
  let name := match name0 with
              | Some n => if posix_form && is_utc_alias n then None else Some n
              | None => None end in
  let utc_named := match name with Some n => is_utc_alias n | None => false end in
  let off := if utc_named then Some 0 else off in
  let name := match name, off with
              | Some n, _ => if is_zulu n then Some utc_name else Some n
              | None, Some 0 => Some utc_name
              | None, _ => None end in
  (* step 1: tzinfos (a callable always applies, a mapping when it has the abbreviation) *)
  let tv := match ti with
            | TINone => None
            | TIDict d => match name with Some n => dict_get n d | None => None end
            | TICall tbl df => Some (call_get name tbl df)
            | TICallOff => Some (match off with Some v => TVInt v | None => TVNone end)
            end in
  match tv with
  | Some TVNone => ZR ZNaive false
  | Some (TVObj id) => ZR (ZUser id) false
  | Some (TVStr id) => ZR (ZStr id) false
  | Some (TVInt secs) => if tzoffset_ok secs then ZR (ZOffset name secs) false else ZROverflow
  | Some TVBad => ZRTypeError
  | None =>
  (* step 2: local zone names *)
  match name with
  | Some (c :: n') =>
      if smem (c :: n') locals then
        (if negb local_matches && in_utczone_raw (c :: n') then ZR ZUTC false else ZR ZLocal false)
      else
        match off with
        | Some 0 => ZR ZUTC false
        | Some v => if tzoffset_ok v then ZR (ZOffset name v) false else ZROverflow
        | None => ZR ZNaive true
        end
  | _ =>
      match off with
      | Some 0 => ZR ZUTC false
      | Some v => if tzoffset_ok v then ZR (ZOffset name v) false else ZROverflow
      | None => ZR ZNaive false
      end
  end
  end.

(* ------------------------------------------------------------------ C02: renderers
   render tpl dt off : the text of datetime dt (with UTC offset off) in template tpl;
   expected tpl dt off default : what parse() must return for it (fields the template does not
   show come from the default; a seconds field shown without fraction means fraction 0).
   English month / weekday names are part of the formats' definition and are literal here. *)

Fixpoint digits_n (k : nat) (n : Z) : list Z :=
  match k with
  | O => []
  | S k' => digits_n k' (n / 10) ++ [48 + n mod 10]
  end.

Definition mon3_names : list str :=
  [[74;97;110]; [70;101;98]; [77;97;114]; [65;112;114]; [77;97;121]; [74;117;110];
   [74;117;108]; [65;117;103]; [83;101;112]; [79;99;116]; [78;111;118]; [68;101;99]].
Definition month_names : list str :=
  [[74;97;110;117;97;114;121]; [70;101;98;114;117;97;114;121]; [77;97;114;99;104]; [65;112;114;105;108];
   [77;97;121]; [74;117;110;101]; [74;117;108;121]; [65;117;103;117;115;116];
   [83;101;112;116;101;109;98;101;114]; [79;99;116;111;98;101;114]; [78;111;118;101;109;98;101;114];
   [68;101;99;101;109;98;101;114]].
Definition wd3_names : list str :=
  [[77;111;110]; [84;117;101]; [87;101;100]; [84;104;117]; [70;114;105]; [83;97;116]; [83;117;110]].

Definition mon3 (m : Z) : str := nth (Z.to_nat (m - 1)) mon3_names [].
Definition month_name (m : Z) : str := nth (Z.to_nat (m - 1)) month_names [].
Definition wd3 (w : Z) : str := nth (Z.to_nat w) wd3_names [].

Inductive dform :=
| DNone | DIso | DCompact | DSlashYMD | DUS | DEU | DEUDot | DMonDY | DMonthDY | DDMonY | DDMonthY
| DDashMon | DYY | DUSYY.
Inductive joiner := JT | JSpace | JNone.
Inductive tform :=
| TNone | THM | THMS | TFrac (k : nat) (comma : bool) | TCompactHM | TCompactHMS
| T12HM (spaced : bool) | T12HMS (spaced : bool) | T12H (spaced : bool) | TWords.
Inductive oform := ONone | OZ | OUTC | OGMT | OHHMM | OHH_MM | OHH.
Inductive template :=
| TDT (d : dform) (j : joiner) (t : tform) (o : oform)
| TCtime
| TRfc (o : oform).

(* offset: sign (true = '+'), hours, minutes *)
Record offs := mkOff { of_pos : bool; of_h : Z; of_m : Z }.
Definition off_secs (f : offs) : Z := (if of_pos f then 1 else -1) * (of_h f * 3600 + of_m f * 60).

Definition render_date (f : dform) (d : dt7) : str :=
  let y4 := digits_n 4 (d_y d) in let m2 := digits_n 2 (d_mo d) in let d2 := digits_n 2 (d_d d) in
  let yy := digits_n 2 (d_y d mod 100) in
  match f with
  | DNone => []
  | DIso => y4 ++ [45] ++ m2 ++ [45] ++ d2
  | DCompact => y4 ++ m2 ++ d2
  | DSlashYMD => y4 ++ [47] ++ m2 ++ [47] ++ d2
  | DUS => m2 ++ [47] ++ d2 ++ [47] ++ y4
  | DEU => d2 ++ [47] ++ m2 ++ [47] ++ y4
  | DEUDot => d2 ++ [46] ++ m2 ++ [46] ++ y4
  | DMonDY => mon3 (d_mo d) ++ [32] ++ d2 ++ [44; 32] ++ y4
  | DMonthDY => month_name (d_mo d) ++ [32] ++ d2 ++ [44; 32] ++ y4
  | DDMonY => d2 ++ [32] ++ mon3 (d_mo d) ++ [32] ++ y4
  | DDMonthY => d2 ++ [32] ++ month_name (d_mo d) ++ [32] ++ y4
  | DDashMon => d2 ++ [45] ++ mon3 (d_mo d) ++ [45] ++ y4
  | DYY => yy ++ [45] ++ m2 ++ [45] ++ d2
  | DUSYY => m2 ++ [47] ++ d2 ++ [47] ++ yy
  end.

Definition h12 (h : Z) : Z := if h mod 12 =? 0 then 12 else h mod 12.
Definition ampm_txt (h : Z) : str := if h <? 12 then [65; 77] else [80; 77].
Definition sp (b : bool) : str := if b then [32] else [].

(* first k digits of the six-digit microsecond, zero-extended beyond six *)
Definition frac_digits (k : nat) (us : Z) : str := firstn k (digits_n 6 us ++ repeat 48 k).

Definition render_time (f : tform) (d : dt7) : str :=
  let h2 := digits_n 2 (d_h d) in let mi2 := digits_n 2 (d_mi d) in let s2 := digits_n 2 (d_s d) in
  let hh := digits_n 2 (h12 (d_h d)) in
  match f with
  | TNone => []
  | THM => h2 ++ [58] ++ mi2
  | THMS => h2 ++ [58] ++ mi2 ++ [58] ++ s2
  | TFrac k comma => h2 ++ [58] ++ mi2 ++ [58] ++ s2 ++ [if comma then 44 else 46] ++ frac_digits k (d_us d)
  | TCompactHM => h2 ++ mi2
  | TCompactHMS => h2 ++ mi2 ++ s2
  | T12HM b => hh ++ [58] ++ mi2 ++ sp b ++ ampm_txt (d_h d)
  | T12HMS b => hh ++ [58] ++ mi2 ++ [58] ++ s2 ++ sp b ++ ampm_txt (d_h d)
  | T12H b => hh ++ sp b ++ ampm_txt (d_h d)
  | TWords => h2 ++ [104] ++ mi2 ++ [109] ++ s2 ++ [115]
  end.

Definition render_off (f : oform) (o : offs) : str :=
  let sg := if of_pos o then 43 else 45 in
  match f with
  | ONone => []
  | OZ => [90]
  | OUTC => [32; 85; 84; 67]
  | OGMT => [32; 71; 77; 84]
  | OHHMM => [sg] ++ digits_n 2 (of_h o) ++ digits_n 2 (of_m o)
  | OHH_MM => [sg] ++ digits_n 2 (of_h o) ++ [58] ++ digits_n 2 (of_m o)
  | OHH => [sg] ++ digits_n 2 (of_h o)
  end.

Definition join_txt (j : joiner) : str := match j with JT => [84] | JSpace => [32] | JNone => [] end.

Definition space_pad2 (n : Z) : str := if n <? 10 then [32; 48 + n] else digits_n 2 n.

Definition render (t : template) (d : dt7) (o : offs) : str :=
  match t with
  | TDT df j tf ofm => render_date df d ++ join_txt j ++ render_time tf d ++ render_off ofm o
  | TCtime =>
      wd3 (weekday (d_y d) (d_mo d) (d_d d)) ++ [32] ++ mon3 (d_mo d) ++ [32] ++ space_pad2 (d_d d) ++ [32]
      ++ render_time THMS d ++ [32] ++ digits_n 4 (d_y d)
  | TRfc ofm =>
      wd3 (weekday (d_y d) (d_mo d) (d_d d)) ++ [44; 32] ++ digits_n 2 (d_d d) ++ [32] ++ mon3 (d_mo d) ++ [32]
      ++ digits_n 4 (d_y d) ++ [32] ++ render_time THMS d ++ (match ofm with OGMT | OUTC => [] | _ => [32] end)
      ++ render_off ofm o
  end.

(* which flags the template is claimed under: (dayfirst, yearfirst) *)
Definition flags_of (t : template) : bool * bool :=
  match t with
  | TDT DEU _ _ _ | TDT DEUDot _ _ _ => (true, false)
  | TDT DYY _ _ _ => (false, true)
  | _ => (false, false)
  end.

(* well-formed combinations *)
Definition wf_template (t : template) : bool :=
  match t with
  | TDT df j tf ofm =>
      (match df, tf with DNone, TNone => false | _, _ => true end)
      && (match j, df, tf with
          | JNone, DCompact, (TCompactHM | TCompactHMS) => true
          | JNone, DNone, _ => true
          | JNone, _, TNone => true
          | JNone, _, _ => false
          | _, DNone, _ => false
          | _, _, TNone => false
          | JT, _, (T12HM _ | T12HMS _ | T12H _ | TWords) => false
          | _, _, _ => true
          end)
      && (match tf, df with (TCompactHM | TCompactHMS), DCompact => true
                          | (TCompactHM | TCompactHMS), _ => false | _, _ => true end)
      && (match ofm, tf with ONone, _ => true | _, TNone => false
                           | OZ, (T12HM _ | T12HMS _ | T12H _ | TWords) => false | _, _ => true end)
      && (match tf with TFrac k _ => (1 <=? Z.of_nat k) && (Z.of_nat k <=? 9) | _ => true end)
  | TCtime => true
  | TRfc ofm => match ofm with OHHMM | OGMT | OUTC => true | _ => false end
  end.

Definition wf_off (o : offs) : bool := (0 <=? of_h o) && (of_h o <=? 23) && (0 <=? of_m o) && (of_m o <=? 59).

(* truncation of the microsecond to k rendered digits *)
Definition trunc_us (k : nat) (us : Z) : Z :=
  if (6 <=? k)%nat then us else let p := 10 ^ Z.of_nat (6 - k) in us / p * p.

Definition has_date (t : template) : bool := match t with TDT DNone _ _ _ => false | _ => true end.

(* two-digit-year templates show only y mod 100: claimed when the year lies within -50..+49 of
   the current year *)
Definition two_digit (t : template) : bool :=
  match t with TDT DYY _ _ _ | TDT DUSYY _ _ _ => true | _ => false end.
Definition guard_year (t : template) (cur : Z) (d : dt7) : bool :=
  if two_digit t then (cur - 50 <=? d_y d) && (d_y d <? cur + 50) else true.

Definition expected_dt (t : template) (d df : dt7) : dt7 :=
  let '(Y, M, D) := if has_date t then (d_y d, d_mo d, d_d d) else (d_y df, d_mo df, d_d df) in
  let tf := match t with TDT _ _ tf _ => tf | _ => THMS end in
  let glued := match t with TDT _ JNone _ _ => true | _ => false end in
  match tf with
  | TNone => mkDt Y M D (d_h df) (d_mi df) (d_s df) (d_us df)
  | THM | TCompactHM | T12HM _ => mkDt Y M D (d_h d) (d_mi d) (d_s df) (d_us df)
  | THMS | T12HMS _ | TWords => mkDt Y M D (d_h d) (d_mi d) (d_s d) 0
  | TFrac k _ => mkDt Y M D (d_h d) (d_mi d) (d_s d) (trunc_us k (d_us d))
  (* HHMMSS as a token of its own is a seconds field (fraction 0); inside the 14-digit form only
     the integer second is read and the microsecond stays with the default *)
  | TCompactHMS => mkDt Y M D (d_h d) (d_mi d) (d_s d) (if glued then d_us df else 0)
  | T12H _ => mkDt Y M D (d_h d) (d_mi df) (d_s df) (d_us df)
  end.

Definition expected_off (t : template) (o : offs) : option Z :=
  let ofm := match t with TDT _ _ _ f => f | TCtime => ONone | TRfc f => f end in
  match ofm with
  | ONone => None
  | OZ | OUTC | OGMT => Some 0
  | OHHMM | OHH_MM => Some (off_secs o)
  | OHH => Some ((if of_pos o then 1 else -1) * (of_h o * 3600))
  end.
