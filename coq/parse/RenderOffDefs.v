(* C02: definitions shared by the numeric-offset template proofs. *)
From Coq Require Import ZArith List Bool Lia ZifyBool.
From V Require Import base.Cal gen.ParseTables parse.Lex parse.Prim parse.Ymd parse.Parse parse.Build
                      parse.ParseSpec parse.LexSeg parse.TokFacts parse.YearThm parse.RenderTac parse.RenderTac3 parse.RenderIso parse.TokFacts2.
Import ListNotations.
Open Scope Z_scope.
Ltac Zify.zify_post_hook ::= Z.to_euclidean_division_equations.

Local Arguments digits_n : simpl never.
Local Arguments is_float : simpl never.
Local Arguments to_decimal : simpl never.
Local Arguments py_int : simpl never.
Local Arguments py_isdigit : simpl never.
Local Arguments slen : simpl never.
Local Arguments has_dot : simpl never.
Local Arguments find_dot : simpl never.
Local Arguments info_jump : simpl never.
Local Arguments info_weekday : simpl never.
Local Arguments info_month : simpl never.
Local Arguments info_hms : simpl never.
Local Arguments info_ampm : simpl never.
Local Arguments info_pertain : simpl never.
Local Arguments info_utczone : simpl never.
Local Arguments info_tzoffset : simpl never.
Local Arguments is1 : simpl never.
Local Arguments str_eqb : simpl never.
Local Arguments could_be_tzname : simpl never.
Local Arguments parsems : simpl never.
Local Arguments all_digit : simpl never.
Local Arguments convertyear : simpl never.
Local Arguments dt_replace : simpl never.
Local Arguments valid_dt : simpl never.
Local Arguments monthlen : simpl never.
Local Arguments Z.eqb !x !y.
Local Arguments Z.ltb !x !y.
Local Arguments Z.leb !x !y.
Local Arguments Z.add !x !y.
Local Arguments Z.mul !x !y.
Local Arguments Z.sub !m !n.
Local Arguments Z.opp !x.

Local Arguments firstn : simpl never.
Local Arguments skipn : simpl never.

Definition off_segs (f : oform) (o : offs) : list seg :=
  let sg := SSep (if of_pos o then 43 else 45) in
  let hh := SDig (digits_n 2 (of_h o)) in
  let mm := SDig (digits_n 2 (of_m o)) in
  match f with
  | OHH_MM => [sg; hh; SSep 58; mm]
  | OHH => [sg; hh]
  | _ => []
  end.

Definition zsegs_of (t : template) (d : dt7) (o : offs) : list seg :=
  match t with
  | TDT df j tf ofm => date_segs df d ++ join_segs j ++ time_segs tf d ++ off_segs ofm o
  | _ => []
  end.

Definition zone_of_off (secs : Z) : zone := if secs =? 0 then ZUTC else ZOffset None secs.

Lemma tzoffset_ok_small v : -86400 < v < 86400 -> tzoffset_ok v = true.
Proof. intros H. unfold tzoffset_ok. lia. Qed.

Ltac zeq :=
  repeat match goal with
  | |- context [Z.eqb ?a ?b] =>
      first [ replace (Z.eqb a b) with true by lia | replace (Z.eqb a b) with false by lia ]
  end.


Definition zone_oforms : list oform := [OHH_MM; OHH].
