(* C02: parse_render theorems for the ISO-like templates (date YYYY-MM-DD, joiner T or space,
   time HH:MM[:SS], no offset / Z / numeric offsets). *)
From Coq Require Import ZArith List Bool Lia ZifyBool.
From V Require Import base.Cal gen.ParseTables parse.Lex parse.Prim parse.Ymd parse.Parse parse.Build
                      parse.ParseSpec parse.LexSeg parse.TokFacts parse.YearThm parse.RenderTac.
Import ListNotations.
Open Scope Z_scope.
Ltac Zify.zify_post_hook ::= Z.to_euclidean_division_equations.

Local Arguments digits_n : simpl never.
Local Arguments is_float : simpl never.
Local Arguments to_decimal : simpl never.
Local Arguments py_int : simpl never.
Local Arguments py_isdigit : simpl never.
Local Arguments slen : simpl never.
Local Arguments has_dot : simpl never.
Local Arguments find_dot : simpl never.
Local Arguments info_jump : simpl never.
Local Arguments info_weekday : simpl never.
Local Arguments info_month : simpl never.
Local Arguments info_hms : simpl never.
Local Arguments info_ampm : simpl never.
Local Arguments info_pertain : simpl never.
Local Arguments info_utczone : simpl never.
Local Arguments info_tzoffset : simpl never.
Local Arguments is1 : simpl never.
Local Arguments str_eqb : simpl never.
Local Arguments could_be_tzname : simpl never.
Local Arguments parsems : simpl never.
Local Arguments all_digit : simpl never.
Local Arguments convertyear : simpl never.
Local Arguments dt_replace : simpl never.
Local Arguments valid_dt : simpl never.
Local Arguments monthlen : simpl never.
Local Arguments Z.eqb !x !y.
Local Arguments Z.ltb !x !y.
Local Arguments Z.leb !x !y.
Local Arguments Z.add !x !y.
Local Arguments Z.mul !x !y.
Local Arguments Z.sub !m !n.
Local Arguments Z.opp !x.

(* options under which these templates are claimed: dayfirst = False (keyword absent, parserinfo
   default), no tzinfos; yearfirst, ignoretz, default, current year, local zone names arbitrary *)
Definition opts_df0 (yf ig : bool) (df : dt7) (cy : Z) (loc : list str) (n0 n1 : bool) : opts :=
  mkOpts false false None None false yf ig TINone df cy loc n0 n1.

Definition date_segs (f : dform) (d : dt7) : list seg :=
  let y4 := SDig (digits_n 4 (d_y d)) in
  let m2 := SDig (digits_n 2 (d_mo d)) in
  let d2 := SDig (digits_n 2 (d_d d)) in
  match f with
  | DIso => [y4; SSep 45; m2; SSep 45; d2]
  | DSlashYMD => [y4; SSep 47; m2; SSep 47; d2]
  | DUS => [m2; SSep 47; d2; SSep 47; y4]
  | _ => []
  end.

Definition join_segs (j : joiner) : list seg :=
  match j with JT => [SWord [84]] | JSpace => [SSep 32] | JNone => [] end.

Definition time_segs (f : tform) (d : dt7) : list seg :=
  let h2 := SDig (digits_n 2 (d_h d)) in
  let mi2 := SDig (digits_n 2 (d_mi d)) in
  let s2 := SDig (digits_n 2 (d_s d)) in
  match f with
  | THM => [h2; SSep 58; mi2]
  | THMS => [h2; SSep 58; mi2; SSep 58; s2]
  | _ => []
  end.

Definition segs_of (t : template) (d : dt7) : list seg :=
  match t with
  | TDT df j tf ONone => date_segs df d ++ join_segs j ++ time_segs tf d
  | _ => []
  end.

Lemma nonempty_digits k n : nonempty (digits_n (S k) n) = true.
Proof. destruct (digits_n (S k) n) eqn:E; [exfalso; eapply digits_n_nonempty; eauto|reflexivity]. Qed.

Ltac render_tac :=
  unfold render, render_date, render_time, render_off, join_txt, segs_of, date_segs, join_segs, time_segs;
  cbn [map concat seg_str app]; repeat rewrite <- app_assoc; cbn [app]; rewrite ?app_nil_r; reflexivity.

Ltac wf_tac :=
  unfold segs_of, date_segs, join_segs, time_segs; cbn [app wf_segs wf_seg hd_error ok_next];
  rewrite ?digits_n_all_digit, ?digits_n_length, ?nonempty_digits; vm_compute; reflexivity.

Ltac run_tpl Hrender Hwf :=
  unfold parse, opts_df0;
  cbn [o_fuzzy o_fwt o_yearfirst o_info_yearfirst o_dayfirst o_info_dayfirst o_cur_year oflag o_default
       o_ignoretz o_tzinfos o_local o_nm0 o_nm1];
  unfold parse_res; rewrite Hrender, timelex_segments by exact Hwf;
  unfold segs_of, date_segs, join_segs, time_segs; cbn [app map seg_tok];
  repeat (progress sym1);
  try match goal with |- (if ?b then _ else _) = _ => destruct b end;
  reflexivity.

(* date forms with a four-digit year first or last, separators - or /, joined by T or a space
   to HH:MM or HH:MM:SS, no zone *)
Definition plain_dforms : list dform := [DIso; DSlashYMD].
Definition plain_joiners : list joiner := [JT; JSpace].
Definition plain_tforms : list tform := [THM; THMS].

Theorem parse_render_numeric_date_time_lemma : forall f j tf d o df cy loc n0 n1 yf ig,
  In f plain_dforms -> In j plain_joiners -> In tf plain_tforms ->
  valid_dt d = true -> valid_dt df = true ->
  parse (opts_df0 yf ig df cy loc n0 n1) (render (TDT f j tf ONone) d o)
  = OutOk (expected_dt (TDT f j tf ONone) d df) ZNaive 0 false [].
Proof.
  intros f j tf d o df cy loc n0 n1 yf ig Hf Hj Htf Hd Hdf.
  destruct (valid_dt_ranges d Hd) as (Ry & Rmo & Rd & Rh & Rmi & Rs & Rus).
  assert (Hm12 : 1 <= d_mo d <= 12 /\ 1 <= d_d d <= 31).
  { unfold valid_dt, valid_ymd in Hd. pose proof (dim_pos (d_y d) (d_mo d)). lia. }
  destruct Hm12 as [Hm12 Hd31].
  unfold plain_dforms, plain_joiners, plain_tforms in *. cbn [In] in Hf, Hj, Htf.
  destruct Hf as [<- | [<- | []]]; destruct Hj as [<- | [<- | []]]; destruct Htf as [<- | [<- | []]];
  match goal with |- parse _ (render ?t d o) = _ =>
    assert (Hrender : render t d o = concat (map seg_str (segs_of t d))) by render_tac;
    assert (Hwf : wf_segs (segs_of t d) = true) by wf_tac
  end;
  run_tpl Hrender Hwf.
Qed.

(* US order MM/DD/YYYY (dayfirst = False, yearfirst = False) *)
Theorem parse_render_us_date_time_lemma : forall j tf d o df cy loc n0 n1 ig,
  In j plain_joiners -> In tf plain_tforms ->
  valid_dt d = true -> valid_dt df = true ->
  parse (opts_df0 false ig df cy loc n0 n1) (render (TDT DUS j tf ONone) d o)
  = OutOk (expected_dt (TDT DUS j tf ONone) d df) ZNaive 0 false [].
Proof.
  intros j tf d o df cy loc n0 n1 ig Hj Htf Hd Hdf.
  destruct (valid_dt_ranges d Hd) as (Ry & Rmo & Rd & Rh & Rmi & Rs & Rus).
  assert (Hm12 : 1 <= d_mo d <= 12 /\ 1 <= d_d d <= 31).
  { unfold valid_dt, valid_ymd in Hd. pose proof (dim_pos (d_y d) (d_mo d)). lia. }
  destruct Hm12 as [Hm12 Hd31].
  unfold plain_joiners, plain_tforms in *. cbn [In] in Hj, Htf.
  destruct Hj as [<- | [<- | []]]; destruct Htf as [<- | [<- | []]];
  match goal with |- parse _ (render ?t d o) = _ =>
    assert (Hrender : render t d o = concat (map seg_str (segs_of t d))) by render_tac;
    assert (Hwf : wf_segs (segs_of t d) = true) by wf_tac
  end;
  run_tpl Hrender Hwf.
Qed.
