(* C02 (helper rdalg): DD.MM.YYYY under dayfirst=True, alone or followed by " HH:MM" / " HH:MM:SS".
   The dotted date is one '0.' token that the lexer splits (parse/LexSegX.v). *)
From Coq Require Import ZArith List Bool Lia ZifyBool.
From V Require Import base.Cal gen.ParseTables parse.Lex parse.Prim parse.Ymd parse.Parse parse.Build
                      parse.ParseSpec parse.LexSeg parse.TokFacts parse.YearThm parse.RenderTac parse.RenderTac3 parse.RenderIso parse.RenderTac4 parse.YearThm2 parse.RenderFlags parse.LexSegX.
Import ListNotations.
Open Scope Z_scope.
Ltac Zify.zify_post_hook ::= Z.to_euclidean_division_equations.

Local Arguments digits_n : simpl never.
Local Arguments is_float : simpl never.
Local Arguments to_decimal : simpl never.
Local Arguments py_int : simpl never.
Local Arguments py_isdigit : simpl never.
Local Arguments slen : simpl never.
Local Arguments has_dot : simpl never.
Local Arguments find_dot : simpl never.
Local Arguments info_jump : simpl never.
Local Arguments info_weekday : simpl never.
Local Arguments info_month : simpl never.
Local Arguments info_hms : simpl never.
Local Arguments info_ampm : simpl never.
Local Arguments info_pertain : simpl never.
Local Arguments info_utczone : simpl never.
Local Arguments info_tzoffset : simpl never.
Local Arguments is1 : simpl never.
Local Arguments str_eqb : simpl never.
Local Arguments could_be_tzname : simpl never.
Local Arguments parsems : simpl never.
Local Arguments all_digit : simpl never.
Local Arguments convertyear : simpl never.
Local Arguments dt_replace : simpl never.
Local Arguments valid_dt : simpl never.
Local Arguments monthlen : simpl never.
Local Arguments Z.eqb !x !y.
Local Arguments Z.ltb !x !y.
Local Arguments Z.leb !x !y.
Local Arguments Z.add !x !y.
Local Arguments Z.mul !x !y.
Local Arguments Z.sub !m !n.
Local Arguments Z.opp !x.


Definition dot_tail (j : joiner) (tf : tform) (d : dt7) : list seg := join_segs j ++ time_segs tf d.

Theorem parse_render_eu_dot_lemma : forall jt d o df cy loc n0 n1 ig,
  In jt flag_tails ->
  valid_dt d = true -> valid_dt df = true ->
  parse (opts_kw (fst (flags_of (TDT DEUDot (fst jt) (snd jt) ONone))) (snd (flags_of (TDT DEUDot (fst jt) (snd jt) ONone)))
                 ig df cy loc n0 n1)
        (render (TDT DEUDot (fst jt) (snd jt) ONone) d o)
  = OutOk (expected_dt (TDT DEUDot (fst jt) (snd jt) ONone) d df) ZNaive 0 false [].
Proof.
  intros jt d o df cy loc n0 n1 ig Hjt Hd Hdf.
  destruct (valid_dt_ranges d Hd) as (Ry & Rmo & Rd & Rh & Rmi & Rs & Rus).
  assert (Hm12 : 1 <= d_mo d <= 12 /\ 1 <= d_d d <= 31 /\ 1 <= d_y d).
  { unfold valid_dt, valid_ymd in Hd. pose proof (dim_pos (d_y d) (d_mo d)). lia. }
  destruct Hm12 as (Hm12 & Hd31 & Hy1).
  unfold flag_tails in *. cbn [In] in Hjt.
  destruct Hjt as [<- | [<- | [<- | []]]]; cbn [fst snd flags_of] in *;
  match goal with |- parse _ (render (TDT DEUDot ?j ?tf ONone) d o) = _ =>
    assert (Hrender : render (TDT DEUDot j tf ONone) d o
                      = (digits_n 2 (d_d d) ++ 46 :: digits_n 2 (d_mo d) ++ 46 :: digits_n 4 (d_y d))
                        ++ concat (map seg_str (dot_tail j tf d)))
      by (unfold render, render_date, render_time, render_off, join_txt, dot_tail, join_segs, time_segs;
          cbn [map concat seg_str app]; repeat (progress (rewrite <- ?app_assoc, ?app_nil_r; cbn [app])); reflexivity);
    assert (Hwf : wf_segs (dot_tail j tf d) = true)
      by (unfold dot_tail, join_segs, time_segs; cbn [app wf_segs wf_seg hd_error ok_next];
          rewrite ?digits_n_all_digit, ?digits_n_length, ?nonempty_digits; vm_compute; reflexivity);
    assert (Hok : ok_after_dotted (dot_tail j tf d) = true) by reflexivity
  end;
  unfold parse, opts_kw;
  cbn [o_fuzzy o_fwt o_yearfirst o_info_yearfirst o_dayfirst o_info_dayfirst o_cur_year oflag o_default
       o_ignoretz o_tzinfos o_local o_nm0 o_nm1];
  unfold parse_res; rewrite Hrender;
  rewrite timelex_dotted3 by (first [exact Hwf | exact Hok | (rewrite nonempty_digits, digits_n_all_digit; reflexivity)]);
  clear Hrender Hwf Hok;
  unfold dot_tail, join_segs, time_segs; cbn [app map seg_tok length];
  lrun ltac:(zeq);
  try match goal with |- (if ?b then _ else _) = _ => destruct b end;
  zeq; first [reflexivity | (repeat f_equal; lia)].
Qed.
