(* C02: parse_render theorems for day - month name - year forms (DD Mon YYYY, DD Month YYYY). *)
From Coq Require Import ZArith List Bool Lia ZifyBool.
From V Require Import base.Cal gen.ParseTables parse.Lex parse.Prim parse.Ymd parse.Parse parse.Build
                      parse.ParseSpec parse.LexSeg parse.TokFacts parse.YearThm parse.RenderTac parse.RenderIso parse.WordFacts parse.RenderMonDefs.
Import ListNotations.
Open Scope Z_scope.
Ltac Zify.zify_post_hook ::= Z.to_euclidean_division_equations.

Local Arguments digits_n : simpl never.
Local Arguments is_float : simpl never.
Local Arguments to_decimal : simpl never.
Local Arguments py_int : simpl never.
Local Arguments py_isdigit : simpl never.
Local Arguments slen : simpl never.
Local Arguments has_dot : simpl never.
Local Arguments find_dot : simpl never.
Local Arguments info_jump : simpl never.
Local Arguments info_weekday : simpl never.
Local Arguments info_month : simpl never.
Local Arguments info_hms : simpl never.
Local Arguments info_ampm : simpl never.
Local Arguments info_pertain : simpl never.
Local Arguments info_utczone : simpl never.
Local Arguments info_tzoffset : simpl never.
Local Arguments is1 : simpl never.
Local Arguments str_eqb : simpl never.
Local Arguments could_be_tzname : simpl never.
Local Arguments parsems : simpl never.
Local Arguments all_digit : simpl never.
Local Arguments convertyear : simpl never.
Local Arguments dt_replace : simpl never.
Local Arguments valid_dt : simpl never.
Local Arguments monthlen : simpl never.
Local Arguments Z.eqb !x !y.
Local Arguments Z.ltb !x !y.
Local Arguments Z.leb !x !y.
Local Arguments Z.add !x !y.
Local Arguments Z.mul !x !y.
Local Arguments Z.sub !m !n.
Local Arguments Z.opp !x.

Local Arguments mon3 : simpl never.
Local Arguments month_name : simpl never.
Local Arguments wd3 : simpl never.


Lemma parse_render_DDMonY_JSpace_THMS_gt : forall d o df cy loc n0 n1 yf ig,
  valid_dt d = true -> valid_dt df = true -> 100 < d_y d ->
  parse (opts_df0 yf ig df cy loc n0 n1) (render (TDT DDMonY JSpace THMS ONone) d o)
  = OutOk (expected_dt (TDT DDMonY JSpace THMS ONone) d df) ZNaive 0 false [].
Proof.
  intros d o df cy loc n0 n1 yf ig Hd Hdf Hyc.
  destruct (valid_dt_ranges d Hd) as (Ry & Rmo & Rd & Rh & Rmi & Rs & Rus).
  assert (Hm12 : 1 <= d_mo d <= 12 /\ 1 <= d_d d <= 31).
  { unfold valid_dt, valid_ymd in Hd. pose proof (dim_pos (d_y d) (d_mo d)). lia. }
  destruct Hm12 as [Hm12 Hd31].
  match goal with |- parse _ (render ?t d o) = _ =>
    assert (Hrender : render t d o = concat (map seg_str (msegs_of t d))) by mrender_tac;
    assert (Hwf : wf_segs (msegs_of t d) = true) by mwf_tac Hm12
  end;
  unfold parse, opts_df0;
  cbn [o_fuzzy o_fwt o_yearfirst o_info_yearfirst o_dayfirst o_info_dayfirst o_cur_year oflag o_default
       o_ignoretz o_tzinfos o_local o_nm0 o_nm1];
  unfold parse_res; rewrite Hrender, timelex_segments by exact Hwf; clear Hrender Hwf;
  unfold msegs_of, mdate_segs, join_segs, time_segs; cbn [app map seg_tok];
  msym Hm12;
  try match goal with |- (if ?b then _ else _) = _ => destruct b end;
  reflexivity.
Qed.
