(* Lexer lemma for rendered strings: a string that is a concatenation of well-separated segments
   (digit runs, letter runs, single separator characters, digits.digits / digits,digits fractions)
   lexes to exactly one token per segment. *)
From Coq Require Import ZArith List Bool Lia.
From V Require Import gen.ParseTables parse.Lex.
Import ListNotations.
Open Scope Z_scope.

Inductive seg :=
| SDig (ds : str)
| SWord (cs : str)
| SSep (c : Z)
| SFrac (a b : str) (comma : bool).

Definition seg_str (s : seg) : str :=
  match s with
  | SDig ds => ds
  | SWord cs => cs
  | SSep c => [c]
  | SFrac a b comma => a ++ (if comma then 44 else 46) :: b
  end.

Definition seg_tok (s : seg) : str :=
  match s with
  | SDig ds => ds
  | SWord cs => cs
  | SSep c => [if is_space c then 32 else c]
  | SFrac a b _ => a ++ 46 :: b
  end.

Definition all_digit (t : str) : bool := forallb is_digit t.
Definition all_alpha (t : str) : bool := forallb is_alpha t.
Definition nonempty (t : str) : bool := match t with [] => false | _ => true end.

Definition wf_seg (s : seg) : bool :=
  match s with
  | SDig ds => nonempty ds && all_digit ds
  | SWord cs => nonempty cs && all_alpha cs
  | SSep c => negb (is_alpha c) && negb (is_digit c) && negb (c =? 0)
  | SFrac a b comma => nonempty a && all_digit a && nonempty b && all_digit b
                       && (negb comma || (2 <=? Z.of_nat (length a)))
  end.

(* may [s] be followed by [next]? *)
Definition ok_next (s : seg) (next : option seg) : bool :=
  match s, next with
  | _, None => true
  | SSep _, _ => true
  | SDig ds, Some (SWord _) => true
  | SDig ds, Some (SSep c) => negb (c =? 46) && (negb (c =? 44) || (Z.of_nat (length ds) <? 2))
  | SDig _, Some _ => false
  | SWord _, Some (SDig _) | SWord _, Some (SFrac _ _ _) => true
  | SWord _, Some (SSep c) => negb (c =? 46)
  | SWord _, Some (SWord _) => false
  | SFrac _ _ _, Some (SSep c) => negb (c =? 46)
  | SFrac _ _ _, Some (SWord _) => true
  | SFrac _ _ _, Some _ => false
  end.

Fixpoint wf_segs (l : list seg) : bool :=
  match l with
  | [] => true
  | s :: l' => wf_seg s && ok_next s (hd_error l') && wf_segs l'
  end.

(* ---- basic character facts ---- *)
Lemma digit_nz c : is_digit c = true -> (c =? 0) = false.
Proof. destruct (c =? 0) eqn:E; [apply Z.eqb_eq in E; subst; discriminate|reflexivity]. Qed.
Lemma alpha_nz c : is_alpha c = true -> (c =? 0) = false.
Proof. destruct (c =? 0) eqn:E; [apply Z.eqb_eq in E; subst; discriminate|reflexivity]. Qed.
Lemma digit_not_alpha c : is_digit c = true -> is_alpha c = false.
Proof.
  unfold is_digit, is_alpha. destruct (c <? 128) eqn:E.
  - intros H. apply andb_prop in H. destruct H as [H1 H2].
    apply Z.leb_le in H1, H2.
    destruct ((65 <=? c) && (c <=? 90)) eqn:E1; [apply andb_prop in E1; destruct E1 as [A B]; apply Z.leb_le in A; lia|].
    destruct ((97 <=? c) && (c <=? 122)) eqn:E2; [apply andb_prop in E2; destruct E2 as [A B]; apply Z.leb_le in A; lia|].
    reflexivity.
  - (* table rows: no code point is both alpha and digit *)
    destruct (zassoc c tbl_chars) as [[[[a d] s] x]|] eqn:Ez; [|discriminate].
    intros ->.
    assert (Hall : forallb (fun p : Z * ((bool * bool * bool) * (Z * list Z)) =>
                     let '(_, ((a, d, _), _)) := p in negb (a && d)) tbl_chars = true) by (vm_compute; reflexivity).
    clear E. revert Ez Hall. generalize tbl_chars. induction l as [|[k v] l IH]; cbn [zassoc forallb]; [discriminate|].
    intros Ez Hall. apply andb_prop in Hall. destruct Hall as [H1 H2].
    destruct (k =? c); [|auto]. injection Ez as ->. destruct a; [discriminate|reflexivity].
Qed.
Lemma digit_not46 c : is_digit c = true -> (c =? 46) = false.
Proof. destruct (c =? 46) eqn:E; [apply Z.eqb_eq in E; subst; discriminate|reflexivity]. Qed.
Lemma digit_not44 c : is_digit c = true -> (c =? 44) = false.
Proof. destruct (c =? 44) eqn:E; [apply Z.eqb_eq in E; subst; discriminate|reflexivity]. Qed.
Lemma alpha_not46 c : is_alpha c = true -> (c =? 46) = false.
Proof. destruct (c =? 46) eqn:E; [apply Z.eqb_eq in E; subst; discriminate|reflexivity]. Qed.

(* ---- the lexer restarted on a non-NUL character ---- *)
Lemma lex_start c s : (c =? 0) = false ->
  lex_go None false [] (c :: s) =
  if is_alpha c then lex_go (Some SA) false [c] s
  else if is_digit c then lex_go (Some S0) false [c] s
  else if is_space c then [32] :: lex_go None false [] s
  else [c] :: lex_go None false [] s.
Proof. intros H. cbn [lex_go]. rewrite H. reflexivity. Qed.

(* ---- runs ---- *)
Lemma run_digits ds : forall seen rtok rest, all_digit ds = true ->
  lex_go (Some S0) seen rtok (ds ++ rest) = lex_go (Some S0) seen (rev ds ++ rtok) rest.
Proof.
  induction ds as [|d ds IH]; intros seen rtok rest H; [reflexivity|].
  cbn [all_digit forallb] in H. apply andb_prop in H. destruct H as [Hd H].
  cbn [app lex_go]. rewrite (digit_nz d Hd), Hd. rewrite IH by exact H.
  cbn [rev]. rewrite <- app_assoc. reflexivity.
Qed.

Lemma run_digits_d ds : forall seen rtok rest, all_digit ds = true ->
  lex_go (Some S0d) seen rtok (ds ++ rest) = lex_go (Some S0d) seen (rev ds ++ rtok) rest.
Proof.
  induction ds as [|d ds IH]; intros seen rtok rest H; [reflexivity|].
  cbn [all_digit forallb] in H. apply andb_prop in H. destruct H as [Hd H].
  cbn [app lex_go]. rewrite (digit_nz d Hd), Hd, orb_true_r. rewrite IH by exact H.
  cbn [rev]. rewrite <- app_assoc. reflexivity.
Qed.

Lemma run_alpha cs : forall rtok rest, all_alpha cs = true ->
  lex_go (Some SA) true rtok (cs ++ rest) = lex_go (Some SA) true (rev cs ++ rtok) rest.
Proof.
  induction cs as [|d cs IH]; intros rtok rest H; [reflexivity|].
  cbn [all_alpha forallb] in H. apply andb_prop in H. destruct H as [Hd H].
  cbn [app lex_go]. rewrite (alpha_nz d Hd), Hd. rewrite IH by exact H.
  cbn [rev]. rewrite <- app_assoc. reflexivity.
Qed.

(* first character of what follows a segment *)
Definition follows (P : Z -> bool) (rest : list Z) : Prop :=
  rest = [] \/ exists c r, rest = c :: r /\ (c =? 0) = false /\ P c = true.

Lemma rev_rev_app (a : str) (c : Z) : rev (rev a ++ [c]) = c :: a.
Proof. rewrite rev_app_distr, rev_involutive. reflexivity. Qed.

(* a digit run *)
Lemma lex_dig d ds rest :
  is_digit d = true -> all_digit ds = true ->
  follows (fun c => negb (is_digit c) && negb (c =? 46)
                    && (negb (c =? 44) || (Z.of_nat (length (d :: ds)) <? 2))) rest ->
  lex_go None false [] ((d :: ds) ++ rest) = (d :: ds) :: lex_go None false [] rest.
Proof.
  intros Hd Hds Hf. cbn [app]. rewrite lex_start by (apply digit_nz; exact Hd).
  rewrite (digit_not_alpha d Hd), Hd. rewrite run_digits by exact Hds.
  destruct Hf as [-> | (c & r & -> & Hc0 & Hc)].
  - cbn [lex_go finish andb]. rewrite rev_rev_app; try reflexivity.
  - apply andb_prop in Hc. destruct Hc as [Hc H3]. apply andb_prop in Hc. destruct Hc as [H1 H2].
    apply negb_true_iff in H1, H2.
    cbn [lex_go]. rewrite Hc0, H1, H2. cbn [orb].
    assert (Hcomma : ((c =? 44) && (2 <=? Z.of_nat (length (rev ds ++ [d])))) = false).
    { destruct (c =? 44); [|reflexivity]. cbn [negb orb andb] in H3 |- *.
      rewrite app_length, rev_length. cbn [length] in *. apply Z.ltb_lt in H3. apply Z.leb_gt. lia. }
    rewrite Hcomma. cbn [finish andb app]. rewrite rev_rev_app.
    f_equal; try (symmetry; apply lex_start; exact Hc0).
Qed.

(* a letter run (not followed by '.') *)
Lemma lex_word d cs rest :
  is_alpha d = true -> all_alpha cs = true ->
  follows (fun c => negb (is_alpha c) && negb (c =? 46)) rest ->
  lex_go None false [] ((d :: cs) ++ rest) = (d :: cs) :: lex_go None false [] rest.
Proof.
  intros Hd Hcs Hf. cbn [app]. rewrite lex_start by (apply alpha_nz; exact Hd). rewrite Hd.
  destruct cs as [|c2 cs].
  - cbn [app]. destruct Hf as [-> | (c & r & -> & Hc0 & Hc)].
    + reflexivity.
    + apply andb_prop in Hc. destruct Hc as [H1 H2]. apply negb_true_iff in H1, H2.
      cbn [lex_go]. rewrite Hc0, H1, H2. cbn [finish andb rev app].
      f_equal; try (symmetry; apply lex_start; exact Hc0).
  - cbn [all_alpha forallb] in Hcs. apply andb_prop in Hcs. destruct Hcs as [Hc2 Hcs].
    cbn [app lex_go]. rewrite (alpha_nz c2 Hc2), Hc2.
    rewrite run_alpha by exact Hcs.
    destruct Hf as [-> | (c & r & -> & Hc0 & Hc)].
    + cbn [lex_go finish andb].
      replace (rev cs ++ [c2; d]) with (rev (c2 :: cs) ++ [d]) by (cbn [rev]; rewrite <- app_assoc; reflexivity).
      rewrite rev_rev_app; try reflexivity.
    + apply andb_prop in Hc. destruct Hc as [H1 H2]. apply negb_true_iff in H1, H2.
      cbn [lex_go]. rewrite Hc0, H1, H2. cbn [finish andb].
      replace (rev cs ++ [c2; d]) with (rev (c2 :: cs) ++ [d]) by (cbn [rev]; rewrite <- app_assoc; reflexivity).
      rewrite rev_rev_app. cbn [app]. f_equal; try (symmetry; apply lex_start; exact Hc0).
Qed.

(* a separator character *)
Lemma lex_sep c rest :
  is_alpha c = false -> is_digit c = false -> (c =? 0) = false ->
  lex_go None false [] (c :: rest) = [if is_space c then 32 else c] :: lex_go None false [] rest.
Proof. intros Ha Hd H0. rewrite lex_start by exact H0. rewrite Ha, Hd. destruct (is_space c); reflexivity. Qed.

(* ---- fractions: digits '.' digits  /  digits ',' digits ---- *)
Lemma count_dot_digits b : all_digit b = true -> count_dot b = 0%nat.
Proof.
  unfold count_dot. induction b as [|d b IH]; cbn [filter forallb all_digit length]; [reflexivity|].
  intros H. apply andb_prop in H. destruct H as [Hd H]. rewrite (digit_not46 d Hd). apply IH. exact H.
Qed.

Lemma count_dot_app a b : count_dot (a ++ b) = (count_dot a + count_dot b)%nat.
Proof. unfold count_dot. rewrite filter_app, app_length. reflexivity. Qed.

Lemma count_dot_cons c t : count_dot (c :: t) = ((if (c =? 46)%Z then 1 else 0) + count_dot t)%nat.
Proof. unfold count_dot. cbn [filter]. destruct (c =? 46); reflexivity. Qed.

Lemma comma_to_dot_digits b : all_digit b = true -> comma_to_dot b = b.
Proof.
  unfold comma_to_dot. induction b as [|d b IH]; cbn [map forallb all_digit]; [reflexivity|].
  intros H. apply andb_prop in H. destruct H as [Hd H]. rewrite (digit_not44 d Hd), IH by exact H. reflexivity.
Qed.

Lemma comma_to_dot_app a b : comma_to_dot (a ++ 44 :: b) = comma_to_dot a ++ 46 :: comma_to_dot b.
Proof. unfold comma_to_dot. rewrite map_app. reflexivity. Qed.

Lemma digit_not_sep' c : is_digit c = true -> is_sep c = false.
Proof. intros H. unfold is_sep. rewrite (digit_not46 c H), (digit_not44 c H). reflexivity. Qed.

Lemma all_digit_cons e es : is_digit e = true -> all_digit es = true -> all_digit (e :: es) = true.
Proof. intros H1 H2. unfold all_digit in *. cbn [forallb]. rewrite H1. exact H2. Qed.

Lemma lex_frac d ds p e es rest :
  is_digit d = true -> all_digit ds = true -> is_digit e = true -> all_digit es = true ->
  (p = 46 \/ (p = 44 /\ 2 <= Z.of_nat (length (d :: ds)))) ->
  follows (fun c => negb (is_digit c) && negb (c =? 46)) rest ->
  lex_go None false [] (((d :: ds) ++ p :: (e :: es)) ++ rest)
  = ((d :: ds) ++ 46 :: (e :: es)) :: lex_go None false [] rest.
Proof.
  intros Hd Hds He Hes Hp Hf.
  rewrite <- app_assoc. cbn [app]. rewrite lex_start by (apply digit_nz; exact Hd).
  rewrite (digit_not_alpha d Hd), Hd. rewrite run_digits by exact Hds.
  assert (Hp0 : (p =? 0) = false) by (destruct Hp as [-> | [-> _]]; reflexivity).
  assert (Hpd : is_digit p = false) by (destruct Hp as [-> | [-> _]]; reflexivity).
  assert (Hgo : ((p =? 46) || ((p =? 44) && (2 <=? Z.of_nat (length (rev ds ++ [d]))))) = true).
  { destruct Hp as [-> | [-> H2]]; [reflexivity|]. cbn [Z.eqb orb andb].
    rewrite app_length, rev_length. cbn [length] in *. apply Z.leb_le. lia. }
  cbn [lex_go]. rewrite Hp0, Hpd, Hgo.
  rewrite (digit_nz e He), He, orb_true_r.
  rewrite (run_digits_d es) by exact Hes.
  set (rtok := rev es ++ e :: p :: rev ds ++ [d]).
  assert (Hrev : rev rtok = (d :: ds) ++ p :: (e :: es)).
  { subst rtok. rewrite rev_app_distr, rev_involutive. cbn [rev]. rewrite rev_app_distr, rev_involutive.
    cbn [rev app]. repeat rewrite <- app_assoc. cbn [app]. reflexivity. }
  assert (Hlast : last_is_dot rtok = false).
  { subst rtok. destruct (rev es) as [|x xs] eqn:Er.
    - cbn [app last_is_dot]. apply digit_not46. exact He.
    - cbn [app last_is_dot].
      assert (Hin : In x es) by (apply in_rev; rewrite Er; left; reflexivity).
      unfold all_digit in Hes. rewrite forallb_forall in Hes. apply digit_not46. apply Hes. exact Hin. }
  assert (Hfin : finish S0d false (rev rtok) = [(d :: ds) ++ 46 :: (e :: es)]).
  { rewrite Hrev. unfold finish.
    assert (Hcd : count_dot ((d :: ds) ++ p :: e :: es) = if p =? 46 then 1%nat else 0%nat).
    { rewrite count_dot_app, (count_dot_cons p).
      rewrite (count_dot_digits (d :: ds)) by (apply all_digit_cons; assumption).
      rewrite (count_dot_digits (e :: es)) by (apply all_digit_cons; assumption).
      destruct (p =? 46); reflexivity. }
    assert (Hls : last_is_sep ((d :: ds) ++ p :: e :: es) = false).
    { unfold last_is_sep. rewrite <- Hrev, rev_involutive. subst rtok.
      destruct (rev es) as [|x xs] eqn:Er.
      - cbn [app]. apply digit_not_sep'. exact He.
      - cbn [app]. assert (Hin : In x es) by (apply in_rev; rewrite Er; left; reflexivity).
        unfold all_digit in Hes. rewrite forallb_forall in Hes. apply digit_not_sep'. apply Hes. exact Hin. }
    rewrite Hcd, Hls.
    destruct Hp as [-> | [-> _]].
    - change (46 =? 46) with true. cbv iota. change (1 <? Z.of_nat 1) with false. cbn [orb andb]. cbv iota.
      rewrite Hcd. change (46 =? 46) with true. cbn [Nat.eqb]. reflexivity.
    - change (44 =? 46) with false. cbv iota. change (1 <? Z.of_nat 0) with false. cbn [orb andb]. cbv iota.
      rewrite Hcd. change (44 =? 46) with false. cbn [Nat.eqb].
      rewrite comma_to_dot_app.
      rewrite (comma_to_dot_digits (d :: ds)) by (apply all_digit_cons; assumption).
      rewrite (comma_to_dot_digits (e :: es)) by (apply all_digit_cons; assumption).
      reflexivity. }
  destruct Hf as [-> | (c & r & -> & Hc0 & Hc)].
  - cbn [lex_go]. rewrite Hfin. reflexivity.
  - apply andb_prop in Hc. destruct Hc as [H1 H2]. apply negb_true_iff in H1, H2.
    cbn [lex_go]. rewrite Hc0, H1, H2, Hlast, andb_false_r. cbn [orb]. rewrite Hfin. cbn [app].
    f_equal; try (symmetry; apply lex_start; exact Hc0).
Qed.

Lemma alpha_not_digit c : is_alpha c = true -> is_digit c = false.
Proof.
  intros H. destruct (is_digit c) eqn:E; [|reflexivity].
  rewrite (digit_not_alpha c E) in H. discriminate.
Qed.
Lemma alpha_not44 c : is_alpha c = true -> (c =? 44) = false.
Proof. destruct (c =? 44) eqn:E; [apply Z.eqb_eq in E; subst; discriminate|reflexivity]. Qed.

(* first character of a well-formed segment *)
Lemma seg_first s : wf_seg s = true ->
  exists c r, seg_str s = c :: r /\ (c =? 0) = false /\
    match s with
    | SDig _ | SFrac _ _ _ => is_digit c = true
    | SWord _ => is_alpha c = true
    | SSep c' => c = c' /\ is_alpha c = false /\ is_digit c = false
    end.
Proof.
  destruct s as [ds|cs|c|a b comma]; cbn [wf_seg seg_str].
  - destruct ds as [|d ds]; [discriminate|]. cbn [nonempty andb all_digit forallb].
    intros H. apply andb_prop in H. destruct H as [Hd _]. exists d, ds. auto using digit_nz.
  - destruct cs as [|d cs]; [discriminate|]. cbn [nonempty andb all_alpha forallb].
    intros H. apply andb_prop in H. destruct H as [Hd _]. exists d, cs. auto using alpha_nz.
  - intros H. apply andb_prop in H. destruct H as [H H0]. apply andb_prop in H. destruct H as [Ha Hd].
    apply negb_true_iff in Ha, Hd, H0. exists c, []. auto.
  - destruct a as [|d ds]; [discriminate|]. cbn [nonempty andb all_digit forallb app].
    intros H. repeat (apply andb_prop in H; destruct H as [H ?]).
    exists d, (ds ++ (if comma then 44 else 46) :: b). auto using digit_nz.
Qed.

Theorem lex_segments l : wf_segs l = true ->
  lex_go None false [] (concat (map seg_str l)) = map seg_tok l.
Proof.
  induction l as [|s l IH]; [reflexivity|].
  cbn [wf_segs map concat]. intros H.
  apply andb_prop in H. destruct H as [H Hl]. apply andb_prop in H. destruct H as [Hs Hn].
  specialize (IH Hl). set (rest := concat (map seg_str l)) in *.
  (* what follows *)
  assert (Hnext : l = [] /\ rest = [] \/
            exists s2 l2 c r, l = s2 :: l2 /\ wf_seg s2 = true /\ rest = c :: r /\ (c =? 0) = false /\
              match s2 with
              | SDig _ | SFrac _ _ _ => is_digit c = true
              | SWord _ => is_alpha c = true
              | SSep c' => c = c' /\ is_alpha c = false /\ is_digit c = false
              end).
  { destruct l as [|s2 l2]; [left; auto|]. right.
    cbn [wf_segs] in Hl. apply andb_prop in Hl. destruct Hl as [Hl _]. apply andb_prop in Hl. destruct Hl as [Hs2 _].
    destruct (seg_first s2 Hs2) as (c & r & E & Hc0 & Hc).
    exists s2, l2, c, (r ++ concat (map seg_str l2)). subst rest. cbn [map concat]. rewrite E. cbn [app]. auto. }
  destruct s as [ds|cs|c|a b comma]; cbn [seg_str seg_tok wf_seg] in *.
  - (* digits *)
    destruct ds as [|d ds]; [discriminate|]. cbn [nonempty andb] in Hs.
    unfold all_digit in Hs. cbn [forallb] in Hs. apply andb_prop in Hs. destruct Hs as [Hd Hds].
    rewrite <- IH. apply lex_dig; [exact Hd | exact Hds |].
    destruct Hnext as [[-> ->] | (s2 & l2 & c & r & -> & Hs2 & -> & Hc0 & Hc)]; [left; reflexivity|right].
    exists c, r. split; [reflexivity|]. split; [exact Hc0|].
    cbn [hd_error ok_next] in Hn. destruct s2; try discriminate.
    + rewrite (alpha_not_digit c Hc), (alpha_not46 c Hc), (alpha_not44 c Hc). reflexivity.
    + destruct Hc as (-> & Ha & Hdg). rewrite Hdg. cbn [negb andb]. exact Hn.
  - (* word *)
    destruct cs as [|d cs]; [discriminate|]. cbn [nonempty andb] in Hs.
    unfold all_alpha in Hs. cbn [forallb] in Hs. apply andb_prop in Hs. destruct Hs as [Hd Hcs].
    rewrite <- IH. apply lex_word; [exact Hd | exact Hcs |].
    destruct Hnext as [[-> ->] | (s2 & l2 & c & r & -> & Hs2 & -> & Hc0 & Hc)]; [left; reflexivity|right].
    exists c, r. split; [reflexivity|]. split; [exact Hc0|].
    cbn [hd_error ok_next] in Hn. destruct s2; try discriminate.
    + rewrite (digit_not_alpha c Hc), (digit_not46 c Hc). reflexivity.
    + destruct Hc as (-> & Ha & Hdg). rewrite Ha. cbn [negb andb]. exact Hn.
    + rewrite (digit_not_alpha c Hc), (digit_not46 c Hc). reflexivity.
  - (* separator *)
    apply andb_prop in Hs. destruct Hs as [Hs H0]. apply andb_prop in Hs. destruct Hs as [Ha Hd].
    apply negb_true_iff in Ha, Hd, H0.
    cbn [app]. rewrite lex_sep by assumption. rewrite IH. reflexivity.
  - (* fraction *)
    apply andb_prop in Hs. destruct Hs as [Hs Hcomma]. apply andb_prop in Hs. destruct Hs as [Hs Hdb].
    apply andb_prop in Hs. destruct Hs as [Hs Hnb]. apply andb_prop in Hs. destruct Hs as [Hna Hda].
    destruct a as [|d ds]; [discriminate Hna|]. destruct b as [|e es]; [discriminate Hnb|].
    unfold all_digit in Hda, Hdb. cbn [forallb] in Hda, Hdb.
    apply andb_prop in Hda. destruct Hda as [Hd Hds]. apply andb_prop in Hdb. destruct Hdb as [He Hes].
    rewrite <- IH.
    apply (lex_frac d ds (if comma then 44 else 46) e es rest Hd Hds He Hes).
    + destruct comma; [right|left; reflexivity]. split; [reflexivity|].
      cbn [negb orb] in Hcomma. apply Z.leb_le in Hcomma. exact Hcomma.
    + destruct Hnext as [[-> ->] | (s2 & l2 & c & r & -> & Hs2 & -> & Hc0 & Hc)]; [left; reflexivity|right].
      exists c, r. split; [reflexivity|]. split; [exact Hc0|].
      cbn [hd_error ok_next] in Hn. destruct s2; try discriminate.
      * rewrite (alpha_not_digit c Hc), (alpha_not46 c Hc). reflexivity.
      * destruct Hc as (-> & Ha & Hdg). rewrite Hdg. cbn [negb andb]. exact Hn.
Qed.

Corollary timelex_segments l : wf_segs l = true -> timelex (concat (map seg_str l)) = map seg_tok l.
Proof. apply lex_segments. Qed.
