(* C02 (helper rdalg): YYYYMMDD{T, space}HHMMSS{.,}f followed by {+,-}HHMM. *)
From Coq Require Import ZArith List Bool Lia ZifyBool.
From V Require Import base.Cal gen.ParseTables parse.Lex parse.Prim parse.Ymd parse.Parse parse.Build
                      parse.ParseSpec parse.LexSeg parse.TokFacts parse.YearThm parse.RenderTac parse.RenderTac3 parse.RenderIso parse.TokFacts2 parse.RenderCompact parse.ParseSpec2 parse.FracFacts parse.RenderFrac parse.TokFactsX parse.RenderOffDefs parse.RenderXCompactFrac parse.RenderOff4 parse.RenderTac4.
Import ListNotations.
Open Scope Z_scope.
Ltac Zify.zify_post_hook ::= Z.to_euclidean_division_equations.

Local Arguments digits_n : simpl never.
Local Arguments is_float : simpl never.
Local Arguments to_decimal : simpl never.
Local Arguments py_int : simpl never.
Local Arguments py_isdigit : simpl never.
Local Arguments slen : simpl never.
Local Arguments has_dot : simpl never.
Local Arguments find_dot : simpl never.
Local Arguments info_jump : simpl never.
Local Arguments info_weekday : simpl never.
Local Arguments info_month : simpl never.
Local Arguments info_hms : simpl never.
Local Arguments info_ampm : simpl never.
Local Arguments info_pertain : simpl never.
Local Arguments info_utczone : simpl never.
Local Arguments info_tzoffset : simpl never.
Local Arguments is1 : simpl never.
Local Arguments str_eqb : simpl never.
Local Arguments could_be_tzname : simpl never.
Local Arguments parsems : simpl never.
Local Arguments all_digit : simpl never.
Local Arguments convertyear : simpl never.
Local Arguments dt_replace : simpl never.
Local Arguments valid_dt : simpl never.
Local Arguments monthlen : simpl never.
Local Arguments Z.eqb !x !y.
Local Arguments Z.ltb !x !y.
Local Arguments Z.leb !x !y.
Local Arguments Z.add !x !y.
Local Arguments Z.mul !x !y.
Local Arguments Z.sub !m !n.
Local Arguments Z.opp !x.

Local Arguments firstn : simpl never.
Local Arguments skipn : simpl never.
Local Arguments slice : simpl never.

Local Arguments frac_digits : simpl never.
Local Arguments trunc_us : simpl never.

Ltac zeqy :=
  repeat match goal with
  | |- context [Z.eqb ?a ?b] =>
      first [ replace (Z.eqb a b) with true by lia | replace (Z.eqb a b) with false by lia ]
  end.


Local Arguments firstn : simpl never.
Local Arguments skipn : simpl never.

Definition cfo_segs (space : bool) (k : nat) (comma : bool) (d : dt7) (o : offs) : list seg :=
  cf_segs space k comma d ++ off4_segs o.

Theorem parse_render_compact_frac_offset4 : forall space k comma d o df cy loc n0 n1 yf ig,
  (1 <= k <= 9)%nat ->
  valid_dt d = true -> valid_dt df = true -> wf_off o = true -> smem utc_name loc = false ->
  parse (opts_df0 yf ig df cy loc n0 n1) (render_cf space k comma OHHMM d o)
  = OutOk (expected_cf_dt k d)
          (if ig then ZNaive else
           match expected_cf_off OHHMM o with Some v => zone_of_off v | None => ZNaive end) 0 false [].
Proof.
  intros space k comma d o df cy loc n0 n1 yf ig Hk Hd Hdf Ho Hloc.
  assert (Hoff : (0 <= of_h o < 10 ^ Z.of_nat 2) /\ (0 <= of_m o < 10 ^ Z.of_nat 2) /\ 0 <= of_h o <= 23 /\ 0 <= of_m o <= 59).
  { unfold wf_off in Ho. change (10 ^ Z.of_nat 2) with 100. lia. }
  destruct Hoff as (Roh & Rom & Hoh & Hom).
  destruct o as [pos oh om]. cbn [of_pos of_h of_m] in *.
  unfold smem, utc_name in Hloc.
  assert (E4 : T4o oh om = digits_n 4 (oh * 100 + om)) by (apply T4o_eq; lia).
  assert (H4 : 0 <= oh * 100 + om < 10 ^ Z.of_nat 4) by (change (10 ^ Z.of_nat 4) with 10000; lia).
  pose proof (cat_slen _ 3%nat _ E4) as F4.
  assert (W4 : wf_seg (SDig (T4o oh om)) = true) by (cbn [wf_seg]; rewrite E4, nonempty_digits, digits_n_all_digit; reflexivity).
  assert (L4 : length (T4o oh om) = 4%nat) by (rewrite E4; apply digits_n_length).
  clear E4.
  destruct (valid_dt_ranges d Hd) as (Ry & Rmo & Rd & Rh & Rmi & Rs & Rus).
  assert (Hm12 : 1 <= d_mo d <= 12 /\ 1 <= d_d d <= 31).
  { unfold valid_dt, valid_ymd in Hd. pose proof (dim_pos (d_y d) (d_mo d)). lia. }
  destruct Hm12 as [Hm12 Hd31].
  pose proof Ry as Ry'; pose proof Rmo as Rmo'; pose proof Rd as Rd'; pose proof Rh as Rh'; pose proof Rmi as Rmi';
  pose proof Rs as Rs'. rewrite p4 in Ry'. rewrite p2 in Rmo', Rd', Rh', Rmi', Rs'.
  assert (Hs100 : 0 <= d_s d < 100) by exact Rs'.
  assert (Hus : 0 <= d_us d < 1000000) by (change (10 ^ Z.of_nat 6) with 1000000 in Rus; exact Rus).
  assert (Hkne : nonempty (frac_digits k (d_us d)) = true).
  { destruct k as [|k']; [lia|]. apply frac_digits_nonempty. }
  pose proof (trunc_us_range k _ Hus) as Htr.
  pose proof (cat422 (d_y d) (d_mo d) (d_d d) Rmo' Rd') as E8. fold (T8 d) in E8.
  pose proof (cat222 (d_h d) (d_mi d) (d_s d) Rmi' Rs') as E6. fold (T6 d) in E6.
  assert (H8 : 0 <= (d_y d * 100 + d_mo d) * 100 + d_d d < 10 ^ Z.of_nat 8) by (change (10 ^ Z.of_nat 8) with 100000000; lia).
  assert (H6 : 0 <= (d_h d * 100 + d_mi d) * 100 + d_s d < 10 ^ Z.of_nat 6) by (change (10 ^ Z.of_nat 6) with 1000000; lia).
  cat_facts E8 7%nat H8.
  set (fr := frac_digits k (d_us d)) in *.
  assert (Hfd : all_digit fr = true) by apply frac_digits_all_digit.
  assert (Hfdec : all_decimal fr = true) by apply frac_digits_all_decimal.
  pose proof (cf_to_decimal (T6 d) fr _ E6 H6 Hfdec) as G1.
  pose proof (cf_is_float (T6 d) fr _ E6 H6 Hfdec) as G2.
  pose proof (cf_slen (T6 d) fr _ E6 H6) as G3. unfold fr in G3 at 2. rewrite frac_digits_length in G3.
  pose proof (cf_find_dot (T6 d) fr _ E6) as G4.
  pose proof (cf_has_dot (T6 d) fr) as G5.
  assert (W8 : wf_seg (SDig (T8 d)) = true) by (cbn [wf_seg]; rewrite E8, nonempty_digits, digits_n_all_digit; reflexivity).
  assert (L8 : length (T8 d) = 8%nat) by (rewrite E8; apply digits_n_length).
  assert (L6 : length (T6 d) = 6%nat) by (rewrite E6; apply digits_n_length).
  assert (N6 : nonempty (T6 d) = true) by (rewrite E6; apply nonempty_digits).
  assert (A6 : all_digit (T6 d) = true) by (rewrite E6; apply digits_n_all_digit).
  clear E8 E6.
  destruct space; destruct comma; destruct pos;
  match goal with |- parse _ (render_cf ?sp ?k ?c OHHMM d ?o) = _ =>
    assert (Hrender : render_cf sp k c OHHMM d o = concat (map seg_str (cfo_segs sp k c d o)))
      by (unfold render_cf, render_date, render_off, cfo_segs, cf_segs, off4_segs, T4o, T8, T6, fr;
          cbn [map concat seg_str app of_pos of_h of_m]; repeat (progress (rewrite <- ?app_assoc, ?app_nil_r; cbn [app])); reflexivity);
    assert (Hwf : wf_segs (cfo_segs sp k c d o) = true)
      by (unfold cfo_segs, cf_segs, off4_segs; fold fr; cbv [app]; cbn [wf_segs hd_error ok_next of_pos of_h of_m];
          rewrite ?W8, ?L8, ?W4, ?L4; cbn [wf_seg]; rewrite ?N6, ?A6, ?Hkne, ?Hfd, ?L6;
          rewrite ?digits_n_all_digit, ?digits_n_length, ?nonempty_digits; vm_compute; reflexivity)
  end;
  unfold parse, opts_df0;
  cbn [o_fuzzy o_fwt o_yearfirst o_info_yearfirst o_dayfirst o_info_dayfirst o_cur_year oflag o_default
       o_ignoretz o_tzinfos o_local o_nm0 o_nm1];
  unfold parse_res; rewrite Hrender, timelex_segments by exact Hwf; clear Hrender Hwf;
  unfold cfo_segs, cf_segs, off4_segs, expected_cf_dt, expected_cf_off, expected_off, off_secs, zone_of_off;
  fold fr; cbn [map seg_tok of_pos of_h of_m]; cbv [app]; cbn [map seg_tok length];
  unfold T8, T6 in *;
  rewrite <- ?app_assoc in G1, G2, G3, G4, G5; cbn [app] in G1, G2, G3, G4, G5;
  rewrite <- ?app_assoc; cbn [app];
  lrun ltac:(catrw; slrw; rewrite <- ?app_assoc; cbn [app];
             rewrite ?G1, ?G2, ?G3, ?G4, ?G5, ?F4; unfold T4o; rewrite ?sl_0_2, ?sk_2; fold (T4o oh om); zeqy; unfold fr;
             rewrite ?tok_parsems_frac by (first [assumption | lia]); fold fr);
  try (match goal with |- context [match ?x with Z0 => _ | Zpos _ => _ | Zneg _ => _ end] => destruct x eqn:Esecs end);
  try lia;
  repeat (progress (sym2; rewrite ?firstn_digits_all; rewrite ?Hloc; rewrite ?tzoffset_ok_small by lia));
  try match goal with |- (if ?b then _ else _) = _ => destruct b end;
  zeqy; first [reflexivity | (repeat f_equal; lia)].
Qed.
