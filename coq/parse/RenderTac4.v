(* Symbolic execution, third version: the while loop is unrolled one iteration at a time
   (parse_loop_S) and `parse_loop` itself never unfolds under cbn, so every round simplifies one
   parse_step on a concrete state instead of the whole remaining loop (quadratic otherwise). *)
From Coq Require Import ZArith List Bool Lia ZifyBool.
From V Require Import base.Cal gen.ParseTables parse.Lex parse.Prim parse.Ymd parse.Parse parse.Build
                      parse.ParseSpec parse.LexSeg parse.TokFacts parse.YearThm parse.RenderTac parse.RenderTac3.
Import ListNotations.
Open Scope Z_scope.

Lemma parse_loop_S f fz cy st :
  parse_loop (S f) fz cy st =
  if (length (p_l st) <=? p_i st)%nat then Ok st
  else bind (parse_step fz cy st) (parse_loop f fz cy).
Proof. reflexivity. Qed.

Lemma parse_loop_done f fz cy st :
  (length (p_l st) <=? p_i st)%nat = true -> parse_loop f fz cy st = Ok st.
Proof. intros H. destruct f; cbn [parse_loop]; rewrite H; reflexivity. Qed.

Global Arguments parse_loop : simpl never.

(* extra: the per-file rewriting step (word facts etc.) *)
Ltac lrun extra :=
  repeat (rewrite parse_loop_S; cbn [length p_l p_i Nat.leb]; repeat (progress (sym2; extra)));
  rewrite ?parse_loop_done by reflexivity;
  repeat (progress (sym2; extra)).
