(* Token-shape invariant of the lexer (audit item: Prim.v's int()/float()/Decimal() acceptance predicates are
   sound only for tokens of this shape).  Every token of `timelex s` is a single character, or consists of
   letters, digits, '.' and ',' only with no letter next to a digit: every maximal separator-free group is all
   letters or all digits.  Hence no token contains a sign, an underscore or a space next to other characters,
   an exponent form ("1e5"), "nan123", "1_0" ...: on such tokens Python's float()/Decimal()/int() accept exactly
   digits+ [. digits*] and the words inf / nan / infinity, which is what Prim.v models. *)
From Coq Require Import ZArith List Bool Lia.
From V Require Import gen.ParseTables parse.Lex parse.LexThm.
Import ListNotations.
Open Scope Z_scope.

Definition ok_char (c : Z) : bool := is_alpha c || is_digit c || is_sep c.
Definition compat (x y : Z) : bool := negb ((is_alpha x && is_digit y) || (is_digit x && is_alpha y)).
Fixpoint adj (t : str) : bool :=
  match t with
  | x :: ((y :: _) as t') => compat x y && adj t'
  | _ => true
  end.
Definition gt (t : str) : bool := forallb ok_char t && adj t.
Definition tok_good (t : str) : bool := (length t <=? 1)%nat || gt t.

(* no character is both a letter and a digit (ASCII by the formulas, the table by computation) *)
Lemma table_disjoint :
  forallb (fun row : Z * ((bool * bool * bool) * (Z * list Z)) =>
             let '(_, ((a, d, _), _)) := row in negb (a && d)) tbl_chars = true.
Proof. vm_compute. reflexivity. Qed.

Lemma zassoc_in {A} c (l : list (Z * A)) v : zassoc c l = Some v -> In (c, v) l.
Proof.
  induction l as [|[k x] l IH]; cbn [zassoc]; [discriminate|].
  destruct (k =? c) eqn:E; [apply Z.eqb_eq in E; subst; intros H; injection H as ->; left; reflexivity|].
  intros H. right. apply IH. exact H.
Qed.

Lemma alpha_not_digit c : is_alpha c = true -> is_digit c = false.
Proof.
  unfold is_alpha, is_digit. destruct (c <? 128) eqn:E.
  - intros H. destruct ((48 <=? c) && (c <=? 57)) eqn:Ed; [|reflexivity]. exfalso. lia.
  - destruct (zassoc c tbl_chars) as [[[[a d] sp] rest]|] eqn:Ez; [|discriminate].
    intros ->. pose proof table_disjoint as T. rewrite forallb_forall in T.
    specialize (T _ (zassoc_in _ _ _ Ez)). cbn in T. destruct d; [discriminate | reflexivity].
Qed.

Lemma sep_not_alpha c : is_sep c = true -> is_alpha c = false.
Proof. intros H. destruct (is_alpha c) eqn:E; [|reflexivity]. rewrite (alpha_not_sep c E) in H. discriminate. Qed.
Lemma sep_not_digit c : is_sep c = true -> is_digit c = false.
Proof. intros H. destruct (is_digit c) eqn:E; [|reflexivity]. rewrite (digit_not_sep c E) in H. discriminate. Qed.

Lemma compat_sym x y : compat x y = compat y x.
Proof. unfold compat. f_equal. rewrite orb_comm. f_equal; apply andb_comm. Qed.

(* adj / gt under append, reversal, sublists *)
Lemma adj_app a : forall b, adj (a ++ b) = adj a && adj b &&
  match rev a, b with x :: _, y :: _ => compat x y | _, _ => true end.
Proof.
  induction a as [|x a IH]; intros b.
  - cbn. rewrite andb_true_r. reflexivity.
  - destruct a as [|x2 a'].
    + cbn [app rev adj]. destruct b as [|y b']; cbn [adj]; [reflexivity|].
      rewrite andb_comm. reflexivity.
    + change ((x :: x2 :: a') ++ b) with (x :: (x2 :: a') ++ b).
      cbn [adj]. change ((x2 :: a') ++ b) with (x2 :: a' ++ b) at 1. cbn beta iota.
      change (x2 :: a' ++ b) with ((x2 :: a') ++ b). rewrite IH.
      assert (Hr : match rev (x :: x2 :: a'), b with z :: _, y :: _ => compat z y | _, _ => true end
                 = match rev (x2 :: a'), b with z :: _, y :: _ => compat z y | _, _ => true end).
      { cbn [rev]. destruct (rev a' ++ [x2]) as [|z r] eqn:Er.
        - destruct (rev a'); discriminate.
        - reflexivity. }
      rewrite Hr. rewrite !andb_assoc. reflexivity.
Qed.

Lemma gt_app a b : gt (a ++ b) = true -> gt a = true /\ gt b = true.
Proof.
  unfold gt. rewrite forallb_app, adj_app. intros H.
  apply andb_prop in H. destruct H as [HF HA]. apply andb_prop in HF. destruct HF as [F1 F2].
  apply andb_prop in HA. destruct HA as [HA Hc]. apply andb_prop in HA. destruct HA as [A1 A2].
  split; apply andb_true_intro; split; assumption.
Qed.

Lemma adj_rev t : adj (rev t) = adj t.
Proof.
  induction t as [|x t IH]; [reflexivity|].
  cbn [rev]. rewrite adj_app, IH. cbn [adj]. rewrite rev_involutive.
  destruct t as [|y t']; [reflexivity|]. cbn [adj]. rewrite compat_sym.
  rewrite andb_true_r, andb_comm. reflexivity.
Qed.

Lemma forallb_rev {A} (f : A -> bool) l : forallb f (rev l) = forallb f l.
Proof.
  induction l as [|x l IH]; [reflexivity|]. cbn [rev forallb]. rewrite forallb_app, IH. cbn [forallb].
  rewrite andb_true_r. apply andb_comm.
Qed.

Lemma gt_rev t : gt (rev t) = gt t.
Proof. unfold gt. rewrite forallb_rev, adj_rev. reflexivity. Qed.

Lemma all_alpha_gt t : forallb is_alpha t = true -> gt t = true.
Proof.
  unfold gt. induction t as [|x t IH]; [reflexivity|]. cbn [forallb]. intros H.
  apply andb_prop in H. destruct H as [Hx Ht]. specialize (IH Ht). apply andb_prop in IH. destruct IH as [I1 I2].
  apply andb_true_intro. split.
  - unfold ok_char at 1. rewrite Hx. cbn. exact I1.
  - destruct t as [|y t']; [reflexivity|].
    change (adj (x :: y :: t')) with (compat x y && adj (y :: t')). rewrite I2, andb_true_r.
    cbn [forallb] in Ht. apply andb_prop in Ht. destruct Ht as [Hy _].
    unfold compat. rewrite (alpha_not_digit x Hx), (alpha_not_digit y Hy). rewrite !andb_false_r. reflexivity.
Qed.

Lemma digit_not_alpha c : is_digit c = true -> is_alpha c = false.
Proof. intros H. destruct (is_alpha c) eqn:E; [|reflexivity]. rewrite (alpha_not_digit c E) in H. discriminate. Qed.

Lemma all_digit_gt t : forallb is_digit t = true -> gt t = true.
Proof.
  unfold gt. induction t as [|x t IH]; [reflexivity|]. cbn [forallb]. intros H.
  apply andb_prop in H. destruct H as [Hx Ht]. specialize (IH Ht). apply andb_prop in IH. destruct IH as [I1 I2].
  apply andb_true_intro. split.
  - unfold ok_char at 1. rewrite Hx, orb_true_r. cbn. exact I1.
  - destruct t as [|y t']; [reflexivity|].
    change (adj (x :: y :: t')) with (compat x y && adj (y :: t')). rewrite I2, andb_true_r.
    cbn [forallb] in Ht. apply andb_prop in Ht. destruct Ht as [Hy _].
    unfold compat. rewrite (digit_not_alpha x Hx), (digit_not_alpha y Hy). rewrite !andb_false_r. reflexivity.
Qed.

(* appending one character at the head of the reversed token *)
Lemma gt_cons c t : ok_char c = true -> gt t = true ->
  match t with y :: _ => compat c y = true | [] => True end -> gt (c :: t) = true.
Proof.
  unfold gt. intros Hc Ht Hy. apply andb_prop in Ht. destruct Ht as [T1 T2].
  cbn [forallb]. rewrite Hc, T1. cbn [andb].
  destruct t as [|y t']; [reflexivity|].
  change (adj (c :: y :: t')) with (compat c y && adj (y :: t')). rewrite Hy. exact T2.
Qed.

(* splitting at separators yields single separators and contiguous pieces *)
Lemma split_rest_good t : forall cur, gt (rev cur ++ t) = true ->
  Forall (fun p => tok_good p = true) (split_rest cur t).
Proof.
  induction t as [|c t IH]; intros cur H; cbn [split_rest].
  - rewrite app_nil_r in H. destruct cur as [|x cur']; [constructor|].
    constructor; [|constructor]. unfold tok_good. rewrite H. apply orb_true_r.
  - destruct (is_sep c) eqn:Es.
    + destruct (gt_app _ _ H) as [H1 H2].
      change (c :: t) with ([c] ++ t) in H2. destruct (gt_app _ _ H2) as [_ H3].
      specialize (IH [] H3).
      destruct cur as [|x cur'].
      * constructor; [reflexivity | exact IH].
      * constructor; [unfold tok_good; rewrite H1; apply orb_true_r|].
        constructor; [reflexivity | exact IH].
    + apply IH. cbn [rev]. rewrite <- app_assoc. exact H.
Qed.

Lemma split_first_good t : forall cur, gt (rev cur ++ t) = true ->
  tok_good (fst (split_first cur t)) = true /\
  Forall (fun p => tok_good p = true) (snd (split_first cur t)).
Proof.
  induction t as [|c t IH]; intros cur H; cbn [split_first].
  - rewrite app_nil_r in H. cbn [fst snd]. split; [unfold tok_good; rewrite H; apply orb_true_r | constructor].
  - destruct (is_sep c) eqn:Es.
    + cbn [fst snd]. destruct (gt_app _ _ H) as [H1 H2].
      change (c :: t) with ([c] ++ t) in H2. destruct (gt_app _ _ H2) as [_ H3].
      split; [unfold tok_good; rewrite H1; apply orb_true_r|].
      constructor; [reflexivity|]. apply (split_rest_good t []). exact H3.
    + apply IH. cbn [rev]. rewrite <- app_assoc. exact H.
Qed.

Lemma comma_to_dot_good t : tok_good t = true -> tok_good (comma_to_dot t) = true.
Proof.
  assert (Hcls : forall c, is_alpha (if c =? 44 then 46 else c) = is_alpha c /\
                           is_digit (if c =? 44 then 46 else c) = is_digit c /\
                           is_sep (if c =? 44 then 46 else c) = is_sep c).
  { intros c. destruct (c =? 44) eqn:E; [apply Z.eqb_eq in E; subst; repeat split; reflexivity | auto]. }
  unfold tok_good, comma_to_dot. rewrite map_length. intros H.
  apply orb_prop in H. destruct H as [H | H]; [rewrite H; reflexivity|].
  apply orb_true_iff. right. unfold gt in *. apply andb_prop in H. destruct H as [H1 H2].
  apply andb_true_intro. split.
  - rewrite forallb_forall in *. intros x Hx. apply in_map_iff in Hx. destruct Hx as (c & <- & Hc).
    specialize (H1 c Hc). unfold ok_char in *. destruct (Hcls c) as (-> & -> & ->). exact H1.
  - clear H1. induction t as [|x t IH]; [reflexivity|].
    destruct t as [|y t']; [reflexivity|]. cbn [map adj] in *.
    apply andb_prop in H2. destruct H2 as [Hxy H2]. rewrite (IH H2), andb_true_r.
    unfold compat in *. destruct (Hcls x) as (-> & -> & _). destruct (Hcls y) as (-> & -> & _). exact Hxy.
Qed.

(* the invariant of a token under construction *)
Definition hd_not (f : Z -> bool) (t : str) : bool := match t with c :: _ => negb (f c) | [] => true end.
Definition linv (st : lstate) (rtok : str) : Prop :=
  match st with
  | SA => forallb is_alpha rtok = true
  | S0 => forallb is_digit rtok = true
  | SAd => gt rtok = true /\ hd_not is_digit rtok = true
  | S0d => gt rtok = true /\ hd_not is_alpha rtok = true
  end.

Lemma linv_gt st rtok : linv st rtok -> gt rtok = true.
Proof. destruct st; cbn; [apply all_alpha_gt | apply all_digit_gt | tauto | tauto]. Qed.

Lemma finish_good st seen rtok : linv st rtok ->
  Forall (fun p => tok_good p = true) (finish st seen (rev rtok)).
Proof.
  intros H. pose proof (linv_gt st rtok H) as G. rewrite <- gt_rev in G.
  unfold finish.
  destruct ((match st with SAd | S0d => true | _ => false end) && _).
  - destruct (split_first_good (rev rtok) [] G) as [F1 F2].
    destruct (split_first [] (rev rtok)) as [t1 ex]. cbn [fst snd] in *.
    constructor; [|exact F2].
    destruct st; try exact F1. destruct (count_dot t1 =? 0)%nat; [apply comma_to_dot_good|]; exact F1.
  - constructor; [|constructor].
    assert (F : tok_good (rev rtok) = true) by (unfold tok_good; rewrite G; apply orb_true_r).
    destruct st; try exact F. destruct (count_dot (rev rtok) =? 0)%nat; [apply comma_to_dot_good|]; exact F.
Qed.

Lemma Forall_app_intro {A} (P : A -> Prop) l1 l2 : Forall P l1 -> Forall P l2 -> Forall P (l1 ++ l2).
Proof. intros H1 H2. apply Forall_app. split; assumption. Qed.

Lemma lex_go_good s : forall st seen rtok,
  (match st with Some st' => linv st' rtok | None => True end) ->
  Forall (fun p => tok_good p = true) (lex_go st seen rtok s).
Proof.
  induction s as [|c s IH]; intros st seen rtok Hinv; cbn [lex_go].
  - destruct st as [st'|]; [apply finish_good; exact Hinv | constructor].
  - destruct (c =? 0); [apply IH; exact Hinv|].
    cbv zeta. cbn beta.
    match goal with |- context [if is_alpha c then lex_go (Some SA) false [c] s else ?b] =>
      set (start := if is_alpha c then lex_go (Some SA) false [c] s else b) end.
    assert (Hstart : Forall (fun p => tok_good p = true) start).
    { subst start. destruct (is_alpha c) eqn:Ea.
      - apply IH. cbn [linv forallb]. rewrite Ea. reflexivity.
      - destruct (is_digit c) eqn:Ed.
        + apply IH. cbn [linv forallb]. rewrite Ed. reflexivity.
        + destruct (is_space c); (constructor; [reflexivity | apply IH; exact I]). }
    destruct st as [[| | |]|]; [| | | |exact Hstart]; cbn [linv] in Hinv.
    + (* SA *)
      destruct (is_alpha c) eqn:Ea.
      * apply IH. cbn [linv forallb]. rewrite Ea, Hinv. reflexivity.
      * destruct (c =? 46) eqn:E46.
        -- apply IH. cbn [linv]. apply Z.eqb_eq in E46. subst c. split; [|reflexivity].
           apply gt_cons; [reflexivity | apply all_alpha_gt; exact Hinv|].
           destruct rtok; [exact I | reflexivity].
        -- apply Forall_app_intro; [apply (finish_good SA); exact Hinv | exact Hstart].
    + (* S0 *)
      destruct (is_digit c) eqn:Ed.
      * apply IH. cbn [linv forallb]. rewrite Ed, Hinv. reflexivity.
      * destruct ((c =? 46) || ((c =? 44) && (2 <=? Z.of_nat (length rtok)))) eqn:Esep.
        -- apply IH. cbn [linv].
           assert (Hs : is_sep c = true).
           { unfold is_sep. apply orb_prop in Esep. destruct Esep as [-> | E]; [reflexivity|].
             apply andb_prop in E. destruct E as [-> _]. apply orb_true_r. }
           split.
           ++ apply gt_cons; [unfold ok_char; rewrite Hs; apply orb_true_r | apply all_digit_gt; exact Hinv|].
              destruct rtok as [|y r]; [exact I|]. unfold compat.
              rewrite (sep_not_alpha c Hs), (sep_not_digit c Hs). reflexivity.
           ++ cbn [hd_not]. rewrite (sep_not_alpha c Hs). reflexivity.
        -- apply Forall_app_intro; [apply (finish_good S0); exact Hinv | exact Hstart].
    + (* SAd *)
      destruct Hinv as [G Hh].
      destruct ((c =? 46) || is_alpha c) eqn:E1.
      * apply IH. cbn [linv].
        assert (Hnd : is_digit c = false).
        { apply orb_prop in E1. destruct E1 as [E | E]; [apply Z.eqb_eq in E; subst; reflexivity | apply alpha_not_digit; exact E]. }
        assert (Hok : ok_char c = true).
        { unfold ok_char. apply orb_prop in E1. destruct E1 as [E | E];
            [apply Z.eqb_eq in E; subst; reflexivity | rewrite E; reflexivity]. }
        split; [|cbn [hd_not]; rewrite Hnd; reflexivity].
        apply gt_cons; [exact Hok | exact G|].
        destruct rtok as [|y r]; [exact I|]. cbn [hd_not] in Hh. unfold compat.
        rewrite Hnd. apply negb_true_iff in Hh. rewrite Hh. rewrite !andb_false_r. reflexivity.
      * destruct (is_digit c && last_is_dot rtok) eqn:E2.
        -- apply andb_prop in E2. destruct E2 as [Ed El]. apply IH. cbn [linv].
           split; [|cbn [hd_not]; rewrite (digit_not_alpha c Ed); reflexivity].
           apply gt_cons; [unfold ok_char; rewrite Ed, orb_true_r; reflexivity | exact G|].
           destruct rtok as [|y r]; [exact I|]. cbn [last_is_dot] in El. apply Z.eqb_eq in El. subst y.
           unfold compat. cbn. rewrite !andb_false_r. reflexivity.
        -- apply Forall_app_intro; [apply (finish_good SAd); split; assumption | exact Hstart].
    + (* S0d *)
      destruct Hinv as [G Hh].
      destruct ((c =? 46) || is_digit c) eqn:E1.
      * apply IH. cbn [linv].
        assert (Hna : is_alpha c = false).
        { apply orb_prop in E1. destruct E1 as [E | E]; [apply Z.eqb_eq in E; subst; reflexivity | apply digit_not_alpha; exact E]. }
        assert (Hok : ok_char c = true).
        { unfold ok_char. apply orb_prop in E1. destruct E1 as [E | E];
            [apply Z.eqb_eq in E; subst; reflexivity | rewrite E, orb_true_r; reflexivity]. }
        split; [|cbn [hd_not]; rewrite Hna; reflexivity].
        apply gt_cons; [exact Hok | exact G|].
        destruct rtok as [|y r]; [exact I|]. cbn [hd_not] in Hh. unfold compat.
        rewrite Hna. apply negb_true_iff in Hh. rewrite Hh. rewrite !andb_false_r. reflexivity.
      * destruct (is_alpha c && last_is_dot rtok) eqn:E2.
        -- apply andb_prop in E2. destruct E2 as [Ea El]. apply IH. cbn [linv].
           split; [|cbn [hd_not]; rewrite (alpha_not_digit c Ea); reflexivity].
           apply gt_cons; [unfold ok_char; rewrite Ea; reflexivity | exact G|].
           destruct rtok as [|y r]; [exact I|]. cbn [last_is_dot] in El. apply Z.eqb_eq in El. subst y.
           unfold compat. cbn. rewrite !andb_false_r. reflexivity.
        -- apply Forall_app_intro; [apply (finish_good S0d); split; assumption | exact Hstart].
Qed.

Theorem lex_token_shape_lemma s : Forall (fun p => tok_good p = true) (timelex s).
Proof. unfold timelex. apply lex_go_good. exact I. Qed.
