(* Source-tie obligations of the generic parser, in the form the props files quote them:
   every function of coq/gen/ParseGen.v (regenerated from _parser.py by harness/gen_parse.py on every run)
   equals the corresponding function of the hand model, for all inputs. *)
From Coq Require Import ZArith List Bool.
From V Require Import base.Cal gen.ParseTables parse.Lex parse.Prim parse.Ymd parse.Parse parse.ParseGenLib
                      gen.ParseGen parse.ParseGenThm.
Import ListNotations.
Open Scope Z_scope.

Definition gen_parserinfo_lookups_stmt : Prop := forall n,
  pg_parserinfo_jump n = Ok (info_jump n) /\ pg_parserinfo_weekday n = Ok (info_weekday n) /\
  pg_parserinfo_month n = Ok (info_month n) /\ pg_parserinfo_hms n = Ok (info_hms n) /\
  pg_parserinfo_ampm n = Ok (info_ampm n) /\ pg_parserinfo_pertain n = Ok (info_pertain n) /\
  pg_parserinfo_utczone n = Ok (info_utczone n) /\ pg_parserinfo_tzoffset n = Ok (info_tzoffset n).
Theorem gen_parserinfo_lookups : gen_parserinfo_lookups_stmt.
Proof.
  intros n.
  split; [apply pg_jump_eq|]. split; [apply pg_weekday_eq|]. split; [apply pg_month_eq|].
  split; [apply pg_hms_eq|]. split; [apply pg_ampm_eq|]. split; [apply pg_pertain_eq|].
  split; [apply pg_utczone_eq | apply pg_tzoffset_eq].
Qed.

Definition gen_convertyear_stmt : Prop := forall cur y cs,
  pg_parserinfo_convertyear cur y cs = convertyear cur y cs.
Definition gen_validate_stmt : Prop := forall cur r,
  pg_parserinfo_validate cur r = match validate cur r with Ok r' => Ok (true, r') | Err e => Err e end.
Definition gen_could_be_day_stmt : Prop := forall y v, pg_ymd_could_be_day y v = could_be_day y v.
Definition gen_ampm_stmt : Prop := forall h a f,
  pg_parser_ampm_valid h a f = ampm_valid h a f /\
  (forall hh aa, pg_parser_adjust_ampm hh aa = Ok (adjust_ampm hh aa)).
Theorem gen_ampm : gen_ampm_stmt.
Proof. intros h a f. split; [apply pg_ampm_valid_eq | intros; apply pg_adjust_ampm_eq]. Qed.
Definition gen_could_be_tzname_stmt : Prop := forall h n o t,
  pg_parser_could_be_tzname h n o t = Ok (could_be_tzname h n o t).
Definition gen_parse_min_sec_stmt : Prop := forall v, pg_parser_parse_min_sec v = Ok (parse_min_sec v).
Definition gen_find_hms_idx_stmt : Prop := forall l idx aj, (idx < length l)%nat ->
  pg_parser_find_hms_idx (Z.of_nat idx) l aj = Ok (option_map Z.of_nat (find_hms_idx l idx aj)).
Definition gen_parse_hms_stmt : Prop := forall l idx h,
  (forall t, nth_error l h = Some t -> isSome (info_hms t) = true) ->
  pg_parser_parse_hms (Z.of_nat idx) l (Some (Z.of_nat h)) =
  match parse_hms l idx h with Ok (i, v) => Ok (Z.of_nat i, Some v) | Err e => Err e end.
Definition gen_resolve_ymd_stmt : Prop := forall y yf df, pg_ymd_resolve_ymd y yf df = resolve_ymd y yf df.
Definition gen_parsems_stmt : Prop := forall t, pg_parser_parsems t = parsems t.
Definition gen_assign_hms_stmt : Prop := forall r vr h,
  pg_parser_assign_hms r vr h = match assign_hms r vr h with Ok r' => Ok (tt, r') | Err e => Err e end.
Definition gen_append_stmt : Prop := forall y lab,
  (forall t, pg_ymd_append_str y t lab = ymap (append_str y t lab)) /\
  (forall v, pg_ymd_append_dec y v lab = ymap (append_dec y v lab)) /\
  (forall n, pg_ymd_append_int y n lab = ymap (append_int y n lab)).
Theorem gen_append : gen_append_stmt.
Proof.
  intros y lab. split; [intros; apply pg_append_str_eq|]. split; [intros; apply pg_append_dec_eq | intros; apply pg_append_int_eq].
Qed.
From V Require Import parse.ParseGenThm2.
Definition gen_parse_numeric_stmt : Prop := forall l idx y r fz,
  pg_parser_parse_numeric_token l (Z.of_nat idx) y r fz = nmap (parse_numeric l idx y r fz).
