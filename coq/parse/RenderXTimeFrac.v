(* C02 (helper rdalg): time-only HH:MM:SS{.,}f, f = 1..9 digits (date from the default). *)
From Coq Require Import ZArith List Bool Lia ZifyBool.
From V Require Import base.Cal gen.ParseTables parse.Lex parse.Prim parse.Ymd parse.Parse parse.Build
                      parse.ParseSpec parse.LexSeg parse.TokFacts parse.YearThm parse.RenderTac parse.RenderTac3 parse.RenderIso parse.FracFacts parse.RenderFrac parse.RenderTac4.
Import ListNotations.
Open Scope Z_scope.
Ltac Zify.zify_post_hook ::= Z.to_euclidean_division_equations.

Local Arguments digits_n : simpl never.
Local Arguments is_float : simpl never.
Local Arguments to_decimal : simpl never.
Local Arguments py_int : simpl never.
Local Arguments py_isdigit : simpl never.
Local Arguments slen : simpl never.
Local Arguments has_dot : simpl never.
Local Arguments find_dot : simpl never.
Local Arguments info_jump : simpl never.
Local Arguments info_weekday : simpl never.
Local Arguments info_month : simpl never.
Local Arguments info_hms : simpl never.
Local Arguments info_ampm : simpl never.
Local Arguments info_pertain : simpl never.
Local Arguments info_utczone : simpl never.
Local Arguments info_tzoffset : simpl never.
Local Arguments is1 : simpl never.
Local Arguments str_eqb : simpl never.
Local Arguments could_be_tzname : simpl never.
Local Arguments parsems : simpl never.
Local Arguments all_digit : simpl never.
Local Arguments convertyear : simpl never.
Local Arguments dt_replace : simpl never.
Local Arguments valid_dt : simpl never.
Local Arguments monthlen : simpl never.
Local Arguments Z.eqb !x !y.
Local Arguments Z.ltb !x !y.
Local Arguments Z.leb !x !y.
Local Arguments Z.add !x !y.
Local Arguments Z.mul !x !y.
Local Arguments Z.sub !m !n.
Local Arguments Z.opp !x.

Local Arguments frac_digits : simpl never.
Local Arguments trunc_us : simpl never.



Lemma parse_render_time_frac : forall k comma d o df cy loc n0 n1 yf ig,
  (1 <= k <= 9)%nat ->
  valid_dt d = true -> valid_dt df = true ->
  parse (opts_df0 yf ig df cy loc n0 n1) (render (TDT DNone JNone (TFrac k comma) ONone) d o)
  = OutOk (expected_dt (TDT DNone JNone (TFrac k comma) ONone) d df) ZNaive 0 false [].
Proof.
  intros k comma d o df cy loc n0 n1 yf ig Hk Hd Hdf.
  destruct (valid_dt_ranges d Hd) as (Ry & Rmo & Rd & Rh & Rmi & Rs & Rus).
  assert (Hdfv : 1 <= d_d df <= dim (d_y df) (d_mo df) /\ 1 <= d_mo df <= 12).
  { unfold valid_dt, valid_ymd in Hdf. lia. }
  assert (Hs100 : 0 <= d_s d < 100) by (change (10 ^ Z.of_nat 2) with 100 in Rs; exact Rs).
  assert (Hus : 0 <= d_us d < 1000000) by (change (10 ^ Z.of_nat 6) with 1000000 in Rus; exact Rus).
  assert (Hkne : nonempty (frac_digits k (d_us d)) = true).
  { destruct k as [|k']; [lia|]. apply frac_digits_nonempty. }
  pose proof (trunc_us_range k _ Hus) as Htr.
  destruct comma;
  match goal with |- parse _ (render (TDT DNone JNone (TFrac ?k ?c) ONone) d o) = _ =>
    assert (Hrender : render (TDT DNone JNone (TFrac k c) ONone) d o = concat (map seg_str (ftime_segs k c d)))
      by (unfold render, render_date, render_time, render_off, join_txt, ftime_segs;
          cbn [map concat seg_str app]; repeat (progress (repeat rewrite <- app_assoc; cbn [app]));
          rewrite ?app_nil_r; reflexivity);
    assert (Hwf : wf_segs (ftime_segs k c d) = true)
      by (unfold ftime_segs; cbn [app wf_segs wf_seg hd_error ok_next];
          rewrite ?digits_n_all_digit, ?digits_n_length, ?nonempty_digits, ?frac_digits_all_digit, ?Hkne;
          vm_compute; reflexivity)
  end;
  unfold parse, opts_df0;
  cbn [o_fuzzy o_fwt o_yearfirst o_info_yearfirst o_dayfirst o_info_dayfirst o_cur_year oflag o_default
       o_ignoretz o_tzinfos o_local o_nm0 o_nm1];
  unfold parse_res; rewrite Hrender, timelex_segments by exact Hwf; clear Hrender Hwf;
  unfold ftime_segs; cbn [app map seg_tok length];
  lrun ltac:(rewrite ?tok_parsems_frac by (first [assumption | lia]);
             unfold parse_hms, assign_hms, parse_min_sec, frac_nonzero, dec_int; cbn [fst snd existsb]; unfold monthlen);
  try match goal with |- (if ?b then _ else _) = _ => destruct b end;
  first [reflexivity | (repeat f_equal; lia)].
Qed.
