(* The local zone (tz.tzlocal) can fail.

   parser._build_tzaware, branch `res.tzname and res.tzname in time.tzname`:
       aware = naive.replace(tzinfo=tz.tzlocal())
       aware = self._assign_tzname(aware, res.tzname)      # first statement: dt.tzname()
   tzlocal.tzname(dt) -> tzlocal._isdst(dt):
       if not self._hasdst: return False
       dstval = self._naive_is_dst(dt)                     # time.localtime(ts + time.timezone).tm_isdst
       if self.is_ambiguous(dt): ...
   tzlocal.is_ambiguous(dt):
       naive_dst = self._naive_is_dst(dt)
       return (not naive_dst and (naive_dst != self._naive_is_dst(dt - self._dst_saved)))
   `dt - self._dst_saved` is datetime arithmetic: it raises OverflowError("date value out of range")
   when the wall time lies within |dst_saved| of datetime.min (dst_saved > 0) or datetime.max
   (dst_saved < 0).  Nothing in _build_tzaware / parse() catches it, so parse() raises OverflowError.

   Build.parse models tzname() of the local zone by two oracle bits and therefore describes the runs in
   which that call returns.  parse_lz adds the failing runs: the local zone is described by
   dst_saved (= time.timezone - time.altzone when time.daylight, else 0) and the platform answer
   naive_dst (tm_isdst of the wall time read as standard time). *)
From Coq Require Import ZArith List Bool Lia.
From V Require Import base.Cal gen.ParseTables parse.Lex parse.Prim parse.Ymd parse.Parse parse.Build
                      parse.ParseSpec parse.ZoneThm.
Import ListNotations.
Open Scope Z_scope.

Record localz := mkLocalz {
  lz_dst_saved : Z;      (* seconds; 0 = the local zone has no daylight saving time *)
  lz_naive_dst : bool    (* oracle: time.localtime(timestamp(result) + time.timezone).tm_isdst *)
}.

(* whole seconds from 0001-01-01 00:00:00 to the wall time d *)
Definition dt_secs (d : dt7) : Z :=
  (ord_of_ymd (d_y d) (d_mo d) (d_d d) - 1) * 86400 + d_h d * 3600 + d_mi d * 60 + d_s d.
Definition max_secs : Z := max_ord * 86400 - 1.      (* 9999-12-31 23:59:59 *)

(* tzlocal().tzname(d) raises OverflowError *)
Definition tzlocal_raises (lz : localz) (d : dt7) : bool :=
  negb (lz_dst_saved lz =? 0) && negb (lz_naive_dst lz) &&
  (let t := dt_secs d - lz_dst_saved lz in (t <? 0) || (max_secs <? t)).

(* the tzlocal branch of _build_tzaware is the one taken *)
Definition local_branch (o : opts) (r : pres) : bool :=
  match o_tzinfos o with
  | TINone => true
  | TIDict d => match r_tzname r with Some n => negb (isSome (dict_get n d)) | None => true end
  | TICall _ _ | TICallOff => false
  end
  && name_truthy (r_tzname r)
  && match r_tzname r with Some n => smem n (o_local o) | None => false end.

Definition build_tzaware_lz (o : opts) (lz : localz) (naive : dt7) (r : pres) : R (zone * Z * bool) :=
  if local_branch o r && tzlocal_raises lz naive then Err OverflowError
  else build_tzaware o r.

(* parser.parse with the failing local zone: Build.parse with build_tzaware_lz for build_tzaware *)
Definition parse_lz (o : opts) (lz : localz) (s : list Z) : outcome :=
  match parse_res (o_fuzzy o) (o_fwt o) (oflag (o_yearfirst o) (o_info_yearfirst o))
                  (oflag (o_dayfirst o) (o_info_dayfirst o)) (o_cur_year o) s with
  | Err OverflowError => OutOverflow
  | Err e => OutEscape e
  | Ok None => OutParserError
  | Ok (Some (r, toks)) =>
      if res_len r =? 0 then OutParserError else
      match build_naive r (o_default o) with
      | Err ValueError => OutParserError
      | Err ValueErrorNoStr => OutEscape ValueErrorNoStr
      | Err OverflowError => OutOverflow
      | Err e => OutEscape e
      | Ok naive =>
          if o_ignoretz o then OutOk naive ZNaive 0 false toks else
          match build_tzaware_lz o lz naive r with
          | Ok (z, fold, w) => OutOk naive z fold w toks
          | Err OverflowError => OutOverflow
          | Err e => OutEscape e
          end
      end
  end.

Definition set_nm0 (o : opts) (b : bool) : opts :=
  mkOpts (o_fuzzy o) (o_fwt o) (o_dayfirst o) (o_yearfirst o) (o_info_dayfirst o) (o_info_yearfirst o)
         (o_ignoretz o) (o_tzinfos o) (o_default o) (o_cur_year o) (o_local o) b (o_nm1 o).

(* ---- the tzlocal branch, seen from outside: with the first oracle bit set it answers ZLocal *)
Lemma local_branch_probe o r :
  local_branch o r = true <->
  exists f w, build_tzaware (set_nm0 o true) r = Ok (ZLocal, f, w).
Proof.
  destruct o as [ofz ofw odf oyf oidf oiyf oig oti odflt ocy oloc nm0 nm1].
  unfold local_branch, build_tzaware, set_nm0.
  cbn [o_tzinfos o_local o_nm0 o_nm1 o_fuzzy o_fwt o_dayfirst o_yearfirst o_info_dayfirst o_info_yearfirst
       o_ignoretz o_default o_cur_year negb andb].
  split.
  - intros H.
    destruct oti as [|d|tbl df|]; cbn [andb] in H; try discriminate.
    + apply andb_prop in H. destruct H as [H1 H2]. cbn [andb] in H1. rewrite H1, H2. cbn [andb]. eauto.
    + apply andb_prop in H. destruct H as [H1 H2]. apply andb_prop in H1. destruct H1 as [H0 H1].
      destruct (r_tzname r) as [n|]; [|discriminate].
      destruct (dict_get n d); [discriminate|]. rewrite H1, H2. cbn [andb]. eauto.
  - intros (f & w & H).
    destruct oti as [|d|tbl df|].
    + destruct (name_truthy (r_tzname r) && _) eqn:E; [cbn [andb]; exact E|].
      destruct (r_tzoffset r) as [[|p|p]|]; try destruct (tzoffset_ok _);
        try destruct (negb (name_truthy (r_tzname r))); try destruct (name_truthy (r_tzname r)); discriminate.
    + destruct (r_tzname r) as [n|].
      * destruct (dict_get n d) as [tv|].
        -- unfold build_tzinfo in H. destruct tv; cbn [bind fst snd] in H; try destruct (tzoffset_ok _); discriminate.
        -- cbn [negb isSome andb]. destruct (name_truthy (Some n) && _) eqn:E; [reflexivity|].
           destruct (r_tzoffset r) as [[|p|p]|]; try destruct (tzoffset_ok _);
             try destruct (negb (name_truthy (Some n))); try destruct (name_truthy (Some n)); discriminate.
      * cbn [name_truthy andb] in H.
        destruct (r_tzoffset r) as [[|p|p]|]; try destruct (tzoffset_ok _); discriminate.
    + unfold build_tzinfo in H. destruct (call_get _ tbl df); cbn [bind fst snd] in H;
        try destruct (tzoffset_ok _); discriminate.
    + unfold build_tzinfo in H. destruct (r_tzoffset r); cbn [bind fst snd] in H;
        try destruct (tzoffset_ok _); discriminate.
Qed.

Lemma build_tzaware_lz_cases o lz naive r :
  build_tzaware_lz o lz naive r = build_tzaware o r \/
  (build_tzaware_lz o lz naive r = Err OverflowError /\ local_branch o r = true /\ tzlocal_raises lz naive = true).
Proof.
  unfold build_tzaware_lz.
  destruct (local_branch o r); cbn [andb]; [|left; reflexivity].
  destruct (tzlocal_raises lz naive); [right; auto | left; reflexivity].
Qed.

(* the failing local zone only adds OverflowError outcomes (C14) *)
Theorem parse_lz_cases o lz s :
  parse_lz o lz s = parse o s \/ parse_lz o lz s = OutOverflow.
Proof.
  unfold parse_lz, parse.
  destruct (parse_res _ _ _ _ _ s) as [[[r toks]|]|e]; auto.
  destruct (res_len r =? 0); auto.
  destruct (build_naive r (o_default o)) as [naive|e]; auto.
  destruct (o_ignoretz o); auto.
  destruct (build_tzaware_lz_cases o lz naive r) as [-> | (-> & _)]; auto.
Qed.

(* a zone without daylight saving time never fails *)
Lemma tzlocal_raises_nodst lz d : lz_dst_saved lz = 0 -> tzlocal_raises lz d = false.
Proof. intros H. unfold tzlocal_raises. rewrite H. reflexivity. Qed.

Theorem parse_lz_nodst o lz s : lz_dst_saved lz = 0 -> parse_lz o lz s = parse o s.
Proof.
  intros H. unfold parse_lz, parse, build_tzaware_lz.
  destruct (parse_res _ _ _ _ _ s) as [[[r toks]|]|e]; auto.
  destruct (res_len r =? 0); auto.
  destruct (build_naive r (o_default o)) as [naive|e]; auto.
  rewrite (tzlocal_raises_nodst lz naive H), andb_false_r. reflexivity.
Qed.

(* transfer 1: every statement `parse o s = OutOk d ...` holds of parse_lz when tzlocal answers at d *)
Theorem parse_lz_transfer o lz s d z f w toks :
  parse o s = OutOk d z f w toks -> tzlocal_raises lz d = false -> parse_lz o lz s = OutOk d z f w toks.
Proof.
  unfold parse_lz, parse, build_tzaware_lz.
  destruct (parse_res _ _ _ _ _ s) as [[[r tk]|]|e]; try (destruct e; discriminate); try discriminate.
  destruct (res_len r =? 0); [discriminate|].
  destruct (build_naive r (o_default o)) as [naive|e]; [|destruct e; discriminate].
  destruct (o_ignoretz o); [auto|].
  intros H Hr.
  assert (naive = d).
  { destruct (build_tzaware o r) as [[[z' f'] w']|e]; [|destruct e; discriminate]. injection H; auto. }
  subst naive. rewrite Hr, andb_false_r. exact H.
Qed.

(* transfer 2: ... and unconditionally when the text does not resolve to the local zone; the
   hypothesis is the same statement with the first oracle bit set (template theorems quantify it) *)
Theorem parse_lz_not_local o lz s d z f w toks :
  parse (set_nm0 o true) s = OutOk d z f w toks -> z <> ZLocal -> parse_lz o lz s = parse o s.
Proof.
  destruct o as [ofz ofw odf oyf oidf oiyf oig oti odflt ocy oloc nm0 nm1].
  unfold parse_lz, parse, set_nm0, build_tzaware_lz.
  cbn [o_tzinfos o_local o_nm0 o_nm1 o_fuzzy o_fwt o_dayfirst o_yearfirst o_info_dayfirst o_info_yearfirst
       o_ignoretz o_default o_cur_year].
  destruct (parse_res _ _ _ _ _ s) as [[[r tk]|]|e]; try reflexivity.
  destruct (res_len r =? 0); [reflexivity|].
  destruct (build_naive r odflt) as [naive|e]; [|reflexivity].
  destruct oig; [reflexivity|].
  intros H Hz.
  set (o := mkOpts ofz ofw odf oyf oidf oiyf false oti odflt ocy oloc nm0 nm1).
  destruct (local_branch o r) eqn:Elb; [|reflexivity].
  exfalso. apply local_branch_probe in Elb. destruct Elb as (f' & w' & E).
  unfold o, set_nm0 in E.
  cbn [o_tzinfos o_local o_nm0 o_nm1 o_fuzzy o_fwt o_dayfirst o_yearfirst o_info_dayfirst o_info_yearfirst
       o_ignoretz o_default o_cur_year] in E.
  rewrite E in H. injection H as _ Hz' _ _ _. apply Hz. symmetry. exact Hz'.
Qed.

(* when tzlocal fails, parse fails: the complement of the guard of parse_lz_transfer for local names *)
Theorem parse_lz_local_raises o lz s d f w toks :
  parse (set_nm0 o true) s = OutOk d ZLocal f w toks -> tzlocal_raises lz d = true -> parse_lz o lz s = OutOverflow.
Proof.
  destruct o as [ofz ofw odf oyf oidf oiyf oig oti odflt ocy oloc nm0 nm1].
  unfold parse_lz, parse, set_nm0, build_tzaware_lz.
  cbn [o_tzinfos o_local o_nm0 o_nm1 o_fuzzy o_fwt o_dayfirst o_yearfirst o_info_dayfirst o_info_yearfirst
       o_ignoretz o_default o_cur_year].
  destruct (parse_res _ _ _ _ _ s) as [[[r tk]|]|e]; try (destruct e; discriminate); try discriminate.
  destruct (res_len r =? 0); [discriminate|].
  destruct (build_naive r odflt) as [naive|e]; [|destruct e; discriminate].
  destruct oig; [discriminate|].
  intros H Hr.
  set (o := mkOpts ofz ofw odf oyf oidf oiyf false oti odflt ocy oloc nm0 nm1).
  assert (Hlb : local_branch o r = true).
  { apply local_branch_probe. unfold o, set_nm0.
    cbn [o_tzinfos o_local o_nm0 o_nm1 o_fuzzy o_fwt o_dayfirst o_yearfirst o_info_dayfirst o_info_yearfirst
         o_ignoretz o_default o_cur_year].
    destruct (build_tzaware _ r) as [[[z' f'] w']|e]; [|destruct e; discriminate].
    injection H as _ -> _ _ _. eauto. }
  assert (naive = d).
  { destruct (build_tzaware _ r) as [[[z' f'] w']|e]; [|destruct e; discriminate]. injection H; auto. }
  subst naive. rewrite Hlb, Hr. reflexivity.
Qed.

(* ---- C15: the decision table with the failing local zone *)
Definition spec_zone_lz (ti : tzinfos) (locals : list str) (local_matches raises : bool)
                        (name0 : option str) (off0 : option Z) (posix_form : bool) : zres :=
  match spec_zone ti locals true name0 off0 posix_form with
  | ZR ZLocal _ => if raises then ZROverflow else spec_zone ti locals local_matches name0 off0 posix_form
  | _ => spec_zone ti locals local_matches name0 off0 posix_form
  end.

Theorem tz_cascade_lz_lemma o lz naive cy r0 r :
  validate cy r0 = Ok r -> r_tzname r0 <> Some [] ->
  build_tzaware_lz o lz naive r =
  of_zres o (spec_zone_lz (o_tzinfos o) (o_local o) (o_nm0 o || o_nm1 o) (tzlocal_raises lz naive)
                          (r_tzname r0) (r_tzoffset r0) false).
Proof.
  intros Hv Hne.
  pose proof (tz_cascade_lemma o cy r0 r Hv Hne) as H1.
  pose proof (tz_cascade_lemma (set_nm0 o true) cy r0 r Hv Hne) as H2.
  change (o_tzinfos (set_nm0 o true)) with (o_tzinfos o) in H2.
  change (o_local (set_nm0 o true)) with (o_local o) in H2.
  change (o_nm0 (set_nm0 o true)) with true in H2.
  cbn [orb] in H2.
  unfold build_tzaware_lz, spec_zone_lz.
  destruct (local_branch o r) eqn:Elb.
  - apply local_branch_probe in Elb. destruct Elb as (f & w & E). rewrite E in H2.
    destruct (spec_zone (o_tzinfos o) (o_local o) true (r_tzname r0) (r_tzoffset r0) false) as [z w'| |];
      cbn [of_zres] in H2; try discriminate.
    injection H2 as <- _ _. cbn [andb].
    destruct (tzlocal_raises lz naive); [reflexivity | exact H1].
  - cbn [andb].
    destruct (spec_zone (o_tzinfos o) (o_local o) true (r_tzname r0) (r_tzoffset r0) false) as [z w'| |] eqn:Es;
      try exact H1.
    destruct z; try exact H1.
    exfalso. cbn [of_zres] in H2.
    assert (local_branch o r = true) by (apply local_branch_probe; eauto).
    congruence.
Qed.

(* ---- F-C02-tzlocal-range: "0001-01-01 00:03:00 GMT" under TZ=GMT0BST *)
Definition lzr_opts : opts :=
  mkOpts false false None None false false false TINone (mkDt 2003 9 25 0 0 0 0) 2026
         [[71; 77; 84]; [66; 83; 84]] true false.
Definition lzr_zone : localz := mkLocalz 3600 false.
Definition lzr_dt : dt7 := mkDt 1 1 1 0 3 0 0.

Theorem tzlocal_range_refuted_lemma :
  valid_dt lzr_dt = true /\
  render (TDT DIso JSpace THMS OGMT) lzr_dt (mkOff true 0 0)
    = [48; 48; 48; 49; 45; 48; 49; 45; 48; 49; 32; 48; 48; 58; 48; 51; 58; 48; 48; 32; 71; 77; 84] /\
  parse lzr_opts (render (TDT DIso JSpace THMS OGMT) lzr_dt (mkOff true 0 0)) = OutOk lzr_dt ZLocal 0 false [] /\
  tzlocal_raises lzr_zone lzr_dt = true /\
  parse_lz lzr_opts lzr_zone (render (TDT DIso JSpace THMS OGMT) lzr_dt (mkOff true 0 0)) = OutOverflow.
Proof. repeat split; vm_compute; reflexivity. Qed.
