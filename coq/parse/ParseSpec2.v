(* C02 spec, second part: compact time HHMMSS with a dot or comma fraction (after a compact date,
   joined by T or a space), optionally followed by an offset form.  Kept in its own file so that
   ParseSpec.v (and the template proofs that depend on it) stay untouched. *)
From Coq Require Import ZArith List Bool.
From V Require Import base.Cal gen.ParseTables parse.Lex parse.Prim parse.Ymd parse.Parse parse.Build
                      parse.ParseSpec.
Import ListNotations.
Open Scope Z_scope.

(* YYYYMMDD{T, space}HHMMSS{., ,}f[offset] *)
Definition render_cf (space : bool) (k : nat) (comma : bool) (ofm : oform) (d : dt7) (o : offs) : str :=
  render_date DCompact d ++ (if space then [32] else [84])
  ++ digits_n 2 (d_h d) ++ digits_n 2 (d_mi d) ++ digits_n 2 (d_s d)
  ++ [if comma then 44 else 46] ++ frac_digits k (d_us d) ++ render_off ofm o.

Definition wf_cf (k : nat) (ofm : oform) : bool :=
  (1 <=? Z.of_nat k) && (Z.of_nat k <=? 9).

Definition expected_cf_dt (k : nat) (d : dt7) : dt7 :=
  mkDt (d_y d) (d_mo d) (d_d d) (d_h d) (d_mi d) (d_s d) (trunc_us k (d_us d)).

Definition expected_cf_off (ofm : oform) (o : offs) : option Z :=
  expected_off (TDT DCompact JT TCompactHMS ofm) o.
