(* Token facts (helper rdalg) for the compact time with a fraction, "HHMMSS.f": one token made of a
   six-digit run, a dot and the fraction digits. *)
From Coq Require Import ZArith List Bool Lia.
From V Require Import gen.ParseTables parse.Lex parse.Prim parse.ParseSpec parse.LexSeg parse.TokFacts parse.FracFacts.
Import ListNotations.
Open Scope Z_scope.

Lemma find_dot_app_digits a : forall b j, all_digit a = true ->
  find_dot (a ++ 46 :: b) j = j + Z.of_nat (length a).
Proof.
  induction a as [|c a IH]; intros b j H; cbn [app find_dot length].
  - change (46 =? 46) with true. cbv iota. lia.
  - unfold all_digit in H. cbn [forallb] in H. apply andb_prop in H. destruct H as [Hc H].
    rewrite (digit_not46 c Hc). rewrite IH by exact H. lia.
Qed.

Lemma all_decimal_repeat0 n : all_decimal (repeat 48 n) = true.
Proof. unfold all_decimal. induction n; [reflexivity|]. cbn [repeat forallb]. rewrite IHn. reflexivity. Qed.

Lemma frac_digits_all_decimal k us : all_decimal (frac_digits k us) = true.
Proof.
  unfold frac_digits, all_decimal. apply forallb_firstn. rewrite forallb_app.
  pose proof (digits_n_all_decimal 6 us) as H1. pose proof (all_decimal_repeat0 k) as H2.
  unfold all_decimal in H1, H2. rewrite H1, H2. reflexivity.
Qed.

Lemma frac_digits_length k us : length (frac_digits k us) = k.
Proof.
  unfold frac_digits. rewrite firstn_length, app_length, digits_n_length, repeat_length. lia.
Qed.

Section CF.
  Variables (t f : str) (v : Z).
  Hypothesis E : t = digits_n 6 v.
  Hypothesis Hv : 0 <= v < 10 ^ Z.of_nat 6.
  Hypothesis Hf : all_digit f = true.
  Hypothesis Hfd : all_decimal f = true.

  Lemma cf_decnum : decnum (t ++ 46 :: f) = Some (v, map dec_val f).
  Proof.
    unfold decnum. rewrite E. rewrite split_dot_app by apply digits_n_all_digit. cbn [rev app].
    destruct (digits_n 6 v) eqn:D; [exfalso; eapply (digits_n_nonempty 5); eauto|]. rewrite <- D.
    rewrite digits_n_all_decimal, Hfd. rewrite int_acc_digits by exact Hv. repeat f_equal; lia.
  Qed.
  Lemma cf_to_decimal : to_decimal (t ++ 46 :: f) = Ok (v, map dec_val f).
  Proof. unfold to_decimal. rewrite cf_decnum. reflexivity. Qed.
  Lemma cf_is_float : is_float (t ++ 46 :: f) = true.
  Proof. unfold is_float. rewrite cf_decnum. reflexivity. Qed.
  Lemma cf_slen : slen (t ++ 46 :: f) = 7 + Z.of_nat (length f).
  Proof. unfold slen. rewrite E, app_length, digits_n_length. cbn [length]. lia. Qed.
  Lemma cf_find_dot : find_dot (t ++ 46 :: f) 0 = 6.
  Proof. rewrite E, find_dot_app_digits by apply digits_n_all_digit. rewrite digits_n_length. reflexivity. Qed.
  Lemma cf_has_dot : has_dot (t ++ 46 :: f) = true.
  Proof. apply has_dot_app_dot. Qed.
End CF.
