(* Facts about month / weekday name tokens and one-digit day tokens (for the C02 template proofs). *)
From Coq Require Import ZArith List Bool Lia ZifyBool.
From V Require Import base.Cal gen.ParseTables parse.Lex parse.Prim parse.Ymd parse.Parse parse.Build
                      parse.ParseSpec parse.LexSeg parse.TokFacts.
Import ListNotations.
Open Scope Z_scope.

Lemma month_cases m : 1 <= m <= 12 ->
  m = 1 \/ m = 2 \/ m = 3 \/ m = 4 \/ m = 5 \/ m = 6 \/ m = 7 \/ m = 8 \/ m = 9 \/ m = 10 \/ m = 11 \/ m = 12.
Proof. lia. Qed.

Lemma wd_cases w : 0 <= w <= 6 -> w = 0 \/ w = 1 \/ w = 2 \/ w = 3 \/ w = 4 \/ w = 5 \/ w = 6.
Proof. lia. Qed.

Ltac by_month H := let C := fresh in pose proof (month_cases _ H) as C;
  repeat (destruct C as [-> | C]; [vm_compute; reflexivity|]); subst; vm_compute; reflexivity.
Ltac by_wd H := let C := fresh in pose proof (wd_cases _ H) as C;
  repeat (destruct C as [-> | C]; [vm_compute; reflexivity|]); subst; vm_compute; reflexivity.

Section Month.
  Variable m : Z.
  Hypothesis Hm : 1 <= m <= 12.
  Lemma mon3_float : is_float (mon3 m) = false. Proof. by_month Hm. Qed.
  Lemma mon3_weekday : info_weekday (mon3 m) = None. Proof. by_month Hm. Qed.
  Lemma mon3_month : info_month (mon3 m) = Some m. Proof. by_month Hm. Qed.
  Lemma mon3_wf : wf_seg (SWord (mon3 m)) = true. Proof. by_month Hm. Qed.
  Lemma mon3_hms : info_hms (mon3 m) = None. Proof. by_month Hm. Qed.
  Lemma mon3_ampm : info_ampm (mon3 m) = None. Proof. by_month Hm. Qed.
  Lemma mon3_jump : info_jump (mon3 m) = false. Proof. by_month Hm. Qed.
  Lemma month_float : is_float (month_name m) = false. Proof. by_month Hm. Qed.
  Lemma month_weekday : info_weekday (month_name m) = None. Proof. by_month Hm. Qed.
  Lemma month_month : info_month (month_name m) = Some m. Proof. by_month Hm. Qed.
  Lemma month_wf : wf_seg (SWord (month_name m)) = true. Proof. by_month Hm. Qed.
  Lemma month_hms : info_hms (month_name m) = None. Proof. by_month Hm. Qed.
  Lemma month_ampm : info_ampm (month_name m) = None. Proof. by_month Hm. Qed.
  Lemma month_jump : info_jump (month_name m) = false. Proof. by_month Hm. Qed.
End Month.

Section Wd.
  Variable w : Z.
  Hypothesis Hw : 0 <= w <= 6.
  Lemma wd3_float : is_float (wd3 w) = false. Proof. by_wd Hw. Qed.
  Lemma wd3_weekday : info_weekday (wd3 w) = Some w. Proof. by_wd Hw. Qed.
  Lemma wd3_wf : wf_seg (SWord (wd3 w)) = true. Proof. by_wd Hw. Qed.
  Lemma wd3_hms : info_hms (wd3 w) = None. Proof. by_wd Hw. Qed.
  Lemma wd3_ampm : info_ampm (wd3 w) = None. Proof. by_wd Hw. Qed.
  Lemma wd3_jump : info_jump (wd3 w) = false. Proof. by_wd Hw. Qed.
End Wd.

Lemma tok_info_pertain k n : info_pertain (digits_n (S k) n) = false.
Proof. unfold info_pertain. rewrite tok_lookup by (vm_compute; reflexivity). reflexivity. Qed.

Lemma tok_info_utczone k n : info_utczone (digits_n (S k) n) = false.
Proof. unfold info_utczone. rewrite tok_lookup by (vm_compute; reflexivity). reflexivity. Qed.

Lemma convertyear_ge100 cur y cs : 100 <= y -> convertyear cur y cs = Ok y.
Proof.
  intros H. unfold convertyear. replace (y <? 0) with false by lia.
  replace (y <? 100) with false by lia. reflexivity.
Qed.
