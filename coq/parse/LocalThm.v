(* Consequences of Local.v for the three properties: totality (C14), the zone table (C15). *)
From Coq Require Import ZArith List Bool Lia.
From V Require Import base.Cal gen.ParseTables parse.Lex parse.Prim parse.Ymd parse.Parse parse.Build
                      parse.ParseSpec parse.ZoneThm parse.BuildThm parse.LexThm parse.TotalThm parse.Local.
Import ListNotations.
Open Scope Z_scope.

(* C14: with the failing local zone parse() still only returns, raises ParserError or OverflowError *)
Theorem parse_lz_total_lemma : forall o lz s,
  wf_tzinfos (o_tzinfos o) = true -> 50 <= o_cur_year o ->
  match parse_lz o lz s with OutEscape e => e = ValueErrorNoStr | _ => True end.
Proof.
  intros o lz s Hwf Hcy. destruct (parse_lz_cases o lz s) as [-> | ->]; [|exact I].
  exact (parse_total_lemma o s Hwf Hcy).
Qed.

(* C15: the table with the failing local zone is the documented table unless tzlocal fails *)
Lemma spec_zone_lz_no_raise ti loc lm n off pf :
  spec_zone_lz ti loc lm false n off pf = spec_zone ti loc lm n off pf.
Proof.
  unfold spec_zone_lz. destruct (spec_zone ti loc true n off pf) as [z w| |]; try reflexivity.
  destruct z; reflexivity.
Qed.

Lemma spec_zone_lz_raise ti loc lm n off pf w :
  spec_zone ti loc true n off pf = ZR ZLocal w -> spec_zone_lz ti loc lm true n off pf = ZROverflow.
Proof. intros H. unfold spec_zone_lz. rewrite H. reflexivity. Qed.
