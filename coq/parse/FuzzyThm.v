(* C15: a text accepted without fuzzy gives the same result with fuzzy, as long as the strict run
   never meets an AM/PM word when an AM/PM flag is already set (the complement is exactly open
   finding F-C15-ampm / D15). *)
From Coq Require Import ZArith List Bool Lia.
From V Require Import base.Cal gen.ParseTables parse.Lex parse.Prim parse.Ymd parse.Parse parse.Build.
Import ListNotations.
Open Scope Z_scope.

Ltac split_all :=
  repeat match goal with
  | |- context [match ?x with _ => _ end] =>
      lazymatch x with
      | context [match _ with _ => _ end] => fail
      | _ => destruct x eqn:?
      end
  end.

(* the numeric-token handler: fuzzy only turns a final ValueError into "ignore the token" *)
Lemma parse_numeric_fuzzy l i y r x :
  parse_numeric l i y r false = Ok x -> parse_numeric l i y r true = Ok x.
Proof.
  unfold parse_numeric, bind. cbv zeta.
  split_all; intros H; first [exact H | discriminate H].
Qed.

(* states equal up to the list of skipped indices *)
Definition sim (a b : pst) : Prop :=
  p_l a = p_l b /\ p_i a = p_i b /\ p_r a = p_r b /\ p_y a = p_y b.

(* the loop is about to treat the current token as an AM/PM word although a flag is already set *)
Definition ampm_clash (st : pst) : bool :=
  match nth_error (p_l st) (p_i st) with
  | Some t => negb (is_float t) && isNone (info_weekday t) && isNone (info_month t)
              && isSome (info_ampm t) && isSome (r_ampm (p_r st))
  | None => false
  end.

Ltac sim_leaf := eexists; split; [reflexivity | repeat split; reflexivity].

Lemma parse_step_fuzzy cy st1 st2 st1' :
  sim st1 st2 -> ampm_clash st1 = false -> parse_step false cy st1 = Ok st1' ->
  exists st2', parse_step true cy st2 = Ok st2' /\ sim st1' st2'.
Proof.
  destruct st1 as [l i r y sk1], st2 as [l2 i2 r2 y2 sk2].
  intros (E1 & E2 & E3 & E4). cbn [p_l p_i p_r p_y] in E1, E2, E3, E4. subst l2 i2 r2 y2.
  unfold ampm_clash, parse_step. cbn [p_l p_i p_r p_y p_sk]. cbv zeta. unfold tk.
  destruct (nth_error l i) as [t|]; cbn [bind]; [|discriminate].
  destruct (is_float t) eqn:Ef; cbn [negb andb].
  { intros _. destruct (parse_numeric l i y r false) as [[[i' y'] r']|] eqn:En; cbn [bind]; [|discriminate].
    rewrite (parse_numeric_fuzzy _ _ _ _ _ En). cbn [bind]. intros H; injection H as <-. sim_leaf. }
  destruct (info_weekday t) as [w|]; cbn [isNone andb].
  { intros _ H; injection H as <-. sim_leaf. }
  destruct (info_month t) as [m|]; cbn [isNone andb].
  { intros _. unfold bind. split_all; intros H; try discriminate H; injection H as <-; sim_leaf. }
  destruct (info_ampm t) as [ap|]; cbn [isSome andb].
  { destruct (r_ampm r) as [a0|] eqn:Ea; cbn [isSome]; [discriminate|]. intros _.
    unfold ampm_valid. cbn [isSome andb negb].
    destruct (r_hour r) as [h|]; cbn [bind]; [|discriminate].
    destruct ((0 <=? h) && (h <=? 12)); cbn [bind]; [|discriminate].
    intros H; injection H as <-. sim_leaf. }
  intros _.
  destruct (could_be_tzname (r_hour r) (r_tzname r) (r_tzoffset r) t).
  { unfold bind. split_all; intros H; try discriminate H; injection H as <-; sim_leaf. }
  destruct (isSome (r_hour r) && is_sign t).
  { unfold bind. split_all; intros H; try discriminate H; injection H as <-; sim_leaf. }
  rewrite orb_false_r, orb_true_r. cbn [negb].
  destruct (info_jump t); cbn [negb]; [|discriminate].
  intros H; injection H as <-. sim_leaf.
Qed.

(* the guard: along the strict run the clash never occurs *)
Fixpoint no_clash (fuel : nat) (cy : Z) (st : pst) : Prop :=
  if (length (p_l st) <=? p_i st)%nat then True else
  match fuel with
  | O => True
  | S f => ampm_clash st = false /\
           match parse_step false cy st with Ok st' => no_clash f cy st' | Err _ => True end
  end.

Lemma parse_loop_fuzzy cy : forall fuel st1 st2 a,
  sim st1 st2 -> no_clash fuel cy st1 -> parse_loop fuel false cy st1 = Ok a ->
  exists b, parse_loop fuel true cy st2 = Ok b /\ sim a b.
Proof.
  induction fuel as [|f IH]; intros st1 st2 a Hs Hg H; cbn [parse_loop no_clash] in *;
    pose proof Hs as (E1 & E2 & _); rewrite <- E1, <- E2.
  - destruct (length (p_l st1) <=? p_i st1)%nat; [|discriminate].
    injection H as <-. exists st2. auto.
  - destruct (length (p_l st1) <=? p_i st1)%nat.
    + injection H as <-. exists st2. auto.
    + destruct Hg as [Hc Hg].
      destruct (parse_step false cy st1) as [st1'|] eqn:Es; cbn [bind] in H; [|discriminate].
      destruct (parse_step_fuzzy cy st1 st2 st1' Hs Hc Es) as (st2' & Es2 & Hs').
      rewrite Es2. cbn [bind]. eapply IH; eauto.
Qed.

Definition strict_no_clash (cy : Z) (s : list Z) : Prop :=
  no_clash (length (timelex s)) cy (mkSt (timelex s) O res_empty ymd_empty []).

Lemma parse_res_fuzzy yf df cy s v :
  strict_no_clash cy s ->
  parse_res false false yf df cy s = Ok (Some v) -> parse_res true false yf df cy s = Ok (Some v).
Proof.
  unfold strict_no_clash, parse_res. cbv zeta. cbn [orb]. intros Hg.
  set (st0 := mkSt (timelex s) O res_empty ymd_empty []) in *.
  destruct (parse_loop (length (timelex s)) false cy st0) as [a|e] eqn:El; cbn [bind].
  - destruct (parse_loop_fuzzy cy _ st0 st0 a (conj eq_refl (conj eq_refl (conj eq_refl eq_refl))) Hg El)
      as (b & Eb & (S1 & S2 & S3 & S4)).
    rewrite Eb. cbn [bind]. rewrite <- S4.
    destruct (resolve_ymd (p_y a) yf df) as [[[yy mm] dd]|e]; cbn [bind].
    + cbn [p_r]. rewrite <- S3. intros H. exact H.
    + destruct e; intros H; try discriminate H; exact H.
  - destruct e; discriminate.
Qed.

Definition set_fuzzy (o : opts) (fz : bool) : opts :=
  mkOpts fz false (o_dayfirst o) (o_yearfirst o) (o_info_dayfirst o) (o_info_yearfirst o)
         (o_ignoretz o) (o_tzinfos o) (o_default o) (o_cur_year o) (o_local o) (o_nm0 o) (o_nm1 o).

(* accepted without fuzzy => the same result with fuzzy, outside the F-C15-ampm class *)
Theorem fuzzy_conservative_guarded_lemma o s d z f w toks :
  strict_no_clash (o_cur_year o) s ->
  parse (set_fuzzy o false) s = OutOk d z f w toks ->
  parse (set_fuzzy o true) s = OutOk d z f w toks.
Proof.
  intros Hg. unfold parse, set_fuzzy.
  cbn [o_fuzzy o_fwt o_yearfirst o_info_yearfirst o_dayfirst o_info_dayfirst o_cur_year o_default
       o_ignoretz o_tzinfos].
  destruct (parse_res false false _ _ _ s) as [[v|]|e] eqn:E; try discriminate.
  2:{ destruct e; discriminate. }
  rewrite (parse_res_fuzzy _ _ _ _ v Hg E). intros H.
  destruct v as [r tk]. exact H.
Qed.

(* the guard holds for ordinary texts (non-vacuity) and fails exactly on the D15 witness *)
Example strict_no_clash_example :
  strict_no_clash 2026 [49; 48; 58; 48; 48; 32; 112; 109] (* "10:00 pm" *).
Proof. vm_compute. repeat split. Qed.

(* "10:00 am pm" (the D15 witness) is outside the guard *)
Lemma d15_outside_guard :
  ~ strict_no_clash 2026 [49; 48; 58; 48; 48; 32; 97; 109; 32; 112; 109].
Proof.
  intros H. vm_compute in H.
  repeat match goal with H : _ /\ _ |- _ => destruct H end; discriminate.
Qed.

(* the guard as a computable function (extracted: the matcher of F-C15-ampm evaluates it) *)
Fixpoint clash_b (fuel : nat) (cy : Z) (st : pst) : bool :=
  if (length (p_l st) <=? p_i st)%nat then false else
  match fuel with
  | O => false
  | S f => ampm_clash st ||
           match parse_step false cy st with Ok st' => clash_b f cy st' | Err _ => false end
  end.

Definition strict_clash (cy : Z) (s : list Z) : bool :=
  clash_b (length (timelex s)) cy (mkSt (timelex s) O res_empty ymd_empty []).

Lemma clash_b_no_clash cy : forall fuel st, clash_b fuel cy st = false -> no_clash fuel cy st.
Proof.
  induction fuel as [|f IH]; intros st H; cbn [clash_b no_clash] in *;
    destruct (length (p_l st) <=? p_i st)%nat; auto.
  apply orb_false_elim in H. destruct H as [H1 H2]. split; [exact H1|].
  destruct (parse_step false cy st); auto.
Qed.

Lemma no_clash_clash_b cy : forall fuel st, no_clash fuel cy st -> clash_b fuel cy st = false.
Proof.
  induction fuel as [|f IH]; intros st H; cbn [clash_b no_clash] in *;
    destruct (length (p_l st) <=? p_i st)%nat; auto.
  destruct H as [H1 H2]. rewrite H1. cbn [orb]. destruct (parse_step false cy st); auto.
Qed.

Lemma strict_clash_iff cy s : strict_clash cy s = false <-> strict_no_clash cy s.
Proof. unfold strict_clash, strict_no_clash. split; [apply clash_b_no_clash | apply no_clash_clash_b]. Qed.
