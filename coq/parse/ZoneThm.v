(* C15: the zone-resolution decision table.  validate + _build_tzaware of the model compute exactly
   the documented cascade spec_zone on the (tzname, tzoffset) pair the scan produced. *)
From Coq Require Import ZArith List Bool Lia.
From V Require Import base.Cal gen.ParseTables parse.Lex parse.Prim parse.Ymd parse.Parse parse.Build
                      parse.ParseSpec.
Import ListNotations.
Open Scope Z_scope.

Definition zone_fold (o : opts) (z : zone) : Z :=
  match z with ZUser _ | ZStr _ | ZLocal => assign_fold (o_nm0 o) (o_nm1 o) | _ => 0 end.

Definition of_zres (o : opts) (x : zres) : R (zone * Z * bool) :=
  match x with
  | ZR z w => Ok (z, zone_fold o z, w)
  | ZROverflow => Err OverflowError
  | ZRTypeError => Err TypeError
  end.

Lemma zulu_cases n : is_zulu n = true -> n = [90] \/ n = [122].
Proof.
  unfold is_zulu, is1. destruct n as [|c [|d n]]; try discriminate.
  intros H. apply orb_prop in H. destruct H as [H|H]; apply Z.eqb_eq in H; subst; auto.
Qed.

Lemma zulu_alias n : is_zulu n = true -> is_utc_alias n = true.
Proof. intros H. destruct (zulu_cases n H) as [-> | ->]; vm_compute; reflexivity. Qed.

Lemma utc_name_not_zulu : is_zulu utc_name = false. Proof. reflexivity. Qed.

(* tz fields of the validated record *)
Lemma validate_tz cy r0 r :
  validate cy r0 = Ok r ->
  let name_falsy := match r_tzname r0 with None | Some [] => true | _ => false end in
  let off0 := match r_tzoffset r0 with Some 0 => true | _ => false end in
  let is_z := match r_tzname r0 with Some t => is_zulu t | None => false end in
  (r_tzname r, r_tzoffset r) =
    if (off0 && name_falsy) || is_z then (Some utc_name, Some 0)
    else if negb off0 && negb name_falsy
            && (match r_tzname r0 with Some t => is_utc_alias t | None => false end)
         then (r_tzname r0, Some 0)
         else (r_tzname r0, r_tzoffset r0).
Proof.
  unfold validate. intros H.
  assert (Hgen : forall r1, r_tzname r1 = r_tzname r0 -> r_tzoffset r1 = r_tzoffset r0 ->
    (let name_falsy := match r_tzname r1 with None | Some [] => true | _ => false end in
     let off0 := match r_tzoffset r1 with Some 0 => true | _ => false end in
     let is_z := match r_tzname r1 with Some t => is1 t 90 || is1 t 122 | None => false end in
     if (off0 && name_falsy) || is_z then Ok (set_tzoffset (set_tzname r1 (Some [85; 84; 67])) (Some 0))
     else if negb off0 && negb name_falsy
             && (match r_tzname r1 with Some t => info_utczone t | None => false end)
          then Ok (set_tzoffset r1 (Some 0)) else Ok r1) = Ok r ->
    (r_tzname r, r_tzoffset r) =
    (if (match r_tzoffset r0 with Some 0 => true | _ => false end
         && match r_tzname r0 with None | Some [] => true | _ => false end)
        || match r_tzname r0 with Some t => is_zulu t | None => false end
     then (Some utc_name, Some 0)
     else if negb (match r_tzoffset r0 with Some 0 => true | _ => false end)
             && negb (match r_tzname r0 with None | Some [] => true | _ => false end)
             && (match r_tzname r0 with Some t => is_utc_alias t | None => false end)
          then (r_tzname r0, Some 0) else (r_tzname r0, r_tzoffset r0))).
  { intros r1 E1 E2. cbv zeta. rewrite E1, E2.
    unfold is_zulu, is_utc_alias, info_utczone.
    match goal with |- context [if ?c then _ else _] => destruct c end.
    - intros E; injection E as <-. reflexivity.
    - match goal with |- context [if ?c then _ else _] => destruct c end;
        intros E; injection E as <-; cbn; congruence. }
  destruct (r_year r0) as [yv|].
  - destruct (convertyear cy yv (r_century r0)); cbn [bind] in H; [|discriminate].
    eapply Hgen; [| | exact H]; reflexivity.
  - cbn [bind] in H. eapply Hgen; [| | exact H]; reflexivity.
Qed.

Lemma negb_or_and a b : negb (a || b) = negb a && negb b. Proof. destruct a, b; reflexivity. Qed.

Ltac leaf o :=
  unfold utc_name in *;
  cbn [bind build_tzinfo of_zres zone_fold fst snd negb andb orb assign_fold o_nm0 o_nm1 o_local o_tzinfos];
  repeat match goal with |- context [if ?b then _ else _] => destruct b eqn:? end;
  cbn [bind build_tzinfo of_zres zone_fold fst snd negb andb orb assign_fold o_nm0 o_nm1 o_local o_tzinfos];
  first [reflexivity | congruence].

(* the decision table *)
Theorem tz_cascade_lemma o cy r0 r :
  validate cy r0 = Ok r -> r_tzname r0 <> Some [] ->
  build_tzaware o r =
  of_zres o (spec_zone (o_tzinfos o) (o_local o) (o_nm0 o || o_nm1 o)
                       (r_tzname r0) (r_tzoffset r0) false).
Proof.
  intros Hv Hne. pose proof (validate_tz cy r0 r Hv) as Htz. cbv zeta in Htz.
  destruct o as [ofz ofw odf oyf oidf oiyf oig oti odflt ocy oloc nm0 nm1].
  unfold build_tzaware, spec_zone. cbn [andb o_nm0 o_nm1 o_local o_tzinfos].
  rewrite negb_or_and.
  destruct (r_tzname r0) as [[|c0 n0]|] eqn:En0; [exfalso; apply Hne; first [assumption | reflexivity]| |].
  - (* an abbreviation was found *)
    set (n := c0 :: n0) in *.
    rewrite andb_false_r in Htz. cbn [orb negb andb] in Htz.
    destruct (is_zulu n) eqn:Ez.
    + rewrite (zulu_alias n Ez). injection Htz as -> ->.
      
      destruct oti as [|d|tbl df|]; cbn [name_truthy utc_name];
        try destruct (dict_get _ d) as [[]|]; try destruct (call_get _ tbl df);
        leaf tt.
    + destruct (is_utc_alias n) eqn:Ea.
      * assert (Hr : r_tzname r = Some n /\ r_tzoffset r = Some 0).
        { destruct (r_tzoffset r0) as [[|p|p]|]; cbn in Htz; injection Htz as -> ->; auto. }
        destruct Hr as [-> ->].  subst n.
        destruct oti as [|d|tbl df|]; cbn [name_truthy];
          try destruct (dict_get _ d) as [[]|]; try destruct (call_get _ tbl df);
          leaf tt.
      * assert (Hr : r_tzname r = Some n /\ r_tzoffset r = r_tzoffset r0).
        { destruct (r_tzoffset r0) as [[|p|p]|]; cbn in Htz; rewrite ?andb_false_r in Htz;
            injection Htz as -> ->; auto. }
        destruct Hr as [-> ->].  subst n.
        destruct (r_tzoffset r0) as [[|p|p]|];
        destruct oti as [|d|tbl df|]; cbn [name_truthy];
          try destruct (dict_get _ d) as [[]|]; try destruct (call_get _ tbl df);
          leaf tt.
  - (* no abbreviation *)
    cbn [orb andb negb] in Htz. rewrite ?orb_false_r, ?andb_true_r, ?andb_false_r in Htz.
    destruct (r_tzoffset r0) as [[|p|p]|]; cbn in Htz; injection Htz as -> ->;
      destruct oti as [|d|tbl df|]; cbn [name_truthy utc_name];
      try destruct (dict_get _ d) as [[]|]; try destruct (call_get _ tbl df);
      leaf tt.
Qed.

(* an abbreviation nobody knows: naive result, with the warning flag *)
Lemma unknown_abbr_lemma o r c n :
  o_tzinfos o = TINone -> r_tzname r = Some (c :: n) -> smem (c :: n) (o_local o) = false ->
  r_tzoffset r = None -> build_tzaware o r = Ok (ZNaive, 0, true).
Proof.
  intros H1 H2 H3 H4. unfold build_tzaware. rewrite H1, H2, H4, H3. reflexivity.
Qed.

(* "GMT+h" means h hours BEHIND UTC, and the zone is not named GMT *)
Definition opts_plain : opts :=
  mkOpts false false None None false false false TINone (mkDt 2003 9 25 0 0 0 0) 2026 [] true false.

Definition gmt_plus_text (h : Z) : list Z :=
  [49; 48; 58; 48; 48; 32; 71; 77; 84; 43] ++ (if h <? 10 then [48 + h] else [48 + h / 10; 48 + h mod 10]).

Lemma gmt_plus_h_lemma h : 1 <= h <= 23 ->
  parse opts_plain (gmt_plus_text h) = OutOk (mkDt 2003 9 25 10 0 0 0) (ZOffset None (- (h * 3600))) 0 false [].
Proof.
  intros Hh.
  assert (H : h = 1 \/ h = 2 \/ h = 3 \/ h = 4 \/ h = 5 \/ h = 6 \/ h = 7 \/ h = 8 \/ h = 9 \/ h = 10 \/
              h = 11 \/ h = 12 \/ h = 13 \/ h = 14 \/ h = 15 \/ h = 16 \/ h = 17 \/ h = 18 \/ h = 19 \/
              h = 20 \/ h = 21 \/ h = 22 \/ h = 23) by lia.
  repeat (destruct H as [-> | H]; [vm_compute; reflexivity|]). subst h. vm_compute; reflexivity.
Qed.
