(* C02: definitions shared by the UTC-designator template proofs. *)
From Coq Require Import ZArith List Bool Lia ZifyBool.
From V Require Import base.Cal gen.ParseTables parse.Lex parse.Prim parse.Ymd parse.Parse parse.Build
                      parse.ParseSpec parse.LexSeg parse.TokFacts parse.YearThm parse.RenderTac parse.RenderIso.
Import ListNotations.
Open Scope Z_scope.
Ltac Zify.zify_post_hook ::= Z.to_euclidean_division_equations.

Local Arguments digits_n : simpl never.
Local Arguments is_float : simpl never.
Local Arguments to_decimal : simpl never.
Local Arguments py_int : simpl never.
Local Arguments py_isdigit : simpl never.
Local Arguments slen : simpl never.
Local Arguments has_dot : simpl never.
Local Arguments find_dot : simpl never.
Local Arguments info_jump : simpl never.
Local Arguments info_weekday : simpl never.
Local Arguments info_month : simpl never.
Local Arguments info_hms : simpl never.
Local Arguments info_ampm : simpl never.
Local Arguments info_pertain : simpl never.
Local Arguments info_utczone : simpl never.
Local Arguments info_tzoffset : simpl never.
Local Arguments is1 : simpl never.
Local Arguments str_eqb : simpl never.
Local Arguments could_be_tzname : simpl never.
Local Arguments parsems : simpl never.
Local Arguments all_digit : simpl never.
Local Arguments convertyear : simpl never.
Local Arguments dt_replace : simpl never.
Local Arguments valid_dt : simpl never.
Local Arguments monthlen : simpl never.
Local Arguments Z.eqb !x !y.
Local Arguments Z.ltb !x !y.
Local Arguments Z.leb !x !y.
Local Arguments Z.add !x !y.
Local Arguments Z.mul !x !y.
Local Arguments Z.sub !m !n.
Local Arguments Z.opp !x.

Definition utc_segs (f : oform) : list seg :=
  match f with
  | OZ => [SWord [90]]
  | OUTC => [SSep 32; SWord [85; 84; 67]]
  | OGMT => [SSep 32; SWord [71; 77; 84]]
  | _ => []
  end.

Definition usegs_of (t : template) (d : dt7) : list seg :=
  match t with
  | TDT df j tf ofm => date_segs df d ++ join_segs j ++ time_segs tf d ++ utc_segs ofm
  | _ => []
  end.

