(* C02: UTC designators (Z, UTC, GMT) after further numeric date-time forms. *)
From Coq Require Import ZArith List Bool Lia ZifyBool.
From V Require Import base.Cal gen.ParseTables parse.Lex parse.Prim parse.Ymd parse.Parse parse.Build
                      parse.ParseSpec parse.LexSeg parse.TokFacts parse.YearThm parse.RenderTac parse.RenderTac3 parse.RenderTac4 parse.ZoneThm parse.Local parse.RenderIso parse.RenderUtcDefs parse.RenderLocal.
Import ListNotations.
Open Scope Z_scope.
Ltac Zify.zify_post_hook ::= Z.to_euclidean_division_equations.

Local Arguments digits_n : simpl never.
Local Arguments is_float : simpl never.
Local Arguments to_decimal : simpl never.
Local Arguments py_int : simpl never.
Local Arguments py_isdigit : simpl never.
Local Arguments slen : simpl never.
Local Arguments has_dot : simpl never.
Local Arguments find_dot : simpl never.
Local Arguments info_jump : simpl never.
Local Arguments info_weekday : simpl never.
Local Arguments info_month : simpl never.
Local Arguments info_hms : simpl never.
Local Arguments info_ampm : simpl never.
Local Arguments info_pertain : simpl never.
Local Arguments info_utczone : simpl never.
Local Arguments info_tzoffset : simpl never.
Local Arguments is1 : simpl never.
Local Arguments str_eqb : simpl never.
Local Arguments could_be_tzname : simpl never.
Local Arguments parsems : simpl never.
Local Arguments all_digit : simpl never.
Local Arguments convertyear : simpl never.
Local Arguments dt_replace : simpl never.
Local Arguments valid_dt : simpl never.
Local Arguments monthlen : simpl never.
Local Arguments Z.eqb !x !y.
Local Arguments Z.ltb !x !y.
Local Arguments Z.leb !x !y.
Local Arguments Z.add !x !y.
Local Arguments Z.mul !x !y.
Local Arguments Z.sub !m !n.
Local Arguments Z.opp !x.


(* YYYY-MM-DD{T, space}HH:MM + Z / UTC / GMT *)
(* `Z` where "UTC" is one of time.tzname (TZ=UTC): validate names the zone "UTC", which is local *)
Theorem parse_render_iso_z_local_lemma : forall j tf d o df cy loc n0 n1 yf ig,
  In j plain_joiners -> In tf [THM; THMS] ->
  valid_dt d = true -> valid_dt df = true ->
  smem [85; 84; 67] loc = true ->
  parse (opts_df0 yf ig df cy loc n0 n1) (render (TDT DIso j tf OZ) d o)
  = OutOk (expected_dt (TDT DIso j tf OZ) d df) (fst (local_zone_res ig n0 n1)) (snd (local_zone_res ig n0 n1)) false [].
Proof.
  intros j tf d o df cy loc n0 n1 yf ig Hj Htf Hd Hdf Hl1.
  destruct (valid_dt_ranges d Hd) as (Ry & Rmo & Rd & Rh & Rmi & Rs & Rus).
  assert (Hm12 : 1 <= d_mo d <= 12 /\ 1 <= d_d d <= 31).
  { unfold valid_dt, valid_ymd in Hd. pose proof (dim_pos (d_y d) (d_mo d)). lia. }
  destruct Hm12 as [Hm12 Hd31].
  unfold plain_joiners in *. cbn [In] in Hj, Htf.
  repeat match goal with H : _ \/ _ |- _ => destruct H as [<- | H] | H : False |- _ => destruct H end;
  unfold smem in Hl1;
  match goal with |- parse _ (render ?t d o) = _ =>
    assert (Hrender : render t d o = concat (map seg_str (usegs_of t d)))
      by (unfold render, render_date, render_time, render_off, join_txt, usegs_of, date_segs, join_segs, time_segs, utc_segs;
          cbn [map concat seg_str app]; repeat (progress (rewrite <- ?app_assoc, ?app_nil_r; cbn [app])); reflexivity);
    assert (Hwf : wf_segs (usegs_of t d) = true)
      by (unfold usegs_of, date_segs, join_segs, time_segs, utc_segs; cbn [app wf_segs wf_seg hd_error ok_next];
          rewrite ?digits_n_all_digit, ?digits_n_length, ?nonempty_digits; vm_compute; reflexivity)
  end;
  unfold parse, opts_df0;
  cbn [o_fuzzy o_fwt o_yearfirst o_info_yearfirst o_dayfirst o_info_dayfirst o_cur_year oflag o_default
       o_ignoretz o_tzinfos o_local o_nm0 o_nm1];
  unfold parse_res; rewrite Hrender, timelex_segments by exact Hwf; clear Hrender Hwf;
  unfold usegs_of, date_segs, join_segs, time_segs, utc_segs; cbn [app map seg_tok length];
  lrun ltac:(rewrite ?Hl1);
  unfold local_zone_res; destruct ig; try reflexivity; destruct n0, n1; reflexivity.
Qed.
