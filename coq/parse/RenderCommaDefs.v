(* C02: parse_render theorems for Mon DD, YYYY / Month DD, YYYY forms. *)
From Coq Require Import ZArith List Bool Lia ZifyBool.
From V Require Import base.Cal gen.ParseTables parse.Lex parse.Prim parse.Ymd parse.Parse parse.Build
                      parse.ParseSpec parse.LexSeg parse.TokFacts parse.YearThm parse.RenderTac parse.RenderTac3 parse.RenderIso parse.WordFacts parse.LexSeg2.
Import ListNotations.
Open Scope Z_scope.
Ltac Zify.zify_post_hook ::= Z.to_euclidean_division_equations.

Local Arguments digits_n : simpl never.
Local Arguments is_float : simpl never.
Local Arguments to_decimal : simpl never.
Local Arguments py_int : simpl never.
Local Arguments py_isdigit : simpl never.
Local Arguments slen : simpl never.
Local Arguments has_dot : simpl never.
Local Arguments find_dot : simpl never.
Local Arguments info_jump : simpl never.
Local Arguments info_weekday : simpl never.
Local Arguments info_month : simpl never.
Local Arguments info_hms : simpl never.
Local Arguments info_ampm : simpl never.
Local Arguments info_pertain : simpl never.
Local Arguments info_utczone : simpl never.
Local Arguments info_tzoffset : simpl never.
Local Arguments is1 : simpl never.
Local Arguments str_eqb : simpl never.
Local Arguments could_be_tzname : simpl never.
Local Arguments parsems : simpl never.
Local Arguments all_digit : simpl never.
Local Arguments convertyear : simpl never.
Local Arguments dt_replace : simpl never.
Local Arguments valid_dt : simpl never.
Local Arguments monthlen : simpl never.
Local Arguments Z.eqb !x !y.
Local Arguments Z.ltb !x !y.
Local Arguments Z.leb !x !y.
Local Arguments Z.add !x !y.
Local Arguments Z.mul !x !y.
Local Arguments Z.sub !m !n.
Local Arguments Z.opp !x.

Local Arguments mon3 : simpl never.
Local Arguments month_name : simpl never.

Ltac wordrw Hm :=
  rewrite ?(mon3_float _ Hm), ?(mon3_weekday _ Hm), ?(mon3_month _ Hm),
          ?(month_float _ Hm), ?(month_weekday _ Hm), ?(month_month _ Hm),
          ?(mon3_hms _ Hm), ?(mon3_ampm _ Hm), ?(mon3_jump _ Hm),
          ?(month_hms _ Hm), ?(month_ampm _ Hm), ?(month_jump _ Hm),
          ?tok_info_pertain, ?tok_info_utczone.

Ltac msym2 Hm := repeat (progress (unfold dec_gt, dec_ge, dec_lt, dec_le, frac_nonzero; cbn [fst snd existsb]; sym2;
                                   wordrw Hm; rewrite ?convertyear_ge100 by lia)).

Definition cdate_segs (full : bool) (d : dt7) : list seg2 :=
  [S1 (SWord (if full then month_name (d_mo d) else mon3 (d_mo d))); S1 (SSep 32);
   SDigComma (digits_n 2 (d_d d)); S1 (SSep 32); S1 (SDig (digits_n 4 (d_y d)))].

Definition csegs_of (full : bool) (j : joiner) (tf : tform) (d : dt7) : list seg2 :=
  cdate_segs full d ++ map S1 (join_segs j ++ time_segs tf d).

Definition comma_tails : list (joiner * tform) := [(JNone, TNone); (JSpace, THM); (JSpace, THMS)].
