(* dateutil.parser._parser._ymd : the year/month/day accumulator.  No proofs here. *)
From Coq Require Import ZArith List Bool.
From V Require Import base.Cal gen.ParseTables parse.Lex parse.Prim.
Import ListNotations.
Open Scope Z_scope.

Inductive label := LM | LD | LY.

Record ymd := mkYmd {
  y_vals : list Z;
  y_century : bool;          (* century_specified *)
  y_d : option Z;            (* dstridx *)
  y_m : option Z;            (* mstridx *)
  y_y : option Z             (* ystridx *)
}.

Definition ymd_empty : ymd := mkYmd [] false None None None.
Definition ylen (y : ymd) : Z := Z.of_nat (length (y_vals y)).

(* list.__getitem__ with Python's negative-index wrap *)
Definition getz (l : list Z) (i : Z) : R Z :=
  let n := Z.of_nat (length l) in
  let j := if i <? 0 then i + n else i in
  if (0 <=? j) && (j <? n)
  then match nth_error l (Z.to_nat j) with Some v => Ok v | None => Err IndexError end
  else Err IndexError.

(* the part of append() after the value has been converted: list append + label bookkeeping *)
Definition append_core (y : ymd) (v : Z) (big : bool) (lab : option label) : R ymd :=
  match lab, big with
  | Some LM, true | Some LD, true => Err ValueError
  | _, _ =>
    let lab' := if big then Some LY else lab in
    let vals := y_vals y ++ [v] in
    let idx := ylen y in
    let c := y_century y || big in
    match lab' with
    | Some LM => if isSome (y_m y) then Err ValueError
                 else Ok (mkYmd vals c (y_d y) (Some idx) (y_y y))
    | Some LD => if isSome (y_d y) then Err ValueError
                 else Ok (mkYmd vals c (Some idx) (y_m y) (y_y y))
    | Some LY => if isSome (y_y y) then Err ValueError
                 else Ok (mkYmd vals c (y_d y) (y_m y) (Some idx))
    | None => Ok (mkYmd vals c (y_d y) (y_m y) (y_y y))
    end
  end.

(* append(val) for a str value *)
Definition append_str (y : ymd) (t : str) (lab : option label) : R ymd :=
  let big := py_isdigit t && (2 <? slen t) in
  match lab, big with
  | Some LM, true | Some LD, true => Err ValueError
  | _, _ => do v <- py_int t; append_core y v big lab
  end.

(* append(val) for a Decimal value: int(val) truncates *)
Definition append_dec (y : ymd) (v : dec) (lab : option label) : R ymd :=
  append_core y (dec_int v) (dec_gt v 100) lab.

(* append(val) for an int value *)
Definition append_int (y : ymd) (n : Z) (lab : option label) : R ymd :=
  append_core y n (100 <? n) lab.

(* append(str(n), 'Y') for an int n >= 0: len(str(n)) > 2 iff n >= 100 *)
Definition append_yearstr (y : ymd) (n : Z) : R ymd :=
  append_core y n (100 <=? n) (Some LY).

Definition could_be_day (y : ymd) (v : dec) : R bool :=
  if isSome (y_d y) then Ok false else
  match y_m y with
  | None => Ok (dec_ge v 1 && dec_le v 31)
  | Some mi =>
      match y_y y with
      | None =>
          do month <- getz (y_vals y) mi;
          if dec_ge v 1 then (do n <- monthlen 2000 month; Ok (dec_le v n)) else Ok false
      | Some yi =>
          do month <- getz (y_vals y) mi;
          do year <- getz (y_vals y) yi;
          if dec_ge v 1 then (do n <- monthlen year month; Ok (dec_le v n)) else Ok false
      end
  end.

Definition ymd3 := (option Z * option Z * option Z)%type.   (* year, month, day *)

Definition opt_get (l : list Z) (o : option Z) : R (option Z) :=
  match o with None => Ok None | Some i => do v <- getz l i; Ok (Some v) end.

Definition nsome (o : option Z) : Z := match o with Some _ => 1 | None => 0 end.
Definition zmem (x : Z) (l : list Z) : bool := existsb (Z.eqb x) l.
Definition opt_list (o : option Z) : list Z := match o with Some v => [v] | None => [] end.

Definition resolve_from_stridxs (y : ymd) : R ymd3 :=
  let n_str := nsome (y_y y) + nsome (y_m y) + nsome (y_d y) in
  do ids <-
    (if (ylen y =? 3) && (n_str =? 2) then
       let used := opt_list (y_y y) ++ opt_list (y_m y) ++ opt_list (y_d y) in
       let missing := filter (fun x => negb (zmem x used)) [0; 1; 2] in
       match missing with
       | [v] =>
           Ok (match y_y y, y_m y, y_d y with
               | None, m, d => (Some v, m, d)
               | yy, None, d => (yy, Some v, d)
               | yy, m, _ => (yy, m, Some v)
               end)
       | _ => Err AssertionError
       end
     else Ok (y_y y, y_m y, y_d y));
  let '(iy, im, id) := ids in
  if negb (ylen y =? nsome iy + nsome im + nsome id) then Err AssertionError else
  do yy <- opt_get (y_vals y) iy;
  do mm <- opt_get (y_vals y) im;
  do dd <- opt_get (y_vals y) id;
  Ok (yy, mm, dd).

Definition resolve_ymd (y : ymd) (yearfirst dayfirst : bool) : R ymd3 :=
  let n := ylen y in
  let n_str := nsome (y_y y) + nsome (y_m y) + nsome (y_d y) in
  if ((n =? n_str) && (0 <? n_str)) || ((n =? 3) && (n_str =? 2)) then resolve_from_stridxs y else
  let v := y_vals y in
  if 3 <? n then Err ValueError
  else if (n =? 1) || (isSome (y_m y) && (n =? 2)) then
    match y_m y with
    | Some mi =>
        do month <- getz v mi;
        do other <- getz v (mi - 1);
        if 1 <? n then
          (if 31 <? other then Ok (Some other, Some month, None) else Ok (None, Some month, Some other))
        else Ok (None, Some month, None)
    | None =>
        do other <- getz v 0;
        if 31 <? other then Ok (Some other, None, None) else Ok (None, None, Some other)
    end
  else if n =? 2 then
    do a <- getz v 0; do b <- getz v 1;
    if 31 <? a then Ok (Some a, Some b, None)
    else if 31 <? b then Ok (Some b, Some a, None)
    else if dayfirst && (b <=? 12) then Ok (None, Some b, Some a)
    else Ok (None, Some a, Some b)
  else if n =? 3 then
    do a <- getz v 0; do b <- getz v 1; do c <- getz v 2;
    match y_m y with
    | Some 0 => if 31 <? b then Ok (Some b, Some a, Some c) else Ok (Some c, Some a, Some b)
    | Some 1 => if (31 <? a) || (yearfirst && (c <=? 31)) then Ok (Some a, Some b, Some c)
                else Ok (Some c, Some b, Some a)
    | Some 2 => if 31 <? b then Ok (Some b, Some c, Some a) else Ok (Some a, Some c, Some b)
    | _ =>
        if (31 <? a) || (match y_y y with Some 0 => true | _ => false end)
           || (yearfirst && (b <=? 12) && (c <=? 31)) then
          (if dayfirst && (c <=? 12) then Ok (Some a, Some c, Some b) else Ok (Some a, Some b, Some c))
        else if (12 <? a) || (dayfirst && (b <=? 12)) then Ok (Some c, Some b, Some a)
        else Ok (Some c, Some a, Some b)
    end
  else Ok (None, None, None).
