(* C02: parse_render theorems: date-only and time-only numeric forms, NNhNNmNNs. *)
From Coq Require Import ZArith List Bool Lia ZifyBool.
From V Require Import base.Cal gen.ParseTables parse.Lex parse.Prim parse.Ymd parse.Parse parse.Build
                      parse.ParseSpec parse.LexSeg parse.TokFacts parse.YearThm parse.RenderTac parse.RenderTac3 parse.RenderIso parse.RenderTac4.
Import ListNotations.
Open Scope Z_scope.
Ltac Zify.zify_post_hook ::= Z.to_euclidean_division_equations.

Local Arguments digits_n : simpl never.
Local Arguments is_float : simpl never.
Local Arguments to_decimal : simpl never.
Local Arguments py_int : simpl never.
Local Arguments py_isdigit : simpl never.
Local Arguments slen : simpl never.
Local Arguments has_dot : simpl never.
Local Arguments find_dot : simpl never.
Local Arguments info_jump : simpl never.
Local Arguments info_weekday : simpl never.
Local Arguments info_month : simpl never.
Local Arguments info_hms : simpl never.
Local Arguments info_ampm : simpl never.
Local Arguments info_pertain : simpl never.
Local Arguments info_utczone : simpl never.
Local Arguments info_tzoffset : simpl never.
Local Arguments is1 : simpl never.
Local Arguments str_eqb : simpl never.
Local Arguments could_be_tzname : simpl never.
Local Arguments parsems : simpl never.
Local Arguments all_digit : simpl never.
Local Arguments convertyear : simpl never.
Local Arguments dt_replace : simpl never.
Local Arguments valid_dt : simpl never.
Local Arguments monthlen : simpl never.
Local Arguments Z.eqb !x !y.
Local Arguments Z.ltb !x !y.
Local Arguments Z.leb !x !y.
Local Arguments Z.add !x !y.
Local Arguments Z.mul !x !y.
Local Arguments Z.sub !m !n.
Local Arguments Z.opp !x.

Ltac zeq :=
  repeat match goal with
  | |- context [Z.eqb ?a ?b] =>
      first [ replace (Z.eqb a b) with true by lia | replace (Z.eqb a b) with false by lia ]
  end.

Definition misc_segs (t : template) (d : dt7) : list seg :=
  match t with
  | TDT DNone JNone tf ONone => time_segs tf d
  | TDT df JNone TNone ONone => date_segs df d
  | TDT df JSpace TWords ONone =>
      date_segs df d ++ [SSep 32; SDig (digits_n 2 (d_h d)); SWord [104]; SDig (digits_n 2 (d_mi d)); SWord [109];
                         SDig (digits_n 2 (d_s d)); SWord [115]]
  | _ => []
  end.

Definition misc_templates : list template :=
  [TDT DIso JNone TNone ONone; TDT DSlashYMD JNone TNone ONone;
   TDT DNone JNone THM ONone; TDT DNone JNone THMS ONone;
   TDT DIso JSpace TWords ONone; TDT DSlashYMD JSpace TWords ONone].

(* YYYY-MM-DD, YYYY/MM/DD alone; HH:MM, HH:MM:SS alone (date from the default);
   YYYY-MM-DD NNhNNmNNs *)
Theorem parse_render_misc_lemma : forall t d o df cy loc n0 n1 yf ig,
  In t misc_templates ->
  valid_dt d = true -> valid_dt df = true ->
  parse (opts_df0 yf ig df cy loc n0 n1) (render t d o)
  = OutOk (expected_dt t d df) ZNaive 0 false [].
Proof.
  intros t d o df cy loc n0 n1 yf ig Ht Hd Hdf.
  destruct (valid_dt_ranges d Hd) as (Ry & Rmo & Rd & Rh & Rmi & Rs & Rus).
  assert (Hm12 : 1 <= d_mo d <= 12 /\ 1 <= d_d d <= 31).
  { unfold valid_dt, valid_ymd in Hd. pose proof (dim_pos (d_y d) (d_mo d)). lia. }
  destruct Hm12 as [Hm12 Hd31].
  assert (Hdfv : 1 <= d_d df <= dim (d_y df) (d_mo df) /\ 1 <= d_mo df <= 12).
  { unfold valid_dt, valid_ymd in Hdf. lia. }
  unfold misc_templates in Ht. cbn [In] in Ht.
  repeat (destruct Ht as [<- | Ht]); try (destruct Ht);
  match goal with |- parse _ (render ?t d o) = _ =>
    assert (Hrender : render t d o = concat (map seg_str (misc_segs t d)))
      by (unfold render, render_date, render_time, render_off, join_txt, misc_segs, date_segs, time_segs;
          cbn [map concat seg_str app]; repeat (progress (rewrite <- ?app_assoc, ?app_nil_r; cbn [app])); reflexivity);
    assert (Hwf : wf_segs (misc_segs t d) = true)
      by (unfold misc_segs, date_segs, time_segs; cbn [app wf_segs wf_seg hd_error ok_next];
          rewrite ?digits_n_all_digit, ?digits_n_length, ?nonempty_digits; vm_compute; reflexivity)
  end;
  unfold parse, opts_df0;
  cbn [o_fuzzy o_fwt o_yearfirst o_info_yearfirst o_dayfirst o_info_dayfirst o_cur_year oflag o_default
       o_ignoretz o_tzinfos o_local o_nm0 o_nm1];
  unfold parse_res; rewrite Hrender, timelex_segments by exact Hwf; clear Hrender Hwf;
  unfold misc_segs, date_segs, time_segs; cbn [app map seg_tok length];
  lrun ltac:(unfold parse_hms, assign_hms, parse_min_sec, frac_nonzero, dec_int; cbn [fst snd existsb];
             unfold monthlen; zeq);
  try match goal with |- (if ?b then _ else _) = _ => destruct b end;
  zeq; first [reflexivity | (repeat f_equal; lia)].
Qed.
