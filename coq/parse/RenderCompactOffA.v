(* C02: compact forms YYYYMMDD{T, space}HHMM[SS] followed by a numeric UTC offset. *)
From Coq Require Import ZArith List Bool Lia ZifyBool.
From V Require Import base.Cal gen.ParseTables parse.Lex parse.Prim parse.Ymd parse.Parse parse.Build
                      parse.ParseSpec parse.LexSeg parse.TokFacts parse.YearThm parse.RenderTac parse.RenderTac3 parse.RenderIso parse.TokFacts2 parse.RenderTac4 parse.RenderOffDefs parse.RenderOff4.
Import ListNotations.
Open Scope Z_scope.
Ltac Zify.zify_post_hook ::= Z.to_euclidean_division_equations.

Local Arguments digits_n : simpl never.
Local Arguments is_float : simpl never.
Local Arguments to_decimal : simpl never.
Local Arguments py_int : simpl never.
Local Arguments py_isdigit : simpl never.
Local Arguments slen : simpl never.
Local Arguments has_dot : simpl never.
Local Arguments find_dot : simpl never.
Local Arguments info_jump : simpl never.
Local Arguments info_weekday : simpl never.
Local Arguments info_month : simpl never.
Local Arguments info_hms : simpl never.
Local Arguments info_ampm : simpl never.
Local Arguments info_pertain : simpl never.
Local Arguments info_utczone : simpl never.
Local Arguments info_tzoffset : simpl never.
Local Arguments is1 : simpl never.
Local Arguments str_eqb : simpl never.
Local Arguments could_be_tzname : simpl never.
Local Arguments parsems : simpl never.
Local Arguments all_digit : simpl never.
Local Arguments convertyear : simpl never.
Local Arguments dt_replace : simpl never.
Local Arguments valid_dt : simpl never.
Local Arguments monthlen : simpl never.
Local Arguments Z.eqb !x !y.
Local Arguments Z.ltb !x !y.
Local Arguments Z.leb !x !y.
Local Arguments Z.add !x !y.
Local Arguments Z.mul !x !y.
Local Arguments Z.sub !m !n.
Local Arguments Z.opp !x.

Local Arguments firstn : simpl never.
Local Arguments skipn : simpl never.
Local Arguments slice : simpl never.

Lemma p2 : 10 ^ Z.of_nat 2 = 100. Proof. reflexivity. Qed.
Lemma p4 : 10 ^ Z.of_nat 4 = 10000. Proof. reflexivity. Qed.

(* merged forms of the concatenated tokens *)
Lemma cat22 a b : 0 <= b < 100 ->
  digits_n 2 a ++ digits_n 2 b = digits_n 4 (a * 100 + b).
Proof. intros Hb. rewrite (digits_n_app 2 2 a b) by (rewrite p2; lia). rewrite p2. reflexivity. Qed.
Lemma cat222 a b c : 0 <= b < 100 -> 0 <= c < 100 ->
  digits_n 2 a ++ digits_n 2 b ++ digits_n 2 c = digits_n 6 ((a * 100 + b) * 100 + c).
Proof.
  intros Hb Hc. rewrite app_assoc. rewrite (digits_n_app 2 2 a b) by (rewrite p2; lia).
  rewrite (digits_n_app 4 2) by (rewrite p2; lia). rewrite !p2. reflexivity.
Qed.
Lemma cat422 y m d : 0 <= m < 100 -> 0 <= d < 100 ->
  digits_n 4 y ++ digits_n 2 m ++ digits_n 2 d = digits_n 8 ((y * 100 + m) * 100 + d).
Proof.
  intros Hm Hd. rewrite app_assoc. rewrite (digits_n_app 4 2 y m) by (rewrite p2; lia).
  rewrite (digits_n_app 6 2) by (rewrite p2; lia). rewrite !p2. reflexivity.
Qed.
Lemma cat42222 y m d h mi : 0 <= m < 100 -> 0 <= d < 100 -> 0 <= h < 100 -> 0 <= mi < 100 ->
  digits_n 4 y ++ digits_n 2 m ++ digits_n 2 d ++ digits_n 2 h ++ digits_n 2 mi
  = digits_n 12 ((((y * 100 + m) * 100 + d) * 100 + h) * 100 + mi).
Proof.
  intros Hm Hd Hh Hmi.
  rewrite (app_assoc (digits_n 4 y)), (digits_n_app 4 2 y m) by (rewrite p2; lia).
  rewrite app_assoc, (digits_n_app 6 2) by (rewrite p2; lia).
  rewrite app_assoc, (digits_n_app 8 2) by (rewrite p2; lia).
  rewrite (digits_n_app 10 2) by (rewrite p2; lia). rewrite !p2. reflexivity.
Qed.
Lemma cat422222 y m d h mi s : 0 <= m < 100 -> 0 <= d < 100 -> 0 <= h < 100 -> 0 <= mi < 100 -> 0 <= s < 100 ->
  digits_n 4 y ++ digits_n 2 m ++ digits_n 2 d ++ digits_n 2 h ++ digits_n 2 mi ++ digits_n 2 s
  = digits_n 14 (((((y * 100 + m) * 100 + d) * 100 + h) * 100 + mi) * 100 + s).
Proof.
  intros Hm Hd Hh Hmi Hs.
  rewrite (app_assoc (digits_n 4 y)), (digits_n_app 4 2 y m) by (rewrite p2; lia).
  rewrite app_assoc, (digits_n_app 6 2) by (rewrite p2; lia).
  rewrite app_assoc, (digits_n_app 8 2) by (rewrite p2; lia).
  rewrite app_assoc, (digits_n_app 10 2) by (rewrite p2; lia).
  rewrite (digits_n_app 12 2) by (rewrite p2; lia). rewrite !p2. reflexivity.
Qed.

Ltac catrw :=
  repeat match goal with
  | H : is_float ?t = true |- context [is_float ?t] => rewrite H
  | H : to_decimal ?t = Ok _ |- context [to_decimal ?t] => rewrite H
  | H : slen ?t = _ |- context [slen ?t] => rewrite H
  | H : find_dot ?t 0 = _ |- context [find_dot ?t 0] => rewrite H
  | H : has_dot ?t = false |- context [has_dot ?t] => rewrite H
  end.

(* assert the five whole-token facts for a concatenated token t = digits_n (S k) v *)
Ltac cat_facts E k Hv :=
  let F1 := fresh "F" in let F2 := fresh "F" in let F3 := fresh "F" in let F4 := fresh "F" in let F5 := fresh "F" in
  pose proof (cat_is_float _ k _ E Hv) as F1; pose proof (cat_to_decimal _ k _ E Hv) as F2;
  pose proof (cat_slen _ k _ E) as F3; pose proof (cat_has_dot _ k _ E) as F4; pose proof (cat_find_dot _ k _ E) as F5.

Lemma sl_6_8n y m d : slice 6 8 (digits_n 4 y ++ digits_n 2 m ++ digits_n 2 d) = digits_n 2 d.
Proof. rewrite <- (app_nil_r (digits_n 2 d)) at 1. apply sl_6_8. Qed.
Lemma sl_10_12n y m d h mi :
  slice 10 12 (digits_n 4 y ++ digits_n 2 m ++ digits_n 2 d ++ digits_n 2 h ++ digits_n 2 mi) = digits_n 2 mi.
Proof. rewrite <- (app_nil_r (digits_n 2 mi)) at 1. apply sl_10_12. Qed.
Lemma sl_2_4n h mi : slice 2 4 (digits_n 2 h ++ digits_n 2 mi) = digits_n 2 mi.
Proof. rewrite <- (app_nil_r (digits_n 2 mi)) at 1. apply sl_2_4. Qed.

Ltac slrw :=
  rewrite ?sl_0_4, ?sl_4_6, ?sl_6_8, ?sl_6_8n, ?sl_8_10, ?sl_10_12, ?sl_10_12n, ?sk_12, ?sl_0_2, ?sk_2,
          ?sl_2_4, ?sl_2_4n, ?sk_4.

Ltac csym := repeat (progress (catrw; slrw; sym2)).

Definition T8 (d : dt7) : str := digits_n 4 (d_y d) ++ digits_n 2 (d_mo d) ++ digits_n 2 (d_d d).
Definition T12 (d : dt7) : str :=
  digits_n 4 (d_y d) ++ digits_n 2 (d_mo d) ++ digits_n 2 (d_d d) ++ digits_n 2 (d_h d) ++ digits_n 2 (d_mi d).
Definition T14 (d : dt7) : str :=
  digits_n 4 (d_y d) ++ digits_n 2 (d_mo d) ++ digits_n 2 (d_d d) ++ digits_n 2 (d_h d) ++ digits_n 2 (d_mi d)
  ++ digits_n 2 (d_s d).
Definition T4 (d : dt7) : str := digits_n 2 (d_h d) ++ digits_n 2 (d_mi d).
Definition T6 (d : dt7) : str := digits_n 2 (d_h d) ++ digits_n 2 (d_mi d) ++ digits_n 2 (d_s d).

Ltac zeq :=
  repeat match goal with
  | |- context [Z.eqb ?a ?b] =>
      first [ replace (Z.eqb a b) with true by lia | replace (Z.eqb a b) with false by lia ]
  end.

Definition coff_segs (f : oform) (o : offs) : list seg :=
  let sg := SSep (if of_pos o then 43 else 45) in
  match f with
  | OHH_MM => [sg; SDig (digits_n 2 (of_h o)); SSep 58; SDig (digits_n 2 (of_m o))]
  | OHH => [sg; SDig (digits_n 2 (of_h o))]
  | OHHMM => [sg; SDig (T4o (of_h o) (of_m o))]
  | _ => []
  end.

Definition coffs_segs (j : joiner) (tf : tform) (ofm : oform) (d : dt7) (o : offs) : list seg :=
  match tf with
  | TCompactHM => [SDig (T8 d)] ++ join_segs j ++ [SDig (T4 d)] ++ coff_segs ofm o
  | _ => [SDig (T8 d)] ++ join_segs j ++ [SDig (T6 d)] ++ coff_segs ofm o
  end.

Definition czone_tails : list (joiner * tform) :=
  [(JT, TCompactHM); (JT, TCompactHMS); (JSpace, TCompactHM); (JSpace, TCompactHMS)].

Lemma all_digit_app a b : all_digit a = true -> all_digit b = true -> all_digit (a ++ b) = true.
Proof. unfold all_digit. intros. rewrite forallb_app. rewrite H, H0. reflexivity. Qed.

(* YYYYMMDD{T, space}HHMM[SS] followed by a numeric offset: aware with exactly that offset (UTC when zero) *)
Theorem parse_render_compact_offset_lemma : forall jt ofm d o df cy loc n0 n1 yf ig,
  In jt czone_tails -> In ofm [OHH_MM] ->
  valid_dt d = true -> valid_dt df = true -> wf_off o = true -> smem utc_name loc = false ->
  parse (opts_df0 yf ig df cy loc n0 n1) (render (TDT DCompact (fst jt) (snd jt) ofm) d o)
  = OutOk (expected_dt (TDT DCompact (fst jt) (snd jt) ofm) d df) (if ig then ZNaive else
           match expected_off (TDT DCompact (fst jt) (snd jt) ofm) o with Some v => zone_of_off v | None => ZNaive end)
          0 false [].
Proof.
  intros jt ofm d o df cy loc n0 n1 yf ig Hjt Hofm Hd Hdf Ho Hloc.
  assert (Hoff : (0 <= of_h o < 10 ^ Z.of_nat 2) /\ (0 <= of_m o < 10 ^ Z.of_nat 2) /\ 0 <= of_h o <= 23 /\ 0 <= of_m o <= 59).
  { unfold wf_off in Ho. change (10 ^ Z.of_nat 2) with 100. lia. }
  destruct Hoff as (Roh & Rom & Hoh & Hom).
  destruct o as [pos oh om]. cbn [of_pos of_h of_m] in *.
  unfold smem, utc_name in Hloc.
  assert (E4o : T4o oh om = digits_n 4 (oh * 100 + om)) by (apply T4o_eq; lia).
  pose proof (cat_slen _ 3%nat _ E4o) as F4o.
  assert (W4o : wf_seg (SDig (T4o oh om)) = true) by (cbn [wf_seg]; rewrite E4o, nonempty_digits, digits_n_all_digit; reflexivity).
  assert (L4o : length (T4o oh om) = 4%nat) by (rewrite E4o; apply digits_n_length).
  clear E4o.
  destruct (valid_dt_ranges d Hd) as (Ry & Rmo & Rd & Rh & Rmi & Rs & Rus).
  assert (Hm12 : 1 <= d_mo d <= 12 /\ 1 <= d_d d <= 31).
  { unfold valid_dt, valid_ymd in Hd. pose proof (dim_pos (d_y d) (d_mo d)). lia. }
  destruct Hm12 as [Hm12 Hd31].
  pose proof Ry as Ry'; pose proof Rmo as Rmo'; pose proof Rd as Rd'; pose proof Rh as Rh'; pose proof Rmi as Rmi';
  pose proof Rs as Rs'. rewrite p4 in Ry'. rewrite p2 in Rmo', Rd', Rh', Rmi', Rs'.
  pose proof (cat422 (d_y d) (d_mo d) (d_d d) Rmo' Rd') as E8. fold (T8 d) in E8.
  pose proof (cat42222 (d_y d) (d_mo d) (d_d d) (d_h d) (d_mi d) Rmo' Rd' Rh' Rmi') as E12. fold (T12 d) in E12.
  pose proof (cat422222 (d_y d) (d_mo d) (d_d d) (d_h d) (d_mi d) (d_s d) Rmo' Rd' Rh' Rmi' Rs') as E14. fold (T14 d) in E14.
  pose proof (cat22 (d_h d) (d_mi d) Rmi') as E4. fold (T4 d) in E4.
  pose proof (cat222 (d_h d) (d_mi d) (d_s d) Rmi' Rs') as E6. fold (T6 d) in E6.
  assert (H8 : 0 <= (d_y d * 100 + d_mo d) * 100 + d_d d < 10 ^ Z.of_nat 8) by (change (10 ^ Z.of_nat 8) with 100000000; lia).
  assert (H12 : 0 <= (((d_y d * 100 + d_mo d) * 100 + d_d d) * 100 + d_h d) * 100 + d_mi d < 10 ^ Z.of_nat 12)
    by (change (10 ^ Z.of_nat 12) with 1000000000000; lia).
  assert (H14 : 0 <= ((((d_y d * 100 + d_mo d) * 100 + d_d d) * 100 + d_h d) * 100 + d_mi d) * 100 + d_s d < 10 ^ Z.of_nat 14)
    by (change (10 ^ Z.of_nat 14) with 100000000000000; lia).
  assert (H4 : 0 <= d_h d * 100 + d_mi d < 10 ^ Z.of_nat 4) by (rewrite p4; lia).
  assert (H6 : 0 <= (d_h d * 100 + d_mi d) * 100 + d_s d < 10 ^ Z.of_nat 6) by (change (10 ^ Z.of_nat 6) with 1000000; lia).
  cat_facts E8 7%nat H8. cat_facts E12 11%nat H12. cat_facts E14 13%nat H14. cat_facts E4 3%nat H4. cat_facts E6 5%nat H6.
  assert (W8 : wf_seg (SDig (T8 d)) = true) by (cbn [wf_seg]; rewrite E8, nonempty_digits, digits_n_all_digit; reflexivity).
  assert (W12 : wf_seg (SDig (T12 d)) = true) by (cbn [wf_seg]; rewrite E12, nonempty_digits, digits_n_all_digit; reflexivity).
  assert (W14 : wf_seg (SDig (T14 d)) = true) by (cbn [wf_seg]; rewrite E14, nonempty_digits, digits_n_all_digit; reflexivity).
  assert (W4 : wf_seg (SDig (T4 d)) = true) by (cbn [wf_seg]; rewrite E4, nonempty_digits, digits_n_all_digit; reflexivity).
  assert (W6 : wf_seg (SDig (T6 d)) = true) by (cbn [wf_seg]; rewrite E6, nonempty_digits, digits_n_all_digit; reflexivity).
  assert (L8 : length (T8 d) = 8%nat) by (rewrite E8; apply digits_n_length).
  assert (L4 : length (T4 d) = 4%nat) by (rewrite E4; apply digits_n_length).
  assert (L6 : length (T6 d) = 6%nat) by (rewrite E6; apply digits_n_length).
  clear E8 E12 E14 E4 E6.
  unfold czone_tails in Hjt. cbn [In] in Hjt, Hofm.
  repeat (destruct Hjt as [<- | Hjt]); try (destruct Hjt); repeat (destruct Hofm as [<- | Hofm]); try (destruct Hofm); cbn [fst snd];
  destruct pos;
  match goal with |- parse _ (render (TDT DCompact ?j ?tf ?ofm) d ?o) = _ =>
    assert (Hrender : render (TDT DCompact j tf ofm) d o = concat (map seg_str (coffs_segs j tf ofm d o)))
      by (unfold render, render_date, render_time, render_off, join_txt, coffs_segs, coff_segs, join_segs, time_segs, T8, T12, T14, T4, T6, T4o;
          cbn [map concat seg_str app of_pos of_h of_m]; repeat (progress (rewrite <- ?app_assoc, ?app_nil_r; cbn [app])); reflexivity);
    assert (Hwf : wf_segs (coffs_segs j tf ofm d o) = true)
      by (unfold coffs_segs, coff_segs, join_segs, time_segs; cbn [of_pos of_h of_m]; cbv [app]; cbn [wf_segs hd_error ok_next];
          rewrite ?W8, ?W12, ?W14, ?W4, ?W6, ?W4o, ?L8, ?L4, ?L6, ?L4o; cbn [wf_seg];
          rewrite ?digits_n_all_digit, ?digits_n_length, ?nonempty_digits; vm_compute; reflexivity)
  end;
  unfold parse, opts_df0;
  cbn [o_fuzzy o_fwt o_yearfirst o_info_yearfirst o_dayfirst o_info_dayfirst o_cur_year oflag o_default
       o_ignoretz o_tzinfos o_local o_nm0 o_nm1];
  unfold parse_res; rewrite Hrender, timelex_segments by exact Hwf; clear Hrender Hwf;
  unfold coffs_segs, coff_segs, join_segs, time_segs, expected_off, off_secs, zone_of_off; cbn [of_pos of_h of_m map seg_tok]; cbv [app]; cbn [map seg_tok];
  unfold T8, T12, T14, T4, T6 in *;
  cbn [length];
  lrun ltac:(catrw; slrw; rewrite ?firstn_digits_all; rewrite ?F4o; unfold T4o; rewrite ?sl_0_2, ?sk_2; fold (T4o oh om));
  try (match goal with |- context [match ?x with Z0 => _ | Zpos _ => _ | Zneg _ => _ end] => destruct x eqn:Esecs end);
  try (exfalso; clear - Esecs Hoh Hom; lia);
  repeat (progress (csym; rewrite ?Hloc; rewrite ?tzoffset_ok_small by (clear - Esecs Hoh Hom; lia)));
  try match goal with |- (if ?b then _ else _) = _ => destruct b end;
  zeq; first [reflexivity | (repeat f_equal; clear - Esecs Hoh Hom; lia)].
Qed.
