(* C02: parse_render theorems for the RFC 2822 form  Www, DD Mon YYYY HH:MM:SS GMT|UTC. *)
From Coq Require Import ZArith List Bool Lia ZifyBool.
From V Require Import base.Cal gen.ParseTables parse.Lex parse.Prim parse.Ymd parse.Parse parse.Build
                      parse.ParseSpec parse.LexSeg parse.TokFacts parse.YearThm parse.RenderTac parse.RenderTac3 parse.RenderIso parse.WordFacts parse.LexSeg2 parse.RenderCommaDefs parse.RenderTac4.
Import ListNotations.
Open Scope Z_scope.
Ltac Zify.zify_post_hook ::= Z.to_euclidean_division_equations.

Local Arguments digits_n : simpl never.
Local Arguments is_float : simpl never.
Local Arguments to_decimal : simpl never.
Local Arguments py_int : simpl never.
Local Arguments py_isdigit : simpl never.
Local Arguments slen : simpl never.
Local Arguments has_dot : simpl never.
Local Arguments find_dot : simpl never.
Local Arguments info_jump : simpl never.
Local Arguments info_weekday : simpl never.
Local Arguments info_month : simpl never.
Local Arguments info_hms : simpl never.
Local Arguments info_ampm : simpl never.
Local Arguments info_pertain : simpl never.
Local Arguments info_utczone : simpl never.
Local Arguments info_tzoffset : simpl never.
Local Arguments is1 : simpl never.
Local Arguments str_eqb : simpl never.
Local Arguments could_be_tzname : simpl never.
Local Arguments parsems : simpl never.
Local Arguments all_digit : simpl never.
Local Arguments convertyear : simpl never.
Local Arguments dt_replace : simpl never.
Local Arguments valid_dt : simpl never.
Local Arguments monthlen : simpl never.
Local Arguments Z.eqb !x !y.
Local Arguments Z.ltb !x !y.
Local Arguments Z.leb !x !y.
Local Arguments Z.add !x !y.
Local Arguments Z.mul !x !y.
Local Arguments Z.sub !m !n.
Local Arguments Z.opp !x.

Local Arguments mon3 : simpl never.
Local Arguments month_name : simpl never.
Local Arguments wd3 : simpl never.

Lemma day_nonzero v : 1 <= v -> match v with 0 => true | _ => false end = false.
Proof. destruct v; [lia | reflexivity | reflexivity]. Qed.

Ltac wdrw Hw :=
  rewrite ?(wd3_float _ Hw), ?(wd3_weekday _ Hw), ?(wd3_hms _ Hw), ?(wd3_ampm _ Hw), ?(wd3_jump _ Hw).

Definition rfc_segs (gmt : bool) (d : dt7) : list seg :=
  [SWord (wd3 (weekday (d_y d) (d_mo d) (d_d d))); SSep 44; SSep 32; SDig (digits_n 2 (d_d d)); SSep 32;
   SWord (mon3 (d_mo d)); SSep 32; SDig (digits_n 4 (d_y d)); SSep 32;
   SDig (digits_n 2 (d_h d)); SSep 58; SDig (digits_n 2 (d_mi d)); SSep 58; SDig (digits_n 2 (d_s d));
   SSep 32; SWord (if gmt then [71; 77; 84] else [85; 84; 67])].

(* RFC 2822 with a named UTC zone: "Thu, 25 Sep 2003 10:36:28 GMT" / "... UTC"; year >= 100;
   GMT / UTC not local zone names *)
Theorem parse_render_rfc_named_lemma : forall (gmt : bool) d o df cy loc n0 n1 yf ig,
  valid_dt d = true -> valid_dt df = true -> 100 <= d_y d ->
  smem [85; 84; 67] loc = false -> smem [71; 77; 84] loc = false ->
  parse (opts_df0 yf ig df cy loc n0 n1) (render (TRfc (if gmt then OGMT else OUTC)) d o)
  = OutOk (expected_dt (TRfc (if gmt then OGMT else OUTC)) d df) (if ig then ZNaive else ZUTC) 0 false [].
Proof.
  intros gmt d o df cy loc n0 n1 yf ig Hd Hdf Hy100 Hl1 Hl2.
  destruct (valid_dt_ranges d Hd) as (Ry & Rmo & Rd & Rh & Rmi & Rs & Rus).
  assert (Hm12 : 1 <= d_mo d <= 12 /\ 1 <= d_d d <= 31).
  { unfold valid_dt, valid_ymd in Hd. pose proof (dim_pos (d_y d) (d_mo d)). lia. }
  destruct Hm12 as [Hm12 Hd31].
  assert (Hw : 0 <= weekday (d_y d) (d_mo d) (d_d d) <= 6) by (unfold weekday; apply weekday_of_ord_range).
  assert (Hyc : d_y d = 100 \/ 100 < d_y d) by lia.
  unfold smem in Hl1, Hl2.
  assert (Hrender : render (TRfc (if gmt then OGMT else OUTC)) d o = concat (map seg_str (rfc_segs gmt d))).
  { unfold render, render_time, render_off, rfc_segs. destruct gmt; cbn [map concat seg_str app].
    all: repeat (progress (rewrite <- ?app_assoc, ?app_nil_r; cbn [app])). all: reflexivity. }
  assert (Hwf : wf_segs (rfc_segs gmt d) = true).
  { unfold rfc_segs. destruct gmt; cbn [app wf_segs hd_error ok_next];
    rewrite ?(mon3_wf _ Hm12), ?(wd3_wf _ Hw); cbn [wf_seg];
    rewrite ?digits_n_all_digit, ?digits_n_length, ?nonempty_digits; vm_compute; reflexivity. }
  unfold parse, opts_df0;
  cbn [o_fuzzy o_fwt o_yearfirst o_info_yearfirst o_dayfirst o_info_dayfirst o_cur_year oflag o_default
       o_ignoretz o_tzinfos o_local o_nm0 o_nm1].
  unfold parse_res. rewrite Hrender, timelex_segments by exact Hwf. clear Hrender Hwf.
  unfold rfc_segs. set (wdn := weekday (d_y d) (d_mo d) (d_d d)) in *.
  destruct gmt; cbn [app map seg_tok length];
  destruct Hyc as [Hyc | Hyc];
  lrun ltac:(unfold dec_gt, dec_ge, dec_lt, dec_le, frac_nonzero; cbn [fst snd existsb];
             wordrw Hm12; wdrw Hw; rewrite ?Hl1, ?Hl2; rewrite ?convertyear_ge100 by lia);
  try (match goal with |- context [if ?c then add_weekday _ _ else _] =>
         replace c with false by (clear - Hd31; destruct (d_d d); [exfalso; lia | reflexivity | reflexivity]) end);
  repeat (progress sym2);
  try match goal with |- (if ?b then _ else _) = _ => destruct b end;
  reflexivity.
Qed.
