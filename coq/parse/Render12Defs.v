(* C02: parse_render theorems for the 12-hour clock: YYYY-MM-DD hh:MM[:SS][ ]AM/PM. *)
From Coq Require Import ZArith List Bool Lia ZifyBool.
From V Require Import base.Cal gen.ParseTables parse.Lex parse.Prim parse.Ymd parse.Parse parse.Build
                      parse.ParseSpec parse.LexSeg parse.TokFacts parse.YearThm parse.RenderTac parse.RenderTac3 parse.RenderIso.
Import ListNotations.
Open Scope Z_scope.
Ltac Zify.zify_post_hook ::= Z.to_euclidean_division_equations.

Local Arguments digits_n : simpl never.
Local Arguments is_float : simpl never.
Local Arguments to_decimal : simpl never.
Local Arguments py_int : simpl never.
Local Arguments py_isdigit : simpl never.
Local Arguments slen : simpl never.
Local Arguments has_dot : simpl never.
Local Arguments find_dot : simpl never.
Local Arguments info_jump : simpl never.
Local Arguments info_weekday : simpl never.
Local Arguments info_month : simpl never.
Local Arguments info_hms : simpl never.
Local Arguments info_ampm : simpl never.
Local Arguments info_pertain : simpl never.
Local Arguments info_utczone : simpl never.
Local Arguments info_tzoffset : simpl never.
Local Arguments is1 : simpl never.
Local Arguments str_eqb : simpl never.
Local Arguments could_be_tzname : simpl never.
Local Arguments parsems : simpl never.
Local Arguments all_digit : simpl never.
Local Arguments convertyear : simpl never.
Local Arguments dt_replace : simpl never.
Local Arguments valid_dt : simpl never.
Local Arguments monthlen : simpl never.
Local Arguments Z.eqb !x !y.
Local Arguments Z.ltb !x !y.
Local Arguments Z.leb !x !y.
Local Arguments Z.add !x !y.
Local Arguments Z.mul !x !y.
Local Arguments Z.sub !m !n.
Local Arguments Z.opp !x.

Local Arguments h12 : simpl never.
Local Arguments ampm_txt : simpl never.

Definition t12_segs (withsec spaced : bool) (d : dt7) : list seg :=
  [SDig (digits_n 2 (h12 (d_h d))); SSep 58; SDig (digits_n 2 (d_mi d))]
  ++ (if withsec then [SSep 58; SDig (digits_n 2 (d_s d))] else [])
  ++ (if spaced then [SSep 32] else []) ++ [SWord (ampm_txt (d_h d))].

Definition segs12 (withsec spaced : bool) (d : dt7) : list seg :=
  date_segs DIso d ++ [SSep 32] ++ t12_segs withsec spaced d.

Ltac zeq :=
  repeat match goal with
  | |- context [Z.eqb ?a ?b] =>
      first [ replace (Z.eqb a b) with true by lia | replace (Z.eqb a b) with false by lia ]
  end.

Lemma hour_cases h : 0 <= h <= 23 -> h = 0 \/ 0 < h < 12 \/ h = 12 \/ 12 < h <= 23.
Proof. lia. Qed.
