(* C02 (helper rdalg): Month DD, YYYY followed by " HH:MM:SS{.,}f", f = 1..9 digits; year >= 100 (F-C02-padyear). *)
From Coq Require Import ZArith List Bool Lia ZifyBool.
From V Require Import base.Cal gen.ParseTables parse.Lex parse.Prim parse.Ymd parse.Parse parse.Build
                      parse.ParseSpec parse.LexSeg parse.TokFacts parse.YearThm parse.RenderTac parse.RenderTac3 parse.RenderIso parse.WordFacts parse.LexSeg2 parse.RenderCommaDefs parse.FracFacts parse.RenderFrac.
Import ListNotations.
Open Scope Z_scope.
Ltac Zify.zify_post_hook ::= Z.to_euclidean_division_equations.

Local Arguments digits_n : simpl never.
Local Arguments is_float : simpl never.
Local Arguments to_decimal : simpl never.
Local Arguments py_int : simpl never.
Local Arguments py_isdigit : simpl never.
Local Arguments slen : simpl never.
Local Arguments has_dot : simpl never.
Local Arguments find_dot : simpl never.
Local Arguments info_jump : simpl never.
Local Arguments info_weekday : simpl never.
Local Arguments info_month : simpl never.
Local Arguments info_hms : simpl never.
Local Arguments info_ampm : simpl never.
Local Arguments info_pertain : simpl never.
Local Arguments info_utczone : simpl never.
Local Arguments info_tzoffset : simpl never.
Local Arguments is1 : simpl never.
Local Arguments str_eqb : simpl never.
Local Arguments could_be_tzname : simpl never.
Local Arguments parsems : simpl never.
Local Arguments all_digit : simpl never.
Local Arguments convertyear : simpl never.
Local Arguments dt_replace : simpl never.
Local Arguments valid_dt : simpl never.
Local Arguments monthlen : simpl never.
Local Arguments Z.eqb !x !y.
Local Arguments Z.ltb !x !y.
Local Arguments Z.leb !x !y.
Local Arguments Z.add !x !y.
Local Arguments Z.mul !x !y.
Local Arguments Z.sub !m !n.
Local Arguments Z.opp !x.

Local Arguments mon3 : simpl never.
Local Arguments month_name : simpl never.

Local Arguments frac_digits : simpl never.
Local Arguments trunc_us : simpl never.

Definition fcsegs_DMonthDY (k : nat) (comma : bool) (d : dt7) : list seg2 :=
  cdate_segs true d ++ map S1 (join_segs JSpace ++ ftime_segs k comma d).

Lemma parse_render_frac_DMonthDY : forall k comma d o df cy loc n0 n1 yf ig,
  (1 <= k <= 9)%nat ->
  valid_dt d = true -> valid_dt df = true -> 100 <= d_y d ->
  parse (opts_df0 yf ig df cy loc n0 n1) (render (TDT DMonthDY JSpace (TFrac k comma) ONone) d o)
  = OutOk (expected_dt (TDT DMonthDY JSpace (TFrac k comma) ONone) d df) ZNaive 0 false [].
Proof.
  intros k comma d o df cy loc n0 n1 yf ig Hk Hd Hdf Hy100.
  destruct (valid_dt_ranges d Hd) as (Ry & Rmo & Rd & Rh & Rmi & Rs & Rus).
  assert (Hm12 : 1 <= d_mo d <= 12 /\ 1 <= d_d d <= 31).
  { unfold valid_dt, valid_ymd in Hd. pose proof (dim_pos (d_y d) (d_mo d)). lia. }
  destruct Hm12 as [Hm12 Hd31].
  assert (Hs100 : 0 <= d_s d < 100) by (change (10 ^ Z.of_nat 2) with 100 in Rs; exact Rs).
  assert (Hus : 0 <= d_us d < 1000000) by (change (10 ^ Z.of_nat 6) with 1000000 in Rus; exact Rus).
  assert (Hkne : nonempty (frac_digits k (d_us d)) = true).
  { destruct k as [|k']; [lia|]. apply frac_digits_nonempty. }
  pose proof (trunc_us_range k _ Hus) as Htr.
  assert (Hyc : d_y d = 100 \/ 100 < d_y d) by lia.
  destruct comma;
  match goal with |- parse _ (render (TDT _ JSpace (TFrac ?k ?c) ONone) d o) = _ =>
    assert (Hrender : render (TDT DMonthDY JSpace (TFrac k c) ONone) d o = concat (map seg2_str (fcsegs_DMonthDY k c d)))
      by (unfold render, render_date, render_time, render_off, join_txt, fcsegs_DMonthDY, cdate_segs, join_segs, ftime_segs;
          cbn [map concat seg2_str seg_str app]; repeat (progress (repeat rewrite <- app_assoc; cbn [app]));
          rewrite ?app_nil_r; reflexivity);
    assert (Hwf : wf_segs2 (fcsegs_DMonthDY k c d) = true)
      by (unfold fcsegs_DMonthDY, cdate_segs, join_segs, ftime_segs; cbn [app map wf_segs2 hd_error ok_next2 ok_next wf_seg2];
          rewrite ?(mon3_wf _ Hm12), ?(month_wf _ Hm12); cbn [wf_seg];
          rewrite ?digits_n_all_digit, ?digits_n_length, ?nonempty_digits, ?frac_digits_all_digit, ?Hkne; vm_compute; reflexivity)
  end;
  unfold parse, opts_df0;
  cbn [o_fuzzy o_fwt o_yearfirst o_info_yearfirst o_dayfirst o_info_dayfirst o_cur_year oflag o_default
       o_ignoretz o_tzinfos o_local o_nm0 o_nm1];
  unfold parse_res; rewrite Hrender, timelex_segments2 by exact Hwf; clear Hrender Hwf;
  unfold fcsegs_DMonthDY, cdate_segs, join_segs, ftime_segs; cbn [app map flat_map seg2_toks seg_tok];
  destruct Hyc as [Hyc | Hyc];
  repeat (progress (msym2 Hm12; rewrite ?tok_parsems_frac by (first [assumption | lia])));
  try match goal with |- (if ?b then _ else _) = _ => destruct b end;
  reflexivity.
Qed.
