(* Facts about fixed-width digit fields as tokens (for the C02 template proofs). *)
From Coq Require Import ZArith List Bool Lia ZifyBool.
From V Require Import base.Cal gen.ParseTables parse.Lex parse.Prim parse.Ymd parse.Parse parse.Build
                      parse.ParseSpec parse.LexSeg.
Import ListNotations.
Open Scope Z_scope.
Ltac Zify.zify_post_hook ::= Z.to_euclidean_division_equations.

Lemma digits_n_length k : forall n, length (digits_n k n) = k.
Proof. induction k as [|k IH]; intros n; cbn [digits_n]; [reflexivity|]. rewrite app_length, IH. cbn. lia. Qed.

Definition dch (e : Z) : Z := 48 + e.

Lemma dch_digit e : 0 <= e <= 9 -> is_digit (48 + e) = true.
Proof. intros H. unfold is_digit. replace (48 + e <? 128) with true by lia. lia. Qed.
Lemma dch_val e : 0 <= e <= 9 -> dec_val (48 + e) = e.
Proof.
  intros H. unfold dec_val. replace (48 + e <? 128) with true by lia.
  replace ((48 <=? 48 + e) && (48 + e <=? 57)) with true by lia. lia.
Qed.
Lemma dch_lower e : 0 <= e <= 9 -> lower_c (48 + e) = [48 + e].
Proof.
  intros H. unfold lower_c. replace (48 + e <? 128) with true by lia.
  replace ((65 <=? 48 + e) && (48 + e <=? 90)) with false by lia. reflexivity.
Qed.

Lemma digits_n_all_digit k : forall n, all_digit (digits_n k n) = true.
Proof.
  induction k as [|k IH]; intros n; cbn [digits_n]; [reflexivity|].
  unfold all_digit in *. rewrite forallb_app, IH. cbn [forallb]. rewrite dch_digit by lia. reflexivity.
Qed.

Lemma digits_n_all_decimal k : forall n, all_decimal (digits_n k n) = true.
Proof.
  induction k as [|k IH]; intros n; cbn [digits_n]; [reflexivity|].
  unfold all_decimal in *. rewrite forallb_app, IH. cbn [forallb]. rewrite dch_val by lia.
  replace (0 <=? n mod 10) with true by lia. reflexivity.
Qed.

Lemma int_acc_app a t1 t2 : int_acc a (t1 ++ t2) = int_acc (int_acc a t1) t2.
Proof. revert a. induction t1 as [|c t1 IH]; intros a; cbn [app int_acc]; [reflexivity|apply IH]. Qed.

Lemma int_acc_digits k : forall a n, 0 <= n < 10 ^ Z.of_nat k ->
  int_acc a (digits_n k n) = a * 10 ^ Z.of_nat k + n.
Proof.
  induction k as [|k IH]; intros a n Hn.
  - cbn [digits_n int_acc]. change (10 ^ Z.of_nat 0) with 1 in *. lia.
  - cbn [digits_n]. rewrite int_acc_app. cbn [int_acc].
    rewrite Nat2Z.inj_succ, Z.pow_succ_r in * by lia.
    rewrite IH by (split; [apply Z.div_pos; lia | apply Z.div_lt_upper_bound; lia]).
    rewrite dch_val by lia. pose proof (Z.div_mod n 10). nia.
Qed.

Lemma digits_n_nonempty k n : digits_n (S k) n <> [].
Proof. cbn [digits_n]. destruct (digits_n k (n / 10)); discriminate. Qed.

Lemma split_dot_digits t : forall cur, all_digit t = true -> split_dot cur t = (rev cur ++ t, None).
Proof.
  induction t as [|c t IH]; intros cur H; cbn [split_dot].
  - rewrite app_nil_r. reflexivity.
  - unfold all_digit in H. cbn [forallb] in H. apply andb_prop in H. destruct H as [Hc H].
    rewrite (digit_not46 c Hc). rewrite IH by exact H. cbn [rev]. rewrite <- app_assoc. reflexivity.
Qed.

Section Field.
  Variables (k : nat) (n : Z).
  Hypothesis Hn : 0 <= n < 10 ^ Z.of_nat (S k).

  Lemma tok_decnum : decnum (digits_n (S k) n) = Some (n, []).
  Proof.
    unfold decnum. rewrite split_dot_digits by apply digits_n_all_digit. cbn [rev app].
    destruct (digits_n (S k) n) eqn:E; [exfalso; eapply digits_n_nonempty; eauto|]. rewrite <- E.
    rewrite digits_n_all_decimal. rewrite int_acc_digits by exact Hn. repeat f_equal; try lia.
  Qed.

  Lemma tok_to_decimal : to_decimal (digits_n (S k) n) = Ok (n, []).
  Proof. unfold to_decimal. rewrite tok_decnum. reflexivity. Qed.

  Lemma tok_is_float : is_float (digits_n (S k) n) = true.
  Proof. unfold is_float. rewrite tok_decnum. reflexivity. Qed.

  Lemma tok_py_int : (Z.of_nat (S k) <= 4300) -> py_int (digits_n (S k) n) = Ok n.
  Proof.
    intros Hk. unfold py_int.
    destruct (digits_n (S k) n) eqn:E; [exfalso; eapply digits_n_nonempty; eauto|]. rewrite <- E.
    rewrite digits_n_all_decimal. unfold slen. rewrite digits_n_length.
    change int_max_str_digits with 4300.
    replace ((4300 =? 0) || (Z.of_nat (S k) <=? 4300)) with true by lia.
    cbn [andb]. rewrite int_acc_digits by exact Hn. repeat f_equal; try lia.
  Qed.

  Lemma tok_py_isdigit : py_isdigit (digits_n (S k) n) = true.
  Proof.
    unfold py_isdigit. destruct (digits_n (S k) n) eqn:E; [exfalso; eapply digits_n_nonempty; eauto|].
    rewrite <- E. apply digits_n_all_digit.
  Qed.
End Field.

Lemma tok_slen k n : slen (digits_n k n) = Z.of_nat k.
Proof. unfold slen. rewrite digits_n_length. reflexivity. Qed.

Lemma digits_no_dot t : all_digit t = true -> has_dot t = false.
Proof.
  unfold has_dot, all_digit. induction t as [|c t IH]; cbn [existsb forallb]; [reflexivity|].
  intros H. apply andb_prop in H. destruct H as [Hc H]. rewrite (digit_not46 c Hc), IH by exact H. reflexivity.
Qed.
Lemma tok_has_dot k n : has_dot (digits_n k n) = false.
Proof. apply digits_no_dot, digits_n_all_digit. Qed.

Lemma find_dot_digits t : forall j, all_digit t = true -> find_dot t j = -1.
Proof.
  unfold all_digit. induction t as [|c t IH]; intros j; cbn [find_dot forallb]; [reflexivity|].
  intros H. apply andb_prop in H. destruct H as [Hc H]. rewrite (digit_not46 c Hc). apply IH. exact H.
Qed.
Lemma tok_find_dot k n : find_dot (digits_n k n) 0 = -1.
Proof. apply find_dot_digits, digits_n_all_digit. Qed.

(* tokens of two or more characters are not single-character tokens *)
Lemma tok_is1 k n c : is1 (digits_n (S (S k)) n) c = false.
Proof.
  unfold is1. pose proof (digits_n_length (S (S k)) n) as H.
  destruct (digits_n (S (S k)) n) as [|a [|b t]]; cbn [length] in H; try lia; reflexivity.
Qed.

(* word tables have no key that starts with a digit *)
Definition head_not_digit (tbl : list (str * Z)) : bool :=
  forallb (fun p : str * Z => match fst p with [] => true | c :: _ => (c <? 48) || (57 <? c) end) tbl.

Lemma sassoc_digit_head tbl d t : head_not_digit tbl = true -> 48 <= d <= 57 -> sassoc (d :: t) tbl = None.
Proof.
  unfold head_not_digit. induction tbl as [|[k v] tbl IH]; cbn [sassoc forallb fst]; [reflexivity|].
  intros H Hd. apply andb_prop in H. destruct H as [H1 H2].
  destruct k as [|c k]; cbn [str_eqb]; [apply IH; assumption|].
  replace (c =? d) with false by lia. cbn [andb]. apply IH; assumption.
Qed.

Lemma lower_digits k : forall n, lower (digits_n k n) = digits_n k n.
Proof.
  unfold lower. induction k as [|k IH]; intros n; cbn [digits_n flat_map]; [reflexivity|].
  rewrite flat_map_app, IH. cbn [flat_map]. rewrite dch_lower by lia. reflexivity.
Qed.

Lemma digits_head k n : exists d t, digits_n (S k) n = d :: t /\ 48 <= d <= 57.
Proof.
  revert n. induction k as [|k IH]; intros n.
  - cbn [digits_n app]. exists (48 + n mod 10), []. split; [reflexivity|lia].
  - destruct (IH (n / 10)) as (d & t & E & Hd). cbn [digits_n] in *. rewrite E. cbn [app].
    exists d, (t ++ [48 + n mod 10]). split; [reflexivity|exact Hd].
Qed.

Lemma tok_lookup tbl k n : head_not_digit tbl = true -> sassoc (lower (digits_n (S k) n)) tbl = None.
Proof.
  intros H. rewrite lower_digits. destruct (digits_head k n) as (d & t & -> & Hd).
  apply sassoc_digit_head; assumption.
Qed.

Lemma tok_info_jump k n : info_jump (digits_n (S k) n) = false.
Proof. unfold info_jump. rewrite tok_lookup by (vm_compute; reflexivity). reflexivity. Qed.
Lemma tok_info_hms k n : info_hms (digits_n (S k) n) = None.
Proof. unfold info_hms. apply tok_lookup. vm_compute; reflexivity. Qed.
Lemma tok_info_ampm k n : info_ampm (digits_n (S k) n) = None.
Proof. unfold info_ampm. apply tok_lookup. vm_compute; reflexivity. Qed.
Lemma tok_info_month k n : info_month (digits_n (S k) n) = None.
Proof. unfold info_month. rewrite tok_lookup by (vm_compute; reflexivity). reflexivity. Qed.
Lemma tok_info_weekday k n : info_weekday (digits_n (S k) n) = None.
Proof. unfold info_weekday. apply tok_lookup. vm_compute; reflexivity. Qed.

Lemma tok_str_eqb_1 k n c : str_eqb (digits_n (S (S k)) n) [c] = false.
Proof.
  pose proof (digits_n_length (S (S k)) n) as H.
  destruct (digits_n (S (S k)) n) as [|a [|b t]]; cbn [length] in H; try lia.
  cbn [str_eqb]. destruct (a =? c); reflexivity.
Qed.

Lemma tok_parsems k n : 0 <= n < 10 ^ Z.of_nat (S k) -> Z.of_nat (S k) <= 4300 ->
  parsems (digits_n (S k) n) = Ok (n, 0).
Proof. intros H1 H2. unfold parsems. rewrite tok_has_dot, tok_py_int by assumption. reflexivity. Qed.

(* datetime.replace succeeds when the combined fields form a valid datetime *)
Lemma dt_replace_ok d y mo dd h mi s us :
  let n := mkDt (dflt y (d_y d)) (dflt mo (d_mo d)) (dflt dd (d_d d)) (dflt h (d_h d))
                (dflt mi (d_mi d)) (dflt s (d_s d)) (dflt us (d_us d)) in
  valid_dt n = true -> dt_replace d y mo dd h mi s us = Ok n.
Proof.
  intros n Hv. unfold dt_replace. fold n. rewrite Hv.
  assert (Hok : opt_ok y && opt_ok mo && opt_ok dd && opt_ok h && opt_ok mi && opt_ok s && opt_ok us = true).
  { unfold valid_dt, valid_ymd in Hv. subst n. cbn [d_y d_mo d_d d_h d_mi d_s d_us] in Hv.
    pose proof (dim_pos (dflt y (d_y d)) (dflt mo (d_mo d))).
    unfold opt_ok, c_int_ok. destruct y, mo, dd, h, mi, s, us; cbn [dflt] in *; lia. }
  rewrite Hok. reflexivity.
Qed.

Lemma valid_dt_ranges d : valid_dt d = true ->
  (0 <= d_y d < 10 ^ Z.of_nat 4) /\ (0 <= d_mo d < 10 ^ Z.of_nat 2) /\ (0 <= d_d d < 10 ^ Z.of_nat 2)
  /\ (0 <= d_h d < 10 ^ Z.of_nat 2) /\ (0 <= d_mi d < 10 ^ Z.of_nat 2) /\ (0 <= d_s d < 10 ^ Z.of_nat 2)
  /\ (0 <= d_us d < 10 ^ Z.of_nat 6).
Proof.
  intros Hd. unfold valid_dt, valid_ymd in Hd. pose proof (dim_pos (d_y d) (d_mo d)).
  change (10 ^ Z.of_nat 4) with 10000. change (10 ^ Z.of_nat 2) with 100. change (10 ^ Z.of_nat 6) with 1000000. lia.
Qed.
