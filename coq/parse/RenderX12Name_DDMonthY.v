(* C02 (helper rdalg): DDMonthY followed by hh:MM AM/PM, spaced or not (from the _am/_pm halves). *)
From Coq Require Import ZArith List Bool Lia ZifyBool.
From V Require Import base.Cal gen.ParseTables parse.Lex parse.Prim parse.Ymd parse.Parse parse.Build
                      parse.ParseSpec parse.LexSeg parse.TokFacts parse.YearThm parse.RenderTac parse.RenderTac3 parse.RenderIso parse.WordFacts parse.LexSeg2 parse.RenderCommaDefs parse.RenderTac4 parse.Render12Defs parse.RenderName parse.RenderX12Name_DDMonthY_am parse.RenderX12Name_DDMonthY_pm.
Import ListNotations.
Open Scope Z_scope.
Ltac Zify.zify_post_hook ::= Z.to_euclidean_division_equations.

Local Arguments digits_n : simpl never.
Local Arguments is_float : simpl never.
Local Arguments to_decimal : simpl never.
Local Arguments py_int : simpl never.
Local Arguments py_isdigit : simpl never.
Local Arguments slen : simpl never.
Local Arguments has_dot : simpl never.
Local Arguments find_dot : simpl never.
Local Arguments info_jump : simpl never.
Local Arguments info_weekday : simpl never.
Local Arguments info_month : simpl never.
Local Arguments info_hms : simpl never.
Local Arguments info_ampm : simpl never.
Local Arguments info_pertain : simpl never.
Local Arguments info_utczone : simpl never.
Local Arguments info_tzoffset : simpl never.
Local Arguments is1 : simpl never.
Local Arguments str_eqb : simpl never.
Local Arguments could_be_tzname : simpl never.
Local Arguments parsems : simpl never.
Local Arguments all_digit : simpl never.
Local Arguments convertyear : simpl never.
Local Arguments dt_replace : simpl never.
Local Arguments valid_dt : simpl never.
Local Arguments monthlen : simpl never.
Local Arguments Z.eqb !x !y.
Local Arguments Z.ltb !x !y.
Local Arguments Z.leb !x !y.
Local Arguments Z.add !x !y.
Local Arguments Z.mul !x !y.
Local Arguments Z.sub !m !n.
Local Arguments Z.opp !x.

Local Arguments mon3 : simpl never.
Local Arguments month_name : simpl never.


Theorem parse_render_12h_DDMonthY_T12HM : forall spaced d o df cy loc n0 n1 yf ig,
  valid_dt d = true -> valid_dt df = true -> 100 <= d_y d ->
  parse (opts_df0 yf ig df cy loc n0 n1) (render (TDT DDMonthY JSpace (T12HM spaced) ONone) d o)
  = OutOk (expected_dt (TDT DDMonthY JSpace (T12HM spaced) ONone) d df) ZNaive 0 false [].
Proof.
  intros spaced d o df cy loc n0 n1 yf ig Hd Hdf Hy100.
  destruct (Z.lt_ge_cases (d_h d) 12) as [H | H].
  - apply parse_render_12h_DDMonthY_T12HM_am; assumption.
  - apply parse_render_12h_DDMonthY_T12HM_pm; assumption.
Qed.
