(* Symbolic execution, second version: closed look-ups are evaluated by vm_compute ONLY when the
   token argument is a literal list (vm_compute on a token that still contains a symbolic digit
   field produces an exponentially large stuck normal form: that was the 20+ GB blow-up of the
   first fraction / ctime attempts). *)
From Coq Require Import ZArith List Bool Lia ZifyBool.
From V Require Import base.Cal gen.ParseTables parse.Lex parse.Prim parse.Ymd parse.Parse parse.Build
                      parse.ParseSpec parse.LexSeg parse.TokFacts parse.YearThm parse.RenderTac.
Import ListNotations.
Open Scope Z_scope.

Ltac is_plit p := lazymatch p with xH => idtac | xO ?q => is_plit q | xI ?q => is_plit q end.
Ltac is_zlit z := lazymatch z with Z0 => idtac | Zpos ?p => is_plit p | Zneg ?p => is_plit p end.
Ltac is_lit_list t := lazymatch t with nil => idtac | cons ?c ?r => is_zlit c; is_lit_list r end.

Ltac lev1 f :=
  match goal with |- context [f ?t] =>
    is_lit_list t;
    let v := eval vm_compute in (f t) in change (f t) with v end.
Ltac lev2 f :=
  match goal with |- context [f ?t ?c] =>
    is_lit_list t; first [is_zlit c | is_lit_list c];
    let v := eval vm_compute in (f t c) in change (f t c) with v end.
Ltac lev4 f :=
  match goal with |- context [f ?a ?b ?c ?t] =>
    is_lit_list t;
    let v := eval vm_compute in (f a b c t) in
    lazymatch v with true => idtac | false => idtac end;
    change (f a b c t) with v end.
Ltac leval :=
  repeat first [ lev1 is_float | lev1 info_jump | lev1 info_weekday | lev1 info_month | lev1 info_hms
               | lev1 info_ampm | lev1 info_pertain | lev1 info_utczone | lev1 info_tzoffset
               | lev2 is1 | lev2 str_eqb | lev4 could_be_tzname
               | match goal with |- context [Pos.to_nat ?p] =>
                   is_plit p; let v := eval vm_compute in (Pos.to_nat p) in change (Pos.to_nat p) with v end ].

(* one round *)
Ltac sym2 :=
  unfold find_hms_idx, hms_at, is_sign, tok_is, jump_at, validate, build_naive; cbn; tokrw side; leval;
  zdecide;
  rewrite ?convertyear_century by lia;
  rewrite ?dt_replace_ok by valid_side.
