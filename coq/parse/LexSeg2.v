(* Lexer lemma, second part: a digit run of two or more digits directly followed by a comma
   ("25, 2003") goes through the '0.' state and is split afterwards into the number and ",".
   seg2 adds that shape to the segments of LexSeg.v; one segment may now yield two tokens. *)
From Coq Require Import ZArith List Bool Lia.
From V Require Import gen.ParseTables parse.Lex parse.LexSeg.
Import ListNotations.
Open Scope Z_scope.

Lemma split_first_digits a : forall cur t, all_digit a = true ->
  split_first cur (a ++ 44 :: t) = (rev cur ++ a, [44] :: split_rest [] t).
Proof.
  induction a as [|c a IH]; intros cur t H; cbn [app split_first].
  - change (is_sep 44) with true. cbv iota. rewrite app_nil_r. reflexivity.
  - unfold all_digit in H. cbn [forallb] in H. apply andb_prop in H. destruct H as [Hc H].
    rewrite (digit_not_sep' c Hc). rewrite IH by exact H. cbn [rev]. rewrite <- app_assoc. reflexivity.
Qed.

Lemma last_is_sep_comma a : last_is_sep (a ++ [44]) = true.
Proof. unfold last_is_sep. rewrite rev_app_distr. reflexivity. Qed.

Lemma lex_dig_comma d ds rest :
  is_digit d = true -> all_digit ds = true -> 2 <= Z.of_nat (length (d :: ds)) ->
  follows (fun c => negb (is_digit c) && negb (c =? 46)) rest ->
  lex_go None false [] ((d :: ds) ++ 44 :: rest) = (d :: ds) :: [44] :: lex_go None false [] rest.
Proof.
  intros Hd Hds Hlen Hf. cbn [app]. rewrite lex_start by (apply digit_nz; exact Hd).
  rewrite (digit_not_alpha d Hd), Hd. rewrite run_digits by exact Hds.
  assert (Hgo : ((44 =? 46) || ((44 =? 44) && (2 <=? Z.of_nat (length (rev ds ++ [d]))))) = true).
  { cbn [Z.eqb orb andb]. change (44 =? 46) with false. change (44 =? 44) with true. cbn [orb andb].
    rewrite app_length, rev_length. cbn [length] in *. apply Z.leb_le. lia. }
  cbn [lex_go]. change (44 =? 0) with false. change (is_digit 44) with false. cbv iota. rewrite Hgo.
  set (rtok := 44 :: rev ds ++ [d]).
  assert (Hrev : rev rtok = (d :: ds) ++ [44]).
  { subst rtok. cbn [rev]. rewrite rev_app_distr, rev_involutive. reflexivity. }
  assert (Hfin : finish S0d false (rev rtok) = [d :: ds; [44]]).
  { rewrite Hrev. unfold finish. rewrite last_is_sep_comma, orb_true_r. cbn [andb].
    rewrite (split_first_digits (d :: ds) [] []) by (apply all_digit_cons; assumption).
    cbn [rev app split_rest].
    rewrite (count_dot_digits (d :: ds)) by (apply all_digit_cons; assumption). cbn [Nat.eqb].
    rewrite (comma_to_dot_digits (d :: ds)) by (apply all_digit_cons; assumption). reflexivity. }
  destruct Hf as [-> | (c & r & -> & Hc0 & Hc)].
  - cbn [lex_go]. rewrite Hfin. reflexivity.
  - apply andb_prop in Hc. destruct Hc as [H1 H2]. apply negb_true_iff in H1, H2.
    cbn [lex_go]. rewrite Hc0, H1, H2. cbn [orb].
    assert (Hl : last_is_dot rtok = false) by reflexivity.
    rewrite Hl, andb_false_r. rewrite Hfin. cbn [app].
    f_equal; f_equal; try (symmetry; apply lex_start; exact Hc0).
Qed.

Inductive seg2 := S1 (s : seg) | SDigComma (ds : str).

Definition seg2_str (s : seg2) : str :=
  match s with S1 a => seg_str a | SDigComma ds => ds ++ [44] end.
Definition seg2_toks (s : seg2) : list str :=
  match s with S1 a => [seg_tok a] | SDigComma ds => [ds; [44]] end.

Definition wf_seg2 (s : seg2) : bool :=
  match s with
  | S1 a => wf_seg a
  | SDigComma ds => nonempty ds && all_digit ds && (2 <=? Z.of_nat (length ds))
  end.

Definition ok_next2 (s : seg2) (next : option seg2) : bool :=
  match s, next with
  | _, None => true
  | S1 a, Some (S1 b) => ok_next a (Some b)
  | S1 a, Some (SDigComma ds) => ok_next a (Some (SDig ds))
  | SDigComma _, Some (S1 (SSep c)) => negb (c =? 46)
  | SDigComma _, Some (S1 (SWord _)) => true
  | SDigComma _, Some _ => false
  end.

Fixpoint wf_segs2 (l : list seg2) : bool :=
  match l with
  | [] => true
  | s :: l' => wf_seg2 s && ok_next2 s (hd_error l') && wf_segs2 l'
  end.

(* first character of a well-formed seg2 *)
Lemma seg2_first s : wf_seg2 s = true ->
  exists c r, seg2_str s = c :: r /\ (c =? 0) = false /\
    match s with
    | S1 (SDig _) | S1 (SFrac _ _ _) | SDigComma _ => is_digit c = true
    | S1 (SWord _) => is_alpha c = true
    | S1 (SSep c') => c = c' /\ is_alpha c = false /\ is_digit c = false
    end.
Proof.
  destruct s as [a|ds]; cbn [wf_seg2 seg2_str].
  - intros H. destruct (seg_first a H) as (c & r & E & H0 & Hc). exists c, r. destruct a; auto.
  - destruct ds as [|d ds]; [discriminate|]. cbn [nonempty andb].
    intros H. apply andb_prop in H. destruct H as [H _].
    unfold all_digit in H. cbn [forallb] in H. apply andb_prop in H. destruct H as [Hd _].
    exists d, (ds ++ [44]). auto using digit_nz.
Qed.

Theorem lex_segments2 l : wf_segs2 l = true ->
  lex_go None false [] (concat (map seg2_str l)) = flat_map seg2_toks l.
Proof.
  induction l as [|s l IH]; [reflexivity|].
  cbn [wf_segs2 map concat flat_map]. intros H.
  apply andb_prop in H. destruct H as [H Hl]. apply andb_prop in H. destruct H as [Hs Hn].
  specialize (IH Hl). set (rest := concat (map seg2_str l)) in *.
  assert (Hnext : l = [] /\ rest = [] \/
            exists s2 l2 c r, l = s2 :: l2 /\ wf_seg2 s2 = true /\ rest = c :: r /\ (c =? 0) = false /\
              match s2 with
              | S1 (SDig _) | S1 (SFrac _ _ _) | SDigComma _ => is_digit c = true
              | S1 (SWord _) => is_alpha c = true
              | S1 (SSep c') => c = c' /\ is_alpha c = false /\ is_digit c = false
              end).
  { destruct l as [|s2 l2]; [left; auto|]. right.
    cbn [wf_segs2] in Hl. apply andb_prop in Hl. destruct Hl as [Hl _]. apply andb_prop in Hl. destruct Hl as [Hs2 _].
    destruct (seg2_first s2 Hs2) as (c & r & E & Hc0 & Hc).
    exists s2, l2, c, (r ++ concat (map seg2_str l2)). subst rest. cbn [map concat]. rewrite E. cbn [app]. auto. }
  destruct s as [[ds|cs|c|a b comma]|ds]; cbn [seg2_str seg2_toks seg_str seg_tok wf_seg2 wf_seg app] in *.
  - (* digits *)
    destruct ds as [|d ds]; [discriminate|]. cbn [nonempty andb] in Hs.
    unfold all_digit in Hs. cbn [forallb] in Hs. apply andb_prop in Hs. destruct Hs as [Hd Hds].
    rewrite <- IH. apply lex_dig; [exact Hd | exact Hds |].
    destruct Hnext as [[-> ->] | (s2 & l2 & c & r & -> & Hs2 & -> & Hc0 & Hc)]; [left; reflexivity|right].
    exists c, r. split; [reflexivity|]. split; [exact Hc0|].
    cbn [hd_error ok_next2 ok_next] in Hn. destruct s2 as [[| | |]|]; try discriminate.
    + rewrite (alpha_not_digit c Hc), (alpha_not46 c Hc), (alpha_not44 c Hc). reflexivity.
    + destruct Hc as (-> & Ha & Hdg). rewrite Hdg. cbn [negb andb]. exact Hn.
  - (* word *)
    destruct cs as [|d cs]; [discriminate|]. cbn [nonempty andb] in Hs.
    unfold all_alpha in Hs. cbn [forallb] in Hs. apply andb_prop in Hs. destruct Hs as [Hd Hcs].
    rewrite <- IH. apply lex_word; [exact Hd | exact Hcs |].
    destruct Hnext as [[-> ->] | (s2 & l2 & c & r & -> & Hs2 & -> & Hc0 & Hc)]; [left; reflexivity|right].
    exists c, r. split; [reflexivity|]. split; [exact Hc0|].
    cbn [hd_error ok_next2 ok_next] in Hn. destruct s2 as [[| | |]|]; try discriminate.
    + rewrite (digit_not_alpha c Hc), (digit_not46 c Hc). reflexivity.
    + destruct Hc as (-> & Ha & Hdg). rewrite Ha. cbn [negb andb]. exact Hn.
    + rewrite (digit_not_alpha c Hc), (digit_not46 c Hc). reflexivity.
    + rewrite (digit_not_alpha c Hc), (digit_not46 c Hc). reflexivity.
  - (* separator *)
    apply andb_prop in Hs. destruct Hs as [Hs H0]. apply andb_prop in Hs. destruct Hs as [Ha Hd].
    apply negb_true_iff in Ha, Hd, H0.
    rewrite lex_sep by assumption. rewrite IH. reflexivity.
  - (* fraction *)
    apply andb_prop in Hs. destruct Hs as [Hs Hcomma]. apply andb_prop in Hs. destruct Hs as [Hs Hdb].
    apply andb_prop in Hs. destruct Hs as [Hs Hnb]. apply andb_prop in Hs. destruct Hs as [Hna Hda].
    destruct a as [|d ds]; [discriminate Hna|]. destruct b as [|e es]; [discriminate Hnb|].
    unfold all_digit in Hda, Hdb. cbn [forallb] in Hda, Hdb.
    apply andb_prop in Hda. destruct Hda as [Hd Hds]. apply andb_prop in Hdb. destruct Hdb as [He Hes].
    rewrite <- IH.
    apply (lex_frac d ds (if comma then 44 else 46) e es rest Hd Hds He Hes).
    + destruct comma; [right|left; reflexivity]. split; [reflexivity|].
      cbn [negb orb] in Hcomma. apply Z.leb_le in Hcomma. exact Hcomma.
    + destruct Hnext as [[-> ->] | (s2 & l2 & c & r & -> & Hs2 & -> & Hc0 & Hc)]; [left; reflexivity|right].
      exists c, r. split; [reflexivity|]. split; [exact Hc0|].
      cbn [hd_error ok_next2 ok_next] in Hn. destruct s2 as [[| | |]|]; try discriminate.
      * rewrite (alpha_not_digit c Hc), (alpha_not46 c Hc). reflexivity.
      * destruct Hc as (-> & Ha & Hdg). rewrite Hdg. cbn [negb andb]. exact Hn.
  - (* digits followed by a comma *)
    apply andb_prop in Hs. destruct Hs as [Hs Hlen]. apply andb_prop in Hs. destruct Hs as [Hne Hda].
    destruct ds as [|d ds]; [discriminate Hne|].
    unfold all_digit in Hda. cbn [forallb] in Hda. apply andb_prop in Hda. destruct Hda as [Hd Hds].
    rewrite <- app_assoc. cbn [app]. rewrite <- IH.
    apply lex_dig_comma; [exact Hd | exact Hds | apply Z.leb_le; exact Hlen |].
    destruct Hnext as [[-> ->] | (s2 & l2 & c & r & -> & Hs2 & -> & Hc0 & Hc)]; [left; reflexivity|right].
    exists c, r. split; [reflexivity|]. split; [exact Hc0|].
    cbn [hd_error ok_next2] in Hn. destruct s2 as [[| | |]|]; try discriminate.
    + rewrite (alpha_not_digit c Hc), (alpha_not46 c Hc). reflexivity.
    + destruct Hc as (-> & Ha & Hdg). rewrite Hdg. cbn [negb andb]. exact Hn.
Qed.

Corollary timelex_segments2 l : wf_segs2 l = true -> timelex (concat (map seg2_str l)) = flat_map seg2_toks l.
Proof. apply lex_segments2. Qed.
