(* C02: parse_render theorems for flag-dependent numeric dates: DD/MM/YYYY (dayfirst), YY-MM-DD (yearfirst), MM/DD/YY. *)
From Coq Require Import ZArith List Bool Lia ZifyBool.
From V Require Import base.Cal gen.ParseTables parse.Lex parse.Prim parse.Ymd parse.Parse parse.Build
                      parse.ParseSpec parse.LexSeg parse.TokFacts parse.YearThm parse.RenderTac parse.RenderTac3 parse.RenderIso parse.RenderTac4 parse.YearThm2.
Import ListNotations.
Open Scope Z_scope.
Ltac Zify.zify_post_hook ::= Z.to_euclidean_division_equations.

Local Arguments digits_n : simpl never.
Local Arguments is_float : simpl never.
Local Arguments to_decimal : simpl never.
Local Arguments py_int : simpl never.
Local Arguments py_isdigit : simpl never.
Local Arguments slen : simpl never.
Local Arguments has_dot : simpl never.
Local Arguments find_dot : simpl never.
Local Arguments info_jump : simpl never.
Local Arguments info_weekday : simpl never.
Local Arguments info_month : simpl never.
Local Arguments info_hms : simpl never.
Local Arguments info_ampm : simpl never.
Local Arguments info_pertain : simpl never.
Local Arguments info_utczone : simpl never.
Local Arguments info_tzoffset : simpl never.
Local Arguments is1 : simpl never.
Local Arguments str_eqb : simpl never.
Local Arguments could_be_tzname : simpl never.
Local Arguments parsems : simpl never.
Local Arguments all_digit : simpl never.
Local Arguments convertyear : simpl never.
Local Arguments dt_replace : simpl never.
Local Arguments valid_dt : simpl never.
Local Arguments monthlen : simpl never.
Local Arguments Z.eqb !x !y.
Local Arguments Z.ltb !x !y.
Local Arguments Z.leb !x !y.
Local Arguments Z.add !x !y.
Local Arguments Z.mul !x !y.
Local Arguments Z.sub !m !n.
Local Arguments Z.opp !x.

Ltac zeq :=
  repeat match goal with
  | |- context [Z.eqb ?a ?b] =>
      first [ replace (Z.eqb a b) with true by lia | replace (Z.eqb a b) with false by lia ]
  end.

(* flags given as keyword arguments *)
Definition opts_kw (dayf yearf ig : bool) (df : dt7) (cy : Z) (loc : list str) (n0 n1 : bool) : opts :=
  mkOpts false false (Some dayf) (Some yearf) false false ig TINone df cy loc n0 n1.

Definition fdate_segs (f : dform) (d : dt7) : list seg :=
  let y4 := SDig (digits_n 4 (d_y d)) in
  let yy := SDig (digits_n 2 (d_y d mod 100)) in
  let m2 := SDig (digits_n 2 (d_mo d)) in
  let d2 := SDig (digits_n 2 (d_d d)) in
  match f with
  | DEU => [d2; SSep 47; m2; SSep 47; y4]
  | DYY => [yy; SSep 45; m2; SSep 45; d2]
  | DUSYY => [m2; SSep 47; d2; SSep 47; yy]
  | _ => []
  end.

Definition fsegs (f : dform) (j : joiner) (tf : tform) (d : dt7) : list seg :=
  fdate_segs f d ++ join_segs j ++ time_segs tf d.

Definition flag_tails : list (joiner * tform) := [(JNone, TNone); (JSpace, THM); (JSpace, THMS)].
Definition flag_dforms : list dform := [DEU; DYY; DUSYY].

Local Arguments convertyear : simpl never.

(* DD/MM/YYYY under dayfirst=True; YY-MM-DD under yearfirst=True and MM/DD/YY (no flags) for years
   within -50..+49 of the parserinfo year; alone or followed by " HH:MM" / " HH:MM:SS" *)
Theorem parse_render_flag_dates_lemma : forall f jt d o df cy loc n0 n1 ig,
  In f flag_dforms -> In jt flag_tails ->
  valid_dt d = true -> valid_dt df = true ->
  guard_year (TDT f (fst jt) (snd jt) ONone) cy d = true ->
  parse (opts_kw (fst (flags_of (TDT f (fst jt) (snd jt) ONone))) (snd (flags_of (TDT f (fst jt) (snd jt) ONone)))
                 ig df cy loc n0 n1)
        (render (TDT f (fst jt) (snd jt) ONone) d o)
  = OutOk (expected_dt (TDT f (fst jt) (snd jt) ONone) d df) ZNaive 0 false [].
Proof.
  intros f jt d o df cy loc n0 n1 ig Hf Hjt Hd Hdf Hg.
  destruct (valid_dt_ranges d Hd) as (Ry & Rmo & Rd & Rh & Rmi & Rs & Rus).
  assert (Hm12 : 1 <= d_mo d <= 12 /\ 1 <= d_d d <= 31 /\ 1 <= d_y d).
  { unfold valid_dt, valid_ymd in Hd. pose proof (dim_pos (d_y d) (d_mo d)). lia. }
  destruct Hm12 as (Hm12 & Hd31 & Hy1).
  assert (Ryy : 0 <= d_y d mod 100 < 10 ^ Z.of_nat 2) by (change (10 ^ Z.of_nat 2) with 100; lia).
  assert (Hyy99 : 0 <= d_y d mod 100 <= 99) by lia.
  unfold flag_dforms, flag_tails in *. cbn [In] in Hf, Hjt.
  destruct Hf as [<- | [<- | [<- | []]]]; destruct Hjt as [<- | [<- | [<- | []]]]; cbn [fst snd flags_of] in *;
  unfold guard_year in Hg; cbn [two_digit] in Hg;
  try (assert (Hcv : convertyear cy (d_y d mod 100) false = Ok (d_y d)) by (apply convertyear_guard; lia));
  match goal with |- parse _ (render (TDT ?f ?j ?tf ONone) d o) = _ =>
    assert (Hrender : render (TDT f j tf ONone) d o = concat (map seg_str (fsegs f j tf d)))
      by (unfold render, render_date, render_time, render_off, join_txt, fsegs, fdate_segs, join_segs, time_segs;
          cbn [map concat seg_str app]; repeat (progress (rewrite <- ?app_assoc, ?app_nil_r; cbn [app])); reflexivity);
    assert (Hwf : wf_segs (fsegs f j tf d) = true)
      by (unfold fsegs, fdate_segs, join_segs, time_segs; cbn [app wf_segs wf_seg hd_error ok_next];
          rewrite ?digits_n_all_digit, ?digits_n_length, ?nonempty_digits; vm_compute; reflexivity)
  end;
  unfold parse, opts_kw;
  cbn [o_fuzzy o_fwt o_yearfirst o_info_yearfirst o_dayfirst o_info_dayfirst o_cur_year oflag o_default
       o_ignoretz o_tzinfos o_local o_nm0 o_nm1];
  unfold parse_res; rewrite Hrender, timelex_segments by exact Hwf; clear Hrender Hwf;
  unfold fsegs, fdate_segs, join_segs, time_segs; cbn [app map seg_tok length];
  lrun ltac:(rewrite ?Hcv; zeq);
  try match goal with |- (if ?b then _ else _) = _ => destruct b end;
  zeq; first [reflexivity | (repeat f_equal; lia)].
Qed.
