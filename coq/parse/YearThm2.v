(* C02: inside the -50..+49 window the two-digit rendering of a year resolves back to that year. *)
From Coq Require Import ZArith List Bool Lia ZifyBool.
From V Require Import base.Cal gen.ParseTables parse.Lex parse.Prim parse.YearThm.
Open Scope Z_scope.
Ltac Zify.zify_post_hook ::= Z.to_euclidean_division_equations.

(* inside the window the two-digit rendering resolves back to the year itself *)
Lemma convertyear_guard cur y : 0 <= y -> cur - 50 <= y < cur + 50 -> convertyear cur (y mod 100) false = Ok y.
Proof.
  intros Hy Hg.
  destruct (convertyear_pivot_lemma (y mod 100) cur) as (r & Hr & Hrange & Hmod); [lia|].
  rewrite Hr. f_equal. apply (convertyear_unique cur (y mod 100) r y); try lia.
Qed.
