(* C02 (helper rdalg): DD-Mon-YYYY alone or followed by " HH:MM" / " HH:MM:SS". *)
From Coq Require Import ZArith List Bool Lia ZifyBool.
From V Require Import base.Cal gen.ParseTables parse.Lex parse.Prim parse.Ymd parse.Parse parse.Build
                      parse.ParseSpec parse.LexSeg parse.TokFacts parse.YearThm parse.RenderTac parse.RenderTac3 parse.RenderIso parse.WordFacts parse.LexSeg2 parse.RenderCommaDefs parse.RenderTac4.
Import ListNotations.
Open Scope Z_scope.
Ltac Zify.zify_post_hook ::= Z.to_euclidean_division_equations.

Local Arguments digits_n : simpl never.
Local Arguments is_float : simpl never.
Local Arguments to_decimal : simpl never.
Local Arguments py_int : simpl never.
Local Arguments py_isdigit : simpl never.
Local Arguments slen : simpl never.
Local Arguments has_dot : simpl never.
Local Arguments find_dot : simpl never.
Local Arguments info_jump : simpl never.
Local Arguments info_weekday : simpl never.
Local Arguments info_month : simpl never.
Local Arguments info_hms : simpl never.
Local Arguments info_ampm : simpl never.
Local Arguments info_pertain : simpl never.
Local Arguments info_utczone : simpl never.
Local Arguments info_tzoffset : simpl never.
Local Arguments is1 : simpl never.
Local Arguments str_eqb : simpl never.
Local Arguments could_be_tzname : simpl never.
Local Arguments parsems : simpl never.
Local Arguments all_digit : simpl never.
Local Arguments convertyear : simpl never.
Local Arguments dt_replace : simpl never.
Local Arguments valid_dt : simpl never.
Local Arguments monthlen : simpl never.
Local Arguments Z.eqb !x !y.
Local Arguments Z.ltb !x !y.
Local Arguments Z.leb !x !y.
Local Arguments Z.add !x !y.
Local Arguments Z.mul !x !y.
Local Arguments Z.sub !m !n.
Local Arguments Z.opp !x.

Local Arguments mon3 : simpl never.
Local Arguments month_name : simpl never.


Lemma mon3_isdigit m : 1 <= m <= 12 -> py_isdigit (mon3 m) = false.
Proof. intros H. by_month H; vm_compute; reflexivity. Qed.

Definition dash_segs (d : dt7) : list seg :=
  [SDig (digits_n 2 (d_d d)); SSep 45; SWord (mon3 (d_mo d)); SSep 45; SDig (digits_n 4 (d_y d))].

Definition dsegs_of (j : joiner) (tf : tform) (d : dt7) : list seg :=
  dash_segs d ++ join_segs j ++ time_segs tf d.

Definition dash_tails : list (joiner * tform) := [(JNone, TNone); (JSpace, THM); (JSpace, THMS)].

Theorem parse_render_dash_mon_lemma : forall jt d o df cy loc n0 n1 yf ig,
  In jt dash_tails ->
  valid_dt d = true -> valid_dt df = true ->
  parse (opts_df0 yf ig df cy loc n0 n1) (render (TDT DDashMon (fst jt) (snd jt) ONone) d o)
  = OutOk (expected_dt (TDT DDashMon (fst jt) (snd jt) ONone) d df) ZNaive 0 false [].
Proof.
  intros jt d o df cy loc n0 n1 yf ig Hjt Hd Hdf.
  destruct (valid_dt_ranges d Hd) as (Ry & Rmo & Rd & Rh & Rmi & Rs & Rus).
  assert (Hm12 : 1 <= d_mo d <= 12 /\ 1 <= d_d d <= 31).
  { unfold valid_dt, valid_ymd in Hd. pose proof (dim_pos (d_y d) (d_mo d)). lia. }
  destruct Hm12 as [Hm12 Hd31].
  unfold dash_tails in *. cbn [In] in Hjt.
  destruct Hjt as [<- | [<- | [<- | []]]]; cbn [fst snd];
  match goal with |- parse _ (render (TDT DDashMon ?j ?tf ONone) d o) = _ =>
    assert (Hrender : render (TDT DDashMon j tf ONone) d o = concat (map seg_str (dsegs_of j tf d)))
      by (unfold render, render_date, render_time, render_off, join_txt, dsegs_of, dash_segs, join_segs, time_segs;
          cbn [map concat seg_str app]; repeat (progress (rewrite <- ?app_assoc, ?app_nil_r; cbn [app])); reflexivity);
    assert (Hwf : wf_segs (dsegs_of j tf d) = true)
      by (unfold dsegs_of, dash_segs, join_segs, time_segs; cbn [app wf_segs hd_error ok_next];
          rewrite ?(mon3_wf _ Hm12); cbn [wf_seg];
          rewrite ?digits_n_all_digit, ?digits_n_length, ?nonempty_digits; vm_compute; reflexivity)
  end;
  unfold parse, opts_df0;
  cbn [o_fuzzy o_fwt o_yearfirst o_info_yearfirst o_dayfirst o_info_dayfirst o_cur_year oflag o_default
       o_ignoretz o_tzinfos o_local o_nm0 o_nm1];
  unfold parse_res; rewrite Hrender, timelex_segments by exact Hwf; clear Hrender Hwf;
  unfold dsegs_of, dash_segs, join_segs, time_segs; cbn [app map seg_tok length];
  lrun ltac:(unfold dec_gt, dec_ge, dec_lt, dec_le, frac_nonzero; cbn [fst snd existsb];
             wordrw Hm12; rewrite ?(mon3_isdigit _ Hm12); rewrite ?convertyear_ge100 by lia);
  try match goal with |- (if ?b then _ else _) = _ => destruct b end;
  reflexivity.
Qed.
