(* C02: F-C02-padyear -- the round trip fails for zero-padded years below 100 in forms whose year
   token reaches _ymd.append as a number (month-name forms, ctime, RFC 2822). *)
From Coq Require Import ZArith List Bool.
From V Require Import base.Cal gen.ParseTables parse.Lex parse.Prim parse.Ymd parse.Parse parse.Build
                      parse.ParseSpec.
Import ListNotations.
Open Scope Z_scope.

Definition pad_opts : opts :=
  mkOpts false false None None false false false TINone (mkDt 2003 1 1 0 0 0 0) 2026 [] true false.
Definition pad_dt : dt7 := mkDt 99 9 25 10 36 28 0.

(* "25 Sep 0099" is read as 1999-09-25, "Sat Sep 25 10:36:28 0099" likewise *)
Lemma padyear_refuted_lemma :
  valid_dt pad_dt = true /\
  parse pad_opts (render (TDT DDMonY JNone TNone ONone) pad_dt (mkOff true 0 0))
    = OutOk (mkDt 1999 9 25 0 0 0 0) ZNaive 0 false [] /\
  expected_dt (TDT DDMonY JNone TNone ONone) pad_dt (o_default pad_opts) = mkDt 99 9 25 0 0 0 0 /\
  parse pad_opts (render TCtime pad_dt (mkOff true 0 0))
    = OutOk (mkDt 1999 9 25 10 36 28 0) ZNaive 0 false [] /\
  expected_dt TCtime pad_dt (o_default pad_opts) = mkDt 99 9 25 10 36 28 0.
Proof. repeat split; vm_compute; reflexivity. Qed.
