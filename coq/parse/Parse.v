(* dateutil.parser._parser.parser._parse and its helpers, branch for branch.  No proofs here. *)
From Coq Require Import ZArith List Bool.
From V Require Import base.Cal gen.ParseTables parse.Lex parse.Prim parse.Ymd.
Import ListNotations.
Open Scope Z_scope.

(* parser._result *)
Record pres := mkRes {
  r_year : option Z; r_month : option Z; r_day : option Z; r_weekday : option Z;
  r_hour : option Z; r_minute : option Z; r_second : option Z; r_us : option Z;
  r_tzname : option str; r_tzoffset : option Z; r_ampm : option Z;
  r_century : bool
}.

Definition res_empty : pres :=
  mkRes None None None None None None None None None None None false.

Definition set_hour (r : pres) (v : option Z) : pres :=
  mkRes (r_year r) (r_month r) (r_day r) (r_weekday r) v (r_minute r) (r_second r) (r_us r)
        (r_tzname r) (r_tzoffset r) (r_ampm r) (r_century r).
Definition set_minute (r : pres) (v : option Z) : pres :=
  mkRes (r_year r) (r_month r) (r_day r) (r_weekday r) (r_hour r) v (r_second r) (r_us r)
        (r_tzname r) (r_tzoffset r) (r_ampm r) (r_century r).
Definition set_second (r : pres) (v : option Z) : pres :=
  mkRes (r_year r) (r_month r) (r_day r) (r_weekday r) (r_hour r) (r_minute r) v (r_us r)
        (r_tzname r) (r_tzoffset r) (r_ampm r) (r_century r).
Definition set_us (r : pres) (v : option Z) : pres :=
  mkRes (r_year r) (r_month r) (r_day r) (r_weekday r) (r_hour r) (r_minute r) (r_second r) v
        (r_tzname r) (r_tzoffset r) (r_ampm r) (r_century r).
Definition set_weekday (r : pres) (v : option Z) : pres :=
  mkRes (r_year r) (r_month r) (r_day r) v (r_hour r) (r_minute r) (r_second r) (r_us r)
        (r_tzname r) (r_tzoffset r) (r_ampm r) (r_century r).
Definition set_tzname (r : pres) (v : option str) : pres :=
  mkRes (r_year r) (r_month r) (r_day r) (r_weekday r) (r_hour r) (r_minute r) (r_second r) (r_us r)
        v (r_tzoffset r) (r_ampm r) (r_century r).
Definition set_tzoffset (r : pres) (v : option Z) : pres :=
  mkRes (r_year r) (r_month r) (r_day r) (r_weekday r) (r_hour r) (r_minute r) (r_second r) (r_us r)
        (r_tzname r) v (r_ampm r) (r_century r).
Definition set_ampm (r : pres) (v : option Z) : pres :=
  mkRes (r_year r) (r_month r) (r_day r) (r_weekday r) (r_hour r) (r_minute r) (r_second r) (r_us r)
        (r_tzname r) (r_tzoffset r) v (r_century r).
Definition set_ymdc (r : pres) (y m d : option Z) (c : bool) : pres :=
  mkRes y m d (r_weekday r) (r_hour r) (r_minute r) (r_second r) (r_us r)
        (r_tzname r) (r_tzoffset r) (r_ampm r) c.

(* ---- helpers ---- *)
Definition adjust_ampm (hour ampm : Z) : Z :=
  if (hour <? 12) && (ampm =? 1) then hour + 12
  else if (hour =? 12) && (ampm =? 0) then 0
  else hour.

(* parser._ampm_valid *)
Definition ampm_valid (hour ampm : option Z) (fuzzy : bool) : R bool :=
  let v0 := negb (fuzzy && isSome ampm) in
  match hour with
  | None => if fuzzy then Ok false else Err ValueError
  | Some h => if (0 <=? h) && (h <=? 12) then Ok v0
              else if fuzzy then Ok false else Err ValueError
  end.

Definition is_ascii_upper (c : Z) : bool := (65 <=? c) && (c <=? 90).

(* parser._could_be_tzname *)
Definition could_be_tzname (hour : option Z) (tzname : option str) (tzoffset : option Z) (t : str) : bool :=
  isSome hour && isNone tzname && isNone tzoffset && (slen t <=? 5)
  && (forallb is_ascii_upper t || in_utczone_raw t).

Definition hms_at (l : list str) (i : nat) : bool :=
  match nth_error l i with Some t => isSome (info_hms t) | None => false end.

(* parser._find_hms_idx *)
Definition find_hms_idx (l : list str) (idx : nat) (allow_jump : bool) : option nat :=
  if hms_at l (idx + 1) then Some (idx + 1)%nat
  else if allow_jump && (match nth_error l (idx + 1) with Some t => is1 t 32 | None => false end)
          && hms_at l (idx + 2) then Some (idx + 2)%nat
  else if (0 <? idx)%nat && hms_at l (idx - 1) then Some (idx - 1)%nat
  else if (1 <? idx)%nat && (S idx =? length l)%nat
          && (match nth_error l (idx - 1) with Some t => is1 t 32 | None => false end)
          && hms_at l (idx - 2) then Some (idx - 2)%nat
  else None.

(* parser._parse_hms for a non-None hms_idx; `None + 1` would be a TypeError *)
Definition parse_hms (l : list str) (idx hms_idx : nat) : R (nat * Z) :=
  do t <- tk l hms_idx;
  if (idx <? hms_idx)%nat then
    match info_hms t with Some h => Ok (hms_idx, h) | None => Err TypeError end
  else
    match info_hms t with Some h => Ok (idx, h + 1) | None => Err TypeError end.

(* parser._assign_hms *)
Definition assign_hms (r : pres) (value_repr : str) (hms : Z) : R pres :=
  do value <- to_decimal value_repr;
  if hms =? 0 then
    let r1 := set_hour r (Some (dec_int value)) in
    if frac_nonzero value then Ok (set_minute r1 (Some (frac60 value))) else Ok r1
  else if hms =? 1 then
    let '(mi, se) := parse_min_sec value in
    Ok (set_second (set_minute r (Some mi)) se)
  else if hms =? 2 then
    do p <- parsems value_repr;
    Ok (set_us (set_second r (Some (fst p))) (Some (snd p)))
  else Ok r.

Definition tok_is (l : list str) (i : nat) (c : Z) : bool :=
  match nth_error l i with Some t => is1 t c | None => false end.

Definition jump_at (l : list str) (i : nat) : bool :=
  match nth_error l i with Some t => info_jump t | None => false end.

(* parser._parse_numeric_token; returns the new idx *)
Definition parse_numeric (l : list str) (idx : nat) (y : ymd) (r : pres) (fuzzy : bool)
  : R (nat * ymd * pres) :=
  do s <- tk l idx;
  do value <- to_decimal s;
  let len_li := slen s in
  let nxt := nth_error l (idx + 1) in
  if (ylen y =? 3) && ((len_li =? 2) || (len_li =? 4)) && isNone (r_hour r)
     && (match nxt with
         | None => true
         | Some t => negb (is1 t 58) && isNone (info_hms t)
         end)
  then
    (* 19990101T23[59] *)
    do h <- py_int (firstn 2 s);
    if len_li =? 4 then
      do mi <- py_int (skipn 2 s);
      Ok (idx, y, set_minute (set_hour r (Some h)) (Some mi))
    else Ok (idx, y, set_hour r (Some h))
  else if (len_li =? 6) || ((6 <? len_li) && (find_dot s 0 =? 6)) then
    (* YYMMDD or HHMMSS[.ss] *)
    if (match y_vals y with [] => true | _ => false end) && negb (has_dot s) then
      do y1 <- append_str y (firstn 2 s) None;
      do y2 <- append_str y1 (slice 2 4 s) None;
      do y3 <- append_str y2 (skipn 4 s) None;
      Ok (idx, y3, r)
    else
      do h <- py_int (firstn 2 s);
      do mi <- py_int (slice 2 4 s);
      do p <- parsems (skipn 4 s);
      Ok (idx, y, set_us (set_second (set_minute (set_hour r (Some h)) (Some mi)) (Some (fst p))) (Some (snd p)))
  else if (len_li =? 8) || (len_li =? 12) || (len_li =? 14) then
    (* YYYYMMDD[hhmm[ss]] *)
    do y1 <- append_str y (firstn 4 s) (Some LY);
    do y2 <- append_str y1 (slice 4 6 s) None;
    do y3 <- append_str y2 (slice 6 8 s) None;
    if 8 <? len_li then
      do h <- py_int (slice 8 10 s);
      do mi <- py_int (slice 10 12 s);
      let r1 := set_minute (set_hour r (Some h)) (Some mi) in
      if 12 <? len_li then
        do se <- py_int (skipn 12 s);
        Ok (idx, y3, set_second r1 (Some se))
      else Ok (idx, y3, r1)
    else Ok (idx, y3, r)
  else
  match find_hms_idx l idx true with
  | Some hms_idx =>
      (* HH[ ]h or MM[ ]m or SS[.ss][ ]s *)
      do p <- parse_hms l idx hms_idx;
      do r1 <- assign_hms r s (snd p);
      Ok (fst p, y, r1)
  | None =>
  if isSome (nth_error l (idx + 2)) && tok_is l (idx + 1) 58 then
    (* HH:MM[:SS[.ss]] *)
    do t2 <- tk l (idx + 2);
    do v2 <- to_decimal t2;
    let '(mi, se) := parse_min_sec v2 in
    let r1 := set_second (set_minute (set_hour r (Some (dec_int value))) (Some mi)) se in
    if isSome (nth_error l (idx + 4)) && tok_is l (idx + 3) 58 then
      do t4 <- tk l (idx + 4);
      do p <- parsems t4;
      Ok ((idx + 4)%nat, y, set_us (set_second r1 (Some (fst p))) (Some (snd p)))
    else Ok ((idx + 2)%nat, y, r1)
  else if tok_is l (idx + 1) 45 || tok_is l (idx + 1) 47 || tok_is l (idx + 1) 46 then
    (* date with separators *)
    do sep <- tk l (idx + 1);
    do y1 <- append_str y s None;
    match nth_error l (idx + 2) with
    | Some t2 =>
        if negb (info_jump t2) then
          do y2 <- (if py_isdigit t2 then append_str y1 t2 None
                    else match info_month t2 with
                         | Some m => append_int y1 m (Some LM)
                         | None => Err ValueError
                         end);
          if (match nth_error l (idx + 3) with Some t3 => str_eqb t3 sep | None => false end) then
            do t4 <- tk l (idx + 4);
            do y3 <- (match info_month t4 with
                      | Some m => append_int y2 m (Some LM)
                      | None => append_str y2 t4 None
                      end);
            Ok ((idx + 4)%nat, y3, r)
          else Ok ((idx + 2)%nat, y2, r)
        else Ok ((idx + 1)%nat, y1, r)
    | None => Ok ((idx + 1)%nat, y1, r)
    end
  else if isNone nxt || jump_at l (idx + 1) then
    match nth_error l (idx + 2) with
    | Some t2 =>
        match info_ampm t2 with
        | Some ap =>
            (* 12 am *)
            Ok ((idx + 2)%nat, y, set_hour r (Some (adjust_ampm (dec_int value) ap)))
        | None => do y1 <- append_dec y value None; Ok ((idx + 1)%nat, y1, r)
        end
    | None => do y1 <- append_dec y value None; Ok ((idx + 1)%nat, y1, r)
    end
  else
    (* here tokens[idx+1] exists *)
    do t1 <- tk l (idx + 1);
    match info_ampm t1 with
    | Some ap =>
        if dec_ge value 0 && dec_lt value 24 then
          (* 12am *)
          Ok ((idx + 1)%nat, y, set_hour r (Some (adjust_ampm (dec_int value) ap)))
        else
          do cb <- could_be_day y value;
          if cb then (do y1 <- append_dec y value None; Ok (idx, y1, r))
          else if fuzzy then Ok (idx, y, r) else Err ValueError
    | None =>
        do cb <- could_be_day y value;
        if cb then (do y1 <- append_dec y value None; Ok (idx, y1, r))
        else if fuzzy then Ok (idx, y, r) else Err ValueError
    end
  end.

(* ---- the main loop ---- *)
Record pst := mkSt {
  p_l : list str;          (* token list (one sign token may be rewritten) *)
  p_i : nat;
  p_r : pres;
  p_y : ymd;
  p_sk : list nat          (* skipped_idxs, most recent first *)
}.

Fixpoint set_nth (l : list str) (i : nat) (v : str) : list str :=
  match l, i with
  | [], _ => []
  | _ :: l', O => v :: l'
  | x :: l', S i' => x :: set_nth l' i' v
  end.

Definition is_sign (t : str) : bool := is1 t 43 || is1 t 45.

(* one iteration of the while loop; the returned state has the final `i += 1` applied *)
Definition parse_step (fuzzy : bool) (cur_year : Z) (st : pst) : R pst :=
  let l := p_l st in let i := p_i st in let r := p_r st in let y := p_y st in
  do t <- tk l i;
  if is_float t then
    do p <- parse_numeric l i y r fuzzy;
    let '(i', y', r') := p in
    Ok (mkSt l (S i') r' y' (p_sk st))
  else
  match info_weekday t with
  | Some w => Ok (mkSt l (S i) (set_weekday r (Some w)) y (p_sk st))
  | None =>
  match info_month t with
  | Some m =>
      do y1 <- append_int y m (Some LM);
      match nth_error l (i + 1) with
      | Some t1 =>
          if is1 t1 45 || is1 t1 47 then
            (* Jan-01[-99] *)
            do t2 <- tk l (i + 2);
            do y2 <- append_str y1 t2 None;
            if (match nth_error l (i + 3) with Some t3 => str_eqb t3 t1 | None => false end) then
              do t4 <- tk l (i + 4);
              do y3 <- append_str y2 t4 None;
              Ok (mkSt l (i + 5)%nat r y3 (p_sk st))
            else Ok (mkSt l (i + 3)%nat r y2 (p_sk st))
          else if isSome (nth_error l (i + 4)) && is1 t1 32 && tok_is l (i + 3) 32
                  && (match nth_error l (i + 2) with Some t2 => info_pertain t2 | None => false end) then
            (* Jan of 01 *)
            do t4 <- tk l (i + 4);
            if py_isdigit t4 then
              do v <- py_int t4;
              do yr <- convertyear cur_year v false;
              do y2 <- append_yearstr y1 yr;
              Ok (mkSt l (i + 5)%nat r y2 (p_sk st))
            else Ok (mkSt l (i + 5)%nat r y1 (p_sk st))
          else Ok (mkSt l (S i) r y1 (p_sk st))
      | None => Ok (mkSt l (S i) r y1 (p_sk st))
      end
  | None =>
  match info_ampm t with
  | Some ap =>
      do ok <- ampm_valid (r_hour r) (r_ampm r) fuzzy;
      if ok then
        match r_hour r with
        | Some h => Ok (mkSt l (S i) (set_ampm (set_hour r (Some (adjust_ampm h ap))) (Some ap)) y (p_sk st))
        | None => Err TypeError    (* None < 12 *)
        end
      else if fuzzy then Ok (mkSt l (S i) r y (i :: p_sk st))
      else Ok (mkSt l (S i) r y (p_sk st))
  | None =>
  if could_be_tzname (r_hour r) (r_tzname r) (r_tzoffset r) t then
    let r1 := set_tzoffset (set_tzname r (Some t)) (info_tzoffset t) in
    match nth_error l (i + 1) with
    | Some t1 =>
        if is_sign t1 then
          (* GMT+3: reverse the sign token *)
          let l' := set_nth l (i + 1) (if is1 t1 43 then [45] else [43]) in
          let r2 := set_tzoffset r1 None in
          let r3 := if info_utczone t then set_tzname r2 None else r2 in
          Ok (mkSt l' (S i) r3 y (p_sk st))
        else Ok (mkSt l (S i) r1 y (p_sk st))
    | None => Ok (mkSt l (S i) r1 y (p_sk st))
    end
  else if isSome (r_hour r) && is_sign t then
    (* numbered time zone *)
    let signal := if is1 t 43 then 1 else -1 in
    do t1 <- tk l (i + 1);
    let len_li := slen t1 in
    do p <-
      (if len_li =? 4 then
         do ho <- py_int (firstn 2 t1); do mo <- py_int (skipn 2 t1); Ok (i, ho, mo)
       else if isSome (nth_error l (i + 2)) && tok_is l (i + 2) 58 then
         do ho <- py_int t1; do t3 <- tk l (i + 3); do mo <- py_int t3; Ok ((i + 2)%nat, ho, mo)
       else if len_li <=? 2 then
         do ho <- py_int (firstn 2 t1); Ok (i, ho, 0)
       else Err ValueError);
    let '(i1, ho, mo) := p in
    let r1 := set_tzoffset r (Some (signal * (ho * 3600 + mo * 60))) in
    if isSome (nth_error l (i1 + 5)) && jump_at l (i1 + 2) && tok_is l (i1 + 3) 40
       && tok_is l (i1 + 5) 41
       && (match nth_error l (i1 + 4) with
           | Some t4 => (3 <=? slen t4) && could_be_tzname (r_hour r1) (r_tzname r1) None t4
           | None => false end) then
      do t4 <- tk l (i1 + 4);
      Ok (mkSt l (i1 + 6)%nat (set_tzname r1 (Some t4)) y (p_sk st))
    else Ok (mkSt l (i1 + 2)%nat r1 y (p_sk st))
  else if negb (info_jump t || fuzzy) then Err ValueError
  else Ok (mkSt l (S i) r y (i :: p_sk st))
  end end end.

(* the while loop: fuel = number of tokens (i grows by at least one per iteration) *)
Fixpoint parse_loop (fuel : nat) (fuzzy : bool) (cur_year : Z) (st : pst) : R pst :=
  if (length (p_l st) <=? p_i st)%nat then Ok st else
  match fuel with
  | O => Err OutOfFuel
  | S f => do st' <- parse_step fuzzy cur_year st; parse_loop f fuzzy cur_year st'
  end.

(* parserinfo.validate *)
Definition validate (cur_year : Z) (r : pres) : R pres :=
  do r1 <- (match r_year r with
            | Some yv => do y' <- convertyear cur_year yv (r_century r);
                         Ok (set_ymdc r (Some y') (r_month r) (r_day r) (r_century r))
            | None => Ok r
            end);
  let name_falsy := match r_tzname r1 with None | Some [] => true | _ => false end in
  let off0 := match r_tzoffset r1 with Some 0 => true | _ => false end in
  let is_z := match r_tzname r1 with Some t => is1 t 90 || is1 t 122 | None => false end in
  if (off0 && name_falsy) || is_z then
    Ok (set_tzoffset (set_tzname r1 (Some [85; 84; 67])) (Some 0))
  else if negb off0 && negb name_falsy
          && (match r_tzname r1 with Some t => info_utczone t | None => false end) then
    Ok (set_tzoffset r1 (Some 0))
  else Ok r1.

(* parser._recombine_skipped; idxs ascending *)
Fixpoint recombine (l : list str) (prev : option nat) (idxs : list nat) (acc : list str) : list str :=
  match idxs with
  | [] => rev acc
  | k :: rest =>
      let t := nth k l [] in
      match prev, acc with
      | Some p, a :: acc' => if (S p =? k)%nat then recombine l (Some k) rest ((a ++ t) :: acc')
                             else recombine l (Some k) rest (t :: acc)
      | _, _ => recombine l (Some k) rest (t :: acc)
      end
  end.

(* parser._parse: None | (res, skipped tokens).  The except clause catches exactly
   IndexError and ValueError; everything else propagates. *)
Definition parse_res (fuzzy fuzzy_with_tokens yearfirst dayfirst : bool) (cur_year : Z) (s : list Z)
  : R (option (pres * list str)) :=
  let fuzzy := fuzzy || fuzzy_with_tokens in
  let l := timelex s in
  let body :=
    do st <- parse_loop (length l) fuzzy cur_year (mkSt l O res_empty ymd_empty []);
    do t3 <- resolve_ymd (p_y st) yearfirst dayfirst;
    let '(yy, mm, dd) := t3 in
    Ok (mkSt (p_l st) (p_i st) (set_ymdc (p_r st) yy mm dd (y_century (p_y st))) (p_y st) (p_sk st)) in
  match body with
  | Err IndexError | Err ValueError | Err ValueErrorNoStr => Ok None
  | Err e => Err e
  | Ok st =>
      do r <- validate cur_year (p_r st);
      Ok (Some (r, if fuzzy_with_tokens then recombine (p_l st) None (rev (p_sk st)) [] else []))
  end.
