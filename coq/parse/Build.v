(* parser.parse(): _parse + _build_naive + _build_tzaware, options, outcome classes.
   No proofs here. *)
From Coq Require Import ZArith List Bool.
From V Require Import base.Cal gen.ParseTables parse.Lex parse.Prim parse.Ymd parse.Parse.
Import ListNotations.
Open Scope Z_scope.

Record dt7 := mkDt { d_y : Z; d_mo : Z; d_d : Z; d_h : Z; d_mi : Z; d_s : Z; d_us : Z }.

Definition valid_dt (d : dt7) : bool :=
  valid_ymd (d_y d) (d_mo d) (d_d d)
  && (0 <=? d_h d) && (d_h d <=? 23) && (0 <=? d_mi d) && (d_mi d <=? 59)
  && (0 <=? d_s d) && (d_s d <=? 59) && (0 <=? d_us d) && (d_us d <=? 999999).

(* what a tzinfos entry / callable may give back *)
Inductive tzval := TVNone | TVInt (secs : Z) | TVStr (id : Z) | TVObj (id : Z) | TVBad.

Inductive tzinfos :=
| TINone                                                   (* None or empty mapping *)
| TIDict (d : list (str * tzval))                          (* non-empty mapping name -> value *)
| TICall (tbl : list (option str * tzval)) (dflt : tzval)  (* callable depending on the name *)
| TICallOff.                                               (* callable returning its tzoffset argument *)

Inductive zone :=
| ZNaive | ZUTC | ZOffset (name : option str) (secs : Z) | ZLocal | ZUser (id : Z) | ZStr (id : Z).

Record opts := mkOpts {
  o_fuzzy : bool; o_fwt : bool;
  o_dayfirst : option bool; o_yearfirst : option bool;      (* keyword arguments *)
  o_info_dayfirst : bool; o_info_yearfirst : bool;          (* parserinfo attributes *)
  o_ignoretz : bool; o_tzinfos : tzinfos;
  o_default : dt7;
  o_cur_year : Z;                                           (* parserinfo._year *)
  o_local : list str;                                       (* time.tzname *)
  o_nm0 : bool; o_nm1 : bool    (* oracle: tzname() of a user/local zone at the result, fold 0 / 1,
                                   equals the parsed tzname *)
}.

Definition wf_tzval (v : tzval) : bool := match v with TVBad => false | _ => true end.
Definition wf_tzinfos (t : tzinfos) : bool :=
  match t with
  | TINone | TICallOff => true
  | TIDict d => forallb (fun p => wf_tzval (snd p)) d
  | TICall tbl dflt => forallb (fun p => wf_tzval (snd p)) tbl && wf_tzval dflt
  end.
Definition wf_opts (o : opts) : bool := wf_tzinfos (o_tzinfos o) && valid_dt (o_default o).

(* _resultbase.__len__ *)
Definition res_len (r : pres) : Z :=
  let c {A} (o : option A) := if isSome o then 1 else 0 in
  c (r_year r) + c (r_month r) + c (r_day r) + c (r_weekday r) + c (r_hour r) + c (r_minute r)
  + c (r_second r) + c (r_us r) + c (r_tzname r) + c (r_tzoffset r) + c (r_ampm r).

Definition c_int_ok (v : Z) : bool := (-2147483648 <=? v) && (v <=? 2147483647).
Definition opt_ok (o : option Z) : bool := match o with Some v => c_int_ok v | None => true end.
Definition dflt (o : option Z) (d : Z) : Z := match o with Some v => v | None => d end.

(* datetime.replace(fields): C-int conversion of every given field first (OverflowError), then
   the range checks of the constructor (ValueError) *)
Definition dt_replace (d : dt7) (y mo dd h mi s us : option Z) : R dt7 :=
  if negb (opt_ok y && opt_ok mo && opt_ok dd && opt_ok h && opt_ok mi && opt_ok s && opt_ok us)
  then Err OverflowError else
  let n := mkDt (dflt y (d_y d)) (dflt mo (d_mo d)) (dflt dd (d_d d)) (dflt h (d_h d))
                (dflt mi (d_mi d)) (dflt s (d_s d)) (dflt us (d_us d)) in
  if valid_dt n then Ok n else Err ValueError.

(* naive + relativedelta(weekday=wd): forward to the next such weekday (0 days if already there);
   date overflow past 9999-12-31 is OverflowError *)
Definition add_weekday (d : dt7) (wd : Z) : R dt7 :=
  let o := ord_of_ymd (d_y d) (d_mo d) (d_d d) in
  let jump := (7 - weekday_of_ord o + wd) mod 7 in
  let o' := o + jump in
  if max_ord <? o' then Err OverflowError else
  let '(y, m, dd) := ymd_of_ord o' in
  Ok (mkDt y m dd (d_h d) (d_mi d) (d_s d) (d_us d)).

(* parser._build_naive *)
Definition build_naive (r : pres) (d : dt7) : R dt7 :=
  do day <-
    (match r_day r with
     | Some v => Ok (Some v)
     | None =>
         let cyear := dflt (r_year r) (d_y d) in
         let cmonth := dflt (r_month r) (d_mo d) in
         let cday := d_d d in
         do n <- monthlen cyear cmonth;
         if n <? cday then Ok (Some n) else Ok None
     end);
  do naive <- dt_replace d (r_year r) (r_month r) day (r_hour r) (r_minute r) (r_second r) (r_us r);
  match r_weekday r with
  | Some wd =>
      if (match r_day r with None | Some 0 => true | _ => false end)
      then add_weekday naive wd else Ok naive
  | None => Ok naive
  end.

(* datetime.timedelta(seconds=n) inside tz.tzoffset *)
Definition tzoffset_ok (secs : Z) : bool :=
  let days := secs / 86400 in (-999999999 <=? days) && (days <=? 999999999).

Fixpoint dict_get (k : str) (d : list (str * tzval)) : option tzval :=
  match d with
  | [] => None
  | (k', v) :: d' => if str_eqb k' k then Some v else dict_get k d'
  end.

Definition oname_eqb (a b : option str) : bool :=
  match a, b with
  | None, None => true
  | Some x, Some y => str_eqb x y
  | _, _ => false
  end.

Fixpoint call_get (k : option str) (t : list (option str * tzval)) (dflt : tzval) : tzval :=
  match t with
  | [] => dflt
  | (k', v) :: t' => if oname_eqb k' k then v else call_get k t' dflt
  end.

(* parser._assign_tzname: fold of the result *)
Definition assign_fold (nm0 nm1 : bool) : Z := if nm0 then 0 else if nm1 then 1 else 0.

(* parser._build_tzinfo + replace + _assign_tzname *)
Definition build_tzinfo (o : opts) (tzname : option str) (tzoffset : option Z) (data : tzval)
  : R (zone * Z) :=
  match data with
  | TVNone => Ok (ZNaive, 0)
  | TVObj id => Ok (ZUser id, assign_fold (o_nm0 o) (o_nm1 o))
  | TVStr id => Ok (ZStr id, assign_fold (o_nm0 o) (o_nm1 o))
  | TVInt secs => if tzoffset_ok secs then Ok (ZOffset tzname secs, 0) else Err OverflowError
  | TVBad => Err TypeError
  end.

Definition name_truthy (n : option str) : bool :=
  match n with None | Some [] => false | _ => true end.

(* parser._build_tzaware: (zone, fold, warned) *)
Definition build_tzaware (o : opts) (r : pres) : R (zone * Z * bool) :=
  let tzname := r_tzname r in
  let tzoffset := r_tzoffset r in
  let via_tzinfos :=
    match o_tzinfos o with
    | TINone => None
    | TIDict d => match tzname with Some n => dict_get n d | None => None end
    | TICall tbl df => Some (call_get tzname tbl df)
    | TICallOff => Some (match tzoffset with Some v => TVInt v | None => TVNone end)
    end in
  match via_tzinfos with
  | Some data => do p <- build_tzinfo o tzname tzoffset data; Ok (fst p, snd p, false)
  | None =>
    if name_truthy tzname && (match tzname with Some n => smem n (o_local o) | None => false end) then
      if negb (o_nm0 o) && negb (o_nm1 o)
         && (match tzname with Some n => in_utczone_raw n | None => false end)
      then Ok (ZUTC, 0, false)
      else Ok (ZLocal, assign_fold (o_nm0 o) (o_nm1 o), false)
    else
    match tzoffset with
    | Some 0 => Ok (ZUTC, 0, false)
    | Some v => if tzoffset_ok v then Ok (ZOffset tzname v, 0, false) else Err OverflowError
    | None =>
        if negb (name_truthy tzname) then Ok (ZNaive, 0, false)
        else if name_truthy tzname then Ok (ZNaive, 0, true)
        else Err UnboundLocalError
    end
  end.

Inductive outcome :=
| OutOk (d : dt7) (z : zone) (fold : Z) (warned : bool) (toks : list str)
| OutParserError
| OutOverflow
| OutEscape (e : exn).

Definition oflag (kw : option bool) (info : bool) : bool := match kw with Some b => b | None => info end.

(* parser.parse(timestr, default, ignoretz, tzinfos, kwargs) *)
Definition parse (o : opts) (s : list Z) : outcome :=
  match parse_res (o_fuzzy o) (o_fwt o) (oflag (o_yearfirst o) (o_info_yearfirst o))
                  (oflag (o_dayfirst o) (o_info_dayfirst o)) (o_cur_year o) s with
  | Err OverflowError => OutOverflow
  | Err e => OutEscape e
  | Ok None => OutParserError
  | Ok (Some (r, toks)) =>
      if res_len r =? 0 then OutParserError else
      match build_naive r (o_default o) with
      | Err ValueError => OutParserError
      (* `except ValueError as e: raise ParserError(str(e) + ...)`: str(e) raises ValueError *)
      | Err ValueErrorNoStr => OutEscape ValueErrorNoStr
      | Err OverflowError => OutOverflow
      | Err e => OutEscape e
      | Ok naive =>
          if o_ignoretz o then OutOk naive ZNaive 0 false toks else
          match build_tzaware o r with
          | Ok (z, fold, w) => OutOk naive z fold w toks
          | Err OverflowError => OutOverflow
          | Err e => OutEscape e
          end
      end
  end.
