(* C04: the hand-modelled (not translated) fragments this property relies on still have the AST the hand
   model was validated against (fingerprints in harness/gen_tzfile.py, recomputed from /repo on every run). *)
From V Require Import gen.TzGen.

Lemma pins_C04_lemma :
  pinned_tz_tzfile__read_tzfile = true /\
  pinned_tz_tzutc_utcoffset = true /\
  pinned_tz_tzutc_dst = true /\
  pinned_tz_tzutc_fromutc = true /\
  pinned_tz_tzoffset___init__ = true /\
  pinned_tz_tzoffset_utcoffset = true /\
  pinned_tz_tzoffset_dst = true /\
  pinned_tz_tzoffset_fromutc = true /\
  pinned__common__tzinfo__fold = true.
Proof. repeat split; reflexivity. Qed.
