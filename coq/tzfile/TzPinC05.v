(* C05: the hand-modelled (not translated) fragments this property relies on still have the AST the hand
   model was validated against (fingerprints in harness/gen_tzfile.py, recomputed from /repo on every run). *)
From V Require Import gen.TzGen.

Lemma pins_C05_lemma :
  pinned_tz_tzfile__read_tzfile = true /\
  pinned_tz_tzutc_is_ambiguous = true /\
  pinned_tz_tzoffset_is_ambiguous = true /\
  pinned__common__tzinfo__fold = true.
Proof. repeat split; reflexivity. Qed.
