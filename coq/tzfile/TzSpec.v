(* Executable SPEC for C04 / C05 / C06, independent of tzfile's algorithm.
   A zone is an initial offset and a list of (UTC transition instant, offset in force from
   that instant on).  off(u) = the offset of the last transition <= u; local(u) = u + off(u);
   fold(u) = 1 iff an earlier instant has the same wall reading;
   preimages(w) = { u | u + off(u) = w }. *)
From Coq Require Import ZArith List Bool.
Import ListNotations.
Open Scope Z_scope.

Record zone : Type := mkZone { z_init : Z; z_trans : list (Z * Z) }.

(* offset of the last transition <= u (the initial offset when there is none) *)
Definition off (z : zone) (u : Z) : Z :=
  last (map snd (filter (fun p => fst p <=? u) (z_trans z))) (z_init z).

Definition local (z : zone) (u : Z) : Z := u + off z u.

(* every offset the zone ever uses, without repetitions *)
Definition offsets (z : zone) : list Z := nodup Z.eq_dec (z_init z :: map snd (z_trans z)).

(* u + off u = w forces u = w - o for one of the zone's offsets o *)
Definition preimages (z : zone) (w : Z) : list Z :=
  filter (fun u => local z u =? w) (map (fun o => w - o) (offsets z)).

Definition fold_spec (z : zone) (u : Z) : bool :=
  existsb (fun u' => u' <? u) (preimages z (local z u)).

(* PEP 495: the instant meant by (w, fold): the earlier pre-image for fold = 0, the later for
   fold = 1; None when w is imaginary *)
Definition min_list (l : list Z) : option Z :=
  match l with [] => None | x :: r => Some (fold_left Z.min r x) end.
Definition max_list (l : list Z) : option Z :=
  match l with [] => None | x :: r => Some (fold_left Z.max r x) end.
Definition utc_of_spec (z : zone) (w : Z) (fold : bool) : option Z :=
  if fold then max_list (preimages z w) else min_list (preimages z w).

(* the gap containing an imaginary wall time w: the transition (t, o) with previous offset p
   such that t + p <= w < t + o; gap_at returns (p, o), the gap's width is o - p *)
Fixpoint gap_from (p : Z) (tr : list (Z * Z)) (w : Z) : option (Z * Z) :=
  match tr with
  | [] => None
  | (t, o) :: r => if (t + p <=? w) && (w <? t + o) then Some (p, o) else gap_from o r w
  end.
Definition gap_at (z : zone) (w : Z) : option (Z * Z) := gap_from (z_init z) (z_trans z) w.
Definition gap_width (z : zone) (w : Z) : option Z :=
  match gap_at z w with Some (p, o) => Some (o - p) | None => None end.

Definition resolve_spec (z : zone) (w : Z) : Z :=
  match preimages z w with
  | _ :: _ => w
  | [] => match gap_width z w with Some g => w + g | None => w end
  end.

(* hypothesis of resolve_imaginary (its +/- 24 h probe): read with fold = 0, the wall time 24 h
   after w is on the offset in force after the gap and the wall time 24 h before w on the
   offset in force before it *)
Definition on_offset (z : zone) (w o : Z) : bool :=
  match utc_of_spec z w false with Some u => off z u =? o | None => false end.
Definition isolated (z : zone) (w : Z) : bool :=
  match gap_at z w with
  | Some (p, o) => on_offset z (w + 86400) o && on_offset z (w - 86400) p
  | None => false
  end.

(* ------------------------------------------------------------------ well-formedness *)
(* strictly increasing transition instants, and every offset regime lasts long enough:
   * at least the widths of the repeated intervals (offset decreases) at its two ends together --
     otherwise some wall time has three pre-images, or (one end) tzfile.is_ambiguous calls a wall time
     repeated that the short regime never showed (finding F-C05-short-regime);
   * at least the width of the gap (offset increase) at either of its ends -- otherwise the "gap"
     is partly covered by the next / previous regime.
   (Round 5: this replaces the stronger `sum of the two adjacent |offset changes|`.) *)
Definition dec (p o : Z) : Z := Z.max 0 (p - o).     (* width of the repeated interval of a change p -> o *)
Definition inc (p o : Z) : Z := Z.max 0 (o - p).     (* width of the gap of a change p -> o *)
Fixpoint wf_from (p : Z) (tr : list (Z * Z)) : bool :=
  match tr with
  | [] => true
  | (t, o) :: r =>
    match r with
    | [] => true
    | (t', o') :: _ =>
      (t <? t') && (dec p o + dec o o' <=? t' - t) && (inc p o <=? t' - t) && (inc o o' <=? t' - t) && wf_from o r
    end
  end.
Definition in_day (o : Z) : bool := (-86400 <? o) && (o <? 86400).
(* ... and every offset strictly between -24 h and +24 h (CPython rejects others) *)
Definition wf_zone (z : zone) : bool :=
  wf_from (z_init z) (z_trans z) && in_day (z_init z) && forallb (fun p => in_day (snd p)) (z_trans z).

