(* C06 before the first transition: the decoded zone reports the data's first standard (non-DST)
   type, or type 0 when every type is DST. *)
From Coq Require Import ZArith List Bool Lia ZifyBool.
From V Require Import tzfile.TzModel tzfile.TzSpec tzfile.TzData tzfile.TzBisect tzfile.TzIndex
  tzfile.TzZoneThm tzfile.TzWallThm tzfile.TzBridge tzfile.TzFinalThm tzfile.TzDecodeThm tzfile.TzReportThm.
Import ListNotations.
Open Scope Z_scope.
Ltac Zify.zify_post_hook ::= Z.to_euclidean_division_equations.

Definition before_index (types : list ttinfo) : Z :=
  match first_std types 0 with Some k => k | None => 0 end.

Lemma build_before : forall r d, build r = Ok d -> r_types r <> [] -> r_times r <> [] ->
  d_before d = Some (nth_tt (d_tt d) (before_index (mk_types (r_abbr r) (r_isstd r) (r_isgmt r) O (r_types r)))).
Proof.
  intros r d H Hty Hti. unfold build in H.
  set (types0 := mk_types (r_abbr r) (r_isstd r) (r_isgmt r) O (r_types r)) in *.
  destruct (forallb (fun k => k <? len types0) (r_idx r)) eqn:Ef; cbn [negb] in H; [|discriminate].
  destruct types0 as [|t0 tl] eqn:Et.
  - exfalso. apply Hty. pose proof (mk_types_length (r_abbr r) (r_isstd r) (r_isgmt r) (r_types r) O) as Hl.
    fold types0 in Hl. rewrite Et in Hl. destruct (r_types r); [reflexivity|discriminate].
  - rewrite <- Et in *. destruct (r_times r) as [|t1 ts] eqn:Ets; [contradiction|].
    set (ds := dst_pass types0 (r_idx r) None 0 0 (map (fun _ => 0) types0)) in *.
    destruct (opt_tt (set_dstoffs types0 ds) _) as [s|] eqn:Es; [|discriminate].
    destruct (opt_tt (set_dstoffs types0 ds) (match first_std types0 0 with Some k => Some k | None => Some 0 end))
      as [b|] eqn:Eb; [|discriminate].
    inversion H; subst d. cbn [d_before d_tt]. unfold before_index.
    destruct (first_std types0 0); cbn [opt_tt] in Eb; inversion Eb; reflexivity.
Qed.

(* first_std on the decoded types finds the position of the first non-DST raw type *)
Lemma first_std_mk : forall abbr isstd isgmt l i acc,
  match first_nondst l with
  | Some t => exists n, first_std (mk_types abbr isstd isgmt i l) acc = Some (acc + Z.of_nat n) /\ nth_error l n = Some t
  | None => first_std (mk_types abbr isstd isgmt i l) acc = None
  end.
Proof.
  induction l as [|[[g dd] a] l IH]; intros i acc.
  - reflexivity.
  - cbn [first_nondst mk_types first_std tt_isdst]. destruct (dd =? 0) eqn:E.
    + exists O. split; [f_equal; lia|reflexivity].
    + specialize (IH (S i) (acc + 1)). destruct (first_nondst l) as [t|].
      * destruct IH as [n [H1 H2]]. exists (S n). split; [rewrite H1; f_equal; lia|exact H2].
      * exact IH.
Qed.

Section LookupBefore.
Variable d : tzdata.
Hypothesis Hgood : good d = true.
Hypothesis Hwf : wf_zone (zone_of d) = true.
Notation p := (z_init (zone_of d)).
Notation tr := (z_trans (zone_of d)).

Theorem reports_before_lookup_lemma : forall u b, tr <> [] -> iu tr u = -1 -> d_before d = Some b ->
  exists w f, fromutc d u = Ok (w, f) /\ w = u + tt_off b /\ dt_utcoffset d w f = Ok (tt_off b) /\
    tzname d w f = Ok (Some (tt_abbr b)) /\ (tt_isdst b = 0 -> dst d w f = Ok 0).
Proof.
  intros u b Hne Hi Hb.
  destruct (good_parts d Hgood) as [L1 [L2 [[s Hs] _]]].
  assert (Hlw : len (d_wall d) = len tr). { rewrite (len_tr d). unfold len. lia. }
  assert (Hn : 0 < len tr). { destruct tr; [contradiction|]. rewrite len_cons. pose proof (len_nonneg _ l). lia. }
  assert (Hget : get_ttinfo d (Some (-1)) = Some b).
  { unfold get_ttinfo. rewrite Hlw. destruct (-1 + 1 >=? len tr) eqn:E1; [lia|]. cbn. exact Hb. }
  destruct (tzfile_roundtrip_lemma d Hgood Hwf u) as [w [f [Hfu [Hoff [_ [Hw _]]]]]].
  exists w, f. split; [exact Hfu|].
  assert (Hpair : A_fromutc p tr u = (w, f)). { rewrite (bridge_fromutc d Hgood Hwf) in Hfu. congruence. }
  pose proof (find_ttinfo_after_fromutc d Hgood Hwf u Hne) as Hft. rewrite Hpair in Hft. cbn [fst snd] in Hft.
  rewrite Hi, Hget in Hft.
  assert (Hoffv : off (zone_of d) u = tt_off b).
  { assert (E : off (zone_of d) u = goffz p tr (iu tr u)) by (apply off_index; apply (Hsu p tr (Hwff d Hwf))).
    rewrite E, Hi. rewrite <- (goff_idx d Hgood _ Hne). unfold goff. rewrite Hget. reflexivity. }
  repeat split.
  - unfold local in Hw. rewrite Hoffv in Hw. exact Hw.
  - rewrite Hoff. f_equal. exact Hoffv.
  - unfold tzname. rewrite Hs, Hft. reflexivity.
  - intros Hstd. unfold dst. destruct (d_dst d); [|reflexivity]. rewrite Hft. cbn [bind]. rewrite Hstd. reflexivity.
Qed.

End LookupBefore.

Theorem reports_before_lemma : forall r d u t0 ts, build r = Ok d -> wf_data r = true ->
  wf_zone (zone_of d) = true -> r_times r = t0 :: ts -> u < t0 ->
  exists w f g isd ab, data_at r u = Some (g, isd, ab) /\ fromutc d u = Ok (w, f) /\ w = u + g /\
    dt_utcoffset d w f = Ok g /\ tzname d w f = Ok (Some ab) /\ (isd = 0 -> dst d w f = Ok 0).
Proof.
  intros r d u t0 ts Hb Hwd Hwf Ets Hu.
  unfold wf_data in Hwd. apply andb_prop in Hwd. destruct Hwd as [Hwd Habbr].
  apply andb_prop in Hwd. destruct Hwd as [Hwd Hidx]. apply andb_prop in Hwd. destruct Hwd as [Hraw Hnty].
  assert (Hlen : length (r_idx r) = length (r_times r)).
  { unfold wf_raw in Hraw. repeat (apply andb_prop in Hraw; destruct Hraw as [Hraw ?]).
    match goal with H : (length (r_idx r) =? length (r_times r))%nat = true |- _ => apply Nat.eqb_eq in H; exact H end. }
  assert (Hty : r_types r <> []). { intros E. rewrite E in Hnty. discriminate. }
  assert (Hti : r_times r <> []). { rewrite Ets. discriminate. }
  pose proof (build_good_lemma r d Hb Hty Hlen) as Hgood.
  pose proof (build_before r d Hb Hty Hti) as Hbef.
  destruct (build_shape r d Hb Hty Hti) as [s [b [ds [dstt [Hd [Hds Hf]]]]]].
  set (types0 := mk_types (r_abbr r) (r_isstd r) (r_isgmt r) O (r_types r)) in *.
  assert (Hutc : d_utc d = r_times r) by (rewrite Hd; reflexivity).
  assert (Hdt : d_tt d = set_dstoffs types0 ds) by (rewrite Hd; reflexivity).
  assert (Hfst : map fst (z_trans (zone_of d)) = r_times r) by (rewrite (tr_fst d); exact Hutc).
  assert (Hsorted : sortedb (r_times r) = true). { rewrite <- Hfst. apply (Hsu _ _ (Hwff d Hwf)). }
  assert (Hne : z_trans (zone_of d) <> []).
  { intros E. rewrite E in Hfst. cbn in Hfst. rewrite Ets in Hfst. discriminate. }
  assert (Hi : iu (z_trans (zone_of d)) u = -1).
  { unfold iu. rewrite Hfst, Ets. cbn [count_le]. destruct (t0 <=? u) eqn:E; lia. }
  destruct (reports_before_lookup_lemma d Hgood Hwf u _ Hne Hi Hbef) as [w [f [Hfu [Hw [Hoff [Hname Hdst]]]]]].
  (* the raw type *)
  pose proof (first_std_mk (r_abbr r) (r_isstd r) (r_isgmt r) (r_types r) O 0) as Hfs. fold types0 in Hfs.
  assert (Hfilter : filter (fun q : Z * Z => fst q <=? u) (combine (r_times r) (r_idx r)) = []).
  { rewrite Ets. destruct (r_idx r) as [|k0 ks]; [reflexivity|]. cbn [combine filter fst].
    destruct (t0 <=? u) eqn:E; [lia|]. apply (filter_none_sorted _ t0 u); [|lia].
    rewrite map_fst_combine. rewrite Ets in Hsorted. exact Hsorted.
    rewrite Ets in Hlen. cbn in Hlen. lia. }
  assert (Hkey : exists n g isd a, nth_error (r_types r) n = Some (g, isd, a) /\
                 before_index types0 = Z.of_nat n /\ data_type_at r u = Some (g, isd, a)).
  { unfold data_type_at. rewrite Hfilter. unfold before_index.
    destruct (first_nondst (r_types r)) as [[[g isd] a]|] eqn:Efn.
    - destruct Hfs as [n [H1 H2]]. exists n, g, isd, a. rewrite H1. repeat split; try assumption; try lia.
    - rewrite Hfs. destruct (r_types r) as [|[[g isd] a] tl] eqn:Ety; [contradiction|].
      exists O, g, isd, a. repeat split; reflexivity. }
  destruct Hkey as [n [g [isd [a [Enth [Hbi Hdta]]]]]].
  destruct (mk_types_nth (r_abbr r) (r_isstd r) (r_isgmt r) (r_types r) O n g isd a Enth) as [M1 [M2 [M3 _]]].
  destruct (set_dstoffs_nth types0 ds n Hds) as [S1 [S2 S3]].
  fold types0 in M1, M2, M3.
  assert (Habbr_ok : abbr_of (r_abbr r) a = data_abbr (r_abbr r) a).
  { pose proof (forallb_nth_error _ _ _ _ _ Habbr Enth) as Ha. cbn beta iota in Ha.
    apply andb_prop in Ha. destruct Ha as [Ha Ha3]. apply andb_prop in Ha. destruct Ha as [Ha1 Ha2].
    apply abbr_of_data; [lia|lia|exact Ha3]. }
  rewrite Hdt in *. unfold nth_tt in *. rewrite Hbi in *. rewrite Nat2Z.id in *.
  exists w, f, g, isd, (data_abbr (r_abbr r) a). repeat split.
  - unfold data_at. rewrite Hdta. reflexivity.
  - exact Hfu.
  - rewrite Hw, S1, M1. reflexivity.
  - rewrite Hoff, S1, M1. reflexivity.
  - rewrite Hname, S3, M3, Habbr_ok. reflexivity.
  - intros Hz0. apply Hdst. rewrite S2, M2. exact Hz0.
Qed.
