(* parse_tzif (render_tzif r ++ rest) = Ok r for every representable raw block r: the byte-level
   decoder inverts the renderer, whatever follows the version-1 block (e.g. a version-2+ block). *)
From Coq Require Import ZArith List Bool Lia ZifyBool.
From V Require Import tzfile.TzModel tzfile.TzSpec tzfile.TzData.
Import ListNotations.
Open Scope Z_scope.
Ltac Zify.zify_post_hook ::= Z.to_euclidean_division_equations.

Lemma be32_enc32 : forall x, in_s32 x = true ->
  let y := x mod 4294967296 in
  be32 (y / 16777216) ((y / 65536) mod 256) ((y / 256) mod 256) (y mod 256) = x.
Proof.
  intros x H y. unfold in_s32 in H. unfold be32, s32.
  assert (Hy : 0 <= y < 4294967296) by (unfold y; lia).
  assert (E : ((y / 16777216 * 256 + (y / 65536) mod 256) * 256 + (y / 256) mod 256) * 256 + y mod 256 = y) by lia.
  rewrite E. unfold y. destruct (x mod 4294967296 <? 2147483648) eqn:C; lia.
Qed.

Lemma s8_enc8 : forall x, in_s8 x = true -> s8 (x mod 256) = x.
Proof. intros x H. unfold in_s8 in H. unfold s8. destruct (x mod 256 <? 128) eqn:C; lia. Qed.

Lemma u8_enc8 : forall x, in_u8 x = true -> x mod 256 = x.
Proof. intros x H. unfold in_u8 in H. lia. Qed.

Lemma unpack_l_render : forall xs rest, forallb in_s32 xs = true ->
  unpack_l (length xs) (flat_map enc32 xs ++ rest) = Ok (xs, rest).
Proof.
  induction xs as [|x xs IH]; intros rest H.
  - reflexivity.
  - cbn [forallb] in H. apply andb_prop in H. destruct H as [Hx Hxs].
    cbn [flat_map length]. unfold enc32 at 1. cbn [app unpack_l].
    rewrite (IH rest Hxs). cbn [bind fst snd]. rewrite be32_enc32 by exact Hx. reflexivity.
Qed.

Lemma unpack_b_render_u : forall xs rest, forallb in_u8 xs = true ->
  unpack_b false (length xs) (flat_map enc8 xs ++ rest) = Ok (xs, rest).
Proof.
  induction xs as [|x xs IH]; intros rest H.
  - reflexivity.
  - cbn [forallb] in H. apply andb_prop in H. destruct H as [Hx Hxs].
    cbn [flat_map length]. unfold enc8 at 1. cbn [app unpack_b].
    rewrite (IH rest Hxs). cbn [bind fst snd]. rewrite u8_enc8 by exact Hx. reflexivity.
Qed.

Lemma unpack_b_render_s : forall xs rest, forallb in_s8 xs = true ->
  unpack_b true (length xs) (flat_map enc8 xs ++ rest) = Ok (xs, rest).
Proof.
  induction xs as [|x xs IH]; intros rest H.
  - reflexivity.
  - cbn [forallb] in H. apply andb_prop in H. destruct H as [Hx Hxs].
    cbn [flat_map length]. unfold enc8 at 1. cbn [app unpack_b].
    rewrite (IH rest Hxs). cbn [bind fst snd]. rewrite s8_enc8 by exact Hx. reflexivity.
Qed.

Lemma unpack_types_render : forall ts rest,
  forallb (fun t => match t with (g, d, a) => in_s32 g && in_s8 d && in_s8 a end) ts = true ->
  unpack_types (length ts) (flat_map enc_type ts ++ rest) = Ok (ts, rest).
Proof.
  induction ts as [|[[g dd] a] ts IH]; intros rest H.
  - reflexivity.
  - cbn [forallb] in H. apply andb_prop in H. destruct H as [Hx Hxs].
    apply andb_prop in Hx. destruct Hx as [Hx Ha]. apply andb_prop in Hx. destruct Hx as [Hg Hd].
    cbn [flat_map length]. unfold enc_type at 1. unfold enc32 at 1. unfold enc8 at 1 2. cbn [app unpack_types].
    rewrite (IH rest Hxs). cbn [bind fst snd].
    rewrite be32_enc32 by exact Hg. rewrite !s8_enc8 by assumption. reflexivity.
Qed.

Lemma firstn_len_app : forall (A : Type) (a b : list A), firstn (length a) (a ++ b) = a.
Proof. induction a as [|x a IH]; intros b; cbn [length firstn app]; [reflexivity|]. rewrite IH. reflexivity. Qed.
Lemma skipn_len_app : forall (A : Type) (a b : list A), skipn (length a) (a ++ b) = b.
Proof. induction a as [|x a IH]; intros b; cbn [length skipn app]; [reflexivity|]. apply IH. Qed.

Lemma to_nat_len : forall (A : Type) (l : list A), Z.to_nat (len l) = length l.
Proof. intros. unfold len. apply Nat2Z.id. Qed.

Lemma ascii_no_high : forall l, forallb in_ascii l = true -> existsb (fun b => 128 <=? b) l = false.
Proof.
  induction l as [|x l IH]; intros H; [reflexivity|].
  cbn [forallb] in H. apply andb_prop in H. destruct H as [Hx Hl]. cbn [existsb]. rewrite (IH Hl).
  unfold in_ascii in Hx. destruct (128 <=? x) eqn:E; [lia|reflexivity].
Qed.

Lemma in_s32_len : forall (A : Type) (l : list A), len l <? 2147483648 = true -> in_s32 (len l) = true.
Proof. intros A l H. unfold in_s32. pose proof (len_nonneg' := Zle_0_nat (length l)). unfold len in *. lia. Qed.

Theorem parse_render_lemma : forall r rest, wf_raw r = true -> parse_tzif (render_tzif r ++ rest) = Ok r.
Proof.
  intros [times idx types abbr leap isstd isgmt] rest H. unfold wf_raw in H.
  cbn [r_times r_idx r_types r_abbr r_leapcnt r_isstd r_isgmt] in H.
  repeat (apply andb_prop in H; let H' := fresh "W" in destruct H as [H H']).
  rename H into Wt.
  (* W: isgmt-len, isstd-len, abbr-len, types-len, times-len, isgmt, isstd, leap<, 0<=leap, abbr, types, idxlen, idx *)
  unfold render_tzif. cbn [r_times r_idx r_types r_abbr r_leapcnt r_isstd r_isgmt].
  set (tail5 := flat_map enc8 isstd ++ flat_map enc8 isgmt).
  set (tail4 := repeat 0 (Z.to_nat (leap * 8)) ++ tail5).
  set (tail3 := abbr ++ tail4).
  set (tail2 := flat_map enc_type types ++ tail3).
  set (tail1 := flat_map enc8 idx ++ tail2).
  set (tail0 := flat_map enc32 times ++ tail1).
  assert (Hhdr : ([84; 90; 105; 102] ++ repeat 0 16 ++ enc32 (len isgmt) ++ enc32 (len isstd) ++ enc32 leap ++
                  enc32 (len times) ++ enc32 (len types) ++ enc32 (len abbr) ++ tail0) ++ rest =
                 84 :: 90 :: 105 :: 102 :: repeat 0 16 ++
                 (flat_map enc32 [len isgmt; len isstd; leap; len times; len types; len abbr] ++ (tail0 ++ rest))).
  { cbn [flat_map]. rewrite app_nil_r. rewrite <- !app_assoc. reflexivity. }
  rewrite Hhdr. clear Hhdr. unfold parse_tzif.
  change ((84 =? 84) && (90 =? 90) && (105 =? 105) && (102 =? 102)) with true. cbv iota. unfold parse_body.
  change (skipn 16 (repeat 0 16 ++ ?x)) with x.
  change 6%nat with (length [len isgmt; len isstd; leap; len times; len types; len abbr]).
  rewrite unpack_l_render.
  2:{ cbn [forallb]. rewrite !in_s32_len by assumption. unfold in_s32. cbn [andb]. lia. }
  cbn [bind fst snd].
  assert (Hneg : forall (A : Type) (l : list A), (len l <? 0) = false) by (intros; unfold len; lia).
  rewrite !Hneg. rewrite !to_nat_len.
  unfold tail0. rewrite <- app_assoc. rewrite unpack_l_render by assumption. cbn [bind fst snd].
  unfold tail1. rewrite <- app_assoc.
  assert (Hil : length idx = length times) by (apply Nat.eqb_eq; assumption).
  rewrite <- Hil. rewrite unpack_b_render_u by assumption. cbn [bind fst snd].
  unfold tail2. rewrite <- app_assoc. rewrite unpack_types_render by assumption. cbn [bind fst snd].
  unfold tail3. rewrite <- app_assoc. rewrite firstn_len_app, skipn_len_app.
  rewrite ascii_no_high by assumption.
  replace (leap <? 0) with false by lia.
  unfold tail4. rewrite <- app_assoc.
  replace (Z.to_nat (leap * 8)) with (length (repeat 0 (Z.to_nat (leap * 8)))) at 1 by apply repeat_length.
  rewrite skipn_len_app.
  unfold tail5. rewrite <- app_assoc. rewrite unpack_b_render_s by assumption. cbn [bind fst snd].
  rewrite unpack_b_render_s by assumption. cbn [bind fst snd]. reflexivity.
Qed.
