(* C06: "tzfile reports the data" = decode o lookup.  For a raw block r decoded by build into d,
   and every instant u from the first to the last transition of the data, the observable answers
   of d at u (wall reading, utcoffset, tzname, dst on standard types) are those of the type the
   raw data assigns to u (data_at, written independently on the raw block). *)
From Coq Require Import ZArith List Bool Lia ZifyBool.
From V Require Import tzfile.TzModel tzfile.TzSpec tzfile.TzData tzfile.TzBisect tzfile.TzIndex
  tzfile.TzZoneThm tzfile.TzWallThm tzfile.TzBridge tzfile.TzFinalThm tzfile.TzDecodeThm.
Import ListNotations.
Open Scope Z_scope.
Ltac Zify.zify_post_hook ::= Z.to_euclidean_division_equations.

(* ------------------------------------------------------------------ lookup half (decoded file) *)
Section Lookup.
Variable d : tzdata.
Hypothesis Hgood : good d = true.
Hypothesis Hwf : wf_zone (zone_of d) = true.
Notation z := (zone_of d).
Notation p := (z_init (zone_of d)).
Notation tr := (z_trans (zone_of d)).
Let Hwff := Hwff d Hwf.

Lemma find_ttinfo_after_fromutc : forall u, tr <> [] ->
  find_ttinfo d (fst (A_fromutc p tr u)) (snd (A_fromutc p tr u)) = Ok (get_ttinfo d (Some (iu tr u))).
Proof.
  intros u Hne. unfold find_ttinfo. rewrite (bridge_resolve_idx d Hgood Hwf) by exact Hne. cbn [bind].
  unfold A_fromutc. cbn [fst snd]. rewrite (ridx_roundtrip p tr Hwff u). reflexivity.
Qed.

Theorem reports_lookup_lemma : forall u, 0 <= iu tr u -> iu tr u + 1 < len tr ->
  exists w f, fromutc d u = Ok (w, f) /\
    let t := nth_tt (d_tt d) (nthZ (d_idx d) (iu tr u)) in
    w = u + tt_off t /\ dt_utcoffset d w f = Ok (tt_off t) /\ tzname d w f = Ok (Some (tt_abbr t)) /\
    (tt_isdst t = 0 -> dst d w f = Ok 0).
Proof.
  intros u H0 H1.
  assert (Hne : tr <> []). { intros E. rewrite E in H1. unfold len in H1. cbn in H1. lia. }
  destruct (good_parts d Hgood) as [L1 [L2 [[s Hs] _]]].
  assert (Hlw : len (d_wall d) = len tr). { rewrite (len_tr d). unfold len. lia. }
  assert (Hget : get_ttinfo d (Some (iu tr u)) = Some (nth_tt (d_tt d) (nthZ (d_idx d) (iu tr u)))).
  { unfold get_ttinfo. rewrite Hlw. destruct (iu tr u + 1 >=? len tr) eqn:E1; [lia|].
    destruct (iu tr u <? 0) eqn:E2; [lia|]. reflexivity. }
  destruct (tzfile_roundtrip_lemma d Hgood Hwf u) as [w [f [Hfu [Hoff [_ [Hw _]]]]]].
  exists w, f. split; [exact Hfu|].
  assert (Hpair : A_fromutc p tr u = (w, f)).
  { rewrite (bridge_fromutc d Hgood Hwf) in Hfu. congruence. }
  pose proof (find_ttinfo_after_fromutc u Hne) as Hft. rewrite Hpair in Hft. cbn [fst snd] in Hft. rewrite Hget in Hft.
  assert (Hoffv : off z u = tt_off (nth_tt (d_tt d) (nthZ (d_idx d) (iu tr u)))).
  { assert (E : off z u = goffz p tr (iu tr u)) by (apply off_index; apply (Hsu p tr Hwff)).
    rewrite E. rewrite <- (goff_idx d Hgood _ Hne). unfold goff. rewrite Hget. reflexivity. }
  cbv zeta. repeat split.
  - unfold local in Hw. rewrite Hoffv in Hw. exact Hw.
  - rewrite Hoff. f_equal. exact Hoffv.
  - unfold tzname. rewrite Hs. rewrite Hft. reflexivity.
  - intros Hstd. unfold dst. destruct (d_dst d); [|reflexivity]. rewrite Hft. cbn [bind]. rewrite Hstd. reflexivity.
Qed.

End Lookup.

(* ------------------------------------------------------------------ decode half (raw block) *)
Lemma last_map_snd : forall (l : list (Z * Z)) dflt q, l <> [] -> last (map snd l) dflt = snd (last l q).
Proof.
  induction l as [|a l IH]; intros dflt q H; [contradiction|].
  destruct l as [|b l']; [reflexivity|].
  change (last (map snd (a :: b :: l')) dflt) with (last (map snd (b :: l')) dflt).
  change (last (a :: b :: l') q) with (last (b :: l') q). apply IH. discriminate.
Qed.

Lemma last_nthZ : forall l : list Z, l <> [] -> last l 0 = nthZ l (len l - 1).
Proof.
  induction l as [|a l IH]; intros H; [contradiction|].
  destruct l as [|b l']; [reflexivity|].
  change (last (a :: b :: l') 0) with (last (b :: l') 0). rewrite IH by discriminate.
  rewrite (len_cons _ a). rewrite (nthZ_cons_pos a (b :: l')). f_equal. lia.
  rewrite len_cons. pose proof (len_nonneg _ l'). lia.
Qed.

(* abbr[a : abbr.find(NUL, a)] is the NUL-terminated string at a *)
Lemma find_until : forall l pos, existsb (fun x => x =? 0) l = true ->
  exists k, find_from l 0 pos = pos + k /\ 0 <= k < len l /\ firstn (Z.to_nat k) l = until_nul l.
Proof.
  induction l as [|x l IH]; intros pos H; [discriminate|].
  cbn [existsb] in H. cbn [find_from until_nul]. destruct (x =? 0) eqn:E.
  - exists 0. rewrite len_cons. pose proof (len_nonneg _ l). repeat split; lia.
  - cbn [orb] in H. destruct (IH (pos + 1) H) as [k [H1 [H2 H3]]]. exists (k + 1).
    rewrite len_cons. repeat split; try lia.
    replace (Z.to_nat (k + 1)) with (S (Z.to_nat k)) by lia. cbn [firstn]. rewrite H3. reflexivity.
Qed.

Lemma abbr_of_data : forall abbr a, 0 <= a -> a < len abbr ->
  existsb (fun x => x =? 0) (skipn (Z.to_nat a) abbr) = true -> abbr_of abbr a = data_abbr abbr a.
Proof.
  intros abbr a H0 H1 He. unfold abbr_of, data_abbr, py_find, py_slice.
  assert (Hn : py_norm (len abbr) a = a). { unfold py_norm. destruct (a <? 0) eqn:E; lia. }
  rewrite Hn. destruct (find_until (skipn (Z.to_nat a) abbr) a He) as [k [Hk [Hr Hf]]]. rewrite Hk.
  assert (Hls : len (skipn (Z.to_nat a) abbr) = len abbr - a). { unfold len. rewrite skipn_length. unfold len in H1. lia. }
  assert (Hn2 : py_norm (len abbr) (a + k) = a + k). { unfold py_norm. destruct (a + k <? 0) eqn:E; lia. }
  rewrite Hn2. replace (a + k - a) with k by lia. exact Hf.
Qed.

Lemma in_range_index : forall ts u, sortedb ts = true -> ts <> [] ->
  nthZ ts 0 <= u -> u < last ts 0 -> 1 <= count_le ts u /\ count_le ts u <= len ts - 1.
Proof.
  intros ts u Hs Hne H0 H1. pose proof (count_le_range ts u) as Hr. rewrite last_nthZ in H1 by exact Hne.
  split.
  - destruct (Z_lt_le_dec (count_le ts u) 1); [|lia].
    assert (u < nthZ ts 0). { apply count_le_above. exact Hs. destruct ts; [contradiction|]. rewrite len_cons. pose proof (len_nonneg _ ts). lia. }
    lia.
  - destruct (Z_lt_le_dec (len ts - 1) (count_le ts u)); [|lia].
    assert (nthZ ts (len ts - 1) <= u). { apply count_le_below. destruct ts; [contradiction|]. rewrite len_cons in *. pose proof (len_nonneg _ ts). lia. }
    lia.
Qed.

Lemma forallb_nth_error : forall (A : Type) (P : A -> bool) l n t,
  forallb P l = true -> nth_error l n = Some t -> P t = true.
Proof.
  induction l as [|x l IH]; intros n t F Hn; destruct n; try discriminate; cbn [forallb] in F;
    apply andb_prop in F; destruct F as [F1 F2].
  - cbn in Hn. inversion Hn; subst. exact F1.
  - apply (IH n t F2 Hn).
Qed.

Theorem reports_data_lemma : forall r d u, build r = Ok d -> wf_data r = true ->
  wf_zone (zone_of d) = true -> in_data_range r u = true ->
  exists w f g isd ab, data_at r u = Some (g, isd, ab) /\ fromutc d u = Ok (w, f) /\ w = u + g /\
    dt_utcoffset d w f = Ok g /\ tzname d w f = Ok (Some ab) /\ (isd = 0 -> dst d w f = Ok 0).
Proof.
  intros r d u Hb Hwd Hwf Hin.
  unfold wf_data in Hwd. apply andb_prop in Hwd. destruct Hwd as [Hwd Habbr].
  apply andb_prop in Hwd. destruct Hwd as [Hwd Hidx]. apply andb_prop in Hwd. destruct Hwd as [Hraw Hnty].
  assert (Hlen : length (r_idx r) = length (r_times r)).
  { unfold wf_raw in Hraw. repeat (apply andb_prop in Hraw; destruct Hraw as [Hraw ?]).
    match goal with H : (length (r_idx r) =? length (r_times r))%nat = true |- _ => apply Nat.eqb_eq in H; exact H end. }
  assert (Hty : r_types r <> []). { intros E. rewrite E in Hnty. discriminate. }
  assert (Hti : r_times r <> []). { intros E. unfold in_data_range in Hin. rewrite E in Hin. discriminate. }
  pose proof (build_good_lemma r d Hb Hty Hlen) as Hgood.
  destruct (build_shape r d Hb Hty Hti) as [s [b [ds [dstt [Hd [Hds Hf]]]]]].
  set (types0 := mk_types (r_abbr r) (r_isstd r) (r_isgmt r) O (r_types r)) in *.
  assert (Hutc : d_utc d = r_times r) by (rewrite Hd; reflexivity).
  assert (Hdi : d_idx d = r_idx r) by (rewrite Hd; reflexivity).
  assert (Hdt : d_tt d = set_dstoffs types0 ds) by (rewrite Hd; reflexivity).
  assert (Hfst : map fst (z_trans (zone_of d)) = r_times r) by (rewrite (tr_fst d); exact Hutc).
  assert (Hsorted : sortedb (r_times r) = true).
  { rewrite <- Hfst. apply (Hsu _ _ (Hwff d Hwf)). }
  (* the index of u *)
  unfold in_data_range in Hin. destruct (r_times r) as [|t0 ts] eqn:Ets; [contradiction|]. rewrite <- Ets in *.
  apply andb_prop in Hin. destruct Hin as [Hlo Hhi].
  assert (Ht0 : nthZ (r_times r) 0 = t0) by (rewrite Ets; reflexivity).
  destruct (in_range_index (r_times r) u Hsorted Hti ltac:(lia) ltac:(lia)) as [Hc1 Hc2].
  set (i := iu (z_trans (zone_of d)) u).
  assert (Hi : i = count_le (r_times r) u - 1) by (unfold i, iu; rewrite Hfst; reflexivity).
  assert (Hlt : len (z_trans (zone_of d)) = len (r_times r)) by (rewrite (len_tr d), Hutc; reflexivity).
  destruct (reports_lookup_lemma d Hgood Hwf u ltac:(fold i; lia) ltac:(fold i; lia)) as [w [f [Hfu Hrest]]].
  fold i in Hrest. cbv zeta in Hrest. destruct Hrest as [Hw [Hoff [Hname Hdst]]].
  rewrite Hdi, Hdt in *.
  (* the raw type at u *)
  set (k := nthZ (r_idx r) i) in *.
  assert (Hk : 0 <= k < len (r_types r)).
  { assert (Hall : forall l j, forallb (fun k => k <? len (r_types r)) l = true -> forallb in_u8 l = true ->
                   0 <= j < len l -> 0 <= nthZ l j < len (r_types r)).
    { induction l as [|x l IH]; intros j F1 F2 Hj.
      - unfold len in Hj. cbn in Hj. lia.
      - cbn [forallb] in F1, F2. apply andb_prop in F1. apply andb_prop in F2. destruct F1 as [F1 F1']. destruct F2 as [F2 F2'].
        destruct (Z.eq_dec j 0) as [->|Hne]. { rewrite nthZ_cons_0. unfold in_u8 in F2. lia. }
        rewrite nthZ_cons_pos by lia. apply IH; try assumption. rewrite len_cons in Hj. lia. }
    apply Hall. exact Hidx.
    { unfold wf_raw in Hraw. repeat (apply andb_prop in Hraw; destruct Hraw as [Hraw ?]).
      match goal with H : forallb in_u8 (r_idx r) = true |- _ => exact H end. }
    unfold len in *. lia. }
  destruct (nth_error (r_types r) (Z.to_nat k)) as [[[g isd] a]|] eqn:Enth.
  2:{ apply nth_error_None in Enth. unfold len in Hk. lia. }
  destruct (mk_types_nth (r_abbr r) (r_isstd r) (r_isgmt r) (r_types r) O (Z.to_nat k) g isd a Enth) as [M1 [M2 [M3 _]]].
  destruct (set_dstoffs_nth types0 ds (Z.to_nat k) Hds) as [S1 [S2 S3]].
  fold types0 in M1, M2, M3.
  assert (Habbr_ok : abbr_of (r_abbr r) a = data_abbr (r_abbr r) a).
  { pose proof (forallb_nth_error _ _ _ _ _ Habbr Enth) as Ha. cbn beta iota in Ha.
    apply andb_prop in Ha. destruct Ha as [Ha Ha3]. apply andb_prop in Ha. destruct Ha as [Ha1 Ha2].
    apply abbr_of_data; [lia|lia|exact Ha3]. }
  exists w, f, g, isd, (data_abbr (r_abbr r) a).
  assert (Hdata : data_at r u = Some (g, isd, data_abbr (r_abbr r) a)).
  { unfold data_at, data_type_at.
    set (fl := filter (fun q : Z * Z => fst q <=? u) (combine (r_times r) (r_idx r))).
    (* through off_index on the auxiliary zone (0, combine times idx) *)
    assert (Hz : sortedb (map fst (combine (r_times r) (r_idx r))) = true).
    { rewrite map_fst_combine by lia. exact Hsorted. }
    pose proof (off_index (combine (r_times r) (r_idx r)) 0 u Hz) as Ho.
    unfold off in Ho. cbn [z_trans z_init] in Ho. fold fl in Ho.
    unfold iu in Ho. rewrite map_fst_combine in Ho by lia. rewrite <- Hi in Ho.
    assert (Hlc : len (combine (r_times r) (r_idx r)) = len (r_times r)).
    { unfold len. rewrite combine_length. lia. }
    rewrite goffz_in in Ho by lia. unfold On in Ho. destruct (i <? 0) eqn:E; [lia|].
    rewrite map_snd_combine in Ho by lia. fold k in Ho.
    assert (Hfl : fl <> []).
    { unfold fl. rewrite Ets. destruct (r_idx r) as [|k0 ks] eqn:Eidx; [cbn in Hlen; rewrite Ets in Hlen; discriminate|].
      cbn [combine filter fst]. destruct (t0 <=? u) eqn:E0; [discriminate|lia]. }
    rewrite (last_map_snd fl 0 (0, 0) Hfl) in Ho.
    destruct fl as [|q fl'] eqn:Efl; [contradiction|]. rewrite <- Efl in *. rewrite Ho. rewrite Enth. reflexivity. }
  unfold nth_tt in *. fold k in Hw, Hoff, Hname, Hdst.
  repeat split.
  - exact Hdata.
  - exact Hfu.
  - rewrite Hw. rewrite S1, M1. reflexivity.
  - rewrite Hoff. rewrite S1, M1. reflexivity.
  - rewrite Hname. rewrite S3, M3, Habbr_ok. reflexivity.
  - intros Hz0. apply Hdst. rewrite S2, M2. exact Hz0.
Qed.
