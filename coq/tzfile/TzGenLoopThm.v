(* Round 4: the __eq__ layer and the derivation loops of tzfile._read_tzfile, REGENERATED from the
   source (coq/gen/TzGen.v), equal the hand model (zone_eqb; scan_sd, dst_pass, wall_pass = the
   functions TzModel.build calls). *)
From Coq Require Import ZArith List Bool Lia ZifyBool.
From V Require Import tzfile.TzModel tzfile.TzSpec tzfile.TzData tzfile.TzBisect tzfile.TzBridge tzfile.TzDecodeThm
  tzfile.TzBeforeThm tzfile.TzEqThm tzfile.TzGenLib.
From V Require Import gen.TzGen.
Import ListNotations.
Open Scope Z_scope.
Ltac Zify.zify_post_hook ::= Z.to_euclidean_division_equations.

(* ------------------------------------------------------------------ __eq__ *)
Theorem gen_ttinfo_eq_lemma : forall a b, gen_ttinfo_eq a b = tt_eqb a b.
Proof.
  intros a b. unfold gen_ttinfo_eq, tt_eqb, py_str_eqb.
  destruct (tt_off a =? tt_off b); cbn [andb]; [|reflexivity]. reflexivity.
Qed.

Lemma list_eqb_ext : forall (A : Type) (f g : A -> A -> bool), (forall a b, f a b = g a b) ->
  forall l1 l2, list_eqb f l1 l2 = list_eqb g l1 l2.
Proof.
  intros A f g H. induction l1 as [|a l1 IH]; intros [|b l2]; cbn [list_eqb]; try reflexivity.
  rewrite H, IH. reflexivity.
Qed.

Theorem gen_tzfile_eq_lemma : forall d1 d2, gen_tzfile_eq d1 d2 = zone_eqb d1 d2.
Proof.
  intros d1 d2. unfold gen_tzfile_eq, zone_eqb, py_trans_idx_objects.
  rewrite !(list_eqb_ext ttinfo gen_ttinfo_eq tt_eqb gen_ttinfo_eq_lemma). reflexivity.
Qed.

Theorem gen_tzfile_ne_lemma : forall d1 d2, gen_tzfile_ne d1 d2 = negb (zone_eqb d1 d2).
Proof. intros. unfold gen_tzfile_ne. rewrite gen_tzfile_eq_lemma. reflexivity. Qed.

(* ------------------------------------------------------------------ (a) the scan for ttinfo_std / ttinfo_dst *)
Lemma py_getitem_in : forall l i, 0 <= i < len l -> py_getitem l i = Ok (nthZ l i).
Proof.
  intros l i H. unfold py_getitem. destruct (i <? 0) eqn:E; [lia|].
  destruct ((0 <=? i) && (i <? len l)) eqn:E2; [reflexivity|lia].
Qed.

Lemma scan_loop : forall types idx L std dst, (forall i, In i L -> 0 <= i < len idx) ->
  is_none std || is_none dst = true ->
  py_for (gen_scan_step types idx) (fun st => snd st) L (std, dst, false) =
  Ok (let sd := scan_sd types (map (nthZ idx) L) std dst in
      (fst sd, snd sd, negb (is_none (fst sd)) && negb (is_none (snd sd)))).
Proof.
  induction L as [|i L IH]; intros std dst Hin Hn.
  - cbn [py_for map scan_sd fst snd]. destruct std, dst; cbn in Hn |- *; try reflexivity; discriminate.
  - cbn [py_for snd]. unfold gen_scan_step at 1. rewrite py_getitem_in by (apply Hin; left; reflexivity).
    cbn [bind map scan_sd]. unfold py_truthy_Z.
    set (k := nthZ idx i).
    assert (Hrest : forall i0, In i0 L -> 0 <= i0 < len idx) by (intros; apply Hin; right; assumption).
    destruct (tt_isdst (nth_tt types k) =? 0) eqn:E; cbn [negb]; destruct std as [s|], dst as [dd|];
      cbn [py_some is_none negb andb orb bind fst snd] in *; try discriminate.
    + (* std set, dst not: nothing changes *) rewrite (IH (Some s) None Hrest eq_refl). reflexivity.
    + (* std unset, dst set, non-dst type: std := k, both set -> break *)
      destruct L; reflexivity.
    + rewrite (IH (Some k) None Hrest eq_refl). reflexivity.
    + (* std set, dst unset, dst type: dst := k -> break *)
      destruct L; reflexivity.
    + rewrite (IH None (Some dd) Hrest eq_refl). reflexivity.
    + rewrite (IH None (Some k) Hrest eq_refl). reflexivity.
Qed.

Lemma map_nthZ_seqZ : forall l, map (nthZ l) (seqZ 0 (length l)) = l.
Proof.
  intros l. assert (H : forall l pre, map (nthZ (pre ++ l)) (seqZ (len pre) (length l)) = l).
  { induction l0 as [|a l0 IH]; intros pre; [reflexivity|]. cbn [length seqZ map]. f_equal.
    - unfold nthZ, len. rewrite Nat2Z.id. rewrite nth_middle. reflexivity.
    - specialize (IH (pre ++ [a])). rewrite <- app_assoc in IH. cbn [app] in IH.
      replace (len (pre ++ [a])) with (len pre + 1) in IH by (unfold len; rewrite app_length; cbn; lia). exact IH. }
  exact (H l []).
Qed.

Theorem gen_scan_lemma : forall types idx,
  gen_scan types idx (len idx) =
  Ok (let sd := scan_sd types (rev idx) None None in
      (match fst sd with None => snd sd | Some k => Some k end, snd sd)).
Proof.
  intros types idx. unfold gen_scan, py_range_down. unfold len at 1. rewrite Nat2Z.id.
  rewrite scan_loop; [|intros i Hi|reflexivity].
  - cbn [bind]. rewrite map_rev, map_nthZ_seqZ.
    destruct (scan_sd types (rev idx) None None) as [[s|] [dd|]]; reflexivity.
  - apply in_rev in Hi. assert (Hs : forall n s i0, In i0 (seqZ s n) -> s <= i0 < s + Z.of_nat n).
    { induction n as [|n IHn]; intros s i0 H0; cbn [seqZ] in H0; [destruct H0|]. destruct H0 as [->|H0]; [lia|].
      apply IHn in H0. lia. }
    apply Hs in Hi. unfold len. lia.
Qed.

(* ------------------------------------------------------------------ (b) + (c) dstoffset derivation and wall-clock transition list *)
Lemma py_getitem_middle : forall pre x rest, py_getitem (pre ++ x :: rest) (len pre) = Ok x.
Proof.
  intros. rewrite py_getitem_in.
  - unfold nthZ, len. rewrite Nat2Z.id. rewrite nth_middle. reflexivity.
  - unfold len. rewrite app_length. cbn [length]. lia.
Qed.

(* one iteration of the hand model's dst_pass: new lastdstoffset and new table *)
Definition dstep (types : list ttinfo) (ld : option Z) (lastoff lastdstoff : Z) (acc : list Z) (k : Z) : Z * list Z :=
  let tti := nth_tt types k in
  match ld with
  | None => (lastdstoff, acc)
  | Some l =>
    if negb (tt_isdst tti =? 0) then
      let d1 := if l =? 0 then tt_off tti - lastoff else 0 in
      let d2 := if (d1 =? 0) && negb (lastdstoff =? 0) then lastdstoff else d1 in
      (d2, upd acc (Z.to_nat k) d2)
    else (lastdstoff, acc)
  end.

Lemma dst_pass_cons : forall types k r ld lo ldo acc,
  dst_pass types (k :: r) ld lo ldo acc =
  dst_pass types r (Some (tt_isdst (nth_tt types k))) (tt_off (nth_tt types k))
           (fst (dstep types ld lo ldo acc k)) (snd (dstep types ld lo ldo acc k)).
Proof.
  intros. cbn [dst_pass]. unfold dstep. destruct ld as [l|]; [|reflexivity].
  destruct (negb (tt_isdst (nth_tt types k) =? 0)); reflexivity.
Qed.

Lemma truthy_OZ_get : forall o, py_truthy_OZ o = negb (py_oz_get o =? 0).
Proof. intros [x|]; reflexivity. Qed.

Lemma wall_step_eq : forall types utc timecnt kb ks ld lo ldo tl heap i k t,
  (ld = None <-> lo = None) -> py_getitem utc i = Ok t ->
  exists ldo',
    gen_wall_step types utc timecnt (Some kb) (Some ks) (ld, lo, ldo, tl, heap) i k =
    Ok (Some (tt_isdst (nth_tt types k)), Some (tt_off (nth_tt types k)), ldo',
        tl ++ [t + (if i =? timecnt - 1
                    then Z.min (match lo with Some x => x | None => tt_off (nth_tt types kb) end) (tt_off (nth_tt types ks))
                    else Z.min (match lo with Some x => x | None => tt_off (nth_tt types kb) end) (tt_off (nth_tt types k)))],
        snd (dstep types ld (py_oz_get lo) (py_oz_get ldo) heap k)) /\
    py_oz_get ldo' = fst (dstep types ld (py_oz_get lo) (py_oz_get ldo) heap k).
Proof.
  intros types utc timecnt kb ks ld lo ldo tl heap i k t Hinv Hget.
  unfold gen_wall_step, dstep. rewrite Hget. unfold py_truthy_Z. rewrite truthy_OZ_get.
  destruct ld as [l|]; destruct lo as [lov|];
    try (exfalso; destruct Hinv as [H1 H2]; (discriminate (H1 eq_refl) || discriminate (H2 eq_refl))).
  - cbn [py_some py_oz_get py_unwrap py_ref_offset bind].
    destruct (tt_isdst (nth_tt types k) =? 0) eqn:E1; cbn [negb bind].
    + exists ldo. destruct (i =? timecnt - 1); cbn [bind]; split; reflexivity.
    + destruct (l =? 0) eqn:E2; cbn [negb bind].
      * destruct ((tt_off (nth_tt types k) - lov =? 0)) eqn:E3; cbn [negb andb bind];
          destruct (py_oz_get ldo =? 0) eqn:E4; cbn [negb andb bind];
          eexists; destruct (i =? timecnt - 1); cbn [bind]; split; reflexivity.
      * destruct (py_oz_get ldo =? 0) eqn:E4; cbn [Z.eqb negb andb bind];
          eexists; destruct (i =? timecnt - 1); cbn [bind]; split; reflexivity.
  - cbn [py_some py_oz_get py_unwrap py_ref_offset bind negb].
    exists ldo. destruct (i =? timecnt - 1); cbn [bind]; split; reflexivity.
Qed.

Lemma wall_loop : forall types timecnt kb ks idx_s ts_s pre ld lo ldo tl heap,
  length ts_s = length idx_s -> len pre + len idx_s = timecnt -> (ld = None <-> lo = None) ->
  exists a b c,
    py_for_enumerate (gen_wall_step types (pre ++ ts_s) timecnt (Some kb) (Some ks)) idx_s (len pre) (ld, lo, ldo, tl, heap) =
    Ok (a, b, c,
        tl ++ wall_pass types (tt_off (nth_tt types ks)) ts_s idx_s
                        (match lo with Some x => x | None => tt_off (nth_tt types kb) end),
        dst_pass types idx_s ld (py_oz_get lo) (py_oz_get ldo) heap).
Proof.
  induction idx_s as [|k r IH]; intros ts_s pre ld lo ldo tl heap Hl Ht Hinv.
  - destruct ts_s; [|discriminate]. cbn [py_for_enumerate wall_pass dst_pass]. rewrite app_nil_r.
    exists ld, lo, ldo. reflexivity.
  - destruct ts_s as [|t ts']; [discriminate|]. cbn [length] in Hl.
    cbn [py_for_enumerate].
    destruct (wall_step_eq types (pre ++ t :: ts') timecnt kb ks ld lo ldo tl heap (len pre) k t Hinv
                           (py_getitem_middle pre t ts')) as [ldo' [Hstep Hldo]].
    rewrite Hstep. cbn [bind].
    assert (Happ : pre ++ t :: ts' = (pre ++ [t]) ++ ts') by (rewrite <- app_assoc; reflexivity).
    assert (Hlen : len pre + 1 = len (pre ++ [t])) by (unfold len; rewrite app_length; cbn [length]; lia).
    rewrite Happ, Hlen.
    rewrite len_cons in Ht.
    destruct (IH ts' (pre ++ [t]) (Some (tt_isdst (nth_tt types k))) (Some (tt_off (nth_tt types k))) ldo'
                 (tl ++ [t + (if len pre =? timecnt - 1
                    then Z.min (match lo with Some x => x | None => tt_off (nth_tt types kb) end) (tt_off (nth_tt types ks))
                    else Z.min (match lo with Some x => x | None => tt_off (nth_tt types kb) end) (tt_off (nth_tt types k)))])
                 (snd (dstep types ld (py_oz_get lo) (py_oz_get ldo) heap k)))
      as [a [b [c Hrec]]]; [lia|lia|split; discriminate|].
    exists a, b, c. rewrite Hrec. f_equal. f_equal.
    + rewrite <- app_assoc. cbn [app wall_pass]. f_equal. f_equal.
      destruct r as [|k' r'].
      * change (len (@nil Z)) with 0 in Ht. destruct (len pre =? timecnt - 1) eqn:E; [reflexivity|lia].
      * rewrite len_cons in Ht. pose proof (len_nonneg _ r'). destruct (len pre =? timecnt - 1) eqn:E; [lia|reflexivity].
    + rewrite dst_pass_cons. cbn [py_oz_get]. rewrite Hldo. reflexivity.
Qed.

Theorem gen_wall_loop_lemma : forall types utc idx kb ks heap0, length utc = length idx ->
  exists a b c,
    gen_wall_loop types utc idx (len idx) (Some kb) (Some ks) heap0 =
    Ok (a, b, c, wall_pass types (tt_off (nth_tt types ks)) utc idx (tt_off (nth_tt types kb)),
        dst_pass types idx None 0 0 heap0).
Proof.
  intros types utc idx kb ks heap0 Hl. unfold gen_wall_loop.
  destruct (wall_loop types (len idx) kb ks idx utc [] None None None [] heap0 Hl) as [a [b [c H]]].
  - unfold len. cbn [length]. lia.
  - split; reflexivity.
  - exists a, b, c. cbn [app len length] in H. exact H.
Qed.

(* ------------------------------------------------------------------ build uses exactly the regenerated loops *)
Theorem build_uses_gen_lemma : forall r d, build r = Ok d -> r_types r <> [] -> r_times r <> [] ->
  length (r_idx r) = length (r_times r) ->
  let types0 := mk_types (r_abbr r) (r_isstd r) (r_isgmt r) O (r_types r) in
  exists ks kdo a b c ds,
    gen_scan types0 (r_idx r) (len (r_idx r)) = Ok (Some ks, kdo) /\
    gen_wall_loop types0 (r_times r) (r_idx r) (len (r_idx r)) (Some (gen_ttinfo_before_index types0)) (Some ks)
                  (map (fun _ => 0) types0) = Ok (a, b, c, d_wall d, ds) /\
    d_utc d = r_times r /\ d_idx d = r_idx r /\ d_tt d = set_dstoffs types0 ds /\
    d_std d = Some (nth_tt (d_tt d) ks) /\ d_dst d = opt_tt (d_tt d) kdo /\
    d_before d = Some (nth_tt (d_tt d) (gen_ttinfo_before_index types0)).
Proof.
  intros r d H Hty Hti Hlen types0. pose proof (build_before r d H Hty Hti) as Hbef. fold types0 in Hbef.
  unfold build in H. fold types0 in H.
  destruct (forallb (fun k => k <? len types0) (r_idx r)) eqn:Ef; cbn [negb] in H; [|discriminate].
  destruct types0 as [|t0 tl] eqn:Et.
  - exfalso. apply Hty. pose proof (mk_types_length (r_abbr r) (r_isstd r) (r_isgmt r) (r_types r) O) as Hl.
    fold types0 in Hl. rewrite Et in Hl. destruct (r_types r); [reflexivity|discriminate].
  - rewrite <- Et in *. destruct (r_times r) as [|t1 ts] eqn:Ets; [contradiction|]. rewrite <- Ets in *.
    set (ds := dst_pass types0 (r_idx r) None 0 0 (map (fun _ => 0) types0)) in *.
    assert (Hds : length ds = length types0) by (unfold ds; rewrite dst_pass_length; apply map_length).
    set (sd := scan_sd types0 (rev (r_idx r)) None None) in *.
    destruct (opt_tt (set_dstoffs types0 ds) (match fst sd with None => snd sd | Some k => Some k end)) as [s|] eqn:Es; [|discriminate].
    destruct (opt_tt (set_dstoffs types0 ds) (match first_std types0 0 with Some k => Some k | None => Some 0 end)) as [b|] eqn:Eb; [|discriminate].
    destruct (match fst sd with None => snd sd | Some k => Some k end) as [ks|] eqn:Eks; [|discriminate].
    cbn [opt_tt] in Es. inversion Es; subst s. clear Es.
    assert (Hb : b = nth_tt (set_dstoffs types0 ds) (gen_ttinfo_before_index types0)).
    { unfold gen_ttinfo_before_index. destruct (first_std types0 0); cbn [opt_tt] in Eb; inversion Eb; reflexivity. }
    assert (Hoff : forall k, tt_off (nth_tt (set_dstoffs types0 ds) k) = tt_off (nth_tt types0 k)).
    { intros k. unfold nth_tt. destruct (set_dstoffs_nth types0 ds (Z.to_nat k) Hds) as [E _]. exact E. }
    destruct (gen_wall_loop_lemma types0 (r_times r) (r_idx r) (gen_ttinfo_before_index types0) ks (map (fun _ => 0) types0)
                                  (eq_sym Hlen)) as [a [b' [c Hw]]].
    inversion H; subst d. cbn [d_wall d_utc d_idx d_tt d_std d_dst d_before].
    exists ks, (snd sd), a, b', c, ds. repeat split.
    + rewrite gen_scan_lemma. fold sd. cbv zeta. rewrite Eks. reflexivity.
    + rewrite Hw. rewrite Hb, !Hoff. reflexivity.
    + rewrite Hb. reflexivity.
Qed.

(* tzfile.__eq__ as regenerated decides the behaviour of decoded zones (C06_eq_zones_behave_same with
   the regenerated comparison) *)
Theorem gen_eq_behave_same_lemma : forall r1 r2 d1 d2, build r1 = Ok d1 -> build r2 = Ok d2 ->
  r_types r1 <> [] -> r_types r2 <> [] ->
  length (r_idx r1) = length (r_times r1) -> length (r_idx r2) = length (r_times r2) ->
  gen_tzfile_eq d1 d2 = true ->
  forall x f, fromutc d1 x = fromutc d2 x /\ utcoffset d1 x f = utcoffset d2 x f /\ dst d1 x f = dst d2 x f /\
    tzname d1 x f = tzname d2 x f /\ datetime_exists d1 x f = datetime_exists d2 x f /\
    datetime_ambiguous d1 x = datetime_ambiguous d2 x /\ resolve_imaginary d1 x f = resolve_imaginary d2 x f.
Proof.
  intros r1 r2 d1 d2 B1 B2 T1 T2 L1 L2 H. rewrite gen_tzfile_eq_lemma in H.
  exact (eq_zones_behave_same_lemma r1 r2 d1 d2 B1 B2 T1 T2 L1 L2 H).
Qed.
