(* C05 on the abstract zone: pre-images of a wall time, existence, ambiguity, fold. *)
From Coq Require Import ZArith List Bool Lia ZifyBool.
From V Require Import tzfile.TzModel tzfile.TzSpec tzfile.TzData tzfile.TzBisect tzfile.TzIndex
  tzfile.TzZoneThm.
Import ListNotations.
Open Scope Z_scope.
Ltac Zify.zify_post_hook ::= Z.to_euclidean_division_equations.

(* ------------------------------------------------------------------ preimages = { u | local u = w } (any zone) *)
Lemma last_in : forall (l : list Z) d, In (last l d) (d :: l).
Proof.
  induction l as [|a r IH]; intros d.
  - left. reflexivity.
  - rewrite last_cons_default. right. apply IH.
Qed.

Lemma off_in_offsets : forall z u, In (off z u) (offsets z).
Proof.
  intros z u. unfold offsets. apply nodup_In. unfold off.
  destruct (last_in (map snd (filter (fun q => fst q <=? u) (z_trans z))) (z_init z)) as [H|H].
  - left. exact H.
  - right. apply in_map_iff in H. destruct H as [q [Hq Hin]]. apply filter_In in Hin.
    apply in_map_iff. exists q. tauto.
Qed.

Lemma pre_in : forall z w u, In u (preimages z w) <-> local z u = w.
Proof.
  intros z w u. unfold preimages. rewrite filter_In. split.
  - intros [_ H]. apply Z.eqb_eq. exact H.
  - intros H. split; [|apply Z.eqb_eq; exact H].
    apply in_map_iff. exists (off z u). split; [unfold local in H; lia|apply off_in_offsets].
Qed.

Lemma NoDup_map_sub : forall w l, NoDup l -> NoDup (map (fun o => w - o) l).
Proof.
  intros w l H. induction H as [|a l Hn Hd IH]; cbn [map]; constructor.
  - intros Hin. apply in_map_iff in Hin. destruct Hin as [b [Hb Hin]].
    assert (b = a) by lia. subst. contradiction.
  - exact IH.
Qed.

Lemma pre_nodup : forall z w, NoDup (preimages z w).
Proof.
  intros. unfold preimages. apply NoDup_filter. apply NoDup_map_sub. unfold offsets. apply NoDup_nodup.
Qed.

Section AZ2.
Variable p : Z.
Variable tr : list (Z * Z).
Hypothesis Hwf : wf_from p tr = true.
Notation n := (len tr).
Notation T := (Tn tr).
Notation O := (On p tr).
Notation W := (Wn p tr).
Notation G := (goffz p tr).
Notation z := (mkZone p tr).
Let Hsu := Hsu p tr Hwf.
Let Hsw := Hsw p tr Hwf.

(* where the wall reading of an instant falls in the wall-transition list *)
Lemma wall_index_cases : forall u, let i := iu tr u in let w := u + O i in
  (i + 1 < n /\ iw p tr w = i + 1 /\ A_amb p tr w (i + 1) = true /\ A_amb p tr w i = false /\
   O (i + 1) < O i /\ T (i + 1) + O (i + 1) <= w) \/
  (iw p tr w = i /\ (i + 1 < n -> w < W (i + 1))).
Proof.
  intros u i w. destruct (iu_bounds tr u Hsu) as [Hb [Hlo Hhi]]. fold i in Hb, Hlo, Hhi.
  assert (HWi : 0 <= i -> W i <= w).
  { intros. rewrite (WLs p tr i (i - 1)) by lia. unfold w. lia. }
  assert (Hcase : (i + 1 < n /\ W (i + 1) <= w) \/ (i + 1 < n -> w < W (i + 1))) by lia.
  destruct Hcase as [[Hin Hge]|Hlt]; [left|right].
  - specialize (Hhi Hin).
    assert (WL1 : W (i + 1) = T (i + 1) + Z.min (O i) (O (i + 1))) by (apply WLs; lia).
    assert (Hiw : iw p tr w = i + 1).
    { apply iw_unique; try lia. exact Hsw. intros Hn2.
      replace (i + 1 + 1) with (i + 2) in * by lia.
      rewrite (WLs p tr (i + 2) (i + 1)) by lia.
      pose proof (WFs p tr Hwf (i + 1) i (i + 2) ltac:(lia) ltac:(lia) ltac:(lia) ltac:(lia)).
      unfold w. lia. }
    repeat split; try lia; try (unfold w in *; lia).
    + unfold A_amb. destruct (i + 1 <? 0) eqn:E; [lia|]. replace (i + 1 - 1) with i by lia.
      rewrite (goffz_in p tr i) by lia. rewrite (goffz_in p tr (i + 1)) by lia. rewrite WL1.
      unfold w in *. lia.
    + unfold A_amb. destruct (i <? 0) eqn:E; [reflexivity|].
      rewrite (goffz_in p tr (i - 1)) by lia. rewrite (goffz_in p tr i) by lia.
      rewrite (WLs p tr i (i - 1)) by lia.
      pose proof (WFs p tr Hwf i (i - 1) (i + 1) ltac:(lia) ltac:(lia) ltac:(lia) ltac:(lia)).
      unfold w in *. lia.
  - split; [|exact Hlt]. apply iw_unique; try lia. exact Hsw.
Qed.

(* for an existing wall time, the index chosen by _resolve_ambiguous_time is the segment of a
   genuine pre-image, whatever the fold *)
Lemma ridx_valid : forall u0 f,
  -1 <= A_ridx p tr (local z u0) f < n /\
  iu tr (local z u0 - G (A_ridx p tr (local z u0) f)) = A_ridx p tr (local z u0) f /\
  local z (local z u0 - G (A_ridx p tr (local z u0) f)) = local z u0.
Proof.
  intros u0 f. rewrite (local_index p tr Hwf u0).
  destruct (iu_bounds tr u0 Hsu) as [Hb [Hlo Hhi]].
  pose proof (wall_index_cases u0) as Hc. cbv zeta in Hc.
  set (i := iu tr u0) in *. set (w' := u0 + O i) in *. set (j := A_ridx p tr w' f).
  assert (Hseg : forall k, -1 <= k < n -> (0 <= k -> T k <= w' - O k) -> (k + 1 < n -> w' - O k < T (k + 1)) ->
                 j = k -> -1 <= j < n /\ iu tr (w' - G j) = j /\ local z (w' - G j) = w').
  { intros k Hk H1 H2 ->. rewrite (goffz_in p tr k) by lia.
    destruct (iu_seg p tr Hwf (w' - O k) k Hk H1 H2) as [Ha Hb2]. repeat split; lia. }
  destruct Hc as [[Hin [Hiw [Ha1 [Ha0 [Hdec Hge]]]]]|[Hiw Hlt]].
  - assert (E : (i + 1 <? 0) = false) by lia. destruct f.
    + (* fold = 1: the later instant, in segment i + 1 *)
      apply (Hseg (i + 1)); [lia| | |].
      * intros. unfold w' in *. lia.
      * intros Hn2. replace (i + 1 + 1) with (i + 2) by lia.
        pose proof (WFs p tr Hwf (i + 1) i (i + 2) ltac:(lia) ltac:(lia) ltac:(lia) ltac:(lia)).
        specialize (Hhi ltac:(lia)). unfold w'. lia.
      * unfold j, A_ridx. rewrite Hiw, E. reflexivity.
    + apply (Hseg i); [lia| | |].
      * intros. unfold w'. lia.
      * intros. unfold w'. specialize (Hhi ltac:(lia)). lia.
      * unfold j, A_ridx. rewrite Hiw, E, Ha1. cbn [negb andb]. lia.
  - destruct (i <? 0) eqn:E.
    + apply (Hseg i); [lia| | |].
      * intros. lia.
      * intros. unfold w'. specialize (Hhi ltac:(lia)). lia.
      * unfold j, A_ridx. rewrite Hiw, E. reflexivity.
    + destruct (negb f && A_amb p tr w' i) eqn:Ef.
      * (* fold = 0 in a repeated interval: the earlier instant, in segment i - 1 *)
        pose proof Ef as Ef0.
        apply andb_prop in Ef. destruct Ef as [_ Ea]. unfold A_amb in Ea. rewrite E in Ea.
        rewrite (goffz_in p tr (i - 1)) in Ea by lia. rewrite (goffz_in p tr i) in Ea by lia.
        rewrite (WLs p tr i (i - 1)) in Ea by lia.
        specialize (Hlo ltac:(lia)).
        apply (Hseg (i - 1)); [lia| | |].
        -- intros Hk. replace (i - 1 + 1) with i in * by lia.
           pose proof (WFs p tr Hwf (i - 1) (i - 1 - 1) i ltac:(lia) ltac:(lia) ltac:(lia) ltac:(lia)).
           unfold w' in *. lia.
        -- intros _. replace (i - 1 + 1) with i by lia. unfold w' in *. lia.
        -- unfold j, A_ridx. rewrite Hiw, E, Ef0. reflexivity.
      * apply (Hseg i); [lia| | |].
        -- intros. unfold w'. lia.
        -- intros. unfold w'. specialize (Hhi ltac:(lia)). lia.
        -- unfold j, A_ridx. rewrite Hiw, E, Ef. reflexivity.
Qed.

(* ------------------------------------------------------------------ datetime_exists *)
Lemma A_fromutc_wall : forall u, fst (A_fromutc p tr u) = local z u.
Proof.
  intros. unfold A_fromutc. cbn [fst]. rewrite (local_index p tr Hwf).
  destruct (iu_bounds tr u Hsu) as [Hb _]. rewrite goffz_in by lia. reflexivity.
Qed.

Theorem A_exists_iff : forall w f, A_exists p tr w f = true <-> exists u, local z u = w.
Proof.
  intros w f. unfold A_exists. rewrite A_fromutc_wall. rewrite Z.eqb_eq. split.
  - intros H. eexists. exact H.
  - intros [u0 H0]. subst w. destruct (ridx_valid u0 f) as [_ [_ H]]. exact H.
Qed.

(* ------------------------------------------------------------------ at most two pre-images *)
Lemma no_three : forall a b c, a < b -> b < c -> local z a = local z b -> local z b = local z c -> False.
Proof.
  intros a b c Hab Hbc H1 H2.
  destruct (same_wall_adjacent p tr Hwf a b Hab H1) as [E1 _].
  destruct (same_wall_adjacent p tr Hwf b c Hbc H2) as [E2 _].
  destruct (same_wall_adjacent p tr Hwf a c ltac:(lia) ltac:(congruence)) as [E3 _]. lia.
Qed.

Theorem preimages_le_2 : forall w, (length (preimages z w) <= 2)%nat.
Proof.
  intros w. pose proof (pre_nodup z w) as Hnd.
  assert (Hall : forall u, In u (preimages z w) -> local z u = w) by (intros; apply pre_in; assumption).
  destruct (preimages z w) as [|a [|b [|c r]]]; cbn [length]; try lia.
  exfalso.
  assert (Ha : local z a = w) by (apply Hall; cbn; tauto).
  assert (Hb : local z b = w) by (apply Hall; cbn; tauto).
  assert (Hc : local z c = w) by (apply Hall; cbn; tauto).
  inversion Hnd as [|? ? Hna Hnd1]; subst. inversion Hnd1 as [|? ? Hnb Hnd2]; subst.
  assert (a <> b) by (intros ->; apply Hna; cbn; tauto).
  assert (a <> c) by (intros ->; apply Hna; cbn; tauto).
  assert (b <> c) by (intros ->; apply Hnb; cbn; tauto).
  assert (Hord : (a < b /\ b < c) \/ (a < c /\ c < b) \/ (b < a /\ a < c) \/ (b < c /\ c < a) \/
                 (c < a /\ a < b) \/ (c < b /\ b < a)) by lia.
  destruct Hord as [[? ?]|[[? ?]|[[? ?]|[[? ?]|[[? ?]|[? ?]]]]]].
  - apply (no_three a b c); congruence || assumption.
  - apply (no_three a c b); congruence || assumption.
  - apply (no_three b a c); congruence || assumption.
  - apply (no_three b c a); congruence || assumption.
  - apply (no_three c a b); congruence || assumption.
  - apply (no_three c b a); congruence || assumption.
Qed.

(* ------------------------------------------------------------------ ambiguity and fold *)
(* two pre-images a < b: a lies in segment i, b in segment i + 1, the wall index is i + 1 *)
Lemma two_preimages : forall a b, a < b -> local z a = local z b ->
  let i := iu tr a in let w := local z a in
  iu tr b = i + 1 /\ i + 1 < n /\ iw p tr w = i + 1 /\ A_amb p tr w (i + 1) = true /\ A_amb p tr w i = false /\
  w = a + O i /\ w = b + O (i + 1).
Proof.
  intros a b Hab Heq i w.
  destruct (same_wall_adjacent p tr Hwf a b Hab Heq) as [Hi Hdec]. fold i in Hi, Hdec.
  destruct (iu_bounds tr b Hsu) as [Hb [Hlo Hhi]]. rewrite Hi in *.
  destruct (iu_bounds tr a Hsu) as [Hb' _]. fold i in Hb'.
  assert (Hw : w = a + O i) by (unfold w; apply (local_index p tr Hwf)).
  assert (Hw2 : w = b + O (i + 1)).
  { unfold w. rewrite Heq. rewrite (local_index p tr Hwf b). rewrite Hi. reflexivity. }
  pose proof (wall_index_cases a) as Hc. cbv zeta in Hc. fold i in Hc. rewrite <- Hw in Hc.
  destruct Hc as [[Hin [Hiw [Ha1 [Ha0 _]]]]|[Hiw Hlt]].
  - repeat split; try assumption; lia.
  - exfalso. specialize (Hlt ltac:(lia)). rewrite (WLs p tr (i + 1) i) in Hlt by lia.
    specialize (Hlo ltac:(lia)). lia.
Qed.

Theorem A_ambiguous_iff : forall w,
  A_ambiguous p tr w = true <-> exists a b, a < b /\ local z a = w /\ local z b = w.
Proof.
  intros w. split.
  - unfold A_ambiguous. intros Ha. destruct (iw_bounds p tr w Hsw) as [Hb [Hlo Hhi]].
    set (j := iw p tr w) in *. unfold A_amb in Ha. destruct (j <? 0) eqn:E; [discriminate|].
    rewrite (goffz_in p tr (j - 1)) in Ha by lia. rewrite (goffz_in p tr j) in Ha by lia.
    specialize (Hlo ltac:(lia)). rewrite (WLs p tr j (j - 1)) in Ha, Hlo by lia.
    exists (w - O (j - 1)), (w - O j). split; [lia|]. split.
    + assert (H : local z (w - O (j - 1)) = w - O (j - 1) + O (j - 1)).
      { refine (proj2 (iu_seg p tr Hwf _ (j - 1) _ _ _)); [lia| |].
        - intros Hk. pose proof (WFs p tr Hwf (j - 1) (j - 1 - 1) j ltac:(lia) ltac:(lia) ltac:(lia) ltac:(lia)). lia.
        - replace (j - 1 + 1) with j by lia. intros _. lia. }
      rewrite H. lia.
    + assert (H : local z (w - O j) = w - O j + O j).
      { refine (proj2 (iu_seg p tr Hwf _ j _ _ _)); [lia| |].
        - intros _. lia.
        - intros Hn. specialize (Hhi Hn). rewrite (WLs p tr (j + 1) j) in Hhi by lia. lia. }
      rewrite H. lia.
  - intros [a [b [Hab [Ha Hb]]]].
    destruct (two_preimages a b Hab ltac:(congruence)) as [_ [_ [Hiw [Ha1 _]]]].
    rewrite Ha in *. unfold A_ambiguous. rewrite Hiw. exact Ha1.
Qed.

Theorem A_fold_selects : forall a b w, a < b -> local z a = w -> local z b = w ->
  w - A_utcoffset p tr w false = a /\ w - A_utcoffset p tr w true = b /\
  snd (A_fromutc p tr a) = false /\ snd (A_fromutc p tr b) = true.
Proof.
  intros a b w Hab Ha Hb.
  destruct (two_preimages a b Hab ltac:(congruence)) as [Hib [Hin [Hiw [Ha1 [Ha0 [Hw1 Hw2]]]]]].
  rewrite Ha in *. set (i := iu tr a) in *.
  destruct (iu_bounds tr a Hsu) as [Hbd _]. fold i in Hbd.
  assert (E : (i + 1 <? 0) = false) by lia.
  repeat split.
  - unfold A_utcoffset, A_ridx. rewrite Hiw, E, Ha1. cbn [negb andb].
    replace (i + 1 - 1) with i by lia. rewrite goffz_in by lia. lia.
  - unfold A_utcoffset, A_ridx. rewrite Hiw, E. cbn [negb andb]. rewrite goffz_in by lia. lia.
  - unfold A_fromutc. cbn [snd]. fold i. rewrite goffz_in by lia. rewrite <- Hw1. exact Ha0.
  - unfold A_fromutc. cbn [snd]. rewrite Hib. rewrite goffz_in by lia. rewrite <- Hw2. exact Ha1.
Qed.

Theorem A_fold_irrelevant : forall w u, local z u = w -> (forall u', local z u' = w -> u' = u) ->
  forall f, w - A_utcoffset p tr w f = u.
Proof.
  intros w u Hu Huniq f. subst w. destruct (ridx_valid u f) as [_ [_ H]].
  apply Huniq. exact H.
Qed.

(* fromutc sets fold exactly when an earlier instant has the same wall reading *)
Theorem A_fold_spec : forall u, snd (A_fromutc p tr u) = fold_spec z u.
Proof.
  intros u. unfold fold_spec. destruct (snd (A_fromutc p tr u)) eqn:Ef; symmetry.
  - apply existsb_exists. unfold A_fromutc in Ef. cbn [snd] in Ef.
    destruct (iu_bounds tr u Hsu) as [Hb [Hlo Hhi]]. set (i := iu tr u) in *.
    rewrite (goffz_in p tr i) in Ef by lia. unfold A_amb in Ef. destruct (i <? 0) eqn:E; [discriminate|].
    rewrite (goffz_in p tr (i - 1)) in Ef by lia. rewrite (goffz_in p tr i) in Ef by lia.
    rewrite (WLs p tr i (i - 1)) in Ef by lia. specialize (Hlo ltac:(lia)).
    exists (u + O i - O (i - 1)). split; [|lia].
    apply pre_in. rewrite (local_index p tr Hwf u). fold i.
    assert (H : local z (u + O i - O (i - 1)) = u + O i - O (i - 1) + O (i - 1)).
    { refine (proj2 (iu_seg p tr Hwf _ (i - 1) _ _ _)); [lia| |].
      - intros Hk. pose proof (WFs p tr Hwf (i - 1) (i - 1 - 1) i ltac:(lia) ltac:(lia) ltac:(lia) ltac:(lia)). lia.
      - replace (i - 1 + 1) with i by lia. intros _. lia. }
    rewrite H. lia.
  - apply not_true_is_false. intros Hex. apply existsb_exists in Hex. destruct Hex as [u' [Hin Hlt]].
    apply pre_in in Hin.
    destruct (A_fold_selects u' u (local z u) ltac:(lia) Hin eq_refl) as [_ [_ [_ H]]]. congruence.
Qed.

End AZ2.
