(* resolve_imaginary (after fix 7f58098: the gap is measured by a trip through UTC) moves every
   imaginary wall time forward by exactly the width of its gap, onto an existing wall time --
   for every well-formed zone, without any hypothesis on the spacing of the transitions. *)
From Coq Require Import ZArith List Bool Lia ZifyBool.
From V Require Import tzfile.TzModel tzfile.TzSpec tzfile.TzData tzfile.TzBisect tzfile.TzIndex
  tzfile.TzZoneThm tzfile.TzWallThm tzfile.TzBridge tzfile.TzFinalThm.
Import ListNotations.
Open Scope Z_scope.
Ltac Zify.zify_post_hook ::= Z.to_euclidean_division_equations.

Lemma gap_from_index : forall tr p w a b, gap_from p tr w = Some (a, b) ->
  exists k, 0 <= k < len tr /\ a = On p tr (k - 1) /\ b = On p tr k /\ Tn tr k + a <= w < Tn tr k + b.
Proof.
  induction tr as [|[t o] r IH]; intros p w a b H; cbn [gap_from] in H.
  - discriminate.
  - destruct ((t + p <=? w) && (w <? t + o)) eqn:E.
    + inversion H; subst. exists 0. rewrite len_cons. pose proof (len_nonneg _ r).
      rewrite On_neg by lia. rewrite On_cons by lia. rewrite On_neg by lia. rewrite Tn_cons_0.
      repeat split; lia.
    + destruct (IH o w a b H) as [k [Hk [Ha [Hb Hw]]]]. exists (k + 1). rewrite len_cons.
      rewrite (On_cons p t o r (k + 1 - 1)) by lia. rewrite (On_cons p t o r (k + 1)) by lia.
      rewrite Tn_cons_pos by lia. replace (k + 1 - 1) with k by lia. replace (k + 1 - 1 - 1) with (k - 1) by lia.
      repeat split; try lia; assumption.
Qed.

Lemma gap_from_some : forall tr p w k, 0 <= k < len tr ->
  Tn tr k + On p tr (k - 1) <= w < Tn tr k + On p tr k -> gap_from p tr w <> None.
Proof.
  induction tr as [|[t o] r IH]; intros p w k Hk Hw.
  - unfold len in Hk. cbn in Hk. lia.
  - cbn [gap_from]. destruct ((t + p <=? w) && (w <? t + o)) eqn:E; [discriminate|].
    rewrite len_cons in Hk. destruct (Z.eq_dec k 0) as [->|Hne].
    + exfalso. rewrite Tn_cons_0 in Hw. rewrite On_neg in Hw by lia. rewrite On_cons in Hw by lia.
      rewrite On_neg in Hw by lia. lia.
    + apply (IH o w (k - 1)); [lia|].
      rewrite Tn_cons_pos in Hw by lia. rewrite (On_cons p t o r (k - 1)) in Hw by lia.
      rewrite (On_cons p t o r k) in Hw by lia. exact Hw.
Qed.

Section Gap.
Variable p : Z.
Variable tr : list (Z * Z).
Hypothesis Hwf : wf_from p tr = true.
Notation n := (len tr).
Notation T := (Tn tr).
Notation O := (On p tr).
Notation W := (Wn p tr).
Notation G := (goffz p tr).
Notation z := (mkZone p tr).
Let Hsu := Hsu p tr Hwf.
Let Hsw := Hsw p tr Hwf.

(* a wall time inside the gap of transition k has wall index k *)
Lemma gap_wall_index : forall w k, 0 <= k < n -> T k + O (k - 1) <= w < T k + O k -> iw p tr w = k.
Proof.
  intros w k Hk Hw. apply iw_unique; try lia. exact Hsw.
  - intros _. rewrite (WLs p tr k (k - 1)) by lia. lia.
  - intros Hn. rewrite (WLs p tr (k + 1) k) by lia.
    pose proof (WFs p tr Hwf k (k - 1) (k + 1) ltac:(lia) ltac:(lia) ltac:(lia) ltac:(lia)). lia.
Qed.

Lemma gap_from_at : forall w k, 0 <= k < n -> T k + O (k - 1) <= w < T k + O k ->
  gap_from p tr w = Some (O (k - 1), O k).
Proof.
  intros w k Hk Hw. pose proof (gap_from_some tr p w k Hk Hw) as Hs.
  destruct (gap_from p tr w) as [[a b]|] eqn:E; [|contradiction].
  destruct (gap_from_index tr p w a b E) as [k' [Hk' [Ha [Hb Hw']]]].
  assert (k' = k).
  { rewrite Ha, Hb in Hw'. rewrite <- (gap_wall_index w k' Hk' Hw'). apply gap_wall_index; assumption. }
  subst k'. rewrite Ha, Hb. reflexivity.
Qed.

(* an imaginary wall time lies in the gap of the transition at its wall index *)
Lemma imaginary_in_gap : forall w, (forall u, local z u <> w) ->
  let j := iw p tr w in
  0 <= j < n /\ O (j - 1) < O j /\ T j + O (j - 1) <= w < T j + O j.
Proof.
  intros w Him j. destruct (iw_bounds p tr w Hsw) as [Hb [Hlo Hhi]]. fold j in Hb, Hlo, Hhi.
  destruct (Z_lt_le_dec j 0) as [Hneg|Hpos].
  - (* before the first wall transition: w - p is a pre-image *)
    exfalso. apply (Him (w - p)).
    assert (H : local z (w - p) = w - p + O (-1)).
    { refine (proj2 (iu_seg p tr Hwf _ (-1) _ _ _)); [pose proof (len_nonneg _ tr); lia|lia|].
      replace (-1 + 1) with 0 by lia. intros Hn. assert (j = -1) by lia.
      specialize (Hhi ltac:(lia)). replace (j + 1) with 0 in Hhi by lia.
      rewrite (WLs p tr 0 (-1)) in Hhi by lia. rewrite On_neg in Hhi by lia. lia. }
    rewrite H. rewrite On_neg by lia. lia.
  - specialize (Hlo Hpos). rewrite (WLs p tr j (j - 1)) in Hlo by lia.
    destruct (Z_lt_le_dec (w - O j) (T j)) as [Hlt|Hge].
    + split; [lia|]. split; lia.
    + (* w - O j lies in segment j: a pre-image *)
      exfalso. apply (Him (w - O j)).
      assert (H : local z (w - O j) = w - O j + O j).
      { refine (proj2 (iu_seg p tr Hwf _ j _ _ _)); [lia|intros _; lia|].
        intros Hn. specialize (Hhi Hn). rewrite (WLs p tr (j + 1) j) in Hhi by lia. lia. }
      rewrite H. lia.
Qed.

(* the trip through UTC of an imaginary wall time comes back exactly one gap width earlier *)
Lemma imaginary_roundtrip : forall w f, (forall u, local z u <> w) ->
  let j := iw p tr w in
  local z (w - A_utcoffset p tr w f) = w - (O j - O (j - 1)).
Proof.
  intros w f Him j. destruct (imaginary_in_gap w Him) as [Hj [Hinc Hw]]. fold j in Hj, Hinc, Hw.
  assert (Hamb : A_amb p tr w j = false).
  { unfold A_amb. destruct (j <? 0) eqn:E; [reflexivity|].
    rewrite (goffz_in p tr (j - 1)) by lia. rewrite (goffz_in p tr j) by lia.
    rewrite (WLs p tr j (j - 1)) by lia. lia. }
  assert (Hr : A_ridx p tr w f = j).
  { unfold A_ridx. fold j. destruct (j <? 0) eqn:E; [lia|]. rewrite Hamb. destruct f; reflexivity. }
  unfold A_utcoffset. rewrite Hr. rewrite goffz_in by lia.
  assert (H : local z (w - O j) = w - O j + O (j - 1)).
  { refine (proj2 (iu_seg p tr Hwf _ (j - 1) _ _ _)); [lia| |].
    - intros Hk. pose proof (WFs p tr Hwf (j - 1) (j - 1 - 1) j ltac:(lia) ltac:(lia) ltac:(lia) ltac:(lia)). lia.
    - replace (j - 1 + 1) with j by lia. intros _. lia. }
  rewrite H. lia.
Qed.

End Gap.

Theorem resolve_lands_lemma : forall z w g, wf_zone z = true -> gap_width z w = Some g ->
  preimages z (w + g) <> [].
Proof.
  intros [p tr] w g Hwf Hg. pose proof (wf_zone_from _ Hwf) as Hwff. cbn [z_init z_trans] in Hwff.
  unfold gap_width, gap_at in Hg. cbn [z_init z_trans] in Hg.
  destruct (gap_from p tr w) as [[a b]|] eqn:E; [|discriminate]. inversion Hg; subst g.
  destruct (gap_from_index tr p w a b E) as [k [Hk [Ha [Hb Hw]]]].
  assert (Hloc : local (mkZone p tr) (w - a) = w - a + On p tr k).
  { refine (proj2 (iu_seg p tr Hwff _ k _ _ _)); [lia| |].
    - intros _. lia.
    - intros Hn. pose proof (WFs p tr Hwff k (k - 1) (k + 1) ltac:(lia) ltac:(lia) ltac:(lia) ltac:(lia)).
      rewrite <- Ha, <- Hb in *. lia. }
  intros Hnil. assert (Hin : In (w - a) (preimages (mkZone p tr) (w + (b - a)))).
  { apply pre_in. rewrite Hloc. rewrite <- Hb. lia. }
  rewrite Hnil in Hin. exact Hin.
Qed.

Theorem resolve_gap_full_lemma : forall d, good d = true -> wf_zone (zone_of d) = true -> forall w f,
  preimages (zone_of d) w = [] ->
  exists g, 0 < g /\ gap_width (zone_of d) w = Some g /\ resolve_imaginary d w f = Ok (w + g, false) /\
            resolve_spec (zone_of d) w = w + g /\ preimages (zone_of d) (w + g) <> [].
Proof.
  intros d Hgood Hwf w f Hp.
  pose proof (Hwff d Hwf) as Hwff'.
  set (p := z_init (zone_of d)) in *. set (tr := z_trans (zone_of d)) in *.
  assert (Him : forall u, local (mkZone p tr) u <> w).
  { intros u Hu. apply (pre_in (zone_of d) w u) in Hu. rewrite Hp in Hu. exact Hu. }
  destruct (imaginary_in_gap p tr Hwff' w Him) as [Hj [Hinc Hw]].
  set (j := iw p tr w) in *.
  pose proof (gap_from_at p tr Hwff' w j Hj Hw) as Hgap.
  pose proof (imaginary_roundtrip p tr Hwff' w f Him) as Hrt. fold j in Hrt.
  exists (On p tr j - On p tr (j - 1)).
  assert (Hgw : gap_width (zone_of d) w = Some (On p tr j - On p tr (j - 1))).
  { unfold gap_width, gap_at. fold p tr. rewrite Hgap. reflexivity. }
  split; [lia|]. split; [exact Hgw|]. split; [|split].
  - unfold resolve_imaginary. rewrite (exists_iff_lemma d Hgood Hwf), Hp. cbn [bind].
    rewrite (bridge_to_utc d Hgood Hwf). cbn [bind]. rewrite (bridge_fromutc d Hgood Hwf). cbn [bind].
    fold p tr. rewrite (A_fromutc_wall p tr Hwff'). rewrite Hrt. do 2 f_equal. lia.
  - unfold resolve_spec. rewrite Hp, Hgw. reflexivity.
  - apply resolve_lands_lemma; assumption.
Qed.
