(* Executable model of dateutil.tz.tzfile (src/dateutil/tz/tz.py, after fix c14e793):
   _read_tzfile (binary decoding, ttinfo construction, std/dst/before choice, dstoffset
   derivation, wall-clock transition list), _find_last_transition (bisect_right),
   _get_ttinfo, _find_ttinfo, is_ambiguous, _resolve_ambiguous_time, fromutc,
   utcoffset/dst/tzname; tz.datetime_exists / datetime_ambiguous / resolve_imaginary
   through CPython's astimezone protocol; the fixed zones tzutc / tzoffset.
   Times are whole seconds since the epoch (the code compares float timestamps with integer
   transition times; only the floor of the timestamp matters, see notes/tzfile.md).
   No proofs in this file. *)
From Coq Require Import ZArith List Bool.
Import ListNotations.
Open Scope Z_scope.

(* ------------------------------------------------------------------ results / exceptions *)
Inductive res (A : Type) : Type := Ok (a : A) | Err (e : Z).
Arguments Ok {A} a.
Arguments Err {A} e.
Definition bind {A B} (r : res A) (f : A -> res B) : res B :=
  match r with Ok a => f a | Err e => Err e end.
Notation "'do' x <- r ; k" := (bind r (fun x => k)) (at level 200, x pattern, r at level 100, k at level 200).

Definition E_VALUE := 1.   (* ValueError (incl. UnicodeDecodeError of the magic) *)
Definition E_STRUCT := 2.  (* struct.error *)
Definition E_INDEX := 3.   (* IndexError *)
Definition E_ATTR := 4.    (* AttributeError: .offset of None *)
Definition E_OTHER := 5.   (* outside the model: non-ASCII abbreviations, negative leapcnt *)
Definition E_FUEL := 6.    (* out of fuel; proved unreachable *)

(* ------------------------------------------------------------------ Python primitives *)
Definition len {A} (l : list A) : Z := Z.of_nat (length l).
Definition nthZ (l : list Z) (i : Z) : Z := nth (Z.to_nat i) l 0.

(* normalisation of a slice/find bound (CPython PySlice_AdjustIndices) *)
Definition py_norm (n i : Z) : Z := if i <? 0 then Z.max 0 (i + n) else Z.min i n.

Fixpoint find_from (l : list Z) (c pos : Z) : Z :=
  match l with
  | [] => -1
  | x :: r => if x =? c then pos else find_from r c (pos + 1)
  end.

(* s.find(c, start) *)
Definition py_find (s : list Z) (c start : Z) : Z :=
  let st := py_norm (len s) start in find_from (skipn (Z.to_nat st) s) c st.

(* s[a:b] *)
Definition py_slice (s : list Z) (a b : Z) : list Z :=
  let a' := py_norm (len s) a in
  let b' := py_norm (len s) b in
  firstn (Z.to_nat (b' - a')) (skipn (Z.to_nat a') s).

(* bisect.bisect_right (CPython internal_bisect_right) *)
Fixpoint bisect_fuel (fuel : nat) (l : list Z) (x lo hi : Z) : option Z :=
  match fuel with
  | O => None
  | S f =>
    if lo <? hi then
      let mid := (lo + hi) / 2 in
      if x <? nthZ l mid then bisect_fuel f l x lo mid else bisect_fuel f l x (mid + 1) hi
    else Some lo
  end.
Definition bisect_right (l : list Z) (x : Z) : option Z :=
  bisect_fuel (S (length l)) l x 0 (len l).

(* struct.unpack big-endian fields *)
Definition s32 (x : Z) : Z := if x <? 2147483648 then x else x - 4294967296.
Definition s8 (x : Z) : Z := if x <? 128 then x else x - 256.
Definition be32 (b0 b1 b2 b3 : Z) : Z := s32 (((b0 * 256 + b1) * 256 + b2) * 256 + b3).

(* struct.unpack(">%dl" % n, f.read(4*n)): short data -> struct.error *)
Fixpoint unpack_l (n : nat) (l : list Z) : res (list Z * list Z) :=
  match n with
  | O => Ok ([], l)
  | S k =>
    match l with
    | b0 :: b1 :: b2 :: b3 :: r =>
      do xr <- unpack_l k r; Ok (be32 b0 b1 b2 b3 :: fst xr, snd xr)
    | _ => Err E_STRUCT
    end
  end.

(* ">%dB" / ">%db" *)
Fixpoint unpack_b (signed : bool) (n : nat) (l : list Z) : res (list Z * list Z) :=
  match n with
  | O => Ok ([], l)
  | S k =>
    match l with
    | b :: r => do xr <- unpack_b signed k r; Ok ((if signed then s8 b else b) :: fst xr, snd xr)
    | _ => Err E_STRUCT
    end
  end.

(* typecnt times struct.unpack(">lbb", f.read(6)) *)
Fixpoint unpack_types (n : nat) (l : list Z) : res (list (Z * Z * Z) * list Z) :=
  match n with
  | O => Ok ([], l)
  | S k =>
    match l with
    | b0 :: b1 :: b2 :: b3 :: d :: a :: r =>
      do xr <- unpack_types k r; Ok ((be32 b0 b1 b2 b3, s8 d, s8 a) :: fst xr, snd xr)
    | _ => Err E_STRUCT
    end
  end.

(* ------------------------------------------------------------------ raw version-1 block *)
Record raw : Type := mkRaw {
  r_times : list Z;            (* transition times *)
  r_idx : list Z;              (* type index per transition (unsigned bytes) *)
  r_types : list (Z * Z * Z);  (* gmtoff, isdst, abbrind *)
  r_abbr : list Z;             (* abbreviation characters *)
  r_leapcnt : Z;               (* number of leap-second records (skipped) *)
  r_isstd : list Z;
  r_isgmt : list Z }.

(* everything after the 4 magic bytes *)
Definition parse_body (l0 : list Z) : res raw :=
  let l1 := skipn 16 l0 in
  do hr <- unpack_l 6 l1;
  match fst hr with
  | [gmtcnt; stdcnt; leapcnt; timecnt; typecnt; charcnt] =>
    let l2 := snd hr in
    if timecnt <? 0 then Err E_STRUCT else
    do tr <- unpack_l (Z.to_nat timecnt) l2;
    do ir <- unpack_b false (Z.to_nat timecnt) (snd tr);
    do yr <- unpack_types (Z.to_nat typecnt) (snd ir);
    let l3 := snd yr in
    let abbr := if charcnt <? 0 then l3 else firstn (Z.to_nat charcnt) l3 in
    let l4 := if charcnt <? 0 then [] else skipn (Z.to_nat charcnt) l3 in
    if existsb (fun b => 128 <=? b) abbr then Err E_OTHER else
    if leapcnt <? 0 then Err E_OTHER else
    let l5 := skipn (Z.to_nat (leapcnt * 8)) l4 in
    if stdcnt <? 0 then Err E_STRUCT else
    do sr <- unpack_b true (Z.to_nat stdcnt) l5;
    if gmtcnt <? 0 then Err E_STRUCT else
    do gr <- unpack_b true (Z.to_nat gmtcnt) (snd sr);
    Ok (mkRaw (fst tr) (fst ir) (fst yr) abbr leapcnt (fst sr) (fst gr))
  | _ => Err E_FUEL
  end.

(* fileobj.read(4).decode() != "TZif" -> ValueError (a short or undecodable magic too) *)
Definition parse_tzif (bytes : list Z) : res raw :=
  match bytes with
  | c0 :: c1 :: c2 :: c3 :: l0 =>
    if (c0 =? 84) && (c1 =? 90) && (c2 =? 105) && (c3 =? 102) then parse_body l0 else Err E_VALUE
  | _ => Err E_VALUE
  end.

(* ------------------------------------------------------------------ decoded zone *)
Record ttinfo : Type := mkTT {
  tt_off : Z; tt_isdst : Z; tt_abbr : list Z; tt_isstd : bool; tt_isgmt : bool; tt_dstoff : Z }.

Definition tt0 : ttinfo := mkTT 0 0 [] false false 0.

Record tzdata : Type := mkTz {
  d_utc : list Z;           (* _trans_list_utc *)
  d_wall : list Z;          (* _trans_list *)
  d_idx : list Z;           (* _trans_idx, as indices into d_tt *)
  d_tt : list ttinfo;       (* _ttinfo_list *)
  d_std : option ttinfo;    (* _ttinfo_std *)
  d_dst : option ttinfo;    (* _ttinfo_dst *)
  d_before : option ttinfo  (* _ttinfo_before *) }.

Definition nth_tt (l : list ttinfo) (k : Z) : ttinfo := nth (Z.to_nat k) l tt0.

(* tti.isstd = (ttisstdcnt > i and isstd[i] != 0) *)
Definition flag_at (l : list Z) (i : nat) : bool :=
  match nth_error l i with Some v => negb (v =? 0) | None => false end.

(* abbr[abbrind:abbr.find('\x00', abbrind)] *)
Definition abbr_of (abbr : list Z) (abbrind : Z) : list Z :=
  py_slice abbr abbrind (py_find abbr 0 abbrind).

Fixpoint mk_types (abbr isstd isgmt : list Z) (i : nat) (l : list (Z * Z * Z)) : list ttinfo :=
  match l with
  | [] => []
  | (g, d, a) :: r =>
    mkTT g d (abbr_of abbr a) (flag_at isstd i) (flag_at isgmt i) 0 :: mk_types abbr isstd isgmt (S i) r
  end.

Definition is_none {A} (o : option A) : bool := match o with None => true | Some _ => false end.

(* the backwards scan for ttinfo_std / ttinfo_dst (l = reversed type-index list) *)
Fixpoint scan_sd (types : list ttinfo) (l : list Z) (std dst : option Z) : option Z * option Z :=
  match l with
  | [] => (std, dst)
  | k :: r =>
    let isd := negb (tt_isdst (nth_tt types k) =? 0) in
    let sd := if is_none std && negb isd then (Some k, dst)
              else if is_none dst && isd then (std, Some k) else (std, dst) in
    if negb (is_none (fst sd)) && negb (is_none (snd sd)) then sd else scan_sd types r (fst sd) (snd sd)
  end.

(* first non-dst type, else type 0 *)
Fixpoint first_std (l : list ttinfo) (i : Z) : option Z :=
  match l with
  | [] => None
  | t :: r => if tt_isdst t =? 0 then Some i else first_std r (i + 1)
  end.

Fixpoint upd (l : list Z) (k : nat) (v : Z) : list Z :=
  match l, k with
  | [], _ => []
  | _ :: r, O => v :: r
  | x :: r, S k' => x :: upd r k' v
  end.

(* dstoffset derivation (the part of the loop at tz.py 672-685 that assigns tti.dstoffset);
   lastdst = None is the first iteration; lastdstoffset None and 0 are both falsy *)
Fixpoint dst_pass (types : list ttinfo) (l : list Z) (lastdst : option Z) (lastoff lastdstoff : Z)
         (acc : list Z) : list Z :=
  match l with
  | [] => acc
  | k :: r =>
    let tti := nth_tt types k in
    let offset := tt_off tti in
    match lastdst with
    | None => dst_pass types r (Some (tt_isdst tti)) offset lastdstoff acc
    | Some ld =>
      if negb (tt_isdst tti =? 0) then
        let d1 := if ld =? 0 then offset - lastoff else 0 in
        let d2 := if (d1 =? 0) && negb (lastdstoff =? 0) then lastdstoff else d1 in
        dst_pass types r (Some (tt_isdst tti)) offset d2 (upd acc (Z.to_nat k) d2)
      else dst_pass types r (Some (tt_isdst tti)) offset lastdstoff acc
    end
  end.

(* wall-clock transition list (tz.py 687-705) *)
Fixpoint wall_pass (types : list ttinfo) (stdoff : Z) (ts idx : list Z) (lastoff : Z) : list Z :=
  match ts, idx with
  | t :: ts', k :: idx' =>
    let offset := tt_off (nth_tt types k) in
    let adj := match idx' with [] => Z.min lastoff stdoff | _ => Z.min lastoff offset end in
    (t + adj) :: wall_pass types stdoff ts' idx' offset
  | _, _ => []
  end.

Fixpoint set_dstoffs (types : list ttinfo) (ds : list Z) : list ttinfo :=
  match types, ds with
  | t :: r, d :: ds' =>
    mkTT (tt_off t) (tt_isdst t) (tt_abbr t) (tt_isstd t) (tt_isgmt t) d :: set_dstoffs r ds'
  | _, _ => []
  end.

Definition opt_tt (types : list ttinfo) (o : option Z) : option ttinfo :=
  match o with Some k => Some (nth_tt types k) | None => None end.

Definition build (r : raw) : res tzdata :=
  let types0 := mk_types (r_abbr r) (r_isstd r) (r_isgmt r) O (r_types r) in
  let ntypes := len types0 in
  if negb (forallb (fun k => k <? ntypes) (r_idx r)) then Err E_INDEX else
  match types0 with
  | [] => Ok (mkTz (r_times r) [] (r_idx r) [] None None None)
  | _ =>
    match r_times r with
    | [] => Ok (mkTz [] [] [] types0 (Some (nth_tt types0 0)) None None)
    | _ =>
      let sd := scan_sd types0 (rev (r_idx r)) None None in
      let dst := snd sd in
      let std := match fst sd with None => dst | Some k => Some k end in
      let before := match first_std types0 0 with Some k => Some k | None => Some 0 end in
      let ds := dst_pass types0 (r_idx r) None 0 0 (map (fun _ => 0) types0) in
      let types := set_dstoffs types0 ds in
      match opt_tt types std, opt_tt types before with
      | Some s, Some b =>
        Ok (mkTz (r_times r) (wall_pass types0 (tt_off s) (r_times r) (r_idx r) (tt_off b))
                 (r_idx r) types (Some s) (opt_tt types dst) (Some b))
      | _, _ => Err E_ATTR
      end
    end
  end.

Definition read_tzfile (bytes : list Z) : res tzdata :=
  do r <- parse_tzif bytes; build r.

(* ------------------------------------------------------------------ lookups *)
(* _find_last_transition: None when there is no transition list *)
Definition find_last (d : tzdata) (ts : Z) (in_utc : bool) : res (option Z) :=
  match d_wall d with
  | [] => Ok None
  | _ =>
    match bisect_right (if in_utc then d_utc d else d_wall d) ts with
    | Some i => Ok (Some (i - 1))
    | None => Err E_FUEL
    end
  end.

(* _get_ttinfo *)
Definition get_ttinfo (d : tzdata) (idx : option Z) : option ttinfo :=
  match idx with
  | None => d_std d
  | Some i =>
    if i + 1 >=? len (d_wall d) then d_std d
    else if i <? 0 then d_before d
    else Some (nth_tt (d_tt d) (nthZ (d_idx d) i))
  end.

Definition offset_of (o : option ttinfo) : res Z :=
  match o with Some t => Ok (tt_off t) | None => Err E_ATTR end.

(* is_ambiguous(dt, idx): idx = None means "not given" (then it is looked up) *)
Definition is_ambiguous (d : tzdata) (ts : Z) (idx : option Z) : res bool :=
  do idx' <- match idx with None => find_last d ts false | Some i => Ok (Some i) end;
  let tti := get_ttinfo d idx' in
  match idx' with
  | None => Ok false
  | Some i =>
    if i <? 0 then Ok false else
    do o1 <- offset_of (get_ttinfo d (Some (i - 1)));
    do o0 <- offset_of tti;
    let od := o1 - o0 in
    let tt := nthZ (d_wall d) i in
    Ok (ts <? tt + od)
  end.

(* fromutc: (wall seconds, fold) *)
Definition fromutc (d : tzdata) (u : Z) : res (Z * bool) :=
  do idx <- find_last d u true;
  do o <- offset_of (get_ttinfo d idx);
  let w := u + o in
  do f <- is_ambiguous d w idx;
  Ok (w, f).

(* _resolve_ambiguous_time *)
Definition resolve_idx (d : tzdata) (w : Z) (fold : bool) : res (option Z) :=
  do idx <- find_last d w false;
  match idx with
  | None => Ok None
  | Some i =>
    if i <? 0 then Ok idx else
    if negb fold then
      do a <- is_ambiguous d w idx;
      Ok (Some (i - (if a then 1 else 0)))
    else Ok (Some i)
  end.

Definition find_ttinfo (d : tzdata) (w : Z) (fold : bool) : res (option ttinfo) :=
  do idx <- resolve_idx d w fold; Ok (get_ttinfo d idx).

Definition utcoffset (d : tzdata) (w : Z) (fold : bool) : res Z :=
  match d_std d with
  | None => Ok 0
  | Some _ => do t <- find_ttinfo d w fold; offset_of t
  end.

Definition dst (d : tzdata) (w : Z) (fold : bool) : res Z :=
  match d_dst d with
  | None => Ok 0
  | Some _ =>
    do t <- find_ttinfo d w fold;
    match t with
    | None => Err E_ATTR
    | Some t => if tt_isdst t =? 0 then Ok 0 else Ok (tt_dstoff t)
    end
  end.

(* tzname: None (no types) is encoded as Ok None *)
Definition tzname (d : tzdata) (w : Z) (fold : bool) : res (option (list Z)) :=
  match d_std d with
  | None => Ok None
  | Some _ =>
    do t <- find_ttinfo d w fold;
    match t with None => Err E_ATTR | Some t => Ok (Some (tt_abbr t)) end
  end.

(* ------------------------------------------------------------------ CPython astimezone protocol and tz.* helpers *)
(* datetime.utcoffset() / datetime.dst(): CPython rejects results outside (-24 h, 24 h)
   with ValueError *)
Definition chk_range (v : Z) : res Z :=
  if (-86400 <? v) && (v <? 86400) then Ok v else Err E_VALUE.
Definition dt_utcoffset (d : tzdata) (w : Z) (fold : bool) : res Z :=
  do o <- utcoffset d w fold; chk_range o.
Definition dt_dst (d : tzdata) (w : Z) (fold : bool) : res Z :=
  do o <- dst d w fold; chk_range o.

(* aware.astimezone(UTC): wall - utcoffset() *)
Definition to_utc (d : tzdata) (w : Z) (fold : bool) : res Z :=
  do o <- dt_utcoffset d w fold; Ok (w - o).

(* tz.datetime_exists(dt, tz): survives the round trip to UTC and back *)
Definition datetime_exists (d : tzdata) (w : Z) (fold : bool) : res bool :=
  do u <- to_utc d w fold;
  do wf <- fromutc d u;
  Ok (fst wf =? w).

(* tz.datetime_ambiguous(dt, tz) = tz.is_ambiguous(dt) *)
Definition datetime_ambiguous (d : tzdata) (w : Z) : res bool := is_ambiguous d w None.

(* tz.resolve_imaginary(dt) (after fix 7f58098): the width of the gap is how far a trip through
   UTC moves the wall time; (wall, fold) of the result; dt += timedelta gives fold 0 *)
Definition resolve_imaginary (d : tzdata) (w : Z) (fold : bool) : res (Z * bool) :=
  do e <- datetime_exists d w fold;
  if e then Ok (w, fold) else
  do u <- to_utc d w fold;
  do wf <- fromutc d u;
  Ok (w + Z.abs (w - fst wf), false).

(* ------------------------------------------------------------------ fixed zones: tzutc, tzoffset *)
Definition fixed_fromutc (off u : Z) : Z * bool := (u + off, false).
Definition fixed_utcoffset (off w : Z) (fold : bool) : Z := off.
Definition fixed_is_ambiguous (off w : Z) : bool := false.
Definition fixed_exists (off w : Z) (fold : bool) : bool :=
  fst (fixed_fromutc off (w - fixed_utcoffset off w fold)) =? w.
