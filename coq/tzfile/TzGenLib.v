(* Vocabulary of the regenerated model coq/gen/TzGen.v (harness/gen_tzfile.py): the Python / CPython
   primitives the translated methods use.  Hand-written, trusted to describe CPython
   (notes/tzfile.md, "accepted subset").  A datetime is (wall seconds since the epoch, fold);
   timedeltas and offsets are whole seconds. *)
From Coq Require Import ZArith List Bool.
From V Require Import tzfile.TzModel.
Import ListNotations.
Open Scope Z_scope.

Definition pydt : Type := (Z * bool)%type.

(* (dt.replace(tzinfo=None) - EPOCH).total_seconds(): only its floor matters (TzModel header) *)
Definition py_since_epoch (dt : pydt) : Z := fst dt.
(* getattr(dt, 'fold', 0) *)
Definition py_fold (dt : pydt) : Z := if snd dt then 1 else 0.
(* dt + timedelta(seconds=s): CPython resets fold *)
Definition py_add_seconds (dt : pydt) (s : Z) : pydt := (fst dt + s, false).
(* naive - naive, in seconds *)
Definition py_sub_dt (a b : pydt) : Z := fst a - fst b.
(* enfold(dt, fold=f) *)
Definition py_enfold (dt : pydt) (f : Z) : pydt := (fst dt, negb (f =? 0)).
(* naive == naive: fold is not compared *)
Definition py_dt_eq (a b : pydt) : bool := fst a =? fst b.

Definition py_truthy_Z (x : Z) : bool := negb (x =? 0).
Definition py_int_of_bool (b : bool) : Z := if b then 1 else 0.
Definition py_nonempty (l : list Z) : bool := match l with [] => false | _ :: _ => true end.
Definition py_some {A} (o : option A) : bool := match o with Some _ => true | None => false end.

(* l[i] with Python's negative-index wrap; IndexError outside *)
Definition py_getitem (l : list Z) (i : Z) : res Z :=
  let n := len l in
  let j := if i <? 0 then i + n else i in
  if (0 <=? j) && (j <? n) then Ok (nthZ l j) else Err E_INDEX.

(* self._trans_idx[i]: the ttinfo object of transition i *)
Definition py_trans_idx (d : tzdata) (i : Z) : res (option ttinfo) :=
  do k <- py_getitem (d_idx d) i; Ok (Some (nth_tt (d_tt d) k)).

(* attribute access on a ttinfo-or-None: AttributeError on None *)
Definition attr_offset (o : option ttinfo) : res Z := offset_of o.
Definition attr_delta (o : option ttinfo) : res Z := offset_of o.
Definition attr_isdst (o : option ttinfo) : res Z :=
  match o with Some t => Ok (tt_isdst t) | None => Err E_ATTR end.
Definition attr_dstoffset (o : option ttinfo) : res Z :=
  match o with Some t => Ok (tt_dstoff t) | None => Err E_ATTR end.
Definition attr_abbr (o : option ttinfo) : res (option (list Z)) :=
  match o with Some t => Ok (Some (tt_abbr t)) | None => Err E_ATTR end.

Definition py_bisect_right (l : list Z) (x : Z) : res Z :=
  match bisect_right l x with Some i => Ok i | None => Err E_FUEL end.

(* ------------------------------------------------------------------ a tzinfo object seen through its methods *)
(* module-level functions (datetime_exists, ...) and the generic _tzinfo layer call the zone
   through these; for a tzfile they are the regenerated methods themselves *)
Record tzobj : Type := mkTzObj {
  tz_utcoffset : pydt -> res Z;        (* aware.utcoffset(), incl. CPython's (-24 h, 24 h) check *)
  tz_dst : pydt -> res Z;
  tz_fromutc : pydt -> res pydt;       (* tz.fromutc(dt.replace(tzinfo=tz)) *)
  tz_is_ambiguous : pydt -> res bool }.

(* aware.astimezone(UTC) = (aware - aware.utcoffset()).replace(tzinfo=UTC) *)
Definition py_astimezone_utc (tz : tzobj) (dt : pydt) : res pydt :=
  do o <- tz_utcoffset tz dt; Ok (fst dt - o, false).
(* utc.astimezone(tz) = tz.fromutc(utc.replace(tzinfo=tz)) *)
Definition py_astimezone_from_utc (tz : tzobj) (dt : pydt) : res pydt := tz_fromutc tz dt.
