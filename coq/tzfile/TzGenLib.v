(* Vocabulary of the regenerated model coq/gen/TzGen.v (harness/gen_tzfile.py): the Python / CPython
   primitives the translated methods use.  Hand-written, trusted to describe CPython
   (notes/tzfile.md, "accepted subset").  A datetime is (wall seconds since the epoch, fold);
   timedeltas and offsets are whole seconds. *)
From Coq Require Import ZArith List Bool.
From V Require Import tzfile.TzModel tzfile.TzSpec tzfile.TzData.
Import ListNotations.
Open Scope Z_scope.

Definition pydt : Type := (Z * bool)%type.

(* (dt.replace(tzinfo=None) - EPOCH).total_seconds(): only its floor matters (TzModel header) *)
Definition py_since_epoch (dt : pydt) : Z := fst dt.
(* getattr(dt, 'fold', 0) *)
Definition py_fold (dt : pydt) : Z := if snd dt then 1 else 0.
(* dt + timedelta(seconds=s): CPython resets fold *)
Definition py_add_seconds (dt : pydt) (s : Z) : pydt := (fst dt + s, false).
(* naive - naive, in seconds *)
Definition py_sub_dt (a b : pydt) : Z := fst a - fst b.
(* enfold(dt, fold=f) *)
Definition py_enfold (dt : pydt) (f : Z) : pydt := (fst dt, negb (f =? 0)).
(* naive == naive: fold is not compared *)
Definition py_dt_eq (a b : pydt) : bool := fst a =? fst b.

Definition py_truthy_Z (x : Z) : bool := negb (x =? 0).
Definition py_int_of_bool (b : bool) : Z := if b then 1 else 0.
Definition py_nonempty (l : list Z) : bool := match l with [] => false | _ :: _ => true end.
Definition py_some {A} (o : option A) : bool := match o with Some _ => true | None => false end.

(* l[i] with Python's negative-index wrap; IndexError outside *)
Definition py_getitem (l : list Z) (i : Z) : res Z :=
  let n := len l in
  let j := if i <? 0 then i + n else i in
  if (0 <=? j) && (j <? n) then Ok (nthZ l j) else Err E_INDEX.

(* self._trans_idx[i]: the ttinfo object of transition i *)
Definition py_trans_idx (d : tzdata) (i : Z) : res (option ttinfo) :=
  do k <- py_getitem (d_idx d) i; Ok (Some (nth_tt (d_tt d) k)).

(* attribute access on a ttinfo-or-None: AttributeError on None *)
Definition attr_offset (o : option ttinfo) : res Z := offset_of o.
Definition attr_delta (o : option ttinfo) : res Z := offset_of o.
Definition attr_isdst (o : option ttinfo) : res Z :=
  match o with Some t => Ok (tt_isdst t) | None => Err E_ATTR end.
Definition attr_dstoffset (o : option ttinfo) : res Z :=
  match o with Some t => Ok (tt_dstoff t) | None => Err E_ATTR end.
Definition attr_abbr (o : option ttinfo) : res (option (list Z)) :=
  match o with Some t => Ok (Some (tt_abbr t)) | None => Err E_ATTR end.

Definition py_bisect_right (l : list Z) (x : Z) : res Z :=
  match bisect_right l x with Some i => Ok i | None => Err E_FUEL end.

(* ------------------------------------------------------------------ a tzinfo object seen through its methods *)
(* module-level functions (datetime_exists, ...) and the generic _tzinfo layer call the zone
   through these; for a tzfile they are the regenerated methods themselves *)
Record tzobj : Type := mkTzObj {
  tz_utcoffset : pydt -> res Z;        (* aware.utcoffset(), incl. CPython's (-24 h, 24 h) check *)
  tz_dst : pydt -> res Z;
  tz_fromutc : pydt -> res pydt;       (* tz.fromutc(dt.replace(tzinfo=tz)) *)
  tz_is_ambiguous : pydt -> res bool }.

(* aware.astimezone(UTC) = (aware - aware.utcoffset()).replace(tzinfo=UTC) *)
Definition py_astimezone_utc (tz : tzobj) (dt : pydt) : res pydt :=
  do o <- tz_utcoffset tz dt; Ok (fst dt - o, false).
(* utc.astimezone(tz) = tz.fromutc(utc.replace(tzinfo=tz)) *)
Definition py_astimezone_from_utc (tz : tzobj) (dt : pydt) : res pydt := tz_fromutc tz dt.

(* ------------------------------------------------------------------ round 4: __eq__ layer and the loops of _read_tzfile *)
(* str == str *)
Definition py_str_eqb (a b : list Z) : bool := if list_eq_dec Z.eq_dec a b then true else false.
(* self._trans_idx as the tuple of ttinfo objects *)
Definition py_trans_idx_objects (d : tzdata) : list ttinfo := map (nth_tt (d_tt d)) (d_idx d).

(* truth value of an int-or-None *)
Definition py_truthy_OZ (o : option Z) : bool := match o with Some x => negb (x =? 0) | None => false end.
(* the int of an int-or-None; only evaluated where the value was just tested to be an int *)
Definition py_oz_get (o : option Z) : Z := match o with Some x => x | None => 0 end.
Definition E_TYPE := 7.    (* TypeError: arithmetic on None *)
Definition py_unwrap (o : option Z) : res Z := match o with Some x => Ok x | None => Err E_TYPE end.
(* <ttinfo object or None>.offset / .isdst, ttinfo objects being indices into the type list *)
Definition py_ref_offset (types : list ttinfo) (o : option Z) : res Z :=
  match o with Some k => Ok (tt_off (nth_tt types k)) | None => Err E_ATTR end.
Definition py_ref_isdst (types : list ttinfo) (o : option Z) : res Z :=
  match o with Some k => Ok (tt_isdst (nth_tt types k)) | None => Err E_ATTR end.

(* for i in <list>: body   with `break` recorded in the state *)
Fixpoint py_for {S : Type} (f : S -> Z -> res S) (brk : S -> bool) (l : list Z) (s : S) : res S :=
  match l with
  | [] => Ok s
  | i :: r => if brk s then Ok s else do s' <- f s i; py_for f brk r s'
  end.
(* for i, x in enumerate(<list>): body *)
Fixpoint py_for_enumerate {S : Type} (f : S -> Z -> Z -> res S) (l : list Z) (i : Z) (s : S) : res S :=
  match l with
  | [] => Ok s
  | x :: r => do s' <- f s i x; py_for_enumerate f r (i + 1) s'
  end.
(* range(n - 1, -1, -1) *)
Definition py_range_down (n : Z) : list Z := rev (seqZ 0 (Z.to_nat n)).
