(* Witnesses that the guards are needed (each is an OPEN finding replayed on the implementation).
   1. F-C05-short-regime (audit A1): a daylight regime of 30 min between +1 h and back.  Every wall time
      has at most two pre-images, but the regime is shorter than the repeated interval at its end
      (outside wf_zone): tzfile.is_ambiguous has no lower bound, so a wall time with ONE pre-image is
      called ambiguous, fold = 0 reads it with the old offset, and datetime_exists says False.
   2. F-C04-tzical-std-change: the generic _tzinfo.fromutc on a zone whose standard offset changes
      (+3 h -> +4 h): for an instant in the first hours after the change the wall reading is wrong. *)
From Coq Require Import ZArith List Bool.
From V Require Import tzfile.TzModel tzfile.TzSpec tzfile.TzData tzfile.TzZoneThm tzfile.TzGenericModel.
Import ListNotations.
Open Scope Z_scope.

Definition short_raw : raw :=
  mkRaw [1000000; 1001800; 11000000] [1; 2; 0] [(0, 0, 0); (3600, 1, 4); (0, 0, 0)]
        [83; 84; 68; 0; 68; 83; 84; 0] 0 [] [].
Definition short_d : tzdata :=
  match read_tzfile (render_tzif short_raw) with Ok d => d | Err _ => mkTz [] [] [] [] None None None end.

Theorem short_regime_refuted_lemma : exists d w,
  good d = true /\ wf_zone (zone_of d) = false /\
  length (preimages (zone_of d) w) = 1%nat /\
  (forall x, In x [w - 3600; w; w + 1600; w + 3400] -> (length (preimages (zone_of d) x) <= 2)%nat) /\
  datetime_ambiguous d w = Ok true /\ datetime_exists d w false = Ok false /\
  utcoffset d w false = Ok 3600 /\ fromutc d w = Ok (w, true).
Proof.
  exists short_d, 1002000.
  split; [vm_compute; reflexivity|]. split; [vm_compute; reflexivity|]. split; [vm_compute; reflexivity|].
  split.
  { intros x [<-|[<-|[<-|[<-|[]]]]]; vm_compute; repeat constructor. }
  split; [vm_compute; reflexivity|]. split; [vm_compute; reflexivity|]. split; vm_compute; reflexivity.
Qed.

(* Europe/Moscow-like: +3 h, from 1000000 on +4 h (a STANDARD change, dst() = 0 everywhere) *)
Theorem generic_std_change_refuted_lemma : exists (p : Z) (tr : list (Z * Z)) (u : Z),
  wf_zone (mkZone p tr) = true /\
  fst (g_fromutc (A_utcoffset p tr) (fun _ _ => 0) u) <> local (mkZone p tr) u.
Proof.
  exists 10800, [(1000000, 14400)], 1001800. vm_compute. split; [reflexivity|]. intros H. discriminate H.
Qed.
