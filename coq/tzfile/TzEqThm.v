(* C06: tzfile.__eq__ compares _trans_list, _trans_idx (the ttinfo objects) and _ttinfo_list only.
   For zones produced by the decoder these determine everything the lookups use (_ttinfo_std,
   _ttinfo_dst, _ttinfo_before, _trans_list_utc), so equal zones behave identically. *)
From Coq Require Import ZArith List Bool Lia ZifyBool.
From V Require Import tzfile.TzModel tzfile.TzSpec tzfile.TzData tzfile.TzBisect tzfile.TzIndex
  tzfile.TzBridge tzfile.TzDecodeThm tzfile.TzBeforeThm.
Import ListNotations.
Open Scope Z_scope.

Definition mapped (d : tzdata) : list ttinfo := map (nth_tt (d_tt d)) (d_idx d).
Definition is_dst (t : ttinfo) : bool := negb (tt_isdst t =? 0).
Definition std_of (l : list ttinfo) : option ttinfo :=
  match find (fun t => negb (is_dst t)) (rev l) with Some t => Some t | None => find is_dst (rev l) end.
Definition dst_of (l : list ttinfo) : option ttinfo := find is_dst (rev l).
Definition before_of (tt : list ttinfo) : option ttinfo :=
  match find (fun t => negb (is_dst t)) tt with Some t => Some t | None => Some (nth_tt tt 0) end.

(* ------------------------------------------------------------------ reflection of zone_eqb *)
Lemma list_eqb_eq : forall (A : Type) (f : A -> A -> bool), (forall a b, f a b = true -> a = b) ->
  forall l1 l2, list_eqb f l1 l2 = true -> l1 = l2.
Proof.
  intros A f Hf. induction l1 as [|a l1 IH]; intros [|b l2] H; cbn in H; try discriminate; [reflexivity|].
  apply andb_prop in H. destruct H as [H1 H2]. f_equal; [apply Hf; exact H1|apply IH; exact H2].
Qed.

Lemma tt_eqb_eq : forall a b, tt_eqb a b = true -> a = b.
Proof.
  intros [o1 i1 a1 s1 g1 d1] [o2 i2 a2 s2 g2 d2] H. unfold tt_eqb in H.
  cbn [tt_off tt_isdst tt_abbr tt_isstd tt_isgmt tt_dstoff] in H.
  apply andb_prop in H. destruct H as [H H6]. apply andb_prop in H. destruct H as [H H5].
  apply andb_prop in H. destruct H as [H H4]. apply andb_prop in H. destruct H as [H H3].
  apply andb_prop in H. destruct H as [H1 H2].
  destruct (list_eq_dec Z.eq_dec a1 a2) as [->|]; [|discriminate H3].
  apply Z.eqb_eq in H1. apply Z.eqb_eq in H2. apply Z.eqb_eq in H6.
  apply Bool.eqb_prop in H4. apply Bool.eqb_prop in H5. subst. reflexivity.
Qed.

Lemma zone_eqb_eq : forall d1 d2, zone_eqb d1 d2 = true ->
  d_wall d1 = d_wall d2 /\ mapped d1 = mapped d2 /\ d_tt d1 = d_tt d2.
Proof.
  intros d1 d2 H. unfold zone_eqb in H. apply andb_prop in H. destruct H as [H H3].
  apply andb_prop in H. destruct H as [H1 H2]. repeat split.
  - apply (list_eqb_eq Z Z.eqb); [intros a b E; apply Z.eqb_eq; exact E|exact H1].
  - apply (list_eqb_eq ttinfo tt_eqb tt_eqb_eq). exact H2.
  - apply (list_eqb_eq ttinfo tt_eqb tt_eqb_eq). exact H3.
Qed.

(* ------------------------------------------------------------------ what build computes, index-free *)
(* the scan without its early exit *)
Fixpoint scan_nb (types : list ttinfo) (l : list Z) (std dst : option Z) : option Z * option Z :=
  match l with
  | [] => (std, dst)
  | k :: r =>
    let isd := negb (tt_isdst (nth_tt types k) =? 0) in
    let sd := if is_none std && negb isd then (Some k, dst)
              else if is_none dst && isd then (std, Some k) else (std, dst) in
    scan_nb types r (fst sd) (snd sd)
  end.

Lemma scan_nb_full : forall types l s d, scan_nb types l (Some s) (Some d) = (Some s, Some d).
Proof. induction l as [|k r IH]; intros s d; cbn [scan_nb is_none andb fst snd]; [reflexivity|apply IH]. Qed.

Lemma scan_sd_nb : forall types l std dst, scan_sd types l std dst = scan_nb types l std dst.
Proof.
  induction l as [|k r IH]; intros std dst; cbn [scan_sd scan_nb]; [reflexivity|].
  set (sd := if is_none std && negb (negb (tt_isdst (nth_tt types k) =? 0)) then (Some k, dst)
             else if is_none dst && negb (tt_isdst (nth_tt types k) =? 0) then (std, Some k) else (std, dst)).
  destruct (fst sd) as [s|] eqn:E1; destruct (snd sd) as [dd|] eqn:E2; cbn [is_none negb andb]; try apply IH.
  rewrite scan_nb_full. destruct sd. cbn in E1, E2. subst. reflexivity.
Qed.

Lemma scan_nb_find : forall types l std dst,
  opt_tt types (fst (scan_nb types l std dst)) =
    match std with Some k => Some (nth_tt types k)
    | None => find (fun t => negb (is_dst t)) (map (nth_tt types) l) end /\
  opt_tt types (snd (scan_nb types l std dst)) =
    match dst with Some k => Some (nth_tt types k)
    | None => find is_dst (map (nth_tt types) l) end.
Proof.
  induction l as [|k r IH]; intros std dst; cbn [scan_nb map find].
  - destruct std, dst; split; reflexivity.
  - unfold is_dst at 1 3. destruct (tt_isdst (nth_tt types k) =? 0) eqn:E; cbn [negb andb];
      destruct std as [s|], dst as [dd|]; cbn [is_none andb negb fst snd];
      destruct (IH (Some k) (Some k)) as [A1 A2]; cbn [opt_tt] in *;
      try (destruct (IH (Some s) (Some dd)) as [B1 B2]);
      try (destruct (IH (Some s) None) as [C1 C2]); try (destruct (IH None (Some dd)) as [D1 D2]);
      try (destruct (IH None None) as [E1 E2]);
      try (destruct (IH (Some k) None) as [F1 F2]); try (destruct (IH None (Some k)) as [G1 G2]);
      try (destruct (IH (Some s) (Some k)) as [H1 H2]); try (destruct (IH (Some k) (Some dd)) as [I1 I2]);
      split; cbn [opt_tt] in *; assumption.
Qed.

Lemma set_dstoffs_isdst_map : forall types0 ds l, length ds = length types0 ->
  map (fun t => is_dst t) (map (nth_tt (set_dstoffs types0 ds)) l) = map (fun t => is_dst t) (map (nth_tt types0) l).
Proof.
  intros types0 ds l H. rewrite !map_map. apply map_ext. intros k. unfold is_dst, nth_tt.
  destruct (set_dstoffs_nth types0 ds (Z.to_nat k) H) as [_ [E _]]. rewrite E. reflexivity.
Qed.

Lemma scan_nb_ext : forall A B l s d, (forall k, tt_isdst (nth_tt A k) = tt_isdst (nth_tt B k)) ->
  scan_nb A l s d = scan_nb B l s d.
Proof.
  intros A B l. induction l as [|k r IH]; intros s d H; cbn [scan_nb]; [reflexivity|].
  rewrite (H k). apply IH. exact H.
Qed.

Lemma first_std_find : forall A B acc, length A = length B ->
  (forall n, tt_isdst (nth n A tt0) = tt_isdst (nth n B tt0)) ->
  match first_std A acc with
  | Some k => acc <= k /\ find (fun t => negb (is_dst t)) B = Some (nth (Z.to_nat (k - acc)) B tt0)
  | None => find (fun t => negb (is_dst t)) B = None
  end.
Proof.
  induction A as [|a A IH]; intros [|b B] acc Hl H; cbn [length] in Hl; try discriminate.
  - reflexivity.
  - cbn [first_std find]. pose proof (H O) as H0. cbn [nth] in H0. unfold is_dst at 1 3. rewrite <- H0.
    destruct (tt_isdst a =? 0) eqn:E; cbn [negb].
    + split; [lia|]. replace (acc - acc) with 0 by lia. reflexivity.
    + specialize (IH B (acc + 1) ltac:(lia) (fun n => H (S n))).
      destruct (first_std A (acc + 1)) as [k|].
      * destruct IH as [Hk Hf]. split; [lia|]. rewrite Hf. f_equal.
        replace (Z.to_nat (k - acc)) with (S (Z.to_nat (k - (acc + 1)))) by lia. reflexivity.
      * exact IH.
Qed.

(* the fields of a decoded file with transitions, index-free *)
Lemma build_fields : forall r d, build r = Ok d -> r_types r <> [] -> r_times r <> [] ->
  d_std d = std_of (mapped d) /\ d_dst d = dst_of (mapped d) /\ d_before d = before_of (d_tt d).
Proof.
  intros r d H Hty Hti. pose proof (build_before r d H Hty Hti) as Hbef. unfold build in H.
  set (types0 := mk_types (r_abbr r) (r_isstd r) (r_isgmt r) O (r_types r)) in *.
  destruct (forallb (fun k => k <? len types0) (r_idx r)) eqn:Ef; cbn [negb] in H; [|discriminate].
  destruct types0 as [|t0 tl] eqn:Et.
  - exfalso. apply Hty. pose proof (mk_types_length (r_abbr r) (r_isstd r) (r_isgmt r) (r_types r) O) as Hl.
    fold types0 in Hl. rewrite Et in Hl. destruct (r_types r); [reflexivity|discriminate].
  - rewrite <- Et in *. destruct (r_times r) as [|t1 ts] eqn:Ets; [contradiction|].
    set (ds := dst_pass types0 (r_idx r) None 0 0 (map (fun _ => 0) types0)) in *.
    assert (Hds : length ds = length types0) by (unfold ds; rewrite dst_pass_length; apply map_length).
    set (types := set_dstoffs types0 ds) in *.
    assert (Hsame : forall k, tt_isdst (nth_tt types0 k) = tt_isdst (nth_tt types k)).
    { intros k. unfold nth_tt, types. destruct (set_dstoffs_nth types0 ds (Z.to_nat k) Hds) as [_ [E _]]. symmetry. exact E. }
    set (sd := scan_sd types0 (rev (r_idx r)) None None) in *.
    assert (Hsd : sd = scan_nb types (rev (r_idx r)) None None).
    { unfold sd. rewrite scan_sd_nb. apply scan_nb_ext. exact Hsame. }
    destruct (scan_nb_find types (rev (r_idx r)) None None) as [F1 F2]. rewrite <- Hsd in F1, F2.
    destruct (opt_tt types (match fst sd with None => snd sd | Some k => Some k end)) as [s|] eqn:Es; [|discriminate].
    destruct (opt_tt types (match first_std types0 0 with Some k => Some k | None => Some 0 end)) as [b|] eqn:Eb; [|discriminate].
    inversion H; subst d. cbn [d_std d_dst d_before d_tt d_idx mapped] in *.
    unfold mapped. cbn [d_tt d_idx]. fold types. unfold std_of, dst_of. rewrite <- map_rev.
    split; [|split].
    + rewrite <- Es. destruct (fst sd) as [k|] eqn:E1; cbn [opt_tt] in F1 |- *.
      * rewrite <- F1. reflexivity.
      * rewrite <- F1. exact F2.
    + exact F2.
    + rewrite Hbef. unfold before_of, before_index.
      assert (Hlen : length types0 = length types) by (unfold types; symmetry; apply set_dstoffs_length; exact Hds).
      pose proof (first_std_find types0 types 0 Hlen) as Hfs.
      assert (Hn : forall n, tt_isdst (nth n types0 tt0) = tt_isdst (nth n types tt0)).
      { intros n. specialize (Hsame (Z.of_nat n)). unfold nth_tt in Hsame. rewrite Nat2Z.id in Hsame. exact Hsame. }
      specialize (Hfs Hn). destruct (first_std types0 0) as [k|].
      * destruct Hfs as [Hk Hf]. rewrite Hf. unfold nth_tt. replace (k - 0) with k by lia. reflexivity.
      * rewrite Hfs. reflexivity.
Qed.

(* the UTC transition list is determined by the wall list and the offsets *)
Lemma walls_inj : forall u1 u2 e p, length u1 = length e -> length u2 = length e ->
  walls p (combine u1 e) = walls p (combine u2 e) -> u1 = u2.
Proof.
  induction u1 as [|a u1 IH]; intros [|b u2] [|x e] p H1 H2 H; cbn [length] in *; try discriminate; try reflexivity.
  cbn [combine walls] in H. inversion H. f_equal; [lia|]. apply (IH u2 e x); try lia. assumption.
Qed.

(* _get_ttinfo depends on the zone only through these *)
Lemma get_ttinfo_ext : forall d1 d2, d_wall d1 = d_wall d2 -> d_std d1 = d_std d2 -> d_before d1 = d_before d2 ->
  mapped d1 = mapped d2 -> d_tt d1 = d_tt d2 -> forall idx, get_ttinfo d1 idx = get_ttinfo d2 idx.
Proof.
  intros d1 d2 Hw Hs Hb Hm Ht idx. unfold get_ttinfo. rewrite Hw, Hs, Hb. destruct idx as [i|]; [|reflexivity].
  destruct (i + 1 >=? len (d_wall d2)); [reflexivity|]. destruct (i <? 0); [reflexivity|]. f_equal.
  assert (E : forall d, nth_tt (d_tt d) (nthZ (d_idx d) i) = nth (Z.to_nat i) (mapped d) (nth_tt (d_tt d) 0)).
  { intros d. unfold mapped, nthZ. symmetry. apply (map_nth (nth_tt (d_tt d)) (d_idx d) 0). }
  rewrite !E. rewrite Hm, Ht. reflexivity.
Qed.

(* every lookup of the model depends on the zone only through these *)
Lemma obs_ext : forall d1 d2, d_wall d1 = d_wall d2 -> d_utc d1 = d_utc d2 -> d_std d1 = d_std d2 ->
  d_dst d1 = d_dst d2 -> (forall idx, get_ttinfo d1 idx = get_ttinfo d2 idx) ->
  forall x f, fromutc d1 x = fromutc d2 x /\ utcoffset d1 x f = utcoffset d2 x f /\ dst d1 x f = dst d2 x f /\
    tzname d1 x f = tzname d2 x f /\ datetime_exists d1 x f = datetime_exists d2 x f /\
    datetime_ambiguous d1 x = datetime_ambiguous d2 x /\ resolve_imaginary d1 x f = resolve_imaginary d2 x f.
Proof.
  intros d1 d2 Hw Hu Hs Hd Hg.
  assert (Hfl : forall x b, find_last d1 x b = find_last d2 x b) by (intros; unfold find_last; rewrite Hw, Hu; reflexivity).
  assert (Hamb : forall x idx, is_ambiguous d1 x idx = is_ambiguous d2 x idx).
  { intros. unfold is_ambiguous. rewrite Hfl, Hw. destruct idx; cbn [bind].
    - rewrite !Hg. reflexivity.
    - destruct (find_last d2 x false) as [o|]; cbn [bind]; [|reflexivity]. rewrite !Hg. destruct o; [|reflexivity].
      rewrite !Hg. reflexivity. }
  assert (Hfu : forall x, fromutc d1 x = fromutc d2 x).
  { intros. unfold fromutc. rewrite Hfl. destruct (find_last d2 x true); cbn [bind]; [|reflexivity].
    rewrite Hg. destruct (offset_of (get_ttinfo d2 a)); cbn [bind]; [|reflexivity]. rewrite Hamb. reflexivity. }
  assert (Hri : forall x f, resolve_idx d1 x f = resolve_idx d2 x f).
  { intros. unfold resolve_idx. rewrite Hfl. destruct (find_last d2 x false) as [o|]; cbn [bind]; [|reflexivity].
    destruct o; [|reflexivity]. rewrite Hamb. reflexivity. }
  assert (Hft : forall x f, find_ttinfo d1 x f = find_ttinfo d2 x f).
  { intros. unfold find_ttinfo. rewrite Hri. destruct (resolve_idx d2 x f); cbn [bind]; [|reflexivity]. rewrite Hg. reflexivity. }
  assert (Huo : forall x f, utcoffset d1 x f = utcoffset d2 x f) by (intros; unfold utcoffset; rewrite Hs, Hft; reflexivity).
  assert (Hdu : forall x f, dt_utcoffset d1 x f = dt_utcoffset d2 x f) by (intros; unfold dt_utcoffset; rewrite Huo; reflexivity).
  assert (Htu : forall x f, to_utc d1 x f = to_utc d2 x f) by (intros; unfold to_utc; rewrite Hdu; reflexivity).
  assert (Hex : forall x f, datetime_exists d1 x f = datetime_exists d2 x f).
  { intros. unfold datetime_exists. rewrite Htu. destruct (to_utc d2 x f); cbn [bind]; [|reflexivity]. rewrite Hfu. reflexivity. }
  intros x f. repeat split.
  - apply Hfu.
  - apply Huo.
  - unfold dst. rewrite Hd, Hft. reflexivity.
  - unfold tzname. rewrite Hs, Hft. reflexivity.
  - apply Hex.
  - unfold datetime_ambiguous. apply Hamb.
  - unfold resolve_imaginary. rewrite Hex. destruct (datetime_exists d2 x f) as [e|]; cbn [bind]; [|reflexivity].
    destruct e; [reflexivity|]. rewrite Htu. destruct (to_utc d2 x f); cbn [bind]; [|reflexivity]. rewrite Hfu. reflexivity.
Qed.

Lemma build_notrans : forall r d, build r = Ok d -> r_types r <> [] -> r_times r = [] ->
  exists types, d = mkTz [] [] [] types (Some (nth_tt types 0)) None None.
Proof.
  intros r d H Hty Ht. unfold build in H. rewrite Ht in H.
  destruct (negb (forallb _ (r_idx r))); [discriminate|].
  destruct (mk_types (r_abbr r) (r_isstd r) (r_isgmt r) 0 (r_types r)) eqn:Et.
  - exfalso. apply Hty. pose proof (mk_types_length (r_abbr r) (r_isstd r) (r_isgmt r) (r_types r) O) as Hl.
    rewrite Et in Hl. destruct (r_types r); [reflexivity|discriminate].
  - inversion H. eexists. reflexivity.
Qed.

Lemma goff_ext : forall d1 d2, (forall idx, get_ttinfo d1 idx = get_ttinfo d2 idx) -> forall idx, goff d1 idx = goff d2 idx.
Proof. intros d1 d2 H idx. unfold goff. rewrite H. reflexivity. Qed.

Theorem eq_zones_behave_same_lemma : forall r1 r2 d1 d2, build r1 = Ok d1 -> build r2 = Ok d2 ->
  r_types r1 <> [] -> r_types r2 <> [] ->
  length (r_idx r1) = length (r_times r1) -> length (r_idx r2) = length (r_times r2) ->
  zone_eqb d1 d2 = true ->
  forall x f, fromutc d1 x = fromutc d2 x /\ utcoffset d1 x f = utcoffset d2 x f /\ dst d1 x f = dst d2 x f /\
    tzname d1 x f = tzname d2 x f /\ datetime_exists d1 x f = datetime_exists d2 x f /\
    datetime_ambiguous d1 x = datetime_ambiguous d2 x /\ resolve_imaginary d1 x f = resolve_imaginary d2 x f.
Proof.
  intros r1 r2 d1 d2 B1 B2 T1 T2 L1 L2 Heq.
  destruct (zone_eqb_eq d1 d2 Heq) as [Hw [Hm Ht]].
  pose proof (build_good_lemma r1 d1 B1 T1 L1) as G1. pose proof (build_good_lemma r2 d2 B2 T2 L2) as G2.
  destruct (good_parts d1 G1) as [W1 [_ [_ [_ Hwl1]]]]. destruct (good_parts d2 G2) as [W2 [_ [_ [_ Hwl2]]]].
  destruct (r_times r1) as [|a1 ts1] eqn:E1; destruct (r_times r2) as [|a2 ts2] eqn:E2.
  - destruct (build_notrans r1 d1 B1 T1 E1) as [ty1 D1]. destruct (build_notrans r2 d2 B2 T2 E2) as [ty2 D2].
    subst d1 d2. cbn [d_tt] in Ht. subst ty2. intros x f. repeat split; reflexivity.
  - exfalso. destruct (build_notrans r1 d1 B1 T1 E1) as [ty1 D1].
    assert (Hti : r_times r2 <> []) by (rewrite E2; discriminate).
    destruct (build_shape r2 d2 B2 T2 Hti) as [s [b [ds [dd [D2 _]]]]].
    rewrite D1 in Hw. rewrite D2 in Hw, W2. cbn [d_wall d_utc] in Hw, W2. rewrite <- Hw in W2. rewrite E2 in W2. discriminate.
  - exfalso. destruct (build_notrans r2 d2 B2 T2 E2) as [ty2 D2].
    assert (Hti : r_times r1 <> []) by (rewrite E1; discriminate).
    destruct (build_shape r1 d1 B1 T1 Hti) as [s [b [ds [dd [D1 _]]]]].
    rewrite D2 in Hw. rewrite D1 in Hw, W1. cbn [d_wall d_utc] in Hw, W1. rewrite Hw in W1. rewrite E1 in W1. discriminate.
  - rewrite <- E1 in *. rewrite <- E2 in *.
    assert (Hti1 : r_times r1 <> []) by (rewrite E1; discriminate).
    assert (Hti2 : r_times r2 <> []) by (rewrite E2; discriminate).
    destruct (build_fields r1 d1 B1 T1 Hti1) as [S1 [Ds1 Bf1]].
    destruct (build_fields r2 d2 B2 T2 Hti2) as [S2 [Ds2 Bf2]].
    assert (Hs : d_std d1 = d_std d2) by (rewrite S1, S2, Hm; reflexivity).
    assert (Hd : d_dst d1 = d_dst d2) by (rewrite Ds1, Ds2, Hm; reflexivity).
    assert (Hb : d_before d1 = d_before d2) by (rewrite Bf1, Bf2, Ht; reflexivity).
    pose proof (get_ttinfo_ext d1 d2 Hw Hs Hb Hm Ht) as Hg.
    pose proof (goff_ext d1 d2 Hg) as Hgo.
    assert (Hlen : length (d_utc d1) = length (d_utc d2)) by (rewrite <- W1, <- W2, Hw; reflexivity).
    assert (Heff : eff_offs d1 = eff_offs d2).
    { unfold eff_offs. rewrite Hlen. apply map_ext. intros i. apply Hgo. }
    assert (Hp : z_init (zone_of d1) = z_init (zone_of d2)).
    { cbn [zone_of z_init]. rewrite Hw. apply Hgo. }
    assert (Hu : d_utc d1 = d_utc d2).
    { apply (walls_inj _ _ (eff_offs d2) (z_init (zone_of d2))).
      - rewrite <- Heff. symmetry. apply len_eff.
      - symmetry. apply len_eff.
      - cbn [zone_of z_trans] in Hwl1, Hwl2. rewrite <- Hwl2. rewrite <- Hw. rewrite Hwl1.
        rewrite Heff. rewrite Hp. reflexivity. }
    apply obs_ext; assumption.
Qed.
