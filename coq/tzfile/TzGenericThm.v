(* The generic _tzinfo.fromutc is right for every zone that (H1) keeps utcoffset - dst constant,
   (H2) answers the dst() probe of _fromutc with the DST amount in force at the instant,
   (H3) reports different offsets for the two folds exactly on wall times with two pre-images,
   (H4) is on standard time at the later of two instants sharing a wall reading, and
   (H5) maps (wall, fold) of an instant back to that instant's offset.
   These are the obligations a zone class using the generic layer (tzical, tzlocal) has to meet;
   they are stated against the same spec as the tzfile theorems. *)
From Coq Require Import ZArith List Bool Lia ZifyBool.
From V Require Import tzfile.TzModel tzfile.TzSpec tzfile.TzData tzfile.TzWallThm tzfile.TzFinalThm
  tzfile.TzGenericModel.
Import ListNotations.
Open Scope Z_scope.

Section GenericThm.
Variable UO : Z -> bool -> Z.
Variable DST : Z -> bool -> Z.
Variable z : zone.
Variable so : Z.
Hypothesis Hwf : wf_zone z = true.
Hypothesis H1 : forall x f, UO x f - DST x f = so.
Hypothesis H2 : forall u, DST (u + so) true = off z u - so.
Hypothesis H3 : forall w, g_is_ambiguous UO w = true <-> length (preimages z w) = 2%nat.
Hypothesis H4 : forall a b, a < b -> local z a = local z b -> off z b = so.
Hypothesis H5 : forall u, UO (local z u) (fold_spec z u) = off z u.

Lemma two_preimages_cases : forall w u, length (preimages z w) = 2%nat -> local z u = w ->
  exists v, v <> u /\ local z v = w /\ forall x, local z x = w -> x = u \/ x = v.
Proof.
  intros w u Hl Hu. pose proof (pre_nodup z w) as Hnd.
  assert (Hin : forall x, In x (preimages z w) <-> local z x = w) by (intros; apply pre_in).
  apply Hin in Hu. remember (preimages z w) as l eqn:El. clear El.
  destruct l as [|a [|b [|c r]]]; cbn [length] in Hl; try lia.
  inversion Hnd as [|? ? Hn _]; subst.
  assert (a <> b) by (intros ->; apply Hn; left; reflexivity).
  destruct Hu as [Hu|[Hu|[]]]; subst u.
  - exists b. split; [congruence|]. split; [apply Hin; right; left; reflexivity|].
    intros x Hx. apply Hin in Hx. destruct Hx as [Hx|[Hx|[]]]; [left|right]; congruence.
  - exists a. split; [congruence|]. split; [apply Hin; left; reflexivity|].
    intros x Hx. apply Hin in Hx. destruct Hx as [Hx|[Hx|[]]]; [right|left]; congruence.
Qed.

Theorem generic_roundtrip_lemma : forall u,
  let (w, f) := g_fromutc UO DST u in
  w = local z u /\ f = fold_spec z u /\ UO w f = off z u /\ w - UO w f = u.
Proof.
  intros u. unfold g_fromutc.
  assert (Hw : g_fromutc_wall UO DST u = local z u).
  { unfold g_fromutc_wall. rewrite (H1 u false). rewrite H2. unfold local. lia. }
  rewrite Hw.
  assert (Hf : g_fold_status UO DST u (local z u) = fold_spec z u).
  { unfold g_fold_status. rewrite (H1 u false). unfold fold_spec.
    destruct (g_is_ambiguous UO (local z u)) eqn:Ea.
    - apply H3 in Ea. destruct (two_preimages_cases (local z u) u Ea eq_refl) as [v [Hne [Hv Hall]]].
      destruct (Z_lt_le_dec v u) as [Hlt|Hge].
      + (* u is the later instant: standard time, fold = 1 *)
        pose proof (H4 v u Hlt Hv) as Hso. unfold local at 1. replace (u + off z u - u =? so) with true by lia.
        symmetry. apply existsb_exists. exists v. split; [apply pre_in; exact Hv|lia].
      + assert (Hlt : u < v) by lia. pose proof (H4 u v Hlt (eq_sym Hv)) as Hso.
        assert (off z u <> so). { unfold local in Hv. lia. }
        unfold local at 1. replace (u + off z u - u =? so) with false by lia.
        symmetry. apply not_true_is_false. intros Hex. apply existsb_exists in Hex.
        destruct Hex as [x [Hx Hxl]]. apply pre_in in Hx. destruct (Hall x Hx); lia.
    - symmetry. apply not_true_is_false. intros Hex. apply existsb_exists in Hex.
      destruct Hex as [x [Hx Hxl]]. apply pre_in in Hx.
      (* two distinct pre-images x < u: then there are exactly two, so the zone must say ambiguous *)
      assert (Hl : length (preimages z (local z u)) = 2%nat).
      { pose proof (preimages_le_2_lemma z (local z u) Hwf) as Hle. pose proof (pre_nodup z (local z u)) as Hnd.
        assert (Hin : forall y, In y (preimages z (local z u)) <-> local z y = local z u) by (intros; apply pre_in).
        assert (Hxi := proj2 (Hin x) Hx). assert (Hui := proj2 (Hin u) eq_refl).
        remember (preimages z (local z u)) as l eqn:El. clear El Hin.
        destruct l as [|a [|b [|c r]]]; cbn [length] in *; try lia.
        - destruct Hxi.
        - destruct Hxi as [Hxi|[]]. destruct Hui as [Hui|[]]. lia. }
      apply H3 in Hl. congruence. }
  rewrite Hf. repeat split. { apply H5. } rewrite H5. unfold local. lia.
Qed.

End GenericThm.
