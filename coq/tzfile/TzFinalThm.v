(* C04 / C05 for the concrete tzfile model: statements about fromutc / utcoffset /
   datetime_exists / datetime_ambiguous / resolve_imaginary of a decoded file d against the
   spec of the zone zone_of d, for ALL d satisfying the decoder invariant and ALL instants. *)
From Coq Require Import ZArith List Bool Lia ZifyBool.
From V Require Import tzfile.TzModel tzfile.TzSpec tzfile.TzData tzfile.TzBisect tzfile.TzIndex
  tzfile.TzZoneThm tzfile.TzWallThm tzfile.TzBridge.
Import ListNotations.
Open Scope Z_scope.
Ltac Zify.zify_post_hook ::= Z.to_euclidean_division_equations.

Lemma wf_zone_from : forall z, wf_zone z = true -> wf_from (z_init z) (z_trans z) = true.
Proof. intros z H. unfold wf_zone in H. apply andb_prop in H. destruct H as [H _]. apply andb_prop in H. tauto. Qed.

Lemma zone_eta : forall z, z = mkZone (z_init z) (z_trans z).
Proof. intros [p tr]. reflexivity. Qed.

(* ------------------------------------------------------------------ spec-level: any well-formed zone *)
Theorem preimages_le_2_lemma : forall z w, wf_zone z = true -> (length (preimages z w) <= 2)%nat.
Proof.
  intros z w H. rewrite (zone_eta z). apply preimages_le_2. apply wf_zone_from. exact H.
Qed.

Lemma min_list_in : forall l u, min_list l = Some u -> In u l.
Proof.
  intros [|x r] u H; [discriminate|]. cbn [min_list] in H. inversion H; subst. clear H.
  revert x. induction r as [|y r IH]; intros x; cbn [fold_left].
  - left. reflexivity.
  - destruct (IH (Z.min x y)) as [H|H].
    + destruct (Z.min_spec x y) as [[_ E]|[_ E]]; rewrite E in H at 1; [left|right; left]; exact H.
    + right. right. exact H.
Qed.

Lemma max_list_in : forall l u, max_list l = Some u -> In u l.
Proof.
  intros [|x r] u H; [discriminate|]. cbn [max_list] in H. inversion H; subst. clear H.
  revert x. induction r as [|y r IH]; intros x; cbn [fold_left].
  - left. reflexivity.
  - destruct (IH (Z.max x y)) as [H|H].
    + destruct (Z.max_spec x y) as [[_ E]|[_ E]]; rewrite E in H at 1; [right; left|left]; exact H.
    + right. right. exact H.
Qed.

Section Final.
Variable d : tzdata.
Hypothesis Hgood : good d = true.
Hypothesis Hwf : wf_zone (zone_of d) = true.
Notation z := (zone_of d).
Notation p := (z_init (zone_of d)).
Notation tr := (z_trans (zone_of d)).
Let Hwff := Hwff d Hwf.

(* ------------------------------------------------------------------ C04 *)
Theorem tzfile_roundtrip_lemma : forall u,
  exists w f, fromutc d u = Ok (w, f) /\ dt_utcoffset d w f = Ok (off z u) /\ to_utc d w f = Ok u /\
              w = local z u /\ f = fold_spec z u.
Proof.
  intros u. pose proof (A_roundtrip p tr Hwff u) as H. pose proof (A_fold_spec p tr Hwff u) as Hf.
  destruct (A_fromutc p tr u) as [w f] eqn:E. cbn [snd] in Hf. destruct H as [H1 [H2 H3]].
  exists w, f. rewrite (bridge_fromutc d Hgood Hwf), E.
  rewrite (bridge_dt_utcoffset d Hgood Hwf), (bridge_to_utc d Hgood Hwf).
  repeat split; try assumption; f_equal; assumption.
Qed.

Theorem tzfile_injective_lemma : forall u1 u2, fromutc d u1 = fromutc d u2 -> u1 = u2.
Proof.
  intros u1 u2 H.
  destruct (tzfile_roundtrip_lemma u1) as [w1 [f1 [A1 [_ [B1 _]]]]].
  destruct (tzfile_roundtrip_lemma u2) as [w2 [f2 [A2 [_ [B2 _]]]]].
  rewrite A1, A2 in H. inversion H; subst. rewrite B1 in B2. inversion B2. reflexivity.
Qed.

(* ------------------------------------------------------------------ C05 *)
Theorem exists_iff_lemma : forall w f,
  datetime_exists d w f = Ok (match preimages z w with [] => false | _ :: _ => true end).
Proof.
  intros w f. rewrite (bridge_exists d Hgood Hwf). f_equal.
  pose proof (A_exists_iff p tr Hwff w f) as H.
  destruct (preimages z w) as [|a r] eqn:E.
  - destruct (A_exists p tr w f) eqn:Ex; [|reflexivity]. exfalso.
    destruct (proj1 H eq_refl) as [u Hu]. apply (pre_in z w u) in Hu. rewrite E in Hu. exact Hu.
  - apply H. exists a. apply (pre_in z w a). rewrite E. left. reflexivity.
Qed.

Lemma two_iff : forall w,
  (exists a b, a < b /\ local z a = w /\ local z b = w) <-> length (preimages z w) = 2%nat.
Proof.
  intros w. pose proof (pre_nodup z w) as Hnd. assert (Hle : (length (preimages z w) <= 2)%nat) by (exact (preimages_le_2 p tr Hwff w)).
  assert (Hin : forall u, In u (preimages z w) <-> local z u = w) by (intros; apply pre_in).
  remember (preimages z w) as l eqn:El. clear El.
  split.
  - intros [a [b [Hab [Ha Hb]]]]. apply Hin in Ha. apply Hin in Hb.
    destruct l as [|x [|y [|c r]]]; cbn [length] in *; try lia.
    + destruct Ha.
    + destruct Ha as [Ha|[]]. destruct Hb as [Hb|[]]. lia.
  - intros Hl. destruct l as [|x [|y [|c r]]]; cbn [length] in Hl; try lia.
    inversion Hnd as [|? ? Hn _]; subst.
    assert (x <> y) by (intros ->; apply Hn; left; reflexivity).
    assert (Hx : local z x = w) by (apply Hin; left; reflexivity).
    assert (Hy : local z y = w) by (apply Hin; right; left; reflexivity).
    destruct (Z_lt_le_dec x y); [exists x, y|exists y, x]; repeat split; try assumption; lia.
Qed.

Theorem ambiguous_iff_lemma : forall w,
  datetime_ambiguous d w = Ok (length (preimages z w) =? 2)%nat.
Proof.
  intros w. rewrite (bridge_ambiguous d Hgood Hwf). f_equal.
  pose proof (A_ambiguous_iff p tr Hwff w) as H. pose proof (two_iff w) as H2.
  destruct (A_ambiguous p tr w) eqn:E.
  - symmetry. apply Nat.eqb_eq. apply H2. apply H. reflexivity.
  - symmetry. apply Nat.eqb_neq. intros Hl. apply H2 in Hl. apply H in Hl. discriminate.
Qed.

(* the instant meant by (w, fold) is the earlier / later pre-image *)
Theorem fold_selects_lemma : forall w f u, utc_of_spec z w f = Some u -> to_utc d w f = Ok u.
Proof.
  intros w f u Hs. rewrite (bridge_to_utc d Hgood Hwf). f_equal.
  pose proof (pre_nodup z w) as Hnd. assert (Hle : (length (preimages z w) <= 2)%nat) by (exact (preimages_le_2 p tr Hwff w)).
  assert (Hin : forall x, In x (preimages z w) <-> local z x = w) by (intros; apply pre_in).
  unfold utc_of_spec in Hs.
  remember (preimages z w) as l eqn:El. clear El.
  destruct l as [|a [|b [|c r]]]; cbn [length] in Hle; try lia.
  - destruct f; discriminate.
  - assert (u = a) by (destruct f; cbn in Hs; congruence). subst u.
    apply (A_fold_irrelevant p tr Hwff w a).
    + apply Hin. left. reflexivity.
    + intros u' Hu'. apply Hin in Hu'. destruct Hu' as [Hu'|[]]. congruence.
  - inversion Hnd as [|? ? Hn _]; subst.
    assert (a <> b) by (intros ->; apply Hn; left; reflexivity).
    assert (Ha : local z a = w) by (apply Hin; left; reflexivity).
    assert (Hb : local z b = w) by (apply Hin; right; left; reflexivity).
    destruct (Z_lt_le_dec a b) as [Hlt|Hge].
    + destruct (A_fold_selects p tr Hwff a b w Hlt Ha Hb) as [H0 [H1 _]].
      destruct f; cbn in Hs; inversion Hs; subst u; lia.
    + destruct (A_fold_selects p tr Hwff b a w ltac:(lia) Hb Ha) as [H0 [H1 _]].
      destruct f; cbn in Hs; inversion Hs; subst u; lia.
Qed.

Theorem fold_marks_later_lemma : forall a b, a < b -> local z a = local z b ->
  exists w, fromutc d a = Ok (w, false) /\ fromutc d b = Ok (w, true).
Proof.
  intros a b Hab Heq.
  destruct (A_fold_selects p tr Hwff a b (local z a) Hab eq_refl (eq_sym Heq)) as [_ [_ [Fa Fb]]].
  exists (local z a). rewrite !(bridge_fromutc d Hgood Hwf).
  assert (Wa : fst (A_fromutc p tr a) = local z a) by exact (A_fromutc_wall p tr Hwff a).
  assert (Wb : fst (A_fromutc p tr b) = local z b) by exact (A_fromutc_wall p tr Hwff b).
  destruct (A_fromutc p tr a) as [wa fa]. destruct (A_fromutc p tr b) as [wb fb]. cbn [fst snd] in *.
  subst. rewrite Heq. split; reflexivity.
Qed.

Theorem fold_irrelevant_lemma : forall w u, preimages z w = [u] ->
  to_utc d w false = Ok u /\ to_utc d w true = Ok u.
Proof.
  intros w u H. split; apply fold_selects_lemma; unfold utc_of_spec; rewrite H; reflexivity.
Qed.

(* ------------------------------------------------------------------ resolve_imaginary *)
Theorem resolve_id_lemma : forall w f, preimages z w <> [] -> resolve_imaginary d w f = Ok (w, f).
Proof.
  intros w f H. unfold resolve_imaginary. rewrite exists_iff_lemma. cbn [bind].
  destruct (preimages z w); [contradiction|reflexivity].
Qed.

End Final.
