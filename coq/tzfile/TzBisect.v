(* bisect_right (the model's binary search with fuel) on a sorted list = the number of leading
   elements <= x; index-form facts about sorted lists. *)
From Coq Require Import ZArith List Bool Lia ZifyBool.
From V Require Import tzfile.TzModel.
Import ListNotations.
Open Scope Z_scope.
Ltac Zify.zify_post_hook ::= Z.to_euclidean_division_equations.

Fixpoint count_le (l : list Z) (x : Z) : Z :=
  match l with
  | [] => 0
  | a :: r => if a <=? x then 1 + count_le r x else 0
  end.

Fixpoint sortedb (l : list Z) : bool :=
  match l with
  | a :: r => (match r with b :: _ => a <=? b | [] => true end) && sortedb r
  | [] => true
  end.

Lemma len_cons : forall (A : Type) (a : A) l, len (a :: l) = 1 + len l.
Proof. intros. unfold len. cbn [length]. lia. Qed.

Lemma len_nonneg : forall (A : Type) (l : list A), 0 <= len l.
Proof. intros. unfold len. lia. Qed.

Lemma nthZ_cons_0 : forall a l, nthZ (a :: l) 0 = a.
Proof. reflexivity. Qed.

Lemma nthZ_cons_pos : forall a l i, 0 < i -> nthZ (a :: l) i = nthZ l (i - 1).
Proof.
  intros. unfold nthZ. replace (Z.to_nat i) with (S (Z.to_nat (i - 1))) by lia. reflexivity.
Qed.

Lemma nthZ_nil : forall i, nthZ [] i = 0.
Proof. intros. unfold nthZ. destruct (Z.to_nat i); reflexivity. Qed.

Lemma sorted_head_le : forall l a i, sortedb (a :: l) = true -> 0 <= i < len (a :: l) -> a <= nthZ (a :: l) i.
Proof.
  induction l as [|b r IH]; intros a i Hs Hi.
  - rewrite len_cons in Hi. unfold len in Hi. cbn [length] in Hi. assert (i = 0) by lia. subst. cbn. lia.
  - destruct (Z.eq_dec i 0) as [->|Hn]. { cbn. lia. }
    rewrite nthZ_cons_pos by lia.
    cbn [sortedb] in Hs. apply andb_prop in Hs. destruct Hs as [Hab Hs].
    assert (b <= nthZ (b :: r) (i - 1)).
    { apply IH. exact Hs. rewrite len_cons in Hi. lia. }
    lia.
Qed.

Lemma sorted_tail : forall a l, sortedb (a :: l) = true -> sortedb l = true.
Proof. intros a l H. cbn [sortedb] in H. apply andb_prop in H. tauto. Qed.

Lemma sorted_nth_le : forall l i j, sortedb l = true -> 0 <= i -> i <= j -> j < len l ->
  nthZ l i <= nthZ l j.
Proof.
  induction l as [|a r IH]; intros i j Hs Hi Hij Hj.
  - unfold len in Hj. cbn in Hj. lia.
  - destruct (Z.eq_dec i 0) as [->|Hn].
    + rewrite nthZ_cons_0. apply sorted_head_le. exact Hs. lia.
    + rewrite !nthZ_cons_pos by lia. apply IH. eapply sorted_tail; eauto. lia. lia.
      rewrite len_cons in Hj. lia.
Qed.

Lemma count_le_range : forall l x, 0 <= count_le l x <= len l.
Proof.
  induction l as [|a r IH]; intros x; cbn [count_le].
  - unfold len. cbn. lia.
  - rewrite len_cons. specialize (IH x). destruct (a <=? x); lia.
Qed.

Lemma count_le_below : forall l x i, 0 <= i < count_le l x -> nthZ l i <= x.
Proof.
  induction l as [|a r IH]; intros x i Hi; cbn [count_le] in Hi.
  - lia.
  - destruct (a <=? x) eqn:E; [|lia].
    destruct (Z.eq_dec i 0) as [->|Hn]. { rewrite nthZ_cons_0. lia. }
    rewrite nthZ_cons_pos by lia. apply IH. lia.
Qed.

Lemma count_le_above : forall l x i, sortedb l = true -> count_le l x <= i < len l -> x < nthZ l i.
Proof.
  induction l as [|a r IH]; intros x i Hs Hi; cbn [count_le] in Hi.
  - unfold len in Hi. cbn in Hi. lia.
  - destruct (a <=? x) eqn:E.
    + pose proof (count_le_range r x).
      rewrite nthZ_cons_pos by lia. apply IH. eapply sorted_tail; eauto.
      rewrite len_cons in Hi. lia.
    + assert (a <= nthZ (a :: r) i) by (apply sorted_head_le; [exact Hs|lia]). lia.
Qed.

(* characterisation by the two neighbours *)
Lemma count_le_unique : forall l x k, sortedb l = true -> 0 <= k <= len l ->
  (0 < k -> nthZ l (k - 1) <= x) -> (k < len l -> x < nthZ l k) -> count_le l x = k.
Proof.
  intros l x k Hs Hk Hlo Hhi.
  pose proof (count_le_range l x) as Hr.
  destruct (Z.lt_trichotomy (count_le l x) k) as [Hlt|[He|Hgt]]; [|exact He|].
  - (* count < k : element k-1 is > x *)
    assert (x < nthZ l (k - 1)) by (apply count_le_above; [exact Hs|lia]). lia.
  - assert (nthZ l k <= x) by (apply count_le_below; lia). lia.
Qed.

Lemma bisect_fuel_spec : forall fuel l x lo hi, sortedb l = true ->
  0 <= lo -> lo <= count_le l x -> count_le l x <= hi -> hi <= len l -> (hi - lo < Z.of_nat fuel) ->
  bisect_fuel fuel l x lo hi = Some (count_le l x).
Proof.
  induction fuel as [|f IH]; intros l x lo hi Hs H0 H1 H2 H3 Hf.
  - lia.
  - cbn [bisect_fuel]. destruct (lo <? hi) eqn:E.
    + set (mid := (lo + hi) / 2). assert (lo <= mid < hi) by (unfold mid; lia).
      destruct (x <? nthZ l mid) eqn:E2.
      * apply IH; try lia. exact Hs.
        destruct (Z_lt_le_dec mid (count_le l x)); [|lia].
        assert (nthZ l mid <= x) by (apply count_le_below; lia). lia.
      * apply IH; try lia. exact Hs.
        destruct (Z_lt_le_dec mid (count_le l x)); [lia|].
        assert (x < nthZ l mid) by (apply count_le_above; [exact Hs|lia]). lia.
    + f_equal. lia.
Qed.

Lemma bisect_right_sorted : forall l x, sortedb l = true -> bisect_right l x = Some (count_le l x).
Proof.
  intros. unfold bisect_right. pose proof (count_le_range l x).
  apply bisect_fuel_spec; try lia. exact H. unfold len. lia.
Qed.

Example bisect_right_ex : bisect_right [1; 3; 3; 7] 3 = Some 3 /\ sortedb [1; 3; 3; 7] = true.
Proof. split; reflexivity. Qed.
