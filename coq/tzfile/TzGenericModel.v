(* Executable model of the generic layer dateutil.tz._common._tzinfo (is_ambiguous, _fromutc,
   _fold_status, fromutc), used by tzlocal and the iCalendar zones.  The zone is abstract: UO / DST
   are the zone's utcoffset() / dst() on a naive wall reading (seconds) with a fold flag.
   No proofs in this file. *)
From Coq Require Import ZArith List Bool.
Open Scope Z_scope.

Section Generic.
Variable UO : Z -> bool -> Z.
Variable DST : Z -> bool -> Z.

(* _tzinfo.is_ambiguous: the two folds of the same wall reading report different offsets *)
Definition g_is_ambiguous (w : Z) : bool := negb (UO w false =? UO w true).

(* _tzinfo._fromutc: dt carries the UTC reading (fold 0) *)
Definition g_fromutc_wall (u : Z) : Z :=
  let dtoff := UO u false in
  let dtdst := DST u false in
  let delta := dtoff - dtdst in
  let s := u + delta in
  let dtdst' := DST s true in
  s + dtdst'.

(* _tzinfo._fold_status(dt_utc, dt_wall) *)
Definition g_fold_status (u w : Z) : bool :=
  if g_is_ambiguous w then (w - u =? UO u false - DST u false) else false.

(* _tzinfo.fromutc *)
Definition g_fromutc (u : Z) : Z * bool :=
  let w := g_fromutc_wall u in (w, g_fold_status u w).

(* the fallback of tz.datetime_ambiguous for zones without a usable is_ambiguous(): does the fold
   attribute change utcoffset() or dst()? *)
Definition g_ambiguous_fallback (w : Z) : bool :=
  negb ((UO w false =? UO w true) && (DST w false =? DST w true)).

End Generic.
