(* The decoder invariant: every tzdata produced by build (hence by read_tzfile) from a block with
   at least one type and as many type indices as transition times satisfies `good`; and the
   ttinfo records of the decoded file carry the fields of the raw types. *)
From Coq Require Import ZArith List Bool Lia ZifyBool.
From V Require Import tzfile.TzModel tzfile.TzSpec tzfile.TzData tzfile.TzBisect tzfile.TzIndex
  tzfile.TzBridge.
Import ListNotations.
Open Scope Z_scope.
Ltac Zify.zify_post_hook ::= Z.to_euclidean_division_equations.

(* effective offsets, recursively: the type's offset, except ttinfo_std's for the last transition *)
Fixpoint effs_rec (types : list ttinfo) (soff : Z) (idx : list Z) : list Z :=
  match idx with
  | [] => []
  | k :: r => (match r with [] => soff | _ => tt_off (nth_tt types k) end) :: effs_rec types soff r
  end.

Lemma effs_rec_length : forall types soff idx, length (effs_rec types soff idx) = length idx.
Proof. induction idx as [|k r IH]; cbn [effs_rec length]; [reflexivity|]. rewrite IH. reflexivity. Qed.

Lemma wall_pass_walls : forall types soff ts idx last, length ts = length idx ->
  wall_pass types soff ts idx last = walls last (combine ts (effs_rec types soff idx)).
Proof.
  induction ts as [|t ts IH]; intros idx last Hl.
  - destruct idx; reflexivity.
  - destruct idx as [|k idx]; [discriminate|]. cbn [length] in Hl.
    cbn [wall_pass effs_rec combine walls]. destruct idx as [|k' idx'].
    + destruct ts; [|discriminate]. reflexivity.
    + f_equal. rewrite IH by lia. reflexivity.
Qed.

Lemma effs_rec_nth : forall types soff idx i, 0 <= i < len idx ->
  nthZ (effs_rec types soff idx) i =
  if i + 1 >=? len idx then soff else tt_off (nth_tt types (nthZ idx i)).
Proof.
  induction idx as [|k r IH]; intros i Hi.
  - unfold len in Hi. cbn in Hi. lia.
  - rewrite len_cons in *. cbn [effs_rec]. destruct (Z.eq_dec i 0) as [->|Hne].
    + rewrite !nthZ_cons_0. destruct r as [|k' r'].
      * reflexivity.
      * rewrite len_cons. pose proof (len_nonneg _ r'). destruct (0 + 1 >=? 1 + (1 + len r')) eqn:E; [lia|reflexivity].
    + rewrite !nthZ_cons_pos by lia. rewrite IH by lia.
      destruct (i - 1 + 1 >=? len r) eqn:E1; destruct (i + 1 >=? 1 + len r) eqn:E2; try lia; reflexivity.
Qed.

Lemma nthZ_ext : forall a b : list Z, length a = length b ->
  (forall i, 0 <= i < len a -> nthZ a i = nthZ b i) -> a = b.
Proof.
  intros a b Hl H. apply (nth_ext a b 0 0 Hl). intros n Hn.
  specialize (H (Z.of_nat n)). unfold nthZ in H. rewrite Nat2Z.id in H. apply H. unfold len. lia.
Qed.

Lemma upd_length : forall l k v, length (upd l k v) = length l.
Proof. induction l as [|x l IH]; intros [|k] v; cbn [upd length]; try reflexivity. rewrite IH. reflexivity. Qed.

Lemma dst_pass_length : forall types l ld lo ldo acc, length (dst_pass types l ld lo ldo acc) = length acc.
Proof.
  induction l as [|k r IH]; intros ld lo ldo acc; cbn [dst_pass]; [reflexivity|].
  destruct ld as [ld|]; [|apply IH].
  destruct (negb (tt_isdst (nth_tt types k) =? 0)); [|apply IH].
  rewrite IH. apply upd_length.
Qed.

Lemma set_dstoffs_length : forall l ds, length ds = length l -> length (set_dstoffs l ds) = length l.
Proof.
  induction l as [|t l IH]; intros [|x ds] H; cbn in *; try reflexivity; try discriminate.
  rewrite IH by lia. reflexivity.
Qed.

Lemma set_dstoffs_nth : forall l ds n, length ds = length l ->
  tt_off (nth n (set_dstoffs l ds) tt0) = tt_off (nth n l tt0) /\
  tt_isdst (nth n (set_dstoffs l ds) tt0) = tt_isdst (nth n l tt0) /\
  tt_abbr (nth n (set_dstoffs l ds) tt0) = tt_abbr (nth n l tt0).
Proof.
  induction l as [|t l IH]; intros [|x ds] n H; cbn [length] in H; try discriminate.
  - destruct n; cbn; repeat split; reflexivity.
  - cbn [set_dstoffs]. destruct n as [|n].
    + cbn. repeat split; reflexivity.
    + cbn [nth]. apply IH. lia.
Qed.

Lemma mk_types_length : forall abbr isstd isgmt l i, length (mk_types abbr isstd isgmt i l) = length l.
Proof.
  induction l as [|[[g dd] a] l IH]; intros i; cbn [mk_types length]; [reflexivity|]. rewrite IH. reflexivity.
Qed.

Lemma mk_types_nth : forall abbr isstd isgmt l i n g dd a, nth_error l n = Some (g, dd, a) ->
  let t := nth n (mk_types abbr isstd isgmt i l) tt0 in
  tt_off t = g /\ tt_isdst t = dd /\ tt_abbr t = abbr_of abbr a /\ tt_dstoff t = 0.
Proof.
  induction l as [|[[g' d'] a'] l IH]; intros i n g dd a H.
  - destruct n; discriminate.
  - destruct n as [|n]; cbn [nth_error] in H.
    + inversion H; subst. cbn. repeat split; reflexivity.
    + cbn [mk_types nth]. apply (IH (S i) n g dd a H).
Qed.

Lemma zero_diffs_refl : forall l : list Z,
  forallb (fun x => x =? 0) (map (fun q => fst q - snd q) (combine l l)) = true.
Proof.
  induction l as [|x l IH]; [reflexivity|]. cbn [combine map forallb fst snd]. rewrite IH.
  replace (x - x =? 0) with true by lia. reflexivity.
Qed.

Lemma init_of_nonempty : forall d, d_wall d <> [] -> z_init (zone_of d) = goff d (Some (-1)).
Proof. intros d H. cbn [zone_of z_init]. destruct (d_wall d); [contradiction|reflexivity]. Qed.

(* shape of a successful build with transitions *)
Lemma build_shape : forall r d, build r = Ok d -> r_types r <> [] -> r_times r <> [] ->
  let types0 := mk_types (r_abbr r) (r_isstd r) (r_isgmt r) O (r_types r) in
  exists s b ds dst,
    d = mkTz (r_times r) (wall_pass types0 (tt_off s) (r_times r) (r_idx r) (tt_off b)) (r_idx r)
             (set_dstoffs types0 ds) (Some s) dst (Some b) /\
    length ds = length types0 /\
    forallb (fun k => k <? len types0) (r_idx r) = true.
Proof.
  intros r d H Hty Hti types0. unfold build in H. fold types0 in H.
  destruct (forallb (fun k => k <? len types0) (r_idx r)) eqn:Ef; cbn [negb] in H; [|discriminate].
  destruct types0 as [|t0 tl] eqn:Et.
  - exfalso. apply Hty. pose proof (mk_types_length (r_abbr r) (r_isstd r) (r_isgmt r) (r_types r) O) as Hl.
    fold types0 in Hl. rewrite Et in Hl. destruct (r_types r); [reflexivity|discriminate].
  - rewrite <- Et in *. destruct (r_times r) as [|t1 ts] eqn:Ets; [contradiction|]. rewrite <- Ets in *.
    set (ds := dst_pass types0 (r_idx r) None 0 0 (map (fun _ => 0) types0)) in *.
    destruct (opt_tt (set_dstoffs types0 ds) _) as [s|] eqn:Es; [|discriminate].
    destruct (opt_tt (set_dstoffs types0 ds) (match first_std types0 0 with Some k => Some k | None => Some 0 end))
      as [b|] eqn:Eb; [|discriminate].
    inversion H; subst d. exists s, b, ds. eexists. split; [reflexivity|]. split; [|reflexivity].
    unfold ds. rewrite dst_pass_length. apply map_length.
Qed.

Theorem build_good_lemma : forall r d, build r = Ok d -> r_types r <> [] ->
  length (r_idx r) = length (r_times r) -> good d = true.
Proof.
  intros r d H Hty Hlen.
  destruct (r_times r) as [|t1 ts] eqn:Ets.
  - (* no transitions *)
    unfold build in H. rewrite Ets in H.
    destruct (negb (forallb _ (r_idx r))); [discriminate|].
    destruct (mk_types (r_abbr r) (r_isstd r) (r_isgmt r) 0 (r_types r)) eqn:Et.
    + exfalso. apply Hty. pose proof (mk_types_length (r_abbr r) (r_isstd r) (r_isgmt r) (r_types r) O) as Hl.
      rewrite Et in Hl. destruct (r_types r); [reflexivity|discriminate].
    + inversion H; subst d. reflexivity.
  - rewrite <- Ets in *. assert (Hti : r_times r <> []) by (rewrite Ets; discriminate).
    destruct (build_shape r d H Hty Hti) as [s [b [ds [dst [Hd [Hds Hf]]]]]].
    set (types0 := mk_types (r_abbr r) (r_isstd r) (r_isgmt r) O (r_types r)) in *.
    set (wl := wall_pass types0 (tt_off s) (r_times r) (r_idx r) (tt_off b)) in *.
    assert (Hwl : wl = walls (tt_off b) (combine (r_times r) (effs_rec types0 (tt_off s) (r_idx r)))).
    { unfold wl. apply wall_pass_walls. lia. }
    assert (Hlw : length wl = length (r_times r)).
    { rewrite Hwl. pose proof (len_walls (combine (r_times r) (effs_rec types0 (tt_off s) (r_idx r))) (tt_off b)) as Hl.
      unfold len in Hl. apply Nat2Z.inj in Hl. rewrite Hl. rewrite combine_length, effs_rec_length. lia. }
    assert (Hn : (0 < length (r_times r))%nat) by (rewrite Ets; cbn; lia).
    (* the abstract zone of d *)
    assert (Hinit : z_init (zone_of d) = tt_off b).
    { rewrite init_of_nonempty.
      2:{ rewrite Hd. cbn [d_wall]. intros Hnil. rewrite Hnil in Hlw. cbn in Hlw. lia. }
      rewrite Hd. unfold goff, get_ttinfo. cbn [d_wall d_before d_std]. unfold len. rewrite Hlw.
      destruct (-1 + 1 >=? Z.of_nat (length (r_times r))) eqn:E; [lia|]. reflexivity. }
    assert (Heff : eff_offs d = effs_rec types0 (tt_off s) (r_idx r)).
    { apply nthZ_ext.
      - unfold eff_offs. rewrite map_length, seqZ_length, effs_rec_length. rewrite Hd. cbn [d_utc]. lia.
      - intros i Hi. unfold eff_offs in *. unfold len in Hi. rewrite map_length, seqZ_length in Hi.
        rewrite nthZ_map_seqZ by lia. replace (0 + i) with i by lia.
        rewrite Hd in Hi. cbn [d_utc] in Hi.
        rewrite effs_rec_nth by (unfold len; lia).
        rewrite Hd. unfold goff, get_ttinfo. cbn [d_wall d_std d_before d_tt d_idx]. unfold len. rewrite Hlw, Hlen.
        destruct (i + 1 >=? Z.of_nat (length (r_times r))) eqn:E; [reflexivity|].
        destruct (i <? 0) eqn:E2; [lia|].
        unfold nth_tt. apply (set_dstoffs_nth types0 ds _ Hds). }
    unfold good. rewrite Hinit. cbn [zone_of z_trans]. rewrite Heff.
    rewrite Hd. cbn [d_wall d_utc d_idx d_std d_before is_none negb].
    rewrite Hlw, Hlen. rewrite Nat.eqb_refl. cbn [andb].
    rewrite Ets. cbn [andb]. rewrite <- Ets. rewrite Hwl. apply zero_diffs_refl.
Qed.

